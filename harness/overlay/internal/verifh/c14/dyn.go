//go:build verif

// Dynamic family of the C14 harness: cluster -> resource configured -> the cluster changes
// (watch events through the REAL informer event handlers of the controller) -> the REAL work
// queue is drained with the REAL sync -> the `server` lines of the configuration file the
// REAL Configurator wrote last (production templates) are the observable.  They must be the
// resolution on the NEW cluster; an event that is not enqueued although the resolution
// changed leaves NGINX with the old servers.
package main

import (
	"encoding/json"
	"fmt"
	"os"
	"reflect"
	"sort"
	"strings"

	"github.com/nginx/kubernetes-ingress/internal/configs"
	"github.com/nginx/kubernetes-ingress/internal/k8s"
	"github.com/nginx/kubernetes-ingress/internal/nginx"
	"github.com/nginx/kubernetes-ingress/internal/verifh/vh"
	conf_v1 "github.com/nginx/kubernetes-ingress/pkg/apis/configuration/v1"
	networking "k8s.io/api/networking/v1"
	meta_v1 "k8s.io/apimachinery/pkg/apis/meta/v1"
)

// DynSpec is the cluster after the change: the complete new lists of services and slices
// (pods do not change).  The events are derived by comparing old and new by name.
type DynSpec struct {
	Op      string  `json:"op"`
	Svcs2   []Svc   `json:"svcs2"`
	Slices2 []Slice `json:"slices2"`
}

type DynObs struct {
	Before  []string `json:"before"`  // server lines after the initial syncs
	Events  []string `json:"events"`  // kind:op:name, in the order they were delivered
	Queued  int      `json:"queued"`  // tasks in the work queue after the events
	Synced  int      `json:"synced"`  // tasks the drain ran
	After   []string `json:"after"`   // server lines after the drain
	HasFile bool     `json:"has_file"` // the upstream block of every backend exists
	Per     []PerObs `json:"per"`      // per backend (one resource each): the server lines of ITS upstream block
	Reloads int      `json:"reloads"`  // reloads / API calls / failed API calls during the events and the drain
	APICalls int     `json:"api_calls"`
	APIFails int     `json:"api_fails"`
	Panic   string   `json:"panic,omitempty"`
	Error   string   `json:"error,omitempty"`
}

type PerObs struct {
	Before  []string `json:"before"`  // what NGINX balanced over before the events
	After   []string `json:"after"`   // the server lines of the FILE after the drain
	Running []string `json:"running"` // what NGINX balances over after the drain (last reload + API calls)
	HasFile bool     `json:"has_file"`
}

// recMgr is the fake NGINX manager of the repository, remembering the files it is given.
type recMgr struct {
	*nginx.FakeManager
	conf, stream map[string]string
	pushed       map[string][]string // upstream -> servers of the last UpdateServersInPlus / UpdateStreamServersInPlus
	// NGINX as a process: what it balances over is what the files said at the LAST RELOAD, overwritten per
	// upstream by every successful NGINX Plus API call since.  Files take effect only at Reload.
	running  map[string][]string
	fail     map[string]bool // upstreams whose API calls fail (injected)
	reloads  int
	apiCalls int
	apiFails int
}

func newRecMgr() *recMgr {
	return &recMgr{FakeManager: nginx.NewFakeManager("/etc/nginx"), conf: map[string]string{}, stream: map[string]string{},
		pushed: map[string][]string{}, running: map[string][]string{}, fail: map[string]bool{}}
}
func (m *recMgr) api(upstream string, servers []string) error {
	m.apiCalls++
	if m.fail[upstream] {
		m.apiFails++
		return fmt.Errorf("injected NGINX Plus API failure for upstream %s", upstream)
	}
	m.pushed[upstream] = append([]string{}, servers...)
	m.running[upstream] = append([]string{}, servers...)
	return nil
}
func (m *recMgr) UpdateServersInPlus(upstream string, servers []string, _ nginx.ServerConfig) error {
	return m.api(upstream, servers)
}
func (m *recMgr) UpdateStreamServersInPlus(upstream string, servers []string) error {
	return m.api(upstream, servers)
}

// Reload: NGINX loads the files as they are now.
func (m *recMgr) Reload(_ bool) error {
	m.reloads++
	m.running = m.upstreamServers()
	return nil
}

// upstreamServers returns, per `upstream NAME {` block of all recorded files, the addresses of its `server` directives.
func (m *recMgr) upstreamServers() map[string][]string {
	out := map[string][]string{}
	for _, files := range []map[string]string{m.conf, m.stream} {
		for _, conf := range files {
			cur := ""
			for _, line := range strings.Split(conf, "\n") {
				f := strings.Fields(line)
				if len(f) == 0 {
					continue
				}
				switch {
				case f[0] == "upstream" && len(f) > 1:
					cur = f[1]
					if _, ok := out[cur]; !ok {
						out[cur] = []string{}
					}
				case cur != "" && f[0] == "}":
					cur = ""
				case cur != "" && f[0] == "server" && len(f) > 1:
					out[cur] = append(out[cur], strings.TrimSuffix(f[1], ";"))
				}
			}
		}
	}
	return out
}
// CreateConfig / CreateStreamConfig report, like LocalManager, whether the content of the file changed.
func (m *recMgr) CreateConfig(name string, content []byte) bool {
	old, ok := m.conf[name]
	m.conf[name] = string(content)
	return !ok || old != string(content)
}
func (m *recMgr) DeleteConfig(name string) { delete(m.conf, name) }
func (m *recMgr) CreateStreamConfig(name string, content []byte) bool {
	old, ok := m.stream[name]
	m.stream[name] = string(content)
	return !ok || old != string(content)
}
func (m *recMgr) DeleteStreamConfig(name string) { delete(m.stream, name) }

// serverLines returns the address of every `server` directive inside `upstream` blocks.
func serverLines(conf string) []string {
	out := []string{}
	in := false
	for _, line := range strings.Split(conf, "\n") {
		f := strings.Fields(line)
		if len(f) == 0 {
			continue
		}
		switch {
		case f[0] == "upstream":
			in = true
		case in && f[0] == "}":
			in = false
		case in && f[0] == "server" && len(f) > 1:
			out = append(out, strings.TrimSuffix(f[1], ";"))
		}
	}
	sort.Strings(out)
	return out
}

func (m *recMgr) servers(stream bool) ([]string, bool) {
	files := m.conf
	if stream {
		files = m.stream
	}
	all := []string{}
	found := false
	for _, content := range files {
		found = true
		all = append(all, serverLines(content)...)
	}
	sort.Strings(all)
	return all, found
}

func repoDir() string {
	if d := os.Getenv("VERIF_REPO"); d != "" {
		return d
	}
	return "/repo"
}

type obj struct {
	kind string
	o    interface{}
}

// resourceFor builds the resource(s) that carry the backend.
// resourceFor builds the resource(s) that carry backend number i of the case (one resource per
// backend, each with its own name and host) and returns the name of its upstream block.
func resourceFor(b Backend, i int) ([]obj, string) {
	sub := labelsOf(b.Subsel)
	host := fmt.Sprintf("h%d.example.com", i)
	switch b.Kind {
	case "ing":
		backend := networking.IngressBackend{Service: &networking.IngressServiceBackend{
			Name: b.Svc, Port: networking.ServiceBackendPort{Name: b.PortName, Number: int32(b.PortNum)}}}
		class := "nginx"
		ing := &networking.Ingress{ObjectMeta: meta_v1.ObjectMeta{Namespace: NS, Name: fmt.Sprintf("ing%d", i), Annotations: map[string]string{}},
			Spec: networking.IngressSpec{IngressClassName: &class}}
		if b.ClusterIP {
			ing.Annotations["nginx.org/use-cluster-ip"] = "true"
		}
		pt := networking.PathTypePrefix
		ing.Spec.Rules = []networking.IngressRule{{Host: host, IngressRuleValue: networking.IngressRuleValue{
			HTTP: &networking.HTTPIngressRuleValue{Paths: []networking.HTTPIngressPath{{Path: "/", PathType: &pt, Backend: backend}}}}}}
		return []obj{{"ingress", ing}}, configs.VerifC14IngressUpstreamName(ing, host, &backend)
	case "vs", "vsr":
		u := conf_v1.Upstream{Name: "u", Service: b.Svc, Port: uint16(b.PortNum), UseClusterIP: b.ClusterIP, Subselector: sub}
		vs := &conf_v1.VirtualServer{ObjectMeta: meta_v1.ObjectMeta{Namespace: NS, Name: fmt.Sprintf("vs%d", i)}, Spec: conf_v1.VirtualServerSpec{Host: host}}
		if b.Kind == "vs" {
			vs.Spec.Upstreams = []conf_v1.Upstream{u}
			vs.Spec.Routes = []conf_v1.Route{{Path: "/", Action: &conf_v1.Action{Pass: "u"}}}
			return []obj{{"virtualserver", vs}}, configs.NewUpstreamNamerForVirtualServer(vs).GetNameForUpstream("u")
		}
		rname := fmt.Sprintf("vsr%d", i)
		vs.Spec.Routes = []conf_v1.Route{{Path: "/r", Route: NS + "/" + rname}}
		vsr := &conf_v1.VirtualServerRoute{ObjectMeta: meta_v1.ObjectMeta{Namespace: NS, Name: rname},
			Spec: conf_v1.VirtualServerRouteSpec{Host: host, Upstreams: []conf_v1.Upstream{u},
				Subroutes: []conf_v1.Route{{Path: "/r", Action: &conf_v1.Action{Pass: "u"}}}}}
		return []obj{{"virtualserverroute", vsr}, {"virtualserver", vs}}, configs.NewUpstreamNamerForVirtualServerRoute(vs, vsr).GetNameForUpstream("u")
	case "ts":
		ts := &conf_v1.TransportServer{ObjectMeta: meta_v1.ObjectMeta{Namespace: NS, Name: fmt.Sprintf("ts%d", i)}, Spec: conf_v1.TransportServerSpec{
			Listener:  conf_v1.TransportServerListener{Name: fmt.Sprintf("tcp-%d", 5353+i), Protocol: "TCP"},
			Upstreams: []conf_v1.TransportServerUpstream{{Name: "u", Service: b.Svc, Port: b.PortNum}},
			Action:    &conf_v1.TransportServerAction{Pass: "u"}}}
		return []obj{{"transportserver", ts}}, configs.VerifC14TransportServerUpstreamName(ts, "u")
	}
	panic("unknown backend kind " + b.Kind)
}

func runDyn(c *Case) {
	o := DynObs{Before: []string{}, After: []string{}, Events: []string{}}
	defer func() {
		if r := recover(); r != nil {
			o.Panic = fmt.Sprint(r)
		}
		c.Obs = o
	}()
	if c.Dyn == nil || len(c.Backends) == 0 {
		o.Error = "a dyn case needs a change and at least one backend"
		return
	}
	m := newRecMgr()
	cnf, err := configs.VerifC14NewConfigurator(repoDir(), m, c.Plus)
	if err != nil {
		o.Error = err.Error()
		return
	}
	var listeners []conf_v1.Listener
	for i := range c.Backends {
		listeners = append(listeners, conf_v1.Listener{Name: fmt.Sprintf("tcp-%d", 5353+i), Port: 5353 + i, Protocol: "TCP"})
	}
	v, err := k8s.NewVerifC14Dyn(cnf, c.Plus, listeners)
	if err != nil {
		o.Error = err.Error()
		return
	}
	must := func(err error) {
		if err != nil {
			panic(err)
		}
	}
	// the cluster exists before the resource: stores are filled without events
	for _, s := range c.Svcs {
		must(v.Put("service", mkService(s)))
	}
	for _, s := range c.Slices {
		must(v.Put("endpointslice", mkSlice(s)))
	}
	for _, p := range c.Pods {
		must(v.Put("pod", mkPod(p)))
	}
	// one resource per backend (an Ingress, a VirtualServer, a VirtualServerRoute with its
	// VirtualServer, a TransportServer); several of them may share one Service
	ups := make([]string, len(c.Backends))
	for i, b := range c.Backends {
		objs, name := resourceFor(b, i)
		ups[i] = name
		for _, r := range objs {
			must(v.Event(r.kind, "add", nil, r.o))
		}
	}
	if _, err := v.Drain(100); err != nil {
		o.Error = err.Error()
		return
	}
	o.Per = make([]PerObs, len(c.Backends))
	for i := range c.Backends {
		o.Per[i].Before = sorted(m.running[ups[i]])
		o.Before = append(o.Before, o.Per[i].Before...)
	}
	// from now on the NGINX Plus API fails for the upstreams of the chosen backends
	for _, i := range c.APIFail {
		if i >= 0 && i < len(ups) {
			m.fail[ups[i]] = true
		}
	}
	m.reloads, m.apiCalls, m.apiFails = 0, 0, 0

	// the change, delivered as watch events: services first, then slices (as the EndpointSlice
	// controller reacts to the Service)
	oldSvc := map[string]Svc{}
	for _, s := range c.Svcs {
		oldSvc[s.Ns+"/"+s.Name] = s
	}
	seen := map[string]bool{}
	for _, s := range c.Dyn.Svcs2 {
		k := s.Ns + "/" + s.Name
		seen[k] = true
		if old, ok := oldSvc[k]; !ok {
			must(v.Event("service", "add", nil, mkService(s)))
			o.Events = append(o.Events, "service:add:"+s.Name)
		} else if !reflect.DeepEqual(old, s) {
			must(v.Event("service", "update", mkService(old), mkService(s)))
			o.Events = append(o.Events, "service:update:"+s.Name)
		}
	}
	for _, s := range c.Svcs {
		if !seen[s.Ns+"/"+s.Name] {
			must(v.Event("service", "delete", mkService(s), nil))
			o.Events = append(o.Events, "service:delete:"+s.Name)
		}
	}
	oldSl := map[string]Slice{}
	for _, s := range c.Slices {
		oldSl[s.Ns+"/"+s.Name] = s
	}
	seen = map[string]bool{}
	for _, s := range c.Dyn.Slices2 {
		k := s.Ns + "/" + s.Name
		seen[k] = true
		if old, ok := oldSl[k]; !ok {
			must(v.Event("endpointslice", "add", nil, mkSlice(s)))
			o.Events = append(o.Events, "endpointslice:add:"+s.Name)
		} else if !reflect.DeepEqual(old, s) {
			must(v.Event("endpointslice", "update", mkSlice(old), mkSlice(s)))
			o.Events = append(o.Events, "endpointslice:update:"+s.Name)
		}
	}
	for _, s := range c.Slices {
		if !seen[s.Ns+"/"+s.Name] {
			must(v.Event("endpointslice", "delete", mkSlice(s), nil))
			o.Events = append(o.Events, "endpointslice:delete:"+s.Name)
		}
	}
	o.Queued = v.QueueLen()
	n, err := v.Drain(100)
	o.Synced = n
	if err != nil {
		o.Error = err.Error()
		return
	}
	files := m.upstreamServers()
	o.HasFile = true
	o.Reloads, o.APICalls, o.APIFails = m.reloads, m.apiCalls, m.apiFails
	for i := range c.Backends {
		s, ok := files[ups[i]]
		o.Per[i].After, o.Per[i].HasFile = sorted(s), ok
		o.Per[i].Running = sorted(m.running[ups[i]])
		o.After = append(o.After, o.Per[i].After...)
		o.HasFile = o.HasFile && ok
	}
}

// ---------- generator ----------

func deepCopy[T any](x T) T {
	b, err := json.Marshal(x)
	if err != nil {
		panic(err)
	}
	var y T
	if err := json.Unmarshal(b, &y); err != nil {
		panic(err)
	}
	return y
}

var dynOps = []string{"targetport", "targetport", "sliceport", "ready", "addr", "label", "slicedel", "sliceadd", "svcport", "burst", "burst"}

func genDyn(r *vh.Rng, id int) Case {
	c := Case{ID: id, Fam: "dyn", Class: "dyn", Plus: r.Chance(1, 4)}
	genCluster(r, &c)
	for i := range c.Svcs { // the dynamic family is about ordinary services
		if c.Svcs[i].Type == "ExternalName" {
			c.Svcs[i].Type, c.Svcs[i].ExtName, c.Svcs[i].ClusterIP = "ClusterIP", "", "10.96.0.99"
			c.Svcs[i].Selector = [][2]string{{"app", c.Svcs[i].Name}}
		}
	}
	si := r.Intn(len(c.Svcs))
	s := c.Svcs[si]
	pi := r.Intn(len(s.Ports))
	sp := s.Ports[pi]
	b := Backend{Kind: vh.Pick(r, []string{"ing", "vs", "vsr", "ts"}), Svc: s.Name, PortNum: sp.Port}
	if b.Kind == "ing" && sp.Name != "" && r.Chance(1, 3) {
		b.PortName, b.PortNum = sp.Name, 0
	}
	if (b.Kind == "vs" || b.Kind == "vsr") && r.Chance(1, 5) {
		b.Subsel = [][2]string{{"version", vh.Pick(r, []string{"v1", "v2"})}}
	}
	c.Backends = []Backend{b}
	// the same Service behind resources of two or three different kinds
	if r.Chance(1, 2) {
		kinds := []string{"ing", "vs", "vsr", "ts"}
		for k := 1 + r.Intn(2); k > 0; k-- {
			kind := kinds[r.Intn(len(kinds))]
			dup := false
			for _, x := range c.Backends {
				dup = dup || x.Kind == kind
			}
			if dup {
				continue
			}
			c.Backends = append(c.Backends, Backend{Kind: kind, Svc: s.Name, PortNum: sp.Port})
		}
		// any order of the kinds
		for k := len(c.Backends) - 1; k > 0; k-- {
			j := r.Intn(k + 1)
			c.Backends[k], c.Backends[j] = c.Backends[j], c.Backends[k]
		}
	} else if r.Chance(1, 2) {
		// two or three resources of the SAME kind on the Service (e.g. one database on several listeners)
		c.Backends[0].PortName, c.Backends[0].PortNum, c.Backends[0].Subsel = "", sp.Port, nil
		for k := 1 + r.Intn(2); k > 0; k-- {
			c.Backends = append(c.Backends, c.Backends[0])
		}
		// ... that do NOT all depend on the same endpoints, so that an event changes the file of a
		// proper subset only (stable / canary sub-selectors, one of them in cluster-IP mode, other
		// ports of the Service), at any position
		if r.Chance(2, 3) {
			for k := range c.Backends {
				bk := &c.Backends[k]
				switch x := r.Intn(6); {
				case x < 2 && (bk.Kind == "vs" || bk.Kind == "vsr"):
					bk.Subsel = [][2]string{{"version", vh.Pick(r, []string{"v1", "v2"})}}
				case x == 2 && bk.Kind != "ts":
					bk.ClusterIP = true
				case x == 3:
					bk.PortNum = s.Ports[r.Intn(len(s.Ports))].Port
				}
			}
		}
	}
	// NGINX Plus: the API fails for the upstream of one (sometimes two) of the resources
	if c.Plus && len(c.Backends) > 1 && r.Chance(1, 2) {
		c.APIFail = []int{r.Intn(len(c.Backends))}
		if r.Chance(1, 4) {
			c.APIFail = append(c.APIFail, r.Intn(len(c.Backends)))
		}
	} else if c.Plus && r.Chance(1, 6) {
		c.APIFail = []int{0}
	}

	d := &DynSpec{Op: vh.Pick(r, dynOps), Svcs2: deepCopy(c.Svcs), Slices2: deepCopy(c.Slices)}
	var mine []int // slices of the service
	for i, sl := range d.Slices2 {
		if sl.Ns == NS && sl.Svc == s.Name {
			mine = append(mine, i)
		}
	}
	if len(mine) == 0 && d.Op != "svcport" && d.Op != "burst" {
		d.Op = "sliceadd"
	}
	// the number the referenced port currently maps to (for a name: what the slices say)
	cur := sp.Port
	if sp.TKind == 1 {
		cur = sp.TNum
	}
	if sp.TKind == 2 {
		cur = 0
		for _, i := range mine {
			for _, p := range d.Slices2[i].Ports {
				if p.Name == sp.Name && p.HasNum {
					cur = p.Num
				}
			}
		}
	}
	switch d.Op {
	case "targetport":
		// the Service's targetPort changes, the EndpointSlice controller rewrites the ports of
		// the slices in place (same endpoints)
		nw := cur + 1010
		d.Svcs2[si].Ports[pi].TKind, d.Svcs2[si].Ports[pi].TNum, d.Svcs2[si].Ports[pi].TName = 1, nw, ""
		for _, i := range mine {
			for k := range d.Slices2[i].Ports {
				if d.Slices2[i].Ports[k].Name == sp.Name {
					d.Slices2[i].Ports[k].HasNum, d.Slices2[i].Ports[k].Num = true, nw
				}
			}
		}
	case "sliceport":
		i := mine[r.Intn(len(mine))]
		if len(d.Slices2[i].Ports) == 0 {
			d.Slices2[i].Ports = []SlicePort{{Name: sp.Name, HasNum: true, Num: cur, Proto: sp.Proto}}
		} else {
			k := r.Intn(len(d.Slices2[i].Ports))
			if d.Slices2[i].Ports[k].Num == cur {
				d.Slices2[i].Ports[k].Num = cur + 1
			} else {
				d.Slices2[i].Ports[k].HasNum, d.Slices2[i].Ports[k].Num = true, cur
			}
		}
	case "ready":
		i := mine[r.Intn(len(mine))]
		if len(d.Slices2[i].Eps) == 0 {
			d.Slices2[i].Eps = []Endp{{Addrs: []string{"10.0.2.1"}, Ready: 1, Ref: "new-0"}}
		} else {
			k := r.Intn(len(d.Slices2[i].Eps))
			if d.Slices2[i].Eps[k].Ready == 1 {
				d.Slices2[i].Eps[k].Ready = vh.Pick(r, []int{0, -1})
			} else {
				d.Slices2[i].Eps[k].Ready = 1
			}
		}
	case "addr":
		i := mine[r.Intn(len(mine))]
		if len(d.Slices2[i].Eps) == 0 || r.Chance(1, 3) {
			d.Slices2[i].Eps = append(d.Slices2[i].Eps, Endp{Addrs: []string{vh.Pick(r, []string{"10.0.2.1", "fd00::2:1"})}, Ready: 1, Ref: "new-0"})
		} else {
			k := r.Intn(len(d.Slices2[i].Eps))
			d.Slices2[i].Eps[k].Addrs = []string{vh.Pick(r, []string{"10.0.2.2", "fd00::2:2"})}
		}
	case "label":
		i := mine[r.Intn(len(mine))]
		d.Slices2[i].Svc = vh.Pick(r, []string{"other", ""})
	case "slicedel":
		i := mine[r.Intn(len(mine))]
		d.Slices2 = append(d.Slices2[:i], d.Slices2[i+1:]...)
	case "sliceadd":
		n := cur
		if n == 0 {
			n = 8080
		}
		d.Slices2 = append(d.Slices2, Slice{Ns: NS, Name: s.Name + "-added", Svc: s.Name,
			Ports: []SlicePort{{Name: sp.Name, HasNum: true, Num: n, Proto: sp.Proto}},
			Eps:   []Endp{{Addrs: []string{vh.Pick(r, []string{"10.0.2.3", "fd00::2:3"})}, Ready: 1, Ref: "added-0"}}})
	case "burst":
		// a burst of EndpointSlice events: at least three slices of the Service change at once
		// (readiness flips, new endpoints, new slices), so that at least three tasks are queued
		// and sync() goes into its batch mode
		changed := 0
		for _, i := range mine {
			if len(d.Slices2[i].Eps) == 0 {
				d.Slices2[i].Eps = []Endp{{Addrs: []string{fmt.Sprintf("10.0.3.%d", 1+i)}, Ready: 1, Ref: "burst"}}
			} else {
				k := r.Intn(len(d.Slices2[i].Eps))
				if d.Slices2[i].Eps[k].Ready == 1 {
					d.Slices2[i].Eps[k].Ready = 0
				} else {
					d.Slices2[i].Eps[k].Ready = 1
				}
			}
			changed++
		}
		n := cur
		if n == 0 {
			n = 8080
		}
		for k := 0; changed < 3+r.Intn(3); k++ {
			d.Slices2 = append(d.Slices2, Slice{Ns: NS, Name: fmt.Sprintf("%s-burst%d", s.Name, k), Svc: s.Name,
				Ports: []SlicePort{{Name: sp.Name, HasNum: true, Num: n, Proto: sp.Proto}},
				Eps:   []Endp{{Addrs: []string{fmt.Sprintf("10.0.4.%d", 1+k)}, Ready: 1, Ref: fmt.Sprintf("burst-%d", k)}}})
			changed++
		}
	case "svcport":
		// the number of the service port changes; the backend keeps asking for the old one
		d.Svcs2[si].Ports[pi].Port = sp.Port + 1
	}
	c.Dyn = d
	return c
}

// dynCorpus: the seeded scenario itself (targetPort 8080 -> 9090, slice ports rewritten in place)
func dynCorpus() []Case {
	tcp := "TCP"
	svc := func(t int) Svc {
		return Svc{Ns: NS, Name: "web", Type: "ClusterIP", ClusterIP: "10.96.0.1", Selector: [][2]string{{"app", "web"}},
			Ports: []SvcPort{{Name: "http", Port: 80, Proto: tcp, TKind: 1, TNum: t}}}
	}
	sl := func(n int) Slice {
		return Slice{Ns: NS, Name: "web-s0", Svc: "web", Ports: []SlicePort{{Name: "http", HasNum: true, Num: n, Proto: tcp}},
			Eps: []Endp{{Addrs: []string{"10.0.0.1"}, Ready: 1, Ref: "web-0"}}}
	}
	var cs []Case
	for _, k := range []string{"ing", "vs", "vsr", "ts"} {
		cs = append(cs, Case{Fam: "dyn", Class: "dyn-corpus-targetport", Svcs: []Svc{svc(8080)}, Slices: []Slice{sl(8080)},
			Backends: []Backend{{Kind: k, Svc: "web", PortNum: 80}},
			Dyn:      &DynSpec{Op: "targetport", Svcs2: []Svc{svc(9090)}, Slices2: []Slice{sl(9090)}}})
	}
	// one Service behind resources of several kinds, then its endpoints change
	sl2 := Slice{Ns: NS, Name: "web-s0", Svc: "web", Ports: []SlicePort{{Name: "http", HasNum: true, Num: 8080, Proto: tcp}},
		Eps: []Endp{{Addrs: []string{"10.0.0.1"}, Ready: 0, Ref: "web-0"}, {Addrs: []string{"10.0.0.2"}, Ready: 1, Ref: "web-1"}}}
	for _, kinds := range [][]string{{"ing", "vs"}, {"ing", "ts"}, {"vs", "ts"}, {"vsr", "ing"}, {"ts", "vs", "ing"}} {
		for _, plus := range []bool{false, true} {
			var bs []Backend
			for _, k := range kinds {
				bs = append(bs, Backend{Kind: k, Svc: "web", PortNum: 80})
			}
			cs = append(cs, Case{Fam: "dyn", Class: "dyn-corpus-shared-service", Plus: plus, Svcs: []Svc{svc(8080)}, Slices: []Slice{sl(8080)},
				Backends: bs, Dyn: &DynSpec{Op: "ready", Svcs2: []Svc{svc(8080)}, Slices2: []Slice{sl2}}})
		}
	}
	// NGINX Plus, several resources of one kind on the Service, the API fails at each position
	for _, kind := range []string{"ts", "vs", "ing"} {
		for _, n := range []int{2, 3} {
			for f := 0; f < n; f++ {
				var bs []Backend
				for k := 0; k < n; k++ {
					bs = append(bs, Backend{Kind: kind, Svc: "web", PortNum: 80})
				}
				cs = append(cs, Case{Fam: "dyn", Class: "dyn-corpus-api-failure", Plus: true, Svcs: []Svc{svc(8080)}, Slices: []Slice{sl(8080)},
					Backends: bs, APIFail: []int{f}, Dyn: &DynSpec{Op: "ready", Svcs2: []Svc{svc(8080)}, Slices2: []Slice{sl2}}})
			}
		}
	}
	// an event that changes the file of ONE of three resources of a kind on the Service -- the first,
	// the middle, the last one (VirtualServers: stable / canary sub-selectors and one in cluster-IP
	// mode; TransportServers: ports of the Service with one slice per port), OSS and Plus
	pods := []Pod{{Ns: NS, Name: "web-0", IP: "10.0.0.1", Labels: [][2]string{{"app", "web"}, {"version", "v1"}}},
		{Ns: NS, Name: "web-1", IP: "10.0.0.2", Labels: [][2]string{{"app", "web"}, {"version", "v2"}}},
		{Ns: NS, Name: "web-2", IP: "10.0.0.3", Labels: [][2]string{{"app", "web"}, {"version", "v2"}}}}
	slv := func(r2, r3 int) Slice {
		return Slice{Ns: NS, Name: "web-s0", Svc: "web", Ports: []SlicePort{{Name: "http", HasNum: true, Num: 8080, Proto: tcp}},
			Eps: []Endp{{Addrs: []string{"10.0.0.1"}, Ready: 1, Ref: "web-0"}, {Addrs: []string{"10.0.0.2"}, Ready: r2, Ref: "web-1"},
				{Addrs: []string{"10.0.0.3"}, Ready: r3, Ref: "web-2"}}}
	}
	v1 := Backend{Kind: "vs", Svc: "web", PortNum: 80, Subsel: [][2]string{{"version", "v1"}}}
	v2 := Backend{Kind: "vs", Svc: "web", PortNum: 80, Subsel: [][2]string{{"version", "v2"}}}
	cip := Backend{Kind: "vs", Svc: "web", PortNum: 80, ClusterIP: true}
	for _, bs := range [][]Backend{{v2, v1, cip}, {v1, v2, cip}, {v1, cip, v2}, {v2, v1}, {v1, v2}} {
		for _, plus := range []bool{false, true} {
			cs = append(cs, Case{Fam: "dyn", Class: "dyn-corpus-subset-of-resources", Plus: plus, Svcs: []Svc{svc(8080)}, Slices: []Slice{slv(1, 0)}, Pods: pods,
				Backends: bs, Dyn: &DynSpec{Op: "ready", Svcs2: []Svc{svc(8080)}, Slices2: []Slice{slv(0, 1)}}})
		}
	}
	svc2 := Svc{Ns: NS, Name: "web", Type: "ClusterIP", ClusterIP: "10.96.0.1", Selector: [][2]string{{"app", "web"}},
		Ports: []SvcPort{{Name: "http", Port: 80, Proto: tcp, TKind: 1, TNum: 8080}, {Name: "alt", Port: 81, Proto: tcp, TKind: 1, TNum: 8081},
			{Name: "adm", Port: 82, Proto: tcp, TKind: 1, TNum: 8082}}}
	pslice := func(name, pname string, num int, addr string) Slice {
		return Slice{Ns: NS, Name: name, Svc: "web", Ports: []SlicePort{{Name: pname, HasNum: true, Num: num, Proto: tcp}},
			Eps: []Endp{{Addrs: []string{addr}, Ready: 1, Ref: name}}}
	}
	for _, kind := range []string{"ts", "vs"} {
		for _, ports := range [][]int{{80, 81, 82}, {81, 80, 82}, {81, 82, 80}, {80, 81}, {81, 80}} {
			for _, plus := range []bool{false, true} {
				var bs []Backend
				for _, p := range ports {
					bs = append(bs, Backend{Kind: kind, Svc: "web", PortNum: p})
				}
				cs = append(cs, Case{Fam: "dyn", Class: "dyn-corpus-subset-of-resources", Plus: plus, Svcs: []Svc{svc2},
					Slices:   []Slice{pslice("web-p80", "http", 8080, "10.0.0.1"), pslice("web-p81", "alt", 8081, "10.0.0.1"), pslice("web-p82", "adm", 8082, "10.0.0.1")},
					Backends: bs, Dyn: &DynSpec{Op: "addr", Svcs2: []Svc{svc2},
						Slices2: []Slice{pslice("web-p80", "http", 8080, "10.0.0.9"), pslice("web-p81", "alt", 8081, "10.0.0.1"), pslice("web-p82", "adm", 8082, "10.0.0.1")}}})
			}
		}
	}
	// a burst of three EndpointSlice events (batch mode of sync), every kind, OSS and Plus
	three := func(r1, r2 int, a3 string) []Slice {
		mk := func(name, addr string, ready int) Slice {
			return Slice{Ns: NS, Name: name, Svc: "web", Ports: []SlicePort{{Name: "http", HasNum: true, Num: 8080, Proto: tcp}},
				Eps: []Endp{{Addrs: []string{addr}, Ready: ready, Ref: name}}}
		}
		return []Slice{mk("web-s0", "10.0.0.1", r1), mk("web-s1", "10.0.0.2", r2), mk("web-s2", a3, 1)}
	}
	for _, kinds := range [][]string{{"ing"}, {"vs"}, {"vsr"}, {"ts"}, {"ing", "vs", "ts"}} {
		for _, plus := range []bool{false, true} {
			var bs []Backend
			for _, k := range kinds {
				bs = append(bs, Backend{Kind: k, Svc: "web", PortNum: 80})
			}
			cs = append(cs, Case{Fam: "dyn", Class: "dyn-corpus-burst", Plus: plus, Svcs: []Svc{svc(8080)}, Slices: three(1, 0, "10.0.0.3"),
				Backends: bs, Dyn: &DynSpec{Op: "burst", Svcs2: []Svc{svc(8080)}, Slices2: three(0, 1, "10.0.0.4")}})
		}
	}
	return cs
}
