(* C17 -- functions the generated cases files call.  No proofs here.

   Protocol.  A shape is named by a decimal code (one decimal digit per field, leading 1).
   For every shape the harness reports digits (0 ok, 1 rejected, 2 panic), one group per
   (flag setting, prior state) in the order of the enumerations of Model.v.  Codes and digit
   strings travel as primitive 63-bit integers (literals of type [int] parse in constant
   time; [Z] and [string] literals of this size do not): the code as it is, the digits
   packed base 4, 30 per integer, first digit in the lowest bits.  The functions below
   decode the code, compute the same digits from the model and compare. *)
From Coq Require Import List ZArith Bool Arith Uint63.
From NIC Require Import Shapes.Model.
Import ListNotations.

(* ------------------------------------------------------------------ digits *)

Definition small_nat (x : int) : nat := Z.to_nat (Uint63.to_Z x).

(* decimal digits of x, least significant first *)
Fixpoint dec_digits (n : nat) (x : int) : list nat :=
  match n with
  | O => []
  | S n' => small_nat (x mod 10)%uint63 :: dec_digits n' (x / 10)%uint63
  end.

(* n base-4 digits of x, lowest first *)
Fixpoint quads (n : nat) (x : int) : list nat :=
  match n with
  | O => []
  | S n' => small_nat (x land 3)%uint63 :: quads n' (x >> 2)%uint63
  end.

(* the harness digit string: up to 90 digits in three integers *)
Definition unpack (n : nat) (a b c : int) : list nat :=
  quads (Nat.min n 30) a ++ quads (Nat.min (n - 30) 30) b ++ quads (Nat.min (n - 60) 30) c.

Fixpoint nats_eqb (a b : list nat) : bool :=
  match a, b with
  | [], [] => true
  | x :: a', y :: b' => Nat.eqb x y && nats_eqb a' b'
  | _, _ => false
  end.

Definition has2 (l : list nat) : bool := existsb (Nat.eqb 2) l.
Definition worst_digit (l : list nat) : Z :=
  if has2 l then 2%Z else if existsb (Nat.eqb 1) l then 1%Z else 0%Z.

(* drop the last digit of every group of [g] (the S-only digit the model does not predict) *)
Fixpoint strip_last (g : nat) (k : nat) (l : list nat) : list nat :=
  match l with
  | [] => []
  | x :: t => if Nat.eqb (S k) g then strip_last g 0 t else x :: strip_last g (S k) t
  end.

Definition odigit (o : outcome) : nat :=
  match o with OOk => 0 | ORejected => 1 | OPanic => 2 end.

(* code of a list of decimal digits given most significant first, with a leading 1 *)
Definition code_of (ds : list nat) : int :=
  fold_left (fun acc d => (acc * 10 + Uint63.of_Z (Z.of_nat d))%uint63) ds 1%uint63.

(* row: [id; model agrees; spec holds; nontrivial; branch tag]
   spec (S): an admissible shape shows no panic digit anywhere (including S-only digits).
   nontrivial: the shape is admissible.  tag: 10 * admissible + worst digit of the model;
   tag -1: the code does not name a shape. *)
Definition row (id : int) (model obs_model_part obs_all : list nat) (adm : bool) : list Z :=
  [Uint63.to_Z id;
   if nats_eqb model obs_model_part then 1 else 0;
   if adm && has2 obs_all then 0 else 1;
   if adm then 1 else 0;
   (if adm then 10 else 0) + worst_digit model]%Z.

Definition bad_row (id : int) : list Z := [Uint63.to_Z id; 0; 0; 0; (-1)]%Z.

(* ------------------------------------------------------------------ Ingress codes *)

(* digits, most significant first, after the leading 1:
   d default backend (0 none, 1 service, 2 resource, 3 neither); t tls; m mergeable type
   (0 none, 1 master, 2 minion, 3 garbage); c challenge label; a annotations (0,1,2);
   n number of rules; h http of rule 1 (0 nil, 1 no paths, 2 one path, 3 two paths);
   s pathType shape of the first path (0 nil, 1 ImplementationSpecific+empty, 2 Prefix);
   k backend of the first path (1 service, 2 resource, 3 neither); k2 backend of the second
   path; r2 second rule (0 nil http, 1-3 backend of its path).  Unused fields are 0. *)
Definition bk_digit (k : bk) : nat := match k with KSvc => 1 | KRes => 2 | KNeither => 3 end.
Definition ps_digit (s : pspec) : nat := match s with PNil => 0 | PImplEmpty => 1 | PPrefix => 2 end.

Definition http_digits (h : http_sh) : list nat :=
  match h with
  | HNil => [0; 0; 0; 0]
  | HPaths Ps0 => [1; 0; 0; 0]
  | HPaths (Ps1 s k) => [2; ps_digit s; bk_digit k; 0]
  | HPaths (Ps2 s k k2) => [3; ps_digit s; bk_digit k; bk_digit k2]
  end.

Definition rules_digits (r : rules_sh) : list nat :=
  match r with
  | Rs0 => [0; 0; 0; 0; 0; 0]
  | Rs1 h => 1 :: http_digits h ++ [0]
  | Rs2 h x => 2 :: http_digits h ++ [match x with R2Nil => 0 | R2Path k => bk_digit k end]
  end.

Definition ing_digits (s : ing_shape) : list nat :=
  [match sh_default s with None => 0 | Some k => bk_digit k end;
   if sh_tls s then 1 else 0;
   match sh_merge s with MNone => 0 | MMaster => 1 | MMinion => 2 | MGarbage => 3 end;
   if sh_chal s then 1 else 0;
   match sh_ann s with ANone => 0 | AClusterIP => 1 | AHealth => 2 end] ++ rules_digits (sh_rules s).

Definition ing_code (s : ing_shape) : int := code_of (ing_digits s).

Definition parse_bk (d : nat) : option bk :=
  match d with 1 => Some KSvc | 2 => Some KRes | 3 => Some KNeither | _ => None end.
Definition parse_ps (d : nat) : option pspec :=
  match d with 0 => Some PNil | 1 => Some PImplEmpty | 2 => Some PPrefix | _ => None end.
Definition parse_bool (d : nat) : option bool :=
  match d with 0 => Some false | 1 => Some true | _ => None end.

Definition parse_http (h s k k2 : nat) : option http_sh :=
  match h with
  | 0 => Some HNil
  | 1 => Some (HPaths Ps0)
  | 2 => match parse_ps s, parse_bk k with Some x, Some y => Some (HPaths (Ps1 x y)) | _, _ => None end
  | 3 => match parse_ps s, parse_bk k, parse_bk k2 with
         | Some x, Some y, Some z => Some (HPaths (Ps2 x y z)) | _, _, _ => None end
  | _ => None
  end.

Definition parse_rules (n h s k k2 r2 : nat) : option rules_sh :=
  match n with
  | 0 => Some Rs0
  | 1 => option_map Rs1 (parse_http h s k k2)
  | 2 => match parse_http h s k k2 with
         | Some x => match r2 with
                     | 0 => Some (Rs2 x R2Nil)
                     | _ => option_map (fun b => Rs2 x (R2Path b)) (parse_bk r2)
                     end
         | None => None
         end
  | _ => None
  end.

(* decode; the result is accepted only when it encodes back to the same code (canonical) *)
Definition ing_of_code (c : int) : option ing_shape :=
  match rev (dec_digits 12 c) with
  | [1; d; t; m; ch; a; n; h; s; k; k2; r2] =>
      let od := match d with 0 => Some None | _ => option_map Some (parse_bk d) end in
      let om := match m with 0 => Some MNone | 1 => Some MMaster | 2 => Some MMinion | 3 => Some MGarbage | _ => None end in
      let oa := match a with 0 => Some ANone | 1 => Some AClusterIP | 2 => Some AHealth | _ => None end in
      match od, parse_bool t, om, parse_bool ch, oa, parse_rules n h s k k2 r2 with
      | Some d', Some t', Some m', Some c', Some a', Some r' =>
          let sh := {| sh_default := d'; sh_tls := t'; sh_rules := r'; sh_merge := m'; sh_chal := c'; sh_ann := a' |} in
          if Uint63.eqb (ing_code sh) c then Some sh else None
      | _, _, _, _, _, _ => None
      end
  | _ => None
  end.

(* the model's digits for one Ingress shape: for every flag setting of all_iflags, for every
   prior state of all_ctx: validate, store, extend, delete *)
Definition obs_digits (o : option ing_obs) : list nat :=
  match o with
  | None => [9; 9; 9; 9]
  | Some o => [odigit (o_validate o); odigit (o_config o); odigit (o_extend o); odigit (o_delete o)]
  end.

Definition ing_model_digits_with chal (s : ing_shape) : list nat :=
  flat_map (fun fl => flat_map (fun c =>
    obs_digits (scenario_observe_with chal {| sc_flags := fl; sc_ctx := c; sc_shape := s |})) all_ctx) all_iflags.

Definition ing_model_digits := ing_model_digits_with validate_challenge.

(* the harness reports 5 digits per group: the model's four plus the worker's sync function *)
Definition ing_case (id code o1 o2 o3 : int) : list Z :=
  match ing_of_code code with
  | None => bad_row id
  | Some s =>
      let obs := unpack 80 o1 o2 o3 in
      row id (ing_model_digits s) (strip_last 5 0 obs) obs (shape_admissible s)
  end.

(* sizes of the enumerations, in the order ing, vs, vsr, ts, pol, gc *)
Definition shape_counts : list nat := [List.length all_ing_shapes; 0; 0; 0; 0; 0].
