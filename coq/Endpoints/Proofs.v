(* C14 -- proofs about Endpoints.Model against Endpoints.Spec.  All statements are for
   arbitrary clusters (unbounded lists of services, slices, endpoints, addresses, pods). *)
From Coq Require Import List ZArith String Ascii Bool Lia Permutation.
From NIC Require Import Endpoints.Model Endpoints.Spec.
Import ListNotations.
Open Scope string_scope.
Open Scope Z_scope.

(* ====================== strings ====================== *)

Lemma append_nil_r (s : string) : s ++ "" = s.
Proof. induction s; simpl; congruence. Qed.

Lemma append_assoc (a b c : string) : (a ++ b) ++ c = a ++ (b ++ c).
Proof. induction a; simpl; congruence. Qed.

Lemma length_append (a b : string) : String.length (a ++ b) = (String.length a + String.length b)%nat.
Proof. induction a; simpl; congruence. Qed.

Lemma append_right_cancel (s a b : string) : a ++ s = b ++ s -> a = b.
Proof.
  revert b; induction a as [|c a IH]; intros [|d b] H; simpl in *.
  - reflexivity.
  - exfalso. apply (f_equal String.length) in H. simpl in H. rewrite length_append in H. lia.
  - exfalso. apply (f_equal String.length) in H. simpl in H. rewrite length_append in H. lia.
  - injection H as -> H. f_equal. auto.
Qed.

Lemma append_left_cancel (s a b : string) : s ++ a = s ++ b -> a = b.
Proof. induction s; simpl; intros H; [assumption|injection H; auto]. Qed.

Lemma has_colon_app (a b : string) : has_colon (a ++ b) = has_colon a || has_colon b.
Proof. induction a; simpl; [reflexivity|]. rewrite IHa. now rewrite orb_assoc. Qed.

Lemma host_part_inj (a b : string) : host_part a = host_part b -> a = b.
Proof.
  unfold host_part. destruct (has_colon a) eqn:Ha, (has_colon b) eqn:Hb; intros H.
  - apply append_left_cancel in H. now apply append_right_cancel in H.
  - exfalso. rewrite <- H in Hb. rewrite !has_colon_app, Ha in Hb. simpl in Hb. discriminate.
  - exfalso. rewrite H in Ha. rewrite !has_colon_app, Hb in Ha. simpl in Ha. discriminate.
  - assumption.
Qed.

Lemma join_inj (a b : string) (P : Z) : join a P = join b P -> a = b.
Proof. unfold join. intros H. apply append_right_cancel in H. now apply host_part_inj. Qed.

Lemma join_bracketed (a : string) (P : Z) : bracketed a P (join a P).
Proof.
  unfold bracketed, join, host_part. split; intros ->; [|reflexivity].
  now rewrite !append_assoc.
Qed.

(* ====================== small list facts ====================== *)

Lemma find_some_iff {A} (f : A -> bool) l x : find f l = Some x -> In x l /\ f x = true.
Proof. apply find_some. Qed.

Lemma eqb_eq' a b : String.eqb a b = true <-> a = b.
Proof. apply String.eqb_eq. Qed.

Lemma mem_In x l : mem x l = true <-> In x l.
Proof.
  unfold mem. rewrite existsb_exists. split.
  - intros (y & Hy & E). apply String.eqb_eq in E. now subst.
  - intros H. exists x. split; [assumption|apply String.eqb_refl].
Qed.

Lemma nodupb_NoDup l : nodupb l = true <-> NoDup l.
Proof.
  induction l as [|x r IH]; simpl.
  - split; [constructor|reflexivity].
  - rewrite andb_true_iff, negb_true_iff, IH. split.
    + intros [H1 H2]. constructor; [|assumption]. rewrite <- mem_In. now rewrite H1.
    + intros H. inversion H; subst. split; [|assumption].
      destruct (mem x r) eqn:E; [|reflexivity]. apply mem_In in E. contradiction.
Qed.

Lemma subsetb_incl a b : subsetb a b = true <-> incl a b.
Proof.
  unfold subsetb, incl. rewrite forallb_forall. split; intros H x Hx.
  - apply mem_In. auto.
  - apply mem_In. auto.
Qed.

Lemma same_set_iff a b : same_set a b = true <-> (forall x, In x a <-> In x b).
Proof.
  unfold same_set. rewrite andb_true_iff, !subsetb_incl. unfold incl. split.
  - intros [H1 H2] x. split; auto.
  - intros H. split; intros x; apply H.
Qed.

(* S is the decidable form of: each once, and exactly the ideal set *)
Lemma exact_ok_iff ideal obs :
  exact_ok ideal obs = true <-> NoDup obs /\ (forall x, In x obs <-> In x ideal).
Proof. unfold exact_ok. now rewrite andb_true_iff, nodupb_NoDup, same_set_iff. Qed.

(* ====================== the ideal lists are the ideal sets ====================== *)

Lemma is_ready_iff e : is_ready e = true <-> e_ready e = Some true.
Proof. unfold is_ready. destruct (e_ready e) as [[|]|]; split; congruence. Qed.

Lemma port_is_iff P p : port_is P p = true <-> slp_num p = Some P.
Proof.
  unfold port_is. destruct (slp_num p) as [n|]; [|split; discriminate].
  rewrite Z.eqb_eq. split; congruence.
Qed.

Lemma slice_has_port_iff P sl : slice_has_port P sl = true <-> has_port_num sl P.
Proof.
  unfold slice_has_port, has_port_num. rewrite existsb_exists.
  split; intros (p & H1 & H2); exists p; split; auto; now apply port_is_iff.
Qed.

Lemma slice_of_iff svc sl : slice_of svc sl = true <-> sl_svc sl = s_name svc /\ sl_ns sl = s_ns svc.
Proof.
  unfold slice_of. rewrite andb_true_iff, !String.eqb_eq. split; intros [H1 H2]; split; congruence.
Qed.

Lemma ideal_num_iff c svc P x : In x (ideal_num c svc P) <-> ideal_member c svc P x.
Proof.
  unfold ideal_num, ideal_member. rewrite in_flat_map. split.
  - intros (sl & Hsl & H).
    destruct (slice_of svc sl) eqn:E1; [|contradiction].
    destruct (slice_has_port P sl) eqn:E2; [|contradiction]. simpl in H.
    apply in_flat_map in H. destruct H as (e & He & H).
    destruct (is_ready e) eqn:E3; [|contradiction].
    apply in_map_iff in H. destruct H as (a & <- & Ha).
    apply slice_of_iff in E1. destruct E1.
    exists sl, e, a. repeat split; auto.
    + now apply slice_has_port_iff.
    + now apply is_ready_iff.
  - intros (sl & e & a & Hsl & H1 & H2 & H3 & He & Hr & Ha & ->).
    exists sl. split; [assumption|].
    assert (E1 : slice_of svc sl = true) by (apply slice_of_iff; auto).
    apply slice_has_port_iff in H3. rewrite E1, H3. simpl.
    apply in_flat_map. exists e. split; [assumption|].
    apply is_ready_iff in Hr. rewrite Hr. apply in_map_iff. eauto.
Qed.

Lemma ideal_name_iff c svc pname x : In x (ideal_name c svc pname) <-> ideal_member_by_name c svc pname x.
Proof.
  unfold ideal_name, ideal_member_by_name. rewrite in_flat_map. split.
  - intros (sl & Hsl & H).
    destruct (slice_of svc sl) eqn:E1; [|contradiction].
    apply in_flat_map in H. destruct H as (p & Hp & H).
    destruct (slp_num p) as [n|] eqn:En; [|contradiction].
    destruct (String.eqb (slp_name p) pname) eqn:Ename; [|contradiction].
    apply in_flat_map in H. destruct H as (e & He & H).
    destruct (is_ready e) eqn:E3; [|contradiction].
    apply in_map_iff in H. destruct H as (a & <- & Ha).
    apply slice_of_iff in E1. destruct E1. apply String.eqb_eq in Ename.
    exists sl, p, n, e, a. repeat split; auto. now apply is_ready_iff.
  - intros (sl & p & n & e & a & Hsl & H1 & H2 & Hp & Hname & Hn & He & Hr & Ha & ->).
    exists sl. split; [assumption|].
    assert (E1 : slice_of svc sl = true) by (apply slice_of_iff; auto). rewrite E1.
    apply in_flat_map. exists p. split; [assumption|]. rewrite Hn.
    apply String.eqb_eq in Hname. rewrite Hname.
    apply in_flat_map. exists e. split; [assumption|].
    apply is_ready_iff in Hr. rewrite Hr. apply in_map_iff. eauto.
Qed.

Lemma pod_has_ip_iff c svc sub a :
  pod_has_ip c svc sub a = true <->
  exists pod, In pod (c_pods c) /\ p_ns pod = s_ns svc /\
              sel_matches (merge_labels (s_selector svc) sub) (p_labels pod) = true /\ p_ip pod = a.
Proof.
  unfold pod_has_ip. rewrite existsb_exists. split.
  - intros (pod & Hp & H). rewrite !andb_true_iff, !String.eqb_eq in H. destruct H as [[H1 H2] H3]. eauto 6.
  - intros (pod & Hp & H1 & H2 & H3). exists pod. split; [assumption|].
    rewrite !andb_true_iff, !String.eqb_eq. auto.
Qed.

Lemma ideal_sub_iff c svc sub P x : In x (ideal_sub c svc sub P) <-> ideal_member_sub c svc sub P x.
Proof.
  unfold ideal_sub, ideal_member_sub. rewrite in_flat_map. split.
  - intros (sl & Hsl & H).
    destruct (slice_of svc sl) eqn:E1; [|contradiction].
    destruct (slice_has_port P sl) eqn:E2; [|contradiction]. simpl in H.
    apply in_flat_map in H. destruct H as (e & He & H).
    destruct (is_ready e) eqn:E3; [|contradiction].
    apply in_flat_map in H. destruct H as (a & Ha & H).
    destruct (pod_has_ip c svc sub a) eqn:E4; [|contradiction].
    destruct H as [<-|[]].
    apply pod_has_ip_iff in E4. destruct E4 as (pod & Q1 & Q2 & Q3 & Q4).
    apply slice_of_iff in E1. destruct E1.
    exists sl, e, a, pod. repeat split; auto.
    + now apply slice_has_port_iff.
    + now apply is_ready_iff.
  - intros (sl & e & a & pod & Hsl & H1 & H2 & H3 & He & Hr & Ha & Q1 & Q2 & Q3 & Q4 & ->).
    exists sl. split; [assumption|].
    assert (E1 : slice_of svc sl = true) by (apply slice_of_iff; auto).
    apply slice_has_port_iff in H3. rewrite E1, H3. simpl.
    apply in_flat_map. exists e. split; [assumption|].
    apply is_ready_iff in Hr. rewrite Hr.
    apply in_flat_map. exists a. split; [assumption|].
    assert (E4 : pod_has_ip c svc sub a = true) by (apply pod_has_ip_iff; eauto 6).
    rewrite E4. now left.
Qed.

(* ====================== the resolution functions ====================== *)

Lemma In_select_slices P sls sl :
  In sl (select_slices P sls) <-> In sl sls /\ has_port_num sl P.
Proof.
  unfold select_slices, has_port_num. rewrite in_flat_map. split.
  - intros (sl' & Hsl' & H). apply in_flat_map in H. destruct H as (p & Hp & H).
    destruct (port_is P p) eqn:E; [|contradiction]. destruct H as [<-|[]].
    split; [assumption|]. exists p. split; [assumption|now apply port_is_iff].
  - intros (Hsl & p & Hp & Hn). exists sl. split; [assumption|].
    apply in_flat_map. exists p. split; [assumption|].
    apply port_is_iff in Hn. rewrite Hn. now left.
Qed.

Lemma In_ready_eps sls e :
  In e (ready_eps sls) <-> exists sl, In sl sls /\ In e (sl_eps sl) /\ e_ready e = Some true.
Proof.
  unfold ready_eps. rewrite in_flat_map. split.
  - intros (sl & Hsl & H). apply filter_In in H. destruct H as [H1 H2].
    exists sl. repeat split; auto. now apply is_ready_iff.
  - intros (sl & Hsl & H1 & H2). exists sl. split; [assumption|].
    apply filter_In. split; [assumption|now apply is_ready_iff].
Qed.

Lemma In_dedup x l : In x (dedup l) <-> In x l.
Proof. apply nodup_In. Qed.

Lemma NoDup_dedup l : NoDup (dedup l).
Proof. apply NoDup_nodup. Qed.

Lemma In_make_peps P eps x r :
  In (x, r) (make_peps P eps) <-> exists e a, In e eps /\ In a (e_addrs e) /\ x = join a P /\ r = e_ref e.
Proof.
  unfold make_peps. rewrite In_dedup, in_flat_map. split.
  - intros (e & He & H). apply in_map_iff in H. destruct H as (a & E & Ha).
    injection E as <- <-. eauto 6.
  - intros (e & a & He & Ha & -> & ->). exists e. split; [assumption|].
    apply in_map_iff. eauto.
Qed.

Lemma In_svc_slices c svc sl :
  In sl (svc_slices c svc) <-> In sl (c_slices c) /\ sl_svc sl = s_name svc /\ sl_ns sl = s_ns svc.
Proof. unfold svc_slices. rewrite filter_In, slice_of_iff. tauto. Qed.

(* the addresses produced for target port P from the slices of the service = the ideal set *)
Lemma make_peps_ideal c svc P x :
  In x (map fst (make_peps P (ready_eps (select_slices P (svc_slices c svc))))) <-> ideal_member c svc P x.
Proof.
  rewrite in_map_iff. unfold ideal_member. split.
  - intros ([x' r] & E & H). simpl in E. subst x'.
    apply In_make_peps in H. destruct H as (e & a & He & Ha & -> & _).
    apply In_ready_eps in He. destruct He as (sl & Hsl & He & Hr).
    apply In_select_slices in Hsl. destruct Hsl as [Hsl Hp].
    apply In_svc_slices in Hsl. destruct Hsl as (H1 & H2 & H3).
    exists sl, e, a. repeat split; auto.
  - intros (sl & e & a & Hsl & H1 & H2 & H3 & He & Hr & Ha & ->).
    exists (join a P, e_ref e). split; [reflexivity|].
    apply In_make_peps. exists e, a. repeat split; auto.
    apply In_ready_eps. exists sl. repeat split; auto.
    apply In_select_slices. split; [|assumption].
    apply In_svc_slices. auto.
Qed.

(* what getTargetPort returned, said without the function *)
Definition target_resolves (c : Cluster) (svc : Service) (sp : SvcPort) (P : Z) : Prop :=
  match sp_target sp with
  | TUnset => P = sp_port sp
  | TNum n => P = n
  | TNamed s => exists pod rest, list_pods c (s_ns svc) (s_selector svc) = pod :: rest /\
                                 find_port pod s (sp_proto sp) = Some P
  end.

Lemma get_target_port_resolves c svc sp P :
  get_target_port c svc sp = Ok P <-> target_resolves c svc sp P.
Proof.
  unfold get_target_port, target_resolves. destruct (sp_target sp) as [|n|s].
  - split; [intros [= <-]; reflexivity|intros ->; reflexivity].
  - split; [intros [= <-]; reflexivity|intros ->; reflexivity].
  - destruct (list_pods c (s_ns svc) (s_selector svc)) as [|pod rest].
    + split; [discriminate|intros (? & ? & [=] & _)].
    + destruct (find_port pod s (sp_proto sp)) as [n|] eqn:E.
      * split; [intros [= <-]; eauto|intros (pod' & rest' & [= <- <-] & H)]. congruence.
      * split; [discriminate|intros (pod' & rest' & [= <- <-] & H)]. congruence.
Qed.

(* two ready endpoints of the service (port P) that list the same address name the same pod *)
Definition refs_functional (c : Cluster) (svc : Service) (P : Z) : Prop :=
  forall sl1 sl2 e1 e2 a,
    In sl1 (c_slices c) -> sl_svc sl1 = s_name svc -> sl_ns sl1 = s_ns svc -> has_port_num sl1 P ->
    In sl2 (c_slices c) -> sl_svc sl2 = s_name svc -> sl_ns sl2 = s_ns svc -> has_port_num sl2 P ->
    In e1 (sl_eps sl1) -> e_ready e1 = Some true -> In e2 (sl_eps sl2) -> e_ready e2 = Some true ->
    In a (e_addrs e1) -> In a (e_addrs e2) -> e_ref e1 = e_ref e2.

Lemma NoDup_map_fst_functional (l : list pep) :
  NoDup l -> (forall x r1 r2, In (x, r1) l -> In (x, r2) l -> r1 = r2) -> NoDup (map fst l).
Proof.
  induction l as [|[x r] l IH]; simpl; intros Hnd Hf; [constructor|].
  inversion Hnd; subst. constructor.
  - intros H. apply in_map_iff in H. destruct H as ([x' r'] & E & H). simpl in E. subst x'.
    assert (r = r') by (apply (Hf x); [now left|now right]). subst. contradiction.
  - apply IH; [assumption|]. intros y r1 r2 G1 G2. apply (Hf y); now right.
Qed.

Lemma make_peps_each_once c svc P :
  refs_functional c svc P ->
  NoDup (map fst (make_peps P (ready_eps (select_slices P (svc_slices c svc))))).
Proof.
  intros Hf. apply NoDup_map_fst_functional; [apply NoDup_dedup|].
  intros x r1 r2 H1 H2.
  apply In_make_peps in H1. destruct H1 as (e1 & a1 & He1 & Ha1 & -> & ->).
  apply In_make_peps in H2. destruct H2 as (e2 & a2 & He2 & Ha2 & E & ->).
  apply join_inj in E. subst a2.
  apply In_ready_eps in He1. destruct He1 as (sl1 & Hsl1 & He1 & Hr1).
  apply In_ready_eps in He2. destruct He2 as (sl2 & Hsl2 & He2 & Hr2).
  apply In_select_slices in Hsl1. destruct Hsl1 as [Hsl1 Hp1].
  apply In_select_slices in Hsl2. destruct Hsl2 as [Hsl2 Hp2].
  apply In_svc_slices in Hsl1. destruct Hsl1 as (A1 & A2 & A3).
  apply In_svc_slices in Hsl2. destruct Hsl2 as (B1 & B2 & B3).
  eapply (Hf sl1 sl2 e1 e2 a1); eauto.
Qed.

Lemma find_svc_some c ns name svc :
  find_svc c ns name = Some svc -> In svc (c_svcs c) /\ s_ns svc = ns /\ s_name svc = name.
Proof.
  unfold find_svc. intros H. apply find_some in H. destruct H as [H1 H2].
  rewrite andb_true_iff, !String.eqb_eq in H2. tauto.
Qed.

(* the service has an unnamed port only if that port carries the number the backend asks for
   (Kubernetes allows an unnamed port only on a single-port service) *)
Definition unnamed_ok (bp : BPort) (svc : Service) : Prop :=
  bp_name bp = "" -> forall p, In p (s_ports svc) -> sp_name p = "" -> sp_port p = bp_num bp.

Lemma port_matches_spec fx bp svc :
  (fx40 fx = true \/ unnamed_ok bp svc) ->
  forall p, In p (s_ports svc) -> port_matches fx bp p = spec_port_matches bp p.
Proof.
  intros Hu p Hp. unfold port_matches, spec_port_matches.
  destruct (String.eqb (bp_name bp) "") eqn:E; simpl.
  - destruct (sp_port p =? bp_num bp) eqn:E2; simpl; [reflexivity|].
    destruct Hu as [-> | Hu]; [reflexivity|].
    destruct (fx40 fx); [reflexivity|]. simpl.
    apply String.eqb_eq in E. rewrite E.
    destruct (String.eqb (sp_name p) "") eqn:E3; [|reflexivity].
    apply String.eqb_eq in E3. rewrite (Hu E p Hp E3), Z.eqb_refl in E2. discriminate.
  - destruct (fx40 fx); reflexivity.
Qed.

Lemma find_ext {A} (f g : A -> bool) l : (forall x, In x l -> f x = g x) -> find f l = find g l.
Proof.
  induction l as [|x l IH]; simpl; intros H; [reflexivity|].
  rewrite (H x) by now left. destruct (g x); [reflexivity|]. apply IH. intros y Hy. apply H. now right.
Qed.

Lemma find_svc_port_spec fx bp svc :
  (fx40 fx = true \/ unnamed_ok bp svc) -> find_svc_port fx bp (s_ports svc) = spec_ref_port bp (s_ports svc).
Proof. intros Hu. apply find_ext. now apply port_matches_spec. Qed.

(* getIPAddressesFromEndpoints keeps the set of addresses; with F41 each address once *)
Lemma In_addr_list fx l x : In x (addr_list fx l) <-> In x (map fst l).
Proof. unfold addr_list. destruct (fx41 fx); [apply nodup_In|reflexivity]. Qed.

Lemma NoDup_addr_list fx l : fx41 fx = true -> NoDup (addr_list fx l).
Proof. unfold addr_list. intros ->. apply NoDup_nodup. Qed.

(* ---------- the main theorem about getEndpointsForIngressBackend / ...ForUpstream ---------- *)
Theorem resolve_exact fx plus c ns name bp l :
  resolve fx plus c ns name bp = Ok (l, false) ->
  exists svc sp P,
    find_svc c ns name = Some svc /\ s_ns svc = ns /\ s_name svc = name /\
    find_svc_port fx bp (s_ports svc) = Some sp /\
    (fx40 fx = true \/ unnamed_ok bp svc -> spec_ref_port bp (s_ports svc) = Some sp) /\
    target_resolves c svc sp P /\ P <> 0 /\
    l <> [] /\ NoDup l /\
    (forall x, In x (map fst l) <-> ideal_member c svc P x) /\
    (refs_functional c svc P -> NoDup (map fst l)).
Proof.
  unfold resolve. destruct (find_svc c ns name) as [svc|] eqn:Esvc; [|discriminate].
  destruct (find_svc_some _ _ _ _ Esvc) as (_ & Hns & Hname).
  unfold eps_for_backend.
  destruct (svc_slices c svc) as [|sl0 sls0] eqn:Esl.
  { destruct (s_type svc); [discriminate|]. destruct plus; [|discriminate].
    unfold external_eps. destruct (fx42 fx && negb (String.eqb (bp_name bp) "")); [|discriminate].
    destruct (find_svc_port fx bp (s_ports svc)); discriminate. }
  rewrite <- Esl. unfold eps_for_port.
  destruct (find_svc_port fx bp (s_ports svc)) as [sp|] eqn:Esp; [|discriminate].
  destruct (get_target_port c svc sp) as [P|] eqn:EP; [|discriminate].
  destruct (P =? 0) eqn:E0; [discriminate|]. apply Z.eqb_neq in E0.
  destruct (make_peps P (ready_eps (select_slices P (svc_slices c svc)))) as [|q qs] eqn:Em; [discriminate|].
  intros [= <-]. rewrite <- Em.
  exists svc, sp, P. repeat split; auto.
  - intros Hu. now rewrite <- (find_svc_port_spec fx).
  - now apply get_target_port_resolves.
  - rewrite Em. discriminate.
  - apply NoDup_dedup.
  - apply make_peps_ideal.
  - apply make_peps_ideal.
  - apply make_peps_each_once.
Qed.

(* nothing usable -> the call fails and the Endpoints entry is empty *)
Theorem resolve_nothing_usable fx plus c ns name bp svc sp P :
  find_svc c ns name = Some svc -> svc_slices c svc <> [] ->
  find_svc_port fx bp (s_ports svc) = Some sp -> target_resolves c svc sp P ->
  (forall x, ~ ideal_member c svc P x) ->
  exists e, resolve fx plus c ns name bp = Err e.
Proof.
  intros Esvc Hsl Esp HP Hnone. unfold resolve. rewrite Esvc. unfold eps_for_backend.
  destruct (svc_slices c svc) as [|sl0 sls0] eqn:Esl; [contradiction|]. rewrite <- Esl.
  unfold eps_for_port. rewrite Esp. apply get_target_port_resolves in HP. rewrite HP.
  destruct (P =? 0); [eauto|].
  destruct (make_peps P (ready_eps (select_slices P (svc_slices c svc)))) as [|[x r] qs] eqn:Em; [eauto|].
  exfalso. apply (Hnone x). apply make_peps_ideal. rewrite Em. now left.
Qed.

(* an address none of whose listings (in slices of this service exposing P) is ready = true
   is not served; in particular addresses of other services, other ports, unready endpoints *)
Theorem resolve_never_serves fx plus c ns name bp l a :
  resolve fx plus c ns name bp = Ok (l, false) ->
  forall svc sp P,
    find_svc c ns name = Some svc -> find_svc_port fx bp (s_ports svc) = Some sp -> target_resolves c svc sp P ->
    (forall sl e, In sl (c_slices c) -> sl_svc sl = s_name svc -> sl_ns sl = s_ns svc -> has_port_num sl P ->
                  In e (sl_eps sl) -> In a (e_addrs e) -> e_ready e <> Some true) ->
    ~ In (join a P) (map fst l).
Proof.
  intros H svc sp P Esvc Esp HP Hno Hin.
  destruct (resolve_exact _ _ _ _ _ _ _ H) as (svc' & sp' & P' & E1 & _ & _ & E2 & _ & HP' & _ & _ & _ & Hiff & _).
  rewrite Esvc in E1. injection E1 as <-. rewrite Esp in E2. injection E2 as <-.
  apply get_target_port_resolves in HP, HP'. rewrite HP in HP'. injection HP' as <-.
  apply Hiff in Hin. destruct Hin as (sl & e & a' & Hsl & H1 & H2 & H3 & He & Hr & Ha & E).
  apply join_inj in E. subst a'. exact (Hno sl e Hsl H1 H2 H3 He Ha Hr).
Qed.

(* ---------- ExternalName ---------- *)
Theorem resolve_external fx plus c ns name bp l :
  resolve fx plus c ns name bp = Ok (l, true) ->
  exists svc port, find_svc c ns name = Some svc /\ s_type svc = ExternalNameT /\ svc_slices c svc = [] /\
              plus = true /\ l = [(join_plain (s_extname svc) port, "")] /\
              (fx42 fx = false \/ bp_name bp = "" -> port = bp_num bp) /\
              (fx42 fx = true -> bp_name bp <> "" ->
               exists sp, find_svc_port fx bp (s_ports svc) = Some sp /\ port = sp_port sp).
Proof.
  unfold resolve. destruct (find_svc c ns name) as [svc|] eqn:Esvc; [|discriminate].
  unfold eps_for_backend. destruct (svc_slices c svc) as [|sl0 sls0] eqn:Esl.
  - destruct (s_type svc) eqn:Et; [discriminate|]. destruct plus; [|discriminate].
    unfold external_eps.
    destruct (fx42 fx) eqn:F; simpl.
    + destruct (String.eqb (bp_name bp) "") eqn:En; simpl.
      * apply String.eqb_eq in En. intros [= <-]. exists svc, (bp_num bp). repeat split; auto. intros _ H. contradiction.
      * apply String.eqb_neq in En.
        destruct (find_svc_port fx bp (s_ports svc)) as [sp|] eqn:Esp; [|discriminate].
        intros [= <-]. exists svc, (sp_port sp). repeat split; auto.
        -- intros [H|H]; [discriminate|contradiction].
        -- intros _ _. eauto.
    + intros [= <-]. exists svc, (bp_num bp). repeat split; auto. intros H. discriminate.
  - destruct (eps_for_port fx c svc bp (sl0 :: sls0)); discriminate.
Qed.

(* ---------- the sub-selector variant ---------- *)
Lemma In_list_pods c ns sel pod :
  In pod (list_pods c ns sel) <-> In pod (c_pods c) /\ p_ns pod = ns /\ sel_matches sel (p_labels pod) = true.
Proof. unfold list_pods. rewrite filter_In, andb_true_iff, String.eqb_eq. tauto. Qed.

Lemma In_sub_peps P pods eps x r :
  In (x, r) (sub_peps P pods eps) <->
  exists pod e a, In pod pods /\ In e eps /\ In a (e_addrs e) /\ p_ip pod = a /\ x = join a P /\ r = e_ref e.
Proof.
  unfold sub_peps. rewrite In_dedup, in_flat_map. split.
  - intros (pod & Hpod & H). apply in_flat_map in H. destruct H as (e & He & H).
    apply in_flat_map in H. destruct H as (a & Ha & H).
    destruct (String.eqb (p_ip pod) a) eqn:E; [|contradiction]. apply String.eqb_eq in E.
    destruct H as [H|[]]. injection H as <- <-. exists pod, e, a. rewrite E. repeat split; auto.
  - intros (pod & e & a & Hpod & He & Ha & Hip & -> & ->). exists pod. split; [assumption|].
    apply in_flat_map. exists e. split; [assumption|].
    apply in_flat_map. exists a. split; [assumption|].
    apply String.eqb_eq in Hip. rewrite Hip. apply String.eqb_eq in Hip. rewrite Hip. now left.
Qed.

Theorem resolve_sub_exact c ns name port sub l :
  resolve_sub c ns name port sub = Ok l ->
  exists svc sp P,
    find_svc c ns name = Some svc /\ s_ns svc = ns /\ s_name svc = name /\
    find (fun p => sp_port p =? port) (s_ports svc) = Some sp /\ sp_port sp = port /\
    target_resolves c svc sp P /\ P <> 0 /\
    NoDup l /\
    (forall x, In x (map fst l) <-> ideal_member_sub c svc sub P x).
Proof.
  unfold resolve_sub. destruct (find_svc c ns name) as [svc|] eqn:Esvc; [|discriminate].
  destruct (find_svc_some _ _ _ _ Esvc) as (_ & Hns & Hname).
  destruct (find (fun p => sp_port p =? port) (s_ports svc)) as [sp|] eqn:Esp; [|discriminate].
  destruct (get_target_port c svc sp) as [P|] eqn:EP; [|discriminate].
  destruct (P =? 0) eqn:E0; [discriminate|]. apply Z.eqb_neq in E0.
  destruct (svc_slices c svc) as [|sl0 sls0] eqn:Esl; [discriminate|]. rewrite <- Esl.
  intros [= <-]. exists svc, sp, P.
  pose proof (find_some _ _ Esp) as [_ Hport]. apply Z.eqb_eq in Hport.
  repeat split; auto.
  - now apply get_target_port_resolves.
  - apply NoDup_dedup.
  - intros H. apply in_map_iff in H. destruct H as ([x' r] & E & H). simpl in E. subst x'.
    apply In_sub_peps in H. destruct H as (pod & e & a & Hpod & He & Ha & Hip & -> & _).
    apply In_list_pods in Hpod. destruct Hpod as (Q1 & Q2 & Q3).
    apply In_ready_eps in He. destruct He as (sl & Hsl & He & Hr).
    apply In_select_slices in Hsl. destruct Hsl as [Hsl Hp].
    apply In_svc_slices in Hsl. destruct Hsl as (A1 & A2 & A3).
    exists sl, e, a, pod. repeat split; auto.
  - intros (sl & e & a & pod & Hsl & H1 & H2 & H3 & He & Hr & Ha & Q1 & Q2 & Q3 & Q4 & ->).
    apply in_map_iff. exists (join a P, e_ref e). split; [reflexivity|].
    apply In_sub_peps. exists pod, e, a. repeat split; auto.
    + apply In_list_pods. auto.
    + apply In_ready_eps. exists sl. repeat split; auto.
      apply In_select_slices. split; [|assumption]. apply In_svc_slices. auto.
Qed.

(* ---------- cluster-IP mode ---------- *)
(* an Ingress backend port is a name or a number; upstreams of the custom resources have numbers *)
Definition backend_port_wf (b : Backend) : Prop :=
  (bp_name (b_port b) = "" /\ bp_num (b_port b) <> 0) \/
  (b_kind b = KIng /\ bp_name (b_port b) <> "" /\ bp_num (b_port b) = 0).

Theorem cluster_ip_entry fx plus c ns b svc sp :
  b_clusterip b = true -> b_kind b <> KTS -> backend_port_wf b ->
  find_svc c ns (b_svc b) = Some svc ->
  is_external (resolve fx plus c ns (b_svc b) (b_port b)) = false ->
  spec_ref_port (b_port b) (s_ports svc) = Some sp ->
  endpoints_entry fx plus c ns b = ([join (s_clusterIP svc) (sp_port sp)], false).
Proof.
  intros Hc Hk Hwf Esvc Hext Hsp. unfold endpoints_entry.
  unfold spec_ref_port in Hsp. pose proof (find_some _ _ Hsp) as [_ Hm].
  unfold spec_port_matches in Hm.
  destruct (b_kind b) eqn:Ek; try contradiction.
  - rewrite Esvc, Hext, Hc. simpl. unfold clusterip_port.
    destruct Hwf as [[Hn Hnum]|(_ & Hn & Hnum)].
    + rewrite Hn in Hm. simpl in Hm. apply Z.eqb_eq in Hm.
      apply Z.eqb_neq in Hnum. rewrite Hnum. now rewrite Hm.
    + rewrite Hnum. simpl.
      assert (E : String.eqb (bp_name (b_port b)) "" = false) by now apply String.eqb_neq.
      rewrite E in Hm.
      unfold spec_port_matches in Hsp.
      rewrite (find_ext (fun p => String.eqb (sp_name p) (bp_name (b_port b)))
                        (fun p => if String.eqb (bp_name (b_port b)) "" then sp_port p =? bp_num (b_port b)
                                  else String.eqb (sp_name p) (bp_name (b_port b)))).
      * now rewrite Hsp.
      * intros p _. now rewrite E.
  - rewrite Hc, Esvc. destruct Hwf as [[Hn Hnum]|(Hk' & _)]; [|congruence].
    rewrite Hn in Hm. simpl in Hm. apply Z.eqb_eq in Hm. now rewrite Hm.
  - rewrite Hc, Esvc. destruct Hwf as [[Hn Hnum]|(Hk' & _)]; [|congruence].
    rewrite Hn in Hm. simpl in Hm. apply Z.eqb_eq in Hm. now rewrite Hm.
Qed.

(* ---------- the Endpoints entry is the resolution result ---------- *)
Theorem entry_is_resolution fx plus c ns b :
  b_clusterip b = false -> b_subsel b = [] ->
  endpoints_entry fx plus c ns b =
    (addrs_of fx (resolve fx plus c ns (b_svc b) (b_port b)), is_external (resolve fx plus c ns (b_svc b) (b_port b)) && plus).
Proof.
  intros Hc Hs. unfold endpoints_entry. rewrite Hc, Hs, andb_false_r.
  destruct (b_kind b); try reflexivity.
  unfold resolve. destruct (find_svc c ns (b_svc b)); reflexivity.
Qed.

Theorem entry_is_sub_resolution fx plus c ns b :
  b_clusterip b = false -> b_subsel b <> [] -> (b_kind b = KVS \/ b_kind b = KVSR) ->
  fst (endpoints_entry fx plus c ns b) =
    match resolve_sub c ns (b_svc b) (bp_num (b_port b)) (b_subsel b) with Ok l => addr_list fx l | Err _ => [] end.
Proof.
  intros Hc Hs Hk. unfold endpoints_entry. rewrite Hc.
  destruct Hk as [-> | ->]; destruct (b_subsel b); try contradiction;
    destruct (resolve_sub c ns (b_svc b) (bp_num (b_port b)) (p :: l)); reflexivity.
Qed.

(* with F41 every Endpoints entry lists each address once, whatever the cluster *)
Theorem entry_each_once fx plus c ns b : fx41 fx = true -> NoDup (fst (endpoints_entry fx plus c ns b)).
Proof.
  intros F. unfold endpoints_entry.
  assert (Hr : forall r, NoDup (addrs_of fx r)).
  { intros [[l x]|e]; simpl; [now apply NoDup_addr_list|constructor]. }
  assert (H1 : forall x : string, NoDup [x]) by (intros x; constructor; [intros []|constructor]).
  destruct (b_kind b); simpl.
  - destruct (find_svc c ns (b_svc b)); [|constructor].
    destruct (negb (is_external (resolve fx plus c ns (b_svc b) (b_port b))) && b_clusterip b); simpl; auto.
  - destruct (b_clusterip b).
    + destruct (find_svc c ns (b_svc b)); simpl; [auto|constructor].
    + destruct (b_subsel b); simpl; [auto|].
      destruct (resolve_sub c ns (b_svc b) (bp_num (b_port b)) (p :: l)); simpl; [now apply NoDup_addr_list|constructor].
  - destruct (b_clusterip b).
    + destruct (find_svc c ns (b_svc b)); simpl; [auto|constructor].
    + destruct (b_subsel b); simpl; [auto|].
      destruct (resolve_sub c ns (b_svc b) (bp_num (b_port b)) (p :: l)); simpl; [now apply NoDup_addr_list|constructor].
  - auto.
Qed.

(* ---------- the generated upstream never disappears; empty -> error backend ---------- *)
(* a service is recorded as ExternalName only under NGINX Plus *)
Lemma entry_external_only_plus fx plus c ns b : snd (endpoints_entry fx plus c ns b) = true -> plus = true.
Proof.
  unfold endpoints_entry.
  destruct (b_kind b); simpl;
    repeat match goal with
           | |- context [match ?x with _ => _ end] => destruct x; simpl
           end; try discriminate; try (rewrite andb_true_iff; tauto); auto.
Qed.

Theorem rendered_placeholder plus resolver k entry :
  (snd entry = true -> plus = true) ->
  (fst entry = [] \/ (snd entry = true /\ resolver = false)) ->
  rendered plus resolver k entry = if plus then [] else [placeholder k].
Proof.
  destruct entry as [endps ext]. simpl. intros Hp [->|[-> ->]].
  - destruct k, plus, ext, resolver; reflexivity.
  - rewrite (Hp eq_refl). destruct k, endps; reflexivity.
Qed.

Theorem rendered_entry plus resolver k entry :
  fst entry <> [] -> (snd entry = false \/ resolver = true) ->
  rendered plus resolver k entry = fst entry.
Proof.
  destruct entry as [endps ext]. simpl. intros Hne H.
  destruct endps as [|x r]; [contradiction|].
  destruct H as [-> | ->]; [destruct k, plus | destruct k, plus, ext]; reflexivity.
Qed.

Theorem rendered_never_empty_oss resolver k entry :
  snd entry = false -> rendered false resolver k entry <> [].
Proof.
  destruct entry as [endps ext]. simpl. intros ->.
  destruct k, resolver, endps; simpl; discriminate.
Qed.

(* the decidable check of the server lines means what it says *)
Lemma is_nil_iff {A} (l : list A) : is_nil l = true <-> l = [].
Proof. destruct l; simpl; split; congruence. Qed.

(* ====================== S is the specification ====================== *)
(* the decidable checks evaluated on the implementation's output say exactly the Props above *)
Theorem spec_decides_num c svc P obs :
  exact_ok (ideal_num c svc P) obs = true <-> NoDup obs /\ (forall x, In x obs <-> ideal_member c svc P x).
Proof.
  rewrite exact_ok_iff. split; intros [H1 H2]; split; auto; intros x; rewrite H2; [|symmetry]; apply ideal_num_iff.
Qed.

Theorem spec_decides_name c svc pname obs :
  exact_ok (ideal_name c svc pname) obs = true <->
  NoDup obs /\ (forall x, In x obs <-> ideal_member_by_name c svc pname x).
Proof.
  rewrite exact_ok_iff. split; intros [H1 H2]; split; auto; intros x; rewrite H2; [|symmetry]; apply ideal_name_iff.
Qed.

Theorem spec_decides_sub c svc sub P obs :
  exact_ok (ideal_sub c svc sub P) obs = true <->
  NoDup obs /\ (forall x, In x obs <-> ideal_member_sub c svc sub P x).
Proof.
  rewrite exact_ok_iff. split; intros [H1 H2]; split; auto; intros x; rewrite H2; [|symmetry]; apply ideal_sub_iff.
Qed.

(* the model passes the check S on every cluster, for a numeric or defaulted target port, when
   the two premises of the main theorem hold: so S rejects an implementation result only for
   a reason the theorems name *)
Theorem entry_meets_ideal fx plus c ns b svc sp :
  b_clusterip b = false -> b_subsel b = [] ->
  find_svc c ns (b_svc b) = Some svc ->
  (s_type svc = ClusterIPT \/ svc_slices c svc <> []) ->
  (fx40 fx = true \/ unnamed_ok (b_port b) svc) ->
  spec_ref_port (b_port b) (s_ports svc) = Some sp ->
  (match sp_target sp with TUnset => sp_port sp <> 0 | TNum n => n <> 0 | TNamed _ => False end) ->
  (fx41 fx = true \/ forall P, refs_functional c svc P) ->
  exists ideal, ideal_entry plus c ns b = IExact ideal /\
                exact_ok ideal (fst (endpoints_entry fx plus c ns b)) = true.
Proof.
  intros Hc Hs Esvc Hnext Hu Hsp Ht Hf.
  assert (Hext : svc_external c svc = false).
  { unfold svc_external. destruct Hnext as [-> | H]; [reflexivity|]. destruct (s_type svc); [reflexivity|].
    destruct (svc_slices c svc); [contradiction|reflexivity]. }
  set (P := match sp_target sp with TUnset => sp_port sp | TNum n => n | TNamed _ => 0 end).
  assert (HP : get_target_port c svc sp = Ok P).
  { unfold get_target_port, P. destruct (sp_target sp); [reflexivity|reflexivity|contradiction]. }
  assert (HP0 : P <> 0) by (unfold P; destruct (sp_target sp); auto).
  exists (ideal_num c svc P). split.
  - unfold ideal_entry. rewrite Esvc.
    assert (E2 : uses_cluster_ip plus c svc b = false).
    { unfold uses_cluster_ip. rewrite Hc. destruct (b_kind b); reflexivity. }
    rewrite E2, Hext, Hsp. simpl.
    assert (E : match b_kind b with KVS | KVSR => b_subsel b | _ => [] end = @nil (string * string)).
    { rewrite Hs. destruct (b_kind b); reflexivity. }
    rewrite E. unfold ideal_for_port, P. destruct (sp_target sp); try reflexivity. contradiction.
  - rewrite entry_is_resolution by assumption. simpl.
    destruct (resolve fx plus c ns (b_svc b) (b_port b)) as [[l x]|e] eqn:R.
    + destruct x.
      * exfalso. apply resolve_external in R. destruct R as (svc' & port & E1 & E2 & E3 & _).
        rewrite Esvc in E1. injection E1 as <-. unfold svc_external in Hext. rewrite E2, E3 in Hext. discriminate.
      * destruct (resolve_exact _ _ _ _ _ _ _ R) as (svc' & sp' & P' & E1 & _ & _ & E2 & E2' & HP' & _ & _ & _ & Hiff & Hnd).
        rewrite Esvc in E1. injection E1 as <-. specialize (E2' Hu). rewrite Hsp in E2'. injection E2' as <-.
        apply get_target_port_resolves in HP'. rewrite HP in HP'. injection HP' as <-.
        simpl. apply spec_decides_num. split.
        -- destruct Hf as [F|Hf]; [now apply NoDup_addr_list|].
           unfold addr_list. destruct (fx41 fx); [apply NoDup_nodup|apply Hnd, Hf].
        -- intros y. rewrite In_addr_list. apply Hiff.
    + simpl. apply spec_decides_num. split; [constructor|].
      intros x. split; [intros []|]. intros Hx. exfalso.
      unfold resolve in R. rewrite Esvc in R. unfold eps_for_backend in R.
      destruct (svc_slices c svc) as [|sl0 sls0] eqn:Esl.
      { destruct Hx as (sl & e' & a & Hsl & H1 & H2 & _).
        assert (In sl (svc_slices c svc)) by (apply In_svc_slices; auto). rewrite Esl in H. contradiction. }
      rewrite <- Esl in R. unfold eps_for_port in R.
      rewrite (find_svc_port_spec _ _ _ Hu), Hsp, HP in R.
      apply Z.eqb_neq in HP0. rewrite HP0 in R.
      destruct (make_peps P (ready_eps (select_slices P (svc_slices c svc)))) as [|q qs] eqn:Em; [|discriminate].
      apply make_peps_ideal in Hx. rewrite Em in Hx. contradiction.
Qed.

(* F42: an ExternalName service referenced through a port NAME is written with the number of
   that service port (NGINX Plus), and the Endpoints entry is exactly the ideal one *)
Theorem external_entry_meets_ideal fx c ns b svc :
  fx42 fx = true -> b_kind b = KIng -> b_clusterip b = false ->
  find_svc c ns (b_svc b) = Some svc -> svc_external c svc = true ->
  exists ideal, ideal_entry true c ns b = IExact ideal /\
                exact_ok ideal (fst (endpoints_entry fx true c ns b)) = true.
Proof.
  intros F Hk Hc Esvc Hext.
  unfold ideal_entry, endpoints_entry, uses_cluster_ip, resolve. rewrite Esvc, Hk, Hc. simpl. rewrite Hext. simpl.
  unfold eps_for_backend. unfold svc_external in Hext.
  destruct (s_type svc); [discriminate|]. destruct (svc_slices c svc); [|discriminate].
  unfold external_eps. rewrite F. simpl.
  destruct (String.eqb (bp_name (b_port b)) "") eqn:En; simpl.
  - eexists. split; [reflexivity|]. unfold addr_list. destruct (fx41 fx); simpl; unfold exact_ok, same_set, subsetb, mem; simpl;
      rewrite String.eqb_refl; reflexivity.
  - assert (Hm : find_svc_port fx (b_port b) (s_ports svc) = spec_ref_port (b_port b) (s_ports svc)).
    { apply find_ext. intros p _. unfold port_matches, spec_port_matches. rewrite En. simpl.
      destruct (fx40 fx); reflexivity. }
    rewrite Hm. destruct (spec_ref_port (b_port b) (s_ports svc)) as [sp|]; simpl.
    + eexists. split; [reflexivity|]. unfold addr_list. destruct (fx41 fx); simpl; unfold exact_ok, same_set, subsetb, mem; simpl;
        rewrite String.eqb_refl; reflexivity.
    + eexists. split; [reflexivity|]. reflexivity.
Qed.

(* ====================== resource level: no leakage between the backends of a resource ====================== *)

Lemma ingress_assign_entry fx plus c ns b :
  b_kind b = KIng ->
  ingress_assign fx plus c ns b =
    (Some (fst (endpoints_entry fx plus c ns b)), snd (endpoints_entry fx plus c ns b)).
Proof.
  intros Hk. unfold ingress_assign, endpoints_entry, resolve. rewrite Hk.
  destruct (find_svc c ns (b_svc b)) as [svc|]; [|unfold addr_list; destruct (fx41 fx); reflexivity].
  destruct (negb (is_external (eps_for_backend fx plus c svc (b_port b))) && b_clusterip b); reflexivity.
Qed.

(* createIngressEx: whatever the function-scoped variable held before, and in whatever order
   the backends come, every backend gets exactly its own single-backend entry *)
Theorem ingress_no_leak fx plus c ns :
  forall bs e0, (forall b, In b bs -> b_kind b = KIng) ->
    ingress_loop fx plus c ns e0 bs = map (endpoints_entry fx plus c ns) bs.
Proof.
  induction bs as [|b rest IH]; intros e0 Hk; [reflexivity|].
  simpl. rewrite (ingress_assign_entry fx plus c ns b) by (apply Hk; now left).
  rewrite IH by (intros b' Hb'; apply Hk; now right).
  destruct (endpoints_entry fx plus c ns b); reflexivity.
Qed.

Lemma labels_eqb_refl l : labels_eqb l l = true.
Proof.
  unfold labels_eqb. rewrite Nat.eqb_refl. simpl.
  induction l as [|[k v] r IH]; simpl; [reflexivity|]. now rewrite !String.eqb_refl, IH.
Qed.

Lemma labels_eqb_eq a : forall b, labels_eqb a b = true -> a = b.
Proof.
  unfold labels_eqb. induction a as [|[k v] r IH]; intros [|[k' v'] r']; simpl; intros H; try reflexivity; try discriminate.
  apply andb_true_iff in H. destruct H as [H1 H2]. apply andb_true_iff in H2. destruct H2 as [H2 H3].
  apply andb_true_iff in H2. destruct H2 as [Hk Hv]. apply String.eqb_eq in Hk, Hv. subst.
  f_equal. apply IH. now rewrite H1, H3.
Qed.

Lemma key_eqb_refl k : key_eqb k k = true.
Proof. destruct k as [[[n s0] l] p]. simpl. now rewrite !String.eqb_refl, labels_eqb_refl, Z.eqb_refl. Qed.

Lemma key_eqb_eq a b : key_eqb a b = true -> a = b.
Proof.
  destruct a as [[[n1 s1] l1] p1], b as [[[n2 s2] l2] p2]. simpl. rewrite !andb_true_iff.
  intros [[[H1 H2] H3] H4]. apply String.eqb_eq in H1, H2. apply labels_eqb_eq in H3. apply Z.eqb_eq in H4. now subst.
Qed.

(* a key that is written with one value only reads that value *)
Lemma map_get_own {V} (m : list (ep_key * V)) :
  (forall k v k' v', In (k, v) m -> In (k', v') m -> key_eqb k k' = true -> v = v') ->
  forall k v, In (k, v) m -> map_get k m = Some v.
Proof.
  induction m as [|[k0 v0] r IH]; intros Hf k v Hin; [contradiction|].
  simpl. destruct (map_get k r) as [v'|] eqn:E.
  - (* found further down: it is some (k1, v') with k1 = k *)
    assert (Hex : exists k1, In (k1, v') r /\ key_eqb k k1 = true).
    { clear - E. induction r as [|[k1 v1] r IH]; simpl in E; [discriminate|].
      destruct (map_get k r) as [v2|] eqn:E2.
      - injection E as <-. destruct (IH eq_refl) as (k2 & H1 & H2). exists k2. split; [now right|assumption].
      - destruct (key_eqb k k1) eqn:E3; [|discriminate]. injection E as <-. exists k1. split; [now left|assumption]. }
    destruct Hex as (k1 & H1 & H2). f_equal. symmetry. apply (Hf k v k1 v'); auto. now right.
  - destruct Hin as [Hin|Hin].
    + injection Hin as -> ->. now rewrite key_eqb_refl.
    + rewrite (IH (fun a b a' b' H1 H2 => Hf a b a' b' (or_intror H1) (or_intror H2)) k v Hin) in E. discriminate.
Qed.

(* upstreams of a VirtualServer / VirtualServerRoute: a number, no name *)
Definition vs_upstream (b : Backend) : Prop :=
  (b_kind b = KVS \/ b_kind b = KVSR) /\ bp_name (b_port b) = "".

Lemma same_key_same_entry fx plus c ns b ns' b' :
  vs_upstream b -> vs_upstream b' -> b_clusterip b = b_clusterip b' ->
  key_of ns b = key_of ns' b' ->
  endpoints_entry fx plus c ns b = endpoints_entry fx plus c ns' b'.
Proof.
  intros [Hk Hn] [Hk' Hn'] Hc Hkey. unfold key_of in Hkey. injection Hkey as -> Hs Hl Hp.
  assert (Hport : b_port b = b_port b').
  { destruct (b_port b), (b_port b'); simpl in *; congruence. }
  unfold endpoints_entry. rewrite Hs, Hl, Hport, Hc.
  destruct Hk as [-> | ->], Hk' as [-> | ->]; reflexivity.
Qed.

(* createVirtualServerEx + the readers of its Endpoints map (the generators and
   createUpstreamsForPlus): every upstream of the VirtualServer and of every VirtualServerRoute,
   in whichever namespace it lives, reads its own single-backend resolution *in its own
   namespace* -- never the entry of a same-named Service of another namespace *)
Theorem vs_no_leak fx plus c ups :
  (forall u, In u ups -> vs_upstream (snd u)) ->
  (forall u u', In u ups -> In u' ups -> key_of (fst u) (snd u) = key_of (fst u') (snd u') ->
                b_clusterip (snd u) = b_clusterip (snd u')) ->
  forall u, In u ups ->
    vs_entry_of fx plus c ups (fst u) (snd u) = endpoints_entry fx plus c (fst u) (snd u).
Proof.
  intros Hvs Hcl u Hu. unfold vs_entry_of.
  rewrite (map_get_own (vs_entries fx plus c ups)) with (v := endpoints_entry fx plus c (fst u) (snd u)); [reflexivity| |].
  - intros k v k' v' H1 H2 Hk. unfold vs_entries in H1, H2.
    apply in_map_iff in H1. destruct H1 as (u1 & E1 & I1). apply in_map_iff in H2. destruct H2 as (u2 & E2 & I2).
    injection E1 as <- <-. injection E2 as <- <-. apply key_eqb_eq in Hk.
    apply same_key_same_entry; auto.
  - unfold vs_entries. apply in_map_iff. exists u. auto.
Qed.

(* the API write of an endpoints-only update carries the servers of the file *)
Theorem pushed_is_file plus resolver k entry l :
  pushed plus k entry = Some l -> snd entry = false ->
  plus = true /\ l = fst entry /\ rendered plus resolver k entry = l.
Proof.
  destruct entry as [endps ext]. unfold pushed. simpl. intros H ->.
  destruct plus; [|discriminate]. destruct k; injection H as <-; repeat split; destruct endps; reflexivity.
Qed.

Theorem pushed_only_plus plus k entry : plus = false -> pushed plus k entry = None.
Proof. intros ->. reflexivity. Qed.

(* ====================== NGINX as a process: what it uses after an endpoints update ====================== *)

Lemma upd_all_files plus on xs :
  map fst (fst (upd_all plus on xs)) = map (fun x => snd (fst x)) xs.
Proof.
  induction xs as [|[[ok new] st] r IH]; [reflexivity|]. simpl.
  destruct (upd_one plus on ok new st) as [st' need] eqn:E. destruct (upd_all plus on r) as [sts need'].
  simpl in *. f_equal; [|assumption].
  unfold upd_one in E. destruct plus, on, ok; injection E as <- _; reflexivity.
Qed.

Lemma upd_all_live plus xs :
  snd (upd_all plus true xs) = false -> plus = true ->
  map snd (fst (upd_all plus true xs)) = map (fun x => snd (fst x)) xs.
Proof.
  intros H ->. induction xs as [|[[ok new] st] r IH]; [reflexivity|]. simpl in *.
  destruct ok; simpl in *; destruct (upd_all true true r) as [sts need']; simpl in *.
  - f_equal. now apply IH.
  - discriminate.
Qed.

(* outside a batch: whatever the API did for whichever resource of the list -- a failure for the
   first, a middle or the last one, for several, for none -- after UpdateEndpoints* NGINX uses, for
   every resource, the servers just written for it (NGINX OSS and Plus) *)
Theorem update_endpoints_live plus xs :
  map snd (update_endpoints plus true xs) = map (fun x => snd (fst x)) xs.
Proof.
  unfold update_endpoints. pose proof (upd_all_files plus true xs) as Hf.
  pose proof (upd_all_live plus xs) as Hl.
  destruct (upd_all plus true xs) as [sts need]. simpl in *.
  destruct plus; simpl.
  - destruct need; simpl.
    + unfold reload_all. rewrite map_map. simpl. rewrite <- Hf. reflexivity.
    + now apply Hl.
  - unfold reload_all. rewrite map_map. simpl. rewrite <- Hf. reflexivity.
Qed.

(* inside a batch (reloads disabled) the files are written and nothing is loaded; the reload at
   the end of the batch makes NGINX use them *)
Theorem batch_then_reload_live plus xs :
  map snd (end_of_batch true (update_endpoints plus false xs)) = map (fun x => snd (fst x)) xs.
Proof.
  unfold end_of_batch, update_endpoints. pose proof (upd_all_files plus false xs) as Hf.
  destruct (upd_all plus false xs) as [sts need]. simpl in *. rewrite andb_false_r.
  unfold reload_all. rewrite map_map. simpl. rewrite <- Hf. reflexivity.
Qed.

(* ... and without that reload NGINX Plus (and OSS) keeps what it had: the reload is necessary *)
Theorem batch_without_reload_stale plus xs :
  map snd (end_of_batch false (update_endpoints plus false xs)) = map (fun x => snd (snd x)) xs.
Proof.
  unfold end_of_batch, update_endpoints.
  assert (H : map snd (fst (upd_all plus false xs)) = map (fun x => snd (snd x)) xs).
  { induction xs as [|[[ok new] st] r IH]; [reflexivity|]. simpl.
    destruct (upd_all plus false r) as [sts need']. simpl in *.
    destruct plus; simpl; f_equal; assumption. }
  destruct (upd_all plus false xs) as [sts need]. simpl in *. now rewrite andb_false_r.
Qed.

(* ====================== what is false: concrete witnesses ====================== *)

Definition w_svc (pname : string) (port : Z) (t : target) : Service :=
  {| s_ns := "ns"; s_name := "web"; s_type := ClusterIPT; s_clusterIP := "10.96.0.1"; s_extname := "";
     s_selector := [("app", "web")];
     s_ports := [{| sp_name := pname; sp_port := port; sp_proto := "TCP"; sp_target := t |}] |}.

Definition w_slice (pname : string) (num : Z) (eps : list Endpoint) : Slice :=
  {| sl_ns := "ns"; sl_svc := "web"; sl_ports := [{| slp_name := pname; slp_num := Some num |}]; sl_eps := eps |}.

Definition w_ep (a : string) (ref : string) : Endpoint := {| e_addrs := [a]; e_ready := Some true; e_ref := ref |}.

Definition w_pod (name ip : string) (num : Z) : Pod :=
  {| p_ns := "ns"; p_name := name; p_ip := ip; p_labels := [("app", "web")];
     p_ports := [{| cp_name := "web"; cp_num := num; cp_proto := "TCP" |}] |}.

(* (1) the same address under two pod names is written twice *)
Definition w_dup : Cluster :=
  {| c_svcs := [w_svc "http" 80 TUnset];
     c_slices := [w_slice "http" 80 [w_ep "10.0.0.1" "web-0"]; w_slice "http" 80 [w_ep "10.0.0.1" "web-0-old"]];
     c_pods := [] |}.

Theorem each_once_refuted :
  exists l, resolve legacy false w_dup "ns" "web" {| bp_name := ""; bp_num := 80 |} = Ok (l, false) /\
            addr_list legacy l = ["10.0.0.1:80"; "10.0.0.1:80"] /\ ~ NoDup (addr_list legacy l) /\
            addr_list repaired l = ["10.0.0.1:80"].
Proof.
  eexists. split; [vm_compute; reflexivity|]. split; [reflexivity|]. split; [|vm_compute; reflexivity].
  intros H. inversion H as [|x r Hn _]; subst. apply Hn. now left.
Qed.

(* (2) a named target port: two pods give the name different numbers; the EndpointSlice
   controller publishes two slices, both carrying the service port name; the code resolves
   the name through the first listed pod only, so in either order one ready endpoint of the
   service port is never served *)
Definition w_named (pods : list Pod) : Cluster :=
  {| c_svcs := [w_svc "http" 80 (TNamed "web")];
     c_slices := [w_slice "http" 8080 [w_ep "10.0.0.1" "web-0"]; w_slice "http" 9090 [w_ep "10.0.0.2" "web-1"]];
     c_pods := pods |}.

Definition w_pods : list Pod := [w_pod "web-0" "10.0.0.1" 8080; w_pod "web-1" "10.0.0.2" 9090].

Theorem named_port_refuted :
  forall pods, Permutation w_pods pods ->
    exists x, ideal_member_by_name (w_named pods) (w_svc "http" 80 (TNamed "web")) "http" x /\
              (forall fx, ~ In x (addrs_of fx (resolve fx false (w_named pods) "ns" "web" {| bp_name := ""; bp_num := 80 |}))).
Proof.
  intros pods Hp. apply Permutation_length_2_inv in Hp. destruct Hp as [-> | ->].
  - exists "10.0.0.2:9090". split.
    + apply ideal_name_iff. vm_compute. tauto.
    + intros [[] [] []]; vm_compute; intros [H|[]]; discriminate.
  - exists "10.0.0.1:8080". split.
    + apply ideal_name_iff. vm_compute. tauto.
    + intros [[] [] []]; vm_compute; intros [H|[]]; discriminate.
Qed.

(* (3) a backend that asks for port 9999 of a service whose only (unnamed) port is 80 gets the
   endpoints of port 80: traffic goes to a port nobody referenced *)
Definition w_unnamed : Cluster :=
  {| c_svcs := [w_svc "" 80 (TNum 8080)];
     c_slices := [w_slice "" 8080 [w_ep "10.0.0.1" "web-0"]];
     c_pods := [] |}.

Theorem port_match_refuted :
  spec_ref_port {| bp_name := ""; bp_num := 9999 |} (s_ports (w_svc "" 80 (TNum 8080))) = None /\
  addrs_of legacy (resolve legacy false w_unnamed "ns" "web" {| bp_name := ""; bp_num := 9999 |}) = ["10.0.0.1:8080"] /\
  resolve repaired false w_unnamed "ns" "web" {| bp_name := ""; bp_num := 9999 |} = Err ENoPort /\
  resolve_sub w_unnamed "ns" "web" 9999 [("version", "v1")] = Err ENoPort.
Proof. vm_compute. auto. Qed.

(* (4) fmt.Sprintf("%s:%d") (the VirtualServerRoute cluster-IP branch before fix F17) does not
   bracket an IPv6 cluster IP *)
Theorem vsr_cluster_ip_sprintf_refuted :
  exists ip P, has_colon ip = true /\ join_plain ip P = "fd00:10:96::1:80" /\ join ip P = "[fd00:10:96::1]:80".
Proof. exists "fd00:10:96::1", 80. vm_compute. auto. Qed.

(* (5) an ExternalName service referenced by an Ingress through a port NAME is written with port 0 *)
Definition w_ext : Cluster :=
  {| c_svcs := [{| s_ns := "ns"; s_name := "web"; s_type := ExternalNameT; s_clusterIP := ""; s_extname := "ext.example.com";
                   s_selector := []; s_ports := [{| sp_name := "http"; sp_port := 80; sp_proto := "TCP"; sp_target := TUnset |}] |}];
     c_slices := []; c_pods := [] |}.

Theorem externalname_named_port_refuted :
  fst (endpoints_entry legacy true w_ext "ns" {| b_kind := KIng; b_svc := "web"; b_port := {| bp_name := "http"; bp_num := 0 |};
                                          b_clusterip := false; b_subsel := [] |}) = ["ext.example.com:0"] /\
  ideal_entry true w_ext "ns" {| b_kind := KIng; b_svc := "web"; b_port := {| bp_name := "http"; bp_num := 0 |};
                                 b_clusterip := false; b_subsel := [] |} = IExact ["ext.example.com:80"].
Proof. vm_compute. auto. Qed.
