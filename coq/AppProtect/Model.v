(* C19 -- App Protect arbitration.  Executable model, no proofs.

   Transcribes  internal/k8s/appprotect/app_protect_configuration.go   (ConfigurationImpl)
          and   internal/k8s/appprotectdos/app_protect_dos_configuration.go (Configuration)
   as total functions  step : state -> event -> state * output.

   Conventions (DESIGN section 3):
   - Go maps are canonical association lists (Base.SMap).  Every range over a map is
     modelled as iteration in key order; every loop body of the transcribed code is independent of
     the writes of the other iterations (verifyPolicies only reads UserSigs; the groups built by
     detectDuplicateTags are disjoint; the DoS re-evaluation loop writes only the entry of the
     resource it evaluates), so only the ORDER of the returned lists depends on Go's iteration
     order.  The harness therefore compares the lists as sorted lists.
   - *UserSigEx / *PolicyEx pointers that are mutated in place become (key, new value) writes
     applied to the map.  Each pointer occurs in exactly one group exactly once (a signature has
     one Tag), is read before its single write, so reading the snapshot taken by
     detectDuplicateTags equals reading through the pointer.
   - Validator verdicts and field extraction results (unstructured.Nested*, time.Parse) are
     oracle fields of the object carried by the event; the harness fills them by running the real
     validators / parsers on the very object it hands to the implementation.
   - Times are Z (seconds).  UIDs compare bytewise like Go strings. *)
From Coq Require Import List ZArith String Ascii Bool.
From NIC Require Import Base.SMap.
Import ListNotations.
Open Scope string_scope.
Open Scope list_scope.
Open Scope Z_scope.

(* ------------------------------------------------------------------------------------------ *)
(* Objects as the API server holds them (attributes the code looks at + oracle verdicts)        *)

(* an optional RFC3339 field: absent, present but unparsable, parsed *)
Inductive tfield := TAbsent | TBad | TAt (t : Z).

Record sigobj := {
  so_uid : string;        (* metadata.uid *)
  so_ts : Z;              (* metadata.creationTimestamp *)
  so_valid : bool;        (* ValidateAppProtectUserSig = nil *)
  so_tag : string;        (* NestedString spec.tag, empty when not found *)
  so_rev : tfield         (* spec.revisionDatetime through time.Parse(RFC3339) *)
}.

Record reqobj := {
  rq_tag : option string; (* requirement[tag] *)
  rq_min : tfield;        (* minRevisionDatetime *)
  rq_max : tfield         (* maxRevisionDatetime *)
}.

Record polobj := {
  po_valid : bool;                 (* ValidateAppProtectPolicy = nil *)
  po_reqs : option (list reqobj)   (* NestedSlice spec.policy.signature-requirements:
                                      None = error (not a slice), Some [] = absent or empty *)
}.

Record logobj := { lo_valid : bool (* ValidateAppProtectLogConf = nil *) }.

Record dpolobj := { dp_valid : bool (* ValidateAppProtectDosPolicy = nil *) }.
Record dlogobj := { dl_valid : bool (* ValidateAppProtectDosLogConf err = nil *) }.

Record probj := {
  pr_ns : string;
  pr_name : string;
  pr_valid : bool;          (* ValidateDosProtectedResource = nil *)
  pr_pol : string;          (* spec.apDosPolicy *)
  pr_log : option string;   (* spec.dosSecurityLog: None = nil, Some r = .apDosLogConf *)
  (* spec.enable and spec.dosSecurityLog.enable: carried by the object, read by NO function of the
     DoS Configuration (neither the usability tests nor the two GetDosProtectedThatReferenced...
     searches); the theorems therefore say that usability and reporting do not depend on them *)
  pr_enable : bool;
  pr_log_enable : bool
}.

(* ------------------------------------------------------------------------------------------ *)
(* Outputs                                                                                      *)

Inductive kind := KPolicy | KLogConf | KUserSig | KDosPolicy | KDosLogConf | KDosPR.
Inductive op := OpDelete | OpAddOrUpdate.

(* message classes of Problem.Message *)
Inductive pclass :=
| PcValidation   (* err.Error() of a validator / validation failed *)
| PcTimestamp    (* invalid timestamp / Error creating time requirements *)
| PcMissing      (* policy has unsatisfied signature requirements *)
| PcDup          (* duplicate tag set *)
| PcBadDosPolicy (* dos protected refers (..) to an invalid DosPolicy *)
| PcBadDosLogConf.

Record change := { c_op : op; c_kind : kind; c_key : string }.
Record problem := { pb_kind : kind; pb_key : string; pb_class : pclass }.

Record output := {
  o_changes : list change;
  o_problems : list problem;
  (* UserSigChange.UserSigs for the two UserSig operations, None for the others.  For the
     UserSig operations o_changes holds PolicyAddsOrUpdates / PolicyDeletions. *)
  o_usersigs : option (list string)
}.

Definition out0 : output := {| o_changes := []; o_problems := []; o_usersigs := None |}.

(* ------------------------------------------------------------------------------------------ *)
(* WAF: ConfigurationImpl                                                                        *)

(* ErrorMsg constants *)
Inductive err := ENone | EFailed | EMissing | EDup | EBadTs.

Definition err_eqb (a b : err) : bool :=
  match a, b with
  | ENone, ENone | EFailed, EFailed | EMissing, EMissing | EDup, EDup | EBadTs, EBadTs => true
  | _, _ => false
  end.

Record UserSigEx := {
  s_obj : sigobj; s_tag : string; s_rev : option Z; s_valid : bool; s_err : err
}.

(* RevTimes: (MinRevTime, MaxRevTime);  SignatureReq.RevTimes is a pointer *)
Record sigreq := { sr_tag : string; sr_rev : option (option Z * option Z) }.

Record PolicyEx := {
  p_obj : polobj; p_reqs : list sigreq; p_valid : bool; p_err : err
}.

Record LogConfEx := { l_obj : logobj; l_valid : bool; l_err : err }.

Record wstate := {
  policies : smap PolicyEx;
  logconfs : smap LogConfEx;
  usersigs : smap UserSigEx
}.

Definition sig_set_valid (s : UserSigEx) : UserSigEx :=
  {| s_obj := s_obj s; s_tag := s_tag s; s_rev := s_rev s; s_valid := true; s_err := ENone |}.
Definition sig_set_invalid (s : UserSigEx) (e : err) : UserSigEx :=
  {| s_obj := s_obj s; s_tag := s_tag s; s_rev := s_rev s; s_valid := false; s_err := e |}.
Definition pol_set_valid (p : PolicyEx) : PolicyEx :=
  {| p_obj := p_obj p; p_reqs := p_reqs p; p_valid := true; p_err := ENone |}.
Definition pol_set_invalid (p : PolicyEx) (e : err) : PolicyEx :=
  {| p_obj := p_obj p; p_reqs := p_reqs p; p_valid := false; p_err := e |}.

(* buildRevTimes: None = error *)
Definition tf_opt (f : tfield) : option Z := match f with TAt z => Some z | _ => None end.
Definition build_rev_times (r : reqobj) : option (option Z * option Z) :=
  match rq_min r with
  | TBad => None
  | _ => match rq_max r with
         | TBad => None
         | _ => Some (tf_opt (rq_min r), tf_opt (rq_max r))
         end
  end.

(* the loop of createAppProtectPolicyEx over the requirement list: None = time error *)
Fixpoint build_reqs (l : list reqobj) : option (list sigreq) :=
  match l with
  | [] => Some []
  | r :: rest =>
      match rq_tag r with
      | None => build_reqs rest
      | Some tag =>
          match build_rev_times r with
          | None => None
          | Some rt =>
              match build_reqs rest with
              | None => None
              | Some reqs => Some ({| sr_tag := tag; sr_rev := Some rt |} :: reqs)
              end
          end
      end
  end.

(* createAppProtectPolicyEx: the extended policy and the class of the returned error, if any *)
Definition create_policy_ex (o : polobj) : PolicyEx * option pclass :=
  if negb (po_valid o) then
    ({| p_obj := o; p_reqs := []; p_valid := false; p_err := EFailed |}, Some PcValidation)
  else match po_reqs o with
       | None => ({| p_obj := o; p_reqs := []; p_valid := false; p_err := EFailed |}, Some PcValidation)
       | Some l =>
           match build_reqs l with
           | None => ({| p_obj := o; p_reqs := []; p_valid := false; p_err := EBadTs |}, Some PcTimestamp)
           | Some reqs => ({| p_obj := o; p_reqs := reqs; p_valid := true; p_err := ENone |}, None)
           end
       end.

Definition create_logconf_ex (o : logobj) : LogConfEx * option pclass :=
  if lo_valid o then ({| l_obj := o; l_valid := true; l_err := ENone |}, None)
  else ({| l_obj := o; l_valid := false; l_err := EFailed |}, Some PcValidation).

(* createAppProtectUserSigEx.  Note that the invalid-timestamp branch leaves Tag empty. *)
Definition create_usersig_ex (o : sigobj) : UserSigEx * option pclass :=
  if negb (so_valid o) then
    ({| s_obj := o; s_tag := ""; s_rev := None; s_valid := false; s_err := EFailed |}, Some PcValidation)
  else match so_rev o with
       | TBad => ({| s_obj := o; s_tag := ""; s_rev := None; s_valid := false; s_err := EBadTs |}, Some PcTimestamp)
       | TAt z => ({| s_obj := o; s_tag := so_tag o; s_rev := Some z; s_valid := true; s_err := ENone |}, None)
       | TAbsent => ({| s_obj := o; s_tag := so_tag o; s_rev := None; s_valid := true; s_err := ENone |}, None)
       end.

(* ------------------------------------------------------------------------------------------ *)
(* The code variant.  fx = false: /repo as it is.  fx = true: /repo with fixes/F21.diff applied
   (isReqSatisfiedByUserSig returns true when the requirement gives neither bound).  The harness
   probes the real function on every run and hands the observed variant to the model. *)
Section Variant.
Variable fx : bool.

Definition is_none_z (o : option Z) : bool := match o with None => true | Some _ => false end.

(* isReqSatisfiedByUserSig, branch by branch (Before = <, After = >) *)
Definition is_req_satisfied_by_user_sig (rq : sigreq) (sg : UserSigEx) : bool :=
  if String.eqb (s_tag sg) "" || negb (String.eqb (s_tag sg) (sr_tag rq)) then false
  else match sr_rev rq, s_rev sg with
       | None, _ => String.eqb (s_tag sg) (sr_tag rq)
       | _, None => String.eqb (s_tag sg) (sr_tag rq)
       | Some (mn, mx), Some r =>
           if fx && is_none_z mn && is_none_z mx then true   (* fixes/F21.diff *)
           else
           match mn, mx with
           | Some a, Some b => (r <? b) && (a <? r)
           | _, _ =>
               if match mx with Some b => r <? b | None => false end then true
               else if match mn with Some a => a <? r | None => false end then true
               else false
           end
       end.

Definition is_req_satisfied_by_user_sigs (rq : sigreq) (sigs : smap UserSigEx) : bool :=
  existsb (fun ke => is_req_satisfied_by_user_sig rq (snd ke) && s_valid (snd ke)) sigs.

Definition verify_policy_against_user_sigs (sigs : smap UserSigEx) (p : PolicyEx) : bool :=
  forallb (fun rq => is_req_satisfied_by_user_sigs rq sigs) (p_reqs p).

Definition chg (o : op) (k : kind) (key : string) : change := {| c_op := o; c_kind := k; c_key := key |}.
Definition prob (k : kind) (key : string) (c : pclass) : problem := {| pb_kind := k; pb_key := key; pb_class := c |}.

Definition with_policies (st : wstate) (m : smap PolicyEx) : wstate :=
  {| policies := m; logconfs := logconfs st; usersigs := usersigs st |}.
Definition with_logconfs (st : wstate) (m : smap LogConfEx) : wstate :=
  {| policies := policies st; logconfs := m; usersigs := usersigs st |}.

(* AddOrUpdatePolicy *)
Definition add_or_update_policy (st : wstate) (key : string) (o : polobj) : wstate * output :=
  match create_policy_ex o with
  | (pol, Some c) =>
      (with_policies st (insert key pol (policies st)),
       {| o_changes := [chg OpDelete KPolicy key]; o_problems := [prob KPolicy key c]; o_usersigs := None |})
  | (pol, None) =>
      if verify_policy_against_user_sigs (usersigs st) pol then
        (with_policies st (insert key pol (policies st)),
         {| o_changes := [chg OpAddOrUpdate KPolicy key]; o_problems := []; o_usersigs := None |})
      else
        (with_policies st (insert key (pol_set_invalid pol EMissing) (policies st)),
         {| o_changes := [chg OpDelete KPolicy key]; o_problems := [prob KPolicy key PcMissing];
            o_usersigs := None |})
  end.

(* AddOrUpdateLogConf *)
Definition add_or_update_logconf (st : wstate) (key : string) (o : logobj) : wstate * output :=
  match create_logconf_ex o with
  | (lc, Some c) =>
      (with_logconfs st (insert key lc (logconfs st)),
       {| o_changes := [chg OpDelete KLogConf key]; o_problems := [prob KLogConf key c]; o_usersigs := None |})
  | (lc, None) =>
      (with_logconfs st (insert key lc (logconfs st)),
       {| o_changes := [chg OpAddOrUpdate KLogConf key]; o_problems := []; o_usersigs := None |})
  end.

(* DeletePolicy / DeleteLogConf *)
Definition delete_policy (st : wstate) (key : string) : wstate * output :=
  match lookup key (policies st) with
  | Some _ => (with_policies st (remove key (policies st)),
               {| o_changes := [chg OpDelete KPolicy key]; o_problems := []; o_usersigs := None |})
  | None => (st, out0)
  end.

Definition delete_logconf (st : wstate) (key : string) : wstate * output :=
  match lookup key (logconfs st) with
  | Some _ => (with_logconfs st (remove key (logconfs st)),
               {| o_changes := [chg OpDelete KLogConf key]; o_problems := []; o_usersigs := None |})
  | None => (st, out0)
  end.

(* appProtectUserSigSlice.Less: older creation timestamp first; on a tie the GREATER uid first *)
Definition uid_gt (a b : string) : bool :=
  match String.compare a b with Gt => true | _ => false end.

Definition obj_less (a b : sigobj) : bool :=
  if so_ts a =? so_ts b then uid_gt (so_uid a) (so_uid b) else so_ts a <? so_ts b.

Definition sig_less (a b : string * UserSigEx) : bool := obj_less (s_obj (snd a)) (s_obj (snd b)).

(* sort.Sort: any correct sort gives this result when Less is a strict total order on the slice
   (Proofs: isort_perm_unique); insertion sort is the executable stand-in *)
Fixpoint sig_ins (x : string * UserSigEx) (l : list (string * UserSigEx)) : list (string * UserSigEx) :=
  match l with
  | [] => [x]
  | y :: r => if sig_less x y then x :: l else y :: sig_ins x r
  end.
Definition sig_sort (l : list (string * UserSigEx)) : list (string * UserSigEx) := fold_right sig_ins [] l.

(* detectDuplicateTags: tmp maps a Tag to the signatures declaring it whose ErrorMsg is not
   the validation-failed one; the empty Tag is dropped at the end *)
Definition dd_add (tmp : smap (list (string * UserSigEx))) (ke : string * UserSigEx)
  : smap (list (string * UserSigEx)) :=
  let sg := snd ke in
  match lookup (s_tag sg) tmp with
  | Some val => if negb (err_eqb (s_err sg) EFailed) then insert (s_tag sg) (val ++ [ke]) tmp else tmp
  | None => if negb (err_eqb (s_err sg) EFailed) then insert (s_tag sg) [ke] tmp else tmp
  end.

Definition detect_duplicate_tags (sigs : smap UserSigEx) : list (list (string * UserSigEx)) :=
  map snd (filter (fun tg => negb (String.eqb (fst tg) "")) (fold_left dd_add sigs [])).

(* one iteration of the loop of reconcileUserSigs: writes, changes, problems *)
Definition reconcile_group (g : list (string * UserSigEx))
  : list (string * UserSigEx) * list change * list problem :=
  match sig_sort g with
  | [] => ([], [], [])   (* unreachable: groups are non-empty (sigs[0] would panic) *)
  | w :: rest =>
      let wr1 := if s_valid (snd w) then [] else [(fst w, sig_set_valid (snd w))] in
      let ch1 := if s_valid (snd w) then [] else [chg OpAddOrUpdate KUserSig (fst w)] in
      let losers := filter (fun ke => s_valid (snd ke)) rest in
      (wr1 ++ map (fun ke => (fst ke, sig_set_invalid (snd ke) EDup)) losers,
       ch1 ++ map (fun ke => chg OpDelete KUserSig (fst ke)) losers,
       map (fun ke => prob KUserSig (fst ke) PcDup) losers)
  end.

Definition apply_writes {A} (m : smap A) (ws : list (string * A)) : smap A :=
  fold_left (fun m kv => insert (fst kv) (snd kv) m) ws m.

(* reconcileUserSigs *)
Definition reconcile_user_sigs (sigs : smap UserSigEx) : smap UserSigEx * list change * list problem :=
  let rs := map reconcile_group (detect_duplicate_tags sigs) in
  (apply_writes sigs (flat_map (fun r => fst (fst r)) rs),
   flat_map (fun r => snd (fst r)) rs,
   flat_map (fun r => snd r) rs).

(* body of the loop of verifyPolicies for one policy *)
Definition verify_one (sigs : smap UserSigEx) (key : string) (pol : PolicyEx)
  : PolicyEx * list change * list problem :=
  let '(pol1, ch1) :=
    if negb (p_valid pol) && err_eqb (p_err pol) EMissing then
      if verify_policy_against_user_sigs sigs pol
      then (pol_set_valid pol, [chg OpAddOrUpdate KPolicy key]) else (pol, [])
    else (pol, []) in
  if p_valid pol1 then
    if negb (verify_policy_against_user_sigs sigs pol1)
    then (pol_set_invalid pol1 EMissing, ch1 ++ [chg OpDelete KPolicy key], [prob KPolicy key PcMissing])
    else (pol1, ch1, [])
  else (pol1, ch1, []).

(* verifyPolicies *)
Definition verify_policies (sigs : smap UserSigEx) (pols : smap PolicyEx)
  : smap PolicyEx * list change * list problem :=
  let rs := map (fun kp => (fst kp, verify_one sigs (fst kp) (snd kp))) pols in
  (map (fun r => (fst r, fst (fst (snd r)))) rs,
   flat_map (fun r => snd (fst (snd r))) rs,
   flat_map (fun r => snd (snd r)) rs).

(* getAllUserSigObjects *)
Definition all_user_sig_keys (sigs : smap UserSigEx) : list string :=
  map fst (filter (fun ke => s_valid (snd ke)) sigs).

Definition is_policy_change (c : change) : bool :=
  match c_kind c with KPolicy => true | _ => false end.

(* buildUserSigChangeAndProblems: [sigs0] is ci.UserSigs after the insertion / deletion *)
Definition build_user_sig_change (st : wstate) (sigs0 : smap UserSigEx) (problems0 : list problem)
  : wstate * output :=
  let '(sigs1, rch, rpr) := reconcile_user_sigs sigs0 in
  let '(pols1, vch, vpr) := verify_policies sigs1 (policies st) in
  ({| policies := pols1; logconfs := logconfs st; usersigs := sigs1 |},
   {| o_changes := filter is_policy_change (rch ++ vch);
      o_problems := problems0 ++ rpr ++ vpr;
      o_usersigs := Some (all_user_sig_keys sigs1) |}).

(* AddOrUpdateUserSig *)
Definition add_or_update_usersig (st : wstate) (key : string) (o : sigobj) : wstate * output :=
  let '(sg, e) := create_usersig_ex o in
  build_user_sig_change st (insert key sg (usersigs st))
    (match e with Some c => [prob KUserSig key c] | None => [] end).

(* DeleteUserSig: for an absent key the zero UserSigChange is returned (UserSigs = nil) *)
Definition delete_usersig (st : wstate) (key : string) : wstate * output :=
  match lookup key (usersigs st) with
  | Some _ => build_user_sig_change st (remove key (usersigs st)) []
  | None => (st, {| o_changes := []; o_problems := []; o_usersigs := Some [] |})
  end.

(* GetAppResource *)
Inductive answer := AOk | AErr (e : err) | ANotFound.

Definition get_app_resource (st : wstate) (k : kind) (key : string) : answer :=
  match k with
  | KPolicy => match lookup key (policies st) with
               | Some p => if p_valid p then AOk else AErr (p_err p)
               | None => ANotFound end
  | KLogConf => match lookup key (logconfs st) with
                | Some l => if l_valid l then AOk else AErr (l_err l)
                | None => ANotFound end
  | KUserSig => match lookup key (usersigs st) with
                | Some s => if s_valid s then AOk else AErr (s_err s)
                | None => ANotFound end
  | _ => ANotFound   (* unknown app protect resource kind *)
  end.

(* ------------------------------------------------------------------------------------------ *)
(* DoS: Configuration                                                                            *)

Record DosPolicyEx := { dpe_obj : dpolobj; dpe_valid : bool }.
Record DosLogConfEx := { dle_obj : dlogobj; dle_valid : bool }.
Record DosPrEx := { dre_obj : probj; dre_valid : bool }.

Record dstate := {
  dpols : smap DosPolicyEx;
  dlogs : smap DosLogConfEx;
  dprs : smap DosPrEx;
  d_enabled : bool
}.

Definition slash : ascii := "/"%char.

(* strings.Contains(s, "/") *)
Fixpoint contains_slash (s : string) : bool :=
  match s with
  | EmptyString => false
  | String c r => if Ascii.eqb c slash then true else contains_slash r
  end.

Definition ns_name (ns name : string) : string := (ns ++ "/" ++ name)%string.

(* "if the reference does not have a namespace, use the dos protected' namespace" *)
Definition resolve_ref (ns ref : string) : string :=
  if contains_slash ref then ref else ns_name ns ref.

Inductive getres := GOk | GNotFound | GInvalid.

Definition get_dos_policy (st : dstate) (key : string) : getres :=
  match lookup key (dpols st) with
  | None => GNotFound
  | Some e => if dpe_valid e then GOk else GInvalid
  end.
Definition get_dos_logconf (st : dstate) (key : string) : getres :=
  match lookup key (dlogs st) with
  | None => GNotFound
  | Some e => if dle_valid e then GOk else GInvalid
  end.

Definition with_dprs (st : dstate) (m : smap DosPrEx) : dstate :=
  {| dpols := dpols st; dlogs := dlogs st; dprs := m; d_enabled := d_enabled st |}.

Definition create_dos_pr_ex (o : probj) : DosPrEx := {| dre_obj := o; dre_valid := pr_valid o |}.

Definition is_gok (r : getres) : bool := match r with GOk => true | _ => false end.

(* AddOrUpdateDosProtectedResource *)
Definition add_or_update_dos_pr (st : dstate) (o : probj) : dstate * list change * list problem :=
  let key := ns_name (pr_ns o) (pr_name o) in
  let st1 := with_dprs st (insert key (create_dos_pr_ex o) (dprs st)) in
  if negb (pr_valid o) then (st1, [chg OpDelete KDosPR key], [prob KDosPR key PcValidation])
  else if negb (String.eqb (pr_pol o) "") && negb (is_gok (get_dos_policy st1 (resolve_ref (pr_ns o) (pr_pol o))))
  then (st1, [chg OpDelete KDosPR key], [prob KDosPR key PcBadDosPolicy])
  else match pr_log o with
       | Some lref =>
           if negb (String.eqb lref "") && negb (is_gok (get_dos_logconf st1 (resolve_ref (pr_ns o) lref)))
           then (st1, [chg OpDelete KDosPR key], [prob KDosPR key PcBadDosLogConf])
           else (st1, [chg OpAddOrUpdate KDosPR key], [])
       | None => (st1, [chg OpAddOrUpdate KDosPR key], [])
       end.

(* GetDosProtectedThatReferencedDosPolicy / ...DosLogConf *)
Definition prs_referencing_policy (st : dstate) (key : string) : list probj :=
  map (fun ke => dre_obj (snd ke))
      (filter (fun ke => let o := dre_obj (snd ke) in
                         String.eqb key (pr_pol o) || String.eqb key (ns_name (pr_ns o) (pr_pol o)))
              (dprs st)).

Definition prs_referencing_logconf (st : dstate) (key : string) : list probj :=
  map (fun ke => dre_obj (snd ke))
      (filter (fun ke => let o := dre_obj (snd ke) in
                         match pr_log o with
                         | Some l => String.eqb key l || String.eqb key (ns_name (pr_ns o) l)
                         | None => false
                         end)
              (dprs st)).

(* the re-evaluation loop shared by the four policy / log conf operations *)
Fixpoint reeval (st : dstate) (l : list probj) : dstate * list change * list problem :=
  match l with
  | [] => (st, [], [])
  | p :: rest =>
      let '(st1, c1, p1) := add_or_update_dos_pr st p in
      let '(st2, c2, p2) := reeval st1 rest in
      (st2, c1 ++ c2, p1 ++ p2)
  end.

Definition dos_out (c : list change) (p : list problem) : output :=
  {| o_changes := c; o_problems := p; o_usersigs := None |}.

Definition dos_add_or_update_policy (st : dstate) (key : string) (o : dpolobj) : dstate * output :=
  let st1 := {| dpols := insert key {| dpe_obj := o; dpe_valid := dp_valid o |} (dpols st);
                dlogs := dlogs st; dprs := dprs st; d_enabled := d_enabled st |} in
  let c0 := [chg (if dp_valid o then OpAddOrUpdate else OpDelete) KDosPolicy key] in
  let p0 := if dp_valid o then [] else [prob KDosPolicy key PcValidation] in
  let '(st2, c, p) := reeval st1 (prs_referencing_policy st1 key) in
  (st2, dos_out (c0 ++ c) (p0 ++ p)).

Definition dos_add_or_update_logconf (st : dstate) (key : string) (o : dlogobj) : dstate * output :=
  let st1 := {| dpols := dpols st;
                dlogs := insert key {| dle_obj := o; dle_valid := dl_valid o |} (dlogs st);
                dprs := dprs st; d_enabled := d_enabled st |} in
  let c0 := [chg (if dl_valid o then OpAddOrUpdate else OpDelete) KDosLogConf key] in
  let p0 := if dl_valid o then [] else [prob KDosLogConf key PcValidation] in
  let '(st2, c, p) := reeval st1 (prs_referencing_logconf st1 key) in
  (st2, dos_out (c0 ++ c) (p0 ++ p)).

Definition dos_delete_policy (st : dstate) (key : string) : dstate * output :=
  let '(st1, c0) :=
    match lookup key (dpols st) with
    | Some _ => ({| dpols := remove key (dpols st); dlogs := dlogs st; dprs := dprs st;
                    d_enabled := d_enabled st |}, [chg OpDelete KDosPolicy key])
    | None => (st, [])
    end in
  let '(st2, c, p) := reeval st1 (prs_referencing_policy st1 key) in
  (st2, dos_out (c0 ++ c) p).

Definition dos_delete_logconf (st : dstate) (key : string) : dstate * output :=
  let '(st1, c0) :=
    match lookup key (dlogs st) with
    | Some _ => ({| dpols := dpols st; dlogs := remove key (dlogs st); dprs := dprs st;
                    d_enabled := d_enabled st |}, [chg OpDelete KDosLogConf key])
    | None => (st, [])
    end in
  let '(st2, c, p) := reeval st1 (prs_referencing_logconf st1 key) in
  (st2, dos_out (c0 ++ c) p).

Definition dos_delete_pr (st : dstate) (key : string) : dstate * output :=
  match lookup key (dprs st) with
  | Some _ => (with_dprs st (remove key (dprs st)), dos_out [chg OpDelete KDosPR key] [])
  | None => (st, out0)
  end.

(* GetValidDosEx *)
Inductive dos_answer :=
| DOk | DDisabled | DNotFound | DInvalid
| DPolMissing | DPolInvalid | DLogMissing | DLogInvalid.

Definition get_ns_name (default_ns name : string) : string :=
  if contains_slash name then name else ns_name default_ns name.

(* the body of GetValidDosEx once the key is computed *)
Definition dos_ex_by_key (st : dstate) (key : string) : dos_answer :=
  if negb (d_enabled st) then DDisabled
  else match lookup key (dprs st) with
       | None => DNotFound
       | Some ex =>
           if negb (dre_valid ex) then DInvalid
           else
             let o := dre_obj ex in
             match (if String.eqb (pr_pol o) "" then GOk
                    else get_dos_policy st (resolve_ref (pr_ns o) (pr_pol o))) with
             | GNotFound => DPolMissing
             | GInvalid => DPolInvalid
             | GOk =>
                 match pr_log o with
                 | None => DOk
                 | Some lref =>
                     if String.eqb lref "" then DOk
                     else match get_dos_logconf st (resolve_ref (pr_ns o) lref) with
                          | GNotFound => DLogMissing
                          | GInvalid => DLogInvalid
                          | GOk => DOk
                          end
                 end
             end
       end.

Definition get_valid_dos_ex (st : dstate) (parent_ns ns_nm : string) : dos_answer :=
  dos_ex_by_key st (get_ns_name parent_ns ns_nm).

(* ------------------------------------------------------------------------------------------ *)
(* The combined machine                                                                          *)

Inductive event :=
| EvPolicy (key : string) (o : polobj)
| EvDelPolicy (key : string)
| EvLogConf (key : string) (o : logobj)
| EvDelLogConf (key : string)
| EvUserSig (key : string) (o : sigobj)
| EvDelUserSig (key : string)
| EvDosPolicy (key : string) (o : dpolobj)
| EvDelDosPolicy (key : string)
| EvDosLogConf (key : string) (o : dlogobj)
| EvDelDosLogConf (key : string)
| EvDosPR (o : probj)
| EvDelDosPR (key : string).

Record state := { waf : wstate; dos : dstate }.

Definition init (dos_enabled : bool) : state :=
  {| waf := {| policies := []; logconfs := []; usersigs := [] |};
     dos := {| dpols := []; dlogs := []; dprs := []; d_enabled := dos_enabled |} |}.

Definition lift_w (st : state) (r : wstate * output) : state * output :=
  ({| waf := fst r; dos := dos st |}, snd r).
Definition lift_d (st : state) (r : dstate * output) : state * output :=
  ({| waf := waf st; dos := fst r |}, snd r).

Definition step (st : state) (ev : event) : state * output :=
  match ev with
  | EvPolicy k o => lift_w st (add_or_update_policy (waf st) k o)
  | EvDelPolicy k => lift_w st (delete_policy (waf st) k)
  | EvLogConf k o => lift_w st (add_or_update_logconf (waf st) k o)
  | EvDelLogConf k => lift_w st (delete_logconf (waf st) k)
  | EvUserSig k o => lift_w st (add_or_update_usersig (waf st) k o)
  | EvDelUserSig k => lift_w st (delete_usersig (waf st) k)
  | EvDosPolicy k o => lift_d st (dos_add_or_update_policy (dos st) k o)
  | EvDelDosPolicy k => lift_d st (dos_delete_policy (dos st) k)
  | EvDosLogConf k o => lift_d st (dos_add_or_update_logconf (dos st) k o)
  | EvDelDosLogConf k => lift_d st (dos_delete_logconf (dos st) k)
  | EvDosPR o =>
      let '(d, c, p) := add_or_update_dos_pr (dos st) o in
      ({| waf := waf st; dos := d |}, dos_out c p)
  | EvDelDosPR k => lift_d st (dos_delete_pr (dos st) k)
  end.

Definition run_from (st : state) (evs : list event) : state :=
  fold_left (fun s ev => fst (step s ev)) evs st.

Definition run (dos_enabled : bool) (evs : list event) : state := run_from (init dos_enabled) evs.

(* The controller projection of a signature operation (syncAppProtectUserSig ->
   processAppProtectUserSigChange -> Configurator.RefreshAppProtectUserSigs): the user-signature
   folder is cleared and rewritten, with its index, from UserSigChange.UserSigs.  [files] are the
   sets the index lists (namespace/name).  Operations on other kinds do not touch the folder. *)
Definition project_files (files : list string) (out : output) : list string :=
  match o_usersigs out with Some l => l | None => files end.

Definition ctl_step (sf : state * list string) (ev : event) : state * list string :=
  (fst (step (fst sf) ev), project_files (snd sf) (snd (step (fst sf) ev))).

Definition ctl_run_from (sf : state * list string) (evs : list event) : state * list string :=
  fold_left ctl_step evs sf.

Definition ctl_run (dos_enabled : bool) (evs : list event) : state * list string :=
  ctl_run_from (init dos_enabled, []) evs.

End Variant.
