//go:build verif

package externaldns

import (
	"context"
	"fmt"

	clientset "github.com/nginx/kubernetes-ingress/pkg/client/clientset/versioned"
	"k8s.io/apimachinery/pkg/types"
	"k8s.io/client-go/tools/cache"
	"k8s.io/client-go/tools/record"
	"k8s.io/client-go/util/workqueue"

	vsapi "github.com/nginx/kubernetes-ingress/pkg/apis/configuration/v1"
)

// VerifCtl is the event-handler / work-queue layer of the ExternalDNS controller for the C20
// delivery family: the controller is built by the production NewController (real informer group,
// real listers over the informers' indexers, real rate-limited queue, real SyncFnFor).  The
// informers are not started (the generated fake clientset cannot LIST DNSEndpoints); the harness
// feeds their indexers and calls the handlers the way a running informer does.  The two handler
// values are built exactly as newNamespacedInformer builds the ones it registers.
type VerifCtl struct {
	q     *drainQueue
	Calls []VerifCall
	c *ExtDNSController
	// VS is the handler of the controller's VirtualServer informer, Derived that of its
	// DNSEndpoint informer (owner reference -> VirtualServer key)
	VS, Derived          cache.ResourceEventHandler
	VSStore, DerivedStore cache.Indexer
}

func VerifNewCtl(ctx context.Context, rec record.EventRecorder, client clientset.Interface) *VerifCtl {
	c := NewController(BuildOpts(ctx, []string{""}, rec, client, 0, false))
	nsi := c.informerGroup[""]
	v := &VerifCtl{c: c}
	v.instrument()
	v.VS = &QueuingEventHandler{Queue: c.queue}
	v.Derived = &BlockingEventHandler{WorkFunc: externalDNSHandler(c.queue)}
	v.VSStore = nsi.sharedInformerFactory.K8s().V1().VirtualServers().Informer().GetIndexer()
	v.DerivedStore = nsi.sharedInformerFactory.Externaldns().V1().DNSEndpoints().Informer().GetIndexer()
	return v
}

func (v *VerifCtl) QueueLen() int { return v.c.queue.Len() }

// VerifCall is one run of the real SyncFnFor function issued by the real processItem.
type VerifCall struct {
	Key string
	Err error
}

// drainQueue is the real rate-limited work queue behind two small changes that make the real worker
// loop usable synchronously: Get reports "shut down" when nothing is queued, so runWorker returns
// instead of blocking; AddRateLimited re-adds at once instead of after the back-off delay, and parks an
// item that failed maxFails times in a row until the harness releases it (= the delay has passed).
// Add / Done / Forget and the dirty / processing bookkeeping are the real queue's.
type drainQueue struct {
	workqueue.TypedRateLimitingInterface[types.NamespacedName]
	fails  map[types.NamespacedName]int
	parked []types.NamespacedName
}

const maxFails = 6

func (q *drainQueue) Get() (types.NamespacedName, bool) {
	if q.TypedRateLimitingInterface.Len() == 0 {
		return types.NamespacedName{}, true
	}
	return q.TypedRateLimitingInterface.Get()
}

func (q *drainQueue) AddRateLimited(item types.NamespacedName) {
	q.fails[item]++
	if q.fails[item] >= maxFails {
		q.parked = append(q.parked, item)
		return
	}
	q.TypedRateLimitingInterface.Add(item)
}

func (q *drainQueue) Forget(item types.NamespacedName) {
	delete(q.fails, item)
	q.TypedRateLimitingInterface.Forget(item)
}

// instrument puts the drain queue in front of the controller's queue and records every call of the
// reconciliation function.
func (v *VerifCtl) instrument() {
	v.q = &drainQueue{TypedRateLimitingInterface: v.c.queue, fails: map[types.NamespacedName]int{}}
	v.c.queue = v.q
	real := v.c.sync
	v.c.sync = func(ctx context.Context, vs *vsapi.VirtualServer) error {
		err := real(ctx, vs)
		v.Calls = append(v.Calls, VerifCall{Key: fmt.Sprintf("%s/%s", vs.Namespace, vs.Name), Err: err})
		return err
	}
}

// RunWorker runs the production worker loop (runWorker: Get, processItem, AddRateLimited / Forget,
// Done) until nothing is queued, and returns the reconciliation calls it made.
func (v *VerifCtl) RunWorker(ctx context.Context) []VerifCall {
	v.Calls = nil
	v.c.runWorker(ctx)
	return v.Calls
}

// ReleaseDelayed lets the back-off delay of parked items pass.
func (v *VerifCtl) ReleaseDelayed() {
	for _, it := range v.q.parked {
		v.q.fails[it] = 0
		v.q.TypedRateLimitingInterface.Add(it)
	}
	v.q.parked = nil
}

func (v *VerifCtl) Shutdown() { v.q.TypedRateLimitingInterface.ShutDown() }
