(* C05 truth proof, part 12: a stored object that is not applied has a standing host-side problem *)
From Coq Require Import List ZArith String Ascii Bool Lia.
From NIC Require Import Base.SMap Arb.Types Arb.Model Arb.Spec Arb.WinsProofs Arb.InvProofs Arb.OwnerProofs
     Arb.ListenerProofs Arb.ClassProofs Arb.ChangeProofs Arb.ReportProofs Arb.ComposeProofs Arb.Cases Arb.ShadowProofs Arb.ShadowAttrs.
From NIC Require Import Arb.Truth01 Arb.Truth02 Arb.Truth03 Arb.Truth04 Arb.Truth05 Arb.Truth06 Arb.Truth07 Arb.Truth08 Arb.Truth09 Arb.Truth10 Arb.Truth11.
Import ListNotations.
Open Scope string_scope.
Open Scope Z_scope.

Lemma wf_fold_insert_bool (f : string -> bool) : forall l m, wf m -> wf (fold_left (fun m h => insert h (f h) m) l m).
Proof. induction l as [|h l IH]; intros m W; cbn [fold_left]; [exact W|]. apply IH. apply wf_insert. exact W. Qed.

Lemma wf_valid_hosts hs i : wf (valid_hosts_of hs i).
Proof. unfold valid_hosts_of. apply (wf_fold_insert_bool (fun h => match lookup h hs with Some y => String.eqb (fst y) (ing_rkey i) | None => false end)). constructor. Qed.

Section Static.
  Variables (c : cfg) (o : objs).
  Hypothesis Hcm : cert_manager c = false.
  Hypothesis Hok : objs_ok o.
  Hypothesis Hr : roles_ok o.
  Hypothesis Hwf : objs_wf c o.
  Let B := build c (o_ings o) (o_vss o) (o_vsrs o) (o_tss o) (o_gc o).
  Let H := hosts_of_objs c o.

  Theorem ing_inactive_problem k0 i : In (k0, i) (o_ings o) -> is_minion i = false -> ~ ApO c o (ing_rkey i) ->
    lookup (ing_rkey i) (hprobs_of_objs c o) <> None.
  Proof.
    intros Hi Hm HA. destruct (res_of_ing c o Hcm Hok k0 i Hi Hm) as (ic & L & Eic).
    pose proof (b_res_shape c _ _ (o_vsrs o) _ (o_gc o) _ _ L) as [_ Hvh].
    destruct (any_true (ic_valid_hosts ic)) eqn:Ea.
    - exfalso. apply HA. left. apply any_true_in in Ea. destruct Ea as (h & Hin). rewrite Hvh in Hin.
      apply In_lookup in Hin; [|apply wf_valid_hosts]. apply valid_hosts_true in Hin. destruct Hin as [_ ([k1 m] & Hy & Hk)].
      cbn [fst] in Hk. rewrite Eic in Hk. subst k1.
      apply (key_in_holder c o). exists h, m. split; [exact Hy|]. rewrite L. discriminate.
    - eapply (hprob_present c o). left. unfold problems_no_host. apply in_filter_map. exists (ing_rkey i, RIng ic).
      split; [apply lookup_In; exact L|]. cbn [fst snd]. rewrite Ea. reflexivity.
  Qed.

  Lemma holder_key_eq h k : k <> "" -> holder_key H h = k -> exists r, lookup h H = Some r /\ rkey r = k.
  Proof. unfold holder_key. intros Hne E. destruct (lookup h H) as [r|]; [eauto|congruence]. Qed.

  Theorem vs_inactive_problem k0 v : In (k0, v) (o_vss o) -> ~ ApO c o (vs_rkey v) ->
    lookup (vs_rkey v) (hprobs_of_objs c o) <> None.
  Proof.
    intros Hv HA. destruct (res_of_vs c o Hcm Hok k0 v Hv) as (vc & L & Evc).
    destruct (String.eqb (holder_key H (v_host (vc_vs vc))) (vs_rkey v)) eqn:Eh.
    - exfalso. apply HA. left. apply String.eqb_eq in Eh. apply holder_key_eq in Eh; [|unfold vs_rkey; cbn; discriminate].
      destruct Eh as (r & Hh & Hk). exists (v_host (vc_vs vc)), r. auto.
    - eapply (hprob_present c o). left. unfold problems_no_host. apply in_filter_map. exists (vs_rkey v, RVS vc).
      split; [apply lookup_In; exact L|]. cbn [fst snd]. fold H. rewrite Eh. reflexivity.
  Qed.

  Theorem ts_inactive_problem k0 t : In (k0, t) (o_tss o) -> is_passthrough t = true -> ~ ApO c o (ts_rkey t) ->
    lookup (ts_rkey t) (hprobs_of_objs c o) <> None.
  Proof.
    intros Ht Hp HA. destruct Hwf as (_ & _ & _ & _ & Wt).
    destruct (res_of_ts c o Hcm Hok k0 t Ht Hp (Wt _ _ Ht Hp)) as (tc & L & Etc).
    destruct (String.eqb (holder_key H (t_host (tc_ts tc))) (ts_rkey t)) eqn:Eh.
    - exfalso. apply HA. left. apply String.eqb_eq in Eh. apply holder_key_eq in Eh; [|unfold ts_rkey; cbn; discriminate].
      destruct Eh as (r & Hh & Hk). exists (t_host (tc_ts tc)), r. auto.
    - eapply (hprob_present c o). left. unfold problems_no_host. apply in_filter_map. exists (ts_rkey t, RTS tc).
      split; [apply lookup_In; exact L|]. cbn [fst snd]. fold H. rewrite Eh. reflexivity.
  Qed.

  Theorem minion_unattached_problem k0 i : In (k0, i) (o_ings o) -> is_minion i = true -> ~ ApO c o (ing_rkey i) ->
    lookup (ing_rkey i) (hprobs_of_objs c o) <> None.
  Proof.
    intros Hi Hm HA. destruct Hok as (W1 & W2 & W3 & W4 & K1 & K2 & K3 & K4).
    assert (Hbad : match lookup (host0 i) H with Some (RIng ic) => ic_master ic | _ => false end = false).
    { destruct (lookup (host0 i) H) as [[ic|vc|tc]|] eqn:Hh; try reflexivity.
      destruct (ic_master ic) eqn:Hmas; [|reflexivity]. exfalso. apply HA. right; right; left.
      pose proof (b_hosts_res _ _ _ _ _ _ _ _ Hh) as Hres.
      pose proof (res_shape c Hcm o _ _ Hres) as [(k1 & Hst) [Emas Hmins]]. rewrite Hmas in Emas. rewrite <- Emas in Hmins.
      destruct (b_hosts_holder _ _ _ _ _ _ _ _ Hh) as (mm & Hcl & _).
      destruct (claim_of_ing _ _ _ _ _ _ _ Hcl (ic_ing ic) eq_refl) as (k2 & i2 & Hin2 & Hk2 & Hh2).
      assert (i2 = ic_ing ic).
      { apply (same_stored (fun i => mkey (i_meta i)) (o_ings o) k2 k1 _ _ W1 K1 Hin2 Hst).
        unfold ing_rkey, rkey in Hk2. cbn [kind_prefix res_meta] in Hk2. apply append_inj_l in Hk2. exact Hk2. }
      subst i2. destruct Hwf as (Wm & _). destruct (Wm _ _ Hst (eq_sym Emas)) as (h0 & Eh). rewrite Eh in Hh2. destruct Hh2 as [Hh2|[]].
      assert (Ehost : host0 (ic_ing ic) = host0 i) by (unfold host0 at 1; rewrite Eh; cbn; exact Hh2).
      assert (Hin : In i (minions_of (o_ings o) (host0 (ic_ing ic)))) by (apply minions_of_exact; exists k0; auto).
      rewrite <- build_minions_list in Hin. apply in_map_iff in Hin. destruct Hin as (m & Em & Hmin).
      exists (host0 i), ic, m. split; [exact Hh|]. split; [rewrite Hmins; exact Hmin|]. rewrite Em. reflexivity. }
    eapply (hprob_present c o). right; left. unfold problems_orphan_minions. apply in_filter_map. exists (k0, i).
    split; [exact Hi|]. cbn [snd]. rewrite Hm. fold H. 
    destruct (lookup (host0 i) H) as [[ic|vc|tc]|]; try reflexivity. rewrite Hbad. reflexivity.
  Qed.

  Theorem vsr_unattached_problem k0 r : In (k0, r) (o_vsrs o) -> ~ ApO c o (vsr_pkey r) ->
    lookup (vsr_pkey r) (hprobs_of_objs c o) <> None.
  Proof.
    intros Hrr HA. destruct Hok as (W1 & W2 & W3 & W4 & K1 & K2 & K3 & K4).
    assert (G : exists p, In (vsr_pkey r, p) (problems_vsrs H (o_vsrs o))).
    { unfold problems_vsrs.
      destruct (lookup (r_host r) H) as [[ic|vc|tc]|] eqn:Hh.
      - eexists. apply in_filter_map. exists (k0, r). split; [exact Hrr|]. cbn [snd]. rewrite Hh. reflexivity.
      - destruct (existsb (fun x => String.eqb (m_ns (r_meta x)) (m_ns (r_meta r)) && String.eqb (m_name (r_meta x)) (m_name (r_meta r))) (vc_vsrs vc)) eqn:Hex.
        + exfalso. apply HA. right; right; right. apply existsb_exists in Hex. destruct Hex as (x & Hx & Hb).
          apply andb_true_iff in Hb. destruct Hb as [E1 E2]. apply String.eqb_eq in E1, E2.
          destruct (attached_vsr_facts c o Hcm Hok Hwf _ vc x Hh Hx) as ((k1 & Hst) & _ & _).
          assert (x = r).
          { apply (same_stored (fun r => mkey (r_meta r)) (o_vsrs o) k1 k0 _ _ W3 K3 Hst Hrr). unfold mkey. rewrite E1, E2. reflexivity. }
          subst x. exists (r_host r), vc, r. auto.
        + eexists. apply in_filter_map. exists (k0, r). split; [exact Hrr|]. cbn [snd]. rewrite Hh, Hex. reflexivity.
      - eexists. apply in_filter_map. exists (k0, r). split; [exact Hrr|]. cbn [snd]. rewrite Hh. reflexivity.
      - eexists. apply in_filter_map. exists (k0, r). split; [exact Hrr|]. cbn [snd]. rewrite Hh. reflexivity. }
    destruct G as (p & G). apply (hprob_present c o _ p). right; right. exact G.
  Qed.
End Static.
