(* C05 truth proof, part 9: a standing problem means "not applied", and a stored object that is not applied has a
   standing problem *)
From Coq Require Import List ZArith String Ascii Bool Lia.
From NIC Require Import Base.SMap Arb.Types Arb.Model Arb.Spec Arb.WinsProofs Arb.InvProofs Arb.OwnerProofs
     Arb.ListenerProofs Arb.ClassProofs Arb.ChangeProofs Arb.ReportProofs Arb.ComposeProofs Arb.Cases Arb.ShadowProofs Arb.ShadowAttrs.
From NIC Require Import Arb.Truth01 Arb.Truth02 Arb.Truth03 Arb.Truth04 Arb.Truth05 Arb.Truth06 Arb.Truth07 Arb.Truth08.
Import ListNotations.
Open Scope string_scope.
Open Scope Z_scope.

Definition ApO (c : cfg) (o : objs) (k : string) : Prop :=
  key_in (hosts_of_objs c o) k \/ key_in (smap_map RTS (lhosts_of_objs o)) k \/
  (exists h ic m, lookup h (hosts_of_objs c o) = Some (RIng ic) /\ In m (ic_minions ic) /\ k = "Ingress/" ++ key_of_ing (mc_ing m)) \/
  (exists h vc x, lookup h (hosts_of_objs c o) = Some (RVS vc) /\ In x (vc_vsrs vc) /\ k = vsr_pkey x).

Lemma GR_in_hosts c s K r : fn_inv c s -> objs_ok (objs_of_state s) -> roles_ok (objs_of_state s) ->
  lookup K (get_resources s) = Some r ->
  match r with RTS _ => True | _ => exists h, lookup h (hosts_of_objs c (objs_of_state s)) = Some r end.
Proof.
  intros Hf Hok Hr L. destruct (get_resources_key_val c s K r Hf Hok Hr L) as [(h & Hh & _)|(h & Hh & _)].
  - destruct r; eauto.
  - rewrite lookup_smap_map in Hh. destruct (lookup h (lhosts_of_objs (objs_of_state s))); [|discriminate]. cbn in Hh. inversion Hh. exact I.
Qed.

Lemma Ap_ApO c s k : fn_inv c s -> objs_ok (objs_of_state s) -> roles_ok (objs_of_state s) ->
  (Ap s k <-> ApO c (objs_of_state s) k).
Proof.
  intros Hf Hok Hr. unfold Ap, ApO. split.
  - intros [H|[(M & ic & m & L & Hm & ->)|(V & vc & x & L & Hx & ->)]].
    + apply in_keys_lookup in H. apply (keys_get_resources c s k Hf) in H. destruct H as [H|H]; auto.
    + right; right; left. destruct (GR_in_hosts c s M _ Hf Hok Hr L) as (h & Hh). exists h, ic, m. auto.
    + right; right; right. destruct (GR_in_hosts c s V _ Hf Hok Hr L) as (h & Hh). exists h, vc, x. auto.
  - intros [H|[H|[(h & ic & m & Hh & Hm & ->)|(h & vc & x & Hh & Hx & ->)]]].
    + left. apply in_keys_lookup. apply (keys_get_resources c s k Hf). left. exact H.
    + left. apply in_keys_lookup. apply (keys_get_resources c s k Hf). right. exact H.
    + right; left. exists (rkey (RIng ic)), ic, m. split; [|auto].
      apply (key_val_get_resources c s _ _ Hf Hok Hr). left. exists h. auto.
    + right; right. exists (rkey (RVS vc)), vc, x. split; [|auto].
      apply (key_val_get_resources c s _ _ Hf Hok Hr). left. exists h. auto.
Qed.

Lemma any_true_lookup (m : smap bool) h : lookup h m = Some true -> any_true m = true.
Proof. intros H. apply lookup_In in H. unfold any_true. apply existsb_exists. exists (h, true). auto. Qed.

Lemma any_true_in (m : smap bool) : any_true m = true -> exists h, In (h, true) m.
Proof. unfold any_true. intros H. apply existsb_exists in H. destruct H as ([h b] & Hin & Hb). cbn in Hb. subst b. eauto. Qed.

Ltac prefix_clash H := exfalso; unfold rkey, vsr_pkey, ing_rkey, vs_rkey, ts_rkey in H; cbn in H; discriminate H.

Section Static.
  Variables (c : cfg) (o : objs).
  Hypothesis Hcm : cert_manager c = false.
  Hypothesis Hok : objs_ok o.
  Hypothesis Hr : roles_ok o.
  Hypothesis Hwf : objs_wf c o.
  Let B := build c (o_ings o) (o_vss o) (o_vsrs o) (o_tss o) (o_gc o).
  Let H := hosts_of_objs c o.
  Let hs := holders (all_claims c (o_ings o) (o_vss o) (o_tss o)).

  Lemma H_lookup h : lookup h H = match lookup h hs with Some y => lookup (fst y) (b_res B) | None => None end.
  Proof. apply b_hosts_lookup. Qed.

  (* a resource is active iff it holds some host *)
  Lemma key_in_holder k : key_in H k <-> exists h m, lookup h hs = Some (k, m) /\ lookup k (b_res B) <> None.
  Proof.
    split.
    - intros (h & r & Hh & Hk). rewrite H_lookup in Hh. destruct (lookup h hs) as [[k1 m]|] eqn:E; [|discriminate]. cbn [fst] in Hh.
      pose proof (b_res_key _ _ _ _ _ _ _ _ Hh) as Hk1. rewrite Hk in Hk1. subst k1. exists h, m. split; [exact E|congruence].
    - intros (h & m & Hh & Hn). destruct (lookup k (b_res B)) as [r|] eqn:E; [|congruence].
      exists h, r. split; [rewrite H_lookup, Hh; exact E|]. exact (b_res_key _ _ _ _ _ _ _ _ E).
  Qed.

  Lemma attached_minion_facts h ic m : lookup h H = Some (RIng ic) -> In m (ic_minions ic) ->
    (exists k0, In (k0, mc_ing m) (o_ings o)) /\ is_minion (mc_ing m) = true /\
    is_master (ic_ing ic) = true /\ host0 (mc_ing m) = host0 (ic_ing ic) /\ h = host0 (ic_ing ic) /\ ic_master ic = true.
  Proof.
    intros Hh Hm. pose proof (b_hosts_res _ _ _ _ _ _ _ _ Hh) as Hres.
    pose proof (res_shape c Hcm o _ _ Hres) as [(k1 & Hst) [Hmas Hmins]].
    destruct (is_master (ic_ing ic)) eqn:Em; [|rewrite Hmins in Hm; destruct Hm].
    rewrite Hmins in Hm.
    assert (Hin : In (mc_ing m) (minions_of (o_ings o) (host0 (ic_ing ic)))) by (rewrite <- build_minions_list; apply in_map; exact Hm).
    apply minions_of_exact in Hin. destruct Hin as (k0 & Hk0 & Hmin & Hhost).
    split; [eauto|]. split; [exact Hmin|]. split; [reflexivity|]. split; [exact Hhost|]. split; [|rewrite Hmas; reflexivity].
    destruct (b_hosts_holder _ _ _ _ _ _ _ _ Hh) as (mm & Hcl & _).
    destruct (claim_of_ing _ _ _ _ _ _ _ Hcl (ic_ing ic) eq_refl) as (k2 & i2 & Hin2 & Hk2 & Hh2).
    destruct Hok as (W1 & W2 & W3 & W4 & K1 & K2 & K3 & K4).
    assert (i2 = ic_ing ic).
    { apply (same_stored (fun i => mkey (i_meta i)) (o_ings o) k2 k1 _ _ W1 K1 Hin2 Hst).
      unfold ing_rkey, rkey in Hk2. cbn [kind_prefix res_meta] in Hk2. apply append_inj_l in Hk2. exact Hk2. }
    subst i2. destruct Hwf as (Wm & _). destruct (Wm _ _ Hst Em) as (h0 & Eh). rewrite Eh in Hh2. destruct Hh2 as [<-|[]].
    unfold host0. rewrite Eh. reflexivity.
  Qed.

  Lemma attached_vsr_facts h vc x : lookup h H = Some (RVS vc) -> In x (vc_vsrs vc) ->
    (exists k0, In (k0, x) (o_vsrs o)) /\ h = v_host (vc_vs vc) /\ r_host x = v_host (vc_vs vc).
  Proof.
    intros Hh Hx. pose proof (b_hosts_res _ _ _ _ _ _ _ _ Hh) as Hres.
    pose proof (res_shape c Hcm o _ _ Hres) as [(k1 & Hst) Hvs]. rewrite Hvs in Hx.
    split; [exact (vsrs_stored _ _ _ Hx)|].
    destruct (b_hosts_holder _ _ _ _ _ _ _ _ Hh) as (mm & Hcl & _).
    destruct (claim_of_vs _ _ _ _ _ _ _ Hcl (vc_vs vc) eq_refl) as (k2 & v2 & Hin2 & Hk2 & Hh2).
    destruct Hok as (W1 & W2 & W3 & W4 & K1 & K2 & K3 & K4).
    assert (v2 = vc_vs vc).
    { apply (same_stored (fun v => mkey (v_meta v)) (o_vss o) k2 k1 _ _ W2 K2 Hin2 Hst).
      unfold vs_rkey, rkey in Hk2. cbn [kind_prefix res_meta] in Hk2. apply append_inj_l in Hk2. exact Hk2. }
    subst v2. split; [exact Hh2|].
    apply vsrs_exact in Hx. destruct Hx as (p & q & _ & _ & _ & Hv). unfold vsr_ok_for in Hv.
    apply andb_true_iff in Hv. destruct Hv as [Hv _]. apply orb_true_iff in Hv. destruct Hv as [Hv|Hv].
    - apply String.eqb_eq in Hv. destruct Hwf as (_ & _ & Wv & _). exfalso. exact (Wv _ _ Hst Hv).
    - apply String.eqb_eq in Hv. exact Hv.
  Qed.
End Static.
