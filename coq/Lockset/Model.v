(* C18 -- lock discipline of goroutines that share state (mutex and RW-lock).
   Executable definitions only; the proofs are in Lockset/Proofs.v.

   A goroutine is a list of events.  An execution is any interleaving of the goroutines of a
   program that respects the semantics of sync.Mutex / sync.RWMutex, given as a small-step
   relation over the multiset of lock holders.  A data race on location x is a reachable state
   in which two different goroutines are both about to access x, at least one of them writing
   (accesses are always enabled, so the two can be made adjacent in either order: this is the
   usual operational definition of two conflicting accesses not ordered by happens-before).

   Modelling restrictions, stated here because the theorems inherit them:
   - a goroutine releases only what it holds itself (Go allows handing a locked mutex to another
     goroutine; the translator reports every Unlock it cannot pair with a Lock of the same
     function as Unknown, which fails the obligation);
   - locks are the only synchronisation: channel operations, goroutine creation and WaitGroups
     order nothing here, so the model admits MORE interleavings than Go does (sound for absence
     of races, possibly imprecise);
   - a location is a whole struct field; a map stored in a field is that field (an insertion
     into the map is a write of the field). *)
From Coq Require Import List String Bool Arith.
Import ListNotations.
Open Scope string_scope.

Definition lock := string.
Definition loc := string.

Inductive mode := Sh | Ex.

Inductive ev :=
| Acq (l : lock)      (* Mutex.Lock / RWMutex.Lock *)
| Rel (l : lock)      (* Mutex.Unlock / RWMutex.Unlock *)
| AcqR (l : lock)     (* RWMutex.RLock *)
| RelR (l : lock)     (* RWMutex.RUnlock *)
| Rd (x : loc)
| Wr (x : loc).

Definition thread := list ev.
Definition prog := list thread.

Definition mode_eqb (a b : mode) : bool :=
  match a, b with Sh, Sh => true | Ex, Ex => true | _, _ => false end.

(* ---------- static view: what one goroutine holds, by scanning its own events ---------- *)

Definition hold := (lock * mode)%type.

Definition hold_eqb (a b : hold) : bool :=
  String.eqb (fst a) (fst b) && mode_eqb (snd a) (snd b).

Fixpoint remove1 {A} (eqb : A -> A -> bool) (x : A) (l : list A) : list A :=
  match l with
  | [] => []
  | y :: l' => if eqb x y then l' else y :: remove1 eqb x l'
  end.

Definition upd (h : list hold) (e : ev) : list hold :=
  match e with
  | Acq l => (l, Ex) :: h
  | Rel l => remove1 hold_eqb (l, Ex) h
  | AcqR l => (l, Sh) :: h
  | RelR l => remove1 hold_eqb (l, Sh) h
  | Rd _ | Wr _ => h
  end.

Definition scan (pre : list ev) : list hold := fold_left upd pre [].

Record access := mkAccess { a_loc : loc; a_write : bool; a_held : list hold }.

Fixpoint accesses_from (h : list hold) (t : thread) : list access :=
  match t with
  | [] => []
  | e :: t' =>
      match e with
      | Rd x => [mkAccess x false h]
      | Wr x => [mkAccess x true h]
      | _ => []
      end ++ accesses_from (upd h e) t'
  end.

(* every access of a goroutine together with the locks the static scan says it holds there *)
Definition accesses (t : thread) : list access := accesses_from [] t.

(* holding exclusively counts as holding shared *)
Definition holds_at_least (h : list hold) (l : lock) (m : mode) : bool :=
  existsb (hold_eqb (l, Ex)) h || (mode_eqb m Sh && existsb (hold_eqb (l, Sh)) h).

(* two lock contexts exclude each other: some lock is held in both, exclusively in one *)
Definition common_lock (h1 h2 : list hold) : bool :=
  existsb (fun a => existsb (fun b =>
    String.eqb (fst a) (fst b) && (mode_eqb (snd a) Ex || mode_eqb (snd b) Ex)) h2) h1.

(* ---------- dynamic view: small-step semantics over the multiset of lock holders ---------- *)

Definition holder := (nat * lock * mode)%type.       (* goroutine index, lock, mode *)
Definition h_tid (h : holder) : nat := fst (fst h).
Definition h_lock (h : holder) : lock := snd (fst h).
Definition h_mode (h : holder) : mode := snd h.

Definition holder_eqb (a b : holder) : bool :=
  Nat.eqb (h_tid a) (h_tid b) && String.eqb (h_lock a) (h_lock b) && mode_eqb (h_mode a) (h_mode b).

Record state := mkState { rem : list thread; holders : list holder }.

Definition init (p : prog) : state := mkState p [].

Definition lock_free (l : lock) (hs : list holder) : bool :=
  forallb (fun h => negb (String.eqb (h_lock h) l)) hs.

Definition no_writer (l : lock) (hs : list holder) : bool :=
  forallb (fun h => negb (String.eqb (h_lock h) l && mode_eqb (h_mode h) Ex)) hs.

Definition enabled (hs : list holder) (i : nat) (e : ev) : bool :=
  match e with
  | Acq l => lock_free l hs                   (* nobody holds l in any mode (not re-entrant) *)
  | AcqR l => no_writer l hs                  (* nobody holds l exclusively *)
  | Rel l => existsb (holder_eqb (i, l, Ex)) hs
  | RelR l => existsb (holder_eqb (i, l, Sh)) hs
  | Rd _ | Wr _ => true
  end.

Definition apply_ev (hs : list holder) (i : nat) (e : ev) : list holder :=
  match e with
  | Acq l => (i, l, Ex) :: hs
  | AcqR l => (i, l, Sh) :: hs
  | Rel l => remove1 holder_eqb (i, l, Ex) hs
  | RelR l => remove1 holder_eqb (i, l, Sh) hs
  | Rd _ | Wr _ => hs
  end.

Fixpoint set_nth {A} (i : nat) (x : A) (l : list A) : list A :=
  match l, i with
  | [], _ => []
  | _ :: l', O => x :: l'
  | y :: l', S i' => y :: set_nth i' x l'
  end.

(* goroutine i performs its next event e *)
Inductive step : state -> nat -> ev -> state -> Prop :=
| Step s i e t :
    nth_error (rem s) i = Some (e :: t) ->
    enabled (holders s) i e = true ->
    step s i e (mkState (set_nth i t (rem s)) (apply_ev (holders s) i e)).

Inductive reachable (p : prog) : state -> Prop :=
| R_init : reachable p (init p)
| R_step s i e s' : reachable p s -> step s i e s' -> reachable p s'.

Definition ev_loc (e : ev) : option loc :=
  match e with Rd x | Wr x => Some x | _ => None end.
Definition ev_write (e : ev) : bool :=
  match e with Wr _ => true | _ => false end.

Definition conflicting (x : loc) (e1 e2 : ev) : Prop :=
  ev_loc e1 = Some x /\ ev_loc e2 = Some x /\ (ev_write e1 || ev_write e2) = true.

(* goroutines i <> j are both about to access x, one of them writing *)
Definition race_between (s : state) (x : loc) (i j : nat) : Prop :=
  i <> j /\ exists e1 t1 e2 t2,
    nth_error (rem s) i = Some (e1 :: t1) /\ nth_error (rem s) j = Some (e2 :: t2) /\
    conflicting x e1 e2.

Definition race (p : prog) (x : loc) : Prop :=
  exists s i j, reachable p s /\ race_between s x i j.

(* executable runner (for the examples): a schedule is the list of goroutine indices that move *)
Definition exec_step (s : state) (i : nat) : option state :=
  match nth_error (rem s) i with
  | Some (e :: t) =>
      if enabled (holders s) i e
      then Some (mkState (set_nth i t (rem s)) (apply_ev (holders s) i e))
      else None
  | _ => None
  end.

Fixpoint exec (s : state) (sched : list nat) : option state :=
  match sched with
  | [] => Some s
  | i :: sched' => match exec_step s i with Some s' => exec s' sched' | None => None end
  end.

Definition head_conflict (x : loc) (t1 t2 : thread) : bool :=
  match t1, t2 with
  | e1 :: _, e2 :: _ =>
      match ev_loc e1, ev_loc e2 with
      | Some a, Some b => String.eqb a x && String.eqb b x && (ev_write e1 || ev_write e2)
      | _, _ => false
      end
  | _, _ => false
  end.

Definition race_between_b (s : state) (x : loc) (i j : nat) : bool :=
  negb (Nat.eqb i j) &&
  match nth_error (rem s) i, nth_error (rem s) j with
  | Some t1, Some t2 => head_conflict x t1 t2
  | _, _ => false
  end.

(* ---------- the access table the translator extracts from the Go source ---------- *)

(* One row: in the goroutine(s) started at [r_entry], field [r_field] is read / written at a
   point where the locks [r_held] are held.  [r_multi]: the entry may run in several goroutines
   at once (HTTP handlers, informer callbacks of several informers).  Conditions: [r_cond] is a
   start-up condition under which the entry exists at all ("" = always); a held lock carries the
   start-up condition under which it is taken ("" = always), for the idiom
   `if cond { mu.Lock(); defer mu.Unlock() }`. *)
Record row := mkRow {
  r_entry : string; r_multi : bool; r_cond : string;
  r_field : loc; r_write : bool;
  r_held : list (lock * mode * string) }.

Definition access_table := list row.

(* a row once the start-up conditions have been fixed *)
Record arow := mkARow {
  ar_entry : string; ar_multi : bool; ar_field : loc; ar_write : bool; ar_held : list hold }.

Definition mem (s : string) (l : list string) : bool := existsb (String.eqb s) l.
Definition active (on : list string) (c : string) : bool := String.eqb c "" || mem c on.

Definition inst_row (on : list string) (r : row) : arow :=
  mkARow (r_entry r) (r_multi r) (r_field r) (r_write r)
         (map fst (filter (fun h => active on (snd h)) (r_held r))).

Definition inst (on : list string) (t : access_table) : list arow :=
  map (inst_row on) (filter (fun r => active on (r_cond r)) t).

Definition may_parallel (a b : arow) : bool :=
  negb (String.eqb (ar_entry a) (ar_entry b)) || ar_multi a.

(* written with explicit [if]s: vm_compute evaluates the arguments of && eagerly, and the
   string comparison is the expensive part *)
Definition rows_conflict (a b : arow) : bool :=
  if ar_write a || ar_write b
  then if String.eqb (ar_field a) (ar_field b) then may_parallel a b else false
  else false.

(* a known finding names a conflict edge: two entry points (in either order) and a field *)
Definition known_edge := (string * string * string)%type.

Definition edge_known (known : list known_edge) (a b : arow) : bool :=
  existsb (fun k => let e1 := fst (fst k) in let e2 := snd (fst k) in
    String.eqb (snd k) (ar_field a) &&
    ((String.eqb e1 (ar_entry a) && String.eqb e2 (ar_entry b)) ||
     (String.eqb e1 (ar_entry b) && String.eqb e2 (ar_entry a)))) known.

Definition pair_ok (known : list known_edge) (a b : arow) : bool :=
  if rows_conflict a b
  then if common_lock (ar_held a) (ar_held b) then true else edge_known known a b
  else true.

Definition row_protected_except (known : list known_edge) (t : list arow) (a : arow) : bool :=
  forallb (pair_ok known a) t.

(* every row is protected against every row it conflicts with, except along the conflict
   edges (entry, entry, field) listed as known findings *)
Definition protected_except (known : list known_edge) (t : list arow) : bool :=
  forallb (row_protected_except known t) t.

Definition protected_tbl (t : list arow) : bool := protected_except [] t.

(* all start-up modes: every sublist of the (distinct, non-empty) conditions in the table *)
Fixpoint dedup (l : list string) : list string :=
  match l with
  | [] => []
  | s :: l' => let d := dedup l' in if mem s d then d else s :: d
  end.

Definition conds (t : access_table) : list string :=
  filter (fun c => negb (String.eqb c ""))
         (dedup (flat_map (fun r => r_cond r :: map snd (r_held r)) t)).

Fixpoint sublists {A} (l : list A) : list (list A) :=
  match l with
  | [] => [[]]
  | x :: l' => map (cons x) (sublists l') ++ sublists l'
  end.

Definition modes (t : access_table) : list (list string) := sublists (conds t).

Definition protected_except_all (known : list known_edge) (t : access_table) : bool :=
  forallb (fun on => protected_except known (inst on t)) (modes t).

(* the obligation evaluated on gen/Accesses.v *)
Definition protected (t : access_table) : bool := protected_except_all [] t.

(* conflict edges for the report: index pairs (i <= j, positions in the table) of rows that
   conflict without a common lock in some start-up mode (a pair may be listed once per mode) *)
Definition inst_all (on : list string) (t : access_table) : list (bool * arow) :=
  map (fun r => (active on (r_cond r), inst_row on r)) t.

Definition bad_pair (a b : bool * arow) : bool :=
  if fst a then if fst b then
    if (if rows_conflict (snd a) (snd b) then true else rows_conflict (snd b) (snd a))
    then negb (common_lock (ar_held (snd a)) (ar_held (snd b))) else false
  else false else false.

Fixpoint bad_from (a : bool * arow) (i : nat) (l : list (bool * arow)) (j : nat) : list (nat * nat) :=
  match l with
  | [] => []
  | b :: l' => if bad_pair a b then (i, j) :: bad_from a i l' (S j) else bad_from a i l' (S j)
  end.

Fixpoint bad_pairs_aux (l : list (bool * arow)) (i : nat) : list (nat * nat) :=
  match l with
  | [] => []
  | a :: l' => bad_from a i l i ++ bad_pairs_aux l' (S i)
  end.

Definition bad_pairs (t : access_table) : list (nat * nat) :=
  flat_map (fun on => bad_pairs_aux (inst_all on t) 0) (modes t).

(* ---------- what it means for a program to be summarised by a table ---------- *)

(* access a of a goroutine started at entry [ent] is accounted for by a row that claims no more
   locks than the goroutine statically holds there *)
Definition covers (T : list arow) (ent : string) (a : access) : Prop :=
  exists r, In r T /\ ar_entry r = ent /\ ar_field r = a_loc a /\ ar_write r = a_write a /\
            forall l m, In (l, m) (ar_held r) -> holds_at_least (a_held a) l m = true.

(* goroutine i of p was started at entry [nth i ents]; all its accesses are covered; an entry
   that starts more than one goroutine is marked multi *)
Definition conforms (T : list arow) (p : prog) (ents : list string) : Prop :=
  (forall i t, nth_error p i = Some t ->
     exists ent, nth_error ents i = Some ent /\ forall a, In a (accesses t) -> covers T ent a) /\
  (forall i j ent, i <> j -> nth_error ents i = Some ent -> nth_error ents j = Some ent ->
     forall r, In r T -> ar_entry r = ent -> ar_multi r = true).

(* pairwise lock discipline on location x: any two accesses of different goroutines, one of
   them a write, are made under a common lock held exclusively by at least one of them *)
Definition disciplined (p : prog) (x : loc) : Prop :=
  forall i j ti tj a1 a2, i <> j ->
    nth_error p i = Some ti -> nth_error p j = Some tj ->
    In a1 (accesses ti) -> In a2 (accesses tj) ->
    a_loc a1 = x -> a_loc a2 = x -> (a_write a1 || a_write a2) = true ->
    common_lock (a_held a1) (a_held a2) = true.
