(* Tmpl/C06Cases.v -- the decidable specification S of C06 evaluated on the implementation's own
   output, called from the generated cases files of vlib/c06.py.  NO PROOFS in this file.

   One case = one user-controlled string leaf of an accepted resource holding an adversarial
   value: [files] pairs, per generated file, the REAL bytes handed to the nginx.Manager with the
   adversarial value in that leaf and the REAL bytes generated from the same resource with
   harmless text of the same shape in that leaf.

     spec_ok_file real harmless    the two byte strings drive the NGINX tokenizer (Lex.Lexer.run from
                                   QBetween) through the same STRUCTURAL events (Semi Open Close Err,
                                   LexAux.structural: argument counts are deliberately not part of it)
                                   and leave it in the same state
     same_events real harmless     the complete event lists agree (also the argument counts)
     inj_case id go vsN vsO        row [id; agree; spec; nontrivial; tag]
                                     tag   = 0 all event lists equal / 1 only argument counts differ /
                                             2 the structure differs (an injection)
                                     spec  = (tag <> 2)
                                     agree = the verdict of the Go transcription of the lexer used by
                                             the harness to prioritise cases ([go]) equals tag
                                     nontrivial = some file differs between the two renderings
     splice base plen slen mid     transport encoding: the first plen bytes of base, then mid, then
                                   the last slen bytes of base (the harness sends renderings as a
                                   difference against the rendering of the unmodified fixture) *)
From Coq Require Import List String Ascii Bool ZArith Arith.
From NIC Require Import Lex.Lexer Tmpl.LexAux.
Import ListNotations.
Open Scope Z_scope.

Fixpoint str_eqb (a b : string) : bool :=
  match a, b with
  | EmptyString, EmptyString => true
  | String x a', String y b' => Ascii.eqb x y && str_eqb a' b'
  | _, _ => false
  end.

Fixpoint skipn_s (n : nat) (s : string) : string :=
  match n, s with
  | O, _ => s
  | S n', String _ r => skipn_s n' r
  | S _, EmptyString => EmptyString
  end.

Fixpoint firstn_app (n : nat) (s : string) (rest : string) : string :=
  match n, s with
  | O, _ => rest
  | S n', String c r => String c (firstn_app n' r rest)
  | S _, EmptyString => rest
  end.

Definition splice (base : string) (plen slen : Z) (mid : string) : string :=
  let n := String.length base in
  firstn_app (Z.to_nat plen) base (mid ++ skipn_s (n - Z.to_nat slen) base).

Definition spec_ok_file (real harmless : string) : bool :=
  let (q1, e1) := run QBetween real in
  let (q0, e0) := run QBetween harmless in
  evs_eqb (structural e1) (structural e0) && lstate_eqb q1 q0.

Definition same_events (real harmless : string) : bool :=
  let (q1, e1) := run QBetween real in
  let (q0, e0) := run QBetween harmless in
  evs_eqb e1 e0 && lstate_eqb q1 q0.

(* verdict of one file pair: 0 / 1 / 2 as above (one lexer run per byte string) *)
Definition file_tag (real harmless : string) : Z :=
  let (q1, e1) := run QBetween real in
  let (q0, e0) := run QBetween harmless in
  if negb (lstate_eqb q1 q0) then 2
  else if evs_eqb e1 e0 then 0
  else if evs_eqb (structural e1) (structural e0) then 1
  else 2.

Definition files_tag (files : list (string * string)) : Z :=
  fold_left Z.max (map (fun p => file_tag (fst p) (snd p)) files) 0.

(* vs_neutral: the pairs (real, rendering with the neutralized value), None when the validator
   rejects the neutralized value; vs_original: the pairs (real, rendering of the unmodified
   fixture), None when the two renderings do not consist of the same files.  The verdict is the
   more favourable comparison: a genuine injection changes the structure against both. *)
Definition inj_case (id : Z) (go : Z) (vs_neutral vs_original : option (list (string * string))) : list Z :=
  let t o := match o with Some l => files_tag l | None => 2 end in
  let tag := match vs_neutral with
             | Some _ => let tn := t vs_neutral in
                         if Z.eqb tn 0 then 0 else Z.min tn (t vs_original)   (* lazily: most cases are 0 already *)
             | None => t vs_original
             end in
  let nontrivial := match vs_neutral, vs_original with
                    | Some l, _ | None, Some l => existsb (fun p => negb (str_eqb (fst p) (snd p))) l
                    | None, None => true
                    end in
  [id; (if Z.eqb go tag then 1 else 0); (if Z.eqb tag 2 then 0 else 1); (if nontrivial then 1 else 0); tag].
