(* C20 -- Derived Certificates / DNSEndpoints track their VirtualServer, spare foreign ones.
   Only statements, each closed by [exact], each followed by Print Assumptions.

   Vocabulary (Sync/Model.v, Sync/Proofs.v):
     event        one synchronization: the VirtualServer as it is now (edited or not, another one of the
                  namespace, the same name with a new uid), the order in which the lister hands out
                  the Certificates (any permutation, new for every call), and one fault oracle per
                  controller (conflict / already-exists / internal, consumed per write);
     run_cert cs h s / run_dns h s     the cluster after history h from cluster s;
     trace_cert / trace_dns            per event (cluster before, VirtualServer, actions issued);
     action_ok own pre uid a           a = create of a free name, or update/delete of an object
                                       whose controller reference carries uid;
     cs           which of duration / renewBefore / usages / issuerRef.group certNeedsUpdate compares
                  besides its seven fixed fields (probed on the real function on every run);
     good_for uid s   s is a sorted map keyed by object name in which every Certificate controlled by uid
                  is named after its spec.secretName.  Nothing is asked of objects with no owner or a
                  foreign owner.  True of the empty cluster and of any cluster in which uid controls
                  nothing or only what this controller created; preserved by every synchronization of
                  every VirtualServer.  (Without it: a controlled Certificate whose spec.secretName was
                  edited by hand is updated and then deleted by the same synchronization, because the
                  removal list is computed from the lister as it was before the update; reproduced on
                  the real code by the harness history witness-hand-edited-secretname.) *)
From Coq Require Import List ZArith String Bool Permutation.
From NIC Require Import Base.SMap Sync.Model Sync.Proofs.
Import ListNotations.
Open Scope string_scope.

(* The lister reflects the cluster.  In production the synchronization functions read the informer
   cache and write to the API server; sync_cert2 / sync_dns2 (cache, cluster) model exactly that, with the
   API server answering on the cluster's own content.  Every theorem below speaks about sync_cert /
   sync_dns / run_cert / run_dns, which are the two-store functions under the hypothesis made explicit
   here: at the start of every synchronization the cache equals the cluster (the watch has delivered
   every successful write and nothing else has touched the cache).  The harness establishes the
   hypothesis (real indexer-backed listers, watch delivery per successful write only), checks after every
   synchronization that no cache object was written in place, and evaluates the model with the cache it
   really observed whenever the code under test has broken the equation. *)
Theorem C20_lister_reflects_cluster :
  (forall cs ord v fs st, sync_cert2 cs ord v fs st st = sync_cert cs ord v fs st) /\
  (forall v fs st, sync_dns2 v fs st st = sync_dns v fs st) /\
  (forall cs h st, run_cert2 cs h (st, st) = (run_cert cs h st, run_cert cs h st)) /\
  (forall h st, run_dns2 h (st, st) = (run_dns h st, run_dns h st)).
Proof. exact lister_reflects_cluster. Qed.
Print Assumptions C20_lister_reflects_cluster.

(* Objects that are not controlled by the synchronizing VirtualServer are never updated or deleted:
   for every history, every initial cluster (any same-named objects with no owner or a foreign
   owner), every fault sequence and every lister order, (1) each action of each synchronization is a
   create of a free name or an update/delete of an object controlled by that VirtualServer at that
   moment, and (2) an object that no VirtualServer of the history controls is in the final cluster
   unchanged. *)
Theorem C20_foreign_untouched :
  forall cs (h : list event) (sc : smap cert) (sd : smap dnsep),
    wf sc -> keys_ok sc -> ords_ok h ->
    (trace_ok c_owner (trace_cert cs h sc) /\ trace_ok d_owner (trace_dns h sd)) /\
    (forall k o, lookup k sc = Some o ->
                 (forall e, In e h -> controlled_by (c_owner o) (v_uid (ev_vs e)) = false) ->
                 lookup k (run_cert cs h sc) = Some o) /\
    (forall k o, lookup k sd = Some o ->
                 (forall e, In e h -> controlled_by (d_owner o) (v_uid (ev_vs e)) = false) ->
                 lookup k (run_dns h sd) = Some o).
Proof. exact foreign_untouched. Qed.
Print Assumptions C20_foreign_untouched.

(* Certificates: in any cluster reachable by any history from a cluster that is good for the
   VirtualServer, a synchronization that
   returns no error (hence met no fault) is followed by a second one of the same VirtualServer that
   issues no write and leaves the cluster as it is -- whatever faults are armed for it. *)
Theorem C20_idempotent_cert :
  forall cs (h : list event) (s0 : smap cert) v,
    good_for (v_uid v) s0 ->
    forall ord ord' fs fs' st1 lg, perm_fun ord -> perm_fun ord' ->
      sync_cert cs ord v fs (run_cert cs h s0) = (st1, lg, ROk) ->
      sync_cert cs ord' v fs' st1 = (st1, [], ROk).
Proof. exact idempotent_cert. Qed.
Print Assumptions C20_idempotent_cert.

(* DNSEndpoints: the same, for every cluster at all, PROVIDED externalDNS.labels is not an empty
   non-nil map.  Full statement (without that proviso) is false: C20_idempotent_dns_refuted. *)
Theorem C20_idempotent_dns_partial :
  forall (h : list event) (s0 : smap dnsep) v fs fs' st1 lg,
    x_labels (v_xdns v) <> Some [] ->
    sync_dns v fs (run_dns h s0) = (st1, lg, ROk) -> sync_dns v fs' st1 = (st1, [], ROk).
Proof. exact idempotent_dns_partial. Qed.
Print Assumptions C20_idempotent_dns_partial.

Theorem C20_idempotent_dns_refuted :
  exists s1 l1, sync_dns wv_dns_empty_labels [] [] = (s1, l1, ROk) /\
                sync_dns wv_dns_empty_labels [] s1 = (s1, [(VUpdate, "vs-a")], ROk).
Proof. exact idempotent_dns_refuted. Qed.
Print Assumptions C20_idempotent_dns_refuted.

(* Freshness, DNSEndpoints, in full: after a successful synchronization of a VirtualServer with
   ExternalDNS enabled, if the name was free or the object there was controlled by it, the cluster
   holds exactly the object a first-time synchronization stores (wanted_dns: buildDNSEndpoint of the
   current VirtualServer and its external endpoints, after the API round trip). *)
Theorem C20_fresh_dns :
  forall (h : list event) (s0 : smap dnsep),
    good_d s0 ->
    forall v fs st1 lg,
      sync_dns v fs (run_dns h s0) = (st1, lg, ROk) -> x_enable (v_xdns v) = true ->
      match lookup (v_name v) (run_dns h s0) with
      | None => True | Some e => controlled_by (d_owner e) (v_uid v) = true end ->
      exists d, wanted_dns v = Some d /\ lookup (v_name v) st1 = Some d.
Proof. exact fresh_dns. Qed.
Print Assumptions C20_fresh_dns.

(* Freshness, Certificates.  Full statement: under the hypotheses below, if the name was free or
   controlled by the VirtualServer then  lookup (t_secret t) st1 = wanted_cert v.  It is false
   (C20_fresh_cert_refuted).  What holds: a free name receives exactly the first-time object; an
   object controlled by the VirtualServer ends up agreeing with the first-time object on name, owner,
   labels and every field certNeedsUpdate compares ([tracks cs]); its whole spec equals the
   first-time spec whenever certNeedsUpdate fired, and otherwise it was not written at all; the
   issue-temporary-certificate annotation is always the old one; an object not controlled by the
   VirtualServer stays what it was. *)
Theorem C20_fresh_cert_partial :
  forall cs (h : list event) (s0 : smap cert) v,
    good_for (v_uid v) s0 ->
    forall ord fs st1 lg t cm, perm_fun ord ->
      v_tls v = Some t -> t_cm t = Some cm ->
      sync_cert cs ord v fs (run_cert cs h s0) = (st1, lg, ROk) ->
      exists crt, wanted_cert v = Some crt /\
        match lookup (t_secret t) (run_cert cs h s0) with
        | None => lookup (t_secret t) st1 = Some crt
        | Some e =>
            if controlled_by (c_owner e) (v_uid v)
            then exists o, lookup (t_secret t) st1 = Some o /\ tracks cs o crt /\ c_owner o = c_owner crt /\
                           c_temp o = c_temp e /\
                           (cert_needs_update cs e crt = true -> c_spec o = c_spec crt) /\
                           (cert_needs_update cs e crt = false -> o = e)
            else lookup (t_secret t) st1 = Some e
        end.
Proof. exact fresh_cert_partial. Qed.
Print Assumptions C20_fresh_cert_partial.

(* with fixes/F22.diff applied (all four extra comparisons) [tracks] pins the whole spec except the
   fields the controller never sets *)
Theorem C20_fresh_cert_fixed_spec :
  forall o crt, tracks cs_fixed o crt -> c_is_ca (c_spec o) = c_is_ca (c_spec crt) -> c_spec o = c_spec crt.
Proof. exact tracks_fixed_spec. Qed.
Print Assumptions C20_fresh_cert_fixed_spec.

(* Witnesses: from the empty cluster, two fault-free successful synchronizations of one VirtualServer
   before and after editing only duration / renew-before / usages / issuer-group (code as it stands),
   or only issue-temp-cert (any variant of certNeedsUpdate): the Certificate is not the first-time one. *)
Theorem C20_fresh_cert_refuted :
  (stale_after cs_current wv_dur1 wv_dur2 /\ stale_after cs_current wv_renew1 wv_renew2 /\
   stale_after cs_current wv_usages1 wv_usages2 /\ stale_after cs_current wv_group1 wv_group2) /\
  (forall cs, stale_after cs wv_temp1 wv_temp2).
Proof. exact fresh_cert_refuted. Qed.
Print Assumptions C20_fresh_cert_refuted.

(* Garbage collection, Certificates.  Full statement: after a successful synchronization every
   Certificate controlled by the VirtualServer is one it still needs.  False when the cert-manager
   block is gone (C20_gc_cert_refuted).  What holds: while the block is present, every Certificate
   the VirtualServer controls afterwards is the one named after its current secret -- older ones
   (secret rename) are deleted. *)
Theorem C20_gc_cert_partial :
  forall cs (h : list event) (s0 : smap cert) v,
    good_for (v_uid v) s0 ->
    forall ord fs st1 lg, perm_fun ord -> cert_feature_on v = true ->
      sync_cert cs ord v fs (run_cert cs h s0) = (st1, lg, ROk) ->
      forall k o, lookup k st1 = Some o -> controlled_by (c_owner o) (v_uid v) = true ->
                  exists t, v_tls v = Some t /\ k = t_secret t.
Proof. exact gc_cert_partial. Qed.
Print Assumptions C20_gc_cert_partial.

Theorem C20_gc_cert_refuted :
  forall cs, left_behind_cert cs wv_temp1 wv_nocm /\ left_behind_cert cs wv_temp1 wv_notls.
Proof. exact gc_cert_refuted. Qed.
Print Assumptions C20_gc_cert_refuted.

(* Garbage collection, DNSEndpoints: there is none.  What holds: the controller never leaves an
   object it controls under another name than the VirtualServer's (so nothing but that one object can
   need removal); the object is not removed when ExternalDNS is switched off (C20_gc_dns_refuted). *)
Theorem C20_gc_dns_partial :
  forall v fs st st' lg r,
    named_for (v_uid v) (v_name v) st -> sync_dns v fs st = (st', lg, r) -> named_for (v_uid v) (v_name v) st'.
Proof. exact gc_dns_partial. Qed.
Print Assumptions C20_gc_dns_partial.

Theorem C20_gc_dns_refuted : left_behind_dns wv_dns_on wv_dns_off.
Proof. exact gc_dns_refuted. Qed.
Print Assumptions C20_gc_dns_refuted.

(* ---------------------------------------------------------------- non-vacuity *)

(* a cluster with an unowned s1, a foreign-owned s2 (whose secretName is not its name) and a stale
   owned s3; the VirtualServer names s1,
   then is renamed to s4, with a conflict injected into the first delete *)
Definition ex_spec (secret : string) : cert_spec := mkCertSpec "" ["old.example.com"] secret "old" "Issuer" "" None None ["server auth"] false.
Definition ex_store : smap cert :=
  [("s1", mkCert "s1" ONone [] None (ex_spec "s1")); ("s2", mkCert "s2" (OCtl "uid-x") [] None (ex_spec "tls-x"));
   ("s3", mkCert "s3" (OCtl "uid-a") [] None (ex_spec "s3"))].
Definition ex_vs (secret : string) : vs :=
  mkVs "vs-a" "uid-a" [("app", "x")] "a.example.com" (Some (mkTls secret (Some (w_cm "" (hours 2160) DNone "server auth" true))))
       (w_x true (Some [("owner", "team")])) (Some [mkExtep "10.0.0.1" "" IPv4; mkExtep "" "lb.example.com" IPBad]).
Definition ex_hist : list event :=
  [mkEvent (ex_vs "s1") idord [Some FConflict] []; mkEvent (ex_vs "s1") idord [] [Some FExists];
   mkEvent (ex_vs "s4") idord [] []; mkEvent (ex_vs "s4") idord [] []].

Ltac by_key L k :=
  cbn in L;
  repeat match type of L with
         | (if String.eqb k ?x then _ else _) = _ =>
             let E := fresh "E" in destruct (String.eqb k x) eqn:E;
             [apply String.eqb_eq in E; inversion L; subst; reflexivity|]
         end;
  try discriminate L.

Example C20_nonvacuous_good : good_for "uid-a" ex_store.
Proof.
  split; [|split].
  - repeat (constructor; [|intros k' Hin; cbn in Hin; repeat (destruct Hin as [<-|Hin]; [reflexivity|]); destruct Hin]). constructor.
  - intros k o L. by_key L k.
  - intros k o L C. cbn in L.
    destruct (String.eqb k "s1"); [inversion L; subst; reflexivity|].
    destruct (String.eqb k "s2"); [inversion L; subst; discriminate C|].
    destruct (String.eqb k "s3"); [inversion L; subst; reflexivity|discriminate L].
Qed.

Example C20_nonvacuous_ords : ords_ok ex_hist.
Proof. intros e Hin l. cbn in Hin. repeat (destruct Hin as [<-|Hin]; [apply Permutation_refl|]). destruct Hin. Qed.

(* the history: s1 unowned -> refused, s3 deleted only at the second attempt (conflict first), s4 created;
   the trace and the final cluster *)
Example C20_nonvacuous_trace :
  map (fun x => snd x) (trace_cert cs_current ex_hist ex_store) =
    [[(VDelete, "s3")]; [(VDelete, "s3")]; [(VCreate, "s4")]; []] /\
  map fst (run_cert cs_current ex_hist ex_store) = ["s1"; "s2"; "s4"] /\
  map (fun x => snd x) (trace_dns ex_hist []) = [[(VCreate, "vs-a")]; []; []; []].
Proof. vm_compute. repeat split. Qed.

(* the hypotheses of the idempotence / freshness / gc theorems are met with a non-empty action log:
   on ex_store the first synchronization succeeds, refuses the unowned s1 and deletes the stale s3;
   the DNSEndpoint controller creates vs-a, and the stored object is the wanted one *)
Example C20_nonvacuous_sync_ok :
  exists st1, sync_cert cs_current idord (ex_vs "s1") [] (run_cert cs_current [] ex_store) = (st1, [(VDelete, "s3")], ROk) /\
              cert_feature_on (ex_vs "s1") = true /\ perm_fun idord.
Proof. eexists. split; [vm_compute; reflexivity|]. split; [reflexivity|]. intros l. apply Permutation_refl. Qed.

Example C20_nonvacuous_dns_ok :
  exists st1 d, sync_dns (ex_vs "s1") [] (run_dns [] []) = (st1, [(VCreate, "vs-a")], ROk) /\
                wanted_dns (ex_vs "s1") = Some d /\ lookup "vs-a" st1 = Some d /\
                e_targets (hd (mkEndpoint "" [] "" 0 None []) (d_eps d)) = ["10.0.0.1"; "lb.example.com"].
Proof. do 2 eexists. repeat split; vm_compute; reflexivity. Qed.
