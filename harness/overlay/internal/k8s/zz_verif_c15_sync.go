//go:build verif

// Event-level hooks for the C15 harness: the REAL informer handler functions
// (create*Handlers(lbc).AddFunc/UpdateFunc/DeleteFunc), the real work queue, and the real
// lbc.sync(task) dispatch, driven synchronously.
package k8s

import (
	"fmt"

	api_v1 "k8s.io/api/core/v1"
	"k8s.io/client-go/tools/cache"
)

func (v *VerifC15) handlers(kind string) (cache.ResourceEventHandlerFuncs, bool) {
	lbc := v.Lbc
	switch kind {
	case "service":
		return createServiceHandlers(lbc), true
	case "endpoints":
		return createEndpointSliceHandlers(lbc), true
	case "secret":
		return createSecretHandlers(lbc), true
	case "policy":
		return createPolicyHandlers(lbc), true
	case "appolicy":
		return createAppProtectPolicyHandlers(lbc), true
	case "aplogconf":
		return createAppProtectLogConfHandlers(lbc), true
	case "dos":
		return createAppProtectDosProtectedResourceHandlers(lbc), true
	case "usersig":
		return createAppProtectUserSigHandlers(lbc), true
	case "dospolicy":
		return createAppProtectDosPolicyHandlers(lbc), true
	case "doslogconf":
		return createAppProtectDosLogConfHandlers(lbc), true
	case "ingress":
		return createIngressHandlers(lbc), true
	case "vs":
		return createVirtualServerHandlers(lbc), true
	case "vsr":
		return createVirtualServerRouteHandlers(lbc), true
	case "ts":
		return createTransportServerHandlers(lbc), true
	}
	return cache.ResourceEventHandlerFuncs{}, false
}

// Deliver hands an informer notification to the real handler of the kind; the caller has already
// updated the store, as the informer does.  It returns how many tasks the handler queued.
func (v *VerifC15) Deliver(kind, op string, old, cur interface{}) (int, error) {
	h, ok := v.handlers(kind)
	if !ok {
		return 0, fmt.Errorf("no handler for kind %s", kind)
	}
	before := v.Lbc.syncQueue.queue.Len()
	switch op {
	case "add":
		h.AddFunc(cur)
	case "update":
		h.UpdateFunc(old, cur)
	case "delete":
		h.DeleteFunc(old)
	default:
		return 0, fmt.Errorf("unknown op %s", op)
	}
	return v.Lbc.syncQueue.queue.Len() - before, nil
}

// Drain runs the real lbc.sync on every queued task, in queue order, until the queue is empty.
func (v *VerifC15) Drain() int {
	n := 0
	q := v.Lbc.syncQueue.queue
	for q.Len() > 0 && n < 500 {
		t, quit := q.Get()
		if quit {
			break
		}
		v.Lbc.sync(t.(task))
		q.Done(t)
		n++
	}
	return n
}

// Regenerate rebuilds the extended resource from the current stores and hands it to the configurator,
// which is what every sync function does for the resources it found.
func (v *VerifC15) Regenerate(key string) error {
	r := v.resource(key)
	if r == nil {
		return fmt.Errorf("resource %s is not served", key)
	}
	_, err := v.Lbc.configurator.AddOrUpdateResources(v.Lbc.createExtendedResources([]Resource{r}), true)
	return err
}

// VerifC15ServiceChangeIsRelevant is the verdict of the update filter of the Service handler
// (hasServiceChanges sorts the port slices it is given, so it gets copies).
func VerifC15ServiceChangeIsRelevant(old, cur *api_v1.Service) bool {
	return hasServiceChanges(old.DeepCopy(), cur.DeepCopy())
}
