//go:build verif

package validation

import (
	"regexp"

	"k8s.io/apimachinery/pkg/util/validation/field"
)

// VerifC06Regexps exposes the validator regular expressions of this package whose hand
// transcriptions in coq/Tmpl/Validators.v are compared with them on a corpus on every run.
func VerifC06Regexps() map[string]*regexp.Regexp {
	return map[string]*regexp.Regexp{
		"vs_path@validation.pathRegexp":                 pathRegexp,
		"escaped@validation.escapedStringsFmtRegexp":    escapedStringsFmtRegexp,
		"realm@validation.realmFmtRegexp":               realmFmtRegexp,
		"realm@validation.headerValueFmtRegexp":         headerValueFmtRegexp,
		"return_type@validation.actionReturnTypeRegexp": actionReturnTypeRegexp,
		"grpc_service@validation.grpcRegexp":            grpcRegexp,
		"ts_hash@validation.hashMethodRegexp":           hashMethodRegexp,
		"rate@validation.rateRegexp":                    rateRegexp,
	}
}

// VerifC06UpperMatchers exposes validators that are parsers rather than regular expressions; their
// models in coq/Tmpl/Validators.v are UPPER BOUNDS (every accepted string must match the model).
func VerifC06UpperMatchers() map[string]func(string) bool {
	return map[string]func(string) bool{
		"ip_or_cidr_upper@validation.validateIPorCIDR": func(s string) bool {
			return len(validateIPorCIDR(s, field.NewPath("x"))) == 0
		},
		"route_path_upper@validation.validateRoutePath": func(s string) bool {
			return len(validateRoutePath(s, field.NewPath("x"))) == 0
		},
	}
}
