//go:build verif

// Correspondence harness for C12: a recording nginx.Manager (content-based changed flags like
// LocalManager.configContentsChanged, failures injected at chosen call indices) under the real
// Configurator (family "cfg") and under the real LoadBalancerController.sync (family "ctl").
// Every case is written as one JSON line: the generated input and the projected observables.
package main

import (
	"bytes"
	"crypto/ecdsa"
	"crypto/elliptic"
	"crypto/rand"
	"crypto/x509"
	"crypto/x509/pkix"
	"encoding/pem"
	"errors"
	"fmt"
	"math/big"
	"os"
	"sort"
	"strings"
	"time"

	"github.com/nginx/kubernetes-ingress/internal/configs"
	"github.com/nginx/kubernetes-ingress/internal/k8s"
	"github.com/nginx/kubernetes-ingress/internal/k8s/secrets"
	"github.com/nginx/kubernetes-ingress/internal/nginx"
	"github.com/nginx/kubernetes-ingress/internal/verifh/vh"
	conf_v1 "github.com/nginx/kubernetes-ingress/pkg/apis/configuration/v1"
	api_v1 "k8s.io/api/core/v1"
	discovery_v1 "k8s.io/api/discovery/v1"
	networking "k8s.io/api/networking/v1"
	meta_v1 "k8s.io/apimachinery/pkg/apis/meta/v1"
	"k8s.io/apimachinery/pkg/util/intstr"
)

// ---------------------------------------------------------------- recording manager

// Ev is one call at the nginx.Manager boundary, projected.
type Ev struct {
	E      string `json:"e"` // w | d | r | a | en | dis
	K      string `json:"k,omitempty"`
	N      string `json:"n,omitempty"`
	C      bool   `json:"c,omitempty"`      // w: content changed; d: file existed
	Endp   bool   `json:"endp,omitempty"`   // r: isEndpointsUpdate
	Stream bool   `json:"stream,omitempty"` // a
	OK     bool   `json:"ok,omitempty"`     // r, a
	// a: the servers pushed through the API differ from the `server` lines of that upstream in the
	// configuration file on disk (the file the operation has just written)
	// w: the upstreams of the file whose `server` lines this write changed; and, set when the operation is over, those of
	// them that NGINX did not learn about before the operation returned although the operation used the API: no
	// successful push of the same servers for that upstream and no successful reload came after the write
	Ups      []string `json:"ups,omitempty"`
	Unpushed []string `json:"unpushed,omitempty"`
	Mis      bool     `json:"mis,omitempty"`
	Pushed   []string `json:"pushed,omitempty"`
	InFile   []string `json:"infile,omitempty"`
}

var errInjectedReload = errors.New("verif: injected reload failure")
var errInjectedAPI = errors.New("verif: injected API failure")

type recMgr struct {
	*nginx.FakeManager
	files        map[string][]byte
	log          []Ev
	nrel, napi   int
	rfail, afail map[int]bool
}

func newRecMgr(rfail, afail []int) *recMgr {
	m := &recMgr{FakeManager: nginx.NewFakeManager("/etc/nginx"), files: map[string][]byte{}, rfail: map[int]bool{}, afail: map[int]bool{}}
	for _, i := range rfail {
		m.rfail[i] = true
	}
	for _, i := range afail {
		m.afail[i] = true
	}
	return m
}

// upstreamServers parses `upstream <name> { ... server <addr> ...; }` blocks: name -> sorted non-backup addresses
func upstreamServers(content []byte) map[string]string {
	out := map[string]string{}
	lines := strings.Split(string(content), "\n")
	for i := 0; i < len(lines); i++ {
		f := strings.Fields(lines[i])
		if len(f) >= 3 && f[0] == "upstream" && f[2] == "{" {
			var srv []string
			for i++; i < len(lines); i++ {
				g := strings.Fields(lines[i])
				if len(g) > 0 && g[0] == "}" {
					break
				}
				if len(g) >= 2 && g[0] == "server" && !strings.Contains(lines[i], " backup") {
					srv = append(srv, strings.TrimSuffix(g[1], ";"))
				}
			}
			sort.Strings(srv)
			out[f[1]] = strings.Join(srv, " ")
		}
	}
	return out
}

func (m *recMgr) write(k, prefix, name string, content []byte) bool {
	key := prefix + name
	old, ok := m.files[key]
	changed := !ok || !bytes.Equal(old, content)
	e := Ev{E: "w", K: k, N: name, C: changed}
	if changed && (prefix == "c:" || prefix == "s:") {
		before, after := upstreamServers(old), upstreamServers(content)
		for u, srv := range after {
			if b, had := before[u]; !had || b != srv {
				e.Ups = append(e.Ups, u)
			}
		}
		sort.Strings(e.Ups)
	}
	m.files[key] = append([]byte(nil), content...)
	m.log = append(m.log, e)
	return changed
}

func (m *recMgr) del(k, prefix, name string) {
	key := prefix + name
	_, ok := m.files[key]
	delete(m.files, key)
	m.log = append(m.log, Ev{E: "d", K: k, N: name, C: ok})
}

func (m *recMgr) CreateMainConfig(content []byte) bool { return m.write("main", "m:", "", content) }
func (m *recMgr) CreateConfig(name string, content []byte) bool {
	return m.write("conf", "c:", name, content)
}
func (m *recMgr) DeleteConfig(name string) { m.del("conf", "c:", name) }
func (m *recMgr) CreateStreamConfig(name string, content []byte) bool {
	return m.write("stream", "s:", name, content)
}
func (m *recMgr) DeleteStreamConfig(name string) { m.del("stream", "s:", name) }
func (m *recMgr) CreateTLSPassthroughHostsConfig(content []byte) bool {
	return m.write("tls", "t:", "", content)
}

// referenced says whether some configuration file on disk names path literally (then NGINX reads the file
// when it loads its configuration; a file reached through $secret_dir_path is loaded per handshake).
func (m *recMgr) referenced(path string) bool {
	for k, content := range m.files {
		if strings.HasPrefix(k, "x:") {
			continue
		}
		c := string(content)
		for i := 0; ; {
			j := strings.Index(c[i:], path)
			if j < 0 {
				break
			}
			end := i + j + len(path)
			if end >= len(c) || !strings.ContainsRune("abcdefghijklmnopqrstuvwxyzABCDEFGHIJKLMNOPQRSTUVWXYZ0123456789._/-", rune(c[end])) {
				return true
			}
			i = end
		}
	}
	return false
}

// CreateSecret records the write of a secret file: kind "secret" when a configuration file on disk names it
// literally (a change NGINX sees only after a reload), "lazy" otherwise.
func (m *recMgr) CreateSecret(name string, content []byte, _ os.FileMode) string {
	path := m.FakeManager.GetFilenameForSecret(name)
	k := "lazy"
	if m.referenced(path) {
		k = "secret"
	}
	m.write(k, "x:", name, content)
	return path
}

func (m *recMgr) Reload(isEndpointsUpdate bool) error {
	i := m.nrel
	m.nrel++
	if m.rfail[i] {
		m.log = append(m.log, Ev{E: "r", Endp: isEndpointsUpdate, OK: false})
		return errInjectedReload
	}
	m.log = append(m.log, Ev{E: "r", Endp: isEndpointsUpdate, OK: true})
	return nil
}

// serversInFile returns the addresses of the non-backup `server` lines of `upstream <name> { ... }`
// in the configuration files on disk (conf.d for http, stream-conf.d for stream upstreams).
func (m *recMgr) serversInFile(stream bool, upstream string) ([]string, bool) {
	prefix := "c:"
	if stream {
		prefix = "s:"
	}
	var names []string
	for k := range m.files {
		if strings.HasPrefix(k, prefix) {
			names = append(names, k)
		}
	}
	sort.Strings(names)
	for _, k := range names {
		lines := strings.Split(string(m.files[k]), "\n")
		for i, ln := range lines {
			f := strings.Fields(ln)
			if len(f) >= 3 && f[0] == "upstream" && f[1] == upstream && f[2] == "{" {
				out := []string{}
				for _, l2 := range lines[i+1:] {
					g := strings.Fields(l2)
					if len(g) > 0 && g[0] == "}" {
						break
					}
					if len(g) >= 2 && g[0] == "server" {
						backup := false
						for _, w := range g[2:] {
							if strings.TrimSuffix(w, ";") == "backup" {
								backup = true
							}
						}
						if !backup {
							out = append(out, strings.TrimSuffix(g[1], ";"))
						}
					}
				}
				sort.Strings(out)
				return out, true
			}
		}
	}
	return nil, false
}

func (m *recMgr) api(stream bool, upstream string, servers []string) error {
	i := m.napi
	m.napi++
	e := Ev{E: "a", Stream: stream, N: upstream, OK: !m.afail[i]}
	pushed := append([]string{}, servers...)
	sort.Strings(pushed)
	inFile, found := m.serversInFile(stream, upstream)
	if !found || strings.Join(pushed, " ") != strings.Join(inFile, " ") {
		e.Mis, e.Pushed, e.InFile = true, pushed, inFile
		if !found {
			e.InFile = []string{"<no such upstream in any file>"}
		}
	}
	m.log = append(m.log, e)
	if m.afail[i] {
		return errInjectedAPI
	}
	return nil
}

func (m *recMgr) UpdateServersInPlus(upstream string, servers []string, _ nginx.ServerConfig) error {
	return m.api(false, upstream, servers)
}

func (m *recMgr) UpdateStreamServersInPlus(upstream string, servers []string) error {
	return m.api(true, upstream, servers)
}

func (m *recMgr) take() []Ev {
	l := m.log
	m.log = nil
	usedAPI := false
	for _, e := range l {
		if e.E == "a" {
			usedAPI = true
		}
	}
	for _, e := range l {
		if e.E == "r" && !e.OK {
			usedAPI = false // the fall-back reload failed: the operation returns that error, nothing is claimed to be applied
		}
	}
	for i := range l {
		if l[i].E != "w" || !usedAPI {
			continue
		}
		for _, u := range l[i].Ups {
			ok := false
			for _, e := range l[i+1:] {
				if (e.E == "r" && e.OK) || (e.E == "a" && e.N == u && e.OK && !e.Mis) {
					ok = true
				}
			}
			if !ok {
				l[i].Unpushed = append(l[i].Unpushed, u)
			}
		}
	}
	if l == nil {
		l = []Ev{}
	}
	return l
}

// ---------------------------------------------------------------- generated resources

// Res is a generated resource: its shape is fixed by its name (see pool), its content by (SV, EV).
// File, Ver, Apis and Weights are what the model is given; they are computed here by the
// harness's own formulas, never read back from the code under test.
type Res struct {
	Kind    string     `json:"kind"` // ing | merge | vs | ts
	Name    string     `json:"name"`
	SV      int        `json:"sv"` // spec variant
	EV      int        `json:"ev"` // endpoints variant
	File    string     `json:"file"`
	Ver     int        `json:"ver"`
	Apis    [][]string `json:"apis"`
	Weights int        `json:"weights"`
	// ts "p", "q": 0 = on its TCP listener, n > 0 = on the TLS passthrough listener with host h<n>-<name>.example.com
	Mode int  `json:"mode,omitempty"`
	Pt   *int `json:"pt"` // model: identity of the passthrough host (nil: not a passthrough TransportServer)
}

type shape struct {
	nup     int
	split   bool
	minions int
	hosts   int  // ing: number of hosts (rules), every host routes the same paths to the same Services (0 = 1)
	dupPath bool // ing / minion: a second path to the first Service
	xroute  bool // vs: delegates /x to a VirtualServerRoute in namespace "other" whose upstream uses a Service
	// with the same name as the VirtualServer's own first Service
}

var pool = map[string]map[string]shape{
	"ing":   {"a": {nup: 1}, "b": {nup: 2}, "c": {nup: 3}, "d": {nup: 1, hosts: 2, dupPath: true}, "e": {nup: 2, hosts: 3}},
	"merge": {"m": {minions: 1}, "n": {minions: 2}, "o": {minions: 1, dupPath: true}},
	"vs":    {"v": {nup: 1}, "w": {nup: 2, split: true}, "x": {nup: 2}, "y": {nup: 1, xroute: true}},
	"ts":    {"t": {nup: 1}, "u": {nup: 2}, "p": {nup: 1}, "q": {nup: 1}},
}

func poolNames(kind string) []string {
	var out []string
	for n := range pool[kind] {
		out = append(out, n)
	}
	sort.Strings(out)
	return out
}

const ns = "default"

func fileOf(kind, name string) string {
	switch kind {
	case "vs":
		return "vs_" + ns + "_" + name
	case "ts":
		return "ts_" + ns + "_" + name
	}
	return ns + "-" + name
}

func keyOf(name string) string { return ns + "/" + name }

// fill computes the model-side fields of a resource.
func fill(r *Res, plus, dynw bool) {
	sh := pool[r.Kind][r.Name]
	r.File = fileOf(r.Kind, r.Name)
	r.Ver = r.SV*100 + r.EV
	r.Apis = [][]string{}
	r.Weights = 0
	switch r.Kind {
	case "ing":
		// updatePlusEndpoints: one call per rule and path, in order (the same upstream again for a second path to its Service)
		g := []string{}
		for _, host := range ingHosts(r.Name, sh) {
			for i := 0; i < sh.nup; i++ {
				g = append(g, fmt.Sprintf("%s-%s-%s-%s-svc%d-80", ns, r.Name, host, r.Name, i))
			}
			if sh.dupPath {
				g = append(g, fmt.Sprintf("%s-%s-%s-%s-svc0-80", ns, r.Name, host, r.Name))
			}
		}
		r.Apis = append(r.Apis, g)
	case "merge":
		for j := 0; j < sh.minions; j++ {
			mn := fmt.Sprintf("%s-min%d", r.Name, j)
			u := fmt.Sprintf("%s-%s-%s.example.com-%s-svc-80", ns, mn, r.Name, mn)
			if sh.dupPath {
				r.Apis = append(r.Apis, []string{u, u})
			} else {
				r.Apis = append(r.Apis, []string{u})
			}
		}
	case "vs":
		g := []string{}
		for i := 0; i < sh.nup; i++ {
			g = append(g, fmt.Sprintf("vs_%s_%s_u%d", ns, r.Name, i))
		}
		if sh.xroute {
			g = append(g, fmt.Sprintf("vs_%s_%s_vsr_other_%s-route_u0", ns, r.Name, r.Name))
		}
		r.Apis = append(r.Apis, g)
		if sh.split && dynw {
			r.Weights = 1
		}
	case "ts":
		g := []string{}
		for i := 0; i < sh.nup; i++ {
			g = append(g, fmt.Sprintf("ts_%s_%s_u%d", ns, r.Name, i))
		}
		r.Apis = append(r.Apis, g)
		if r.Mode > 0 {
			m := r.Mode
			r.Pt = &m
			// the host of a passthrough TransportServer is rendered in its stream config only by the Plus template (status_zone)
			if plus {
				r.Ver += 10000 * r.Mode
			} else {
				r.Ver += 10000
			}
		}
	}
}

func ingress(name, host string, sv int, typ string, paths []string, svcs []string) *networking.Ingress {
	ann := map[string]string{"kubernetes.io/ingress.class": "nginx"}
	if typ != "master" {
		ann["nginx.org/proxy-connect-timeout"] = fmt.Sprintf("%ds", 10+sv)
	} else {
		ann["nginx.org/client-max-body-size"] = fmt.Sprintf("%dm", 1+sv)
	}
	if typ != "" {
		ann["nginx.org/mergeable-ingress-type"] = typ
	}
	rule := networking.IngressRule{Host: host}
	http := &networking.HTTPIngressRuleValue{}
	for i, p := range paths {
		http.Paths = append(http.Paths, networking.HTTPIngressPath{
			Path: p,
			Backend: networking.IngressBackend{Service: &networking.IngressServiceBackend{
				Name: svcs[i], Port: networking.ServiceBackendPort{Number: 80}}},
		})
	}
	if len(paths) > 0 {
		rule.IngressRuleValue = networking.IngressRuleValue{HTTP: http}
	}
	return &networking.Ingress{
		ObjectMeta: meta_v1.ObjectMeta{Name: name, Namespace: ns, Annotations: ann},
		Spec:       networking.IngressSpec{Rules: []networking.IngressRule{rule}},
	}
}

func endpointsFor(ev, i int) []string {
	out := []string{fmt.Sprintf("10.%d.%d.1:80", ev, i)}
	if ev%2 == 1 {
		out = append(out, fmt.Sprintf("10.%d.%d.2:80", ev, i))
	}
	return out
}

func ingHosts(name string, sh shape) []string {
	if sh.hosts <= 1 {
		return []string{name + ".example.com"}
	}
	var out []string
	for j := 0; j < sh.hosts; j++ {
		out = append(out, fmt.Sprintf("%s-h%d.example.com", name, j))
	}
	return out
}

func buildIng(r Res) *configs.IngressEx {
	sh := pool["ing"][r.Name]
	hosts := ingHosts(r.Name, sh)
	var paths, svcs []string
	eps := map[string][]string{}
	for i := 0; i < sh.nup; i++ {
		paths = append(paths, fmt.Sprintf("/p%d", i))
		svc := fmt.Sprintf("%s-svc%d", r.Name, i)
		svcs = append(svcs, svc)
		eps[svc+"80"] = endpointsFor(r.EV, i)
	}
	if sh.dupPath {
		paths, svcs = append(paths, "/x"), append(svcs, svcs[0])
	}
	ing := ingress(r.Name, hosts[0], r.SV, "", paths, svcs)
	valid := map[string]bool{hosts[0]: true}
	for _, h := range hosts[1:] {
		rule := ing.Spec.Rules[0].DeepCopy()
		rule.Host = h
		ing.Spec.Rules = append(ing.Spec.Rules, *rule)
		valid[h] = true
	}
	return &configs.IngressEx{
		Ingress:          ing,
		Endpoints:        eps,
		ExternalNameSvcs: map[string]bool{},
		ValidHosts:       valid,
		SecretRefs:       map[string]*secrets.SecretReference{},
	}
}

func buildMerge(r Res) *configs.MergeableIngresses {
	sh := pool["merge"][r.Name]
	host := r.Name + ".example.com"
	master := &configs.IngressEx{
		Ingress:          ingress(r.Name, host, r.SV, "master", nil, nil),
		Endpoints:        map[string][]string{},
		ExternalNameSvcs: map[string]bool{},
		ValidHosts:       map[string]bool{host: true},
		SecretRefs:       map[string]*secrets.SecretReference{},
	}
	var minions []*configs.IngressEx
	for j := 0; j < sh.minions; j++ {
		mn := fmt.Sprintf("%s-min%d", r.Name, j)
		p := fmt.Sprintf("/m%d", j)
		svc := mn + "-svc"
		mpaths, msvcs, mvalid := []string{p}, []string{svc}, map[string]bool{p: true}
		if sh.dupPath {
			mpaths, msvcs = append(mpaths, p+"x"), append(msvcs, svc)
			mvalid[p+"x"] = true
		}
		minions = append(minions, &configs.IngressEx{
			Ingress:          ingress(mn, host, r.SV, "minion", mpaths, msvcs),
			Endpoints:        map[string][]string{svc + "80": endpointsFor(r.EV, j)},
			ExternalNameSvcs: map[string]bool{},
			ValidHosts:       map[string]bool{host: true},
			ValidMinionPaths: mvalid,
			SecretRefs:       map[string]*secrets.SecretReference{},
		})
	}
	return &configs.MergeableIngresses{Master: master, Minions: minions}
}

func buildVS(r Res) *configs.VirtualServerEx {
	sh := pool["vs"][r.Name]
	vs := &conf_v1.VirtualServer{
		ObjectMeta: meta_v1.ObjectMeta{Name: r.Name, Namespace: ns},
		Spec:       conf_v1.VirtualServerSpec{Host: r.Name + ".vs.example.com"},
	}
	eps := map[string][]string{}
	for i := 0; i < sh.nup; i++ {
		un := fmt.Sprintf("u%d", i)
		svc := fmt.Sprintf("%s-svc%d", r.Name, i)
		vs.Spec.Upstreams = append(vs.Spec.Upstreams, conf_v1.Upstream{
			Name: un, Service: svc, Port: 80, ProxyConnectTimeout: fmt.Sprintf("%ds", 10+r.SV)})
		eps[fmt.Sprintf("%s/%s:80", ns, svc)] = endpointsFor(r.EV, i)
	}
	if sh.split {
		vs.Spec.Routes = []conf_v1.Route{{Path: "/", Splits: []conf_v1.Split{
			{Weight: 90 - r.SV, Action: &conf_v1.Action{Pass: "u0"}},
			{Weight: 10 + r.SV, Action: &conf_v1.Action{Pass: "u1"}},
		}}}
	} else {
		for i := 0; i < sh.nup; i++ {
			vs.Spec.Routes = append(vs.Spec.Routes, conf_v1.Route{Path: fmt.Sprintf("/r%d", i),
				Action: &conf_v1.Action{Pass: fmt.Sprintf("u%d", i)}})
		}
	}
	vsx := &configs.VirtualServerEx{VirtualServer: vs, Endpoints: eps, ExternalNameSvcs: map[string]bool{},
		HTTPPort: 80, HTTPSPort: 443}
	if sh.xroute {
		svc := fmt.Sprintf("%s-svc0", r.Name) // same Service name as in the VirtualServer's namespace, other pods
		vs.Spec.Routes = append(vs.Spec.Routes, conf_v1.Route{Path: "/x", Route: "other/" + r.Name + "-route"})
		vsx.VirtualServerRoutes = []*conf_v1.VirtualServerRoute{{
			ObjectMeta: meta_v1.ObjectMeta{Name: r.Name + "-route", Namespace: "other"},
			Spec: conf_v1.VirtualServerRouteSpec{
				Host:      vs.Spec.Host,
				Upstreams: []conf_v1.Upstream{{Name: "u0", Service: svc, Port: 80, ProxyConnectTimeout: fmt.Sprintf("%ds", 10+r.SV)}},
				Subroutes: []conf_v1.Route{{Path: "/x", Action: &conf_v1.Action{Pass: "u0"}}},
			}}}
		eps[fmt.Sprintf("other/%s:80", svc)] = endpointsFor(r.EV, 100)
	}
	return vsx
}

func buildTS(r Res) *configs.TransportServerEx {
	sh := pool["ts"][r.Name]
	ts := &conf_v1.TransportServer{
		ObjectMeta: meta_v1.ObjectMeta{Name: r.Name, Namespace: ns},
		Spec: conf_v1.TransportServerSpec{
			Listener:           conf_v1.TransportServerListener{Name: "tcp-" + r.Name, Protocol: "TCP"},
			UpstreamParameters: &conf_v1.UpstreamParameters{ConnectTimeout: fmt.Sprintf("%ds", 10+r.SV)},
			Action:             &conf_v1.TransportServerAction{Pass: "u0"},
		},
	}
	if r.Mode > 0 {
		ts.Spec.Listener = conf_v1.TransportServerListener{Name: conf_v1.TLSPassthroughListenerName, Protocol: conf_v1.TLSPassthroughListenerProtocol}
		ts.Spec.Host = fmt.Sprintf("h%d-%s.example.com", r.Mode, r.Name)
	}
	eps := map[string][]string{}
	for i := 0; i < sh.nup; i++ {
		un := fmt.Sprintf("u%d", i)
		svc := fmt.Sprintf("%s-svc%d", r.Name, i)
		ts.Spec.Upstreams = append(ts.Spec.Upstreams, conf_v1.TransportServerUpstream{Name: un, Service: svc, Port: 5000 + i})
		eps[fmt.Sprintf("%s/%s:%d", ns, svc, 5000+i)] = endpointsFor(r.EV, i)
	}
	port := 9000 + int(r.Name[0]-'p')&3
	if r.Name == "u" {
		port = 9001
	}
	if r.Mode > 0 {
		port = 0
	}
	return &configs.TransportServerEx{TransportServer: ts, Endpoints: eps, ListenerPort: port,
		ExternalNameSvcs: map[string]bool{}, PodsByIP: map[string]string{}}
}

func extended(rs []Res) configs.ExtendedResources {
	var x configs.ExtendedResources
	for _, r := range rs {
		switch r.Kind {
		case "ing":
			x.IngressExes = append(x.IngressExes, buildIng(r))
		case "merge":
			x.MergeableIngresses = append(x.MergeableIngresses, buildMerge(r))
		case "vs":
			x.VirtualServerExes = append(x.VirtualServerExes, buildVS(r))
		case "ts":
			x.TransportServerExes = append(x.TransportServerExes, buildTS(r))
		}
	}
	return x
}

// ---------------------------------------------------------------- operations (family cfg)

type Op struct {
	Op     string   `json:"op"`
	Kind   string   `json:"kind,omitempty"`
	Res    *Res     `json:"res,omitempty"`
	Rs     []Res    `json:"rs,omitempty"`
	Always bool     `json:"always,omitempty"`
	Name   string   `json:"name,omitempty"`
	File   string   `json:"file,omitempty"`
	Skip   bool     `json:"skip,omitempty"`
	MV     int      `json:"mv,omitempty"`
	Flag   bool     `json:"flag,omitempty"`
	Names  []string `json:"names,omitempty"`
	Files  []string `json:"files,omitempty"`
	Eager  bool     `json:"eager,omitempty"` // secret: predicted: a configuration file on disk names the file literally
	Ver    int      `json:"ver,omitempty"`   // secret: content identity
}

type OpObs struct {
	Log     []Ev   `json:"log"`
	Err     string `json:"err"` // none | reload | other
	Enabled bool   `json:"enabled"`
	Panic   string `json:"panic,omitempty"`
}

type Case struct {
	Fam   string `json:"fam"` // cfg | ctl
	ID    int    `json:"id"`
	Class string `json:"class"`
	Plus  bool   `json:"plus"`
	DynW  bool   `json:"dynw"`
	DynS  bool   `json:"dyns"` // -ssl-dynamic-reload
	MGMT  int    `json:"mgmt"` // Plus, ctl: MGMT ConfigMap names 1: licence, 2: + client certificate, 3: + trusted CA
	Ops   []Op   `json:"ops,omitempty"`
	Tasks []Task `json:"tasks,omitempty"`
	RFail []int  `json:"rfail"`
	AFail []int  `json:"afail"`
	Fix   Fixes  `json:"fix"`
	Obs   any    `json:"obs"`
}

// Fixes says which of the proposed repairs the tree under test contains.  It is probed on the
// real code at the start of every run (never taken from a stored case): the model is told
// which variant of the code it faces, the specification is evaluated regardless.
type Fixes struct {
	Weights  bool `json:"weights"`  // F15: AddOrUpdateVirtualServer does not enable reloads by itself
	UAB      bool `json:"uab"`      // F16c: updateAllConfigsOnBatch is reset when a batch ends
	BatchRep bool `json:"batchrep"` // F16b: a failed batch-end reload is reported on the resources
	EndpRep  bool `json:"endprep"`  // F16d: a failed endpoints update is reported on the resources
}

func probeFixes() (Fixes, error) {
	var f Fixes
	// F15
	m := newRecMgr(nil, nil)
	cnf, err := configs.VerifC12NewConfigurator(repoDir(), m, true, true)
	if err != nil {
		return f, err
	}
	r := Res{Kind: "vs", Name: "w"}
	if _, err := cnf.AddOrUpdateVirtualServer(buildVS(r)); err != nil {
		return f, err
	}
	f.Weights = !cnf.VerifC12ReloadsEnabled()
	ing := func(n, act string, sv, q int) Task { return Task{Kind: "ingress", Name: n, Act: act, SV: sv, QLen: q} }
	run := func(rfail []int, ts []Task) ([]SyncObs, error) {
		c := Case{Fam: "ctl", RFail: rfail, AFail: []int{}, Tasks: ts}
		runCtl(&c)
		o, ok := c.Obs.([]SyncObs)
		if !ok || len(o) != len(ts) {
			return nil, fmt.Errorf("probe failed: %v", c.Obs)
		}
		return o, nil
	}
	// F16c
	o, err := run([]int{}, []Task{ing("a", "set", 0, 0), {Kind: "configmap", Name: "nginx-config", Act: "set", MV: 1, QLen: 2}, ing("a", "touch", 0, 0)})
	if err != nil {
		return f, err
	}
	f.UAB = !o[2].UAB
	// F16b
	o, err = run([]int{1}, []Task{ing("a", "set", 0, 0), ing("a", "set", 1, 2), ing("b", "set", 0, 0)})
	if err != nil {
		return f, err
	}
	f.BatchRep = o[2].Reported
	// F16d
	o, err = run([]int{1}, []Task{ing("a", "set", 0, 0), {Kind: "endpointslice", Name: "a-svc", Act: "set", EV: 1, QLen: 0}})
	if err != nil {
		return f, err
	}
	f.EndpRep = o[1].Reported
	return f, nil
}

func errClass(errs ...error) string {
	cls := "none"
	for _, e := range errs {
		if e == nil {
			continue
		}
		if errors.Is(e, errInjectedReload) {
			cls = "reload"
		} else if cls == "none" {
			cls = "other"
		}
	}
	return cls
}

func keys(names []string) []string {
	var out []string
	for _, n := range names {
		out = append(out, keyOf(n))
	}
	return out
}

func applyOp(cnf *configs.Configurator, m *recMgr, o Op) (obs OpObs) {
	defer func() {
		if p := recover(); p != nil {
			obs = OpObs{Log: m.take(), Err: "panic", Enabled: cnf.VerifC12ReloadsEnabled(), Panic: fmt.Sprint(p)}
		}
	}()
	var errs []error
	pre := []Ev{}
	switch o.Op {
	case "add":
		var err error
		switch o.Res.Kind {
		case "ing":
			_, err = cnf.AddOrUpdateIngress(buildIng(*o.Res))
		case "merge":
			_, err = cnf.AddOrUpdateMergeableIngress(buildMerge(*o.Res))
		case "vs":
			_, err = cnf.AddOrUpdateVirtualServer(buildVS(*o.Res))
		case "ts":
			_, err = cnf.AddOrUpdateTransportServer(buildTS(*o.Res))
		}
		errs = append(errs, err)
	case "addvss":
		_, err := cnf.AddOrUpdateVirtualServers(extended(o.Rs).VirtualServerExes)
		errs = append(errs, err)
	case "addres":
		_, err := cnf.AddOrUpdateResources(extended(o.Rs), o.Always)
		errs = append(errs, err)
	case "del":
		var err error
		switch o.Kind {
		case "ing", "merge":
			err = cnf.DeleteIngress(keyOf(o.Name), o.Skip)
		case "vs":
			err = cnf.DeleteVirtualServer(keyOf(o.Name), o.Skip)
		case "ts":
			err = cnf.DeleteTransportServer(keyOf(o.Name))
		}
		errs = append(errs, err)
	case "endp":
		var err error
		x := extended(o.Rs)
		switch o.Kind {
		case "ing":
			err = cnf.UpdateEndpoints(x.IngressExes)
		case "merge":
			err = cnf.UpdateEndpointsMergeableIngress(x.MergeableIngresses)
		case "vs":
			err = cnf.UpdateEndpointsForVirtualServers(x.VirtualServerExes)
		case "ts":
			err = cnf.UpdateEndpointsForTransportServers(x.TransportServerExes)
		}
		errs = append(errs, err)
	case "enable":
		cnf.EnableReloads()
		pre = append(pre, Ev{E: "en"})
	case "disable":
		cnf.DisableReloads()
		pre = append(pre, Ev{E: "dis"})
	case "updateconfig":
		cnf.CfgParams.MainWorkerConnections = fmt.Sprintf("%d", 1024+o.MV)
		_, err := cnf.UpdateConfig(extended(o.Rs))
		errs = append(errs, err)
	case "reloadbatch":
		errs = append(errs, cnf.ReloadForBatchUpdates(o.Flag))
	case "updatevss":
		errs = append(errs, cnf.UpdateVirtualServers(extended(o.Rs).VirtualServerExes, keys(o.Names))...)
	case "updatetss":
		errs = append(errs, cnf.UpdateTransportServers(extended(o.Rs).TransportServerExes, keys(o.Names))...)
	case "secret":
		sec := tlsSecret("nginx-ingress", "special-"+o.Name, o.Ver)
		cnf.AddOrUpdateSpecialTLSSecrets(sec, []string{o.Name})
	case "reload":
		errs = append(errs, cnf.Reload(nginx.ReloadForOtherUpdate))
	case "batchdel":
		if o.Kind == "vs" {
			errs = append(errs, cnf.BatchDeleteVirtualServers(keys(o.Names))...)
		} else {
			errs = append(errs, cnf.BatchDeleteIngresses(keys(o.Names))...)
		}
	default:
		return OpObs{Log: []Ev{}, Err: "other", Panic: "unknown op " + o.Op}
	}
	return OpObs{Log: append(pre, m.take()...), Err: errClass(errs...), Enabled: cnf.VerifC12ReloadsEnabled()}
}

func repoDir() string {
	if d := os.Getenv("VERIF_REPO"); d != "" {
		return d
	}
	return "/repo"
}

func runCfg(c *Case) {
	m := newRecMgr(c.RFail, c.AFail)
	cnf, err := configs.VerifC12NewConfiguratorSSL(repoDir(), m, c.Plus, c.DynW, c.DynS)
	if err != nil {
		c.Obs = map[string]string{"error": err.Error()}
		return
	}
	obs := []OpObs{}
	for _, o := range c.Ops {
		obs = append(obs, applyOp(cnf, m, o))
	}
	c.Obs = obs
}

// ---------------------------------------------------------------- generator (family cfg)

type gen struct {
	r          *vh.Rng
	plus, dynw bool
	dyns       bool
	mainOnDisk bool           // an UpdateConfig has written the main configuration
	sv, ev     map[string]int // last variants given per kind/name: lets updates repeat content on purpose
}

func (g *gen) res(kind string) Res {
	name := vh.Pick(g.r, poolNames(kind))
	id := kind + "/" + name
	sv, ev := g.sv[id], g.ev[id]
	if g.r.Chance(2, 5) {
		sv = g.r.Intn(4)
	}
	if g.r.Chance(1, 4) {
		ev = g.r.Intn(4)
	}
	g.sv[id], g.ev[id] = sv, ev
	r := Res{Kind: kind, Name: name, SV: sv, EV: ev}
	if kind == "ts" && (name == "p" || name == "q") {
		// host edits, and switches between the passthrough listener and a TCP listener, often with nothing else changing
		if g.r.Chance(1, 2) {
			g.sv[id+"#mode"] = g.r.Intn(4)
			if g.r.Chance(1, 2) {
				r.SV, g.sv[id] = g.sv[id+"#prev"], g.sv[id+"#prev"]
			}
		}
		g.sv[id+"#prev"] = r.SV
		r.Mode = g.sv[id+"#mode"]
	}
	fill(&r, g.plus, g.dynw)
	return r
}

// endpoints variant of the stored spec: only the endpoints move
func (g *gen) endpRes(kind string) Res {
	name := vh.Pick(g.r, poolNames(kind))
	id := kind + "/" + name
	ev := g.ev[id]
	if g.r.Chance(3, 4) {
		ev = g.r.Intn(4)
	}
	g.ev[id] = ev
	r := Res{Kind: kind, Name: name, SV: g.sv[id], EV: ev, Mode: g.sv[id+"#mode"]}
	fill(&r, g.plus, g.dynw)
	return r
}

func (g *gen) distinct(kind string, n int, f func(string) Res) []Res {
	seen := map[string]bool{}
	var out []Res
	for i := 0; i < n; i++ {
		r := f(kind)
		if seen[r.Name] {
			continue
		}
		seen[r.Name] = true
		out = append(out, r)
	}
	return out
}

func (g *gen) mixed() []Res {
	var out []Res
	for _, k := range []string{"ing", "merge", "vs", "ts"} {
		if g.r.Chance(1, 2) {
			out = append(out, g.distinct(k, 1+g.r.Intn(2), g.res)...)
		}
	}
	return out
}

func (g *gen) names(kind string) ([]string, []string) {
	var ns_, fs []string
	seen := map[string]bool{}
	for i := 0; i < 1+g.r.Intn(2); i++ {
		n := vh.Pick(g.r, poolNames(kind))
		if seen[n] {
			continue
		}
		seen[n] = true
		ns_ = append(ns_, n)
		fs = append(fs, fileOf(kind, n))
	}
	return ns_, fs
}

var kinds = []string{"ing", "merge", "vs", "ts"}

func (g *gen) op() Op {
	switch x := g.r.Intn(100); {
	case x < 22:
		r := g.res(vh.Pick(g.r, kinds))
		return Op{Op: "add", Res: &r}
	case x < 27:
		return Op{Op: "addvss", Rs: g.distinct("vs", 1+g.r.Intn(2), g.res)}
	case x < 36:
		return Op{Op: "addres", Rs: g.mixed(), Always: g.r.Chance(1, 3)}
	case x < 39:
		// a passthrough TransportServer whose host alone is edited (or that moves between the passthrough and a TCP listener),
		// through the one operation that reloads only when a file changed
		name := vh.Pick(g.r, []string{"p", "q"})
		id := "ts/" + name
		g.sv[id+"#mode"] = (g.sv[id+"#mode"] + 1 + g.r.Intn(3)) % 4
		r := Res{Kind: "ts", Name: name, SV: g.sv[id], EV: g.ev[id], Mode: g.sv[id+"#mode"]}
		g.sv[id+"#prev"] = r.SV
		fill(&r, g.plus, g.dynw)
		return Op{Op: "addres", Rs: []Res{r}}
	case x < 49:
		k := vh.Pick(g.r, kinds)
		n := vh.Pick(g.r, poolNames(k))
		return Op{Op: "del", Kind: k, Name: n, File: fileOf(k, n), Skip: g.r.Chance(1, 8)}
	case x < 67:
		k := vh.Pick(g.r, kinds)
		return Op{Op: "endp", Kind: k, Rs: g.distinct(k, 1+g.r.Intn(2), g.endpRes)}
	case x < 74:
		return Op{Op: "enable"}
	case x < 79:
		return Op{Op: "disable"}
	case x < 82:
		g.mainOnDisk = true
		return Op{Op: "updateconfig", MV: g.r.Intn(3), Rs: g.mixed()}
	case x < 84:
		if g.r.Chance(1, 3) {
			return Op{Op: "reload"}
		}
		// special TLS secrets: only the default server certificate is named by the main configuration, and literally
		// only when -ssl-dynamic-reload is off
		n := vh.Pick(g.r, []string{"default", "wildcard"})
		return Op{Op: "secret", Name: n, Ver: 1 + g.r.Intn(3), Eager: n == "default" && !g.dyns && g.mainOnDisk}
	case x < 88:
		return Op{Op: "reloadbatch", Flag: g.r.Chance(2, 3)}
	case x < 92:
		ns_, fs := g.names("vs")
		return Op{Op: "updatevss", Rs: g.distinct("vs", g.r.Intn(2), g.res), Names: ns_, Files: fs}
	case x < 96:
		ns_, fs := g.names("ts")
		return Op{Op: "updatetss", Rs: g.distinct("ts", g.r.Intn(2), g.res), Names: ns_, Files: fs}
	default:
		k := vh.Pick(g.r, []string{"vs", "ing"})
		ns_, fs := g.names(k)
		return Op{Op: "batchdel", Kind: k, Names: ns_, Files: fs}
	}
}

func pickFails(r *vh.Rng, horizon int, num, den int) []int {
	out := []int{}
	for i := 0; i < horizon; i++ {
		if r.Chance(num, den) {
			out = append(out, i)
		}
	}
	return out
}

func genCfg(r *vh.Rng, id int) Case {
	c := Case{Fam: "cfg", ID: id, Plus: r.Chance(1, 2), DynW: r.Chance(1, 2), DynS: r.Chance(1, 2)}
	g := &gen{r: r, plus: c.Plus, dynw: c.DynW, dyns: c.DynS, sv: map[string]int{}, ev: map[string]int{}}
	n := 4 + r.Intn(27)
	switch id % 4 {
	case 0:
		c.Class = "nofault"
		c.RFail, c.AFail = []int{}, []int{}
	case 1:
		c.Class = "reloadfault"
		c.RFail, c.AFail = pickFails(r, 40, 1, 4), []int{}
	case 2:
		c.Class = "apifault"
		c.Plus = true
		g.plus = true
		c.RFail, c.AFail = []int{}, pickFails(r, 60, 1, 3)
	default:
		c.Class = "bothfault"
		c.RFail, c.AFail = pickFails(r, 40, 1, 3), pickFails(r, 60, 1, 4)
	}
	// most histories leave the start-up window early, some never
	enableAt := r.Intn(4)
	if r.Chance(1, 10) {
		enableAt = -1
	}
	for i := 0; i < n; i++ {
		if i == enableAt {
			c.Ops = append(c.Ops, Op{Op: "enable"})
			continue
		}
		c.Ops = append(c.Ops, g.op())
	}
	return c
}

// fixed cases: the witnesses of the refutation theorems and the corner cases the property names
func corpusCfg() []Case {
	mk := func(kind, name string, sv, ev int, plus, dynw bool) *Res {
		r := Res{Kind: kind, Name: name, SV: sv, EV: ev}
		fill(&r, plus, dynw)
		return &r
	}
	var out []Case
	// F15: AddOrUpdateVirtualServer with weight updates inside the start-up window
	out = append(out, Case{Class: "corpus-weights-held", Plus: true, DynW: true, RFail: []int{}, AFail: []int{},
		Ops: []Op{{Op: "add", Res: mk("vs", "w", 0, 0, true, true)}, {Op: "add", Res: mk("ing", "a", 0, 0, true, true)}}})
	// ... and inside a window opened by DisableReloads
	out = append(out, Case{Class: "corpus-weights-held", Plus: false, DynW: true, RFail: []int{}, AFail: []int{},
		Ops: []Op{{Op: "enable"}, {Op: "add", Res: mk("ing", "a", 0, 0, false, true)}, {Op: "disable"},
			{Op: "add", Res: mk("vs", "w", 1, 0, false, true)}, {Op: "del", Kind: "ing", Name: "a", File: fileOf("ing", "a")}, {Op: "enable"}, {Op: "reloadbatch", Flag: true}}})
	// the same without dynamic weights: no weight updates, the window holds
	out = append(out, Case{Class: "corpus-noweights-held", Plus: false, DynW: false, RFail: []int{}, AFail: []int{},
		Ops: []Op{{Op: "add", Res: mk("vs", "w", 0, 0, false, false)}, {Op: "enable"}, {Op: "reloadbatch", Flag: true}}})
	// a failed reload at every position of a short history
	for f := 0; f < 4; f++ {
		out = append(out, Case{Class: "corpus-reloadfail", Plus: false, DynW: false, RFail: []int{f}, AFail: []int{},
			Ops: []Op{{Op: "enable"}, {Op: "add", Res: mk("ing", "a", 0, 0, false, false)}, {Op: "add", Res: mk("ts", "t", 0, 0, false, false)},
				{Op: "del", Kind: "ing", Name: "a", File: fileOf("ing", "a")}, {Op: "batchdel", Kind: "vs", Names: []string{"v"}, Files: []string{fileOf("vs", "v")}}}})
	}
	// Plus endpoints: API ok / first call fails / second call fails -> fall back to reload
	for _, af := range [][]int{{}, {0}, {1}, {0, 1, 2}} {
		out = append(out, Case{Class: "corpus-plus-endp", Plus: true, DynW: false, RFail: []int{}, AFail: af,
			Ops: []Op{{Op: "enable"}, {Op: "add", Res: mk("ing", "b", 0, 0, true, false)},
				{Op: "endp", Kind: "ing", Rs: []Res{*mk("ing", "b", 0, 1, true, false)}},
				{Op: "endp", Kind: "merge", Rs: []Res{*mk("merge", "n", 0, 1, true, false)}},
				{Op: "endp", Kind: "ts", Rs: []Res{*mk("ts", "u", 0, 2, true, false)}},
				{Op: "endp", Kind: "vs", Rs: []Res{*mk("vs", "x", 0, 1, true, false), *mk("vs", "v", 0, 1, true, false)}}}})
	}
	// Plus endpoints: the API push fails and so does the fall-back reload (the operation returns the error, NGINX still runs the
	// old servers); the controller then retries the same update, for which the file on disk is already up to date
	for _, k := range []string{"ing", "vs", "ts"} {
		n := map[string]string{"ing": "b", "vs": "x", "ts": "u"}[k]
		out = append(out, Case{Class: "corpus-plus-endp-retry", Plus: true, DynW: false, RFail: []int{1}, AFail: []int{0},
			Ops: []Op{{Op: "enable"}, {Op: "add", Res: mk(k, n, 0, 0, true, false)},
				{Op: "endp", Kind: k, Rs: []Res{*mk(k, n, 0, 1, true, false)}},
				{Op: "endp", Kind: k, Rs: []Res{*mk(k, n, 0, 1, true, false)}},
				{Op: "endp", Kind: k, Rs: []Res{*mk(k, n, 0, 1, true, false)}}}})
	}
	// Plus: endpoints of a VirtualServer whose route lives in another namespace, with a same-named Service there
	out = append(out, Case{Class: "corpus-plus-xroute", Plus: true, DynW: false, RFail: []int{}, AFail: []int{},
		Ops: []Op{{Op: "enable"}, {Op: "add", Res: mk("vs", "y", 0, 0, true, false)},
			{Op: "endp", Kind: "vs", Rs: []Res{*mk("vs", "y", 0, 1, true, false)}},
			{Op: "endp", Kind: "vs", Rs: []Res{*mk("vs", "y", 0, 2, true, false), *mk("vs", "v", 0, 1, true, false)}}}})
	// Plus: an Ingress with several hosts (and two paths) on one Service, and a minion with two paths on one Service
	out = append(out, Case{Class: "corpus-plus-multihost", Plus: true, RFail: []int{}, AFail: []int{},
		Ops: []Op{{Op: "enable"}, {Op: "add", Res: mk("ing", "d", 0, 0, true, false)}, {Op: "add", Res: mk("ing", "e", 0, 0, true, false)},
			{Op: "add", Res: mk("merge", "o", 0, 0, true, false)},
			{Op: "endp", Kind: "ing", Rs: []Res{*mk("ing", "d", 0, 1, true, false)}},
			{Op: "endp", Kind: "ing", Rs: []Res{*mk("ing", "e", 0, 2, true, false), *mk("ing", "d", 0, 2, true, false)}},
			{Op: "endp", Kind: "merge", Rs: []Res{*mk("merge", "o", 0, 1, true, false)}}}})
	// TLS passthrough: a host edit, and a switch to a TCP listener and back, with the conditional reload of AddOrUpdateResources
	mkp := func(name string, sv, ev, mode int, plus bool) Res {
		r := Res{Kind: "ts", Name: name, SV: sv, EV: ev, Mode: mode}
		fill(&r, plus, false)
		return r
	}
	for _, plus := range []bool{false, true} {
		out = append(out, Case{Class: "corpus-passthrough", Plus: plus, RFail: []int{}, AFail: []int{},
			Ops: []Op{{Op: "enable"}, {Op: "addres", Rs: []Res{mkp("p", 0, 0, 1, plus), mkp("q", 0, 0, 1, plus)}},
				{Op: "addres", Rs: []Res{mkp("p", 0, 0, 2, plus)}}, {Op: "addres", Rs: []Res{mkp("p", 0, 0, 2, plus)}},
				{Op: "addres", Rs: []Res{mkp("p", 0, 0, 0, plus)}}, {Op: "addres", Rs: []Res{mkp("p", 0, 0, 3, plus)}},
				{Op: "endp", Kind: "ts", Rs: []Res{mkp("q", 0, 1, 1, plus)}},
				{Op: "del", Kind: "ts", Name: "q", File: fileOf("ts", "q")}, {Op: "addres", Rs: []Res{mkp("p", 0, 0, 1, plus)}},
				{Op: "updatetss", Rs: []Res{mkp("q", 0, 0, 2, plus)}, Names: []string{"p"}, Files: []string{fileOf("ts", "p")}}}})
	}
	// content comparison: AddOrUpdateResources with unchanged content does not reload
	out = append(out, Case{Class: "corpus-unchanged", Plus: false, DynW: false, RFail: []int{}, AFail: []int{},
		Ops: []Op{{Op: "enable"}, {Op: "addres", Rs: []Res{*mk("ing", "a", 0, 0, false, false), *mk("ts", "t", 0, 0, false, false)}},
			{Op: "addres", Rs: []Res{*mk("ing", "a", 0, 0, false, false), *mk("ts", "t", 0, 0, false, false)}},
			{Op: "addres", Rs: []Res{*mk("ing", "a", 0, 0, false, false)}, Always: true},
			{Op: "addres", Rs: []Res{*mk("ing", "a", 1, 0, false, false)}}}})
	for i := range out {
		out[i].Fam = "cfg"
		out[i].ID = i
	}
	return out
}

// ---------------------------------------------------------------- secrets

var tlsCache = map[int][2][]byte{}

// tlsPair returns a valid self-signed certificate and key; the variant only has to differ in content.
func tlsPair(v int) ([]byte, []byte) {
	if p, ok := tlsCache[v]; ok {
		return p[0], p[1]
	}
	key, err := ecdsa.GenerateKey(elliptic.P256(), rand.Reader)
	if err != nil {
		panic(err)
	}
	tmpl := x509.Certificate{SerialNumber: big.NewInt(int64(1000 + v)), Subject: pkix.Name{CommonName: fmt.Sprintf("verif-%d", v)},
		NotBefore: time.Unix(1700000000, 0), NotAfter: time.Unix(4102444800, 0), IsCA: true, BasicConstraintsValid: true,
		KeyUsage: x509.KeyUsageDigitalSignature | x509.KeyUsageCertSign}
	der, err := x509.CreateCertificate(rand.Reader, &tmpl, &tmpl, &key.PublicKey, key)
	if err != nil {
		panic(err)
	}
	kb, err := x509.MarshalECPrivateKey(key)
	if err != nil {
		panic(err)
	}
	crt := pem.EncodeToMemory(&pem.Block{Type: "CERTIFICATE", Bytes: der})
	k := pem.EncodeToMemory(&pem.Block{Type: "EC PRIVATE KEY", Bytes: kb})
	tlsCache[v] = [2][]byte{crt, k}
	return crt, k
}

func tlsSecret(namespace, name string, v int) *api_v1.Secret {
	crt, key := tlsPair(v)
	return &api_v1.Secret{ObjectMeta: meta_v1.ObjectMeta{Name: name, Namespace: namespace}, Type: api_v1.SecretTypeTLS,
		Data: map[string][]byte{api_v1.TLSCertKey: crt, api_v1.TLSPrivateKeyKey: key}}
}

// ---------------------------------------------------------------- main

func main() {
	a := vh.ParseArgs()
	w, err := vh.NewWriter(a.Out)
	if err != nil {
		fmt.Fprintln(os.Stderr, err)
		os.Exit(2)
	}
	defer w.Close()
	var cases []Case
	if a.Replay != "" {
		if err := vh.ReadReplay(a.Replay, &cases); err != nil {
			fmt.Fprintln(os.Stderr, err)
			os.Exit(2)
		}
	} else {
		cases = append(cases, corpusCfg()...)
		cases = append(cases, corpusCtl()...)
		for i := range cases {
			cases[i].ID = i
		}
		base := vh.NewRng(a.Seed)
		nctl := a.N / 3
		for i := 0; i < a.N-nctl; i++ {
			cases = append(cases, genCfg(base.Fork(uint64(i)), len(cases)))
		}
		for i := 0; i < nctl; i++ {
			cases = append(cases, genCtl(base.Fork(uint64(1_000_000+i)), len(cases)))
		}
	}
	fixes, err := probeFixes()
	if err != nil {
		fmt.Fprintln(os.Stderr, "c12: cannot probe the tree under test:", err)
		os.Exit(2)
	}
	for i := range cases {
		c := &cases[i]
		c.Obs = nil
		c.Fix = fixes
		switch c.Fam {
		case "cfg":
			runCfg(c)
		case "ctl":
			runCtl(c)
		default:
			c.Obs = map[string]string{"error": "unknown family " + c.Fam}
		}
		w.Emit(c)
	}
}

// ---------------------------------------------------------------- family ctl: the real lbc.sync

// Task is one dequeued work item.  Kind/Name/Act/SV/EV/MV say how the cluster changed before
// the item is processed (what the informer would have stored); QLen is the queue length during
// the sync.  Work, Found, Reports, MVNow and All are the harness's own prediction of what the
// handler asks of the Configurator, computed from its bookkeeping of the cluster -- they are the
// model's input and are never read back from the code under test.
type Task struct {
	Kind    string `json:"kind"` // ingress | virtualserver | transportserver | endpointslice | configmap
	Name    string `json:"name"` // resource name, or service name for endpointslice
	Act     string `json:"act"`  // set | delete | touch
	SV      int    `json:"sv"`
	EV      int    `json:"ev"`
	MV      int    `json:"mv"`
	QLen    int    `json:"qlen"`
	Work    []Op   `json:"work"`
	Found   bool   `json:"found"`
	Reports bool   `json:"reports"`
	MVNow   int    `json:"mvnow"`
	All     []Res  `json:"all"`
	AllRep  bool   `json:"allrep"` // updateAllConfigs has an object to report on
	AllPre  []Op   `json:"allpre"` // the secret files updateAllConfigs rewrites before UpdateConfig
}

type SyncObs struct {
	Log      []Ev     `json:"log"`
	Enabled  bool     `json:"enabled"`
	Ready    bool     `json:"ready"`
	Batch    bool     `json:"batch"`
	EBR      bool     `json:"ebr"`
	UAB      bool     `json:"uab"`
	Reported bool     `json:"reported"`
	Events   []string `json:"events"`
	Error    string   `json:"error,omitempty"`
	Panic    string   `json:"panic,omitempty"`
}

type ctlRes struct {
	kind   string // model kind: ing | vs | ts
	task   string // task kind
	svcs   []string
	split  bool
	scaled bool   // Ingress with nginx.org/limit-req-scale: its rate limit depends on the number of controller replicas
	ns     string // namespace ("" = default)
}

// teamC is a watched namespace that can lose its -watch-namespace-label label
const teamC = "team-c"

func nsOfRes(name string) string {
	if p, ok := ctlPool[name]; ok && p.ns != "" {
		return p.ns
	}
	return ns
}

func nsOfSvc(svc string) string {
	if svc == "c1-svc" || svc == "c2-svc" {
		return teamC
	}
	return ns
}

func fileOfNS(kind, namespace, name string) string {
	switch kind {
	case "vs":
		return "vs_" + namespace + "_" + name
	case "ts":
		return "ts_" + namespace + "_" + name
	}
	return namespace + "-" + name
}

var ctlPool = map[string]ctlRes{
	"a": {kind: "ing", task: "ingress", svcs: []string{"a-svc"}},
	"b": {kind: "ing", task: "ingress", svcs: []string{"b-svc"}},
	"v": {kind: "vs", task: "virtualserver", svcs: []string{"v-svc"}},
	"w": {kind: "vs", task: "virtualserver", svcs: []string{"w-svc0", "w-svc1"}, split: true},
	"t": {kind: "ts", task: "transportserver", svcs: []string{"t-svc"}},
	"s": {kind: "ing", task: "ingress", svcs: []string{"s-svc"}, scaled: true},
	// mergeable Ingress: master "m" (no paths) and its minion "mm" (path /mm -> mm-svc) are two Ingress objects, one resource
	"m": {kind: "merge", task: "ingress", svcs: []string{"mm-svc"}},
	// resources of the namespace that can stop being watched
	"c1": {kind: "ing", task: "ingress", svcs: []string{"c1-svc"}, ns: teamC},
	"c2": {kind: "vs", task: "virtualserver", svcs: []string{"c2-svc"}, ns: teamC},
}
var ctlNames = []string{"a", "b", "s", "c1", "m", "v", "w", "c2", "t"} // per kind in the order of GetResources: namespace, then name
var ctlSvcs = []string{"a-svc", "b-svc", "s-svc", "mm-svc", "v-svc", "w-svc0", "w-svc1", "t-svc", "z-svc", "c1-svc", "c2-svc"}

// objects the ingress tasks can be about: the resources of kind ing/merge, and the minion
var ctlIngressObjs = []string{"a", "b", "s", "m", "mm"}

// the controller's own namespace, Service and special Secrets
const nicNS = "nginx-ingress"
const nicSvc = "nic-svc"

type secretRole struct {
	name     string   // Secret name in nicNS
	files    []string // files under secrets/
	minLevel int      // MGMT level from which the Secret is special (0: always: -default-server-tls-secret, -wildcard-tls-secret)
}

var secretRoles = map[string]secretRole{
	"default":    {name: "default-server-secret", files: []string{"default"}},
	"wildcard":   {name: "wildcard-secret", files: []string{"wildcard"}},
	"license":    {name: "license", files: []string{"license.jwt"}, minLevel: 1},
	"clientauth": {name: "client-auth", files: []string{"mgmt/client"}, minLevel: 2},
	"trustedca":  {name: "trusted-ca", files: []string{"mgmt/ca.crt", "mgmt/ca.crl"}, minLevel: 3},
}
var secretRoleNames = []string{"default", "wildcard", "license", "clientauth", "trustedca"}

func (w *world) roleActive(role string) bool {
	r := secretRoles[role]
	return r.minLevel == 0 || (w.plus && w.mgmt >= r.minLevel)
}

// eager: does a configuration file on disk name the secret file literally?  Only the main configuration does:
// the default server certificate when -ssl-dynamic-reload is off, and (Plus) the files of the mgmt block.
func (w *world) eager(file string) bool {
	if !w.mainOnDisk {
		return false
	}
	switch file {
	case "default":
		return !w.dyns
	case "license.jwt":
		return w.plus
	case "mgmt/client":
		return w.plus && w.mgmt >= 2
	case "mgmt/ca.crt", "mgmt/ca.crl":
		return w.plus && w.mgmt >= 3
	}
	return false
}

func (w *world) secretWrites(role string) []Op {
	var out []Op
	for _, f := range secretRoles[role].files {
		out = append(out, Op{Op: "secret", Name: f, Ver: w.sec[role], Eager: w.eager(f)})
	}
	return out
}

// allPre: what updateAllConfigs writes before UpdateConfig (Plus with the MGMT ConfigMap held): licence, trusted CA, client certificate
func (w *world) allPre() []Op {
	out := []Op{}
	if w.plus && w.mgmtHeld {
		for _, role := range []string{"license", "trustedca", "clientauth"} {
			if w.roleActive(role) {
				out = append(out, w.secretWrites(role)...)
			}
		}
	}
	return out
}

func (w *world) mainVer() int { return w.held + 10*w.mgv }

// world is the harness's bookkeeping of the cluster and of what the controller has accepted.
type world struct {
	plus, dynw bool
	obj        map[string]int  // resource name -> spec variant of the object in the cluster
	known      map[string]int  // resource name -> spec variant the controller has configured
	ev         map[string]int  // service -> endpoints variant (0: no EndpointSlice)
	cm         int             // ConfigMap variant in the cluster (0: none)
	held       int             // ConfigMap variant the controller holds
	dyns       bool            // -ssl-dynamic-reload
	mgmt       int             // level of the MGMT ConfigMap (Plus): which special Secrets it names
	mgmtHeld   bool            // the controller has seen the MGMT ConfigMap
	mgv        int             // variant of the MGMT ConfigMap the controller holds
	sec        map[string]int  // special Secret role -> content variant in the cluster
	secGone    map[string]bool // the Secret object has been deleted (the controller keeps the files)
	nsGone     bool            // team-c lost its label and the controller has dropped its informers
	ready      bool            // the start-up phase is over (bookkeeping of isNginxReady)
	mainOnDisk bool            // the main configuration has been written
	replicas   int             // ingressControllerReplicas
}

func newWorld(plus, dynw bool) *world {
	return &world{plus: plus, dynw: dynw, obj: map[string]int{}, known: map[string]int{}, ev: map[string]int{}, sec: map[string]int{}, secGone: map[string]bool{}}
}

func newWorldCase(c *Case) *world {
	w := newWorld(c.Plus, c.DynW)
	w.dyns, w.mgmt = c.DynS, c.MGMT
	for _, role := range secretRoleNames {
		if w.roleActive(role) {
			w.sec[role] = 1 // present in the cluster from the beginning
		}
	}
	return w
}

func (w *world) res(name string) Res {
	p := ctlPool[name]
	rns := nsOfRes(name)
	r := Res{Kind: p.kind, Name: name, SV: w.known[name], File: fileOfNS(p.kind, rns, name)}
	ver, mul := w.known[name]*1000, 1
	for _, s := range p.svcs {
		if p.kind == "merge" && w.known[name]%10 == 0 {
			break // no minion: no upstream, the endpoints do not appear
		}
		ver += w.ev[s] * mul
		mul *= 10
	}
	if p.scaled && w.replicas > 1 {
		ver += 100 * w.replicas
	}
	if p.kind == "merge" && w.known[name]%10 == 0 {
		ver = 0 // a master without minions has no location: nothing of its spec variant is rendered
	}
	r.Ver = ver
	g := []string{}
	switch p.kind {
	case "merge":
		r.Apis = [][]string{}
		if w.known[name]%10 != 0 {
			r.Apis = append(r.Apis, []string{fmt.Sprintf("%s-mm-%s.example.com-%s-80", ns, name, p.svcs[0])})
		}
		return r
	case "ing":
		g = append(g, fmt.Sprintf("%s-%s-%s.example.com-%s-80", rns, name, name, p.svcs[0]))
	case "vs":
		for i := range p.svcs {
			g = append(g, fmt.Sprintf("vs_%s_%s_u%d", rns, name, i))
		}
		if p.split && w.dynw {
			r.Weights = 1
		}
	case "ts":
		g = append(g, fmt.Sprintf("ts_%s_%s_u0", ns, name))
	}
	r.Apis = [][]string{g}
	return r
}

func (w *world) all() []Res {
	out := []Res{}
	for _, k := range []string{"ing", "ts", "vs"} { // GetResources sorts by Kind/namespace/name: Ingress < TransportServer < VirtualServer
		_ = k
	}
	// UpdateConfig then processes IngressExes, VirtualServerExes, TransportServerExes in that order
	for _, k := range []string{"ing", "merge", "vs", "ts"} {
		for _, n := range ctlNames {
			if ctlPool[n].kind != k {
				continue
			}
			if _, ok := w.known[n]; ok {
				out = append(out, w.res(n))
			}
		}
	}
	return out
}

// predict fills the model-side fields of a task and advances the bookkeeping.
func (w *world) predict(t *Task) {
	t.Work, t.Found, t.Reports = []Op{}, false, true
	switch t.Kind {
	case "nsloss":
		// the namespace team-c has lost its label: syncNamespace -> cleanupUnwatchedNamespacedResources
		t.Reports = false // errors are only logged; the resources are gone from the controller's view
		if w.nsGone {
			break
		}
		w.nsGone = true
		lists := map[string][2][]string{}
		for _, n := range []string{"c1", "c2"} {
			p := ctlPool[n]
			if _, ok := w.obj[n]; ok { // the object is in the namespace's lister, configured or not
				l := lists[p.kind]
				l[0], l[1] = append(l[0], n), append(l[1], fileOfNS(p.kind, teamC, n))
				lists[p.kind] = l
			}
			delete(w.known, n)
		}
		t.Work = append(t.Work, Op{Op: "batchdel", Kind: "ing", Names: lists["ing"][0], Files: lists["ing"][1]},
			Op{Op: "batchdel", Kind: "vs", Names: lists["vs"][0], Files: lists["vs"][1]},
			Op{Op: "updatetss", Rs: []Res{}, Names: []string{}, Files: []string{}})
	case "ingress", "virtualserver", "transportserver":
		if w.nsGone && nsOfRes(t.Name) == teamC {
			break // a task of a namespace that is not watched any more
		}
		if t.Name == "m" || t.Name == "mm" {
			// the mergeable Ingress: what the controller configures is a function of both objects
			switch t.Act {
			case "set":
				w.obj[t.Name] = t.SV
			case "delete":
				delete(w.obj, t.Name)
			}
			if msv, ok := w.obj["m"]; ok {
				comp := msv * 10
				if mmsv, has := w.obj["mm"]; has {
					comp += 1 + mmsv
				}
				if k, was := w.known["m"]; !was || k != comp {
					w.known["m"] = comp
					r := w.res("m")
					t.Work = append(t.Work, Op{Op: "add", Res: &r})
				}
			} else if _, was := w.known["m"]; was {
				delete(w.known, "m")
				t.Work = append(t.Work, Op{Op: "del", Kind: "merge", Name: "m", File: fileOf("merge", "m")})
				t.Reports = false
			}
			break
		}
		p := ctlPool[t.Name]
		switch t.Act {
		case "set":
			w.obj[t.Name] = t.SV
		case "delete":
			delete(w.obj, t.Name)
		}
		if sv, ok := w.obj[t.Name]; ok {
			if k, was := w.known[t.Name]; !was || k != sv {
				w.known[t.Name] = sv
				r := w.res(t.Name)
				t.Work = append(t.Work, Op{Op: "add", Res: &r})
			}
		} else if _, was := w.known[t.Name]; was {
			delete(w.known, t.Name)
			t.Work = append(t.Work, Op{Op: "del", Kind: p.kind, Name: t.Name, File: fileOfNS(p.kind, nsOfRes(t.Name), t.Name)})
			t.Reports = false
		}
	case "endpointslice":
		if w.nsGone && nsOfSvc(t.Name) == teamC {
			break
		}
		if t.Name == nicSvc {
			// the EndpointSlice of the controller's own Service: t.EV ready endpoints
			t.Reports = false // updateNumberOfIngressControllerReplicas only logs errors
			if t.Act == "set" {
				w.ev[nicSvc] = t.EV
			} else if t.Act == "delete" {
				w.ev[nicSvc] = 0
			}
			if n := w.ev[nicSvc]; n != 0 && n != w.replicas {
				w.replicas = n
				for _, name := range ctlNames {
					if _, ok := w.known[name]; ok && ctlPool[name].scaled {
						t.Found = true
						r := w.res(name)
						t.Work = append(t.Work, Op{Op: "add", Res: &r})
					}
				}
			}
			break
		}
		switch t.Act {
		case "set":
			w.ev[t.Name] = t.EV
		case "delete":
			w.ev[t.Name] = 0
		}
		if w.ev[t.Name] != 0 {
			for _, n := range ctlNames {
				p := ctlPool[n]
				if _, ok := w.known[n]; !ok {
					continue
				}
				for _, s := range p.svcs {
					if s == t.Name && !(p.kind == "merge" && w.known[n]%10 == 0) {
						t.Found = true
						t.Work = append(t.Work, Op{Op: "endp", Kind: p.kind, Rs: []Res{w.res(n)}})
					}
				}
			}
		}
	case "configmap":
		switch t.Act {
		case "set":
			w.cm = t.MV
		case "delete":
			w.cm = 0
		}
		w.held = w.cm
	case "stale":
		// a task of a namespace that is not watched (any more): sync ignores it but still does its bookkeeping
	case "mgmtconfigmap":
		if t.Act == "set" {
			w.mgv = t.MV
		}
		w.mgmtHeld = true
	case "secret":
		if t.Act == "set" {
			w.sec[t.Name] = t.SV
			w.secGone[t.Name] = false
		} else if t.Act == "delete" {
			w.secGone[t.Name] = true
		}
		if !w.secGone[t.Name] && w.roleActive(t.Name) && w.sec[t.Name] != 0 {
			t.Work = append(t.Work, w.secretWrites(t.Name)...)
			switch t.Name {
			case "default", "wildcard":
				if !w.dyns {
					t.Work = append(t.Work, Op{Op: "reload"})
				}
			case "license", "clientauth":
				t.Work = append(t.Work, Op{Op: "reload"})
			case "trustedca":
				// lbc.updateAllConfigs(); performNGINXReload()
				t.Work = append(t.Work, w.allPre()...)
				t.Work = append(t.Work, Op{Op: "updateconfig", MV: w.mainVer(), Rs: w.all()})
				w.mainOnDisk = true
				t.Work = append(t.Work, Op{Op: "reload"})
			}
		}
	}
	t.MVNow = w.mainVer()
	t.All = w.all()
	t.AllRep = len(t.All) > 0 || w.held != 0
	t.AllPre = w.allPre()
	// bookkeeping of the start-up phase: the sync that finds the queue empty writes the main configuration
	if !w.ready && t.QLen == 0 {
		w.ready = true
		w.mainOnDisk = true
	}
	// (a ConfigMap task outside start-up and outside a batch, and a batch ending with updateAllConfigs, rewrite
	// the main configuration too: it is on disk already then)
}

// ---- cluster objects

func svcObj(name string) *api_v1.Service {
	return &api_v1.Service{
		ObjectMeta: meta_v1.ObjectMeta{Name: name, Namespace: nsOfSvc(name)},
		Spec:       api_v1.ServiceSpec{Ports: []api_v1.ServicePort{{Name: "p", Port: 80, TargetPort: intstr.FromInt(8080), Protocol: api_v1.ProtocolTCP}}},
	}
}

func sliceObj(svc string, ev int) *discovery_v1.EndpointSlice {
	ready, port, pname := true, int32(8080), "p"
	return &discovery_v1.EndpointSlice{
		ObjectMeta:  meta_v1.ObjectMeta{Name: svc + "-slice", Namespace: nsOfSvc(svc), Labels: map[string]string{"kubernetes.io/service-name": svc}},
		AddressType: discovery_v1.AddressTypeIPv4,
		Ports:       []discovery_v1.EndpointPort{{Name: &pname, Port: &port}},
		Endpoints:   []discovery_v1.Endpoint{{Addresses: []string{fmt.Sprintf("10.0.%d.1", ev)}, Conditions: discovery_v1.EndpointConditions{Ready: &ready}}},
	}
}

func ctlIngress(name string, sv int) *networking.Ingress {
	if name == "m" {
		return ingress("m", "m.example.com", sv, "master", nil, nil)
	}
	if name == "mm" {
		ing := ingress("mm", "m.example.com", sv, "minion", []string{"/mm"}, []string{"mm-svc"})
		pt := networking.PathTypePrefix
		ing.Spec.Rules[0].HTTP.Paths[0].PathType = &pt
		return ing
	}
	ing := ingress(name, name+".example.com", sv, "", []string{"/"}, []string{ctlPool[name].svcs[0]})
	ing.Namespace = nsOfRes(name)
	pt := networking.PathTypePrefix
	ing.Spec.Rules[0].HTTP.Paths[0].PathType = &pt
	if ctlPool[name].scaled {
		ing.Annotations["nginx.org/limit-req-rate"] = "12r/s"
		ing.Annotations["nginx.org/limit-req-key"] = "${binary_remote_addr}"
		ing.Annotations["nginx.org/limit-req-zone-size"] = "10m"
		ing.Annotations["nginx.org/limit-req-scale"] = "true"
	}
	return ing
}

// nicSlice is the EndpointSlice of the controller's own Service with n ready endpoints.
func nicSlice(n int) *discovery_v1.EndpointSlice {
	ready, port, pname := true, int32(8080), "p"
	sl := &discovery_v1.EndpointSlice{
		ObjectMeta:  meta_v1.ObjectMeta{Name: nicSvc + "-slice", Namespace: nicNS, Labels: map[string]string{"kubernetes.io/service-name": nicSvc}},
		AddressType: discovery_v1.AddressTypeIPv4,
		Ports:       []discovery_v1.EndpointPort{{Name: &pname, Port: &port}},
	}
	for i := 0; i < n; i++ {
		sl.Endpoints = append(sl.Endpoints, discovery_v1.Endpoint{Addresses: []string{fmt.Sprintf("10.9.0.%d", i+1)}, Conditions: discovery_v1.EndpointConditions{Ready: &ready}})
	}
	return sl
}

func secretObj(role string, v int) *api_v1.Secret {
	r := secretRoles[role]
	switch role {
	case "license":
		return &api_v1.Secret{ObjectMeta: meta_v1.ObjectMeta{Name: r.name, Namespace: nicNS}, Type: "nginx.com/license",
			Data: map[string][]byte{"license.jwt": []byte(fmt.Sprintf("verif-jwt-%d", v))}}
	case "trustedca":
		crt, _ := tlsPair(100 + v)
		return &api_v1.Secret{ObjectMeta: meta_v1.ObjectMeta{Name: r.name, Namespace: nicNS}, Type: "nginx.org/ca",
			Data: map[string][]byte{"ca.crt": crt, "ca.crl": []byte(fmt.Sprintf("verif-crl-%d", v))}}
	}
	off := map[string]int{"default": 200, "wildcard": 300, "clientauth": 400}[role]
	return tlsSecret(nicNS, r.name, off+v)
}

func mgmtCM(level, v int) *api_v1.ConfigMap {
	d := map[string]string{"license-token-secret-name": secretRoles["license"].name, "usage-report-interval": fmt.Sprintf("%dh", 1+v)}
	if level >= 2 {
		d["ssl-certificate-secret-name"] = secretRoles["clientauth"].name
	}
	if level >= 3 {
		d["ssl-trusted-certificate-secret-name"] = secretRoles["trustedca"].name
	}
	return &api_v1.ConfigMap{ObjectMeta: meta_v1.ObjectMeta{Name: "nginx-config-mgmt", Namespace: nicNS}, Data: d}
}

func ctlVS(name string, sv int) *conf_v1.VirtualServer {
	p := ctlPool[name]
	vs := &conf_v1.VirtualServer{
		ObjectMeta: meta_v1.ObjectMeta{Name: name, Namespace: nsOfRes(name), Generation: int64(sv + 1)},
		Spec:       conf_v1.VirtualServerSpec{IngressClass: "nginx", Host: name + ".vs.example.com"},
	}
	for i, s := range p.svcs {
		vs.Spec.Upstreams = append(vs.Spec.Upstreams, conf_v1.Upstream{Name: fmt.Sprintf("u%d", i), Service: s, Port: 80,
			ProxyConnectTimeout: fmt.Sprintf("%ds", 10+sv)})
	}
	if p.split {
		vs.Spec.Routes = []conf_v1.Route{{Path: "/", Splits: []conf_v1.Split{
			{Weight: 90, Action: &conf_v1.Action{Pass: "u0"}}, {Weight: 10, Action: &conf_v1.Action{Pass: "u1"}}}}}
	} else {
		vs.Spec.Routes = []conf_v1.Route{{Path: "/", Action: &conf_v1.Action{Pass: "u0"}}}
	}
	return vs
}

func ctlTS(name string, sv int) *conf_v1.TransportServer {
	return &conf_v1.TransportServer{
		ObjectMeta: meta_v1.ObjectMeta{Name: name, Namespace: ns, Generation: int64(sv + 1)},
		Spec: conf_v1.TransportServerSpec{
			IngressClass:       "nginx",
			Listener:           conf_v1.TransportServerListener{Name: "tcp-" + name, Protocol: "TCP"},
			Upstreams:          []conf_v1.TransportServerUpstream{{Name: "u0", Service: ctlPool[name].svcs[0], Port: 80}},
			UpstreamParameters: &conf_v1.UpstreamParameters{ConnectTimeout: fmt.Sprintf("%ds", 10+sv)},
			Action:             &conf_v1.TransportServerAction{Pass: "u0"},
		},
	}
}

func cmObj(mv int) *api_v1.ConfigMap {
	return &api_v1.ConfigMap{
		ObjectMeta: meta_v1.ObjectMeta{Name: "nginx-config", Namespace: "nginx-ingress"},
		Data:       map[string]string{"worker-connections": fmt.Sprintf("%d", 2000+mv)},
	}
}

// mutate stores what the informer would have stored before the task is dequeued.
func mutate(v *k8s.VerifC12, t Task) (string, error) {
	// objects of a namespace whose informers are gone cannot be delivered any more: only the stale task remains
	switch t.Kind {
	case "ingress", "virtualserver", "transportserver":
		if rns := nsOfRes(t.Name); rns != ns {
			if !v.Watched(rns) {
				return rns + "/" + t.Name, nil
			}
			key := rns + "/" + t.Name
			var err error
			switch {
			case t.Kind == "ingress" && t.Act == "set":
				err = v.Put("ingress", ctlIngress(t.Name, t.SV))
			case t.Kind == "ingress" && t.Act == "delete":
				err = v.Remove("ingress", ctlIngress(t.Name, 0))
			case t.Kind == "virtualserver" && t.Act == "set":
				err = v.Put("virtualserver", ctlVS(t.Name, t.SV))
			case t.Kind == "virtualserver" && t.Act == "delete":
				err = v.Remove("virtualserver", ctlVS(t.Name, 0))
			}
			return key, err
		}
	case "endpointslice":
		if sns := nsOfSvc(t.Name); sns != ns && t.Name != nicSvc {
			key := sns + "/" + t.Name + "-slice"
			if !v.Watched(sns) {
				return key, nil
			}
			if t.Act == "set" {
				return key, v.Put("endpointslice", sliceObj(t.Name, t.EV))
			} else if t.Act == "delete" {
				return key, v.Remove("endpointslice", sliceObj(t.Name, 0))
			}
			return key, nil
		}
	case "nsloss":
		return teamC, v.SetNamespace(teamC, false)
	}
	switch t.Kind {
	case "ingress":
		if t.Act == "set" {
			return keyOf(t.Name), v.Put("ingress", ctlIngress(t.Name, t.SV))
		} else if t.Act == "delete" {
			return keyOf(t.Name), v.Remove("ingress", ctlIngress(t.Name, 0))
		}
		return keyOf(t.Name), nil
	case "virtualserver":
		if t.Act == "set" {
			return keyOf(t.Name), v.Put("virtualserver", ctlVS(t.Name, t.SV))
		} else if t.Act == "delete" {
			return keyOf(t.Name), v.Remove("virtualserver", ctlVS(t.Name, 0))
		}
		return keyOf(t.Name), nil
	case "transportserver":
		if t.Act == "set" {
			return keyOf(t.Name), v.Put("transportserver", ctlTS(t.Name, t.SV))
		} else if t.Act == "delete" {
			return keyOf(t.Name), v.Remove("transportserver", ctlTS(t.Name, 0))
		}
		return keyOf(t.Name), nil
	case "stale":
		return fmt.Sprintf("team-b/stale-%d", t.SV), nil
	case "secret":
		key := nicNS + "/" + secretRoles[t.Name].name
		if t.Act == "set" {
			o := secretObj(t.Name, t.SV)
			if err := v.PutClientSecret(o); err != nil {
				return key, err
			}
			return key, v.Put("secret", o)
		} else if t.Act == "delete" {
			return key, v.Remove("secret", secretObj(t.Name, 1)) // stays in the API server: the controller retains special Secrets
		}
		return key, nil
	case "mgmtconfigmap":
		if t.Act == "set" {
			return k8s.VerifC12MGMTConfigMapKey, v.Put("mgmtconfigmap", mgmtCM(t.EV, t.MV))
		}
		return k8s.VerifC12MGMTConfigMapKey, nil
	case "endpointslice":
		if t.Name == nicSvc {
			key := nicNS + "/" + nicSvc + "-slice"
			if t.Act == "set" {
				return key, v.Put("endpointslice", nicSlice(t.EV))
			} else if t.Act == "delete" {
				return key, v.Remove("endpointslice", nicSlice(0))
			}
			return key, nil
		}
		key := keyOf(t.Name + "-slice")
		if t.Act == "set" {
			return key, v.Put("endpointslice", sliceObj(t.Name, t.EV))
		} else if t.Act == "delete" {
			return key, v.Remove("endpointslice", sliceObj(t.Name, 0))
		}
		return key, nil
	case "configmap":
		if t.Act == "set" {
			return k8s.VerifC12ConfigMapKey, v.Put("configmap", cmObj(t.MV))
		} else if t.Act == "delete" {
			return k8s.VerifC12ConfigMapKey, v.Remove("configmap", cmObj(0))
		}
		return k8s.VerifC12ConfigMapKey, nil
	}
	return "", fmt.Errorf("unknown task kind %q", t.Kind)
}

func isErrorEvent(e string) bool {
	return len(e) > 8 && e[:8] == "Warning " && (contains(e, "WithError"))
}

func contains(s, sub string) bool {
	for i := 0; i+len(sub) <= len(s); i++ {
		if s[i:i+len(sub)] == sub {
			return true
		}
	}
	return false
}

func eventHeads(evs []string) []string {
	out := []string{}
	for _, e := range evs {
		// "<type> <reason> <message>": keep type and reason only (no prose)
		n, sp := 0, 0
		for n < len(e) {
			if e[n] == ' ' {
				sp++
				if sp == 2 {
					break
				}
			}
			n++
		}
		out = append(out, e[:n])
	}
	sort.Strings(out)
	return out
}

func runCtl(c *Case) {
	m := newRecMgr(c.RFail, c.AFail)
	cnf, err := configs.VerifC12NewConfiguratorSSL(repoDir(), m, c.Plus, c.DynW, c.DynS)
	if err != nil {
		c.Obs = map[string]string{"error": err.Error()}
		return
	}
	w0 := newWorldCase(c)
	if c.Plus && c.MGMT >= 1 {
		// as cmd/nginx-ingress does: the MGMT ConfigMap has been read before the controller is built
		cnf.MgmtCfgParams.Secrets.License = secretRoles["license"].name
		if c.MGMT >= 2 {
			cnf.MgmtCfgParams.Secrets.ClientAuth = secretRoles["clientauth"].name
		}
		if c.MGMT >= 3 {
			cnf.MgmtCfgParams.Secrets.TrustedCert = secretRoles["trustedca"].name
		}
	}
	v, err := k8s.VerifC12NewOpts(cnf, k8s.VerifC12Opts{Plus: c.Plus, DynWeights: c.DynW,
		Listeners:           []conf_v1.Listener{{Name: "tcp-t", Port: 9000, Protocol: "TCP"}},
		DefaultServerSecret: nicNS + "/" + secretRoles["default"].name, WildcardTLSSecret: nicNS + "/" + secretRoles["wildcard"].name,
		ExternalServiceName: nicSvc, Namespaces: []string{ns, nicNS, teamC}, WatchNamespaceLabel: "verif/watch=true"})
	if err != nil {
		c.Obs = map[string]string{"error": err.Error()}
		return
	}
	for _, n := range []string{ns, nicNS, teamC} {
		if err := v.SetNamespace(n, true); err != nil {
			c.Obs = map[string]string{"error": err.Error()}
			return
		}
	}
	for _, role := range secretRoleNames {
		if w0.roleActive(role) {
			o := secretObj(role, 1)
			if err := v.PutClientSecret(o); err == nil {
				err = v.Put("secret", o)
			}
			if err != nil {
				c.Obs = map[string]string{"error": err.Error()}
				return
			}
		}
	}
	for _, s := range ctlSvcs {
		if err := v.Put("service", svcObj(s)); err != nil {
			c.Obs = map[string]string{"error": err.Error()}
			return
		}
	}
	obs := []SyncObs{}
	for _, t := range c.Tasks {
		o := func() (o SyncObs) {
			defer func() {
				if p := recover(); p != nil {
					o.Panic = fmt.Sprint(p)
				}
				o.Log = m.take()
				o.Enabled = cnf.VerifC12ReloadsEnabled()
				o.Ready, o.Batch, o.EBR, o.UAB = v.Flags()
			}()
			key, err := mutate(v, t)
			if err != nil {
				o.Error = err.Error()
				return o
			}
			kind := t.Kind
			if kind == "stale" {
				kind = t.Name // the kind of the stale task
			}
			if kind == "nsloss" {
				kind = "namespace"
			}
			evs, err := v.Sync(kind, key, t.QLen)
			if err != nil {
				o.Error = err.Error()
			}
			o.Events = eventHeads(evs)
			for _, e := range evs {
				if isErrorEvent(e) {
					o.Reported = true
				}
			}
			return o
		}()
		obs = append(obs, o)
	}
	c.Obs = obs
}

// ---- generator

func genTask(r *vh.Rng, w *world) Task {
	var t Task
	switch x := r.Intn(100); {
	case x < 10:
		// a special Secret is rotated / re-delivered / deleted
		var roles []string
		for _, role := range secretRoleNames {
			if w.roleActive(role) {
				roles = append(roles, role)
			}
		}
		t = Task{Kind: "secret", Name: vh.Pick(r, roles)}
		switch y := r.Intn(10); {
		case y < 7:
			t.Act, t.SV = "set", 1+r.Intn(3)
		case y < 9:
			t.Act = "touch"
		default:
			t.Act = "delete"
		}
	case x < 16:
		// the controller's own Service scales
		t = Task{Kind: "endpointslice", Name: nicSvc, Act: "set", EV: 1 + r.Intn(3)}
		if r.Chance(1, 6) {
			t.Act = "touch"
		}
	case x == 25 && !w.nsGone:
		// the namespace team-c loses its label
		t = Task{Kind: "nsloss", Name: teamC, Act: "touch"}
	case x >= 19 && x < 25:
		// left over from a namespace that is no longer watched
		t = Task{Kind: "stale", Name: vh.Pick(r, []string{"ingress", "secret", "endpointslice", "virtualserver", "transportserver", "service"}), Act: "touch", SV: r.Intn(4)}
	case x < 19 && w.plus:
		t = Task{Kind: "mgmtconfigmap", Name: "nginx-config-mgmt", Act: "set", MV: r.Intn(3), EV: w.mgmt}
		if r.Chance(1, 3) {
			t.Act = "touch"
		}
	case x < 40:
		n := vh.Pick(r, append(append([]string{}, ctlNames...), "mm", "mm"))
		t = Task{Kind: "ingress", Name: n}
		if p, ok := ctlPool[n]; ok {
			t.Kind = p.task
		}
		switch y := r.Intn(10); {
		case y < 5:
			t.Act, t.SV = "set", r.Intn(3)
			if sv, ok := w.obj[n]; ok && r.Chance(1, 3) {
				t.SV = sv // an update that changes nothing
			}
		case y < 7:
			t.Act = "delete"
		default:
			t.Act = "touch" // resync / duplicate event
		}
	case x < 85:
		t = Task{Kind: "endpointslice", Name: vh.Pick(r, ctlSvcs)}
		switch y := r.Intn(10); {
		case y < 7:
			t.Act, t.EV = "set", 1+r.Intn(3)
		case y < 8:
			t.Act = "delete"
		default:
			t.Act = "touch"
		}
	default:
		t = Task{Kind: "configmap", Name: "nginx-config"}
		if r.Chance(3, 4) {
			t.Act, t.MV = "set", 1+r.Intn(3)
		} else if r.Chance(1, 2) && w.mgmt < 3 {
			t.Act = "delete"
		} else {
			t.Act = "touch"
		}
	}
	return t
}

func genCtl(r *vh.Rng, id int) Case {
	c := Case{Fam: "ctl", ID: id, Plus: r.Chance(1, 2), DynW: r.Chance(1, 4), DynS: r.Chance(1, 2)}
	switch id % 3 {
	case 0:
		c.Class = "nofault"
		c.RFail, c.AFail = []int{}, []int{}
	case 1:
		c.Class = "reloadfault"
		c.RFail, c.AFail = pickFails(r, 30, 1, 4), []int{}
	default:
		c.Class = "bothfault"
		c.RFail, c.AFail = pickFails(r, 30, 1, 4), pickFails(r, 40, 1, 4)
		c.Plus = true
	}
	if c.Plus {
		c.MGMT = 1 + r.Intn(3)
	}
	w := newWorldCase(&c)
	var first []Task
	if c.Plus {
		// the MGMT ConfigMap is the first thing the informers deliver
		first = []Task{{Kind: "mgmtconfigmap", Name: "nginx-config-mgmt", Act: "set", MV: 0, EV: c.MGMT}}
		if c.MGMT >= 3 {
			// the handler of the trusted-CA Secret runs updateAllConfigs() and then Reload(): two reloads whose failures are
			// reported differently (resources / ConfigMap+GlobalConfiguration vs. the pod).  The model has one "has something
			// to report on" flag per task, so these histories keep the NGINX ConfigMap: both are then always reportable.
			first = append(first, Task{Kind: "configmap", Name: "nginx-config", Act: "set", MV: 1 + r.Intn(3)})
		}
	}
	if id%5 == 4 {
		// flags carried across batches: start-up, a few events, a batch that contains a ConfigMap (and other
		// tasks), then a batch made only of EndpointSlices that no configured resource uses, then more events
		c.Class += "-twobatch"
		c.DynW = false
		w.dynw = false
		var ts []Task
		push := func(t Task, q int) {
			t.QLen = q
			w.predict(&t)
			ts = append(ts, t)
		}
		for i, t := range first {
			push(t, len(first)-i)
		}
		push(Task{Kind: "ingress", Name: "a", Act: "set", SV: r.Intn(3)}, 0)
		for i := r.Intn(3); i > 0; i-- {
			push(genTask(r, w), 0)
		}
		k := 2 + r.Intn(3)
		cmAt := r.Intn(k + 1)
		for q := k; q >= 0; q-- {
			if q == cmAt {
				push(Task{Kind: "configmap", Name: "nginx-config", Act: "set", MV: 1 + r.Intn(3)}, q)
			} else {
				push(genTask(r, w), q)
			}
		}
		for i := r.Intn(2); i > 0; i-- {
			push(genTask(r, w), 0)
		}
		// services of resources the controller does not know now (and z-svc, which nothing uses)
		var unused []string
		for _, sname := range ctlSvcs {
			used := false
			for n := range w.known {
				for _, x := range ctlPool[n].svcs {
					if x == sname {
						used = true
					}
				}
			}
			if !used {
				unused = append(unused, sname)
			}
		}
		k = 2 + r.Intn(3)
		for q := k; q >= 0; q-- {
			t := Task{Kind: "endpointslice", Name: vh.Pick(r, unused), Act: "set", EV: 1 + r.Intn(3)}
			if r.Chance(1, 5) {
				t.Act = "touch"
			}
			push(t, q)
		}
		for i := r.Intn(4); i > 0; i-- {
			push(genTask(r, w), r.Intn(2))
		}
		c.Tasks = ts
		return c
	}
	n := 3 + r.Intn(28)
	// queue lengths: a start-up phase, then bursts (batches) and single events
	startup := r.Intn(5)
	left := 0
	for i := 0; i < n; i++ {
		t := genTask(r, w)
		if i < len(first) {
			t = first[i]
		}
		switch {
		case i < startup:
			t.QLen = startup - i
		case i == startup:
			t.QLen = 0
		case left > 0:
			left--
			t.QLen = left
			if left > 0 && r.Chance(1, 6) {
				t.QLen = left + 1 // new items arrive while the batch runs
				left++
			}
		default:
			if r.Chance(1, 3) {
				left = 2 + r.Intn(4)
				t.QLen = left
			} else {
				t.QLen = r.Intn(2) // 0, or 1 pending (not a batch)
			}
		}
		w.predict(&t)
		c.Tasks = append(c.Tasks, t)
	}
	return c
}

func mkTasks(c *Case, ts []Task) []Task {
	w := newWorldCase(c)
	for i := range ts {
		w.predict(&ts[i])
	}
	return ts
}

func corpusCtl() []Case {
	var out []Case
	addc := func(c Case, ts []Task) {
		c.Fam = "ctl"
		c.Tasks = mkTasks(&c, ts)
		out = append(out, c)
	}
	add := func(class string, plus, dynw bool, rfail, afail []int, ts []Task) {
		addc(Case{Class: class, Plus: plus, DynW: dynw, RFail: rfail, AFail: afail}, ts)
	}
	ing := func(n, act string, sv, q int) Task { return Task{Kind: "ingress", Name: n, Act: act, SV: sv, QLen: q} }
	eps := func(s, act string, ev, q int) Task {
		return Task{Kind: "endpointslice", Name: s, Act: act, EV: ev, QLen: q}
	}
	// F16a: an idle batch (two events for an unchanged Ingress) ends with a reload
	add("corpus-idle-batch", false, false, []int{}, []int{},
		[]Task{ing("a", "set", 0, 0), ing("a", "touch", 0, 2), ing("a", "touch", 0, 1), ing("a", "touch", 0, 0)})
	// an idle batch of endpointslice events only: no reload
	add("corpus-idle-batch-endp", false, false, []int{}, []int{},
		[]Task{ing("a", "set", 0, 0), eps("z-svc", "set", 1, 2), eps("z-svc", "set", 2, 0)})
	// a batch that changes files: one reload at the end
	add("corpus-batch", false, false, []int{}, []int{},
		[]Task{ing("a", "set", 0, 0), ing("a", "set", 1, 3), eps("a-svc", "set", 1, 2), ing("b", "set", 0, 1), ing("a", "delete", 0, 0)})
	// F16b: the reload that ends a batch fails (call index 1; index 0 is the start-up reload)
	add("corpus-batch-reloadfail", false, false, []int{1}, []int{},
		[]Task{ing("a", "set", 0, 0), ing("a", "set", 1, 2), ing("b", "set", 0, 0)})
	// a failed reload outside a batch is reported on the resource
	add("corpus-single-reloadfail", false, false, []int{1}, []int{},
		[]Task{ing("a", "set", 0, 0), ing("a", "set", 1, 0)})
	// F16d: a failed reload while endpoints are updated (OSS) is only logged
	add("corpus-endp-reloadfail", false, false, []int{1}, []int{},
		[]Task{ing("a", "set", 0, 0), eps("a-svc", "set", 1, 0)})
	// F16c: a ConfigMap in one batch makes every later batch regenerate everything
	add("corpus-uab-sticky", false, false, []int{}, []int{},
		[]Task{ing("a", "set", 0, 0), {Kind: "configmap", Name: "nginx-config", Act: "set", MV: 1, QLen: 2}, ing("a", "touch", 0, 0),
			ing("a", "touch", 0, 2), ing("a", "touch", 0, 0)})
	// state carried from one batch to the next: a batch with a ConfigMap, then a batch made only of
	// EndpointSlices no resource uses (nothing NGINX reads can change) must not reload
	cm := func(mv, q int) Task {
		return Task{Kind: "configmap", Name: "nginx-config", Act: "set", MV: mv, QLen: q}
	}
	add("corpus-cm-batch-then-idle-endp", false, false, []int{}, []int{},
		[]Task{ing("a", "set", 0, 0), cm(1, 2), ing("a", "set", 1, 1), eps("a-svc", "set", 1, 0),
			eps("z-svc", "set", 1, 2), eps("z-svc", "set", 2, 1), eps("z-svc", "delete", 0, 0)})
	add("corpus-cm-batch-then-idle-endp", true, false, []int{}, []int{},
		[]Task{ing("a", "set", 0, 0), eps("z-svc", "set", 1, 2), cm(2, 1), eps("b-svc", "set", 1, 0),
			eps("b-svc", "set", 2, 3), eps("z-svc", "set", 2, 2), eps("v-svc", "set", 2, 1), eps("t-svc", "touch", 0, 0)})
	// special Secrets: every role, -ssl-dynamic-reload on and off, outside start-up and outside a batch
	sec := func(role, act string, v, q int) Task {
		return Task{Kind: "secret", Name: role, Act: act, SV: v, QLen: q}
	}
	mg := func(level, v, q int) Task {
		return Task{Kind: "mgmtconfigmap", Name: "nginx-config-mgmt", Act: "set", MV: v, EV: level, QLen: q}
	}
	for _, dyn := range []bool{true, false} {
		addc(Case{Class: "corpus-special-secrets-plus", Plus: true, DynS: dyn, MGMT: 3, RFail: []int{}, AFail: []int{}},
			[]Task{mg(3, 0, 1), ing("a", "set", 0, 0), sec("clientauth", "set", 2, 0), sec("default", "set", 2, 0), sec("wildcard", "set", 2, 0),
				sec("license", "set", 2, 0), sec("trustedca", "set", 2, 0), sec("clientauth", "touch", 0, 0), mg(3, 1, 0),
				sec("clientauth", "set", 3, 2), sec("license", "set", 3, 1), eps("z-svc", "set", 1, 0)})
		addc(Case{Class: "corpus-special-secrets-oss", Plus: false, DynS: dyn, RFail: []int{}, AFail: []int{}},
			[]Task{sec("default", "set", 2, 1), ing("a", "set", 0, 0), sec("default", "set", 3, 0), sec("wildcard", "set", 2, 0), sec("default", "delete", 0, 0)})
	}
	// the controller's own Service scales while an Ingress has a replica-scaled rate limit: alone, and inside a batch
	// whose other tasks are EndpointSlices nothing uses
	nic := func(n, q int) Task { return Task{Kind: "endpointslice", Name: nicSvc, Act: "set", EV: n, QLen: q} }
	add("corpus-replicas", false, false, []int{}, []int{},
		[]Task{ing("s", "set", 0, 0), nic(2, 0), nic(2, 0), eps("z-svc", "set", 1, 2), nic(3, 1), eps("z-svc", "set", 2, 0),
			eps("z-svc", "set", 1, 3), eps("z-svc", "set", 3, 2), nic(1, 1), eps("z-svc", "set", 2, 0)})
	add("corpus-replicas", true, false, []int{2}, []int{},
		[]Task{ing("s", "set", 0, 0), ing("a", "set", 0, 0), nic(2, 0), nic(3, 0)})
	// an EndpointSlice event whose reload fails, for every kind of resource using the Service (OSS: the reload itself;
	// Plus: the API push fails, then the fall-back reload): the failure must reach the resource
	vsT := func(n string, q int) Task { return Task{Kind: "virtualserver", Name: n, Act: "set", QLen: q} }
	tsT := func(n string, q int) Task { return Task{Kind: "transportserver", Name: n, Act: "set", QLen: q} }
	for _, plus := range []bool{false, true} {
		af := []int{}
		if plus {
			af = []int{0}
		}
		add("corpus-endp-reloadfail-ing", plus, false, []int{1}, af, []Task{ing("a", "set", 0, 0), eps("a-svc", "set", 1, 0), eps("a-svc", "set", 2, 0)})
		add("corpus-endp-reloadfail-merge", plus, false, []int{1}, af, []Task{ing("m", "set", 0, 1), ing("mm", "set", 0, 0), eps("mm-svc", "set", 1, 0), eps("mm-svc", "set", 2, 0)})
		add("corpus-endp-reloadfail-vs", plus, false, []int{1}, af, []Task{vsT("v", 0), eps("v-svc", "set", 1, 0), eps("v-svc", "set", 2, 0)})
		add("corpus-endp-reloadfail-ts", plus, false, []int{1}, af, []Task{tsT("t", 0), eps("t-svc", "set", 1, 0), eps("t-svc", "set", 2, 0)})
	}
	// a namespace loses its label (real syncNamespace / cleanupUnwatchedNamespacedResources): first, in the middle and last
	// of the start-up queue, first / middle / last of a batch, and alone; its later tasks are stale
	c1 := func(act string, sv, q int) Task { return Task{Kind: "ingress", Name: "c1", Act: act, SV: sv, QLen: q} }
	c2 := func(act string, sv, q int) Task {
		return Task{Kind: "virtualserver", Name: "c2", Act: act, SV: sv, QLen: q}
	}
	nsl := func(q int) Task { return Task{Kind: "nsloss", Name: teamC, Act: "touch", QLen: q} }
	for _, plus := range []bool{false, true} {
		add("corpus-nsloss-startup-first", plus, false, []int{}, []int{}, []Task{nsl(3), c1("set", 0, 2), ing("a", "set", 0, 1), ing("b", "set", 0, 0), ing("a", "set", 1, 0)})
		add("corpus-nsloss-startup-middle", plus, false, []int{}, []int{}, []Task{c1("set", 0, 3), c2("set", 0, 2), nsl(1), ing("a", "set", 0, 0), c1("set", 1, 0), eps("c1-svc", "set", 1, 0)})
		add("corpus-nsloss-startup-last", plus, false, []int{}, []int{}, []Task{c1("set", 0, 2), ing("a", "set", 0, 1), nsl(0), ing("a", "set", 1, 0)})
		add("corpus-nsloss-batch", plus, false, []int{}, []int{}, []Task{c1("set", 0, 1), c2("set", 0, 0),
			nsl(2), ing("a", "set", 0, 1), c1("set", 1, 0), ing("b", "set", 0, 0)})
		add("corpus-nsloss-batch", plus, false, []int{}, []int{}, []Task{c1("set", 0, 1), c2("set", 0, 0),
			ing("a", "set", 0, 2), nsl(1), ing("b", "set", 0, 0)})
		add("corpus-nsloss-batch", plus, false, []int{2}, []int{}, []Task{c1("set", 0, 1), c2("set", 0, 0),
			ing("a", "set", 0, 2), ing("b", "set", 0, 1), nsl(0), nsl(0), c2("set", 1, 0)})
		add("corpus-nsloss-alone", plus, false, []int{2}, []int{}, []Task{c1("set", 0, 1), c2("set", 0, 0), nsl(0), c1("delete", 0, 0)})
	}
	// tasks of a namespace that is not watched any more, at every position: last of the start-up queue, first / middle /
	// last of a batch that changed files, alone
	stale := func(kind string, q int) Task { return Task{Kind: "stale", Name: kind, Act: "touch", QLen: q} }
	add("corpus-stale", false, false, []int{}, []int{},
		[]Task{ing("a", "set", 0, 1), stale("secret", 0), stale("ingress", 0),
			stale("endpointslice", 3), ing("a", "set", 1, 2), stale("virtualserver", 1), ing("b", "set", 0, 0),
			ing("a", "delete", 0, 2), eps("b-svc", "set", 1, 1), stale("secret", 0),
			eps("z-svc", "set", 1, 2), stale("endpointslice", 1), stale("endpointslice", 0), ing("b", "set", 1, 0)})
	add("corpus-stale", true, false, []int{}, []int{},
		[]Task{stale("endpointslice", 1), stale("endpointslice", 0), ing("a", "set", 0, 0), eps("a-svc", "set", 1, 2), stale("service", 0)})
	// F15 at the controller: a VirtualServer with weight updates during start-up and in a batch
	add("corpus-weights-batch", true, true, []int{}, []int{},
		[]Task{{Kind: "virtualserver", Name: "w", Act: "set", SV: 0, QLen: 1}, ing("a", "set", 0, 0),
			{Kind: "virtualserver", Name: "w", Act: "set", SV: 1, QLen: 2}, ing("a", "set", 1, 1), ing("b", "set", 0, 0)})
	// Plus: endpoints through the API, API failure falls back to reload, in and out of a batch
	add("corpus-plus-endp", true, false, []int{}, []int{1},
		[]Task{ing("a", "set", 0, 0), eps("a-svc", "set", 1, 0), eps("a-svc", "set", 2, 0), eps("a-svc", "set", 3, 2), eps("a-svc", "set", 1, 0)})
	return out
}
