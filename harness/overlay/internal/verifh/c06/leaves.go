//go:build verif

package main

// Reflection over the resource types: every string-typed leaf (struct fields, pointer targets,
// slice elements, map keys and map values) below a root value, addressed by a path, so that a deep
// copy of the object can be mutated at exactly that leaf.  The same walk over reflect.Type (no
// value) yields the type-level inventory ("future fields are included": a string field that no
// fixture populates is reported).

import (
	"fmt"
	"reflect"
	"regexp"
	"sort"
	"strings"
)

// Leaf is one string-typed position inside an object.
type Leaf struct {
	Path  string // instance path: spec.routes[2].action.proxy.rewritePath  /  spec.upstreams[0].subselector{app}
	Field string // type-level path: indices erased, map keys erased
	Value string
	IsKey bool // a map key (the value is kept, the key is replaced)
}

func jsonName(f reflect.StructField) (string, bool) {
	tag := f.Tag.Get("json")
	name := strings.Split(tag, ",")[0]
	inline := strings.Contains(tag, ",inline")
	if name == "-" {
		return "", false
	}
	if name == "" && !inline {
		name = f.Name
	}
	return name, inline
}

func join(p, n string) string {
	if p == "" {
		return n
	}
	if n == "" {
		return p
	}
	return p + "." + n
}

// walkValue visits every string leaf of v (v must be addressable for set to work).
// visit returns false to stop.
func walkValue(v reflect.Value, path string, visit func(path string, isKey bool, get func() string, set func(string))) {
	walkValueTo(v, path, "", visit)
}

// walkValueTo is walkValue restricted to the subtrees that can contain the leaf [want] ("" = everything)
func walkValueTo(v reflect.Value, path, want string, visit func(path string, isKey bool, get func() string, set func(string))) {
	if want != "" && !strings.HasPrefix(want, path) {
		return
	}
	switch v.Kind() {
	case reflect.String:
		visit(path, false, func() string { return v.String() }, func(s string) { v.SetString(s) })
	case reflect.Ptr, reflect.Interface:
		if !v.IsNil() {
			walkValueTo(v.Elem(), path, want, visit)
		}
	case reflect.Struct:
		t := v.Type()
		for i := 0; i < t.NumField(); i++ {
			f := t.Field(i)
			if f.PkgPath != "" {
				continue
			}
			n, inline := jsonName(f)
			if n == "" && !inline {
				continue
			}
			p := path
			if !inline || n != "" {
				p = join(path, n)
			}
			walkValueTo(v.Field(i), p, want, visit)
		}
	case reflect.Slice, reflect.Array:
		for i := 0; i < v.Len(); i++ {
			walkValueTo(v.Index(i), fmt.Sprintf("%s[%d]", path, i), want, visit)
		}
	case reflect.Map:
		if v.Type().Key().Kind() != reflect.String {
			return
		}
		keys := v.MapKeys()
		sort.Slice(keys, func(i, j int) bool { return keys[i].String() < keys[j].String() })
		for _, k := range keys {
			k := k
			ks := k.String()
			elem := v.MapIndex(k)
			// the key as a leaf
			visit(fmt.Sprintf("%s{%s}", path, ks), true, func() string { return ks }, func(s string) {
				val := reflect.New(v.Type().Elem()).Elem()
				val.Set(v.MapIndex(k))
				v.SetMapIndex(k, reflect.Value{})
				v.SetMapIndex(reflect.ValueOf(s).Convert(v.Type().Key()), val)
			})
			// the value
			if elem.Kind() == reflect.String {
				visit(fmt.Sprintf("%s[%s]", path, ks), false, func() string { return v.MapIndex(k).String() }, func(s string) {
					v.SetMapIndex(k, reflect.ValueOf(s).Convert(v.Type().Elem()))
				})
			} else {
				// non-string map values: copy out, walk, copy back
				tmp := reflect.New(v.Type().Elem()).Elem()
				tmp.Set(elem)
				walkValueTo(tmp, fmt.Sprintf("%s[%s]", path, ks), want, func(p string, isKey bool, get func() string, set func(string)) {
					visit(p, isKey, get, func(s string) { set(s); v.SetMapIndex(k, tmp) })
				})
			}
		}
	}
}

var (
	idxRe = regexp.MustCompile(`\[\d+\]`)
	keyRe = regexp.MustCompile(`\{[^}]*\}`)
	mvRe  = regexp.MustCompile(`\[[^\]\d][^\]]*\]`)
)

// fieldOf erases indices and map keys from an instance path.
func fieldOf(path string) string {
	p := idxRe.ReplaceAllString(path, "[]")
	p = keyRe.ReplaceAllString(p, "{key}")
	p = mvRe.ReplaceAllString(p, "[val]")
	return p
}

// leavesOf lists the string leaves of the value root points to.
func leavesOf(root any, prefix string) []Leaf {
	var out []Leaf
	walkValue(reflect.ValueOf(root).Elem(), prefix, func(p string, isKey bool, get func() string, _ func(string)) {
		out = append(out, Leaf{Path: p, Field: fieldOf(p), Value: get(), IsKey: isKey})
	})
	return out
}

// setLeaf sets the leaf at path inside the value root points to; false if the path does not exist.
func setLeaf(root any, prefix, path, val string) bool {
	done := false
	walkValueTo(reflect.ValueOf(root).Elem(), prefix, path, func(p string, _ bool, _ func() string, set func(string)) {
		if !done && p == path {
			set(val)
			done = true
		}
	})
	return done
}

// typeLeaves lists the type-level string leaves of t (recursion through named types cut at depth
// 12 and at repeated types on the current path, e.g. Action -> ... -> Split -> Action).
func typeLeaves(t reflect.Type, path string, seen map[reflect.Type]int, out *[]string) {
	if seen[t] >= 2 || len(strings.Split(path, ".")) > 14 {
		return
	}
	switch t.Kind() {
	case reflect.String:
		*out = append(*out, path)
	case reflect.Ptr:
		typeLeaves(t.Elem(), path, seen, out)
	case reflect.Struct:
		seen[t]++
		for i := 0; i < t.NumField(); i++ {
			f := t.Field(i)
			if f.PkgPath != "" {
				continue
			}
			n, inline := jsonName(f)
			if n == "" && !inline {
				continue
			}
			p := path
			if !inline || n != "" {
				p = join(path, n)
			}
			typeLeaves(f.Type, p, seen, out)
		}
		seen[t]--
	case reflect.Slice, reflect.Array:
		typeLeaves(t.Elem(), path+"[]", seen, out)
	case reflect.Map:
		if t.Key().Kind() == reflect.String {
			*out = append(*out, path+"{key}")
			typeLeaves(t.Elem(), path+"[val]", seen, out)
		}
	}
}
