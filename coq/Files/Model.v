(* C10 -- executable model of internal/configs/configurator.go (the part that creates and deletes
   files) over internal/nginx/manager.go (LocalManager file operations), including a controller
   restart on a surviving configuration volume.  No proofs in this file.

   Transcribed from:
     configurator.go  keyToFileName / objectMetaToFileName / generateNamespaceNameKey /
                      getFileNameFor{VirtualServer,TransportServer}[FromKey]          (naming)
                      addOrUpdateIngress, addOrUpdateMergeableIngress, addOrUpdateVirtualServer,
                      addOrUpdateTransportServer, DeleteIngress, DeleteVirtualServer,
                      deleteTransportServer, UpdateVirtualServers, UpdateTransportServers,
                      BatchDeleteVirtualServers, BatchDeleteIngresses, AddOrUpdateResources,
                      UpdateConfig, updateTLSPassthroughHostsConfig, generateTLSPassthroughHostsConfig
     transportserver.go generateUnixSocket
     manager.go       getFilenameForConfig / getFilenameForStreamConfig (name + .conf in conf.d /
                      stream-conf.d), CreateConfig = overwrite, DeleteConfig = os.Remove
     main.go          start-up: NewLocalManager, CreateTLSPassthroughHostsConfig(empty), NewConfigurator;
                      nothing lists or removes files of conf.d / stream-conf.d
   The content of a file is abstracted to a stamp (an integer the harness renders into the
   resource: server_name s<stamp>.example.com / upstream ..._s<stamp>). *)
From Coq Require Import List ZArith String Ascii Bool.
From NIC Require Import Base.SMap.
Import ListNotations.
Open Scope string_scope.

(* ---------- naming ---------- *)

(* strings.Replace(s, "/", <c>, -1) *)
Fixpoint replace_slash (c : ascii) (s : string) : string :=
  match s with
  | EmptyString => EmptyString
  | String a r => String (if Ascii.eqb a "/"%char then c else a) (replace_slash c r)
  end.

Definition ns_name_key (ns name : string) : string := ns ++ "/" ++ name.      (* generateNamespaceNameKey *)
Definition ingress_file (ns name : string) : string := ns ++ "-" ++ name.      (* objectMetaToFileName *)
Definition key_to_file (key : string) : string := replace_slash "-"%char key. (* keyToFileName *)
Definition vs_file (ns name : string) : string := "vs_" ++ ns ++ "_" ++ name. (* getFileNameForVirtualServer *)
Definition vs_file_from_key (key : string) : string := "vs_" ++ replace_slash "_"%char key.
Definition ts_file (ns name : string) : string := "ts_" ++ ns ++ "_" ++ name. (* getFileNameForTransportServer *)
Definition ts_file_from_key (key : string) : string := "ts_" ++ replace_slash "_"%char key.
Definition conf_path (name : string) : string := name ++ ".conf".             (* getFilenameFor[Stream]Config, relative to its directory *)
Definition pt_socket (ns name : string) : string :=                           (* generateUnixSocket *)
  "unix:/var/lib/nginx/passthrough-" ++ ns ++ "_" ++ name ++ ".sock".

(* ---------- state ---------- *)

Record cstate := {
  c_ings : smap Z;                    (* cnf.ingresses, keyed by FILE name as in the code; value = stamp *)
  c_merge : smap Z;                   (* cnf.mergeableIngresses *)
  c_minions : smap (list string);     (* cnf.minions: master file name -> sorted minion file names *)
  c_vss : smap Z;                     (* cnf.virtualServers *)
  c_tss : smap Z;                     (* cnf.transportServers *)
  c_pairs : smap (string * string)    (* cnf.tlsPassthroughPairs: ns/name -> (host, unix socket) *)
}.

Record disk := {
  confd : smap Z;                     (* conf.d:        file name -> stamp *)
  streamd : smap Z;                   (* stream-conf.d: file name -> stamp *)
  hosts : smap string                 (* tls-passthrough-hosts.conf: host -> unix socket *)
}.

Record world := { cs : cstate; dk : disk }.

Definition cstate0 : cstate :=
  {| c_ings := []; c_merge := []; c_minions := []; c_vss := []; c_tss := []; c_pairs := [] |}.
Definition disk0 : disk := {| confd := []; streamd := []; hosts := [] |}.
Definition world0 : world := {| cs := cstate0; dk := disk0 |}.

(* ---------- operations ---------- *)

Inductive addop :=
| AddIng (ns name : string) (stamp : Z)                                  (* AddOrUpdateIngress *)
| AddMIng (ns name : string) (stamp : Z) (minions : list (string * string)) (* AddOrUpdateMergeableIngress *)
| AddVS (ns name : string) (stamp : Z)                                   (* AddOrUpdateVirtualServer (VSRs live inside its file) *)
| AddTS (ns name : string) (stamp : Z) (pt : bool) (host : string).      (* AddOrUpdateTransportServer; pt = listener is tls-passthrough *)

Inductive kind := KIng | KVS | KTS.

Definition kind_eqb (a b : kind) : bool :=
  match a, b with KIng, KIng | KVS, KVS | KTS, KTS => true | _, _ => false end.

Inductive op :=
| Add (a : addop)
| Del (k : kind) (ns name : string)                    (* DeleteIngress / DeleteVirtualServer / DeleteTransportServer (key ns/name) *)
| UpdateVSs (adds : list addop) (dels : list (string * string))   (* UpdateVirtualServers *)
| UpdateTSs (adds : list addop) (dels : list (string * string))   (* UpdateTransportServers *)
| BatchDelVS (dels : list (string * string))           (* BatchDeleteVirtualServers *)
| BatchDelIng (dels : list (string * string))          (* BatchDeleteIngresses *)
| AddResources (adds : list addop).                    (* AddOrUpdateResources / UpdateConfig: by kind, in this order: Ingress, mergeable, VS, TS *)

Inductive event :=
| Op (o : op)
| Restart (cluster : list addop).   (* the process dies; the volume survives; the new process finds [cluster] *)

(* a set of strings as its sorted duplicate-free list (keys of a Go map[string]bool) *)
Definition mk_set (l : list string) : list string :=
  keys (fold_left (fun m x => insert x tt m) l []).

(* generateTLSPassthroughHostsConfig: cfg[pair.Host] = pair.UnixSocket over the pairs.  Go ranges
   over the map in random order; the result is order-independent exactly when the hosts of the
   pairs are distinct (hypothesis of the theorems, enforced by the generator). *)
Definition gen_hosts (pairs : smap (string * string)) : smap string :=
  fold_left (fun m kv => insert (fst (snd kv)) (snd (snd kv)) m) pairs [].

Definition is_passthrough (pt : bool) (host : string) : bool :=
  pt && negb (String.eqb host "").

(* [cleanup] = whether addOrUpdateTransportServer removes a stale passthrough pair when the
   TransportServer is no longer a passthrough one.  The current code does not (cleanup = false,
   finding F33); with the proposed fix fixes/F33.diff it does (cleanup = true). *)
Definition add_step (cleanup : bool) (a : addop) (w : world) : world :=
  let c := cs w in let d := dk w in
  match a with
  | AddIng ns name st =>
      let f := ingress_file ns name in
      {| cs := {| c_ings := insert f st (c_ings c); c_merge := c_merge c; c_minions := c_minions c;
                  c_vss := c_vss c; c_tss := c_tss c; c_pairs := c_pairs c |};
         dk := {| confd := insert (conf_path f) st (confd d); streamd := streamd d; hosts := hosts d |} |}
  | AddMIng ns name st mins =>
      let f := ingress_file ns name in
      {| cs := {| c_ings := insert f st (c_ings c); c_merge := insert f st (c_merge c);
                  c_minions := insert f (mk_set (map (fun m => ingress_file (fst m) (snd m)) mins)) (c_minions c);
                  c_vss := c_vss c; c_tss := c_tss c; c_pairs := c_pairs c |};
         dk := {| confd := insert (conf_path f) st (confd d); streamd := streamd d; hosts := hosts d |} |}
  | AddVS ns name st =>
      let f := vs_file ns name in
      {| cs := {| c_ings := c_ings c; c_merge := c_merge c; c_minions := c_minions c;
                  c_vss := insert f st (c_vss c); c_tss := c_tss c; c_pairs := c_pairs c |};
         dk := {| confd := insert (conf_path f) st (confd d); streamd := streamd d; hosts := hosts d |} |}
  | AddTS ns name st pt host =>
      let f := ts_file ns name in
      let key := ns_name_key ns name in
      let touch := is_passthrough pt host || (cleanup && mem key (c_pairs c)) in
      let pairs' := if is_passthrough pt host then insert key (host, pt_socket ns name) (c_pairs c)
                    else if cleanup then remove key (c_pairs c) else c_pairs c in
      {| cs := {| c_ings := c_ings c; c_merge := c_merge c; c_minions := c_minions c;
                  c_vss := c_vss c; c_tss := insert f st (c_tss c); c_pairs := pairs' |};
         dk := {| confd := confd d; streamd := insert (conf_path f) st (streamd d);
                  hosts := if touch then gen_hosts pairs' else hosts d |} |}
  end.

Definition del_step (k : kind) (ns name : string) (w : world) : world :=
  let c := cs w in let d := dk w in
  let key := ns_name_key ns name in
  match k with
  | KIng =>
      let f := key_to_file key in
      {| cs := {| c_ings := remove f (c_ings c); c_merge := remove f (c_merge c); c_minions := remove f (c_minions c);
                  c_vss := c_vss c; c_tss := c_tss c; c_pairs := c_pairs c |};
         dk := {| confd := remove (conf_path f) (confd d); streamd := streamd d; hosts := hosts d |} |}
  | KVS =>
      let f := vs_file_from_key key in
      {| cs := {| c_ings := c_ings c; c_merge := c_merge c; c_minions := c_minions c;
                  c_vss := remove f (c_vss c); c_tss := c_tss c; c_pairs := c_pairs c |};
         dk := {| confd := remove (conf_path f) (confd d); streamd := streamd d; hosts := hosts d |} |}
  | KTS =>
      let f := ts_file_from_key key in
      let had := mem key (c_pairs c) in
      let pairs' := remove key (c_pairs c) in
      {| cs := {| c_ings := c_ings c; c_merge := c_merge c; c_minions := c_minions c;
                  c_vss := c_vss c; c_tss := remove f (c_tss c); c_pairs := pairs' |};
         dk := {| confd := confd d; streamd := remove (conf_path f) (streamd d);
                  hosts := if had then gen_hosts pairs' else hosts d |} |}
  end.

(* elementary steps: every operation of the Configurator is a sequence of these *)
Inductive estep := EAdd (a : addop) | EDel (k : kind) (ns name : string).

Definition is_ing (a : addop) := match a with AddIng _ _ _ => true | _ => false end.
Definition is_ming (a : addop) := match a with AddMIng _ _ _ _ => true | _ => false end.
Definition is_vs (a : addop) := match a with AddVS _ _ _ => true | _ => false end.
Definition is_ts (a : addop) := match a with AddTS _ _ _ _ _ => true | _ => false end.

Definition by_kind (adds : list addop) : list addop :=
  filter is_ing adds ++ filter is_ming adds ++ filter is_vs adds ++ filter is_ts adds.

Definition expand (o : op) : list estep :=
  match o with
  | Add a => [EAdd a]
  | Del k ns name => [EDel k ns name]
  | UpdateVSs adds dels => map EAdd (filter is_vs adds) ++ map (fun d => EDel KVS (fst d) (snd d)) dels
  | UpdateTSs adds dels => map EAdd (filter is_ts adds) ++ map (fun d => EDel KTS (fst d) (snd d)) dels
  | BatchDelVS dels => map (fun d => EDel KVS (fst d) (snd d)) dels
  | BatchDelIng dels => map (fun d => EDel KIng (fst d) (snd d)) dels
  | AddResources adds => map EAdd (by_kind adds)
  end.

Definition estep_run (cleanup : bool) (e : estep) (w : world) : world :=
  match e with
  | EAdd a => add_step cleanup a w
  | EDel k ns name => del_step k ns name w
  end.

Definition run_esteps (cleanup : bool) (es : list estep) (w : world) : world :=
  fold_left (fun w e => estep_run cleanup e w) es w.

Definition op_step (cleanup : bool) (o : op) (w : world) : world := run_esteps cleanup (expand o) w.

(* restart: Configurator state lost, files kept, the passthrough map is rewritten empty by main.go,
   then every resource of the cluster is processed (sync with reloads held back), then once more by
   kind (updateAllConfigs -> UpdateConfig). *)
Definition restart_esteps (cluster : list addop) : list estep :=
  map EAdd cluster ++ map EAdd (by_kind cluster).

Definition restart_step (cleanup : bool) (cluster : list addop) (w : world) : world :=
  run_esteps cleanup (restart_esteps cluster)
    {| cs := cstate0; dk := {| confd := confd (dk w); streamd := streamd (dk w); hosts := [] |} |}.

Definition event_step (cleanup : bool) (e : event) (w : world) : world :=
  match e with
  | Op o => op_step cleanup o w
  | Restart cluster => restart_step cleanup cluster w
  end.

Definition run_events (cleanup : bool) (evs : list event) (w : world) : world :=
  fold_left (fun w e => event_step cleanup e w) evs w.

(* ---------- the file operations of LocalManager themselves (manager.go), one map for the whole root ----------
   CreateConfig / CreateStreamConfig / CreateTLSPassthroughHostsConfig / CreateMainConfig / CreateSecret /
   CreateDHParam / CreateAppProtectResourceFile write exactly the given bytes to the path of their family
   (whatever was written or deleted before); DeleteConfig / DeleteStreamConfig / DeleteSecret /
   DeleteAppProtectResourceFile remove that path.  No operation touches another path. *)
Inductive mfam := MConf | MStream | MHosts | MMain | MSecret | MDhparam | MAp.

Definition mpath (f : mfam) (name : string) : string :=
  match f with
  | MConf => "conf.d/" ++ name ++ ".conf"
  | MStream => "stream-conf.d/" ++ name ++ ".conf"
  | MHosts => "tls-passthrough-hosts.conf"
  | MMain => "nginx.conf"
  | MSecret => "secrets/" ++ name
  | MDhparam => "secrets/dhparam.pem"
  | MAp => "ap/" ++ name            (* App Protect resource files are addressed by full path; the harness uses <root>/ap/<name> *)
  end.

Inductive mop := MWrite (f : mfam) (name content : string) | MDel (f : mfam) (name : string).

Definition mstep (o : mop) (m : smap string) : smap string :=
  match o with
  | MWrite f name content => insert (mpath f name) content m
  | MDel f name => remove (mpath f name) m
  end.

Definition mrun (ops : list mop) (m : smap string) : smap string := fold_left (fun m o => mstep o m) ops m.

(* ---------- namespace life cycle (-watch-namespace-label) through the controller's work queue ----------
   Transcribed from internal/k8s: the informer updates its store at once and queues a task (one entry per key);
   sync ignores the task of a resource whose namespace has no informers (isTaskOfUnwatchedNamespace);
   syncIngress/VirtualServer/TransportServer configure the object found in the store when it is of the
   controller's class and valid, and remove its configuration otherwise (or when it is gone);
   syncNamespace for a namespace that lost the label runs cleanupUnwatchedNamespacedResources -- which removes
   the configuration of every object IN THE STORE of that namespace -- and drops the informers.
   Hosts are distinct (no arbitration), TransportServers are TLS-passthrough ones. *)
Record nobj := { o_kind : kind; o_ns : string; o_name : string; o_stamp : Z; o_ok : bool; o_host : string }.

Inductive ntask := TRes (k : kind) (ns name : string) | TNs (ns : string).
Inductive nevent := NPut (o : nobj) | NDel (k : kind) (ns name : string) | NUnlabel (ns : string) | NDrain.

Record nstate := {
  n_store : list nobj;        (* the informer stores of the watched namespaces *)
  n_cfg : list nobj;          (* what is configured (Configuration + Configurator): in the order it was configured *)
  n_watched : list string;    (* namespaces with informers *)
  n_labelled : list string;
  n_queue : list ntask
}.

Definition is_obj (k : kind) (ns name : string) (o : nobj) : bool :=
  kind_eqb k (o_kind o) && String.eqb ns (o_ns o) && String.eqb name (o_name o).
Definition drop_obj (k : kind) (ns name : string) (l : list nobj) : list nobj :=
  filter (fun o => negb (is_obj k ns name o)) l.
Definition mem_s (x : string) (l : list string) : bool := existsb (String.eqb x) l.
Definition drop_s (x : string) (l : list string) : list string := filter (fun y => negb (String.eqb x y)) l.

Definition ntask_eqb (a b : ntask) : bool :=
  match a, b with
  | TRes k ns n, TRes k' ns' n' => kind_eqb k k' && String.eqb ns ns' && String.eqb n n'
  | TNs ns, TNs ns' => String.eqb ns ns'
  | _, _ => false
  end.
Definition enqueue (t : ntask) (q : list ntask) : list ntask := if existsb (ntask_eqb t) q then q else (q ++ [t])%list.

Definition nsync (t : ntask) (st : nstate) : nstate :=
  match t with
  | TRes k ns name =>
      if negb (mem_s ns (n_watched st)) then st       (* ignoredTask *)
      else
        let cfg' := match find (is_obj k ns name) (n_store st) with
                    | Some o => if o_ok o then (drop_obj k ns name (n_cfg st) ++ [o])%list else drop_obj k ns name (n_cfg st)
                    | None => drop_obj k ns name (n_cfg st)
                    end in
        {| n_store := n_store st; n_cfg := cfg'; n_watched := n_watched st; n_labelled := n_labelled st; n_queue := n_queue st |}
  | TNs ns =>
      if mem_s ns (n_labelled st) || negb (mem_s ns (n_watched st)) then st
      else
        {| n_store := n_store st;
           n_cfg := filter (fun c => negb (String.eqb (o_ns c) ns &&
                                           existsb (is_obj (o_kind c) (o_ns c) (o_name c)) (n_store st))) (n_cfg st);
           n_watched := drop_s ns (n_watched st); n_labelled := n_labelled st; n_queue := n_queue st |}
  end.

Definition nstep (e : nevent) (st : nstate) : nstate :=
  match e with
  | NPut o =>
      if mem_s (o_ns o) (n_watched st)
      then {| n_store := o :: drop_obj (o_kind o) (o_ns o) (o_name o) (n_store st); n_cfg := n_cfg st; n_watched := n_watched st;
              n_labelled := n_labelled st; n_queue := enqueue (TRes (o_kind o) (o_ns o) (o_name o)) (n_queue st) |}
      else st
  | NDel k ns name =>
      if mem_s ns (n_watched st)
      then {| n_store := drop_obj k ns name (n_store st); n_cfg := n_cfg st; n_watched := n_watched st;
              n_labelled := n_labelled st; n_queue := enqueue (TRes k ns name) (n_queue st) |}
      else st
  | NUnlabel ns =>
      if mem_s ns (n_labelled st)
      then {| n_store := n_store st; n_cfg := n_cfg st; n_watched := n_watched st;
              n_labelled := drop_s ns (n_labelled st); n_queue := enqueue (TNs ns) (n_queue st) |}
      else st
  | NDrain =>
      let st' := fold_left (fun s t => nsync t s) (n_queue st) st in
      {| n_store := n_store st'; n_cfg := n_cfg st'; n_watched := n_watched st'; n_labelled := n_labelled st'; n_queue := [] |}
  end.

Definition nstate0 (nss : list string) : nstate :=
  {| n_store := []; n_cfg := []; n_watched := nss; n_labelled := nss; n_queue := [] |}.

Definition nrun (evs : list nevent) (st : nstate) : nstate := fold_left (fun s e => nstep e s) evs st.

(* what the configured objects are as Configurator add operations (their files follow by [add_step]) *)
Definition addop_of (o : nobj) : addop :=
  match o_kind o with
  | KIng => AddIng (o_ns o) (o_name o) (o_stamp o)
  | KVS => AddVS (o_ns o) (o_name o) (o_stamp o)
  | KTS => AddTS (o_ns o) (o_name o) (o_stamp o) true (o_host o)
  end.
