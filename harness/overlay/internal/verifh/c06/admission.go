//go:build verif

package main

// What the Kubernetes API server checks on a networking.k8s.io/v1 Ingress before the controller
// ever sees it (k8s.io/kubernetes/pkg/apis/networking/validation, transcribed: that package is not
// part of /repo's module graph).  validateIngress of /repo relies on it ("the full validation of
// Ingress resources is done by Kubernetes"), so a payload the API server rejects is not an
// accepted resource.  Only the rules that concern string fields are transcribed.

import (
	"strings"

	networking "k8s.io/api/networking/v1"
	"k8s.io/apimachinery/pkg/util/validation"
)

var invalidPathSequences = []string{"//", "/./", "/../", "%2f", "%2F"}
var invalidPathSuffixes = []string{"/..", "/."}

func admitsHost(h string) string {
	if h == "" {
		return ""
	}
	if strings.Contains(h, "*") {
		if msgs := validation.IsWildcardDNS1123Subdomain(h); len(msgs) > 0 {
			return "host: " + msgs[0]
		}
		return ""
	}
	if msgs := validation.IsDNS1123Subdomain(h); len(msgs) > 0 {
		return "host: " + msgs[0]
	}
	return ""
}

func admitsBackend(b *networking.IngressBackend) string {
	if b.Service == nil {
		if b.Resource == nil {
			return "backend: service or resource required"
		}
		return ""
	}
	if msgs := validation.IsDNS1035Label(b.Service.Name); len(msgs) > 0 {
		return "service.name: " + msgs[0]
	}
	hasName, hasNum := b.Service.Port.Name != "", b.Service.Port.Number != 0
	if hasName == hasNum {
		return "service.port: exactly one of name and number"
	}
	if hasName {
		if msgs := validation.IsValidPortName(b.Service.Port.Name); len(msgs) > 0 {
			return "service.port.name: " + msgs[0]
		}
	} else if msgs := validation.IsValidPortNum(int(b.Service.Port.Number)); len(msgs) > 0 {
		return "service.port.number: " + msgs[0]
	}
	return ""
}

func apiAdmitsIngress(ing *networking.Ingress) string {
	for k := range ing.Annotations {
		if msgs := validation.IsQualifiedName(strings.ToLower(k)); len(msgs) > 0 {
			return "annotation key: " + msgs[0]
		}
	}
	sp := &ing.Spec
	if sp.IngressClassName != nil {
		if msgs := validation.IsDNS1123Subdomain(*sp.IngressClassName); len(msgs) > 0 {
			return "ingressClassName: " + msgs[0]
		}
	}
	if sp.DefaultBackend != nil {
		if why := admitsBackend(sp.DefaultBackend); why != "" {
			return why
		}
	}
	for _, t := range sp.TLS {
		for _, h := range t.Hosts {
			if why := admitsHost(h); why != "" {
				return "tls " + why
			}
		}
		if t.SecretName != "" {
			if msgs := validation.IsDNS1123Subdomain(t.SecretName); len(msgs) > 0 {
				return "tls secretName: " + msgs[0]
			}
		}
	}
	for _, r := range sp.Rules {
		if why := admitsHost(r.Host); why != "" {
			return why
		}
		if r.HTTP == nil {
			continue
		}
		if len(r.HTTP.Paths) == 0 {
			return "paths: required"
		}
		for i := range r.HTTP.Paths {
			p := &r.HTTP.Paths[i]
			if p.PathType == nil {
				return "pathType: required"
			}
			switch *p.PathType {
			case networking.PathTypeExact, networking.PathTypePrefix:
				if !strings.HasPrefix(p.Path, "/") {
					return "path: must be an absolute path"
				}
				for _, s := range invalidPathSequences {
					if strings.Contains(p.Path, s) {
						return "path: must not contain " + s
					}
				}
				for _, s := range invalidPathSuffixes {
					if strings.HasSuffix(p.Path, s) {
						return "path: must not end with " + s
					}
				}
			case networking.PathTypeImplementationSpecific:
				if p.Path != "" && !strings.HasPrefix(p.Path, "/") {
					return "path: must be an absolute path"
				}
			default:
				return "pathType: not supported"
			}
			if why := admitsBackend(&p.Backend); why != "" {
				return why
			}
		}
	}
	return ""
}
