(* C11 -- the invariants of the secret store automaton, for every history. *)
From Coq Require Import List String Ascii Bool ZArith Lia.
From NIC Require Import Base.SMap Secrets.Model Secrets.Spec Secrets.ProofsNames.
Import ListNotations.
Open Scope string_scope.

Definition vkind (v : ver) : kind := kind_of_type (vtype v).
Definition kcode (k : kind) : nat := match k with KFile _ => 1 | KCA => 2 | KNone => 3 end.

(* ---------- the file manager ---------- *)

Lemma crt_neq_crl n : n ++ ca_crt_suffix <> n ++ ca_crl_suffix.
Proof. intros H. apply sapp_inj_l in H. discriminate. Qed.

Lemma fname_nonempty ns name : is_empty (fname ns name) = false.
Proof. unfold fname. destruct ns; reflexivity. Qed.

Lemma assoc_derived_names f n v c : assoc f (derived n v) = Some c -> In f (names_of n).
Proof.
  unfold derived, names_of. destruct (kind_of_type (vtype v)); cbn.
  - destruct (String.eqb_spec f n); [subst; auto|discriminate].
  - destruct (String.eqb_spec f (n ++ ca_crt_suffix)); [subst; auto|].
    destruct (String.eqb_spec f (n ++ ca_crl_suffix)); [subst; auto|discriminate].
  - discriminate.
Qed.

Lemma assoc_derived_kcode f n v0 v c :
  kcode (vkind v0) = kcode (vkind v) -> assoc f (derived n v0) = Some c ->
  exists c', assoc f (derived n v) = Some c'.
Proof.
  unfold vkind, derived. destruct (kind_of_type (vtype v0)), (kind_of_type (vtype v)); cbn; try discriminate; intros _.
  - destruct (String.eqb f n); [eauto|discriminate].
  - destruct (String.eqb f (n ++ ca_crt_suffix)); [eauto|].
    destruct (String.eqb f (n ++ ca_crl_suffix)); [eauto|discriminate].
Qed.

Lemma derived_none n v : vkind v = KNone -> derived n v = [].
Proof. unfold vkind, derived. intros ->. reflexivity. Qed.

Lemma assoc_derived_not_none f n v c : assoc f (derived n v) = Some c -> vkind v <> KNone.
Proof. intros H E. rewrite (derived_none _ _ E) in H. discriminate. Qed.

Lemma kcode_none a b : kcode a = kcode b -> a = KNone -> b = KNone.
Proof. intros H ->. destruct b; cbn in H; try discriminate. reflexivity. Qed.

Lemma mgr_add_lookup ns name v (d : disk) f :
  lookup f (fst (mgr_add ns name v d)) =
  match assoc f (derived (fname ns name) v) with Some c => Some c | None => lookup f d end.
Proof.
  unfold mgr_add, derived. destruct (kind_of_type (vtype v)); cbn.
  - destruct (String.eqb_spec f (fname ns name)) as [->|Hn].
    + apply lookup_insert_eq.
    + apply lookup_insert_neq. exact Hn.
  - destruct (String.eqb_spec f (fname ns name ++ ca_crt_suffix)) as [->|Hn1].
    + rewrite lookup_insert_neq by apply crt_neq_crl. apply lookup_insert_eq.
    + destruct (String.eqb_spec f (fname ns name ++ ca_crl_suffix)) as [->|Hn2].
      * apply lookup_insert_eq.
      * rewrite !lookup_insert_neq by assumption. reflexivity.
  - reflexivity.
Qed.

Lemma mgr_add_wf ns name v (d : disk) : wf d -> wf (fst (mgr_add ns name v d)).
Proof.
  unfold mgr_add. destruct (kind_of_type (vtype v)); cbn; intros H; auto using wf_insert.
Qed.

Lemma mgr_add_path ns name v (d : disk) :
  is_empty (snd (mgr_add ns name v d)) = match vkind v with KNone => true | _ => false end.
Proof.
  unfold mgr_add, vkind. destruct (kind_of_type (vtype v)); cbn.
  - apply fname_nonempty.
  - apply sapp_nonempty_l. apply sapp_nonempty_l. apply fname_nonempty.
  - reflexivity.
Qed.

Lemma mgr_add_path_nonempty ns name v (d : disk) f c :
  assoc f (derived (fname ns name) v) = Some c -> is_empty (snd (mgr_add ns name v d)) = false.
Proof.
  intros H. rewrite mgr_add_path. apply assoc_derived_not_none in H.
  destruct (vkind v); try reflexivity. contradiction.
Qed.

Lemma lookup_remove_sub {A} k f (m : smap A) c : wf m -> lookup f (remove k m) = Some c -> lookup f m = Some c.
Proof.
  intros W H. destruct (string_dec f k) as [->|Hn].
  - rewrite lookup_remove_eq in H by assumption. discriminate.
  - rewrite lookup_remove_neq in H by assumption. exact H.
Qed.

Lemma mgr_del_wf cadel k (d : disk) : wf d -> wf (mgr_del cadel k d).
Proof. unfold mgr_del. intros H. destruct cadel; auto using wf_remove. Qed.

Lemma mgr_del_sub cadel k (d : disk) f c :
  wf d -> lookup f (mgr_del cadel k d) = Some c -> lookup f d = Some c.
Proof.
  unfold mgr_del. intros W H. destruct cadel.
  - apply lookup_remove_sub in H; [|auto using wf_remove].
    apply lookup_remove_sub in H; [|auto using wf_remove].
    apply lookup_remove_sub in H; auto.
  - apply lookup_remove_sub in H; auto.
Qed.

Lemma mgr_del_other cadel k (d : disk) f :
  ~ In f (names_of_key k) -> lookup f (mgr_del cadel k d) = lookup f d.
Proof.
  unfold mgr_del, names_of_key, names_of. cbn. intros H.
  assert (f <> key_to_fname k) by (intros ->; apply H; auto).
  assert (f <> key_to_fname k ++ ca_crt_suffix) by (intros ->; apply H; auto).
  assert (f <> key_to_fname k ++ ca_crl_suffix) by (intros ->; apply H; auto).
  destruct cadel; rewrite !lookup_remove_neq by assumption; reflexivity.
Qed.

(* what Configurator.DeleteSecret removes covers what the version derived to, unless the version
   is a CA secret and the CA files are not handled *)
Lemma mgr_del_kills cadel k (d : disk) v f c :
  wf d -> cadel = true \/ vkind v <> KCA ->
  assoc f (derived (key_to_fname k) v) = Some c -> lookup f (mgr_del cadel k d) = None.
Proof.
  unfold mgr_del, derived, vkind. intros W HC. destruct (kind_of_type (vtype v)); cbn.
  - destruct (String.eqb_spec f (key_to_fname k)) as [->|]; [|discriminate]. intros _.
    destruct cadel.
    + destruct (string_dec (key_to_fname k) (key_to_fname k ++ ca_crl_suffix)) as [E|N].
      * rewrite E at 1. apply lookup_remove_eq. auto using wf_remove.
      * rewrite lookup_remove_neq by assumption.
        destruct (string_dec (key_to_fname k) (key_to_fname k ++ ca_crt_suffix)) as [E|N'].
        { rewrite E at 1. apply lookup_remove_eq. auto using wf_remove. }
        rewrite lookup_remove_neq by assumption. apply lookup_remove_eq. exact W.
    + apply lookup_remove_eq. exact W.
  - destruct HC as [->|HC]; [|contradiction HC; reflexivity].
    destruct (String.eqb_spec f (key_to_fname k ++ ca_crt_suffix)) as [->|N1].
    + intros _. rewrite lookup_remove_neq by apply crt_neq_crl.
      apply lookup_remove_eq. auto using wf_remove.
    + destruct (String.eqb_spec f (key_to_fname k ++ ca_crl_suffix)) as [->|N2]; [|discriminate].
      intros _. apply lookup_remove_eq. auto using wf_remove.
  - discriminate.
Qed.

(* ---------- ghost ---------- *)

Lemma gset_eq (g : ghost) k x : gset g k x k = x.
Proof. unfold gset. rewrite String.eqb_refl. reflexivity. Qed.

Lemma gset_neq (g : ghost) k x k' : k' <> k -> gset g k x k' = g k'.
Proof. unfold gset. intros H. apply String.eqb_neq in H. rewrite H. reflexivity. Qed.

(* ---------- the unconditional part: the store mirrors the history ---------- *)

Definition gver (g : ghost) (k : string) : option ver := option_map fst (g k).

Definition mirrors (s : smap entry) (g : ghost) : Prop :=
  forall k, match lookup k s with
            | Some e => gver g k = Some (e_ver e) /\ e_err e = negb (vvalid (e_ver e))
            | None => gver g k = None
            end.

Lemma gver_gset_eq g k x : gver (gset g k x) k = option_map fst x.
Proof. unfold gver. rewrite gset_eq. reflexivity. Qed.

Lemma gver_gset_neq g k x k' : k' <> k -> gver (gset g k x) k' = gver g k'.
Proof. unfold gver. intros H. rewrite gset_neq by assumption. reflexivity. Qed.

Lemma mirrors_insert s g k e x :
  mirrors s g -> option_map fst x = Some (e_ver e) -> e_err e = negb (vvalid (e_ver e)) ->
  mirrors (insert k e s) (gset g k x).
Proof.
  intros M Hx He k'. destruct (string_dec k' k) as [->|Hn].
  - rewrite lookup_insert_eq, gver_gset_eq. auto.
  - rewrite lookup_insert_neq, gver_gset_neq by assumption. apply M.
Qed.

Lemma mirrors_remove s g k : wf s -> mirrors s g -> mirrors (remove k s) (gset g k None).
Proof.
  intros W M k'. destruct (string_dec k' k) as [->|Hn].
  - rewrite lookup_remove_eq, gver_gset_eq by assumption. reflexivity.
  - rewrite lookup_remove_neq, gver_gset_neq by assumption. apply M.
Qed.

Lemma mirrors_ext s g g' : (forall k, gver g k = gver g' k) -> mirrors s g -> mirrors s g'.
Proof. intros E M k. specialize (M k). rewrite <- E. exact M. Qed.

(* lookups do not change which version is current *)
Lemma gver_get g k k' : gver (gstep g (Get k)) k' = gver g k'.
Proof.
  cbn [gstep]. destruct (g k) as [[v a]|] eqn:G; [|reflexivity].
  destruct (string_dec k' k) as [->|Hn].
  - rewrite gver_gset_eq. unfold gver. rewrite G. reflexivity.
  - apply gver_gset_neq. exact Hn.
Qed.

Lemma gver_force g ns name k' : gver (gstep g (ForcePath ns name)) k' = gver g k'.
Proof.
  cbn [gstep]. destruct (g (key_of ns name)) as [[v a]|] eqn:G; [|reflexivity].
  destruct (string_dec k' (key_of ns name)) as [->|Hn].
  - rewrite gver_gset_eq. unfold gver. rewrite G. reflexivity.
  - apply gver_gset_neq. exact Hn.
Qed.

(* a lookup changes at most the Path of the entry looked up *)
Lemma do_get_store st k :
  store (fst (do_get st k)) = store st \/
  exists e p, lookup k (store st) = Some e /\ store (fst (do_get st k)) = insert k (set_path e p) (store st).
Proof.
  unfold do_get. destruct (lookup k (store st)) as [e|] eqn:L; [|left; reflexivity].
  destruct (negb (e_err e) && is_empty (e_path e)); [|left; reflexivity].
  destruct (mgr_add _ _ _ _) as [d p]. right. exists e, p. auto.
Qed.

Lemma mirrors_set_path s g k e p :
  mirrors s g -> lookup k s = Some e -> mirrors (insert k (set_path e p) s) g.
Proof.
  intros M L k'. destruct (string_dec k' k) as [->|Hn].
  - rewrite lookup_insert_eq. cbn. specialize (M k). rewrite L in M. exact M.
  - rewrite lookup_insert_neq by assumption. apply M.
Qed.

Lemma mirror_get st g k :
  wf (store st) -> mirrors (store st) g ->
  wf (store (fst (do_get st k))) /\ mirrors (store (fst (do_get st k))) g.
Proof.
  intros W M. destruct (do_get_store st k) as [C|(e & p & L & C)]; rewrite C.
  - auto.
  - split; [apply wf_insert; exact W|apply mirrors_set_path; assumption].
Qed.

Lemma mirror_step cadel st g o :
  wf (store st) -> mirrors (store st) g ->
  wf (store (step_st cadel st o)) /\ mirrors (store (step_st cadel st o)) (gstep g o).
Proof.
  intros W M. destruct o as [ns name v|k|k|ns name]; unfold step_st; cbn [step fst].
  - (* Upsert *)
    unfold do_upsert. set (k := key_of ns name).
    assert (G : forall e, e_ver e = v -> e_err e = negb (vvalid v) ->
                wf (insert k e (store st)) /\ mirrors (insert k e (store st)) (gstep g (Upsert ns name v))).
    { intros e E1 E2. split; [apply wf_insert; exact W|].
      cbn [gstep]. fold k. apply mirrors_insert; [exact M|cbn; rewrite E1; reflexivity|rewrite E1; exact E2]. }
    destruct (is_empty _); [apply G; reflexivity|].
    destruct (negb (vvalid v)) eqn:Ev; [apply G; cbn; auto|].
    destruct (mgr_add ns name v (files st)) as [d p]. apply G; cbn; auto.
  - (* Delete *)
    unfold do_delete. pose proof (M k) as Mk.
    destruct (lookup k (store st)) as [e|] eqn:L.
    + assert (G : wf (remove k (store st)) /\ mirrors (remove k (store st)) (gstep g (Delete k)))
        by (split; [apply wf_remove; exact W|apply mirrors_remove; assumption]).
      destruct (is_empty (e_path e)); exact G.
    + split; [exact W|]. cbn [gstep]. eapply mirrors_ext; [|exact M].
      intros k'. destruct (string_dec k' k) as [->|Hn].
      * rewrite gver_gset_eq. exact Mk.
      * rewrite gver_gset_neq by assumption. reflexivity.
  - (* Get *)
    destruct (do_get st k) as [s r] eqn:D. cbn [fst].
    destruct (mirror_get st g k W M) as [W' M']. rewrite D in W', M'. cbn [fst] in W', M'.
    split; [exact W'|]. eapply mirrors_ext; [|exact M']. intros k'. symmetry. apply gver_get.
  - (* ForcePath *)
    unfold do_force. destruct (do_get st (key_of ns name)) as [s r] eqn:D.
    destruct (mirror_get st g (key_of ns name) W M) as [W' M']. rewrite D in W', M'. cbn [fst] in W', M'.
    assert (M2 : mirrors (store s) (gstep g (ForcePath ns name)))
      by (eapply mirrors_ext; [|exact M']; intros k'; symmetry; apply gver_force).
    destruct (lookup (key_of ns name) (store s)) as [e|] eqn:L; cbn [fst store].
    + split; [apply wf_insert; exact W'|apply mirrors_set_path; assumption].
    + auto.
Qed.

Lemma mirror_run cadel h : forall st g,
  wf (store st) -> mirrors (store st) g ->
  wf (store (fold_left (step_st cadel) h st)) /\ mirrors (store (fold_left (step_st cadel) h st)) (fold_left gstep h g).
Proof.
  induction h as [|o r IH]; intros st g W M; cbn [fold_left]; [auto|].
  destruct (mirror_step cadel st g o W M) as [W' M']. apply IH; assumption.
Qed.

Lemma mirrors_init : mirrors (store init) gempty.
Proof. intros k. reflexivity. Qed.

(* what a reference shows after any history: it reports an error exactly when the history leaves
   no valid current version *)
Theorem get_reports_error cadel h k st' p e :
  step cadel (run cadel h) (Get k) = (st', Some (p, e)) -> e = get_err_expected (grun h) k.
Proof.
  destruct (mirror_run cadel h init gempty) as [W M]; [constructor|exact mirrors_init|].
  fold (run cadel h) in W, M. fold (grun h) in M.
  cbn [step]. unfold do_get, get_err_expected. specialize (M k). unfold gver in M.
  destruct (lookup k (store (run cadel h))) as [en|] eqn:L.
  - destruct M as [Mv Me]. destruct (grun h k) as [[v a]|]; [|discriminate]. cbn in Mv. injection Mv as ->.
    destruct (negb (e_err en) && is_empty (e_path en)) eqn:C.
    + destruct (mgr_add _ _ _ _) as [d p']. intros H. injection H as _ _ <-.
      apply andb_true_iff in C. destruct C as [C _]. apply negb_true_iff in C. rewrite <- Me, C. reflexivity.
    + intros H. injection H as _ _ <-. exact Me.
  - destruct (grun h k) as [[v a]|]; [discriminate|]. intros H. injection H as _ _ <-. reflexivity.
Qed.

Theorem force_reports_error cadel h ns name st' p e :
  step cadel (run cadel h) (ForcePath ns name) = (st', Some (p, e)) ->
  e = get_err_expected (grun h) (key_of ns name).
Proof.
  destruct (mirror_run cadel h init gempty) as [W M]; [constructor|exact mirrors_init|].
  fold (run cadel h) in W, M. fold (grun h) in M.
  cbn [step]. unfold do_force, get_err_expected.
  destruct (mirror_get (run cadel h) (grun h) (key_of ns name) W M) as [W' M'].
  destruct (do_get (run cadel h) (key_of ns name)) as [s r]. cbn [fst] in W', M'.
  specialize (M' (key_of ns name)). unfold gver in M'.
  destruct (lookup (key_of ns name) (store s)) as [en|].
  - destruct M' as [Mv Me]. destruct (grun h (key_of ns name)) as [[v a]|]; [|discriminate].
    cbn in Mv. injection Mv as ->. intros H. injection H as _ _ <-. exact Me.
  - destruct (grun h (key_of ns name)) as [[v a]|]; [discriminate|]. intros H. injection H as _ _ <-. reflexivity.
Qed.

(* ---------- the invariant ---------- *)

Section Inv.
  Variable cadel : bool.           (* which Configurator.DeleteSecret: as it stands / repaired *)
  Variable U : string -> Prop.     (* the keys of the Secrets of the cluster *)

  (* what a history must satisfy.  For every AddOrUpdateSecret:
     - namespace and name contain no slash (Kubernetes names);
     - the key belongs to the cluster U;
     - the type (more precisely: which file names it derives to) of an existing Secret does not
       change (Secret.type is immutable);
     - unless DeleteSecret is repaired, the Secret is not a CA secret. *)
  Definition op_ok (g : ghost) (o : op) : Prop :=
    match o with
    | Upsert ns name v =>
        no_slash ns /\ no_slash name /\ U (key_of ns name) /\
        (cadel = true \/ vkind v <> KCA) /\
        match g (key_of ns name) with
        | Some (v0, _) => kcode (vkind v0) = kcode (vkind v)
        | None => True
        end
    | _ => True
    end.

  Fixpoint hist_ok (g : ghost) (h : list op) : Prop :=
    match h with
    | [] => True
    | o :: r => op_ok g o /\ hist_ok (gstep g o) r
    end.

  Definition entry_ok (k : string) (e : entry) (v : ver) (a : bool) : Prop :=
    e_ver e = v /\ e_err e = negb (vvalid v) /\ k = key_of (e_ns e) (e_name e) /\
    no_slash (e_ns e) /\ no_slash (e_name e) /\ U k /\
    (is_empty (e_path e) = false -> a = true) /\
    (a = true -> is_empty (e_path e) = false \/ vkind v = KNone) /\
    (cadel = true \/ vkind v <> KCA).

  Definition sg (s : smap entry) (g : ghost) : Prop :=
    forall k, match lookup k s with
              | Some e => exists v a, g k = Some (v, a) /\ entry_ok k e v a
              | None => g k = None
              end.

  (* every file in the directory is derived from the version held by a valid, materialised entry *)
  Definition justified (s : smap entry) (d : disk) : Prop :=
    forall f c, lookup f d = Some c ->
      exists k e, lookup k s = Some e /\ e_err e = false /\ is_empty (e_path e) = false /\
                  assoc f (derived (key_to_fname k) (e_ver e)) = Some c.

  Record Inv (st : state) (g : ghost) : Prop := mkInv {
    inv_wfs : wf (store st);
    inv_wfd : wf (files st);
    inv_sg : sg (store st) g;
    inv_just : justified (store st) (files st)
  }.

  Lemma sg_ext s g g' : (forall k, g k = g' k) -> sg s g -> sg s g'.
  Proof. intros E M k. specialize (M k). rewrite <- E. exact M. Qed.

  Lemma Inv_ext st g g' : (forall k, g k = g' k) -> Inv st g -> Inv st g'.
  Proof. intros E [A B C D]. constructor; auto. eapply sg_ext; eauto. Qed.

  Lemma sg_insert s g k e v a :
    sg s g -> entry_ok k e v a -> sg (insert k e s) (gset g k (Some (v, a))).
  Proof.
    intros M He k'. destruct (string_dec k' k) as [->|Hn].
    - rewrite lookup_insert_eq, gset_eq. eauto.
    - rewrite lookup_insert_neq, gset_neq by assumption. apply M.
  Qed.

  Lemma sg_remove s g k : wf s -> sg s g -> sg (remove k s) (gset g k None).
  Proof.
    intros W M k'. destruct (string_dec k' k) as [->|Hn].
    - rewrite lookup_remove_eq, gset_eq by assumption. reflexivity.
    - rewrite lookup_remove_neq, gset_neq by assumption. apply M.
  Qed.

  Lemma entry_fname k e v a : entry_ok k e v a -> key_to_fname k = fname (e_ns e) (e_name e).
  Proof. intros (_ & _ & -> & S1 & S2 & _). apply key_to_fname_key_of; assumption. Qed.

  (* a justification by an entry other than the one at k survives a change of the entry at k *)
  Lemma justified_change s (d' : disk) k e' :
    (forall f c, lookup f d' = Some c ->
       (e_err e' = false /\ is_empty (e_path e') = false /\ assoc f (derived (key_to_fname k) (e_ver e')) = Some c) \/
       (exists k1 e1, k1 <> k /\ lookup k1 s = Some e1 /\ e_err e1 = false /\ is_empty (e_path e1) = false /\
                      assoc f (derived (key_to_fname k1) (e_ver e1)) = Some c)) ->
    justified (insert k e' s) d'.
  Proof.
    intros H f c L. destruct (H f c L) as [(A & B & C)|(k1 & e1 & N & L1 & A & B & C)].
    - exists k, e'. rewrite lookup_insert_eq. auto.
    - exists k1, e1. rewrite lookup_insert_neq by assumption. auto.
  Qed.

  Lemma justified_remove s (d' : disk) k :
    wf s ->
    (forall f c, lookup f d' = Some c ->
       exists k1 e1, k1 <> k /\ lookup k1 s = Some e1 /\ e_err e1 = false /\ is_empty (e_path e1) = false /\
                     assoc f (derived (key_to_fname k1) (e_ver e1)) = Some c) ->
    justified (remove k s) d'.
  Proof.
    intros W H f c L. destruct (H f c L) as (k1 & e1 & N & L1 & A & B & C).
    exists k1, e1. rewrite lookup_remove_neq by assumption. auto.
  Qed.

  (* -- AddOrUpdateSecret -- *)
  Lemma inv_upsert st g ns name v :
    Inv st g -> op_ok g (Upsert ns name v) ->
    Inv (do_upsert cadel st ns name v) (gstep g (Upsert ns name v)).
  Proof.
    intros [Ws Wd SG J] (S1 & S2 & HU & HC & HT).
    unfold do_upsert. cbn [gstep]. set (k := key_of ns name) in *.
    pose proof (SG k) as SGk.
    destruct (lookup k (store st)) as [e0|] eqn:L.
    - destruct SGk as (v0 & a0 & Gk & EO). rewrite Gk in HT |- *.
      pose proof EO as (E1 & E2 & E3 & E4 & E5 & E6 & E7 & E8 & E9).
      destruct (is_empty (e_path e0)) eqn:P0.
      + (* not materialised: only the entry changes *)
        constructor; cbn [store files]; [apply wf_insert; exact Ws|exact Wd| |].
        * apply sg_insert; [exact SG|]. repeat split; cbn; auto; try (intros; discriminate).
          intros A. apply andb_true_iff in A. destruct A as [_ A].
          destruct (E8 A) as [X|X]; [congruence|]. right. eapply kcode_none; eauto.
        * apply justified_change. intros f c Lf. right.
          destruct (J f c Lf) as (k1 & e1 & L1 & A & B & C).
          exists k1, e1. repeat split; auto. intros ->. rewrite L in L1. injection L1 as <-. congruence.
      + destruct (negb (vvalid v)) eqn:Ev.
        * (* became invalid: files removed *)
          apply negb_true_iff in Ev.
          constructor; cbn [store files]; [apply wf_insert; exact Ws|apply mgr_del_wf; exact Wd| |].
          -- apply sg_insert; [exact SG|]. rewrite Ev. repeat split; cbn; auto; try (intros; discriminate); try (rewrite Ev; reflexivity).
          -- apply justified_change. intros f c Lf. right.
             pose proof (mgr_del_sub _ _ _ _ _ Wd Lf) as Lf0.
             destruct (J f c Lf0) as (k1 & e1 & L1 & A & B & C).
             exists k1, e1. repeat split; auto. intros ->. rewrite L in L1. injection L1 as <-.
             rewrite E1 in C. rewrite (mgr_del_kills cadel k (files st) v0 f c Wd E9 C) in Lf. discriminate.
        * (* still valid: files rewritten *)
          apply negb_false_iff in Ev.
          pose proof (mgr_add_lookup ns name v (files st)) as ML.
          pose proof (mgr_add_wf ns name v (files st) Wd) as MW.
          pose proof (mgr_add_path ns name v (files st)) as MP.
          destruct (mgr_add ns name v (files st)) as [d p]. cbn [fst snd] in ML, MW, MP.
          assert (KF : key_to_fname k = fname ns name) by (apply key_to_fname_key_of; assumption).
          assert (A0 : a0 = true) by (apply E7; reflexivity).
          constructor; cbn [store files]; [apply wf_insert; exact Ws|exact MW| |].
          -- apply sg_insert; [exact SG|]. rewrite Ev, A0. repeat split; cbn; auto; try (rewrite Ev; reflexivity).
             intros _. rewrite MP. destruct (vkind v); auto.
          -- apply justified_change. intros f c Lf. rewrite ML in Lf. cbn [e_err e_path e_ver].
             destruct (assoc f (derived (fname ns name) v)) as [c'|] eqn:AS.
             ++ left. injection Lf as <-. rewrite KF. repeat split; auto.
                rewrite MP. apply assoc_derived_not_none in AS. destruct (vkind v); auto. contradiction.
             ++ right. destruct (J f c Lf) as (k1 & e1 & L1 & A & B & C).
                exists k1, e1. repeat split; auto. intros ->. rewrite L in L1. injection L1 as <-.
                rewrite E1, KF in C. destruct (assoc_derived_kcode _ _ _ _ _ HT C) as [c' C']. congruence.
    - (* a new Secret *)
      rewrite SGk. cbn [is_empty].
      constructor; cbn [store files]; [apply wf_insert; exact Ws|exact Wd| |].
      + apply sg_insert; [exact SG|]. rewrite andb_false_r. repeat split; cbn; auto; try (intros; discriminate).
      + apply justified_change. intros f c Lf. right.
        destruct (J f c Lf) as (k1 & e1 & L1 & A & B & C).
        exists k1, e1. repeat split; auto. intros ->. congruence.
  Qed.

  (* -- DeleteSecret -- *)
  Lemma inv_delete st g k :
    Inv st g -> Inv (do_delete cadel st k) (gstep g (Delete k)).
  Proof.
    intros [Ws Wd SG J]. unfold do_delete. cbn [gstep].
    pose proof (SG k) as SGk.
    destruct (lookup k (store st)) as [e0|] eqn:L.
    - destruct SGk as (v0 & a0 & Gk & EO).
      pose proof EO as (E1 & E2 & E3 & E4 & E5 & E6 & E7 & E8 & E9).
      destruct (is_empty (e_path e0)) eqn:P0.
      + constructor; cbn [store files]; [apply wf_remove; exact Ws|exact Wd|apply sg_remove; assumption|].
        apply justified_remove; [exact Ws|]. intros f c Lf.
        destruct (J f c Lf) as (k1 & e1 & L1 & A & B & C).
        exists k1, e1. repeat split; auto. intros ->. rewrite L in L1. injection L1 as <-. congruence.
      + constructor; cbn [store files]; [apply wf_remove; exact Ws|apply mgr_del_wf; exact Wd|apply sg_remove; assumption|].
        apply justified_remove; [exact Ws|]. intros f c Lf.
        pose proof (mgr_del_sub _ _ _ _ _ Wd Lf) as Lf0.
        destruct (J f c Lf0) as (k1 & e1 & L1 & A & B & C).
        exists k1, e1. repeat split; auto. intros ->. rewrite L in L1. injection L1 as <-.
        rewrite E1 in C. rewrite (mgr_del_kills cadel k (files st) v0 f c Wd E9 C) in Lf. discriminate.
    - apply (Inv_ext st g); [|constructor; assumption].
      intros k'. destruct (string_dec k' k) as [->|Hn]; [rewrite gset_eq; exact SGk|rewrite gset_neq by assumption; reflexivity].
  Qed.

  (* -- GetSecret -- *)
  Lemma inv_get st g k :
    Inv st g -> Inv (fst (do_get st k)) (gstep g (Get k)).
  Proof.
    intros [Ws Wd SG J]. unfold do_get. cbn [gstep].
    pose proof (SG k) as SGk.
    destruct (lookup k (store st)) as [e0|] eqn:L.
    - destruct SGk as (v0 & a0 & Gk & EO). rewrite Gk.
      pose proof EO as (E1 & E2 & E3 & E4 & E5 & E6 & E7 & E8 & E9).
      destruct (negb (e_err e0) && is_empty (e_path e0)) eqn:C0.
      + (* materialise *)
        apply andb_true_iff in C0. destruct C0 as [C1 P0]. apply negb_true_iff in C1.
        assert (Vv : vvalid v0 = true) by (rewrite E2 in C1; apply negb_false_iff in C1; exact C1).
        pose proof (mgr_add_lookup (e_ns e0) (e_name e0) (e_ver e0) (files st)) as ML.
        pose proof (mgr_add_wf (e_ns e0) (e_name e0) (e_ver e0) (files st) Wd) as MW.
        pose proof (mgr_add_path (e_ns e0) (e_name e0) (e_ver e0) (files st)) as MP.
        destruct (mgr_add (e_ns e0) (e_name e0) (e_ver e0) (files st)) as [d p]. cbn [fst snd] in *.
        pose proof (entry_fname _ _ _ _ EO) as KF.
        constructor; cbn [store files]; [apply wf_insert; exact Ws|exact MW| |].
        * apply sg_insert; [exact SG|]. rewrite Vv, orb_true_r. repeat split; cbn; auto.
          intros _. rewrite MP, E1. destruct (vkind v0); auto.
        * apply justified_change. intros f c Lf. rewrite ML in Lf. cbn [set_path e_err e_path e_ver].
          destruct (assoc f (derived (fname (e_ns e0) (e_name e0)) (e_ver e0))) as [c'|] eqn:AS.
          -- left. injection Lf as <-. rewrite KF. repeat split; auto.
             rewrite MP. apply assoc_derived_not_none in AS. destruct (vkind (e_ver e0)); auto. contradiction.
          -- right. destruct (J f c Lf) as (k1 & e1 & L1 & A & B & C).
             exists k1, e1. repeat split; auto. intros ->. rewrite L in L1. injection L1 as <-. congruence.
      + (* nothing to do *)
        cbn [fst].
        assert (SG' : sg (store st) (gset g k (Some (v0, a0 || vvalid v0)))).
        { intros k'. destruct (string_dec k' k) as [->|Hn].
          - rewrite L, gset_eq. exists v0, (a0 || vvalid v0). split; [reflexivity|].
            repeat split; auto.
            + intros P. rewrite (E7 P). reflexivity.
            + intros A. apply orb_true_iff in A. destruct A as [A|A]; [auto|].
              left. rewrite E2, A in C0. cbn in C0. exact C0.
          - rewrite gset_neq by assumption. apply SG. }
        constructor; assumption.
    - rewrite SGk. constructor; assumption.
  Qed.

  (* -- an Ingress with the JWT / basic-auth annotation is configured -- *)
  Lemma inv_force st g ns name :
    Inv st g -> Inv (fst (do_force st ns name)) (gstep g (ForcePath ns name)).
  Proof.
    intros I. pose proof (inv_get st g (key_of ns name) I) as I1.
    unfold do_force. cbn [gstep] in *. set (k := key_of ns name) in *.
    destruct (do_get st k) as [s r]. cbn [fst] in I1.
    destruct I1 as [Ws Wd SG J]. pose proof (SG k) as SGk.
    destruct (g k) as [[v0 a0]|] eqn:Gk.
    - rewrite gset_eq in SGk.
      destruct (lookup k (store s)) as [e1|] eqn:L; [|discriminate].
      destruct SGk as (v1 & a1 & G1 & EO). injection G1 as <- <-.
      pose proof EO as (E1 & E2 & E3 & E4 & E5 & E6 & E7 & E8 & E9).
      cbn [fst].
      constructor; cbn [store files]; [apply wf_insert; exact Ws|exact Wd| |].
      + apply (sg_ext _ (gset (gset g k (Some (v0, a0 || vvalid v0))) k (Some (v0, true)))).
        { intros k'. unfold gset. destruct (String.eqb k' k); reflexivity. }
        apply sg_insert; [exact SG|]. repeat split; cbn; auto.
        intros _. left. apply fname_nonempty.
      + apply justified_change. intros f c Lf. cbn [set_path e_err e_path e_ver].
        destruct (J f c Lf) as (k1 & e2 & L1 & A & B & C).
        destruct (string_dec k1 k) as [->|Hn].
        * left. rewrite L in L1. injection L1 as <-. repeat split; auto. apply fname_nonempty.
        * right. exists k1, e2. auto.
    - destruct (lookup k (store s)) as [e1|] eqn:L.
      + destruct SGk as (v1 & a1 & G1 & _). congruence.
      + cbn [fst]. constructor; assumption.
  Qed.

  Lemma inv_step st g o : Inv st g -> op_ok g o -> Inv (step_st cadel st o) (gstep g o).
  Proof.
    intros I OK. destruct o as [ns name v|k|k|ns name]; unfold step_st; cbn [step].
    - cbn [fst]. apply inv_upsert; assumption.
    - cbn [fst]. apply inv_delete; assumption.
    - pose proof (inv_get st g k I) as H. destruct (do_get st k) as [s r]. exact H.
    - pose proof (inv_force st g ns name I) as H. destruct (do_force st ns name) as [s r]. exact H.
  Qed.

  Lemma inv_run h : forall st g, Inv st g -> hist_ok g h ->
    Inv (fold_left (step_st cadel) h st) (fold_left gstep h g).
  Proof.
    induction h as [|o r IH]; intros st g I OK; cbn [fold_left]; [exact I|].
    destruct OK as [O1 O2]. apply IH; [apply inv_step; assumption|exact O2].
  Qed.

  Lemma inv_init : Inv init gempty.
  Proof.
    constructor; cbn [init store files].
    - constructor.
    - constructor.
    - intros k. reflexivity.
    - intros f c H. discriminate.
  Qed.

  (* C11_inv: after every admissible history, every file in the secrets directory is the
     derivation of the CURRENT version of some Secret of the cluster, that version is valid, and
     the Secret was asked for since it was last invalid or absent.  No assumption on file names:
     this holds even when keys collide. *)
  Theorem every_file_justified h :
    hist_ok gempty h ->
    forall f c, lookup f (files (run cadel h)) = Some c ->
      exists k v, U k /\ cur h k = Some v /\ vvalid v = true /\ asked h k = true /\
                  assoc f (derived (key_to_fname k) v) = Some c.
  Proof.
    intros OK f c L. destruct (inv_run h init gempty inv_init OK) as [Ws Wd SG J].
    fold (run cadel h) in *. fold (grun h) in SG.
    destruct (J f c L) as (k & e & Lk & A & B & C).
    specialize (SG k). rewrite Lk in SG. destruct SG as (v & a & G & E1 & E2 & E3 & E4 & E5 & E6 & E7 & E8 & E9).
    exists k, v. unfold cur, asked. rewrite G. cbn. repeat split; auto.
    - rewrite E2 in A. apply negb_false_iff in A. exact A.
    - rewrite <- E1. exact C.
  Qed.
End Inv.

(* ---------- exactness per Secret, when the Secrets of the cluster never share a file name ---------- *)

Lemma mgr_add_other ns name v (d : disk) f :
  ~ In f (names_of (fname ns name)) -> lookup f (fst (mgr_add ns name v d)) = lookup f d.
Proof.
  intros H. rewrite mgr_add_lookup.
  destruct (assoc f (derived (fname ns name) v)) as [c|] eqn:A; [|reflexivity].
  exfalso. apply H. eapply assoc_derived_names; eauto.
Qed.

Section Exact.
  Variable cadel : bool.
  Variable U : string -> Prop.
  Hypothesis U_disj : forall k1 k2, U k1 -> U k2 -> k1 <> k2 -> names_disjoint k1 k2.

  Lemma sg_some s g k v a :
    sg cadel U s g -> g k = Some (v, a) -> exists e, lookup k s = Some e /\ entry_ok cadel U k e v a.
  Proof.
    intros SG G. specialize (SG k). destruct (lookup k s) as [e|]; [|congruence].
    destruct SG as (v' & a' & G' & EO). rewrite G in G'. injection G' as <- <-. eauto.
  Qed.

  (* the operations on key k touch only the names derivable from k *)
  Lemma frame_upsert st ns name v f :
    no_slash ns -> no_slash name -> ~ In f (names_of_key (key_of ns name)) ->
    lookup f (files (do_upsert cadel st ns name v)) = lookup f (files st).
  Proof.
    intros S1 S2 H. unfold do_upsert.
    destruct (is_empty _); [reflexivity|]. destruct (negb (vvalid v)); cbn [files].
    - apply mgr_del_other. exact H.
    - pose proof (mgr_add_other ns name v (files st) f) as M.
      destruct (mgr_add ns name v (files st)) as [d p]. cbn [files fst] in *. apply M.
      unfold names_of_key in H. rewrite key_to_fname_key_of in H by assumption. exact H.
  Qed.

  Lemma frame_delete st k f :
    ~ In f (names_of_key k) -> lookup f (files (do_delete cadel st k)) = lookup f (files st).
  Proof.
    intros H. unfold do_delete. destruct (lookup k (store st)) as [e|]; [|reflexivity].
    destruct (is_empty (e_path e)); cbn [files]; [reflexivity|]. apply mgr_del_other. exact H.
  Qed.

  Lemma frame_get st g k f :
    Inv cadel U st g -> ~ In f (names_of_key k) ->
    lookup f (files (fst (do_get st k))) = lookup f (files st).
  Proof.
    intros [Ws Wd SG J] H. unfold do_get. pose proof (SG k) as SGk.
    destruct (lookup k (store st)) as [e|]; [|reflexivity].
    destruct (negb (e_err e) && is_empty (e_path e)); [|reflexivity].
    destruct SGk as (v & a & G & EO).
    pose proof (mgr_add_other (e_ns e) (e_name e) (e_ver e) (files st) f) as M.
    destruct (mgr_add (e_ns e) (e_name e) (e_ver e) (files st)) as [d p]. cbn [files fst] in *. apply M.
    unfold names_of_key in H. rewrite (entry_fname _ _ _ _ _ _ EO) in H. exact H.
  Qed.

  Lemma frame_force st g ns name f :
    Inv cadel U st g -> ~ In f (names_of_key (key_of ns name)) ->
    lookup f (files (fst (do_force st ns name))) = lookup f (files st).
  Proof.
    intros I H. pose proof (frame_get st g (key_of ns name) f I H) as F.
    unfold do_force. destruct (do_get st (key_of ns name)) as [s r]. cbn [fst] in F.
    destruct (lookup (key_of ns name) (store s)); exact F.
  Qed.

  (* the files of a valid Secret that was asked for are there, with the current content *)
  Definition mat (st : state) (g : ghost) : Prop :=
    forall k v, g k = Some (v, true) -> vvalid v = true ->
      forall f c, assoc f (derived (key_to_fname k) v) = Some c -> lookup f (files st) = Some c.

  (* a file of another Secret of the cluster is none of k's names *)
  Lemma foreign st g k k1 v1 a1 f c :
    Inv cadel U st g -> U k -> k1 <> k -> g k1 = Some (v1, a1) ->
    assoc f (derived (key_to_fname k1) v1) = Some c -> ~ In f (names_of_key k).
  Proof.
    intros [Ws Wd SG J] Uk N G A H.
    destruct (sg_some _ _ _ _ _ SG G) as (e & L & EO).
    assert (U1 : U k1) by (destruct EO as (_ & _ & _ & _ & _ & X & _); exact X).
    apply (U_disj k1 k U1 Uk N f); [|exact H]. unfold names_of_key. eapply assoc_derived_names; eauto.
  Qed.

  Lemma mat_upsert st g ns name v :
    Inv cadel U st g -> op_ok cadel U g (Upsert ns name v) -> mat st g ->
    mat (do_upsert cadel st ns name v) (gstep g (Upsert ns name v)).
  Proof.
    intros I OK M k1 v1 G1 V1 f c A.
    pose proof OK as (S1 & S2 & HU & HC & HT).
    cbn [gstep] in G1. set (k := key_of ns name) in *.
    destruct (string_dec k1 k) as [->|N].
    - rewrite gset_eq in G1. injection G1 as <- G1. apply andb_true_iff in G1. destruct G1 as [_ G1].
      destruct (g k) as [[v0 a0]|] eqn:Gk; [|discriminate]. subst a0.
      destruct I as [Ws Wd SG J]. destruct (sg_some _ _ _ _ _ SG Gk) as (e0 & L & EO).
      pose proof EO as (E1 & E2 & E3 & E4 & E5 & E6 & E7 & E8 & E9).
      unfold do_upsert. fold k. rewrite L.
      destruct (is_empty (e_path e0)) eqn:P0.
      + exfalso. destruct (E8 eq_refl) as [X|X]; [congruence|].
        apply (assoc_derived_not_none _ _ _ _ A). eapply kcode_none; eauto.
      + rewrite V1. cbn [negb].
        pose proof (mgr_add_lookup ns name v (files st) f) as ML.
        destruct (mgr_add ns name v (files st)) as [d p]. cbn [files fst] in *.
        rewrite ML. unfold k in A. rewrite key_to_fname_key_of in A by assumption. rewrite A. reflexivity.
    - rewrite gset_neq in G1 by assumption.
      rewrite frame_upsert; [eapply M; eauto|assumption|assumption|].
      apply (foreign st g k k1 v1 true f c I HU N G1 A).
  Qed.

  Lemma mat_delete st g k :
    Inv cadel U st g -> mat st g -> mat (do_delete cadel st k) (gstep g (Delete k)).
  Proof.
    intros I M k1 v1 G1 V1 f c A. cbn [gstep] in G1.
    destruct (string_dec k1 k) as [->|N]; [rewrite gset_eq in G1; discriminate|].
    rewrite gset_neq in G1 by assumption.
    destruct (lookup k (store st)) as [e0|] eqn:L.
    - rewrite frame_delete; [eapply M; eauto|].
      pose proof I as [Ws Wd SG J]. pose proof (SG k) as SGk. rewrite L in SGk.
      destruct SGk as (v0 & a0 & G0 & EO).
      assert (Uk : U k) by (destruct EO as (_ & _ & _ & _ & _ & X & _); exact X).
      apply (foreign st g k k1 v1 true f c I Uk N G1 A).
    - unfold do_delete. rewrite L. eapply M; eauto.
  Qed.

  Lemma mat_get st g k :
    Inv cadel U st g -> mat st g -> mat (fst (do_get st k)) (gstep g (Get k)).
  Proof.
    intros I M k1 v1 G1 V1 f c A. cbn [gstep] in G1.
    destruct (g k) as [[v0 a0]|] eqn:Gk.
    - destruct (string_dec k1 k) as [->|N].
      + rewrite gset_eq in G1. injection G1 as <- G1.
        pose proof I as [Ws Wd SG J]. destruct (sg_some _ _ _ _ _ SG Gk) as (e0 & L & EO).
        pose proof EO as (E1 & E2 & E3 & E4 & E5 & E6 & E7 & E8 & E9).
        unfold do_get. rewrite L.
        destruct (negb (e_err e0) && is_empty (e_path e0)) eqn:C0.
        * pose proof (mgr_add_lookup (e_ns e0) (e_name e0) (e_ver e0) (files st) f) as ML.
          destruct (mgr_add (e_ns e0) (e_name e0) (e_ver e0) (files st)) as [d p]. cbn [files fst] in *.
          rewrite ML. rewrite <- (entry_fname _ _ _ _ _ _ EO), E1, A. reflexivity.
        * cbn [fst]. rewrite E2, V1 in C0. cbn in C0.
          eapply M; eauto. rewrite Gk. rewrite (E7 C0). reflexivity.
      + rewrite gset_neq in G1 by assumption.
        pose proof I as [Ws Wd SG J]. destruct (sg_some _ _ _ _ _ SG Gk) as (e0 & L & EO).
        assert (Uk : U k) by (destruct EO as (_ & _ & _ & _ & _ & X & _); exact X).
        erewrite frame_get; [eapply M; eauto|exact I|]. apply (foreign st g k k1 v1 true f c I Uk N G1 A).
    - pose proof I as [Ws Wd SG J]. pose proof (SG k) as SGk. unfold do_get.
      destruct (lookup k (store st)) as [e|].
      + destruct SGk as (v' & a' & G' & _). congruence.
      + cbn [fst]. eapply M; eauto.
  Qed.

  Lemma mat_force st g ns name :
    Inv cadel U st g -> mat st g -> mat (fst (do_force st ns name)) (gstep g (ForcePath ns name)).
  Proof.
    intros I M. pose proof (mat_get st g (key_of ns name) I M) as M1.
    unfold do_force. cbn [gstep] in *. set (k := key_of ns name) in *.
    destruct (do_get st k) as [s r]. cbn [fst] in M1. cbv zeta.
    assert (K : forall k1 v1,
               match g k with Some (v, _) => gset g k (Some (v, true)) | None => g end k1 = Some (v1, true) ->
               vvalid v1 = true ->
               forall f c, assoc f (derived (key_to_fname k1) v1) = Some c -> lookup f (files s) = Some c).
    { intros k1 v1 G1 V1 f c A.
      destruct (g k) as [[v0 a0]|] eqn:Gk.
      - destruct (string_dec k1 k) as [->|N].
        + rewrite gset_eq in G1. injection G1 as <-.
          apply (M1 k v0); auto. rewrite gset_eq, V1, orb_true_r. reflexivity.
        + rewrite gset_neq in G1 by assumption.
          apply (M1 k1 v1); auto. rewrite gset_neq by assumption. exact G1.
      - apply (M1 k1 v1); auto. }
    destruct (lookup k (store s)); cbn [fst]; intros k1 v1 G1 V1 f c A; cbn [files]; eapply K; eauto.
  Qed.

  Lemma mat_step st g o :
    Inv cadel U st g -> op_ok cadel U g o -> mat st g -> mat (step_st cadel st o) (gstep g o).
  Proof.
    intros I OK M. destruct o as [ns name v|k|k|ns name]; unfold step_st; cbn [step].
    - cbn [fst]. apply mat_upsert; assumption.
    - cbn [fst]. apply mat_delete; assumption.
    - pose proof (mat_get st g k I M) as H. destruct (do_get st k) as [s r]. exact H.
    - pose proof (mat_force st g ns name I M) as H. destruct (do_force st ns name) as [s r]. exact H.
  Qed.

  Lemma mat_run h : forall st g, Inv cadel U st g -> mat st g -> hist_ok cadel U g h ->
    mat (fold_left (step_st cadel) h st) (fold_left gstep h g).
  Proof.
    induction h as [|o r IH]; intros st g I M OK; cbn [fold_left]; [exact M|].
    destruct OK as [O1 O2]. apply IH; [apply inv_step; assumption|apply mat_step; assumption|exact O2].
  Qed.

  Lemma assoc_expected_valid g k v :
    g k = Some (v, true) -> vvalid v = true -> expected g k = derived (key_to_fname k) v.
  Proof. unfold expected. intros -> ->. reflexivity. Qed.

  (* For every Secret k of the cluster, after every admissible history: each of the file names
     derivable from k holds exactly the derivation of k's current version if that version is valid
     and k was asked for, and does not exist otherwise. *)
  Theorem key_files_exact_run h k :
    hist_ok cadel U gempty h -> U k ->
    key_files_exact (grun h) (files (run cadel h)) k.
  Proof.
    intros OK Uk f Hf.
    pose proof (inv_run cadel U h init gempty (inv_init cadel U) OK) as I.
    assert (M : mat (run cadel h) (grun h)).
    { apply (mat_run h init gempty); [apply inv_init| |exact OK]. intros k0 v0 G. discriminate. }
    fold (run cadel h) in I. fold (grun h) in I.
    destruct (lookup f (files (run cadel h))) as [c|] eqn:L.
    - (* a file is there: it is k's and it is the expected one *)
      pose proof I as [Ws Wd SG J].
      destruct (J f c L) as (k1 & e & Lk & A & B & C).
      pose proof (SG k1) as SG1. rewrite Lk in SG1.
      destruct SG1 as (v & a & G & E1 & E2 & E3 & E4 & E5 & E6 & E7 & E8 & E9).
      assert (Hk : k1 = k).
      { destruct (string_dec k1 k) as [E|N]; [exact E|]. exfalso.
        apply (U_disj k1 k E6 Uk N f); [|exact Hf]. unfold names_of_key. eapply assoc_derived_names; eauto. }
      rewrite Hk in *. clear Hk E3. rewrite (E7 B) in G. rewrite E2 in A. apply negb_false_iff in A.
      rewrite (assoc_expected_valid _ _ _ G A). rewrite <- E1. symmetry. exact C.
    - (* no file: nothing is expected under this name *)
      unfold expected. destruct (grun h k) as [[v a]|] eqn:G; [|reflexivity].
      destruct a; [|reflexivity]. destruct (vvalid v) eqn:V; [|reflexivity].
      destruct (assoc f (derived (key_to_fname k) v)) as [c|] eqn:A; [|reflexivity].
      rewrite (M k v G V f c A) in L. discriminate.
  Qed.
End Exact.
