"""C02 -- one TransportServer per listener+host, active only on a valid matching listener;
listener admission."""
import os, json
from . import common as C, arb
from .c01 import ID, MASK, MFIN, FIRST, SP_H, SP_L, SPA_H, SPA_L, OI, NEV

RELEVANT = 8 | 16      # listener hosts, resources (ListenerPort / IPv4 / IPv6 of TransportServers)
S = C.cq_str


def cq_listener(l):
    return "(mkL %s %s %s %s %s %s)" % (S(l["name"]), C.cq_z(l["port"]), S(l["proto"]), S(l["ipv4"]), S(l["ipv6"]), C.cq_bool(l["ssl"]))


def admit_term(c):
    f = c["flags"]
    fl = "(mkFlags %s %s %s %s %s %s %s %s)" % (C.cq_bool(f["status"]), C.cq_z(f["status_port"]), C.cq_bool(f["metrics"]), C.cq_z(f["metrics_port"]),
                                                C.cq_bool(f["insight"]), C.cq_z(f["insight_port"]), C.cq_bool(f["passthrough"]), C.cq_z(f["passthrough_port"]))
    es = C.cq_list(["(mkE %s %s %s %s)" % (cq_listener(e["l"]), C.cq_bool(e["name_ok"]), C.cq_bool(e["ip4_ok"]), C.cq_bool(e["ip6_ok"]))
                    for e in c["entries"] or []])
    o = c["obs"]
    return "admit_case %d %s %s %s %s" % (c["id"], fl, es, C.cq_list([cq_listener(l) for l in o["admitted"] or []]), C.cq_bool(o["err"]))


def run_admission(run, n, replay=None):
    binary = C.go_build("c02", pkg="./cmd/nginx-ingress")
    out = os.path.join(C.WORK, "cases", "c02_%s.jsonl" % run.tier)
    args = ["-replay", replay, "-out", out] if replay else ["-seed", str(run.seed), "-n", str(n), "-out", out]
    rc, log = C.run_harness(binary, args, timeout=1200)
    if rc != 0:
        raise C.TieBroken("c02 admission harness failed rc=%d: %s" % (rc, log[-1500:]))
    cases = C.read_jsonl(out)
    good = [c for c in cases if "error" not in (c["obs"] or {})]
    for c in cases:
        if "error" in (c["obs"] or {}):
            run.failing({"kind": "panic", "where": "ValidateGlobalConfiguration"}, [c], "listener admission panicked: %s" % c["obs"]["error"][:300],
                        theorem="harness c02")
    rows = {}
    for k in range(0, len(good), 500):
        part = good[k:k + 500]
        body = "From NIC Require Import Arb.Types Listeners.Admit Listeners.Cases.\n"
        body += "Definition results : list (list Z) := Eval vm_compute in\n  [" + ";\n   ".join(admit_term(c) for c in part) + "].\nPrint results.\n"
        path = os.path.join(C.WORK, "cases", "C02_admit_%s_%d.v" % (run.tier, k // 500))
        C.write_cases_v(path, body)
        rc, o = C.coqc(path)
        rs = C.parse_z_lists(o, "results")
        if rc != 0 or rs is None or len(rs) != len(part):
            raise C.TieBroken("coqc could not evaluate %s: %s" % (path, o[-1500:]))
        for r in rs:
            rows[r[0]] = r
    for c in good:
        r = rows[c["id"]]
        run.count_case({"flags": c["flags"], "entries": c["entries"]}, r[3] == 1)
        run.cov["traces_validated_against_impl"] += 1
        if r[2] == 0:
            run.failing({"kind": "admission-spec"}, [c],
                        "C02: the listeners admitted by the real ValidateGlobalConfiguration violate the admission guarantees (conflicting ip:port, reserved port, "
                        "duplicate name, malformed entry admitted, or a clearly valid entry dropped): admitted=%s" % json.dumps(c["obs"]["admitted"])[:400],
                        theorem="Listeners.Cases.admission_spec_ok")
        elif r[1] == 0:
            run.failing({"kind": "correspondence", "part": "admission"}, [c],
                        "model admitl and the real getValidListeners disagree on case %d while the admission guarantees hold on the real output" % c["id"],
                        theorem="correspondence Listeners.Admit ~ validation/globalconfiguration.go + main.go createGlobalConfigurationValidator", found_input=False)
    return cases


def judge_arb(run, cases, rows):
    for c in cases:
        if c.get("error"):
            run.failing({"kind": "harness-case-error"}, [c], "harness could not run case %d: %s" % (c["id"], c["error"][:300]),
                        theorem="correspondence harness arb", found_input="panic" in c["error"])
            continue
        r = rows[c["id"]]
        nontrivial = any(len(set(st["lhosts"].values())) >= 1 for st in c["histories"][0]["steps"])
        run.count_case(arb.canon(c), nontrivial)
        run.cov["traces_validated_against_impl"] += len(c["histories"])
        if r[SP_L] != 0 or r[SPA_L] == 0:
            run.failing({"kind": "listener-owner-not-least"}, [c],
                        "C02: after step %d of case %d the owner of some (listener, host) pair is not the least claimant with a matching listener" % (r[SP_L], c["id"]),
                        theorem="Arb.Spec.lhosts_spec_ok")
        elif r[OI] == 0:
            run.failing({"kind": "order-dependent"}, [c],
                        "C02: two histories of case %d ending in the same object set end with different listener hosts / resources" % c["id"],
                        theorem="Arb.Cases.obs_final_eqb")
        elif (r[MASK] | r[MFIN]) & RELEVANT:
            run.failing({"kind": "correspondence", "components": (r[MASK] | r[MFIN]) & RELEVANT}, [c],
                        "model and implementation disagree on listener hosts/resources (mask %d, first step %d, case %d) while the C02 specification holds on what was observed"
                        % (r[MASK] | r[MFIN], r[FIRST], c["id"]),
                        theorem="correspondence Arb.Model ~ internal/k8s/configuration.go (listenerHosts, GetResources)", found_input=False)


LISTENER_FIELDS = {16, 17, 18, 19, 20}   # see c03.FIELDS: listener port / addresses of TransportServers and VirtualServers


def judge_applied(run, cases, rows3):
    """the binding that reaches NGINX: the change batches, applied in order, leave every active TransportServer /
    VirtualServer configured with exactly the port and addresses of its listener (the C03 shadow, restricted to
    listener bindings and to TransportServer / GlobalConfiguration events)"""
    from . import c03
    for c in cases:
        if c.get("error") or c["id"] not in rows3:
            continue
        r = rows3[c["id"]]
        if r[c03.STEP] == 0:
            continue
        ev = c["histories"][0]["events"][r[c03.STEP] - 1]
        code = r[c03.CODE]
        if code in LISTENER_FIELDS or (code in (30, 31, 40) and ev["spec"]["kind"] in ("ts", "gc")):
            run.failing({"kind": "applied-binding", "field": c03.FIELDS.get(code, str(code)), "event_kind": ev["spec"]["kind"]}, [c],
                        "C02: applying the change batches returned by the real Configuration in order, after step %d of case %d the configuration applied for a "
                        "TransportServer / VirtualServer is not the binding of its listener in GetResources(): %s (%s)"
                        % (r[c03.STEP], c["id"], c03.FIELDS.get(code, code), json.dumps(c03.describe(c, r[c03.STEP]))[:500]),
                        theorem="Arb.Cases.shadow_run")


def check(run):
    run.proof_obligations()
    adm = run_admission(run, 600 if run.tier == "quick" else 20000)
    cases = arb.generate(run, 150 if run.tier == "quick" else 3000, ctl=True)
    rows = arb.evaluate(run, cases)
    judge_arb(run, cases, rows)
    judge_applied(run, cases, arb.evaluate(run, cases, fn="c03_case", tag="arb3"))
    # the layer in front of the arbitration: every TransportServer / GlobalConfiguration event is offered to the real informer
    # handler; one that differs from the last event about the object (spec, class or UID) must reach the sync queue
    part = [c for c in cases if not c.get("error")][: (60 if run.tier == "quick" else 1200)]
    crow = arb.evaluate(run, part, fn="ctl_case", extra=arb.ctl_term, tag="arbctl")
    arb.judge_delivery(run, part, crow, "C02", "the holder of a (listener, host) pair is then chosen among objects that are not the current ones "
                       "(a re-created TransportServer keeps the age of its predecessor)", kinds=("ts", "gc"))
    arb.judge_files(run, part, crow, "C02")
    run.cov["controller_level_histories"] = len(part)
    run.sample({"admission_case": adm[0]} if adm else {})
    for c in cases[:1]:
        run.sample(arb.summarize_case(c))
    run.cov["rule"] = ("(a) admission: listener lists of length 0-8 over 9 names x 14 ports (incl. 80/443/0/70000/-1 and the flag-reserved ports) x 9 protocol strings x "
                       "well-formed/malformed IPv4/IPv6, under random settings of the four port-reserving flags, through the real createGlobalConfigurationValidator + "
                       "ValidateGlobalConfiguration; non-trivial = at least two well-formed entries.  (b) arbitration: the histories of the arb harness (see C01), "
                       "non-trivial = some TransportServer was bound to a listener at some step.")
    run.cov["trusted_base"] = arb.TRUSTED + [
        "model coq/Listeners/Admit.v of getValidListeners + reserved-port wiring, tied by harness/overlay/cmd/nginx-ingress/zz_verif_c02.go, which runs inside package main "
        "(original main() renamed by a build-time rewrite) so that the real createGlobalConfigurationValidator() is exercised",
        "DNS-1035 label / IPv4 / IPv6 syntax verdicts are oracle bits obtained by probing the real validator with single-attribute listeners"]
    run.assumptions += ["K1 for claimants of one (listener, host) pair", "syntax of names and IP addresses is not modelled (oracle)"]


def replay(run, path):
    d = json.load(open(path))
    if d.get("cases") and "entries" in d["cases"][0]:
        run_admission(run, 0, replay=path)
        return
    cases = arb.replay_cases(run, path)
    rows = arb.evaluate(run, cases)
    for c in cases:
        if not c.get("error"):
            r = rows[c["id"]]
            print("replay case %d: mask main=%d final/alts=%d first=%d; listener-owner spec first failing step=%d" % (c["id"], r[MASK], r[MFIN], r[FIRST], r[SP_L]))
    judge_arb(run, cases, rows)
    rows3 = arb.evaluate(run, cases, fn="c03_case", tag="arb3")
    for c in cases:
        if not c.get("error") and c["id"] in rows3:
            print("replay case %d: applying the change batches in order, first step where the applied binding differs=%d (code %d)" % (c["id"], rows3[c["id"]][3], rows3[c["id"]][4]))
    judge_applied(run, cases, rows3)
