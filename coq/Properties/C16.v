(* C16 -- The controller acts only on resources of its own class.
   Only statements, each closed by [exact] and followed by Print Assumptions. *)
From Coq Require Import List ZArith String Bool.
From NIC Require Import Base.SMap Arb.Types Arb.Model Arb.Spec Arb.InvProofs Arb.ClassProofs Arb.Cases.
Import ListNotations.
Open Scope Z_scope.

(* Non-interference, a statement about PAIRS of histories: for every history, replacing every
   event on an object whose class designates another controller (for an Ingress: also `no class`)
   by the deletion of that object leaves every output unchanged -- the change list and the problem
   list returned by every single event, and every intermediate state (hosts, listener hosts,
   problem maps, stored objects).  Hence a foreign-class resource never contributes configuration,
   never occupies a host, listener or path, and never receives a report that a plain deletion
   would not receive; and when a served resource's class changes away the hosts it held pass to
   the next claimant exactly as if it had been deleted. *)
Theorem C16_non_interference : forall c es, outputs c init (map erase es) = outputs c init es.
Proof. exact non_interference. Qed.
Print Assumptions C16_non_interference.

(* only objects that arrived with the controller's own class (and valid) are ever stored *)
Theorem C16_foreign_never_stored :
  forall c es k i, In (k, i) (ings (run c es)) -> In (EIng i true true) es.
Proof. exact foreign_never_stored. Qed.
Print Assumptions C16_foreign_never_stored.

(* all four state components that outlive an event are functions of the stored objects, so nothing
   about a foreign-class object can linger in them *)
Theorem C16_state_is_function_of_own_objects : forall c es, full_inv c (run c es).
Proof. exact run_full_inv. Qed.
Print Assumptions C16_state_is_function_of_own_objects.

(* the class predicate (specification used on the implementation): for an Ingress the deprecated
   annotation takes precedence over the class field; an Ingress without any class is not ours *)
Example C16_annotation_precedence :
  has_class "nginx" true (Some "other"%string) (Some "nginx"%string) = false /\
  has_class "nginx" true (Some "nginx"%string) (Some "other"%string) = true /\
  has_class "nginx" true None None = false /\
  has_class "nginx" false None (Some ""%string) = true.
Proof. vm_compute. auto. Qed.

(* Non-vacuity: a VirtualServer that owns a host moves to a foreign class; the younger Ingress takes
   the host; outputs equal those of the history in which the VirtualServer is deleted instead. *)
Definition nI := mkIng (mkMeta "ns" "i" "u2" 200 1 0) IRegular ["h.example.com"%string] [] false.
Definition nV g := mkVS (mkMeta "ns" "v" "u1" 100 g 0) "h.example.com" [] None.
Example C16_nonvacuous :
  let es := [EVS (nV 1) true true; EIng nI true true; EVS (nV 2) false true] in
  map (fun kv => (fst kv, rkey (snd kv))) (hosts (run (mkCfg true true) es)) = [("h.example.com"%string, "Ingress/ns/i"%string)] /\
  map erase es = [EVS (nV 1) true true; EIng nI true true; EDelVS "ns/v"].
Proof. vm_compute. auto. Qed.
