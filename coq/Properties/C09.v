(* C09 -- Generation is a pure function: same inputs, byte-identical files.
   Only statements, each closed by [exact], each followed by Print Assumptions.

   Shape of the argument.  Go code without map ranges, goroutines, clocks or random numbers is a
   function of its inputs.  The translator lists every map range (and every time.Now / rand / go /
   select) of internal/configs, version1, version2 from the source on every run
   (gen/MapRanges.v); C09_every_site_covered / C09_no_other_nondeterminism are re-proved against
   that list.  A map range is iteration over an adversarially ordered list of the bindings
   (C09_range_sees_every_binding_once, C09_every_order_is_possible); for the consumer of every
   site there is a theorem that it does not see the order, or a refutation.  The refuted sites
   that reach the files are findings F13 / F14 (reproduced on the real code by the harness); the
   theorems named *_fixed_* are about the tree with fixes/F13.diff, fixes/F14.diff applied. *)
From Coq Require Import List String Bool Arith Permutation Sorted.
From NIC Require Import Base.SMap Determ.Model Determ.Proofs Determ.ProofsTable Determ.ProofsInventory gen.MapRanges.
Import ListNotations.
Open Scope string_scope.

(* ---------------------------------------------------------------- the model of range *)

Theorem C09_range_sees_every_binding_once :
  forall (A : Type) (pi : list nat) (m : smap A), Permutation (range_map pi m) m.
Proof. exact @range_map_perm. Qed.
Print Assumptions C09_range_sees_every_binding_once.

Theorem C09_every_order_is_possible :
  forall (A : Type) (l l' : list A), Permutation l' l -> exists pi, range_order pi l = l'.
Proof. exact @range_order_complete. Qed.
Print Assumptions C09_every_order_is_possible.

(* a consumer that is permutation invariant gives one result under all oracles; one that is not
   is driven apart by two oracles *)
Theorem C09_oracle_form :
  forall (A O : Type) (out : list (string * A) -> O) (m : smap A), wf m ->
    (forall l1 l2, Permutation l1 l2 -> NoDup (map fst l1) -> out l1 = out l2) ->
    forall pi1 pi2, out (range_map pi1 m) = out (range_map pi2 m).
Proof. exact @oracle_form. Qed.
Print Assumptions C09_oracle_form.

Theorem C09_oracle_form_refuted :
  forall (A O : Type) (out : list (string * A) -> O) (m : smap A) l1 l2,
    Permutation l1 m -> Permutation l2 m -> out l1 <> out l2 ->
    exists pi1 pi2, out (range_map pi1 m) <> out (range_map pi2 m).
Proof. exact @oracle_form_refuted. Qed.
Print Assumptions C09_oracle_form_refuted.

(* ---------------------------------------------------------------- the three general lemmas *)

(* isort really sorts ... *)
Theorem C09_isort_is_a_sort :
  forall (A : Type) (key : A -> string) (l : list A),
    Permutation (isort key l) l /\ Sorted (key_le key) (isort key l).
Proof. exact @isort_is_a_sort. Qed.
Print Assumptions C09_isort_is_a_sort.

(* ... and sorting by a total order on distinct keys gives the same list for every permutation *)
Theorem C09_sort_perm_invariant :
  forall (A : Type) (key : A -> string) (l1 l2 : list A),
    Permutation l1 l2 -> (forall x y, In x l1 -> In y l1 -> x = y \/ key x <> key y) ->
    isort key l1 = isort key l2.
Proof. exact @sort_perm_invariant. Qed.
Print Assumptions C09_sort_perm_invariant.

(* a fold whose step is an idempotent commutative insertion into a canonical map *)
Theorem C09_fold_set_insert_invariant :
  forall (V : Type) (l1 l2 : list (string * V)) (m : smap V),
    wf m -> Permutation l1 l2 ->
    (forall x y, In x l1 -> In y l1 -> fst x = fst y -> snd x = snd y) ->
    fold_left (fun acc kv => insert (fst kv) (snd kv) acc) l1 m =
    fold_left (fun acc kv => insert (fst kv) (snd kv) acc) l2 m.
Proof. exact @fold_set_insert_invariant. Qed.
Print Assumptions C09_fold_set_insert_invariant.

(* appending rendered items is NOT: two distinct items suffice *)
Theorem C09_append_order_sensitive :
  forall (A B : Type) (render : A -> B) (l : list A) (x y : A),
    In x l -> In y l -> render x <> render y ->
    exists l1 l2, Permutation l1 l /\ Permutation l2 l /\ map render l1 <> map render l2.
Proof. exact @append_order_sensitive. Qed.
Print Assumptions C09_append_order_sensitive.

(* ---------------------------------------------------------------- the sites on the generation path *)

Theorem C09_site_upstreamMapToSlice_deterministic :
  forall (V : Type) (m : smap V) l1 l2, Permutation l1 l2 -> NoDup (map fst l1) ->
    site_upstreamMapToSlice_out m l1 = site_upstreamMapToSlice_out m l2.
Proof. exact @site_upstreamMapToSlice_deterministic. Qed.
Print Assumptions C09_site_upstreamMapToSlice_deterministic.

(* endpoint sets arrive in any order (with repetitions); the generators sort the addresses *)
Theorem C09_site_endpoints_sorted_deterministic :
  forall l1 l2 : list string, Permutation l1 l2 -> isort (fun a => a) l1 = isort (fun a => a) l2.
Proof. exact site_endpoints_sorted_deterministic. Qed.
Print Assumptions C09_site_endpoints_sorted_deterministic.

(* F13, part 1: generateAPIKeyClients(secret.Data) -- as soon as the Secret has two keys *)
Theorem C09_site_generateAPIKeyClients_refuted :
  forall hash (l : list (string * string)) x y, In x l -> In y l -> fst x <> fst y ->
    exists l1 l2, Permutation l1 l /\ Permutation l2 l /\
      site_generateAPIKeyClients_out hash l1 <> site_generateAPIKeyClients_out hash l2.
Proof. exact site_generateAPIKeyClients_refuted. Qed.
Print Assumptions C09_site_generateAPIKeyClients_refuted.

Theorem C09_site_generateAPIKeyClients_fixed_deterministic :
  forall hash l1 l2, Permutation l1 l2 -> NoDup (map fst l1) ->
    site_generateAPIKeyClients_fixed_out hash l1 = site_generateAPIKeyClients_fixed_out hash l2.
Proof. exact site_generateAPIKeyClients_fixed_deterministic. Qed.
Print Assumptions C09_site_generateAPIKeyClients_fixed_deterministic.

(* the hypothesis of C09_sort_perm_invariant is necessary: a comparator that does not tell two keys
   apart (a normalised key: lower-cased, trimmed ...) leaves their order to the iteration order *)
Theorem C09_sort_needs_distinct_keys :
  forall (A : Type) (key : A -> string) (x y : A), key x = key y -> x <> y -> isort key [x; y] <> isort key [y; x].
Proof. exact @sort_needs_distinct_keys. Qed.
Print Assumptions C09_sort_needs_distinct_keys.

Theorem C09_site_generateAPIKeyClients_normalised_refuted :
  forall norm hash (x y : string * string), norm (fst x) = norm (fst y) -> fst x <> fst y ->
    site_generateAPIKeyClients_normalised_out norm hash [x; y] <>
    site_generateAPIKeyClients_normalised_out norm hash [y; x].
Proof. exact site_generateAPIKeyClients_normalised_refuted. Qed.
Print Assumptions C09_site_generateAPIKeyClients_normalised_refuted.

Theorem C09_site_generateAPIKeyClients_normalised_deterministic :
  forall norm hash l1 l2, Permutation l1 l2 -> NoDup (map (fun kv => norm (fst kv)) l1) ->
    site_generateAPIKeyClients_normalised_out norm hash l1 = site_generateAPIKeyClients_normalised_out norm hash l2.
Proof. exact site_generateAPIKeyClients_normalised_deterministic. Qed.
Print Assumptions C09_site_generateAPIKeyClients_normalised_deterministic.

(* F13, part 2: range over policiesCfg.APIKey.ClientMap -- as soon as two scopes carry an API-key policy *)
Theorem C09_site_GenerateVirtualServerConfig_refuted :
  forall (C M : Type) (gen : string -> C -> M) (mkey : M -> string) (l : list (string * C)) x y,
    (forall k c k' c', mkey (gen k c) = mkey (gen k' c') -> k = k') ->
    NoDup (map fst l) -> In x l -> In y l -> fst x <> fst y ->
    exists l1 l2, Permutation l1 l /\ Permutation l2 l /\
      site_GenerateVirtualServerConfig_out gen mkey [] l1 <> site_GenerateVirtualServerConfig_out gen mkey [] l2.
Proof. exact @site_GenerateVirtualServerConfig_refuted. Qed.
Print Assumptions C09_site_GenerateVirtualServerConfig_refuted.

Theorem C09_site_GenerateVirtualServerConfig_fixed_deterministic :
  forall (C M : Type) (gen : string -> C -> M) (mkey : M -> string) pre (l1 l2 : list (string * C)),
    Permutation l1 l2 -> NoDup (map fst l1) ->
    site_GenerateVirtualServerConfig_fixed_out gen mkey pre l1 = site_GenerateVirtualServerConfig_fixed_out gen mkey pre l2.
Proof. exact @site_GenerateVirtualServerConfig_fixed_deterministic. Qed.
Print Assumptions C09_site_GenerateVirtualServerConfig_fixed_deterministic.

(* F14: range over generateLRZGroupMaps(...) -- as soon as tiered rate limits use two claims *)
Theorem C09_site_generatePolicies_refuted :
  forall (M : Type) (dup : M -> bool) (l : list (string * M)) x y,
    In x l -> In y l -> snd x <> snd y -> existsb dup (map snd l) = false ->
    exists l1 l2, Permutation l1 l /\ Permutation l2 l /\
      site_generatePolicies_out dup l1 <> site_generatePolicies_out dup l2.
Proof. exact @site_generatePolicies_refuted. Qed.
Print Assumptions C09_site_generatePolicies_refuted.

Theorem C09_site_generatePolicies_fixed_deterministic :
  forall (M : Type) (dup : M -> bool) (l1 l2 : list (string * M)),
    Permutation l1 l2 -> NoDup (map fst l1) ->
    site_generatePolicies_fixed_out dup l1 = site_generatePolicies_fixed_out dup l2.
Proof. exact @site_generatePolicies_fixed_deterministic. Qed.
Print Assumptions C09_site_generatePolicies_fixed_deterministic.

Theorem C09_site_filterAnnotations_map_deterministic :
  forall deny (m : smap string) l1 l2, wf m -> Permutation l1 l2 ->
    site_filterAnnotations_map_out deny m l1 = site_filterAnnotations_map_out deny m l2.
Proof. exact site_filterAnnotations_map_deterministic. Qed.
Print Assumptions C09_site_filterAnnotations_map_deterministic.

Theorem C09_site_mergeMasterAnnotationsIntoMinion_deterministic :
  forall allowed (minion : smap string) l1 l2, wf minion -> Permutation l1 l2 -> NoDup (map fst l1) ->
    site_mergeMasterAnnotationsIntoMinion_out allowed minion l1 =
    site_mergeMasterAnnotationsIntoMinion_out allowed minion l2.
Proof. exact site_mergeMasterAnnotationsIntoMinion_deterministic. Qed.
Print Assumptions C09_site_mergeMasterAnnotationsIntoMinion_deterministic.

(* dst[k'] = w : deterministic exactly as long as colliding writes agree (TLS passthrough hosts) *)
Theorem C09_site_mapwrite_deterministic :
  forall (V W : Type) (kf : string * V -> option (string * W)) (dst : smap W) l1 l2,
    wf dst -> Permutation l1 l2 -> mw_consistent kf l1 ->
    site_mapwrite_out kf dst l1 = site_mapwrite_out kf dst l2.
Proof. exact @site_mapwrite_deterministic. Qed.
Print Assumptions C09_site_mapwrite_deterministic.

Theorem C09_site_mapwrite_conflict_refuted :
  forall (V W : Type) (kf : string * V -> option (string * W)) (dst : smap W) x y k w w',
    kf x = Some (k, w) -> kf y = Some (k, w') -> w <> w' ->
    site_mapwrite_out kf dst [x; y] <> site_mapwrite_out kf dst [y; x].
Proof. exact @site_mapwrite_conflict_refuted. Qed.
Print Assumptions C09_site_mapwrite_conflict_refuted.

Theorem C09_site_mapwrite_samekey_deterministic :
  forall (V W : Type) (g : string * V -> option W) (dst : smap W) l1 l2,
    wf dst -> Permutation l1 l2 -> NoDup (map fst l1) ->
    site_mapwrite_out (fun kv => option_map (fun w => (fst kv, w)) (g kv)) dst l1 =
    site_mapwrite_out (fun kv => option_map (fun w => (fst kv, w)) (g kv)) dst l2.
Proof. exact @site_mapwrite_samekey_deterministic. Qed.
Print Assumptions C09_site_mapwrite_samekey_deterministic.

(* files written from inside a range (App Protect / DoS resources): the file system afterwards *)
Theorem C09_site_filewrites_deterministic :
  forall (V : Type) (writes : string * V -> list (string * string)) (fs : smap string) l1 l2,
    wf fs -> Permutation l1 l2 ->
    (forall a b, In a (flat_map writes l1) -> In b (flat_map writes l1) -> fst a = fst b -> snd a = snd b) ->
    site_filewrites_out writes fs l1 = site_filewrites_out writes fs l2.
Proof. exact @site_filewrites_deterministic. Qed.
Print Assumptions C09_site_filewrites_deterministic.

(* internal/k8s/configuration.go: sorted keys, holder election, existence *)
Theorem C09_site_sorted_keys_deterministic :
  forall (V : Type) (l1 l2 : list (string * V)), Permutation l1 l2 -> site_sorted_keys_out l1 = site_sorted_keys_out l2.
Proof. exact @site_sorted_keys_deterministic. Qed.
Print Assumptions C09_site_sorted_keys_deterministic.

Theorem C09_site_elect_deterministic :
  forall (V : Type) (rank : string * V -> string) (l1 l2 : list (string * V)),
    Permutation l1 l2 -> NoDup (map rank l1) -> site_elect_out rank l1 = site_elect_out rank l2.
Proof. exact @site_elect_deterministic. Qed.
Print Assumptions C09_site_elect_deterministic.

(* ---------------------------------------------------------------- sites off the generation path *)

Theorem C09_site_annset_deterministic :
  forall interesting (acc : sset) l1 l2, wf acc -> Permutation (flat_map snd l1) (flat_map snd l2) ->
    annset_outer interesting acc l1 = annset_outer interesting acc l2.
Proof. exact site_annset_outer_deterministic. Qed.
Print Assumptions C09_site_annset_deterministic.

Theorem C09_site_counts_deterministic :
  forall (V : Type) (w : string * V -> nat) l1 l2, Permutation l1 l2 -> site_count_out w l1 = site_count_out w l2.
Proof. exact @site_count_deterministic. Qed.
Print Assumptions C09_site_counts_deterministic.

Theorem C09_site_firstmatch_deterministic :
  forall (V : Type) (p : string * V -> bool) l1 l2, Permutation l1 l2 ->
    (forall x y, In x l1 -> In y l1 -> p x = true -> p y = true -> x = y) ->
    site_firstmatch_out p l1 = site_firstmatch_out p l2.
Proof. exact @site_firstmatch_deterministic. Qed.
Print Assumptions C09_site_firstmatch_deterministic.

Theorem C09_site_GetIngressAnnotations_refuted :
  forall (l : list (string * bool)) x y, In x l -> In y l -> fst x <> fst y ->
    exists l1 l2, Permutation l1 l /\ Permutation l2 l /\
      site_GetIngressAnnotations_out l1 <> site_GetIngressAnnotations_out l2.
Proof. exact site_GetIngressAnnotations_refuted. Qed.
Print Assumptions C09_site_GetIngressAnnotations_refuted.

(* ---------------------------------------------------------------- the tie to the source (re-proved on every run) *)

Theorem C09_every_site_covered : forall s, In s MapRanges.sites -> covered s = true.
Proof. exact every_site_covered. Qed.
Print Assumptions C09_every_site_covered.

Theorem C09_no_other_nondeterminism : forall n, In n MapRanges.nondet_uses -> nd_allowed n = true.
Proof. exact no_other_nondeterminism. Qed.
Print Assumptions C09_no_other_nondeterminism.

Theorem C09_no_stale_entry : stale MapRanges.sites = [].
Proof. exact no_stale_entry. Qed.
Print Assumptions C09_no_stale_entry.

(* ---------------------------------------------------------------- S *)

Theorem C09_spec_ok_sound :
  forall (r0 : rendering) rest,
    spec_ok (r0 :: rest) = true <-> (forall r, In r rest -> fst r = fst r0 /\ snd r = false).
Proof. exact spec_ok_sound. Qed.
Print Assumptions C09_spec_ok_sound.

(* ---------------------------------------------------------------- history: same inputs, whatever came before *)

(* a generator that leaves the mutable part of its inputs alone renders an input as a fresh process does *)
Theorem C09_history_independent :
  forall (S I O : Type) (step : S -> I -> S * O), (forall s i, fst (step s i) = s) ->
    forall h s i, snd (step (run_history step s h) i) = snd (step s i).
Proof. exact @history_independent. Qed.
Print Assumptions C09_history_independent.

(* the mergeable-Ingress generator (minion deep-copied before annotations are merged / filtered) *)
Theorem C09_render_history_deepcopy :
  forall allowed deny masters m minion last,
    render_history false allowed deny (masters ++ [m]) minion last = effective_minion allowed deny m minion.
Proof. exact render_history_deepcopy. Qed.
Print Assumptions C09_render_history_deepcopy.

(* ... and what happens when the stored minion is edited in place *)
Theorem C09_render_history_inplace_refuted :
  exists allowed deny m1 m2 minion,
    render_history true allowed deny [m1; m2] minion [] <> render_history true allowed deny [m2] minion [].
Proof. exact render_history_inplace_refuted. Qed.
Print Assumptions C09_render_history_inplace_refuted.

Theorem C09_history_ok_sound :
  forall a b n, history_ok a b n = true <-> a = b /\ n = 0.
Proof. exact history_ok_sound. Qed.
Print Assumptions C09_history_ok_sound.

(* the template executors hold no history: the template in use is the last setting *)
Theorem C09_executor_history_independent :
  forall (h : list (option string)) s cur, fold_left exec_step (h ++ [s]) cur = s.
Proof. exact executor_history_independent. Qed.
Print Assumptions C09_executor_history_independent.

(* a memo of the parsed text would be harmless only if EVERY revert cleared it *)
Theorem C09_memo_executor_clearing_history_independent :
  forall h s, s <> Some "" -> fst (fold_left (memo_step true) (h ++ [s]) (None, "")) = s.
Proof. exact memo_executor_clearing_history_independent. Qed.
Print Assumptions C09_memo_executor_clearing_history_independent.

Theorem C09_memo_executor_refuted :
  exists t, fst (fold_left (memo_step false) [Some t; None; Some t] (None, "")) <> Some t.
Proof. exact memo_executor_refuted. Qed.
Print Assumptions C09_memo_executor_refuted.

(* rendering the same object value again: fine for a generator that leaves the caller's lists alone,
   not for one that compacts them in place (slices.DeleteFunc on the input) *)
Theorem C09_dedupe_pure_rerender :
  forall l, fst (dedupe_pure (snd (dedupe_pure l))) = fst (dedupe_pure l).
Proof. exact dedupe_pure_rerender. Qed.
Print Assumptions C09_dedupe_pure_rerender.

Theorem C09_dedupe_inplace_refuted :
  exists l, fst (dedupe_inplace (snd (dedupe_inplace l))) <> fst (dedupe_inplace l).
Proof. exact dedupe_inplace_refuted. Qed.
Print Assumptions C09_dedupe_inplace_refuted.

(* across processes: a shortened name may be completed by a hash of the name, not by a per-process seed *)
Theorem C09_namer_seed_free :
  forall cap h, (forall s1 s2 x, h s1 x = h s2 x) -> forall s1 s2 x, namer cap h s1 x = namer cap h s2 x.
Proof. exact namer_seed_free. Qed.
Print Assumptions C09_namer_seed_free.

Theorem C09_namer_seeded_refuted :
  exists h s1 s2 x, namer 4 h s1 x <> namer 4 h s2 x.
Proof. exact namer_seeded_refuted. Qed.
Print Assumptions C09_namer_seeded_refuted.

(* "each address once": slices.Compact de-duplicates only what a sort has made adjacent *)
Theorem C09_compact_after_sort_deterministic :
  forall l1 l2 : list string, Permutation l1 l2 -> compact (isort (fun a => a) l1) = compact (isort (fun a => a) l2).
Proof. exact compact_after_sort_deterministic. Qed.
Print Assumptions C09_compact_after_sort_deterministic.

Theorem C09_compact_unsorted_refuted :
  exists l1 l2, Permutation l1 l2 /\ isort (fun a => a) (compact l1) <> isort (fun a => a) (compact l2).
Proof. exact compact_unsorted_refuted. Qed.
Print Assumptions C09_compact_unsorted_refuted.

(* ---------------------------------------------------------------- the hypotheses are met / concrete witnesses *)

Definition secret3 : smap string := of_list [("client-b", "k2"); ("client-a", "k1"); ("client-c", "k3")].

Example secret3_wf : wf secret3.
Proof. apply wf_of_list. Qed.

(* two oracles, two different client lists (what F13 looks like in the model) ... *)
Example F13_two_oracles_two_outputs :
  site_generateAPIKeyClients_out (fun v => v) (range_map [0; 0; 0] secret3) <>
  site_generateAPIKeyClients_out (fun v => v) (range_map [2; 0; 0] secret3).
Proof. vm_compute. discriminate. Qed.

(* ... and one list with the sort of fixes/F13.diff *)
Example F13_fixed_two_oracles_one_output :
  site_generateAPIKeyClients_fixed_out (fun v => v) (range_map [0; 0; 0] secret3) =
  site_generateAPIKeyClients_fixed_out (fun v => v) (range_map [2; 1; 0] secret3).
Proof. vm_compute. reflexivity. Qed.

Example oracle_reaches_reverse_order :
  range_map [2; 1; 0] secret3 = rev secret3.
Proof. vm_compute. reflexivity. Qed.

Example sort_example :
  isort fst [("b", 2); ("c", 3); ("a", 1)] = [("a", 1); ("b", 2); ("c", 3)].
Proof. vm_compute. reflexivity. Qed.

Example tls_hosts_conflict :
  site_mapwrite_out (fun kv : string * (string * string) => Some (snd kv)) []
    [("default/ts1", ("app.example.com", "sock1")); ("default/ts2", ("app.example.com", "sock2"))] <>
  site_mapwrite_out (fun kv : string * (string * string) => Some (snd kv)) []
    [("default/ts2", ("app.example.com", "sock2")); ("default/ts1", ("app.example.com", "sock1"))].
Proof. vm_compute. discriminate. Qed.

Example inventory_is_not_empty : Nat.leb 20 (List.length MapRanges.sites) = true.
Proof. vm_compute. reflexivity. Qed.

Example spec_ok_rejects_a_changed_second_rendering :
  spec_ok [([("f", "h1")], true); ([("f", "h1")], false); ([("f", "h2")], true)] = false.
Proof. vm_compute. reflexivity. Qed.

Example case_folding_comparator_is_not_total :
  site_generateAPIKeyClients_normalised_out (fun k => if String.eqb k "Mobile-App" then "mobile-app" else k) (fun v => v)
    [("mobile-app", "h1"); ("Mobile-App", "h2")] <>
  site_generateAPIKeyClients_normalised_out (fun k => if String.eqb k "Mobile-App" then "mobile-app" else k) (fun v => v)
    [("Mobile-App", "h2"); ("mobile-app", "h1")].
Proof. vm_compute. discriminate. Qed.
