(* File-name schemes of the Configurator (C10): when are they injective.
   Definitions of the schemes themselves are in Files/Model.v (transcribed from configurator.go). *)
From Coq Require Import List ZArith String Ascii Bool Arith Lia.
From NIC Require Import Files.Model.
Import ListNotations.
Open Scope string_scope.

(* does byte c occur in s *)
Fixpoint occurs (c : ascii) (s : string) : bool :=
  match s with
  | EmptyString => false
  | String a r => Ascii.eqb a c || occurs c r
  end.

Lemma occurs_app c a b : occurs c (a ++ b) = occurs c a || occurs c b.
Proof. induction a as [|x a IH]; cbn; [reflexivity|]. rewrite IH. apply orb_assoc. Qed.

(* ---------- the general lemma, for ALL strings ---------- *)

(* If the separator byte does not occur in the FIRST components, a ++ sep ++ b determines (a, b).
   (Nothing is required of the second components.) *)
Lemma sep_concat_injective (sep : ascii) :
  forall a a' b b' : string,
    occurs sep a = false -> occurs sep a' = false ->
    a ++ String sep b = a' ++ String sep b' -> a = a' /\ b = b'.
Proof.
  induction a as [|x a IH]; intros [|x' a'] b b' Ha Ha' H; cbn in *.
  - inversion H. auto.
  - inversion H; subst. rewrite Ascii.eqb_refl in Ha'. discriminate.
  - inversion H; subst. rewrite Ascii.eqb_refl in Ha. discriminate.
  - inversion H; subst. apply orb_false_elim in Ha. apply orb_false_elim in Ha'.
    destruct (IH a' b b') as [-> ->]; try tauto.
Qed.

Lemma app_assoc_s (a b c : string) : (a ++ b) ++ c = a ++ (b ++ c).
Proof. induction a as [|x a IH]; cbn; [reflexivity|]. rewrite IH. reflexivity. Qed.

Lemma length_app_s (a b : string) : String.length (a ++ b) = String.length a + String.length b.
Proof. induction a as [|x a IH]; cbn; [reflexivity|]. rewrite IH. reflexivity. Qed.

Lemma app_inv_tail_s (t : string) : forall a b : string, a ++ t = b ++ t -> a = b.
Proof.
  induction a as [|x a IH]; intros [|y b] H; cbn in *.
  - reflexivity.
  - exfalso. apply (f_equal String.length) in H. cbn in H. rewrite length_app_s in H. lia.
  - exfalso. apply (f_equal String.length) in H. cbn in H. rewrite length_app_s in H. lia.
  - inversion H; subst. f_equal. apply IH. assumption.
Qed.

Lemma conf_path_injective a b : conf_path a = conf_path b -> a = b.
Proof. apply app_inv_tail_s. Qed.

(* ---------- strings.Replace(key, "/", c, -1) ---------- *)

Lemma replace_slash_app c a b : replace_slash c (a ++ b) = replace_slash c a ++ replace_slash c b.
Proof. induction a as [|x a IH]; cbn; [reflexivity|]. rewrite IH. reflexivity. Qed.

Lemma replace_slash_id c s : occurs "/"%char s = false -> replace_slash c s = s.
Proof.
  induction s as [|x s IH]; cbn; [reflexivity|]. intros H. apply orb_false_elim in H. destruct H as [Hx Hs].
  rewrite Hx. rewrite IH by assumption. reflexivity.
Qed.

Lemma replace_key c ns name :
  occurs "/"%char ns = false -> occurs "/"%char name = false ->
  replace_slash c (ns_name_key ns name) = ns ++ String c name.
Proof.
  intros Hn Hm. unfold ns_name_key. rewrite replace_slash_app. cbn.
  rewrite !replace_slash_id by assumption. reflexivity.
Qed.

(* the name a resource is written under and the name it is deleted under (by key) coincide *)
Lemma key_to_file_agrees ns name :
  occurs "/"%char ns = false -> occurs "/"%char name = false ->
  key_to_file (ns_name_key ns name) = ingress_file ns name.
Proof. intros. unfold key_to_file. rewrite replace_key by assumption. reflexivity. Qed.

Lemma vs_file_from_key_agrees ns name :
  occurs "/"%char ns = false -> occurs "/"%char name = false ->
  vs_file_from_key (ns_name_key ns name) = vs_file ns name.
Proof. intros. unfold vs_file_from_key. rewrite replace_key by assumption. reflexivity. Qed.

Lemma ts_file_from_key_agrees ns name :
  occurs "/"%char ns = false -> occurs "/"%char name = false ->
  ts_file_from_key (ns_name_key ns name) = ts_file ns name.
Proof. intros. unfold ts_file_from_key. rewrite replace_key by assumption. reflexivity. Qed.

(* ---------- DNS-1123 ---------- *)

(* the bytes a DNS-1123 label or subdomain may contain: a-z 0-9 - . *)
Definition dns_char (c : ascii) : bool :=
  let n := nat_of_ascii c in
  (((97 <=? n) && (n <=? 122)) || ((48 <=? n) && (n <=? 57)) || (n =? 45) || (n =? 46))%nat.

Definition alnum_char (c : ascii) : bool :=
  let n := nat_of_ascii c in (((97 <=? n) && (n <=? 122)) || ((48 <=? n) && (n <=? 57)))%nat.

Fixpoint dns_chars (s : string) : bool :=
  match s with
  | EmptyString => true
  | String a r => dns_char a && dns_chars r
  end.

Fixpoint last_char (s : string) (d : ascii) : ascii :=
  match s with EmptyString => d | String a r => last_char r a end.

(* label structure: every maximal dot-free run is non-empty, at most 63 long, starts and ends alphanumeric.
   [run] = length of the current label so far, [prev] = previous byte (None at a label start). *)
Fixpoint labels_ok (s : string) (run : nat) (prev : option ascii) : bool :=
  match s with
  | EmptyString => match prev with Some p => alnum_char p && (run <=? 63)%nat | None => false end
  | String a r =>
      if Ascii.eqb a "."%char
      then match prev with Some p => alnum_char p && (run <=? 63)%nat && labels_ok r 0 None | None => false end
      else match prev with
           | None => alnum_char a && labels_ok r 1 (Some a)
           | Some _ => labels_ok r (S run) (Some a)
           end
  end.

(* RFC 1123 subdomain as Kubernetes validates object names (IsDNS1123Subdomain) *)
Definition dns1123_subdomain (s : string) : bool :=
  dns_chars s && (String.length s <=? 253)%nat && labels_ok s 0 None.
(* RFC 1123 label as Kubernetes validates namespace names (IsDNS1123Label) *)
Definition dns1123_label (s : string) : bool :=
  dns1123_subdomain s && negb (occurs "."%char s) && (String.length s <=? 63)%nat.

Lemma subdomain_chars s : dns1123_subdomain s = true -> dns_chars s = true.
Proof. unfold dns1123_subdomain. intros H. apply andb_prop in H. destruct H as [H _]. apply andb_prop in H. tauto. Qed.

Lemma label_chars s : dns1123_label s = true -> dns_chars s = true.
Proof.
  unfold dns1123_label. intros H. apply andb_prop in H. destruct H as [H _]. apply andb_prop in H.
  destruct H as [H _]. apply subdomain_chars. assumption.
Qed.

Lemma dns_chars_free (c : ascii) s : dns_char c = false -> dns_chars s = true -> occurs c s = false.
Proof.
  intros Hc. induction s as [|x s IH]; cbn; [reflexivity|]. intros H. apply andb_prop in H. destruct H as [Hx Hs].
  rewrite IH by assumption. rewrite orb_false_r.
  destruct (Ascii.eqb_spec x c) as [->|]; [congruence|reflexivity].
Qed.

Lemma dns_no_underscore s : dns_chars s = true -> occurs "_"%char s = false.
Proof. apply dns_chars_free. reflexivity. Qed.
Lemma dns_no_slash s : dns_chars s = true -> occurs "/"%char s = false.
Proof. apply dns_chars_free. reflexivity. Qed.

(* ---------- injectivity of the schemes ---------- *)

(* vs_<ns>_<name>: injective as soon as the namespaces contain no underscore *)
Lemma vs_file_injective_gen ns name ns' name' :
  occurs "_"%char ns = false -> occurs "_"%char ns' = false ->
  vs_file ns name = vs_file ns' name' -> ns = ns' /\ name = name'.
Proof.
  intros H1 H2 H. unfold vs_file in H. cbn in H. inversion H as [H0].
  apply (sep_concat_injective "_"%char) in H0; assumption.
Qed.

Lemma ts_file_injective_gen ns name ns' name' :
  occurs "_"%char ns = false -> occurs "_"%char ns' = false ->
  ts_file ns name = ts_file ns' name' -> ns = ns' /\ name = name'.
Proof.
  intros H1 H2 H. unfold ts_file in H. cbn in H. inversion H as [H0].
  apply (sep_concat_injective "_"%char) in H0; assumption.
Qed.

(* over all DNS-1123 names (they cannot contain an underscore) *)
Lemma vs_file_name_injective ns name ns' name' :
  dns_chars ns = true -> dns_chars name = true -> dns_chars ns' = true -> dns_chars name' = true ->
  vs_file ns name = vs_file ns' name' -> ns = ns' /\ name = name'.
Proof. intros. eapply vs_file_injective_gen; eauto using dns_no_underscore. Qed.

Lemma ts_file_name_injective ns name ns' name' :
  dns_chars ns = true -> dns_chars name = true -> dns_chars ns' = true -> dns_chars name' = true ->
  ts_file ns name = ts_file ns' name' -> ns = ns' /\ name = name'.
Proof. intros. eapply ts_file_injective_gen; eauto using dns_no_underscore. Qed.

(* the key ns/name is injective (used for cnf.tlsPassthroughPairs and the unix socket name) *)
Lemma key_injective ns name ns' name' :
  occurs "/"%char ns = false -> occurs "/"%char ns' = false ->
  ns_name_key ns name = ns_name_key ns' name' -> ns = ns' /\ name = name'.
Proof. intros H1 H2 H. unfold ns_name_key in H. cbn in H. apply (sep_concat_injective "/"%char) in H; assumption. Qed.

(* Ingress and VirtualServer files live in the same directory; they never meet *)
Lemma ingress_vs_disjoint ns name ns' name' :
  dns_chars ns = true -> dns_chars name = true -> ingress_file ns name <> vs_file ns' name'.
Proof.
  intros H1 H2 H. apply (f_equal (occurs "_"%char)) in H.
  unfold ingress_file, vs_file in H. rewrite !occurs_app in H. cbn in H.
  rewrite (dns_no_underscore _ H1), (dns_no_underscore _ H2) in H. discriminate.
Qed.

(* the Ingress scheme ns-name is NOT injective on DNS-1123 names: F08 *)
Lemma ingress_file_name_refuted :
  exists ns1 n1 ns2 n2,
    dns1123_label ns1 = true /\ dns1123_subdomain n1 = true /\ dns1123_label ns2 = true /\ dns1123_subdomain n2 = true /\
    (ns1, n1) <> (ns2, n2) /\
    ingress_file ns1 n1 = ingress_file ns2 n2 /\
    key_to_file (ns_name_key ns1 n1) = key_to_file (ns_name_key ns2 n2).
Proof.
  exists "a-b", "c", "a", "b-c". repeat split; try (vm_compute; reflexivity). discriminate.
Qed.

(* the three schemes at once: a resource is deleted under the name it was written under *)
Lemma delete_name_agrees ns name :
  occurs "/"%char ns = false -> occurs "/"%char name = false ->
  key_to_file (ns_name_key ns name) = ingress_file ns name /\
  vs_file_from_key (ns_name_key ns name) = vs_file ns name /\
  ts_file_from_key (ns_name_key ns name) = ts_file ns name.
Proof.
  intros. split; [apply key_to_file_agrees; assumption|].
  split; [apply vs_file_from_key_agrees|apply ts_file_from_key_agrees]; assumption.
Qed.

(* ---------- length ---------- *)

Fixpoint rep (n : nat) (c : ascii) : string :=
  match n with O => EmptyString | S k => String c (rep k c) end.

(* DNS-legal namespaces (<= 63 bytes) and names (<= 253 bytes) give file names beyond NAME_MAX = 255:
   os.Create fails and LocalManager.createConfig ends the process (finding F97).  The schemes would
   have to shorten such names -- injectively. *)
Lemma file_name_length_refuted :
  exists ns name,
    dns1123_label ns = true /\ dns1123_subdomain name = true /\
    Nat.ltb 255 (String.length (conf_path (vs_file ns name))) = true /\
    Nat.ltb 255 (String.length (conf_path (ts_file ns name))) = true /\
    Nat.ltb 255 (String.length (conf_path (ingress_file ns name))) = true.
Proof.
  exists "team-a", (rep 63 "a" ++ "." ++ rep 63 "b" ++ "." ++ rep 63 "c" ++ "." ++ rep 61 "d").
  repeat split; vm_compute; reflexivity.
Qed.
