"""C08 -- fail closed: an unusable policy or certificate never yields unprotected service."""
import os, json, hashlib, concurrent.futures
from . import common as C

SHARD = 200
WORKERS = 8

KIND = {"access": "KAccess", "rate": "KRate", "jwt": "KJwt", "basic": "KBasic", "imtls": "KIngressMTLS",
        "emtls": "KEgressMTLS", "oidc": "KOidc", "apikey": "KApiKey", "waf": "KWaf", "none": "KNone"}
STYPE = {"tls": "TyTLS", "ca": "TyCA", "jwk": "TyJWK", "htpasswd": "TyHtpasswd", "oidc": "TyOIDC",
         "apikey": "TyAPIKey", "opaque": "TyOther"}
KCODE = {1: "access", 2: "rate", 3: "jwt", 4: "basic", 5: "imtls", 6: "emtls", 7: "oidc", 8: "apikey", 9: "waf", 10: "none"}


def cq_packed(b):
    """bytes -> Coq string through NIC.Lex.Pack.unpack (7 bytes per primitive int, little endian)"""
    if len(b) == 0:
        return '""'
    ints = [int.from_bytes(b[i:i + 7], "little") for i in range(0, len(b), 7)]
    last = len(b) - 7 * (len(ints) - 1)
    return "(unpack %d [%s]%%uint63)" % (last, ";".join(str(x) for x in ints))


def S(s):
    return C.cq_str(s or "")


def L(items):
    return C.cq_list(list(items))


def cq_policy(p):
    return "(mkPolicy %s %s %s %s %s %s %s %s %s %s)" % (
        KIND[p["kind"]], S(p.get("secret")), S(p.get("secret2")), C.cq_bool(p.get("jwks", False)), S(p.get("appol")),
        S(p.get("bundle")), L(S(x) for x in p.get("logconfs") or []), L(S(x) for x in p.get("logbundles") or []),
        S(p.get("rl_group")), C.cq_bool(p.get("rl_default", False)))


def cq_refs(refs):
    return L("(%s, %s)" % (S(r.get("ns")), S(r["name"])) for r in refs or [])


def cq_world(w):
    cluster = L("(%s, mkCPolicy %s %s %s)" % (S(p["ns"] + "/" + p["name"]), cq_policy(p), S(p.get("class")), C.cq_bool(p["valid"]))
                for p in w.get("policies") or [])
    # the Secret informer events in order: every Secret is upserted; one with history "deleted" is deleted again
    # before the resource is generated (Model.secrets_of_history: for the model it then does not exist)
    ev = []
    for s in w.get("secrets") or []:
        ev.append("SecUpsert %s (mkSecret %s %s)" % (S(s["ns"] + "/" + s["name"]), STYPE[s["type"]], C.cq_bool(s["valid"])))
        if s.get("history") == "deleted":
            ev.append("SecDelete %s" % S(s["ns"] + "/" + s["name"]))
    secrets = "(secrets_of_history %s)" % L(ev)
    appols = L(S(a["ns"] + "/" + a["name"]) for a in w.get("ap") or [] if a["kind"] == "pol" and a["usable"])
    logconfs = L(S(a["ns"] + "/" + a["name"]) for a in w.get("ap") or [] if a["kind"] == "log" and a["usable"])
    bundles = L(S(b) for b in w.get("bundles") or [])
    return cluster, secrets, appols, logconfs, bundles


def spiffe_in(c):
    """the resource is an internal route of NGINX Service Mesh (controller flag and resource field both set)"""
    w = c["world"]
    res = w.get("vs") or w.get("ing") or {}
    return bool(w.get("internal_routes") and res.get("internal_route"))


def cq_tls(on, name):
    return "(Some %s)" % S(name) if on else "None"


def vs_to_coq(c, fname):
    w, o, vs = c["world"], c["obs"], c["world"]["vs"]
    cluster, secrets, appols, logconfs, bundles = cq_world(w)
    routes = L("(mkRoute %s %s %s)" % (S(r["path"]), S(r.get("vsr")), cq_refs(r.get("policies"))) for r in vs.get("routes") or [])
    byname = {v["ns"] + "/" + v["name"]: v for v in vs.get("vsrs") or []}
    # the attached VirtualServerRoutes in the order the real code iterates them
    vsrs = L("(mkVsr %s %s %s)" % (S(byname[k]["ns"]), S(byname[k]["name"]),
                                    L("(mkSub %s %s)" % (S(s["path"]), cq_refs(s.get("policies"))) for s in byname[k]["subroutes"]))
             for k in o.get("vsrs") or [])
    v = "(mkVs %s %s %s %s)" % (S(vs["ns"]), cq_refs(vs.get("policies")), routes, vsrs)
    obs = L("(%s, %s, %s, %s)" % (S(s["id"]), L(S(x) for x in s.get("entry") or []), C.cq_bool(s["err"]),
                                   L(S(x) for x in s.get("flags") or [])) for s in o["scopes"])
    ssl = o.get("ssl") or {}
    return "vs_case %d %s %s %s %s %s %s %s %s %s %s %s %s %s %s %s %s" % (
        c["id"], S(w.get("class")), cluster, secrets, appols, logconfs, bundles, cq_tls(vs["tls"], vs.get("tls_secret")),
        C.cq_bool(w.get("wildcard", False)), v, S(vs["host"]), obs, C.cq_bool(ssl.get("present", False)),
        C.cq_bool(ssl.get("reject", False)), S(ssl.get("cert")), C.cq_bool(spiffe_in(c)), fname)


def ing_to_coq(c, fname):
    w, o, ing = c["world"], c["obs"], c["world"]["ing"]
    _, secrets, _, _, _ = cq_world(w)
    where = "location:/m" if (ing["master"] and ing.get("on_minion")) else "server"
    a = [x for x in o.get("auth") or [] if x["where"] == where]
    a = a[0] if a else {}
    ssl = o.get("ssl") or {}
    opt = lambda on, v: "(Some %s)" % S(v) if on else "None"
    return "ing_case %d %s %s %s %s %s %s %s %s %s %s %s %s %s %s %s" % (
        c["id"], secrets, S(ing["ns"]), S(ing["host"]), cq_tls(ing["tls"], ing.get("tls_secret")), C.cq_bool(w.get("wildcard", False)),
        opt(bool(ing.get("jwt_key")), ing.get("jwt_key")), opt(bool(ing.get("basic")), ing.get("basic")),
        L([S("/m")] if where != "server" else []), C.cq_bool(ssl.get("present", False)), C.cq_bool(ssl.get("reject", False)),
        S(ssl.get("cert")), opt(a.get("jwt", False), a.get("key")), opt(a.get("basic", False), a.get("file")),
        C.cq_bool(spiffe_in(c)), fname)


def usable_case(c):
    o = c["obs"]
    return not (o.get("error") or o.get("panic")) and o.get("accepted")


def evaluate_shard(cases, tag):
    body = "From Coq Require Import Uint63.\nFrom NIC Require Import Lex.Pack Lex.Lexer Lex.Parser Policies.Model Policies.Spec Policies.Cases.\n"
    body += "Open Scope list_scope.\n"
    # every distinct rendered file is parsed once (most failure modes render byte-identical files)
    names = {}
    for c in cases:
        f = c["obs"]["file"]
        if f not in names:
            names[f] = "file_%d" % len(names)
            body += "Definition %s := Eval vm_compute in parse_conf %s.\n" % (names[f], cq_packed(f.encode("utf-8")))
    body += "Definition results : list (list Z) := Eval vm_compute in\n [" + ";\n ".join(
        vs_to_coq(c, names[c["obs"]["file"]]) if c["fam"] == "vs" else ing_to_coq(c, names[c["obs"]["file"]]) for c in cases) + "].\nPrint results.\n"
    path = os.path.join(C.WORK, "cases", "C08_%s.v" % tag)
    C.write_cases_v(path, body)
    rc, out = C.coqc(path, timeout=1500)
    rows = C.parse_z_lists(out, "results")
    if rc != 0 or rows is None or len(rows) != len(cases):
        raise C.TieBroken("coqc could not evaluate the C08 cases file (%s): %s" % (path, out[-1500:]))
    return {r[0]: r for r in rows}


def evaluate(cases, tag):
    cases = sorted([c for c in cases if usable_case(c)], key=lambda c: (hashlib.sha1(c["obs"]["file"].encode("utf-8")).hexdigest(), c["id"]))
    shards = [cases[k:k + SHARD] for k in range(0, len(cases), SHARD)]
    rows = {}
    with concurrent.futures.ThreadPoolExecutor(max_workers=WORKERS) as ex:
        futs = [ex.submit(evaluate_shard, sh, "%s_%d" % (tag, i)) for i, sh in enumerate(shards)]
        for f in futs:
            rows.update(f.result())
    return rows


def slim(c):
    d = dict(c)
    o = dict(c["obs"])
    o["file"] = "<%d bytes>" % len(o.get("file") or "")
    d["obs"] = o
    return d


def scope_shape(c, sid):
    vs = c["world"]["vs"]
    for r in vs.get("routes") or []:
        if "route:" + r["path"] == sid:
            return r["shape"]
    for v in vs.get("vsrs") or []:
        for s in v["subroutes"]:
            if "sub:%s/%s:%s" % (v["ns"], v["name"], s["path"]) == sid:
                return s["shape"]
    return ""


def judge(run, cases, rows, verbose=False):
    fam = run.cov.setdefault("by_family", {})
    for c in cases:
        o = c["obs"]
        key = "%s:%s" % (c["class"], "plus" if c["world"]["plus"] else "oss")
        if o.get("panic"):
            run.failing({"kind": "panic", "class": c["class"]}, [slim(c)],
                        "the code under test panicked on case %d (%s): %s" % (c["id"], json.dumps(c.get("gen")), o["panic"][:300]), theorem="harness c08")
            continue
        if o.get("error"):
            run.failing({"kind": "harness-case-error", "class": c["class"]}, [slim(c)],
                        "the harness could not run case %d on the implementation: %s" % (c["id"], o["error"][:300]),
                        theorem="correspondence harness c08", found_input=False)
            continue
        if not o.get("accepted"):
            fam[key + ":rejected-by-validation"] = fam.get(key + ":rejected-by-validation", 0) + 1
            if c["class"] != "random":
                run.failing({"kind": "generator", "class": c["class"]}, [slim(c)],
                            "a product case was rejected by the real validation, so the product is not covered (case %d, %s)" % (c["id"], json.dumps(c.get("gen"))),
                            theorem="correspondence harness c08", found_input=False)
            continue
        if c["class"] == "history":
            ev = c.get("event") or {}
            if not o.get("pre_open"):
                run.failing({"kind": "generator", "class": "history"}, [slim(c)],
                            "history case %d: the resource was not served normally BEFORE the event, so the history shows nothing (%s)" % (c["id"], json.dumps(c.get("gen"))),
                            theorem="correspondence harness c08", found_input=False)
                continue
            run.cov["history_events"] = run.cov.get("history_events", 0) + 1
            if o.get("unloaded"):
                run.failing({"kind": "written-not-reloaded", "dep": ev.get("dep"), "op": (ev.get("op") or "").split(":")[0], "batch": bool(ev.get("batch"))}, [slim(c)],
                            "after the %s event on %s %s/%s (batch of %d other tasks, position %d) the file on disk was never loaded: NGINX still runs the configuration from before "
                            "(case %d, gen=%s, reloads during the event: %s)" % (ev.get("op"), ev.get("dep"), ev.get("ns"), ev.get("name"), ev.get("batch") or 0, ev.get("at") or 0,
                                                                                 c["id"], json.dumps(c.get("gen")), o.get("reloads")),
                            theorem="history: what NGINX runs after the queue drained must be the configuration written", found_input=False)
            if o.get("stale"):
                run.failing({"kind": "live-config-stale", "dep": ev.get("dep"), "op": (ev.get("op") or "").split(":")[0]}, [slim(c)],
                            "after the %s event on %s %s/%s the configuration NGINX holds differs from what a fresh rendering of the same state gives "
                            "(case %d, gen=%s, tasks queued by the real handler per event: %s)"
                            % (ev.get("op"), ev.get("dep"), ev.get("ns"), ev.get("name"), c["id"], json.dumps(c.get("gen")), o.get("queued")),
                            theorem="history: the real handler + sync function of the dependency must re-render its users", found_input=False)
        if bool(o.get("spiffe")) != spiffe_in(c):
            run.failing({"kind": "correspondence", "what": "spiffe"}, [slim(c)],
                        "case %d: the template data says SpiffeCerts=%s, the inputs say internal route=%s" % (c["id"], o.get("spiffe"), spiffe_in(c)),
                        theorem="correspondence: SpiffeCerts = internalRoute && -enable-internal-routes", found_input=False)
        row = rows[c["id"]]
        cid, agree, spec, nontrivial, tag = row[:5]
        canon = {"world": {k: v for k, v in c["world"].items()}}
        run.count_case(canon, bool(nontrivial))
        run.cov["traces_validated_against_impl"] += 1
        fam[key] = fam.get(key, 0) + 1
        run.cov["bytes_checked"] = run.cov.get("bytes_checked", 0) + len(o.get("file") or "")
        if tag < 0:
            run.failing({"kind": "unparsable" if tag == -1 else "scope-accounting", "fam": c["fam"]}, [slim(c)],
                        "case %d: %s" % (cid, "the rendered file does not parse" if tag == -1 else "model and harness disagree about the list of scopes"),
                        theorem="Lex.Parser.parse_conf / Policies.Cases.zip_scopes", found_input=(tag == -1))
            continue
        det = row[5:]
        if c["fam"] == "vs":
            scopes = o["scopes"]
            per = [det[8 * i:8 * i + 8] for i in range(len(scopes))]
            tls_req, tls_rej, tls_agree = det[8 * len(scopes):8 * len(scopes) + 3]
            if verbose:
                for s, p in zip(scopes, per):
                    print("  scope %-28s must_fail=%d (not shadowed=%d, shadowed kind=%s) closed=%d reaches_pass=%d model_err=%d impl_err=%d flags_agree=%d impl_flags=%s"
                          % (s["id"], p[0], p[1], KCODE.get(p[2], "-"), p[3], p[4], p[5], p[6], p[7], s.get("flags")))
                print("  tls: required_reject=%d rejects=%d model_agrees=%d impl=%s" % (tls_req, tls_rej, tls_agree, o.get("ssl")))
            for s, p in zip(scopes, per):
                must, must_u, shk, closed, reaches, merr, oerr, fa = p
                run.cov["scopes_checked"] = run.cov.get("scopes_checked", 0) + 1
                if must:
                    run.cov["scopes_that_must_fail"] = run.cov.get("scopes_that_must_fail", 0) + 1
                if must and not closed:
                    # shadowed: every unusable reference of the scope comes after a usable-looking policy of its own kind
                    shadowed = not must_u and shk != 0
                    sig = {"kind": "scope-open", "cause": "shadowed-duplicate" if shadowed else "other",
                           "policy": KCODE.get(shk, "?") if shadowed else (c.get("gen") or {}).get("kind", "?")}
                    run.failing(sig, [slim(c)],
                                "scope %s of case %d references an unusable policy but the rendered scope does not fail closed "
                                "(impl error return=%d, reaches proxy_pass=%d, cause %s %s; gen=%s)"
                                % (s["id"], cid, oerr, reaches, sig["cause"], sig["policy"], json.dumps(c.get("gen"))),
                                theorem="Policies.Spec.scope_fails_closed on the real output")
                elif oerr and not closed:
                    run.failing({"kind": "error-return-not-rendered", "scope": s["id"].split(":")[0]}, [slim(c)],
                                "scope %s of case %d carries PoliciesErrorReturn but the rendered block is not closed" % (s["id"], cid),
                                theorem="Policies.Spec.scope_fails_closed on the real output")
                elif not oerr and not merr and not reaches and s["id"] != "spec" and not scopes[0]["err"] and scope_shape(c, s["id"]) in ("pass", "splits", "matches", "grpc", "errpage"):
                    # a scope nobody failed must still reach its upstream, otherwise `closed` would be vacuous
                    run.failing({"kind": "control-scope-unreachable", "scope": s["id"].split(":")[0]}, [slim(c)],
                                "scope %s of case %d did not fail, yet no proxy_pass is reachable from its entry location in the rendered file "
                                "(the reachability analysis of Policies.Spec no longer understands the template output)" % (s["id"], cid),
                                theorem="Policies.Spec.scope_reaches_pass (non-vacuity of S)", found_input=False)
                if not must and not oerr and s["id"] != "spec":
                    run.cov["open_scopes_reaching_upstream"] = run.cov.get("open_scopes_reaching_upstream", 0) + (1 if reaches else 0)
                if merr != oerr or not fa:
                    run.failing({"kind": "correspondence", "what": "scope-outcome", "scope": s["id"].split(":")[0]}, [slim(c)],
                                "model and implementation disagree on scope %s of case %d: model err=%d impl err=%d flags agree=%d impl flags=%s gen=%s"
                                % (s["id"], cid, merr, oerr, fa, s.get("flags"), json.dumps(c.get("gen"))),
                                theorem="correspondence Policies.Model.vs_views ~ GenerateVirtualServerConfig", found_input=False)
            if tls_req and not tls_rej:
                run.failing({"kind": "tls-not-rejected", "fam": "vs", "internal_route": spiffe_in(c), "mode": (c.get("gen") or {}).get("mode", "?")}, [slim(c)],
                            "VirtualServer host with an unusable TLS secret does not reject handshakes (case %d, impl ssl=%s)" % (cid, o.get("ssl")),
                            theorem="Policies.Spec.tls_rejects on the real output")
            elif not spec and all(not (p[0] and not p[3]) for p in per):
                run.failing({"kind": "tls-certificate", "fam": "vs"}, [slim(c)],
                            "VirtualServer host: the certificate the model expects is not the one served (case %d, impl ssl=%s)" % (cid, o.get("ssl")),
                            theorem="Policies.Spec.serves_cert on the real output")
            if not tls_agree:
                run.failing({"kind": "correspondence", "what": "ssl", "fam": "vs"}, [slim(c)],
                            "model and implementation disagree on the SSL config of case %d: impl=%s" % (cid, o.get("ssl")),
                            theorem="correspondence Policies.Model.vs_ssl_config ~ generateSSLConfig", found_input=False)
        else:
            tls_req, tls_rej, tls_agree, auth_req, enforced, auth_agree = det[:6]
            if verbose:
                print("  ingress: tls required_reject=%d rejects=%d agree=%d | auth secret unusable=%d enforced=%d agree=%d impl=%s"
                      % (tls_req, tls_rej, tls_agree, auth_req, enforced, auth_agree, o.get("auth")))
            ing = c["world"]["ing"]
            if tls_req and not tls_rej:
                run.failing({"kind": "tls-not-rejected", "fam": "ing", "internal_route": spiffe_in(c), "mode": (c.get("gen") or {}).get("mode", "?")}, [slim(c)],
                            "Ingress host with an unusable TLS secret does not reject handshakes (case %d, impl ssl=%s)" % (cid, o.get("ssl")),
                            theorem="Policies.Spec.tls_rejects on the real output")
            if (ing.get("jwt_key") or ing.get("basic")) and not enforced:
                run.failing({"kind": "auth-dropped", "fam": "ing", "mode": (c.get("gen") or {}).get("mode", "?")}, [slim(c)],
                            "Ingress authentication is not rendered (case %d, gen=%s, impl=%s)" % (cid, json.dumps(c.get("gen")), o.get("auth")),
                            theorem="Policies.Spec.auth_enforced on the real output")
            elif not spec and not (tls_req and not tls_rej):
                run.failing({"kind": "tls-certificate", "fam": "ing"}, [slim(c)],
                            "Ingress host: the certificate the model expects is not the one served (case %d, impl ssl=%s)" % (cid, o.get("ssl")),
                            theorem="Policies.Spec.serves_cert on the real output")
            if not agree:
                run.failing({"kind": "correspondence", "what": "ingress", "fam": "ing"}, [slim(c)],
                            "model and implementation disagree on Ingress case %d: tls agree=%d auth agree=%d impl ssl=%s auth=%s"
                            % (cid, tls_agree, auth_agree, o.get("ssl"), o.get("auth")),
                            theorem="correspondence Policies.Model.ingress_ssl_config / ingress_auth ~ addSSLConfig, generateJWTConfig, generateBasicAuthConfig",
                            found_input=False)


TRUSTED = [
    "Rocq 8.16.1 kernel incl. vm_compute (no native_compute); primitive 63-bit integers only to transport file bytes into the cases files (Lex/Pack.v), never in a theorem",
    "the NGINX tokenizer / block parser model coq/Lex (hand-written from ngx_conf_read_token; no nginx binary in the sandbox)",
    "NGINX semantics assumed by Policies.Spec: rewrite-module directives (return, rewrite, if, set, break) of a block run in order in the rewrite phase before any content handler (proxy_pass); a server-level return precedes location selection; ssl_reject_handshake on + no certificate rejects the handshake for that server_name",
    "hand-written model coq/Policies/Model.v of generatePolicies / add*Config / generateSSLConfig / addSSLConfig / generateJWTConfig / generateBasicAuthConfig / getPolicies, tied by harness c08 on every run",
    "harness/overlay/internal/verifh/c08 and the hooks internal/k8s/zz_verif_c08.go (controller assembled as in the unit tests), internal/configs/zz_verif_c08.go (re-runs the generation steps of addOrUpdateVirtualServer/-Ingress to read the template data; its bytes are compared with those of the real entry point)",
    "verdicts taken from the real code as data: validation.ValidatePolicy, secrets.ValidateSecret, App Protect GetAppResource, os.Stat on bundles; Go text/template is called, not modelled",
]


def check(run):
    n = 120 if run.tier == "quick" else 3000
    rc, log = C.coq_make(only=["Base", "Lex", "Policies", "Properties/C08.v"], tag="c08", timeout=1500)
    if rc != 0:
        run.failing({"kind": "proof-broken", "what": "make"}, [], "the Policies development no longer builds: %s" % log[-1200:],
                    theorem="coq/Policies", found_input=False)
    run.proof_obligations()
    binary = C.go_build("c08")
    out = os.path.join(C.WORK, "cases", "c08_%s.jsonl" % run.tier)
    rc, log = C.run_harness(binary, ["-seed", str(run.seed), "-n", str(n), "-out", out, "-tier", run.tier], timeout=3000)
    if rc != 0:
        raise C.TieBroken("c08 harness failed rc=%d: %s" % (rc, log[-1500:]))
    cases = C.read_jsonl(out)
    run.log("harness: %d cases" % len(cases))
    rows = evaluate(cases, run.tier)
    judge(run, cases, rows)
    prod = [c for c in cases if c["class"] == "product"]
    run.cov["exhaustive"] = True
    run.cov["exhaustive_product"] = {
        "kinds": sorted({c["gen"]["kind"] for c in prod}), "scopes": sorted({c["gen"]["scope"] for c in prod}),
        "positions": sorted({c["gen"]["pos"] for c in prod}), "editions": ["oss", "plus"],
        "failure_modes_per_kind": {k: sorted({c["gen"]["mode"] for c in prod if c["gen"]["kind"] == k}) for k in sorted({c["gen"]["kind"] for c in prod})},
        "product_cases": len(prod),
        "vs_tls_cases": len([c for c in cases if c["class"] == "vstls"]),
        "ingress_cases": len([c for c in cases if c["class"] == "ing"]),
        "random_cases": len([c for c in cases if c["class"] == "random"]),
        "history_cases": len([c for c in cases if c["class"] == "history"]),
    }
    for c in [x for x in cases if x["class"] == "product" and x["gen"]["mode"] != "ok"][:1] + [x for x in cases if x["class"] == "ing"][:1] + \
            [x for x in cases if x["class"] == "random"][:1]:
        run.sample(slim(c))
    run.cov["rule"] = ("product: every policy kind (accessControl, rateLimit, jwt with secret, jwt with jwksURI, basicAuth, ingressMTLS, egressMTLS, oidc, apiKey, "
                       "waf with apPolicy+apLogConf, waf with bundles) x scope (server, route, subroute of a VirtualServerRoute, policies inherited by a VirtualServerRoute from "
                       "the VirtualServer route, the same with the VirtualServerRoute in ANOTHER namespace that holds a usable policy of the same name referenced by a sibling subroute) x failure mode (none; policy missing / invalid / foreign class; per Secret slot: missing, existed valid / invalid and never referenced but DELETED before the resource arrived (driven through the real LocalSecretStore), invalid, unsupported type, each of the five "
                       "other supported types, other type and invalid; ingressMTLS without TLS; a second OIDC policy; tiered rate limits with conflicting defaults; APPolicy / "
                       "APLogConf missing / invalid; bundle / log bundle missing; securityLogs lists of 2 and 3 entries (APLogConfs, log bundles) all usable or with the unusable entry at every position -- the last APLogConf also referenced by a second WAF policy so that the VirtualServer-wide reference map holds it) x position (alone, after a valid accessControl policy, before one, after a valid policy of the "
                       "same kind, and three positions with a second reference of the SAME NAME in another namespace: usable default/<name> then unusable other/<name>, usable "
                       "other/<name> then unusable default/<name>, unusable first) x edition (OSS, Plus): ALL combinations, each through the real Configuration, createVirtualServerEx, Configurator and template; route shape "
                       "(pass, splits, matches, return, gRPC upstream, pass with error pages for 500/502/503) drawn per case.  vstls / ing: VirtualServer, regular Ingress and master+minion hosts x 15 TLS secret states (incl. created-then-deleted); Ingress JWT / "
                       "basic auth (on the Ingress, the master, the minion) x 13 secret states.  internal routes of NGINX Service Mesh (spec.internalRoute / nsm.nginx.com/internal-route with -enable-internal-routes) x the same TLS states.  history: the resource is first rendered with every dependency usable by the REAL controller (production constructor, fake clientsets, the harness plays the informers); then ONE dependency changes -- Policy deleted / made invalid / moved to a foreign class; every policy Secret, the VirtualServer / Ingress TLS Secret (plain and internal route), the Ingress JWT / basic-auth Secret deleted / made invalid / emptied / re-created with another supported type / with an unsupported type; the same TLS Secret events when the Secret the host names is ALSO the controller's wildcard or default-server TLS Secret (special secrets); APPolicy and APLogConf deleted / made invalid (also each of three APLogConfs of one securityLogs list) -- delivered through the real informer handler of the kind and the real lbc.sync (syncPolicy, syncSecret, syncAppProtectPolicy, syncAppProtectLogConf); the Secret events also inside a BATCH (the event and two Secrets nobody uses queued together, event first / last, drained by the loop of the real worker so that the real batch bookkeeping of sync holds reloads back); S is evaluated on what NGINX RUNS after the queue drained (the files as snapshotted by the manager at the last Reload), for every kind x scope.  random: 1-2 routes + optional VirtualServerRoute with 1-2 subroutes, 0-6 "
                       "references per scope from a pool of 18 policy names present in two namespaces in independent random states (same name in both namespaces in one list included), Secrets also created-then-deleted.  A case is distinct by its world; non-trivial = some scope must fail or TLS must reject.")
    run.cov["trusted_base"] = TRUSTED
    run.assumptions += ["NGINX itself is not run (no binary): that return in the rewrite phase pre-empts proxy_pass and that ssl_reject_handshake rejects is NGINX semantics, trusted",
                        "snippets are disabled in every generated case (a snippet could place arbitrary directives before the return)",
                        "TransportServer TLS termination is outside the property",
                        "App Protect DoS, rate-limit match value literally equal to default, and error pages on the failing route are not generated",
                        "histories: one event after one rendering; dependencies without a sync function (JWKS URI, bundle files on disk) have no event to drive"]


def replay(run, path):
    binary = C.go_build("c08")
    out = os.path.join(C.WORK, "cases", "c08_replay.jsonl")
    rc, log = C.run_harness(binary, ["-replay", path, "-out", out], timeout=600)
    if rc != 0:
        raise C.TieBroken("c08 harness failed on replay: %s" % log[-1500:])
    cases = C.read_jsonl(out)
    rows = evaluate(cases, "replay")
    for c in cases:
        o = c["obs"]
        print("replay case %d (%s, %s, gen=%s): accepted=%s error=%s panic=%s row=%s" % (
            c["id"], c["fam"], c["class"], json.dumps(c.get("gen")), o.get("accepted"), o.get("error"), o.get("panic"),
            (rows.get(c["id"]) or [])[:5]))
        print("  impl scopes: %s" % json.dumps(o.get("scopes")))
    judge(run, cases, rows, verbose=True)
