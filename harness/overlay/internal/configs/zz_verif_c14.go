//go:build verif

package configs

// Add-only hooks for property C14: run the real configuration generators on an extended
// resource and return, per generated upstream, the addresses of its `server` entries (the
// template writes exactly one `server <Address> ...;` line per entry).

import (
	"context"
	"io"
	"log/slog"
	"path"

	"github.com/nginx/kubernetes-ingress/internal/configs/version1"
	"github.com/nginx/kubernetes-ingress/internal/configs/version2"
	nl "github.com/nginx/kubernetes-ingress/internal/logger"
	"github.com/nginx/kubernetes-ingress/internal/nginx"
	conf_v1 "github.com/nginx/kubernetes-ingress/pkg/apis/configuration/v1"
	networking "k8s.io/api/networking/v1"
)

// VerifC14Upstream is one generated upstream block.
type VerifC14Upstream struct {
	Name    string
	Servers []string
}

func verifC14Ctx() context.Context {
	return nl.ContextWithLogger(context.Background(), slog.New(slog.NewTextHandler(io.Discard, nil)))
}

// VerifC14IngressUpstreams = generateNginxCfg(...).Upstreams.
func VerifC14IngressUpstreams(ingEx *IngressEx, isPlus, isResolverConfigured bool) []VerifC14Upstream {
	cfg, _ := generateNginxCfg(NginxCfgParams{
		staticParams:         &StaticConfigParams{},
		ingEx:                ingEx,
		BaseCfgParams:        NewDefaultConfigParams(verifC14Ctx(), isPlus),
		isPlus:               isPlus,
		isResolverConfigured: isResolverConfigured,
	})
	var out []VerifC14Upstream
	for _, u := range cfg.Upstreams {
		x := VerifC14Upstream{Name: u.Name}
		for _, s := range u.UpstreamServers {
			x.Servers = append(x.Servers, s.Address)
		}
		out = append(out, x)
	}
	return out
}

// VerifC14VirtualServerUpstreams = GenerateVirtualServerConfig(...).Upstreams.
func VerifC14VirtualServerUpstreams(vsEx *VirtualServerEx, isPlus, isResolverConfigured bool) []VerifC14Upstream {
	vsc := newVirtualServerConfigurator(NewDefaultConfigParams(verifC14Ctx(), isPlus), isPlus, isResolverConfigured, &StaticConfigParams{}, false, nil)
	cfg, _ := vsc.GenerateVirtualServerConfig(vsEx, nil, nil)
	var out []VerifC14Upstream
	for _, u := range cfg.Upstreams {
		x := VerifC14Upstream{Name: u.Name}
		for _, s := range u.Servers {
			x.Servers = append(x.Servers, s.Address)
		}
		out = append(out, x)
	}
	return out
}

// VerifC14TransportServerUpstreams = generateTransportServerConfig(...).Upstreams.
func VerifC14TransportServerUpstreams(tsEx *TransportServerEx, isPlus, isResolverConfigured bool) []VerifC14Upstream {
	cfg, _ := generateTransportServerConfig(transportServerConfigParams{
		transportServerEx:    tsEx,
		listenerPort:         tsEx.ListenerPort,
		isPlus:               isPlus,
		isResolverConfigured: isResolverConfigured,
	})
	var out []VerifC14Upstream
	for _, u := range cfg.Upstreams {
		x := VerifC14Upstream{Name: u.Name}
		for _, s := range u.Servers {
			x.Servers = append(x.Servers, s.Address)
		}
		out = append(out, x)
	}
	return out
}

// The placeholder constants the generators use when a backend has no endpoint.
func VerifC14Placeholders() (vs502, ingressDefault, streamNonExisting string) {
	return nginx502Server, "127.0.0.1:8181", nginxNonExistingUnixSocket
}

// VerifC14Context is a context carrying a logger that discards everything.
func VerifC14Context() context.Context { return verifC14Ctx() }

// VerifC14NewConfigurator builds the production Configurator (NewConfigurator with the
// production templates of repoDir) over the given Manager; reloads are enabled by the
// controller's first sync as in production.
func VerifC14NewConfigurator(repoDir string, mgr nginx.Manager, plus bool) (*Configurator, error) {
	d := path.Join(repoDir, "internal", "configs")
	main, ing, vs, ts := "nginx.tmpl", "nginx.ingress.tmpl", "nginx.virtualserver.tmpl", "nginx.transportserver.tmpl"
	if plus {
		main, ing, vs, ts = "nginx-plus.tmpl", "nginx-plus.ingress.tmpl", "nginx-plus.virtualserver.tmpl", "nginx-plus.transportserver.tmpl"
	}
	te, err := version1.NewTemplateExecutor(path.Join(d, "version1", main), path.Join(d, "version1", ing))
	if err != nil {
		return nil, err
	}
	te2, err := version2.NewTemplateExecutor(path.Join(d, "version2", vs), path.Join(d, "version2", ts))
	if err != nil {
		return nil, err
	}
	ctx := verifC14Ctx()
	static := &StaticConfigParams{
		NginxStatus:           true,
		NginxStatusAllowCIDRs: []string{"127.0.0.1"},
		NginxStatusPort:       8080,
		NginxVersion:          nginx.NewVersion("nginx version: nginx/1.25.3 (nginx-plus-r31)"),
	}
	return NewConfigurator(ConfiguratorParams{
		NginxManager:       mgr,
		StaticCfgParams:    static,
		Config:             NewDefaultConfigParams(ctx, plus),
		MGMTCfgParams:      NewDefaultMGMTConfigParams(ctx),
		TemplateExecutor:   te,
		TemplateExecutorV2: te2,
		IsPlus:             plus,
		NginxVersion:       static.NginxVersion,
	}), nil
}

// VerifC14IngressUpstreamName = getNameForUpstream (host "" for the default backend).
func VerifC14IngressUpstreamName(ing *networking.Ingress, host string, backend *networking.IngressBackend) string {
	return getNameForUpstream(ing, host, backend)
}

// VerifC14TransportServerUpstreamName = newUpstreamNamerForTransportServer(ts).GetNameForUpstream(name).
func VerifC14TransportServerUpstreamName(ts *conf_v1.TransportServer, name string) string {
	return newUpstreamNamerForTransportServer(ts).GetNameForUpstream(name)
}
