(* C20 -- derived Certificates / DNSEndpoints track their VirtualServer, spare foreign ones.
   Executable model of internal/certmanager/sync.go + helper.go and internal/externaldns/sync.go
   at the level of the fields those functions read and write.  No proofs in this file.

   The cluster (fake clientset object tracker in the harness, API server in production) and the
   informer cache are one store per resource kind: the harness refreshes the listers from the
   tracker after every synchronization, through the JSON round trip that the API server and the
   watch perform ([norm_dns] is what that round trip does to the modelled fields).
   Inside one synchronization the lister is the store as it was when the synchronization began
   (the code reads the lister after its own writes; the informer has not caught up by then). *)
From Coq Require Import List ZArith String Ascii Bool.
From NIC Require Import Base.SMap.
Import ListNotations.
Open Scope string_scope.

Definition kvs := list (string * string).   (* a Go map[string]string, sorted by key; nil = [] *)

(* ------------------------------------------------------------------ ownership *)

(* metav1.GetControllerOf: the owner reference with controller=true, if any.
   Foreign for a VirtualServer with uid u = [OCtl u'] with u' <> u (metav1.IsControlledBy compares
   the UID only). *)
Inductive owner := ONone | OCtl (uid : string).

Definition controlled_by (o : owner) (uid : string) : bool :=
  match o with ONone => false | OCtl u => String.eqb u uid end.

(* ------------------------------------------------------------------ objects *)

Record cert_spec := mkCertSpec {
  c_cn : string; c_dns : list string; c_secret : string;
  c_iname : string; c_ikind : string; c_igroup : string;
  c_dur : option Z; c_renew : option Z;         (* nanoseconds *)
  c_usages : list string;
  c_is_ca : bool }.                             (* stands for every spec field the controller never sets *)

Record cert := mkCert {
  c_name : string; c_owner : owner; c_labels : kvs;
  c_temp : option string;                       (* annotation cert-manager.io/issue-temporary-certificate *)
  c_spec : cert_spec }.

Record endpoint := mkEndpoint {
  e_dns_name : string; e_targets : list string; e_rtype : string; e_ttl : Z;
  e_labels : option kvs;                        (* nil map vs non-nil map: cmp.Equal tells them apart *)
  e_provider : kvs }.                           (* list of (name, value); nil = [] *)

Record dnsep := mkDnsep {
  d_name : string; d_owner : owner; d_labels : kvs; d_eps : list endpoint }.

(* ------------------------------------------------------------------ VirtualServer *)

(* time.ParseDuration is an oracle: the harness supplies its verdict *)
Inductive dur := DNone | DBad | DOk (ns : Z).

Record certmgr := mkCertmgr {
  cm_cluster_issuer : string; cm_issuer : string; cm_issuer_kind : string; cm_issuer_group : string;
  cm_common_name : string; cm_duration : dur; cm_renew_before : dur; cm_usages : string;
  cm_issue_temp : bool }.

Record tls := mkTls { t_secret : string; t_cm : option certmgr }.

Record extdns := mkExtdns {
  x_enable : bool; x_rtype : string; x_ttl : Z; x_labels : option kvs; x_provider : kvs }.

(* validation.IsValidIP + netutils.ParseIPSloppy(...).To4() are oracles *)
Inductive ipclass := IPv4 | IPv6 | IPBad.
Record extep := mkExtep { ee_ip : string; ee_host : string; ee_class : ipclass }.

Record vs := mkVs {
  v_name : string; v_uid : string; v_labels : kvs; v_host : string;
  v_tls : option tls; v_xdns : extdns;
  v_endpoints : option (list extep) }.          (* status.externalEndpoints; None = nil *)

(* ------------------------------------------------------------------ API calls, faults *)

Inductive fault := FConflict | FExists | FInternal.
Inductive result := ROk | RFault (f : fault) | ROther.   (* error class returned by the sync function *)
Inductive verb := VCreate | VUpdate | VDelete.
Definition action := (verb * string)%type.

(* one entry per write issued: None = the write succeeds; an exhausted list = no more faults *)
Definition faults := list (option fault).
Definition pop (fs : faults) : option fault * faults :=
  match fs with [] => (None, []) | f :: r => (f, r) end.

(* ------------------------------------------------------------------ boolean equalities *)

Fixpoint list_eqb {A} (eqb : A -> A -> bool) (a b : list A) : bool :=
  match a, b with
  | [], [] => true
  | x :: a', y :: b' => eqb x y && list_eqb eqb a' b'
  | _, _ => false
  end.

Definition opt_eqb {A} (eqb : A -> A -> bool) (a b : option A) : bool :=
  match a, b with
  | None, None => true
  | Some x, Some y => eqb x y
  | _, _ => false
  end.

Definition kv_eqb (a b : string * string) : bool := String.eqb (fst a) (fst b) && String.eqb (snd a) (snd b).
Definition kvs_eqb : kvs -> kvs -> bool := list_eqb kv_eqb.
Definition strs_eqb : list string -> list string -> bool := list_eqb String.eqb.

Definition owner_eqb (a b : owner) : bool :=
  match a, b with
  | ONone, ONone => true
  | OCtl x, OCtl y => String.eqb x y
  | _, _ => false
  end.

Definition cert_spec_eqb (a b : cert_spec) : bool :=
  String.eqb (c_cn a) (c_cn b) && strs_eqb (c_dns a) (c_dns b) && String.eqb (c_secret a) (c_secret b) &&
  String.eqb (c_iname a) (c_iname b) && String.eqb (c_ikind a) (c_ikind b) && String.eqb (c_igroup a) (c_igroup b) &&
  opt_eqb Z.eqb (c_dur a) (c_dur b) && opt_eqb Z.eqb (c_renew a) (c_renew b) &&
  strs_eqb (c_usages a) (c_usages b) && Bool.eqb (c_is_ca a) (c_is_ca b).

Definition cert_eqb (a b : cert) : bool :=
  String.eqb (c_name a) (c_name b) && owner_eqb (c_owner a) (c_owner b) && kvs_eqb (c_labels a) (c_labels b) &&
  opt_eqb String.eqb (c_temp a) (c_temp b) && cert_spec_eqb (c_spec a) (c_spec b).

Definition endpoint_eqb (a b : endpoint) : bool :=
  String.eqb (e_dns_name a) (e_dns_name b) && strs_eqb (e_targets a) (e_targets b) &&
  String.eqb (e_rtype a) (e_rtype b) && Z.eqb (e_ttl a) (e_ttl b) &&
  opt_eqb kvs_eqb (e_labels a) (e_labels b) && kvs_eqb (e_provider a) (e_provider b).

Definition dnsep_eqb (a b : dnsep) : bool :=
  String.eqb (d_name a) (d_name b) && owner_eqb (d_owner a) (d_owner b) && kvs_eqb (d_labels a) (d_labels b) &&
  list_eqb endpoint_eqb (d_eps a) (d_eps b).

(* ------------------------------------------------------------------ certmanager/sync.go *)

Definition nonempty (s : string) : bool := negb (String.eqb s "").

(* issuerForVirtualServer; None = error *)
Definition issuer_for (cm : certmgr) : option (string * string * string) :=
  let iOK := nonempty (cm_issuer cm) in
  let cOK := nonempty (cm_cluster_issuer cm) in
  let kOK := nonempty (cm_issuer_kind cm) in
  let gOK := nonempty (cm_issuer_group cm) in
  let name := if cOK then cm_cluster_issuer cm else if iOK then cm_issuer cm else "" in
  let kind := if kOK then cm_issuer_kind cm
              else if cOK then "ClusterIssuer" else if iOK then "Issuer" else "" in
  let group := cm_issuer_group cm in
  if negb (nonempty name) || (iOK && cOK) || (cOK && gOK) || (cOK && kOK) then None
  else Some (name, kind, group).

(* strings.Split(s, ",") *)
Fixpoint split (sep : ascii) (s : string) : list string :=
  match s with
  | EmptyString => [EmptyString]
  | String c r =>
      if Ascii.eqb c sep then EmptyString :: split sep r
      else match split sep r with
           | [] => [String c EmptyString]
           | h :: t => String c h :: t
           end
  end.

(* strings.Trim(s, " ") *)
Fixpoint ltrim (s : string) : string :=
  match s with
  | String c r => if Ascii.eqb c " "%char then ltrim r else s
  | EmptyString => EmptyString
  end.
Fixpoint rtrim (s : string) : string :=
  match s with
  | EmptyString => EmptyString
  | String c r => let r' := rtrim r in
                  if Ascii.eqb c " "%char && String.eqb r' "" then EmptyString else String c r'
  end.
Definition trim (s : string) : string := rtrim (ltrim s).

(* apiutil.KeyUsageType / ExtKeyUsageType of cert-manager v1.17: the keys of the two tables *)
Definition known_usages : list string :=
  ["signing"; "digital signature"; "content commitment"; "key encipherment"; "key agreement";
   "data encipherment"; "cert sign"; "crl sign"; "encipher only"; "decipher only";
   "any"; "server auth"; "client auth"; "code signing"; "email protection"; "s/mime";
   "ipsec end system"; "ipsec tunnel"; "ipsec user"; "timestamping"; "ocsp signing";
   "microsoft sgc"; "netscape sgc"].
Definition usage_ok (u : string) : bool := existsb (String.eqb u) known_usages.

Definition default_usages : list string := ["digital signature"; "key encipherment"].

Definition dur_bad (d : dur) : bool := match d with DBad => true | _ => false end.
Definition dur_val (d : dur) : option Z := match d with DOk n => Some n | DBad => Some 0%Z | DNone => None end.

(* buildCertificates (the object it builds) + translateVsSpec; None = error (nothing is written) *)
Definition desired_cert (v : vs) (t : tls) (cm : certmgr) : option cert :=
  match issuer_for cm with
  | None => None
  | Some (iname, ikind, igroup) =>
      let usages := if nonempty (cm_usages cm) then map trim (split ","%char (cm_usages cm)) else default_usages in
      if dur_bad (cm_duration cm) || dur_bad (cm_renew_before cm) || negb (forallb usage_ok usages) then None
      else Some {| c_name := t_secret t; c_owner := OCtl (v_uid v); c_labels := v_labels v;
                   c_temp := if cm_issue_temp cm then Some "true" else None;
                   c_spec := {| c_cn := cm_common_name cm; c_dns := [v_host v]; c_secret := t_secret t;
                                c_iname := iname; c_ikind := ikind; c_igroup := igroup;
                                c_dur := dur_val (cm_duration cm); c_renew := dur_val (cm_renew_before cm);
                                c_usages := usages; c_is_ca := false |} |}
  end.

(* certNeedsUpdate: exactly the fields it compares.  The seven comparisons of the current code are
   fixed; [cs] says which of the four remaining fields that translateVsSpec / the issuer settings
   determine are compared as well (all false = the code as it stands; all true = the code with
   fixes/F22.diff applied).  The harness probes the real function for these four bits on every run. *)
Record cmpset := mkCmpset { cs_dur : bool; cs_renew : bool; cs_usages : bool; cs_igroup : bool }.
Definition cs_current : cmpset := mkCmpset false false false false.
Definition cs_fixed : cmpset := mkCmpset true true true true.

Definition cert_needs_update (cs : cmpset) (a b : cert) : bool :=
  negb (String.eqb (c_name a) (c_name b)) ||
  negb (kvs_eqb (c_labels a) (c_labels b)) ||
  negb (String.eqb (c_cn (c_spec a)) (c_cn (c_spec b))) ||
  negb (strs_eqb (c_dns (c_spec a)) (c_dns (c_spec b))) ||
  negb (String.eqb (c_secret (c_spec a)) (c_secret (c_spec b))) ||
  negb (String.eqb (c_iname (c_spec a)) (c_iname (c_spec b))) ||
  negb (String.eqb (c_ikind (c_spec a)) (c_ikind (c_spec b))) ||
  (cs_igroup cs && negb (String.eqb (c_igroup (c_spec a)) (c_igroup (c_spec b)))) ||
  (cs_dur cs && negb (opt_eqb Z.eqb (c_dur (c_spec a)) (c_dur (c_spec b)))) ||
  (cs_renew cs && negb (opt_eqb Z.eqb (c_renew (c_spec a)) (c_renew (c_spec b)))) ||
  (cs_usages cs && negb (strs_eqb (c_usages (c_spec a)) (c_usages (c_spec b)))).

(* updateCrt := existingCrt.DeepCopy(); updateCrt.Spec = crt.Spec; updateCrt.Labels = crt.Labels *)
Definition cert_updated (e crt : cert) : cert :=
  {| c_name := c_name e; c_owner := c_owner e; c_labels := c_labels crt; c_temp := c_temp e;
     c_spec := c_spec crt |}.

(* findCertificatesToBeRemoved over the lister content, in lister order *)
Definition certs_to_remove (uid secret : string) (st : smap cert) : list string :=
  map (fun kv => c_name (snd kv))
      (filter (fun kv => controlled_by (c_owner (snd kv)) uid &&
                         negb (String.eqb (c_secret (c_spec (snd kv))) secret)) st).

(* the Delete calls, one fault-oracle entry each; the first failure aborts *)
Fixpoint delete_all (names : list string) (fs : faults) (st : smap cert)
  : smap cert * list action * result :=
  match names with
  | [] => (st, [], ROk)
  | n :: r =>
      match pop fs with
      | (Some f, _) => (st, [(VDelete, n)], RFault f)
      | (None, fs') =>
          match lookup n st with
          | None => (st, [(VDelete, n)], ROther)          (* NotFound from the API server *)
          | Some _ => let '(st', lg, res) := delete_all r fs' (remove n st) in
                      (st', (VDelete, n) :: lg, res)
          end
      end
  end.

(* buildCertificates: what is to be written (newCrts / updateCrts; at most one of them) *)
Inductive plan := PNone | PCreate (c : cert) | PUpdate (c : cert).

Definition build_certificates (cs : cmpset) (uid secret : string) (crt : cert) (st : smap cert) : plan :=
  match lookup secret st with
  | None => PCreate crt
  | Some e =>
      (* GetControllerOf(existing) == nil, or not IsControlledBy(existing, vs): refuse *)
      if controlled_by (c_owner e) uid && cert_needs_update cs e crt then PUpdate (cert_updated e crt) else PNone
  end.

(* the Create / Update call, then the Delete calls of the garbage collection *)
Definition write_then_gc (vb : verb) (secret : string) (c : cert) (gc : list string) (fs : faults) (st : smap cert)
  : smap cert * list action * result :=
  match pop fs with
  | (Some f, _) => (st, [(vb, secret)], RFault f)
  | (None, fs') => let '(st', lg, res) := delete_all gc fs' (insert secret c st) in
                   (st', (vb, secret) :: lg, res)
  end.

(* SyncFnFor.  [ord] is the order in which the lister (a Go map behind cache.Indexer) hands out
   the certificates of the namespace: any permutation, chosen anew for every call.  The list of
   certificates to remove is computed from the lister, i.e. from the store as it was before the
   Create / Update of this call. *)
Definition sync_cert (cs : cmpset) (ord : list string -> list string) (v : vs) (fs : faults) (st : smap cert)
  : smap cert * list action * result :=
  match v_tls v with
  | None => (st, [], ROk)
  | Some t =>
      match t_cm t with
      | None => (st, [], ROk)
      | Some cm =>
          match desired_cert v t cm with
          | None => (st, [], ROther)
          | Some crt =>
              let secret := t_secret t in
              let gc := ord (certs_to_remove (v_uid v) secret st) in
              match build_certificates cs (v_uid v) secret crt st with
              | PNone => delete_all gc fs st
              | PCreate c => write_then_gc VCreate secret c gc fs st
              | PUpdate c => write_then_gc VUpdate secret c gc fs st
              end
          end
      end
  end.

(* ------------------------------------------------------------------ externaldns/sync.go *)

(* getValidTargets: (targets, recordA, recordAAAA, recordCNAME) *)
Fixpoint scan_eps (eps : list extep) : list string * bool * bool * bool :=
  match eps with
  | [] => ([], false, false, false)
  | e :: r =>
      let '(ts, a, aaaa, cn) := scan_eps r in
      if nonempty (ee_ip e) then
        match ee_class e with
        | IPBad => (ts, a, aaaa, cn)
        | IPv4 => (ee_ip e :: ts, true, aaaa, cn)
        | IPv6 => (ee_ip e :: ts, a, true, cn)
        end
      else if nonempty (ee_host e) then (ee_host e :: ts, a, aaaa, true)
      else (ts, a, aaaa, cn)
  end.

Definition valid_targets (eps : list extep) : option (list string * string) :=
  let '(ts, a, aaaa, cn) := scan_eps eps in
  match ts with
  | [] => None
  | _ => if a then Some (ts, "A") else if aaaa then Some (ts, "AAAA")
         else if cn then Some (ts, "CNAME") else None
  end.

(* buildDNSEndpoint: the object it builds *)
Definition desired_dns (v : vs) (targets : list string) (rtype : string) : dnsep :=
  let x := v_xdns v in
  {| d_name := v_name v; d_owner := OCtl (v_uid v); d_labels := v_labels v;
     d_eps := [ {| e_dns_name := v_host v; e_targets := targets;
                   e_rtype := if nonempty (x_rtype x) then x_rtype x else rtype;
                   e_ttl := x_ttl x; e_labels := x_labels x; e_provider := x_provider x |} ] |}.

(* extdnsendpointNeedsUpdate: name, labels, cmp.Equal on the whole spec *)
Definition dns_needs_update (a b : dnsep) : bool :=
  negb (String.eqb (d_name a) (d_name b)) ||
  negb (kvs_eqb (d_labels a) (d_labels b)) ||
  negb (list_eqb endpoint_eqb (d_eps a) (d_eps b)).

Definition dns_updated (e d : dnsep) : dnsep :=
  {| d_name := d_name d; d_owner := d_owner e; d_labels := d_labels d; d_eps := d_eps d |}.

(* what the JSON round trip (labels,omitempty) does to an object on its way into the cluster
   and back into the informer cache: an empty non-nil label map comes back as nil *)
Definition norm_ep (e : endpoint) : endpoint :=
  {| e_dns_name := e_dns_name e; e_targets := e_targets e; e_rtype := e_rtype e; e_ttl := e_ttl e;
     e_labels := match e_labels e with Some [] => None | l => l end; e_provider := e_provider e |}.
Definition norm_dns (d : dnsep) : dnsep :=
  {| d_name := d_name d; d_owner := d_owner d; d_labels := d_labels d; d_eps := map norm_ep (d_eps d) |}.

(* buildDNSEndpoint: what is to be written *)
Inductive dplan := DPNone | DPCreate (d : dnsep) | DPUpdate (d : dnsep).

Definition build_dnsendpoint (v : vs) (d : dnsep) (st : smap dnsep) : dplan :=
  match lookup (v_name v) st with
  | None => DPCreate d
  | Some e =>
      if controlled_by (d_owner e) (v_uid v) && dns_needs_update e d then DPUpdate (dns_updated e d) else DPNone
  end.

Definition sync_dns (v : vs) (fs : faults) (st : smap dnsep) : smap dnsep * list action * result :=
  if negb (x_enable (v_xdns v)) then (st, [], ROk) else
  match v_endpoints v with
  | None => (st, [], ROther)
  | Some eps =>
      match valid_targets eps with
      | None => (st, [], ROther)
      | Some (targets, rtype) =>
          let d := desired_dns v targets rtype in
          let name := v_name v in
          match build_dnsendpoint v d st with
          | DPNone => (st, [], ROk)
          | DPCreate c =>
              match pop fs with
              | (Some FExists, _) => (st, [(VCreate, name)], ROther)   (* wrapped in a plain error *)
              | (Some f, _) => (st, [(VCreate, name)], RFault f)
              | (None, _) => (insert name (norm_dns c) st, [(VCreate, name)], ROk)
              end
          | DPUpdate u =>
              match pop fs with
              | (Some f, _) => (st, [(VUpdate, name)], RFault f)
              | (None, _) => (insert name (norm_dns u) st, [(VUpdate, name)], ROk)
              end
          end
      end
  end.

(* ------------------------------------------------------------------ lister cache vs cluster

   In production the synchronization functions READ the informer cache (the lister) and WRITE to
   the API server; the watch carries every successful write back into the cache.  [sync_cert2] /
   [sync_dns2] keep the two apart: every lookup and the removal list use [cache], every write goes
   to [cluster] and is answered by the API server on the cluster's own content (create of an
   existing name: AlreadyExists; update / delete of a missing name: NotFound).  The cache is not an
   output: the functions must not write into the objects the lister hands out (the harness compares
   every cache object with a deep copy taken before the call).

   [sync_cert] / [sync_dns] above are the case cache = cluster ("the lister reflects the cluster"),
   proved in Proofs.v ([sync_cert2_coherent], [sync_dns2_coherent]).  That equation is the explicit
   hypothesis of every C20 theorem; the harness establishes it by delivering the watch event of
   every successful write -- and of nothing else -- before the next synchronization, and reports the
   cache separately whenever it differs from the cluster. *)

Definition write_then_gc2 (vb : verb) (secret : string) (c : cert) (gc : list string) (fs : faults) (cluster : smap cert)
  : smap cert * list action * result :=
  match pop fs with
  | (Some f, _) => (cluster, [(vb, secret)], RFault f)
  | (None, fs') =>
      match vb, lookup secret cluster with
      | VCreate, Some _ => (cluster, [(vb, secret)], RFault FExists)   (* AlreadyExists from the API server *)
      | VUpdate, None => (cluster, [(vb, secret)], ROther)             (* NotFound *)
      | _, _ => let '(st', lg, res) := delete_all gc fs' (insert secret c cluster) in
                (st', (vb, secret) :: lg, res)
      end
  end.

Definition sync_cert2 (cs : cmpset) (ord : list string -> list string) (v : vs) (fs : faults)
           (cache cluster : smap cert) : smap cert * list action * result :=
  match v_tls v with
  | None => (cluster, [], ROk)
  | Some t =>
      match t_cm t with
      | None => (cluster, [], ROk)
      | Some cm =>
          match desired_cert v t cm with
          | None => (cluster, [], ROther)
          | Some crt =>
              let secret := t_secret t in
              let gc := ord (certs_to_remove (v_uid v) secret cache) in
              match build_certificates cs (v_uid v) secret crt cache with
              | PNone => delete_all gc fs cluster
              | PCreate c => write_then_gc2 VCreate secret c gc fs cluster
              | PUpdate c => write_then_gc2 VUpdate secret c gc fs cluster
              end
          end
      end
  end.

Definition sync_dns2 (v : vs) (fs : faults) (cache cluster : smap dnsep) : smap dnsep * list action * result :=
  if negb (x_enable (v_xdns v)) then (cluster, [], ROk) else
  match v_endpoints v with
  | None => (cluster, [], ROther)
  | Some eps =>
      match valid_targets eps with
      | None => (cluster, [], ROther)
      | Some (targets, rtype) =>
          let d := desired_dns v targets rtype in
          let name := v_name v in
          match build_dnsendpoint v d cache with
          | DPNone => (cluster, [], ROk)
          | DPCreate c =>
              match pop fs with
              | (Some FExists, _) => (cluster, [(VCreate, name)], ROther)
              | (Some f, _) => (cluster, [(VCreate, name)], RFault f)
              | (None, _) =>
                  match lookup name cluster with
                  | Some _ => (cluster, [(VCreate, name)], ROther)       (* AlreadyExists, wrapped *)
                  | None => (insert name (norm_dns c) cluster, [(VCreate, name)], ROk)
                  end
              end
          | DPUpdate u =>
              match pop fs with
              | (Some f, _) => (cluster, [(VUpdate, name)], RFault f)
              | (None, _) =>
                  match lookup name cluster with
                  | None => (cluster, [(VUpdate, name)], ROther)         (* NotFound *)
                  | Some _ => (insert name (norm_dns u) cluster, [(VUpdate, name)], ROk)
                  end
              end
          end
      end
  end.

(* ------------------------------------------------------------------ histories *)

(* one event = the VirtualServer as it is now (any edit, or none, since the previous event; another
   VirtualServer of the namespace; the same name with a new uid), the lister order, the faults *)
Record event := mkEvent { ev_vs : vs; ev_ord : list string -> list string; ev_cfaults : faults; ev_dfaults : faults }.

Definition step_cert (cs : cmpset) (st : smap cert) (e : event) : smap cert :=
  fst (fst (sync_cert cs (ev_ord e) (ev_vs e) (ev_cfaults e) st)).
Definition step_dns (st : smap dnsep) (e : event) : smap dnsep :=
  fst (fst (sync_dns (ev_vs e) (ev_dfaults e) st)).

Definition run_cert (cs : cmpset) (h : list event) (st : smap cert) : smap cert := fold_left (step_cert cs) h st.
Definition run_dns (h : list event) (st : smap dnsep) : smap dnsep := fold_left step_dns h st.

(* the trace of a history: per event the store it started from and the actions it issued *)
Fixpoint trace_cert (cs : cmpset) (h : list event) (st : smap cert) : list (smap cert * vs * list action) :=
  match h with
  | [] => []
  | e :: r => (st, ev_vs e, snd (fst (sync_cert cs (ev_ord e) (ev_vs e) (ev_cfaults e) st))) :: trace_cert cs r (step_cert cs st e)
  end.
Fixpoint trace_dns (h : list event) (st : smap dnsep) : list (smap dnsep * vs * list action) :=
  match h with
  | [] => []
  | e :: r => (st, ev_vs e, snd (fst (sync_dns (ev_vs e) (ev_dfaults e) st))) :: trace_dns r (step_dns st e)
  end.

(* histories over (cache, cluster): a synchronization reads the first and writes the second; then the
   watch delivers, i.e. the cache becomes the cluster, before the next event *)
Definition step_cert2 (cs : cmpset) (w : smap cert * smap cert) (e : event) : smap cert * smap cert :=
  let c' := fst (fst (sync_cert2 cs (ev_ord e) (ev_vs e) (ev_cfaults e) (fst w) (snd w))) in (c', c').
Definition step_dns2 (w : smap dnsep * smap dnsep) (e : event) : smap dnsep * smap dnsep :=
  let d' := fst (fst (sync_dns2 (ev_vs e) (ev_dfaults e) (fst w) (snd w))) in (d', d').
Definition run_cert2 (cs : cmpset) (h : list event) (w : smap cert * smap cert) := fold_left (step_cert2 cs) h w.
Definition run_dns2 (h : list event) (w : smap dnsep * smap dnsep) := fold_left step_dns2 h w.

(* ------------------------------------------------------------------ what the property asks for *)

(* the Certificate a VirtualServer needs, if it needs one and its settings are well-formed *)
Definition wanted_cert (v : vs) : option cert :=
  match v_tls v with
  | Some t => match t_cm t with Some cm => desired_cert v t cm | None => None end
  | None => None
  end.
Definition cert_feature_on (v : vs) : bool :=
  match v_tls v with Some t => match t_cm t with Some _ => true | None => false end | None => false end.

(* the DNSEndpoint a VirtualServer needs, as the cluster stores it *)
Definition wanted_dns (v : vs) : option dnsep :=
  if x_enable (v_xdns v) then
    match v_endpoints v with
    | Some eps => match valid_targets eps with
                  | Some (ts, rt) => Some (norm_dns (desired_dns v ts rt))
                  | None => None
                  end
    | None => None
    end
  else None.
