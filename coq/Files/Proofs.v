(* C10 -- proofs: for every history, the directories are the image of the served set under the
   file-name scheme (given injectivity on the resources involved), a delete removes exactly one
   file, the passthrough map is exact; restart keeps this only when nothing was deleted while down. *)
From Coq Require Import List ZArith String Ascii Bool Arith Lia.
From NIC Require Import Base.SMap Files.Model Files.Spec Names.FileNames.
Import ListNotations.
Open Scope string_scope.

(* ---------- resource identifiers and the served set ---------- *)

Lemma kind_eqb_spec a b : kind_eqb a b = true <-> a = b.
Proof. destruct a, b; cbn; split; congruence. Qed.

Lemma rid_eqb_spec a b : rid_eqb a b = true <-> a = b.
Proof.
  destruct a as [k n m], b as [k' n' m']. unfold rid_eqb. cbn. split.
  - intros H. apply andb_prop in H. destruct H as [H H3]. apply andb_prop in H. destruct H as [H1 H2].
    apply kind_eqb_spec in H1. apply String.eqb_eq in H2. apply String.eqb_eq in H3. congruence.
  - intros H. inversion H; subst. rewrite (proj2 (kind_eqb_spec k' k') eq_refl), !String.eqb_refl. reflexivity.
Qed.

Lemma rid_eqb_refl a : rid_eqb a a = true.
Proof. apply rid_eqb_spec. reflexivity. Qed.

Lemma rid_eqb_neq a b : a <> b -> rid_eqb a b = false.
Proof. intros H. destruct (rid_eqb a b) eqn:E; [|reflexivity]. apply rid_eqb_spec in E. contradiction. Qed.

Lemma rid_dec (a b : rid) : {a = b} + {a <> b}.
Proof. destruct (rid_eqb a b) eqn:E; [left; apply rid_eqb_spec; assumption|right; intros ->; rewrite rid_eqb_refl in E; discriminate]. Qed.

Lemma aget_aunset_eq r s : aget r (aunset r s) = None.
Proof.
  induction s as [|[r' i] s IH]; cbn; [reflexivity|].
  destruct (rid_eqb r r') eqn:E; cbn; [exact IH|]. rewrite E. exact IH.
Qed.

Lemma aget_aunset_neq r r' s : r' <> r -> aget r' (aunset r s) = aget r' s.
Proof.
  intros Hne. induction s as [|[q i] s IH]; cbn; [reflexivity|].
  destruct (rid_eqb r q) eqn:E; cbn.
  - apply rid_eqb_spec in E. subst q. rewrite (rid_eqb_neq _ _ Hne). exact IH.
  - destruct (rid_eqb r' q); [reflexivity|exact IH].
Qed.

Lemma aget_aset_eq r i s : aget r (aset r i s) = Some i.
Proof. unfold aset. cbn. rewrite rid_eqb_refl. reflexivity. Qed.

Lemma aget_aset_neq r r' i s : r' <> r -> aget r' (aset r i s) = aget r' s.
Proof. intros Hne. unfold aset. cbn. rewrite (rid_eqb_neq _ _ Hne). apply aget_aunset_neq. assumption. Qed.

(* ---------- one directory ---------- *)

Definition slashfree (r : rid) : Prop := occurs "/"%char (rns r) = false /\ occurs "/"%char (rname r) = false.

(* the resource [r] does not share its file with another served resource of its directory *)
Definition alone (r : rid) (s : served) : Prop :=
  forall r', aget r' s <> None -> is_stream r' = is_stream r -> path_of r' = path_of r -> r' = r.

Lemma dir_add st dir s r i :
  dir_matches st dir s -> is_stream r = st -> alone r s ->
  dir_matches st (insert (path_of r) (s_stamp i) dir) (aset r i s).
Proof.
  intros [M1 M2] Hst Hal. split.
  - intros r' i' Hg Hs'. destruct (rid_dec r' r) as [->|Hne].
    + rewrite aget_aset_eq in Hg. inversion Hg; subst. apply lookup_insert_eq.
    + rewrite aget_aset_neq in Hg by assumption.
      rewrite lookup_insert_neq; [apply M1; assumption|].
      intros Hp. apply Hne. apply Hal; [congruence|congruence|assumption].
  - intros f v Hl. destruct (string_dec f (path_of r)) as [->|Hne].
    + rewrite lookup_insert_eq in Hl. inversion Hl; subst. exists r, i. rewrite aget_aset_eq. auto.
    + rewrite lookup_insert_neq in Hl by assumption. destruct (M2 _ _ Hl) as (r0 & i0 & H1 & H2 & H3 & H4).
      exists r0, i0. repeat split; try assumption. rewrite aget_aset_neq; [assumption|]. intros ->. congruence.
Qed.

Lemma dir_add_other st dir s r i :
  dir_matches st dir s -> is_stream r <> st -> dir_matches st dir (aset r i s).
Proof.
  intros [M1 M2] Hst. split.
  - intros r' i' Hg Hs'. rewrite aget_aset_neq in Hg by congruence. apply M1; assumption.
  - intros f v Hl. destruct (M2 _ _ Hl) as (r0 & i0 & H1 & H2 & H3 & H4).
    exists r0, i0. repeat split; try assumption. rewrite aget_aset_neq; [assumption|congruence].
Qed.

Lemma dir_del st dir s r :
  dir_matches st dir s -> wf dir -> is_stream r = st -> alone r s ->
  dir_matches st (remove (path_of r) dir) (aunset r s).
Proof.
  intros [M1 M2] Hwf Hst Hal. split.
  - intros r' i' Hg Hs'. destruct (rid_dec r' r) as [->|Hne].
    + rewrite aget_aunset_eq in Hg. discriminate.
    + rewrite aget_aunset_neq in Hg by assumption.
      rewrite lookup_remove_neq; [apply M1; assumption|].
      intros Hp. apply Hne. apply Hal; [congruence|congruence|assumption].
  - intros f v Hl. destruct (string_dec f (path_of r)) as [->|Hne].
    + rewrite lookup_remove_eq in Hl by assumption. discriminate.
    + rewrite lookup_remove_neq in Hl by assumption. destruct (M2 _ _ Hl) as (r0 & i0 & H1 & H2 & H3 & H4).
      exists r0, i0. repeat split; try assumption. rewrite aget_aunset_neq; [assumption|]. intros ->. congruence.
Qed.

Lemma dir_del_other st dir s r :
  dir_matches st dir s -> is_stream r <> st -> dir_matches st dir (aunset r s).
Proof.
  intros [M1 M2] Hst. split.
  - intros r' i' Hg Hs'. rewrite aget_aunset_neq in Hg by congruence. apply M1; assumption.
  - intros f v Hl. destruct (M2 _ _ Hl) as (r0 & i0 & H1 & H2 & H3 & H4).
    exists r0, i0. repeat split; try assumption. rewrite aget_aunset_neq; [assumption|congruence].
Qed.

(* dir_matches only looks at the served set through aget *)
Definition sequiv (s1 s2 : served) : Prop := forall r, aget r s1 = aget r s2.

Lemma dir_matches_equiv st dir s1 s2 : sequiv s1 s2 -> dir_matches st dir s1 -> dir_matches st dir s2.
Proof.
  intros E [M1 M2]. split.
  - intros r i Hg. rewrite <- E in Hg. apply M1. assumption.
  - intros f v Hl. destruct (M2 _ _ Hl) as (r0 & i0 & H1 & H2 & H3 & H4). exists r0, i0. rewrite <- E. auto.
Qed.

(* ---------- the two directories: one elementary step ---------- *)

Record Inv (w : world) (s : served) : Prop := {
  inv_wf_confd : wf (confd (dk w));
  inv_wf_stream : wf (streamd (dk w));
  inv_confd : dir_matches false (confd (dk w)) s;
  inv_stream : dir_matches true (streamd (dk w)) s
}.

Lemma inv_disk_matches w s : Inv w s -> disk_matches (dk w) s.
Proof. intros [? ? ? ?]. split; assumption. Qed.

Lemma estep_inv cl e w s :
  Inv w s -> slashfree (target e) -> alone (target e) s ->
  Inv (estep_run cl e w) (spec_estep e s).
Proof.
  intros [W1 W2 M1 M2] Hsf Hal. destruct w as [c d]. cbn in *.
  destruct e as [a|k ns name]; cbn [estep_run spec_estep target] in *.
  - destruct a as [ns name st|ns name st mins|ns name st|ns name st pt host]; cbn [add_step cs dk confd streamd hosts].
    + constructor; cbn [dk confd streamd].
      * apply wf_insert; assumption.
      * assumption.
      * apply (dir_add false _ _ (rid_of (AddIng ns name st)) (info_of (AddIng ns name st))); auto.
      * apply dir_add_other; [assumption|cbn; discriminate].
    + constructor; cbn [dk confd streamd].
      * apply wf_insert; assumption.
      * assumption.
      * apply (dir_add false _ _ (rid_of (AddMIng ns name st mins)) (info_of (AddMIng ns name st mins))); auto.
      * apply dir_add_other; [assumption|cbn; discriminate].
    + constructor; cbn [dk confd streamd].
      * apply wf_insert; assumption.
      * assumption.
      * apply (dir_add false _ _ (rid_of (AddVS ns name st)) (info_of (AddVS ns name st))); auto.
      * apply dir_add_other; [assumption|cbn; discriminate].
    + constructor; cbn [dk confd streamd].
      * assumption.
      * apply wf_insert; assumption.
      * apply dir_add_other; [assumption|cbn; discriminate].
      * apply (dir_add true _ _ (rid_of (AddTS ns name st pt host)) (info_of (AddTS ns name st pt host))); auto.
  - destruct Hsf as [Hs1 Hs2]. cbn in Hs1, Hs2.
    destruct k; cbn [del_step cs dk confd streamd hosts].
    + rewrite key_to_file_agrees by assumption. constructor; cbn [dk confd streamd].
      * apply wf_remove; assumption.
      * assumption.
      * apply (dir_del false _ _ {| rk := KIng; rns := ns; rname := name |}); auto.
      * apply dir_del_other; [assumption|cbn; discriminate].
    + rewrite vs_file_from_key_agrees by assumption. constructor; cbn [dk confd streamd].
      * apply wf_remove; assumption.
      * assumption.
      * apply (dir_del false _ _ {| rk := KVS; rns := ns; rname := name |}); auto.
      * apply dir_del_other; [assumption|cbn; discriminate].
    + rewrite ts_file_from_key_agrees by assumption. constructor; cbn [dk confd streamd].
      * assumption.
      * apply wf_remove; assumption.
      * apply dir_del_other; [assumption|cbn; discriminate].
      * apply (dir_del true _ _ {| rk := KTS; rns := ns; rname := name |}); auto.
Qed.

(* ---------- sequences of elementary steps over a universe R of resources ---------- *)

Definition dom_in (s : served) (R : list rid) : Prop := forall r, aget r s <> None -> In r R.

Lemma spec_estep_dom e s R : dom_in s R -> In (target e) R -> dom_in (spec_estep e s) R.
Proof.
  intros Hd Ht r Hg. destruct e as [a|k ns name]; cbn [spec_estep target] in *.
  - destruct (rid_dec r (rid_of a)) as [->|Hne]; [assumption|]. rewrite aget_aset_neq in Hg by assumption. auto.
  - destruct (rid_dec r {| rk := k; rns := ns; rname := name |}) as [->|Hne]; [assumption|].
    rewrite aget_aunset_neq in Hg by assumption. auto.
Qed.

Lemma inj_alone R r s : inj_on R -> In r R -> dom_in s R -> alone r s.
Proof. intros Hi Hr Hd r' Hg Hs Hp. apply Hi; auto. Qed.

Lemma esteps_inv cl R :
  inj_on R -> (forall r, In r R -> slashfree r) ->
  forall es w s, Inv w s -> dom_in s R -> Forall (fun e => In (target e) R) es ->
  Inv (run_esteps cl es w) (spec_esteps es s) /\ dom_in (spec_esteps es s) R.
Proof.
  intros Hi Hsf. induction es as [|e es IH]; intros w s HI Hd Hall; cbn; [auto|].
  inversion Hall as [|? ? He Hes]; subst.
  apply IH; [|apply spec_estep_dom; assumption|assumption].
  apply estep_inv; [assumption|apply Hsf; assumption|eapply inj_alone; eauto].
Qed.

(* ---------- restart ---------- *)

Lemma spec_adds_last adds : forall s1 s2 r,
  (In r (map rid_of adds) \/ aget r s1 = aget r s2) ->
  aget r (spec_esteps (map EAdd adds) s1) = aget r (spec_esteps (map EAdd adds) s2).
Proof.
  induction adds as [|a t IH]; intros s1 s2 r H; cbn.
  - destruct H as [[]|H]; exact H.
  - apply IH. destruct (rid_dec r (rid_of a)) as [->|Hne].
    + right. rewrite !aget_aset_eq. reflexivity.
    + destruct H as [[H|H]|H].
      * congruence.
      * left. assumption.
      * right. rewrite !aget_aset_neq by assumption. assumption.
Qed.

Lemma restart_esteps_adds c : restart_esteps c = map EAdd (c ++ by_kind c)%list.
Proof. unfold restart_esteps. rewrite map_app. reflexivity. Qed.

(* nothing that was being served has disappeared from the cluster while the controller was down *)
Fixpoint restart_safe (evs : list event) (s : served) : Prop :=
  match evs with
  | [] => True
  | e :: t =>
      match e with
      | Restart c => forall r, aget r s <> None -> In r (map rid_of c)
      | Op _ => True
      end /\ restart_safe t (spec_event e s)
  end.

Definition targets_in (R : list rid) (e : event) : Prop := Forall (fun x => In (target x) R) (esteps_of e).

Lemma event_inv cl R :
  inj_on R -> (forall r, In r R -> slashfree r) ->
  forall e w s, Inv w s -> dom_in s R -> targets_in R e ->
  match e with Restart c => forall r, aget r s <> None -> In r (map rid_of c) | Op _ => True end ->
  Inv (event_step cl e w) (spec_event e s) /\ dom_in (spec_event e s) R.
Proof.
  intros Hi Hsf e w s HI Hd Ht Hsafe. destruct e as [o|c]; cbn [event_step spec_event].
  - unfold op_step. apply esteps_inv; assumption.
  - unfold restart_step. unfold targets_in in Ht. cbn [esteps_of] in Ht.
    set (w0 := {| cs := cstate0; dk := {| confd := confd (dk w); streamd := streamd (dk w); hosts := [] |} |}).
    assert (HI0 : Inv w0 s) by (destruct HI; constructor; assumption).
    destruct (esteps_inv cl R Hi Hsf _ w0 s HI0 Hd Ht) as [HI1 Hd1].
    assert (E : sequiv (spec_esteps (restart_esteps c) s) (spec_esteps (restart_esteps c) [])).
    { intros r. rewrite restart_esteps_adds. apply spec_adds_last.
      destruct (aget r s) eqn:Hg.
      - left. rewrite map_app. apply in_or_app. left. apply Hsafe. congruence.
      - right. reflexivity. }
    split.
    + destruct HI1 as [A B C D]. constructor; try assumption; eapply dir_matches_equiv; eauto.
    + intros r Hg. apply Hd1. rewrite E. assumption.
Qed.

Lemma events_inv cl R :
  inj_on R -> (forall r, In r R -> slashfree r) ->
  forall evs w s, Inv w s -> dom_in s R -> Forall (targets_in R) evs -> restart_safe evs s ->
  Inv (run_events cl evs w) (spec_events evs s).
Proof.
  intros Hi Hsf. induction evs as [|e evs IH]; intros w s HI Hd Hall Hsafe; cbn; [assumption|].
  inversion Hall as [|? ? He Hes]; subst. destruct Hsafe as [Hs1 Hs2].
  destruct (event_inv cl R Hi Hsf e w s HI Hd He Hs1) as [HI1 Hd1].
  apply IH; assumption.
Qed.

Lemma Inv0 : Inv world0 [].
Proof.
  constructor; cbn; try constructor.
  - intros r i H. discriminate.
  - intros f v H. discriminate.
  - intros r i H. discriminate.
  - intros f v H. discriminate.
Qed.

(* C10, restart included: if no resource was deleted while the controller was down, then after
   every history of operations and restarts both directories are exactly the image of the served
   set (one file per served resource, content of its latest version, nothing else). *)
Theorem restart_refines_served_partial cl R evs :
  inj_on R -> (forall r, In r R -> slashfree r) -> Forall (targets_in R) evs ->
  restart_safe evs [] ->
  disk_matches (dk (run_events cl evs world0)) (spec_events evs []).
Proof.
  intros Hi Hsf Hall Hsafe. apply inv_disk_matches.
  apply (events_inv cl R Hi Hsf); try assumption; [apply Inv0|intros r H; cbn in H; congruence].
Qed.

Lemma restart_safe_ops ops : forall s, restart_safe (map Op ops) s.
Proof. induction ops as [|o t IH]; intros s; cbn; auto. Qed.

(* C10 without restart: every history of Configurator operations *)
Theorem disk_refines_served cl R ops :
  inj_on R -> (forall r, In r R -> slashfree r) -> Forall (targets_in R) (map Op ops) ->
  disk_matches (dk (run_events cl (map Op ops) world0)) (spec_events (map Op ops) []).
Proof. intros. eapply restart_refines_served_partial; eauto. apply restart_safe_ops. Qed.

(* ---------- DNS-legal names discharge the injectivity hypothesis, except for Ingress pairs ---------- *)

Definition legal (r : rid) : Prop := dns_chars (rns r) = true /\ dns_chars (rname r) = true.

(* no two distinct Ingress resources of R have the same ns-name concatenation *)
Definition ing_collision_free (R : list rid) : Prop :=
  forall r1 r2, In r1 R -> In r2 R -> rk r1 = KIng -> rk r2 = KIng ->
    ingress_file (rns r1) (rname r1) = ingress_file (rns r2) (rname r2) -> r1 = r2.

Lemma legal_slashfree r : legal r -> slashfree r.
Proof. intros [H1 H2]. split; apply dns_no_slash; assumption. Qed.

Lemma legal_inj R : (forall r, In r R -> legal r) -> ing_collision_free R -> inj_on R.
Proof.
  intros Hl Hc r1 r2 H1 H2 Hs Hp. apply conf_path_injective in Hp.
  destruct (Hl _ H1) as [L1 L1']. destruct (Hl _ H2) as [L2 L2'].
  destruct r1 as [k1 n1 m1], r2 as [k2 n2 m2]. unfold file_of, is_stream in *. cbn in *.
  destruct k1, k2; cbn in *; try discriminate.
  - apply Hc; auto.
  - exfalso. eapply ingress_vs_disjoint; [| |exact Hp]; assumption.
  - exfalso. symmetry in Hp. eapply ingress_vs_disjoint; [| |exact Hp]; assumption.
  - destruct (vs_file_name_injective _ _ _ _ L1 L1' L2 L2' Hp); subst; reflexivity.
  - destruct (ts_file_name_injective _ _ _ _ L1 L1' L2 L2' Hp); subst; reflexivity.
Qed.

Definition all_targets (evs : list event) : list rid := flat_map targets_event evs.

Lemma targets_in_all evs : Forall (targets_in (all_targets evs)) evs.
Proof.
  apply Forall_forall. intros e He. unfold targets_in. apply Forall_forall. intros x Hx.
  unfold all_targets. apply in_flat_map. exists e. split; [assumption|]. unfold targets_event. apply in_map. assumption.
Qed.

(* The statement of C10 for DNS-legal names.  The only hypothesis about names that is not implied
   by legality is the one about pairs of Ingress resources (the scheme ns-name is not injective, F08). *)
Theorem C10_main cl evs :
  (forall r, In r (all_targets evs) -> legal r) ->
  ing_collision_free (all_targets evs) ->
  restart_safe evs [] ->
  disk_matches (dk (run_events cl evs world0)) (spec_events evs []).
Proof.
  intros Hl Hc Hs. apply (restart_refines_served_partial cl (all_targets evs)); auto.
  - apply legal_inj; assumption.
  - intros r Hr. apply legal_slashfree. auto.
  - apply targets_in_all.
Qed.

(* without Ingress resources nothing but legality is needed *)
Lemma no_ingress_collision_free R : (forall r, In r R -> rk r <> KIng) -> ing_collision_free R.
Proof. intros H r1 r2 H1 _ K1. exfalso. exact (H _ H1 K1). Qed.

(* ---------- well-formedness of every reachable world ---------- *)

Definition wf_world (w : world) : Prop :=
  wf (confd (dk w)) /\ wf (streamd (dk w)) /\ wf (c_pairs (cs w)).

Lemma wf_estep cl e w : wf_world w -> wf_world (estep_run cl e w).
Proof.
  intros (A & B & C). destruct w as [c d]. cbn in *.
  destruct e as [a|k ns name]; cbn [estep_run].
  - destruct a; cbn [add_step cs dk confd streamd c_pairs]; repeat split; cbn; auto using wf_insert.
    destruct (is_passthrough pt host); [apply wf_insert; assumption|].
    destruct cl; [apply wf_remove|]; assumption.
  - destruct k; cbn [del_step cs dk confd streamd c_pairs]; repeat split; cbn; auto using wf_remove.
Qed.

Lemma wf_esteps cl es : forall w, wf_world w -> wf_world (run_esteps cl es w).
Proof. induction es as [|e es IH]; intros w H; cbn; [assumption|]. apply IH. apply wf_estep. assumption. Qed.

Lemma wf_event cl e w : wf_world w -> wf_world (event_step cl e w).
Proof.
  intros H. destruct e as [o|c]; cbn [event_step].
  - apply wf_esteps. assumption.
  - unfold restart_step. apply wf_esteps. destruct H as (A & B & C). repeat split; cbn; try assumption; constructor.
Qed.

Lemma wf_reachable cl evs : forall w, wf_world w -> wf_world (run_events cl evs w).
Proof. induction evs as [|e evs IH]; intros w H; cbn; [assumption|]. apply IH. apply wf_event. assumption. Qed.

Lemma wf_world0 : wf_world world0.
Proof. repeat split; constructor. Qed.

(* ---------- a delete removes the file of its resource and nothing else ---------- *)

Definition dir_of (stream : bool) (d : disk) : smap Z := if stream then streamd d else confd d.

Theorem delete_exact cl evs k ns name :
  let r := {| rk := k; rns := ns; rname := name |} in
  let w := run_events cl evs world0 in
  let w' := del_step k ns name w in
  slashfree r ->
  lookup (path_of r) (dir_of (is_stream r) (dk w')) = None /\
  (forall st f, (st, f) <> (is_stream r, path_of r) -> lookup f (dir_of st (dk w')) = lookup f (dir_of st (dk w))).
Proof.
  intros r w w' [Hs1 Hs2]. cbn in Hs1, Hs2.
  assert (Hwf : wf_world w) by (apply wf_reachable; apply wf_world0).
  destruct Hwf as (A & B & C). subst w'. destruct w as [c d]. cbn in *. subst r.
  destruct k; cbn [del_step dk dir_of is_stream kind_eqb rk path_of file_of rns rname].
  - rewrite key_to_file_agrees by assumption. split; [apply lookup_remove_eq; assumption|].
    intros [|] f Hne; cbn; [reflexivity|]. apply lookup_remove_neq. intros ->. apply Hne. reflexivity.
  - rewrite vs_file_from_key_agrees by assumption. split; [apply lookup_remove_eq; assumption|].
    intros [|] f Hne; cbn; [reflexivity|]. apply lookup_remove_neq. intros ->. apply Hne. reflexivity.
  - rewrite ts_file_from_key_agrees by assumption. split; [apply lookup_remove_eq; assumption|].
    intros [|] f Hne; cbn; [|reflexivity]. apply lookup_remove_neq. intros ->. apply Hne. reflexivity.
Qed.

(* ---------- the TLS-passthrough host map ---------- *)

Definition key_of (r : rid) : string := ns_name_key (rns r) (rname r).
Definition sock_of (r : rid) : string := pt_socket (rns r) (rname r).

(* cnf.tlsPassthroughPairs holds exactly the served passthrough TransportServers *)
Definition pairs_match (pairs : smap (string * string)) (s : served) : Prop :=
  (forall r i h, rk r = KTS -> aget r s = Some i -> s_pt i = Some h ->
     lookup (key_of r) pairs = Some (h, sock_of r)) /\
  (forall k h so, lookup k pairs = Some (h, so) ->
     exists r i, rk r = KTS /\ key_of r = k /\ aget r s = Some i /\ s_pt i = Some h /\ so = sock_of r).

Record PInv (w : world) (s : served) : Prop := {
  pinv_wf : wf (c_pairs (cs w));
  pinv_hosts : hosts (dk w) = gen_hosts (c_pairs (cs w));
  pinv_pairs : pairs_match (c_pairs (cs w)) s
}.

(* the step is not an update that turns a served passthrough TransportServer into a non-passthrough
   one -- or the code removes stale pairs (cleanup = true, i.e. with fixes/F33.diff) *)
Definition downgrade_free (cl : bool) (e : estep) (s : served) : Prop :=
  cl = true \/
  match e with
  | EAdd (AddTS ns name _ pt host) =>
      is_passthrough pt host = true \/
      forall i, aget {| rk := KTS; rns := ns; rname := name |} s = Some i -> s_pt i = None
  | _ => True
  end.

Lemma remove_absent {A} k (m : smap A) : lookup k m = None -> remove k m = m.
Proof.
  induction m as [|[k' v] m IH]; cbn; [reflexivity|].
  destruct (String.eqb k k'); [discriminate|]. intros H. rewrite IH by assumption. reflexivity.
Qed.

Lemma key_of_inj r r' : rk r = rk r' -> slashfree r -> slashfree r' -> key_of r = key_of r' -> r = r'.
Proof.
  intros Hk [A _] [B _] H. destruct r as [k n m], r' as [k' n' m']. unfold key_of in H. cbn in *.
  destruct (key_injective _ _ _ _ A B H). subst. reflexivity.
Qed.

Lemma pairs_other_add r i pairs s : rk r <> KTS -> pairs_match pairs s -> pairs_match pairs (aset r i s).
Proof.
  intros Hk [P1 P2]. split.
  - intros r' i' h K Hg Hp. rewrite aget_aset_neq in Hg by congruence. eapply P1; eauto.
  - intros k h so Hl. destruct (P2 _ _ _ Hl) as (r0 & i0 & K & E & Hg & Hp & Hs).
    exists r0, i0. repeat split; try assumption. rewrite aget_aset_neq by congruence. assumption.
Qed.

Lemma pairs_other_del r pairs s : rk r <> KTS -> pairs_match pairs s -> pairs_match pairs (aunset r s).
Proof.
  intros Hk [P1 P2]. split.
  - intros r' i' h K Hg Hp. rewrite aget_aunset_neq in Hg by congruence. eapply P1; eauto.
  - intros k h so Hl. destruct (P2 _ _ _ Hl) as (r0 & i0 & K & E & Hg & Hp & Hs).
    exists r0, i0. repeat split; try assumption. rewrite aget_aunset_neq by congruence. assumption.
Qed.

(* removing the pair of r, when r is no longer (served as) passthrough *)
Lemma pairs_remove r pairs s s' :
  rk r = KTS -> slashfree r -> (forall r', aget r' s <> None -> slashfree r') -> wf pairs ->
  (forall r', r' <> r -> aget r' s' = aget r' s) ->
  (forall i h, aget r s' = Some i -> s_pt i <> Some h) ->
  pairs_match pairs s -> pairs_match (remove (key_of r) pairs) s'.
Proof.
  intros K Hsf Hdom Hwf Hoth Hr [P1 P2]. split.
  - intros r' i' h K' Hg Hp. destruct (rid_dec r' r) as [->|Hne]; [exfalso; eapply Hr; eauto|].
    rewrite Hoth in Hg by assumption. rewrite lookup_remove_neq; [eapply P1; eauto|].
    intros E. apply Hne. apply key_of_inj; [congruence|apply Hdom; congruence|assumption|assumption].
  - intros k h so Hl. destruct (string_dec k (key_of r)) as [->|Hne].
    + rewrite lookup_remove_eq in Hl by assumption. discriminate.
    + rewrite lookup_remove_neq in Hl by assumption.
      destruct (P2 _ _ _ Hl) as (r0 & i0 & K0 & E & Hg & Hp & Hs).
      exists r0, i0. repeat split; try assumption. rewrite Hoth; [assumption|]. intros ->. congruence.
Qed.

Lemma pestep_inv cl e w s :
  PInv w s -> slashfree (target e) -> (forall r', aget r' s <> None -> slashfree r') ->
  downgrade_free cl e s -> PInv (estep_run cl e w) (spec_estep e s).
Proof.
  intros [Hwf Hh Hp] Hsf Hdom Hdg. destruct w as [c d]. cbn in *.
  destruct e as [a|k ns name]; cbn [estep_run spec_estep target] in *.
  - destruct a as [ns name st|ns name st mins|ns name st|ns name st pt host];
      cbn [add_step cs dk hosts c_pairs].
    + constructor; cbn; auto. apply pairs_other_add; [cbn; discriminate|assumption].
    + constructor; cbn; auto. apply pairs_other_add; [cbn; discriminate|assumption].
    + constructor; cbn; auto. apply pairs_other_add; [cbn; discriminate|assumption].
    + set (r := {| rk := KTS; rns := ns; rname := name |}) in *.
      change (rid_of (AddTS ns name st pt host)) with r.
      change (ns_name_key ns name) with (key_of r). change (pt_socket ns name) with (sock_of r).
      unfold info_of. destruct (is_passthrough pt host) eqn:Ept; cbn [orb].
      * (* passthrough: the pair is (re)written, the map regenerated *)
        constructor; cbn [cs dk hosts c_pairs]; [apply wf_insert; assumption|reflexivity|].
        destruct Hp as [P1 P2]. split.
        -- intros r' i' h K Hg Hpt. destruct (rid_dec r' r) as [->|Hne].
           ++ rewrite aget_aset_eq in Hg. inversion Hg; subst. cbn in Hpt. inversion Hpt; subst. apply lookup_insert_eq.
           ++ rewrite aget_aset_neq in Hg by assumption. rewrite lookup_insert_neq; [eapply P1; eauto|].
              intros E. apply Hne. apply key_of_inj; [rewrite K; reflexivity|apply Hdom; congruence|assumption|assumption].
        -- intros k h so Hl. destruct (string_dec k (key_of r)) as [->|Hne].
           ++ rewrite lookup_insert_eq in Hl. inversion Hl; subst. exists r, {| s_stamp := st; s_pt := Some h |}.
              rewrite aget_aset_eq. repeat split; reflexivity.
           ++ rewrite lookup_insert_neq in Hl by assumption.
              destruct (P2 _ _ _ Hl) as (r0 & i0 & K0 & E & Hg & Hp0 & Hs).
              exists r0, i0. repeat split; try assumption. rewrite aget_aset_neq; [assumption|]. intros ->. congruence.
      * (* not passthrough *)
        destruct cl; cbn [andb].
        -- (* cleanup: stale pair removed *)
           assert (PM : pairs_match (remove (key_of r) (c_pairs c)) (aset r {| s_stamp := st; s_pt := None |} s)).
           { apply (pairs_remove r _ s); try assumption; try reflexivity.
             - intros r' Hne. apply aget_aset_neq. assumption.
             - intros i h Hg. rewrite aget_aset_eq in Hg. inversion Hg; subst. cbn. discriminate. }
           constructor; cbn [cs dk hosts c_pairs]; [apply wf_remove; assumption| |exact PM].
           unfold mem. destruct (lookup (key_of r) (c_pairs c)) eqn:El; [reflexivity|].
           rewrite remove_absent by assumption. assumption.
        -- (* current code: pair kept; fine when r was not served as passthrough *)
           constructor; cbn [cs dk hosts c_pairs]; [assumption|assumption|].
           destruct Hdg as [Hdg|[Hdg|Hdg]]; try congruence.
           destruct Hp as [P1 P2]. split.
           ++ intros r' i' h K Hg Hpt. destruct (rid_dec r' r) as [->|Hne].
              ** rewrite aget_aset_eq in Hg. inversion Hg; subst. cbn in Hpt. discriminate.
              ** rewrite aget_aset_neq in Hg by assumption. eapply P1; eauto.
           ++ intros k h so Hl. destruct (P2 _ _ _ Hl) as (r0 & i0 & K0 & E & Hg & Hp0 & Hs).
              exists r0, i0. repeat split; try assumption. rewrite aget_aset_neq; [assumption|].
              intros ->. fold r in Hdg. rewrite (Hdg _ Hg) in Hp0. discriminate.
  - destruct k; cbn [del_step cs dk hosts c_pairs].
    + constructor; cbn; auto. apply pairs_other_del; [cbn; discriminate|assumption].
    + constructor; cbn; auto. apply pairs_other_del; [cbn; discriminate|assumption].
    + set (r := {| rk := KTS; rns := ns; rname := name |}) in *.
      change (ns_name_key ns name) with (key_of r).
      assert (PM : pairs_match (remove (key_of r) (c_pairs c)) (aunset r s)).
      { apply (pairs_remove r _ s); try assumption; try reflexivity.
        - intros r' Hne. apply aget_aunset_neq. assumption.
        - intros i h Hg. rewrite aget_aunset_eq in Hg. discriminate. }
      constructor; cbn [cs dk hosts c_pairs]; [apply wf_remove; assumption| |exact PM].
      unfold mem. destruct (lookup (key_of r) (c_pairs c)) eqn:El; [reflexivity|].
      rewrite remove_absent by assumption. assumption.
Qed.

Fixpoint no_downgrade_es (cl : bool) (es : list estep) (s : served) : Prop :=
  match es with
  | [] => True
  | e :: t => downgrade_free cl e s /\ no_downgrade_es cl t (spec_estep e s)
  end.

Fixpoint no_downgrade (cl : bool) (evs : list event) (s : served) : Prop :=
  match evs with
  | [] => True
  | e :: t => no_downgrade_es cl (esteps_of e) (match e with Restart _ => [] | Op _ => s end) /\
              no_downgrade cl t (spec_event e s)
  end.

Lemma cleanup_no_downgrade_es es : forall s, no_downgrade_es true es s.
Proof. induction es as [|e es IH]; intros s; cbn; [exact I|]. split; [left; reflexivity|apply IH]. Qed.

Lemma cleanup_no_downgrade evs : forall s, no_downgrade true evs s.
Proof. induction evs as [|e evs IH]; intros s; cbn; [exact I|]. split; [apply cleanup_no_downgrade_es|apply IH]. Qed.

Lemma pesteps_inv cl R :
  (forall r, In r R -> slashfree r) ->
  forall es w s, PInv w s -> dom_in s R -> Forall (fun e => In (target e) R) es -> no_downgrade_es cl es s ->
  PInv (run_esteps cl es w) (spec_esteps es s) /\ dom_in (spec_esteps es s) R.
Proof.
  intros Hsf. induction es as [|e es IH]; intros w s HI Hd Hall Hnd; cbn; [auto|].
  inversion Hall as [|? ? He Hes]; subst. destruct Hnd as [Hn1 Hn2].
  apply IH; [|apply spec_estep_dom; assumption|assumption|assumption].
  apply pestep_inv; [assumption|apply Hsf; assumption| |assumption].
  intros r' Hg. apply Hsf. apply Hd. assumption.
Qed.

Lemma PInv_reset w : PInv {| cs := cstate0; dk := {| confd := confd (dk w); streamd := streamd (dk w); hosts := [] |} |} [].
Proof.
  constructor; cbn; [constructor|reflexivity|]. split.
  - intros r i h _ H. discriminate.
  - intros k h so H. discriminate.
Qed.

Lemma pevents_inv cl R :
  (forall r, In r R -> slashfree r) ->
  forall evs w s, PInv w s -> dom_in s R -> Forall (targets_in R) evs -> no_downgrade cl evs s ->
  PInv (run_events cl evs w) (spec_events evs s).
Proof.
  intros Hsf. induction evs as [|e evs IH]; intros w s HI Hd Hall Hnd; cbn; [assumption|].
  inversion Hall as [|? ? He Hes]; subst. destruct Hnd as [Hn1 Hn2].
  destruct e as [o|c]; cbn [event_step spec_event esteps_of] in *.
  - destruct (pesteps_inv cl R Hsf _ w s HI Hd He Hn1) as [A B]. apply IH; assumption.
  - unfold restart_step.
    destruct (pesteps_inv cl R Hsf _ _ [] (PInv_reset w) (fun r H => False_ind _ (H eq_refl)) He Hn1) as [A B].
    apply IH; assumption.
Qed.

(* generateTLSPassthroughHostsConfig: what a lookup in the generated map returns *)
Definition ph (e : string * (string * string)) : string := fst (snd e).
Definition ps (e : string * (string * string)) : string := snd (snd e).

Lemma host_in_dec (l : list (string * (string * string))) h :
  (exists e, In e l /\ ph e = h) \/ (forall e, In e l -> ph e <> h).
Proof.
  induction l as [|e l IH]; [right; intros ? []|].
  destruct (string_dec (ph e) h) as [E|N]; [left; exists e; cbn; auto|].
  destruct IH as [(e' & I' & E')|IH]; [left; exists e'; cbn; auto|].
  right. intros e' [<-|I']; auto.
Qed.

Lemma fold_hosts_lookup (l : list (string * (string * string))) : forall m0 h so,
  (forall e1 e2, In e1 l -> In e2 l -> ph e1 = ph e2 -> ps e1 = ps e2) ->
  (lookup h (fold_left (fun m kv => insert (fst (snd kv)) (snd (snd kv)) m) l m0) = Some so <->
   (exists e, In e l /\ ph e = h /\ ps e = so) \/ ((forall e, In e l -> ph e <> h) /\ lookup h m0 = Some so)).
Proof.
  induction l as [|e l IH]; intros m0 h so Hd; cbn [fold_left].
  - split; [intros H; right; split; [intros ? []|assumption]|intros [(e & [] & _)|[_ H]]; assumption].
  - rewrite IH by (intros; apply Hd; cbn; auto). fold (ph e) (ps e). split.
    + intros [(e' & I' & E1 & E2)|[Hn Hl]].
      * left. exists e'. cbn. auto.
      * destruct (string_dec (ph e) h) as [E|N].
        -- subst h. rewrite lookup_insert_eq in Hl. inversion Hl. left. exists e. cbn. auto.
        -- rewrite lookup_insert_neq in Hl by congruence. right. split; [|assumption].
           intros e' [<-|I']; auto.
    + intros [(e' & [<-|I'] & E1 & E2)|[Hn Hl]].
      * destruct (host_in_dec l h) as [(e2 & I2 & E2')|Hn].
        -- left. exists e2. repeat split; try assumption. rewrite <- E2. apply Hd; cbn; auto. congruence.
        -- right. split; [assumption|]. subst h so. apply lookup_insert_eq.
      * left. exists e'. auto.
      * right. split; [intros e' I'; apply Hn; cbn; auto|].
        rewrite lookup_insert_neq; [assumption|]. intros ->. apply (Hn e); cbn; auto.
Qed.

(* hosts of the served passthrough TransportServers are pairwise distinct (host arbitration, C02) *)
Definition hosts_distinct (s : served) : Prop :=
  forall r1 r2 i1 i2 h, rk r1 = KTS -> rk r2 = KTS -> aget r1 s = Some i1 -> aget r2 s = Some i2 ->
    s_pt i1 = Some h -> s_pt i2 = Some h -> r1 = r2.

Lemma pinv_hosts_exact w s : PInv w s -> hosts_distinct s -> hosts_exact (hosts (dk w)) s.
Proof.
  intros [Hwf Hh [P1 P2]] Hd host sock. rewrite Hh. unfold gen_hosts.
  rewrite fold_hosts_lookup.
  - split.
    + intros [(e & I & E1 & E2)|[_ H]]; [|discriminate].
      destruct e as [k [h so]]. unfold ph, ps in *. cbn in *. subst.
      apply In_lookup in I; [|assumption].
      destruct (P2 _ _ _ I) as (r0 & i0 & K0 & E & Hg & Hp0 & Hs). exists r0, i0. auto.
    + intros (r & i & K & Hg & Hp & ->). left. exists (key_of r, (host, sock_of r)).
      split; [apply lookup_In; eapply P1; eauto|]. split; reflexivity.
  - intros [k1 [h1 s1]] [k2 [h2 s2]] I1 I2 E. unfold ph, ps in *. cbn in *. subst h2.
    apply In_lookup in I1; [|assumption]. apply In_lookup in I2; [|assumption].
    destruct (P2 _ _ _ I1) as (r1 & i1 & K1 & E1 & Hg1 & Hp1 & ->).
    destruct (P2 _ _ _ I2) as (r2 & i2 & K2 & E2 & Hg2 & Hp2 & ->).
    rewrite (Hd r1 r2 i1 i2 h1); auto.
Qed.

Lemma PInv0 : PInv world0 [].
Proof. exact (PInv_reset world0). Qed.

(* The passthrough map lists exactly the served passthrough TransportServers -- after EVERY history
   of operations and restarts (with arbitrary deletions while down: main.go rewrites the map at
   start-up), provided no update turns a served passthrough TransportServer into a non-passthrough
   one (not needed when cleanup = true). *)
Theorem passthrough_map_exact cl evs :
  (forall r, In r (all_targets evs) -> slashfree r) ->
  no_downgrade cl evs [] ->
  hosts_distinct (spec_events evs []) ->
  hosts_exact (hosts (dk (run_events cl evs world0))) (spec_events evs []).
Proof.
  intros Hsf Hnd Hd. apply pinv_hosts_exact; [|assumption].
  apply (pevents_inv cl (all_targets evs)); auto.
  - apply PInv0.
  - intros r H. cbn in H. congruence.
  - apply targets_in_all.
Qed.

(* ---------- refutations (each witness is replayed on the real code by the harness) ---------- *)

Open Scope Z_scope.

(* F08 at the level of histories: DNS-legal names, no restart; after add a-b/c, add a/b-c, delete a/b-c
   the Ingress a-b/c is served and has no file (harness class witness-collide). *)
Lemma ingress_collision_refuted :
  exists evs r i,
    (forall q, In q (all_targets evs) -> legal q) /\
    forall cl, aget r (spec_events evs []) = Some i /\
               lookup (path_of r) (confd (dk (run_events cl evs world0))) = None.
Proof.
  exists [Op (Add (AddIng "a-b" "c" 1)); Op (Add (AddIng "a" "b-c" 2)); Op (Del KIng "a" "b-c")],
         {| rk := KIng; rns := "a-b"; rname := "c" |}, {| s_stamp := 1; s_pt := None |}.
  split.
  - intros q H. cbn in H. destruct H as [<-|[<-|[<-|[]]]]; split; reflexivity.
  - intros cl. split; vm_compute; reflexivity.
Qed.

(* F10: a resource deleted while the controller is down keeps its file after the restart
   (harness class witness-restart).  Names legal, no Ingress at all. *)
Lemma restart_refuted :
  exists evs f v,
    (forall q, In q (all_targets evs) -> legal q) /\ ing_collision_free (all_targets evs) /\
    forall cl, lookup f (confd (dk (run_events cl evs world0))) = Some v /\
               (forall r, aget r (spec_events evs []) = None) /\
               ~ disk_matches (dk (run_events cl evs world0)) (spec_events evs []).
Proof.
  exists [Op (Add (AddVS "a" "b" 1)); Restart []], "vs_a_b.conf", 1.
  split; [|split].
  - intros q H. cbn in H. destruct H as [<-|[]]. split; reflexivity.
  - apply no_ingress_collision_free. intros q H. cbn in H. destruct H as [<-|[]]. discriminate.
  - intros cl. split; [vm_compute; reflexivity|]. split; [intros r; reflexivity|].
    intros [[_ M2] _]. destruct (M2 "vs_a_b.conf"%string 1) as (r & i & _ & H & _); [vm_compute; reflexivity|].
    discriminate.
Qed.

(* F33: with the current code (cleanup = false) an update of a passthrough TransportServer to a
   non-passthrough one leaves its host in the map (harness class witness-pt-update). *)
Lemma passthrough_stale_refuted :
  exists evs h so,
    (forall q, In q (all_targets evs) -> legal q) /\ hosts_distinct (spec_events evs []) /\
    lookup h (hosts (dk (run_events false evs world0))) = Some so /\
    (forall r i, aget r (spec_events evs []) = Some i -> s_pt i = None) /\
    ~ hosts_exact (hosts (dk (run_events false evs world0))) (spec_events evs []).
Proof.
  exists [Op (Add (AddTS "a" "t" 1 true "pt0.example.com")); Op (Add (AddTS "a" "t" 2 false ""))],
         "pt0.example.com"%string, "unix:/var/lib/nginx/passthrough-a_t.sock"%string.
  assert (Hnone : forall r i, aget r (spec_events [Op (Add (AddTS "a" "t" 1 true "pt0.example.com")); Op (Add (AddTS "a" "t" 2 false ""))] []) = Some i -> s_pt i = None).
  { intros r i H. cbn in H. destruct (rid_eqb r _); inversion H; reflexivity. }
  split; [|split; [|split; [|split]]].
  - intros q H. cbn in H. destruct H as [<-|[<-|[]]]; split; reflexivity.
  - intros r1 r2 i1 i2 h _ _ H1 _ P1 _. rewrite (Hnone _ _ H1) in P1. discriminate.
  - vm_compute. reflexivity.
  - exact Hnone.
  - intros HE. destruct (proj1 (HE "pt0.example.com"%string "unix:/var/lib/nginx/passthrough-a_t.sock"%string)) as (r & i & _ & Hg & Hp & _).
    + vm_compute. reflexivity.
    + rewrite (Hnone _ _ Hg) in Hp. discriminate.
Qed.

(* ---------- what the decidable check S means ---------- *)

Lemma nodupb_NoDup l : nodupb l = true -> NoDup l.
Proof.
  induction l as [|x l IH]; cbn; [constructor|]. intros H. apply andb_prop in H. destruct H as [H1 H2].
  constructor; [|apply IH; assumption]. intros Hin.
  apply negb_true_iff in H1. assert (existsb (String.eqb x) l = true); [|congruence].
  apply existsb_exists. exists x. split; [assumption|apply String.eqb_refl].
Qed.

Lemma pair_mem_In {V} (veqb : V -> V -> bool) (Hv : forall a b, veqb a b = true -> a = b) p l :
  pair_mem veqb p l = true -> In p l.
Proof.
  unfold pair_mem. intros H. apply existsb_exists in H. destruct H as (q & Hq & E).
  apply andb_prop in E. destruct E as [E1 E2]. apply String.eqb_eq in E1. apply Hv in E2.
  destruct p, q. cbn in *. subst. assumption.
Qed.

(* listing_ok = true means: no name twice on either side and the same (name, content) pairs *)
Lemma listing_ok_sound {V} (veqb : V -> V -> bool) (Hv : forall a b, veqb a b = true -> a = b) obs exp :
  listing_ok veqb obs exp = true ->
  NoDup (map fst exp) /\ NoDup (map fst obs) /\ (forall p, In p exp <-> In p obs).
Proof.
  unfold listing_ok. intros H. apply andb_prop in H. destruct H as [H H4]. apply andb_prop in H. destruct H as [H H3].
  apply andb_prop in H. destruct H as [H1 H2].
  split; [apply nodupb_NoDup; assumption|]. split; [apply nodupb_NoDup; assumption|].
  intros p. split; intros Hp.
  - eapply forallb_forall in H3; [|exact Hp]. eapply pair_mem_In; eauto.
  - eapply forallb_forall in H4; [|exact Hp]. eapply pair_mem_In; eauto.
Qed.

Lemma Zeqb_eq a b : Z.eqb a b = true -> a = b.
Proof. apply Z.eqb_eq. Qed.
Lemma Seqb_eq a b : String.eqb a b = true -> a = b.
Proof. apply String.eqb_eq. Qed.

(* S on an observed listing: distinct served resources of a directory never share a file, every
   served resource has its file with its content, and there is no other file *)
Theorem spec_ok_meaning obs_confd obs_stream obs_hosts s :
  spec_ok obs_confd obs_stream obs_hosts s = true ->
  (NoDup (map fst (expected_http s)) /\ NoDup (map fst obs_confd) /\ forall p, In p (expected_http s) <-> In p obs_confd) /\
  (NoDup (map fst (expected_stream s)) /\ NoDup (map fst obs_stream) /\ forall p, In p (expected_stream s) <-> In p obs_stream) /\
  (NoDup (map fst (expected_hosts s)) /\ NoDup (map fst obs_hosts) /\ forall p, In p (expected_hosts s) <-> In p obs_hosts).
Proof.
  unfold spec_ok. intros H. apply andb_prop in H. destruct H as [H H3]. apply andb_prop in H. destruct H as [H1 H2].
  split; [|split].
  - apply (listing_ok_sound Z.eqb Zeqb_eq). assumption.
  - apply (listing_ok_sound Z.eqb Zeqb_eq). assumption.
  - apply (listing_ok_sound String.eqb Seqb_eq). assumption.
Qed.

(* ---------- the hypotheses are decidable (used for the examples in Properties/C10.v) ---------- *)

Definition legalb (r : rid) : bool := dns_chars (rns r) && dns_chars (rname r).

Lemma legalb_ok l : forallb legalb l = true -> forall r, In r l -> legal r.
Proof. intros H r Hr. eapply forallb_forall in H; [|exact Hr]. apply andb_prop in H. exact H. Qed.

Definition ing_collision_freeb (R : list rid) : bool :=
  forallb (fun r1 => forallb (fun r2 =>
    negb (kind_eqb (rk r1) KIng && kind_eqb (rk r2) KIng &&
          String.eqb (ingress_file (rns r1) (rname r1)) (ingress_file (rns r2) (rname r2))) || rid_eqb r1 r2) R) R.

Lemma ing_collision_freeb_ok R : ing_collision_freeb R = true -> ing_collision_free R.
Proof.
  intros H r1 r2 H1 H2 K1 K2 E. unfold ing_collision_freeb in H.
  eapply forallb_forall in H; [|exact H1]. eapply forallb_forall in H; [|exact H2].
  rewrite K1, K2, E, String.eqb_refl in H. cbn in H. apply rid_eqb_spec. assumption.
Qed.

Lemma dom_in_check s R : forallb (fun p => existsb (rid_eqb (fst p)) R) s = true -> dom_in s R.
Proof.
  intros H r Hg. induction s as [|[q i] s IH]; cbn in *; [congruence|].
  apply andb_prop in H. destruct H as [H1 H2].
  destruct (rid_eqb r q) eqn:E.
  - apply rid_eqb_spec in E. subst q. apply existsb_exists in H1. destruct H1 as (x & Hx & Ex).
    apply rid_eqb_spec in Ex. subst. assumption.
  - apply IH; assumption.
Qed.

Lemma aget_In r i s : aget r s = Some i -> In (r, i) s.
Proof.
  induction s as [|[q j] s IH]; cbn; [discriminate|]. destruct (rid_eqb r q) eqn:E.
  - apply rid_eqb_spec in E. subst. intros H. inversion H. auto.
  - auto.
Qed.

Definition opt_str_eqb (a b : option string) : bool :=
  match a, b with Some x, Some y => String.eqb x y | None, None => true | _, _ => false end.

Definition hosts_distinctb (s : served) : bool :=
  forallb (fun p1 => forallb (fun p2 =>
    match s_pt (snd p1), s_pt (snd p2) with
    | Some h1, Some h2 => negb (String.eqb h1 h2) || rid_eqb (fst p1) (fst p2)
    | _, _ => true
    end) s) s.

Lemma hosts_distinctb_ok s : hosts_distinctb s = true -> hosts_distinct s.
Proof.
  intros H r1 r2 i1 i2 h _ _ G1 G2 P1 P2. apply aget_In in G1. apply aget_In in G2.
  unfold hosts_distinctb in H. eapply forallb_forall in H; [|exact G1]. eapply forallb_forall in H; [|exact G2].
  cbn in H. rewrite P1, P2, String.eqb_refl in H. cbn in H. apply rid_eqb_spec. assumption.
Qed.

(* with the proposed fix (cleanup = true) the passthrough map is exact for every history *)
Theorem passthrough_map_exact_fixed evs :
  (forall r, In r (all_targets evs) -> slashfree r) ->
  hosts_distinct (spec_events evs []) ->
  hosts_exact (hosts (dk (run_events true evs world0))) (spec_events evs []).
Proof. intros. apply passthrough_map_exact; auto. apply cleanup_no_downgrade. Qed.

(* ---------- what is served after a restart is what the cluster holds ---------- *)

Lemma aget_spec_adds_notin adds : forall s r,
  ~ In r (map rid_of adds) -> aget r (spec_esteps (map EAdd adds) s) = aget r s.
Proof.
  induction adds as [|x t IH]; intros s r H; cbn; [reflexivity|].
  rewrite IH by (intros Hin; apply H; cbn; auto).
  apply aget_aset_neq. intros ->. apply H. cbn. auto.
Qed.

Lemma aget_spec_adds_in adds : forall s r i,
  (forall a, In a adds -> rid_of a = r -> info_of a = i) ->
  (exists a, In a adds /\ rid_of a = r) ->
  aget r (spec_esteps (map EAdd adds) s) = Some i.
Proof.
  induction adds as [|x t IH]; intros s r i Hu (a & Ha & Hr); [destruct Ha|]. cbn [map spec_esteps fold_left spec_estep].
  destruct (in_dec rid_dec r (map rid_of t)) as [Hin|Hnin].
  - apply IH; [intros a' Ha'; apply Hu; cbn; auto|].
    apply in_map_iff in Hin. destruct Hin as (a' & E & Ha'). exists a'. auto.
  - fold (spec_esteps (map EAdd t) (aset (rid_of x) (info_of x) s)).
    rewrite aget_spec_adds_notin by assumption.
    destruct Ha as [->|Ha].
    + subst r. rewrite aget_aset_eq. f_equal. apply Hu; cbn; auto.
    + exfalso. apply Hnin. subst r. apply in_map. assumption.
Qed.

Lemma in_by_kind a c : In a (by_kind c) <-> In a c.
Proof.
  unfold by_kind. rewrite !in_app_iff, !filter_In. split.
  - intros [H|[H|[H|H]]]; tauto.
  - intros H. destruct a; cbn; tauto.
Qed.

Lemma NoDup_map_inj {A B} (f : A -> B) l a a' : NoDup (map f l) -> In a l -> In a' l -> f a = f a' -> a = a'.
Proof.
  induction l as [|x l IH]; intros Hn Ha Ha' E; [destruct Ha|]. cbn in Hn. inversion Hn as [|? ? Hx Hl]; subst.
  destruct Ha as [->|Ha], Ha' as [->|Ha'].
  - reflexivity.
  - exfalso. apply Hx. rewrite E. apply in_map. assumption.
  - exfalso. apply Hx. rewrite <- E. apply in_map. assumption.
  - apply IH; assumption.
Qed.

(* a cluster holds at most one object per kind/namespace/name: then, whatever was served before,
   after the restart exactly the objects of the cluster are served, each with its own content *)
Theorem spec_restart_is_cluster c s :
  NoDup (map rid_of c) ->
  (forall a, In a c -> aget (rid_of a) (spec_event (Restart c) s) = Some (info_of a)) /\
  (forall r, ~ In r (map rid_of c) -> aget r (spec_event (Restart c) s) = None).
Proof.
  intros Hn. cbn [spec_event]. rewrite restart_esteps_adds. split.
  - intros a Ha. apply aget_spec_adds_in.
    + intros a' Ha' E. apply in_app_or in Ha'. f_equal.
      apply (NoDup_map_inj rid_of c); try assumption. destruct Ha' as [H|H]; [assumption|apply in_by_kind; assumption].
    + exists a. split; [apply in_or_app; left; assumption|reflexivity].
  - intros r Hr. rewrite aget_spec_adds_notin; [reflexivity|].
    intros Hin. apply Hr. apply in_map_iff in Hin. destruct Hin as (a & E & Ha). subst r. apply in_map.
    apply in_app_or in Ha. destruct Ha as [H|H]; [assumption|apply in_by_kind; assumption].
Qed.

(* ---------- the manager's file operations: last write wins, delete removes, nothing else moves ---------- *)

Lemma wf_mrun ops : forall m, wf m -> wf (mrun ops m).
Proof.
  induction ops as [|o ops IH]; intros m H; cbn; [assumption|]. apply IH.
  destruct o; cbn; [apply wf_insert|apply wf_remove]; assumption.
Qed.

Theorem manager_write_delete_exact ops o :
  let m := mrun ops [] in
  let m' := mstep o m in
  match o with
  | MWrite f n c => lookup (mpath f n) m' = Some c
  | MDel f n => lookup (mpath f n) m' = None
  end /\
  forall p, p <> match o with MWrite f n _ => mpath f n | MDel f n => mpath f n end -> lookup p m' = lookup p m.
Proof.
  intros m m'. assert (W : wf m) by (apply wf_mrun; constructor). subst m'.
  destruct o as [f n c|f n]; cbn [mstep]; split.
  - apply lookup_insert_eq.
  - intros p Hp. apply lookup_insert_neq. assumption.
  - apply lookup_remove_eq. assumption.
  - intros p Hp. apply lookup_remove_neq. assumption.
Qed.

(* ---------- namespace life cycle ---------- *)

(* when the worker handles the task of a namespace that lost its label, the only configured objects of
   that namespace that survive are those that are no longer in the informer store *)
Lemma ns_cleanup_leaves_only_vanished ns st :
  mem_s ns (n_labelled st) = false -> mem_s ns (n_watched st) = true ->
  forall c, In c (n_cfg (nsync (TNs ns) st)) -> o_ns c = ns ->
    existsb (is_obj (o_kind c) (o_ns c) (o_name c)) (n_store st) = false.
Proof.
  intros Hl Hw c Hc Hns. subst ns. unfold nsync in Hc. rewrite Hl, Hw in Hc. cbn in Hc.
  apply filter_In in Hc. destruct Hc as [_ Hc]. rewrite String.eqb_refl in Hc. cbn in Hc.
  apply negb_true_iff in Hc. exact Hc.
Qed.

(* PROVED PART: if every configured object of the namespace is still in the store when the namespace task
   is handled (no deletion queued behind it), nothing of the namespace stays configured, and the namespace
   is no longer watched. *)
Theorem ns_cleanup_complete_partial ns st :
  mem_s ns (n_labelled st) = false -> mem_s ns (n_watched st) = true ->
  (forall c, In c (n_cfg st) -> o_ns c = ns -> existsb (is_obj (o_kind c) (o_ns c) (o_name c)) (n_store st) = true) ->
  (forall c, In c (n_cfg (nsync (TNs ns) st)) -> o_ns c <> ns) /\
  mem_s ns (n_watched (nsync (TNs ns) st)) = false.
Proof.
  intros Hl Hw Hall. split.
  - intros c Hc Hns. pose proof (ns_cleanup_leaves_only_vanished ns st Hl Hw c Hc Hns) as Hv.
    assert (Hin : In c (n_cfg st)).
    { unfold nsync in Hc. rewrite Hl, Hw in Hc. cbn in Hc. apply filter_In in Hc. tauto. }
    rewrite (Hall c Hin Hns) in Hv. discriminate.
  - unfold nsync. rewrite Hl, Hw. cbn. unfold mem_s, drop_s.
    destruct (existsb (String.eqb ns) (filter (fun y => negb (String.eqb ns y)) (n_watched st))) eqn:E; [|reflexivity].
    apply existsb_exists in E. destruct E as (y & Hy & Ey). apply filter_In in Hy. destruct Hy as [_ Hy].
    rewrite Ey in Hy. discriminate.
Qed.

(* REFUTED (F96): a served object deleted while the task of its unlabelled namespace is still queued stays
   configured for ever: the clean-up does not find it in the store, and its own task is ignored because the
   namespace is no longer watched (harness class nsl-delete-behind). *)
Lemma ns_delete_behind_refuted :
  exists evs o,
    n_cfg (nrun evs (nstate0 ["apps"])) = [o] /\ n_store (nrun evs (nstate0 ["apps"])) = [] /\
    n_watched (nrun evs (nstate0 ["apps"])) = [] /\ In (NDel (o_kind o) (o_ns o) (o_name o)) evs.
Proof.
  exists [NPut {| o_kind := KVS; o_ns := "apps"; o_name := "shop"; o_stamp := 1; o_ok := true; o_host := "" |}; NDrain;
          NUnlabel "apps"; NDel KVS "apps" "shop"; NDrain],
         {| o_kind := KVS; o_ns := "apps"; o_name := "shop"; o_stamp := 1; o_ok := true; o_host := "" |}.
  repeat split; try (vm_compute; reflexivity). cbn. auto 6.
Qed.
