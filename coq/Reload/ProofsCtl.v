(* C12 -- proofs about the batch logic of LoadBalancerController.sync (Reload.Model.sync). *)
From Coq Require Import List ZArith String Bool Arith Lia.
From NIC Require Import Base.SMap Reload.Model Reload.Proofs.
Import ListNotations.
Open Scope list_scope.

Arguments step : simpl never.

Definition work_plain (e : env) (t : task) : Prop := forall o, In o (t_work t ++ t_all_pre t) -> forces_enable e o = false.

(* ------------------------------------------------------------------ sync is an execution *)

Lemma run_work_exec e os : forall s,
  (forall o, In o os -> forces_enable e o = false) ->
  exec e false s (snd (fst (run_work e s os))) (fst (fst (run_work e s os))).
Proof.
  induction os as [|o os IH]; intros s Hw; cbn; [apply x_nil|].
  pose proof (step_exec e s o) as H1. rewrite (Hw o (or_introl eq_refl)) in H1.
  destruct (step e s o) as [s1 x]. cbn [fst snd] in H1.
  specialize (IH s1 (fun o' Hin => Hw o' (or_intror Hin))).
  destruct (run_work e s1 os) as [[s2 l] f]. cbn [fst snd] in *. eapply exec_app; eassumption.
Qed.

Lemma update_all_exec e t s : work_plain e t ->
  exec e false s (snd (fst (update_all e t s))) (fst (fst (update_all e t s))).
Proof.
  intros Hw. unfold update_all.
  pose proof (run_work_exec e (t_all_pre t) s (fun o Hin => Hw o (in_or_app _ _ _ (or_intror Hin)))) as H0.
  destruct (run_work e s (t_all_pre t)) as [[s0 l0] f0]. cbn [fst snd] in H0.
  pose proof (step_exec e s0 (OUpdateConfig (t_mainver t) (t_all t))) as H1. cbn [forces_enable has_weights andb] in H1.
  destruct (step e s0 _) as [s1 x]. cbn [fst snd] in *. eapply exec_app; [apply H0|exact H1].
Qed.

Lemma handler_exec e t go s : work_plain e t ->
  exec e false s (snd (fst (handler e t go s))) (fst (fst (handler e t go s))).
Proof.
  intros Hw. unfold handler.
  destruct (t_kind t); try (apply run_work_exec; intros o Hin; apply Hw; apply in_or_app; left; exact Hin).
  destruct go; [apply update_all_exec; exact Hw|apply x_nil].
Qed.

Lemma phase_fin_exec e t fin s : work_plain e t ->
  exec e false s (snd (fst (phase_fin e t fin s))) (fst (fst (phase_fin e t fin s))).
Proof.
  intros Hw. unfold phase_fin. destruct fin; [|apply x_nil].
  pose proof (update_all_exec e t (set_enabled true s) Hw) as H.
  destruct (update_all e t (set_enabled true s)) as [[s' l] r]. cbn [fst snd] in *.
  eapply x_cons; [apply m_enable|exact H].
Qed.

Lemma phase_end_exec e t bend ua eb s : work_plain e t ->
  exec e false s (snd (fst (fst (phase_end e t bend ua eb s)))) (fst (fst (fst (phase_end e t bend ua eb s)))).
Proof.
  intros Hw. unfold phase_end. destruct bend; [|apply x_nil]. destruct ua.
  - pose proof (update_all_exec e t (set_enabled true s) Hw) as H.
    destruct (update_all e t (set_enabled true s)) as [[s' l] r]. cbn [fst snd] in *.
    eapply x_cons; [apply m_enable|exact H].
  - pose proof (step_exec e (set_enabled true s) (OReloadForBatch eb)) as H.
    destruct (step e (set_enabled true s) (OReloadForBatch eb)) as [s' x].
    cbn [fst snd forces_enable has_weights andb] in *. eapply x_cons; [apply m_enable|exact H].
Qed.

Lemma sync_exec e c t : work_plain e t ->
  exec e false (cfg c) (slog (snd (sync e c t))) (cfg (fst (sync e c t))).
Proof.
  intros Hw. unfold sync.
  set (start := ready c && (1 <? t_qlen t)%nat && negb (batch c)).
  set (cfg1 := if start then set_enabled false (cfg c) else cfg c).
  set (batch1 := batch c || start).
  assert (E1 : exec e false (cfg c) (if start then [EDisable] else []) cfg1).
  { subst cfg1. destruct start; [apply exec_one; apply m_disable|apply x_nil]. }
  pose proof (handler_exec e t (ready c && negb batch1) cfg1 Hw) as E2.
  destruct (handler e t (ready c && negb batch1) cfg1) as [[cfg2 l2] rep2]. cbn [fst snd] in E2.
  match goal with |- context [phase_fin e t ?f cfg2] =>
    pose proof (phase_fin_exec e t f cfg2 Hw) as E3; destruct (phase_fin e t f cfg2) as [[cfg3 l3] rep3] end.
  cbn [fst snd] in E3.
  match goal with |- context [phase_end e t ?b ?u ?eb cfg3] =>
    pose proof (phase_end_exec e t b u eb cfg3 Hw) as E4; destruct (phase_end e t b u eb cfg3) as [[[cfg4 l4] rep4] sw4] end.
  cbn [fst snd slog cfg] in *.
  eapply exec_app; [exact E1|]. eapply exec_app; [exact E2|]. eapply exec_app; [exact E3|exact E4].
Qed.

Lemma run_sync_exec e ts : forall c,
  (forall t, In t ts -> work_plain e t) ->
  exec e false (cfg c) (strace (snd (run_sync e c ts))) (cfg (fst (run_sync e c ts))).
Proof.
  induction ts as [|t ts IH]; intros c Hw; cbn; [apply x_nil|].
  pose proof (sync_exec e c t (Hw t (or_introl eq_refl))) as H1.
  destruct (sync e c t) as [c1 x]. cbn [fst snd] in H1.
  specialize (IH c1 (fun t' Hin => Hw t' (or_intror Hin))).
  destruct (run_sync e c1 ts) as [c2 xs]. cbn [fst snd] in *.
  unfold strace. cbn. eapply exec_app; eassumption.
Qed.

(* T1 at the controller: over any history of syncs (any task kinds, queue lengths, faults), no
   Reload and no API call reaches the Manager between the controller's DisableReloads (or
   start-up) and its EnableReloads -- provided no handler runs AddOrUpdateVirtualServer with
   weight updates *)
Theorem ctl_no_reload_while_held_partial : forall e ts c,
  (forall t, In t ts -> work_plain e t) ->
  held_scan (negb (enabled (cfg c))) (strace (snd (run_sync e c ts)))
  = Some (negb (enabled (cfg (fst (run_sync e c ts))))).
Proof. intros e ts c Hw. apply (exec_held e). apply run_sync_exec. exact Hw. Qed.

(* ------------------------------------------------------------------ failures at the controller *)

Lemma run_work_failure e os : forall s,
  let '(s', l, f) := run_work e s os in existsb is_failed_reload l = f.
Proof.
  induction os as [|o os IH]; intros s; cbn; [reflexivity|].
  pose proof (failure_propagates e s o) as F.
  destruct (step e s o) as [s1 x]. specialize (F s1 x eq_refl).
  specialize (IH s1). destruct (run_work e s1 os) as [[s2 l] f].
  rewrite existsb_app, IH. f_equal.
  destruct (oerr x).
  - destruct (existsb is_failed_reload (log x)); [|reflexivity]. destruct F as [F _]. specialize (F eq_refl). discriminate.
  - destruct F as [_ F]. rewrite (F eq_refl). reflexivity.
Qed.

Lemma update_all_failure e t s :
  let '(s', l, f) := update_all e t s in existsb is_failed_reload l = f.
Proof.
  unfold update_all.
  pose proof (run_work_failure e (t_all_pre t) s) as F0.
  destruct (run_work e s (t_all_pre t)) as [[s0 l0] f0].
  pose proof (failure_propagates e s0 (OUpdateConfig (t_mainver t) (t_all t))) as F.
  destruct (step e s0 _) as [s1 x]. specialize (F s1 x eq_refl).
  rewrite existsb_app, F0. f_equal.
  destruct (oerr x).
  - destruct (existsb is_failed_reload (log x)); [|reflexivity]. destruct F as [F _]. specialize (F eq_refl). discriminate.
  - destruct F as [_ F]. rewrite (F eq_refl). reflexivity.
Qed.

Lemma step_failure_flag e s o :
  existsb is_failed_reload (log (snd (step e s o))) = match oerr (snd (step e s o)) with ENone => false | _ => true end.
Proof.
  pose proof (failure_propagates e s o) as F.
  destruct (step e s o) as [s1 x]. specialize (F s1 x eq_refl). cbn [snd].
  destruct (oerr x).
  - destruct (existsb is_failed_reload (log x)); [|reflexivity]. destruct F as [F _]. specialize (F eq_refl). discriminate.
  - destruct F as [_ F]. rewrite (F eq_refl). reflexivity.
Qed.

Lemma handler_failure e t go s :
  let '(s', l, f) := handler e t go s in existsb is_failed_reload l = f.
Proof.
  unfold handler. destruct (t_kind t); try apply run_work_failure.
  destruct go; [apply update_all_failure|reflexivity].
Qed.

Lemma phase_fin_failure e t fin s :
  let '(s', l, f) := phase_fin e t fin s in existsb is_failed_reload l = f.
Proof.
  unfold phase_fin. destruct fin; [|reflexivity].
  pose proof (update_all_failure e t (set_enabled true s)) as H.
  destruct (update_all e t (set_enabled true s)) as [[s' l] r]. cbn. exact H.
Qed.

Lemma phase_end_failure e t bend ua eb s :
  let '(s', l, f, sw) := phase_end e t bend ua eb s in existsb is_failed_reload l = f || sw.
Proof.
  unfold phase_end. destruct bend; [|reflexivity]. destruct ua.
  - pose proof (update_all_failure e t (set_enabled true s)) as H.
    destruct (update_all e t (set_enabled true s)) as [[s' l] r]. cbn. rewrite orb_false_r. exact H.
  - pose proof (step_failure_flag e (set_enabled true s) (OReloadForBatch eb)) as F.
    destruct (step e (set_enabled true s) (OReloadForBatch eb)) as [s' x]. cbn in *. exact F.
Qed.

(* every failed Reload of a sync is either reported on resources or swallowed (only logged) *)
Theorem ctl_failure_reported_or_swallowed : forall e c t,
  let x := snd (sync e c t) in
  existsb is_failed_reload (slog x) = reported x || swallowed x.
Proof.
  intros e c t. unfold sync.
  set (start := ready c && (1 <? t_qlen t)%nat && negb (batch c)).
  set (cfg1 := if start then set_enabled false (cfg c) else cfg c).
  set (batch1 := batch c || start).
  pose proof (handler_failure e t (ready c && negb batch1) cfg1) as E2.
  destruct (handler e t (ready c && negb batch1) cfg1) as [[cfg2 l2] rep2].
  match goal with |- context [phase_fin e t ?f cfg2] =>
    pose proof (phase_fin_failure e t f cfg2) as E3; destruct (phase_fin e t f cfg2) as [[cfg3 l3] rep3] end.
  match goal with |- context [phase_end e t ?b ?u ?eb cfg3] =>
    pose proof (phase_end_failure e t b u eb cfg3) as E4; destruct (phase_end e t b u eb cfg3) as [[[cfg4 l4] rep4] sw4] end.
  cbn [snd slog reported swallowed].
  rewrite !existsb_app, E2, E3, E4.
  assert (H1 : existsb is_failed_reload (if start then [EDisable] else []) = false) by (destruct start; reflexivity).
  rewrite H1. cbn. destruct rep2, rep3, rep4, sw4, (reports e t), (t_all_reports t), (fx_batchrep (fx e)), (t_all t); reflexivity.
Qed.

(* a failure is swallowed only by the ReloadForBatchUpdates path at the end of a batch, or by a
   handler that has nothing to report on (endpointslice tasks; deletion of a vanished object) *)
Theorem ctl_swallowed_only_there : forall e c t,
  swallowed (snd (sync e c t)) = true ->
  (t_qlen t = 0 /\ batch c = true /\ batch (fst (sync e c t)) = false /\
   (fx_batchrep (fx e) = false \/ t_all t = []))
  \/ reports e t = false \/ t_all_reports t = false.
Proof.
  intros e c t. unfold sync.
  set (start := ready c && (1 <? t_qlen t)%nat && negb (batch c)).
  set (cfg1 := if start then set_enabled false (cfg c) else cfg c).
  set (batch1 := batch c || start).
  destruct (handler e t (ready c && negb batch1) cfg1) as [[cfg2 l2] f2].
  match goal with |- context [phase_fin e t ?f cfg2] => destruct (phase_fin e t f cfg2) as [[cfg3 l3] f3] end.
  destruct (reports e t) eqn:Rp; [|intros _; right; left; reflexivity].
  destruct (t_all_reports t) eqn:Ar; [|intros _; right; right; reflexivity].
  rewrite !andb_false_r. cbn [orb negb].
  unfold phase_end.
  destruct (batch1 && Nat.eqb (t_qlen t) 0) eqn:B; [|cbn; rewrite ?andb_false_r; discriminate].
  apply andb_prop in B. destruct B as [B1 B2]. apply Nat.eqb_eq in B2.
  destruct (uab c || is_cm_task (t_kind t) && batch1) eqn:U.
  - destruct (update_all e t (set_enabled true cfg3)) as [[s' l] r]. cbn. rewrite ?andb_false_r, ?orb_false_r. discriminate.
  - destruct (step e (set_enabled true cfg3) _) as [s' x]. cbn. intros Hs. left.
    split; [exact B2|]. split.
    + subst batch1 start. rewrite B2 in B1. cbn in B1. rewrite andb_false_r in B1. cbn in B1.
      rewrite orb_false_r in B1. exact B1.
    + split; [rewrite andb_false_r; reflexivity|].
      rewrite ?andb_false_r, ?orb_false_l in Hs. cbn in Hs.
      apply andb_prop in Hs. destruct Hs as [_ Hs]. apply negb_true_iff in Hs.
      destruct (fx_batchrep (fx e)); [right|left; reflexivity].
      destruct (t_all t); [reflexivity|discriminate].
Qed.

(* with F16c repaired the flag is down after every batch *)
Theorem uab_reset_fixed : forall e c t,
  fx_uab (fx e) = true -> batch c = true -> t_qlen t = 0 -> uab (fst (sync e c t)) = false.
Proof.
  intros e c t F Hb Hq. unfold sync. rewrite Hb, Hq, F.
  destruct (handler e t _ _) as [[cfg2 l2] f2].
  destruct (phase_fin e t _ cfg2) as [[cfg3 l3] f3].
  destruct (phase_end e t _ _ _ cfg3) as [[[cfg4 l4] f4] f5].
  cbn. apply andb_false_r.
Qed.

(* with F16b and F16d repaired, a failed Reload of a sync is reported whenever there is an
   object to report on: the handler's resource still exists, and updateAllConfigs /
   the end of the batch see at least one resource *)
Theorem ctl_failure_reported_fixed : forall e c t,
  fx_batchrep (fx e) = true -> fx_endprep (fx e) = true ->
  (t_kind t <> TConfigMap -> t_reports t = true) -> t_all_reports t = true -> t_all t <> [] ->
  let x := snd (sync e c t) in
  reported x = existsb is_failed_reload (slog x) /\ swallowed x = false.
Proof.
  intros e c t F1 F2 Hr Ha Hn.
  pose proof (ctl_failure_reported_or_swallowed e c t) as T.
  pose proof (ctl_swallowed_only_there e c t) as S.
  cbv zeta in *. destruct (swallowed (snd (sync e c t))) eqn:Sw.
  - exfalso. destruct (S eq_refl) as [(_ & _ & _ & [H|H])|[H|H]]; try congruence.
    unfold reports in H. destruct (t_kind t); try congruence.
    + rewrite F2, Hr in H; [discriminate|discriminate].
    + rewrite Hr in H; [discriminate|discriminate].
  - rewrite orb_false_r in T. split; [symmetry; exact T|reflexivity].
Qed.

(* ------------------------------------------------------------------ T3: the end of a batch *)

Definition ends_with_reload (l : list ev) : Prop := exists pre endp ok, l = pre ++ [EReload endp ok].

Lemma finish_reload_ends e endp s l :
  enabled s = true -> ends_with_reload (log (snd (finish_reload e endp s l))).
Proof.
  intros En. pose proof (finish_reload_facts e endp s l) as F.
  destruct (finish_reload e endp s l) as [s' x]. destruct F as [_ [(E0 & _)|(_ & ok & L & _)]]; [congruence|].
  cbn. exists l, endp, ok. exact L.
Qed.

Lemma ends_with_reload_app l1 l2 : ends_with_reload l2 -> ends_with_reload (l1 ++ l2).
Proof. intros (pre & endp & ok & ->). exists (l1 ++ pre), endp, ok. rewrite app_assoc. reflexivity. Qed.

Lemma do_writes_enabled rs s : enabled (fst (do_writes rs s)) = enabled s.
Proof. apply do_writes_wd. Qed.

(* the secret files updateAllConfigs rewrites first are plain writes *)
Definition is_secret_op (o : op) : bool := match o with OSecret _ _ _ => true | _ => false end.
Definition pre_secrets (t : task) : Prop := forall o, In o (t_all_pre t) -> is_secret_op o = true.

Lemma run_secrets_enabled e os : forall s,
  (forall o, In o os -> is_secret_op o = true) -> enabled (fst (fst (run_work e s os))) = enabled s.
Proof.
  induction os as [|o os IH]; intros s H; cbn; [reflexivity|].
  assert (Ho := H o (or_introl eq_refl)). destruct o; try discriminate. unfold step.
  destruct (do_write_wd (if eager then FSecret else FLazy) name ver s) as [_ W].
  destruct (do_write _ name ver s) as [s1 l1]. cbn [fst] in W.
  specialize (IH s1 (fun o' Hin => H o' (or_intror Hin))).
  destruct (run_work e s1 os) as [[s2 l] f]. cbn [fst] in *. congruence.
Qed.

(* when the queue drains while a batch is on: if the reload flag is up (a non-endpointslice
   task ran in the batch, or an endpointslice task found resources, or this task does), or a
   ConfigMap was seen in some batch, the last thing the sync does is a Reload call *)
Theorem batch_end_reloads : forall e c t,
  pre_secrets t ->
  batch c = true -> t_qlen t = 0 ->
  ebr c = true \/ uab c = true \/ is_endp_task (t_kind t) = false \/ t_found t = true ->
  ends_with_reload (slog (snd (sync e c t))) /\
  batch (fst (sync e c t)) = false /\ ebr (fst (sync e c t)) = false /\
  enabled (cfg (fst (sync e c t))) = true.
Proof.
  intros e c t Hpre Hb Hq Hflag. unfold sync. rewrite Hb, Hq.
  replace (ready c && (1 <? 0)%nat && negb true) with false by (rewrite andb_false_r; reflexivity).
  cbn [orb negb andb Nat.eqb].
  destruct (handler e t (ready c && false) (cfg c)) as [[cfg2 l2] rep2].
  destruct (phase_fin e t (negb (ready c) && true) cfg2) as [[cfg3 l3] rep3].
  unfold phase_end.
  destruct (uab c || is_cm_task (t_kind t) && true) eqn:U.
  - (* updateAllConfigs *)
    unfold update_all.
    pose proof (run_secrets_enabled e (t_all_pre t) (set_enabled true cfg3) Hpre) as W0.
    destruct (run_work e (set_enabled true cfg3) (t_all_pre t)) as [[s0 l0] f0]. cbn [fst] in W0.
    unfold step.
    pose proof (do_write_wd FMain "" (t_mainver t) s0) as [_ W1].
    destruct (do_write FMain "" (t_mainver t) s0) as [s1 l1].
    pose proof (do_writes_enabled (t_all t) s1) as W2. destruct (do_writes (t_all t) s1) as [s2 l2'].
    cbn [fst snd] in *.
    assert (En : enabled s2 = true) by (rewrite W2, W1, W0; reflexivity).
    pose proof (finish_reload_ends e false s2 (l1 ++ l2') En) as R.
    pose proof (finish_reload_facts e false s2 (l1 ++ l2')) as F.
    destruct (finish_reload e false s2 (l1 ++ l2')) as [s3 x]. destruct F as [F _].
    cbn [fst snd slog batch ebr cfg log]. cbn [snd] in R.
    split; [repeat apply ends_with_reload_app; change (EEnable :: l0 ++ log x) with ([EEnable] ++ l0 ++ log x);
            repeat apply ends_with_reload_app; exact R|].
    repeat split; try reflexivity; try (rewrite andb_false_r; reflexivity); try exact F; try congruence.
  - (* ReloadForBatchUpdates(enableBatchReload) *)
    assert (Hf : ebr c || negb (is_endp_task (t_kind t)) || is_endp_task (t_kind t) && true && t_found t = true).
    { apply orb_false_elim in U. destruct U as [U1 U2].
      destruct Hflag as [H|[H|[H|H]]].
      - rewrite H. reflexivity.
      - congruence.
      - rewrite H. destruct (ebr c); reflexivity.
      - rewrite H. destruct (is_endp_task (t_kind t)), (ebr c); reflexivity. }
    rewrite Hf. unfold step.
    pose proof (finish_reload_ends e false (set_enabled true cfg3) [] eq_refl) as R.
    pose proof (finish_reload_facts e false (set_enabled true cfg3) []) as F.
    destruct (finish_reload e false (set_enabled true cfg3) []) as [s3 x]. destruct F as [F _].
    cbn [fst snd slog batch ebr cfg log]. cbn [snd] in R.
    split; [repeat apply ends_with_reload_app; change (EEnable :: log x) with ([EEnable] ++ log x);
            apply ends_with_reload_app; exact R|].
    repeat split; try reflexivity; try (rewrite andb_false_r; reflexivity); try exact F; try congruence.
Qed.

(* a task is well-formed when an endpointslice task that found no resources does no work *)
Definition task_wf (t : task) : Prop :=
  (is_endp_task (t_kind t) = true -> t_found t = false -> t_work t = []) /\ pre_secrets t.

(* one sync in the middle of a batch (queue not empty): the batch goes on, the reload flag
   does not fall, and either it is up afterwards or this sync changed no file *)
Lemma batch_mid_step e c t :
  task_wf t -> (batch c = true \/ (ready c = true /\ 1 < t_qlen t)) -> 0 < t_qlen t ->
  batch (fst (sync e c t)) = true /\
  (ready c = true -> ready (fst (sync e c t)) = true) /\
  (ebr c = true -> ebr (fst (sync e c t)) = true) /\
  (ebr (fst (sync e c t)) = true \/ existsb is_change (slog (snd (sync e c t))) = false).
Proof.
  intros [Wf _] Hb Hq. unfold sync.
  assert (Q0 : Nat.eqb (t_qlen t) 0 = false) by (apply Nat.eqb_neq; lia).
  rewrite Q0, !andb_false_r.
  set (start := ready c && (1 <? t_qlen t)%nat && negb (batch c)).
  assert (B1 : batch c || start = true).
  { destruct Hb as [H|[H1 H2]]; [rewrite H; reflexivity|].
    subst start. rewrite H1. apply Nat.ltb_lt in H2. rewrite H2. destruct (batch c); reflexivity. }
  rewrite B1. cbn [andb negb]. unfold phase_fin, phase_end, handler.
  destruct (is_endp_task (t_kind t)) eqn:K.
  - (* endpointslice *)
    destruct (t_kind t); try discriminate.
    destruct (t_found t) eqn:Fd.
    + destruct (run_work e _ (t_work t)) as [[cfg2 l2] rep2]. cbn.
      split; [reflexivity|]. split; [intros ->; reflexivity|]. split; [intros _|left]; destruct (ebr c); reflexivity.
    + rewrite (Wf eq_refl eq_refl). cbn.
      split; [reflexivity|]. split; [intros ->; reflexivity|]. split; [intros ->; reflexivity|].
      right. destruct start; reflexivity.
  - destruct (t_kind t) eqn:Kd; try discriminate.
    + rewrite ?andb_false_r. cbn.
      split; [reflexivity|]. split; [intros ->; reflexivity|].
      split; [intros _|left]; destruct (ebr c); reflexivity.
    + destruct (run_work e _ (t_work t)) as [[cfg2 l2] rep2]. cbn.
      split; [reflexivity|]. split; [intros ->; reflexivity|].
      split; [intros _|left]; destruct (ebr c); reflexivity.
Qed.

Lemma batch_run_inv e ts : forall c acc,
  batch c = true -> ready c = true ->
  (forall t, In t ts -> 0 < t_qlen t) -> (forall t, In t ts -> task_wf t) ->
  (ebr c = true \/ acc = false) ->
  let '(c1, xs) := run_sync e c ts in
  batch c1 = true /\ ready c1 = true /\ (ebr c1 = true \/ acc || existsb is_change (strace xs) = false).
Proof.
  induction ts as [|t ts IH]; intros c acc Hb Hr Hq Hw Hacc; cbn.
  - repeat split; auto. rewrite orb_false_r. exact Hacc.
  - pose proof (batch_mid_step e c t (Hw t (or_introl eq_refl)) (or_introl Hb) (Hq t (or_introl eq_refl))) as (S1 & S2 & S3 & S4).
    destruct (sync e c t) as [c1 x]. cbn [fst snd] in *.
    assert (Hacc' : ebr c1 = true \/ acc || existsb is_change (slog x) = false).
    { destruct Hacc as [Ha|Ha]; [left; exact (S3 Ha)|].
      destruct S4 as [S4|S4]; [left; exact S4|right; rewrite Ha, S4; reflexivity]. }
    specialize (IH c1 (acc || existsb is_change (slog x)) S1 (S2 Hr)
                   (fun t' Hin => Hq t' (or_intror Hin)) (fun t' Hin => Hw t' (or_intror Hin)) Hacc').
    destruct (run_sync e c1 ts) as [c2 xs]. unfold strace in *. cbn. rewrite existsb_app, orb_assoc. exact IH.
Qed.

(* the draining sync of a batch whose flags are all down changes nothing *)
Lemma batch_end_quiet e c t :
  batch c = true -> ready c = true -> t_qlen t = 0 -> ebr c = false -> uab c = false ->
  is_endp_task (t_kind t) = true -> t_found t = false -> t_work t = [] ->
  existsb is_change (slog (snd (sync e c t))) = false.
Proof.
  intros Hb Hr Hq He Hu Hk Hf Hw. unfold sync, handler, phase_fin, phase_end. rewrite Hb, Hr, Hq, He, Hu, Hf, Hw.
  destruct (t_kind t); try discriminate. cbn. reflexivity.
Qed.

(* T3 over a whole batch: it begins (ready, more than one item queued), goes on while the
   queue is not empty, and when the queue drains -- if any file changed during the batch, the
   draining sync ends with a Reload call, which therefore follows every change of the batch *)
Theorem batch_end : forall e mid c0 t1 tn,
  ready c0 = true -> batch c0 = false -> 1 < t_qlen t1 ->
  (forall t, In t mid -> 0 < t_qlen t) -> t_qlen tn = 0 ->
  (forall t, In t (t1 :: mid ++ [tn]) -> task_wf t) ->
  let '(c1, xs) := run_sync e c0 (t1 :: mid) in
  let '(c2, x) := sync e c1 tn in
  existsb is_change (strace xs ++ slog x) = true ->
  ends_with_reload (slog x) /\ batch c2 = false /\ enabled (cfg c2) = true.
Proof.
  intros e mid c0 t1 tn Hr Hb H1 Hmid Hn Hwf. cbn [run_sync].
  assert (W1 : task_wf t1) by (apply Hwf; left; reflexivity).
  assert (Wm : forall t, In t mid -> task_wf t) by (intros t Hin; apply Hwf; right; apply in_or_app; left; exact Hin).
  assert (Wn : task_wf tn) by (apply Hwf; right; apply in_or_app; right; left; reflexivity).
  pose proof (batch_mid_step e c0 t1 W1 (or_intror (conj Hr H1)) ltac:(lia)) as (S1 & S2 & _ & S4).
  destruct (sync e c0 t1) as [ca xa]. cbn [fst snd] in *.
  assert (Hacc : ebr ca = true \/ existsb is_change (slog xa) = false) by exact S4.
  pose proof (batch_run_inv e mid ca (existsb is_change (slog xa)) S1 (S2 Hr) Hmid Wm Hacc) as I.
  destruct (run_sync e ca mid) as [c1 xs]. destruct I as (I1 & I2 & I3).
  pose proof (batch_end_reloads e c1 tn (proj2 Wn) I1 Hn) as R.
  pose proof (batch_end_quiet e c1 tn I1 I2 Hn) as Q.
  destruct (sync e c1 tn) as [c2 x]. cbn [fst snd] in *.
  intros Hch. unfold strace in Hch. cbn in Hch. rewrite !existsb_app in Hch. fold (strace xs) in Hch.
  assert (Hflag : ebr c1 = true \/ uab c1 = true \/ is_endp_task (t_kind tn) = false \/ t_found tn = true).
  { destruct (ebr c1) eqn:E; [left; reflexivity|].
    destruct (uab c1) eqn:U; [right; left; reflexivity|].
    destruct (is_endp_task (t_kind tn)) eqn:K; [|right; right; left; reflexivity].
    destruct (t_found tn) eqn:F; [right; right; right; reflexivity|].
    exfalso. specialize (Q eq_refl eq_refl eq_refl eq_refl (proj1 Wn K F)).
    destruct I3 as [I3|I3]; [discriminate|].
    rewrite Q, orb_false_r in Hch. rewrite Hch in I3. discriminate. }
  destruct (R Hflag) as (R1 & R2 & _ & R4). repeat split; assumption.
Qed.

(* ------------------------------------------------------------------ refutations (witnesses replayed on the real code by the harness) *)

Definition mk_task (k : tkind) (q : nat) (w : list op) (f : bool) : task :=
  {| t_kind := k; t_qlen := q; t_work := w; t_found := f; t_reports := true; t_all_reports := true; t_all_pre := []; t_mainver := 0; t_all := [] |}.

(* start-up (queue drains at once), then a batch of two tasks that touch nothing *)
Definition idle_batch : list task := [mk_task TOther 0 [] false; mk_task TOther 2 [] false; mk_task TOther 0 [] false].

(* F16a: the only-if half of the batch rule fails: nothing NGINX reads changed during the batch
   and nothing was pending when it began, yet the draining sync reloads NGINX *)
Theorem batch_end_only_if_refuted :
  exists e ts c1 xs x,
    fx e = no_fixes /\
    run_sync e ctl_init ts = (c1, xs ++ [x]) /\
    dirty (cfg c1) = false /\
    existsb is_change (strace (skipn 1 (xs ++ [x]))) = false /\
    dirty (cfg (fst (run_sync e ctl_init (firstn 1 ts)))) = false /\
    existsb is_reload (slog x) = true.
Proof.
  exists (env_ok false), idle_batch.
  remember (run_sync (env_ok false) ctl_init idle_batch) as r eqn:E. vm_compute in E. subst r.
  eexists. eexists [_; _]. eexists. split; [reflexivity|]. split; [cbn; reflexivity|]. vm_compute. repeat split; reflexivity.
Qed.

(* F16b: a Reload that fails when the batch ends is not reported on any resource *)
Theorem ctl_failure_propagates_refuted :
  exists e ts, let x := last (snd (run_sync e ctl_init ts)) {| slog := []; reported := false; swallowed := false |} in
    fx e = no_fixes /\ existsb is_failed_reload (slog x) = true /\ reported x = false /\ swallowed x = true.
Proof.
  exists {| plus := false; ro := fails_at [1]; ao := fun _ => true; fx := no_fixes |}, idle_batch. vm_compute. repeat split; reflexivity.
Qed.

(* F16c: updateAllConfigsOnBatch is never reset: after one batch that contained a ConfigMap
   task, every later batch ends by regenerating everything and reloading, even an idle one *)
Theorem uab_sticky_refuted :
  exists e ts, let x := last (snd (run_sync e ctl_init ts)) {| slog := []; reported := false; swallowed := false |} in
    fx e = no_fixes /\
    existsb (fun y => match y with EWrite FMain _ _ => true | _ => false end) (slog x) = true /\
    existsb is_change (slog x) = false /\ existsb is_reload (slog x) = true.
Proof.
  exists (env_ok false),
    [mk_task TOther 0 [] false; mk_task TConfigMap 2 [] false; mk_task TOther 0 [] false;
     mk_task TOther 2 [] false; mk_task TOther 0 [] false].
  vm_compute. repeat split; reflexivity.
Qed.

(* F15 at the controller: a VirtualServer task with weight updates inside a batch *)
Theorem ctl_no_reload_while_held_refuted :
  exists e ts, fx e = no_fixes /\ held_scan true (strace (snd (run_sync e ctl_init ts))) = None.
Proof.
  exists (env_ok false),
    [mk_task TOther 0 [] false; mk_task TOther 2 [OAdd vs_with_weights] false; mk_task TOther 0 [] false].
  split; [reflexivity|]. vm_compute. reflexivity.
Qed.
