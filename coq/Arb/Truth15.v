(* C05 truth proof, part 15: applied objects are stored; what the judge reads off the observation *)
From Coq Require Import List ZArith String Ascii Bool Lia.
From NIC Require Import Base.SMap Arb.Types Arb.Model Arb.Spec Arb.WinsProofs Arb.InvProofs Arb.OwnerProofs
     Arb.ListenerProofs Arb.ClassProofs Arb.ChangeProofs Arb.ReportProofs Arb.ComposeProofs Arb.Cases Arb.ShadowProofs Arb.ShadowAttrs.
From NIC Require Import Arb.Truth01 Arb.Truth02 Arb.Truth03 Arb.Truth04 Arb.Truth05 Arb.Truth06 Arb.Truth07 Arb.Truth08 Arb.Truth09 Arb.Truth10 Arb.Truth11 Arb.Truth12 Arb.Truth13 Arb.Truth14.
Import ListNotations.
Open Scope string_scope.
Open Scope Z_scope.

Section Static.
  Variables (c : cfg) (o : objs).
  Hypothesis Hcm : cert_manager c = false.
  Hypothesis Hok : objs_ok o.
  Hypothesis Hr : roles_ok o.
  Hypothesis Hwf : objs_wf c o.

  Theorem applied_named k : ApO c o k -> exists u, who o k u.
  Proof.
    intros [HA|[HA|[(h & ic & m & Hh & Hm & E)|(h & vc & x & Hh & Hx & E)]]].
    - destruct (hkey_in c o k HA) as (r & Hres). pose proof (res_kind c o Hcm Hok k r Hres) as Hkind.
      destruct r as [ic|vc|tc].
      + destruct Hkind as (k0 & Hst & _ & E). eexists. eapply who_ing; eauto.
      + destruct Hkind as (k0 & Hst & E). eexists. eapply who_vs; eauto.
      + destruct Hkind as (k0 & Hst & _ & E). eexists. eapply who_ts; eauto.
    - destruct (lkey_in o k HA) as (k0 & t & Ht & _ & E). eexists. eapply who_ts; eauto.
    - destruct (attached_minion_facts c o Hcm Hok Hwf h ic m Hh Hm) as ((k0 & Hst) & _). eexists. eapply who_ing; eauto.
    - destruct (attached_vsr_facts c o Hcm Hok Hwf h vc x Hh Hx) as ((k0 & Hst) & _). eexists. eapply who_vsr; eauto.
  Qed.

  (* a stored minion is never a resource; a stored regular or master Ingress is never an attached minion *)
  Lemma minion_not_resource k0 i : In (k0, i) (o_ings o) -> is_minion i = true -> ~ key_in (hosts_of_objs c o) (ing_rkey i).
  Proof.
    intros Hi Hm HA. destruct Hok as (W1 & W2 & W3 & W4 & K1 & K2 & K3 & K4).
    destruct (hkey_in c o _ HA) as (r & Hres). pose proof (res_kind c o Hcm Hok _ r Hres) as Hkind.
    destruct r as [ic|vc|tc].
    - destruct Hkind as (k2 & Hst2 & Hnm & E).
      assert (i = ic_ing ic).
      { apply (same_stored (fun i => mkey (i_meta i)) (o_ings o) k0 k2 _ _ W1 K1 Hi Hst2). unfold ing_rkey in E. apply append_inj_l in E. exact E. }
      congruence.
    - destruct Hkind as (? & _ & E). clash E.
    - destruct Hkind as (? & _ & _ & E). clash E.
  Qed.

  Lemma attached_is_minion k0 i h ic m : In (k0, i) (o_ings o) ->
    lookup h (hosts_of_objs c o) = Some (RIng ic) -> In m (ic_minions ic) -> ing_rkey i = "Ingress/" ++ key_of_ing (mc_ing m) ->
    mc_ing m = i /\ is_minion i = true.
  Proof.
    intros Hi Hh Hm E. destruct Hok as (W1 & W2 & W3 & W4 & K1 & K2 & K3 & K4).
    destruct (attached_minion_facts c o Hcm Hok Hwf h ic m Hh Hm) as ((k1 & Hst) & Hmin & _).
    assert (mc_ing m = i).
    { apply (same_stored (fun i => mkey (i_meta i)) (o_ings o) k1 k0 _ _ W1 K1 Hst Hi). unfold ing_rkey, key_of_ing in E. apply append_inj_l in E. congruence. }
    subst i. auto.
  Qed.
End Static.

(* ---------- the judge's view ---------- *)

Lemma wf_hosts c s : fn_inv c s -> wf (hosts s) /\ wf (lhosts s).
Proof. intros [Hh Hl]. rewrite Hh, Hl. split; [apply wf_b_hosts|apply wf_lb_hosts]. Qed.

Lemma owns_host_iff c s k : fn_inv c s -> (owns_some_host (view_ob s) k = true <-> key_in (hosts s) k).
Proof.
  intros Hf. destruct (wf_hosts c s Hf) as [W _].
  unfold owns_some_host, view_ob, hosts_view. cbn [ob_hosts]. rewrite existsb_exists. split.
  - intros ([h k'] & Hin & He). cbn [snd] in He. apply String.eqb_eq in He. subst k'.
    apply in_map_iff in Hin. destruct Hin as ([h' r] & Heq & Hin). inversion Heq; subst. exists h, r. split; [|reflexivity].
    apply In_lookup; assumption.
  - intros (h & r & Hh & Hk). exists (h, k). split; [|apply String.eqb_refl]. apply in_map_iff. exists (h, r). split; [cbn [fst snd]; rewrite Hk; reflexivity|].
    apply lookup_In. exact Hh.
Qed.

Lemma owns_listener_iff c s k : fn_inv c s -> (owns_some_listener (view_ob s) k = true <-> key_in (smap_map RTS (lhosts s)) k).
Proof.
  intros Hf. destruct (wf_hosts c s Hf) as [_ W].
  unfold owns_some_listener, view_ob, lhosts_view. cbn [ob_lhosts]. rewrite existsb_exists. split.
  - intros ([h k'] & Hin & He). cbn [snd] in He. apply String.eqb_eq in He. subst k'.
    apply in_map_iff in Hin. destruct Hin as ([h' r] & Heq & Hin). inversion Heq; subst. exists h, (RTS r). split; [|reflexivity].
    rewrite lookup_smap_map, (In_lookup _ _ _ W Hin). reflexivity.
  - intros (h & r & Hh & Hk). rewrite lookup_smap_map in Hh. destruct (lookup h (lhosts s)) as [tc|] eqn:E; [|discriminate]. cbn in Hh. inversion Hh; subst r.
    exists (h, k). split; [|apply String.eqb_refl]. apply in_map_iff. exists (h, tc). split; [cbn [fst snd]; rewrite Hk; reflexivity|]. apply lookup_In. exact E.
Qed.

(* the resources the judge sees are those of GetResources(), warnings sorted *)
Lemma res_view_in s r : In r (res_view s) <-> exists K r0, lookup K (get_resources s) = Some r0 /\ r = norm_res r0.
Proof.
  unfold res_view. rewrite in_map_iff. split.
  - intros ([K r0] & Heq & Hin). exists K, r0. split; [|auto]. apply In_lookup; [apply wf_of_list|exact Hin].
  - intros (K & r0 & L & ->). exists (K, r0). split; [reflexivity|apply lookup_In; exact L].
Qed.

Lemma attached_vsr_iff s r : attached_vsr (view_ob s) r = true <->
  exists V vc, lookup V (get_resources s) = Some (RVS vc) /\ In r (vc_vsrs vc).
Proof.
  unfold attached_vsr, view_ob. cbn [ob_res]. rewrite existsb_exists. split.
  - intros (x & Hx & Hb). apply res_view_in in Hx. destruct Hx as (K & r0 & L & ->).
    destruct r0 as [ic|vc|tc]; cbn [norm_res] in Hb; try discriminate. cbn [vc_vsrs] in Hb.
    apply existsb_exists in Hb. destruct Hb as (y & Hy & He). unfold eqb_of in He. destruct (vsroute_dec y r); [|discriminate]. subst y. eauto.
  - intros (V & vc & L & Hin). exists (norm_res (RVS vc)). split; [apply res_view_in; eauto|]. cbn [norm_res vc_vsrs].
    apply existsb_exists. exists r. split; [exact Hin|]. unfold eqb_of. destruct (vsroute_dec r r); [reflexivity|congruence].
Qed.

Lemma attached_minion_iff s mk : attached_minion (view_ob s) mk <> None <->
  exists M ic m, lookup M (get_resources s) = Some (RIng ic) /\ In m (ic_minions ic) /\ key_of_ing (mc_ing m) = mk.
Proof.
  unfold attached_minion, view_ob. cbn [ob_res].
  set (f := fun r => match r with
                     | RIng ic => match filter (fun m => String.eqb (key_of_ing (mc_ing m)) mk) (ic_minions ic) with
                                  | m :: _ => Some (nonempty (true_paths m)) | [] => None end
                     | _ => None end).
  assert (G : (exists b, In b (filter_map f (res_view s))) <->
              exists M ic m, lookup M (get_resources s) = Some (RIng ic) /\ In m (ic_minions ic) /\ key_of_ing (mc_ing m) = mk).
  { split.
    - intros (b & Hb). apply in_filter_map in Hb. destruct Hb as (x & Hx & Hf). apply res_view_in in Hx. destruct Hx as (K & r0 & L & ->).
      destruct r0 as [ic|vc|tc]; cbn [norm_res f] in Hf; try discriminate. cbn [ic_minions] in Hf.
      destruct (filter (fun m => String.eqb (key_of_ing (mc_ing m)) mk) (ic_minions ic)) as [|m l] eqn:Ef; [discriminate|].
      assert (Hm : In m (filter (fun m => String.eqb (key_of_ing (mc_ing m)) mk) (ic_minions ic))) by (rewrite Ef; left; reflexivity).
      apply filter_In in Hm. destruct Hm as [Hm He]. apply String.eqb_eq in He. exists K, ic, m. auto.
    - intros (M & ic & m & L & Hm & Ek).
      assert (Hm' : In m (filter (fun m => String.eqb (key_of_ing (mc_ing m)) mk) (ic_minions ic))) by (apply filter_In; split; [exact Hm|apply String.eqb_eq; exact Ek]).
      destruct (filter (fun m => String.eqb (key_of_ing (mc_ing m)) mk) (ic_minions ic)) as [|m0 l] eqn:Ef; [destruct Hm'|].
      exists (nonempty (true_paths m0)). apply in_filter_map. exists (norm_res (RIng ic)). split; [apply res_view_in; eauto|].
      cbn [norm_res f ic_minions]. rewrite Ef. reflexivity. }
  fold f. rewrite <- G. destruct (filter_map f (res_view s)) as [|b l]; split.
  - intros Hn. congruence.
  - intros (b & []).
  - intros _. exists b. left; reflexivity.
  - intros _. discriminate.
Qed.
