(* C12 -- proofs about the Configurator reload gate (Reload.Model.step / run). *)
From Coq Require Import List ZArith String Bool Arith Lia.
From NIC Require Import Base.SMap Reload.Model.
Import ListNotations.
Open Scope list_scope.

(* ------------------------------------------------------------------ scans over logs *)

Lemma held_scan_app l1 : forall h l2,
  held_scan h (l1 ++ l2) = match held_scan h l1 with Some h' => held_scan h' l2 | None => None end.
Proof.
  induction l1 as [|x l1 IH]; intros h l2; cbn; [reflexivity|].
  destruct x; cbn; try apply IH; destruct h; try reflexivity; apply IH.
Qed.

Lemma pend_scan_app l1 : forall p l2, pend_scan p (l1 ++ l2) = pend_scan (pend_scan p l1) l2.
Proof.
  induction l1 as [|x l1 IH]; intros p l2; cbn; [reflexivity|].
  destruct x; try apply IH. destruct ok; apply IH.
Qed.

(* what held_scan = Some _ means: every Reload / API event of the trace happens at a point
   where reloads are not held back *)
Lemma held_scan_sound t : forall h h',
  held_scan h t = Some h' ->
  forall pre x post, t = pre ++ x :: post -> is_reload x || is_api x = true ->
  held_scan h pre = Some false.
Proof.
  induction t as [|y t IH]; intros h h' H pre x post E Hx.
  - destruct pre; discriminate.
  - destruct pre as [|z pre]; cbn in E; injection E as -> ->.
    + cbn. destruct x; cbn in Hx; try discriminate; cbn in H; destruct h; try discriminate; reflexivity.
    + cbn. destruct z; cbn in H |- *;
        try (eapply IH; [exact H|reflexivity|exact Hx]);
        destruct h; try discriminate; eapply IH; try exact H; try reflexivity; exact Hx.
Qed.

(* and conversely *)
Lemma held_scan_complete t : forall h,
  (forall pre x post, t = pre ++ x :: post -> is_reload x || is_api x = true -> held_scan h pre = Some false) ->
  exists h', held_scan h t = Some h'.
Proof.
  induction t as [|y t IH]; intros h H; cbn; [eauto|].
  assert (Hy : is_reload y || is_api y = true -> h = false).
  { intros Hy. specialize (H [] y t eq_refl Hy). cbn in H. congruence. }
  destruct y; cbn in Hy |- *;
    try (apply IH; intros pre x post E Hx; specialize (H (_ :: pre) x post (f_equal _ E) Hx); cbn in H; exact H).
  - rewrite (Hy eq_refl). apply IH. intros pre x post E Hx.
    specialize (H (_ :: pre) x post (f_equal _ E) Hx). cbn in H. rewrite (Hy eq_refl) in H. exact H.
  - rewrite (Hy eq_refl). apply IH. intros pre x post E Hx.
    specialize (H (_ :: pre) x post (f_equal _ E) Hx). cbn in H. rewrite (Hy eq_refl) in H. exact H.
Qed.

(* ------------------------------------------------------------------ micro steps *)

(* one call at the Manager boundary (or one public gate call), as a labelled transition *)
Inductive micro (e : env) : cst -> ev -> cst -> Prop :=
| m_write k n v s s' x : do_write k n v s = (s', [x]) -> micro e s x s'
| m_delete k n s s' x : do_delete k n s = (s', [x]) -> micro e s x s'
| m_reload endp s s' x f : enabled s = true -> do_reload e endp s = (s', [x], f) -> micro e s x s'
| m_api st u s s' x f : enabled s = true -> do_api_group e st [u] s = (s', [x], f) -> micro e s x s'
| m_enable s : micro e s EEnable (set_enabled true s)
| m_disable s : micro e s EDisable (set_enabled false s).

(* executions; with w = true the silent EnableReloads of AddOrUpdateVirtualServer is allowed *)
Inductive exec (e : env) (w : bool) : cst -> list ev -> cst -> Prop :=
| x_nil s : exec e w s [] s
| x_cons s x s1 l s2 : micro e s x s1 -> exec e w s1 l s2 -> exec e w s (x :: l) s2
| x_silent s l s2 : w = true -> exec e w (set_enabled true s) l s2 -> exec e w s l s2
| x_pairs s p l s2 : exec e w (set_pairs p s) l s2 -> exec e w s l s2.   (* bookkeeping of tlsPassthroughPairs: not observable *)

Lemma exec_app e w s l1 s1 : exec e w s l1 s1 -> forall l2 s2, exec e w s1 l2 s2 -> exec e w s (l1 ++ l2) s2.
Proof.
  induction 1; intros l2 s3 H2; cbn.
  - exact H2.
  - eapply x_cons; [eassumption|]. apply IHexec. exact H2.
  - apply x_silent; [assumption|]. apply IHexec. exact H2.
  - eapply x_pairs. apply IHexec. exact H2.
Qed.

Lemma exec_one e w s x s' : micro e s x s' -> exec e w s [x] s'.
Proof. intros H. eapply x_cons; [exact H|apply x_nil]. Qed.

Lemma exec_weaken e s l s' : exec e false s l s' -> exec e true s l s'.
Proof.
  induction 1.
  - apply x_nil.
  - eapply x_cons; eassumption.
  - discriminate.
  - eapply x_pairs. exact IHexec.
Qed.

(* ---- what one micro step does ---- *)

Definition clean_ok (s : cst) : Prop := dirty s = false -> files s = loaded s.

Fixpoint count_reloads (l : list ev) : nat :=
  match l with [] => 0 | x :: r => (if is_reload x then 1 else 0) + count_reloads r end.

Record micro_facts (e : env) (s : cst) (x : ev) (s' : cst) : Prop := {
  mf_held : held_scan (negb (enabled s)) [x] = Some (negb (enabled s'));
  mf_dirty : dirty s' = pend_scan (dirty s) [x];
  mf_clean : clean_ok s -> clean_ok s';
  mf_nrel : nrel s' = nrel s + count_reloads [x];
  mf_oracle : forall endp ok, x = EReload endp ok -> ok = ro e (nrel s)
}.

Lemma micro_all e s x s' : micro e s x s' -> micro_facts e s x s'.
Proof.
  destruct 1 as [k n v s s' x H|k n s s' x H|endp s s' x f En H|st u s s' x f En H|s|s].
  - unfold do_write in H.
    remember (match lookup (fkey k n) (files s) with Some v0 => negb (v0 =? v)%Z | None => true end) as ch.
    injection H as <- <-. unfold clean_ok.
    destruct ch; constructor; unfold clean_ok; cbn; try reflexivity; try (rewrite orb_true_r; reflexivity);
      try (rewrite orb_false_r; reflexivity); try (intros; discriminate); try lia; auto.
    + intros C D. destruct (needs_reload k); [rewrite orb_true_r in D; discriminate|].
      rewrite orb_false_r in D. rewrite (C D). reflexivity.
  - unfold do_delete in H. remember (mem (fkey k n) (files s)) as ex.
    injection H as <- <-. unfold clean_ok.
    destruct ex; constructor; unfold clean_ok; cbn; try reflexivity; try (rewrite orb_true_r; reflexivity);
      try (rewrite orb_false_r; reflexivity); try (intros; discriminate); try lia; auto.
  - unfold do_reload in H. rewrite En in H. remember (ro e (nrel s)) as ok.
    injection H as <- <- _. unfold clean_ok.
    destruct ok; constructor; unfold clean_ok; cbn; try rewrite En; try reflexivity; try lia;
      try (intros endp' ok' E; injection E as _ <-; assumption); auto.
  - cbn in H. rewrite En in H. remember (ao e (napi s)) as ok. unfold clean_ok.
    destruct ok; injection H as <- <- _; constructor; unfold clean_ok; cbn; try rewrite En; try reflexivity; try lia;
      try (intros; discriminate); auto.
  - constructor; unfold clean_ok; cbn; try reflexivity; try lia; try (intros; discriminate); auto.
  - constructor; unfold clean_ok; cbn; try reflexivity; try lia; try (intros; discriminate); auto.
Qed.

(* ---- invariants of executions ---- *)

Lemma exec_held e s l s' : exec e false s l s' ->
  held_scan (negb (enabled s)) l = Some (negb (enabled s')).
Proof.
  induction 1.
  - reflexivity.
  - change (x :: l) with ([x] ++ l). rewrite held_scan_app, (mf_held _ _ _ _ (micro_all _ _ _ _ H)). exact IHexec.
  - discriminate.
  - exact IHexec.
Qed.

Lemma exec_dirty e w s l s' : exec e w s l s' -> dirty s' = pend_scan (dirty s) l.
Proof.
  induction 1.
  - reflexivity.
  - change (x :: l) with ([x] ++ l). rewrite pend_scan_app, <- (mf_dirty _ _ _ _ (micro_all _ _ _ _ H)). exact IHexec.
  - exact IHexec.
  - exact IHexec.
Qed.

(* dirty = false means: the disk is what NGINX loaded at its last successful reload *)
Lemma exec_clean e w s l s' : exec e w s l s' -> clean_ok s -> clean_ok s'.
Proof.
  induction 1; intros C.
  - exact C.
  - apply IHexec. exact (mf_clean _ _ _ _ (micro_all _ _ _ _ H) C).
  - apply IHexec. exact C.
  - apply IHexec. exact C.
Qed.

(* the result flag of every Reload event is the oracle's answer for that call index *)
Lemma exec_reload_oracle e w s l s' : exec e w s l s' ->
  forall pre endp ok post, l = pre ++ EReload endp ok :: post -> ok = ro e (nrel s + count_reloads pre).
Proof.
  induction 1; intros pre endp ok post E.
  - destruct pre; discriminate.
  - destruct pre as [|z pre]; cbn in E; injection E as -> ->.
    + cbn. rewrite Nat.add_0_r. exact (mf_oracle _ _ _ _ (micro_all _ _ _ _ H) endp ok eq_refl).
    + rewrite (IHexec pre endp ok post eq_refl). f_equal.
      rewrite (mf_nrel _ _ _ _ (micro_all _ _ _ _ H)). cbn. lia.
  - apply (IHexec pre endp ok post E).
  - apply (IHexec pre endp ok post E).
Qed.

(* ------------------------------------------------------------------ primitives are executions *)
Arguments do_write : simpl never.
Arguments do_delete : simpl never.
Arguments do_reload : simpl never.
Arguments do_res : simpl never.
Arguments do_del : simpl never.
Arguments do_pt : simpl never.
Arguments finish_reload : simpl never.

Lemma do_write_exec e w k n v s : exec e w s (snd (do_write k n v s)) (fst (do_write k n v s)).
Proof. apply exec_one. eapply m_write. unfold do_write. cbn. reflexivity. Qed.

Lemma do_delete_exec e w k n s : exec e w s (snd (do_delete k n s)) (fst (do_delete k n s)).
Proof. apply exec_one. eapply m_delete. unfold do_delete. cbn. reflexivity. Qed.

Lemma do_pt_exec e w n pt s : exec e w s (snd (do_pt n pt s)) (fst (do_pt n pt s)).
Proof.
  unfold do_pt. destruct pt as [h|].
  - eapply x_pairs. apply do_write_exec.
  - destruct (mem n (pairs s)); [eapply x_pairs; apply do_write_exec|apply x_nil].
Qed.

Lemma do_res_exec e w r s : exec e w s (snd (do_res r s)) (fst (do_res r s)).
Proof.
  unfold do_res.
  pose proof (do_write_exec e w (fk_of (r_kind r)) (r_name r) (r_ver r) s) as H1.
  destruct (do_write _ _ _ s) as [s1 l1]. cbn [fst snd] in H1.
  destruct (r_kind r); try exact H1.
  pose proof (do_pt_exec e w (r_name r) (r_pt r) s1) as H2.
  destruct (do_pt _ _ s1) as [s2 l2]. cbn [fst snd] in *. eapply exec_app; eassumption.
Qed.

Lemma do_del_exec e w k n s : exec e w s (snd (do_del k n s)) (fst (do_del k n s)).
Proof.
  unfold do_del.
  pose proof (do_delete_exec e w k n s) as H1.
  destruct (do_delete k n s) as [s1 l1]. cbn [fst snd] in H1.
  destruct k; try exact H1.
  pose proof (do_pt_exec e w n None s1) as H2.
  destruct (do_pt _ _ s1) as [s2 l2]. cbn [fst snd] in *. eapply exec_app; eassumption.
Qed.

Lemma do_writes_exec e w rs : forall s, exec e w s (snd (do_writes rs s)) (fst (do_writes rs s)).
Proof.
  induction rs as [|r rs IH]; intros s; cbn; [apply x_nil|].
  pose proof (do_res_exec e w r s) as H1.
  destruct (do_res r s) as [s1 l1]. specialize (IH s1).
  destruct (do_writes rs s1) as [s2 l2]. cbn in *. eapply exec_app; eassumption.
Qed.

Lemma do_deletes_exec e w k ns : forall s, exec e w s (snd (do_deletes k ns s)) (fst (do_deletes k ns s)).
Proof.
  induction ns as [|n ns IH]; intros s; cbn; [apply x_nil|].
  pose proof (do_del_exec e w k n s) as H1.
  destruct (do_del k n s) as [s1 l1]. specialize (IH s1).
  destruct (do_deletes k ns s1) as [s2 l2]. cbn in *. eapply exec_app; eassumption.
Qed.

Lemma do_reload_exec e w endp s :
  exec e w s (snd (fst (do_reload e endp s))) (fst (fst (do_reload e endp s))).
Proof.
  destruct (enabled s) eqn:En.
  - unfold do_reload. rewrite En. cbn [fst snd]. apply exec_one.
    eapply m_reload with (endp := endp) (f := negb (ro e (nrel s))); [exact En|].
    unfold do_reload. rewrite En. reflexivity.
  - unfold do_reload. rewrite En. cbn [fst snd]. apply x_nil.
Qed.

Lemma do_api_group_enabled e st ups : forall s, enabled (fst (fst (do_api_group e st ups s))) = enabled s.
Proof.
  induction ups as [|u ups IH]; intros s; cbn; [reflexivity|].
  destruct (enabled s) eqn:En; [|exact En].
  destruct (ao e (napi s)).
  - match goal with |- context [do_api_group e st ups ?s1] => specialize (IH s1); destruct (do_api_group e st ups s1) as [[s2 l] f] end.
    cbn in *. congruence.
  - cbn. congruence.
Qed.

Lemma do_api_group_exec e w st ups : forall s,
  exec e w s (snd (fst (do_api_group e st ups s))) (fst (fst (do_api_group e st ups s))).
Proof.
  induction ups as [|u ups IH]; intros s; cbn; [apply x_nil|].
  destruct (enabled s) eqn:En; [|cbn; apply x_nil].
  destruct (ao e (napi s)) eqn:Ok.
  - match goal with |- context [do_api_group e st ups ?s1] => specialize (IH s1); destruct (do_api_group e st ups s1) as [[s2 l] f] eqn:G end.
    cbn in *. eapply x_cons; [|exact IH].
    eapply m_api with (st := st) (u := u); [exact En|]. cbn. rewrite En, Ok. reflexivity.
  - cbn. apply exec_one. eapply m_api with (st := st) (u := u); [exact En|]. cbn. rewrite En, Ok. reflexivity.
Qed.

Lemma do_api_groups_exec e w st gs : forall s,
  exec e w s (snd (fst (do_api_groups e st gs s))) (fst (fst (do_api_groups e st gs s))).
Proof.
  induction gs as [|g gs IH]; intros s; cbn; [apply x_nil|].
  pose proof (do_api_group_exec e w st g s) as H1.
  destruct (do_api_group e st g s) as [[s1 l1] f1]. specialize (IH s1).
  destruct (do_api_groups e st gs s1) as [[s2 l2] f2]. cbn in *. eapply exec_app; eassumption.
Qed.

Lemma endp_loop_exec e w rs : forall s,
  exec e w s (snd (fst (endp_loop e rs s))) (fst (fst (endp_loop e rs s))).
Proof.
  induction rs as [|r rs IH]; intros s; cbn; [apply x_nil|].
  pose proof (do_res_exec e w r s) as H1.
  destruct (do_res r s) as [s1 l1]. cbn in H1.
  assert (H2 : exec e w s1
            (snd (fst (if plus e then do_api_groups e (is_stream (r_kind r)) (r_apis r) s1 else (s1, [], false))))
            (fst (fst (if plus e then do_api_groups e (is_stream (r_kind r)) (r_apis r) s1 else (s1, [], false))))).
  { destruct (plus e); [apply do_api_groups_exec|apply x_nil]. }
  destruct (if plus e then _ else _) as [[s2 l2] f2]. specialize (IH s2).
  destruct (endp_loop e rs s2) as [[s3 l3] f3]. cbn in *.
  eapply exec_app; [exact H1|]. eapply exec_app; eassumption.
Qed.

Lemma finish_reload_exec e w endp s0 s l :
  exec e w s0 l s ->
  exec e w s0 (log (snd (finish_reload e endp s l))) (fst (finish_reload e endp s l)).
Proof.
  intros H. unfold finish_reload.
  pose proof (do_reload_exec e w endp s) as H1.
  destruct (do_reload e endp s) as [[s1 lr] f]. cbn in *. eapply exec_app; eassumption.
Qed.

(* ------------------------------------------------------------------ every operation is an execution *)

Lemma step_exec e s o : exec e (forces_enable e o) s (log (snd (step e s o))) (fst (step e s o)).
Proof.
  destruct o as [r|rs|rs al|k n sk|k rs| | |mv rs|fl|rs dl|rs dl|k ns|eg nm vr| ]; cbn [step].
  - (* OAdd *)
    pose proof (do_res_exec e (forces_enable e (OAdd r)) r s) as H1.
    destruct (do_res r s) as [s1 l1]. cbn [fst snd] in H1.
    unfold finish_reload.
    match goal with |- context [do_reload e false ?s2] =>
      pose proof (do_reload_exec e (forces_enable e (OAdd r)) false s2) as H2;
      destruct (do_reload e false s2) as [[s3 lr] f] end.
    cbn [fst snd log] in *.
    eapply exec_app; [exact H1|].
    unfold forces_enable, has_weights in *. destruct (r_kind r); try exact H2.
    destruct ((0 <? r_weights r)%nat && negb (fx_weights (fx e))); [|exact H2].
    apply x_silent; [reflexivity|exact H2].
  - pose proof (do_writes_exec e false rs s) as H1. destruct (do_writes rs s) as [s1 l1].
    apply finish_reload_exec. exact H1.
  - pose proof (do_writes_exec e false rs s) as H1. destruct (do_writes rs s) as [s1 l1]. cbn [fst snd] in H1.
    destruct (existsb ev_changed l1 || al); [apply finish_reload_exec; exact H1|exact H1].
  - pose proof (do_del_exec e false (fk_of k) n s) as H1. destruct (do_del _ n s) as [s1 l1]. cbn [fst snd] in H1.
    destruct (match k with KTS => false | _ => sk end); [exact H1|apply finish_reload_exec; exact H1].
  - pose proof (endp_loop_exec e false rs s) as H1. destruct (endp_loop e rs s) as [[s1 l1] rp]. cbn [fst snd] in H1.
    destruct (plus e && negb rp); [exact H1|apply finish_reload_exec; exact H1].
  - apply exec_one. apply m_enable.
  - apply exec_one. apply m_disable.
  - pose proof (do_write_exec e false FMain "" mv s) as H1. destruct (do_write FMain "" mv s) as [s1 l1].
    pose proof (do_writes_exec e false rs s1) as H2. destruct (do_writes rs s1) as [s2 l2]. cbn [fst snd] in *.
    apply finish_reload_exec. eapply exec_app; eassumption.
  - destruct fl; [apply finish_reload_exec|]; apply x_nil.
  - pose proof (do_writes_exec e false rs s) as H1. destruct (do_writes rs s) as [s1 l1].
    pose proof (do_deletes_exec e false FConf dl s1) as H2. destruct (do_deletes FConf dl s1) as [s2 l2]. cbn [fst snd] in *.
    apply finish_reload_exec. eapply exec_app; eassumption.
  - pose proof (do_writes_exec e false rs s) as H1. destruct (do_writes rs s) as [s1 l1].
    pose proof (do_deletes_exec e false FStream dl s1) as H2. destruct (do_deletes FStream dl s1) as [s2 l2]. cbn [fst snd] in *.
    apply finish_reload_exec. eapply exec_app; eassumption.
  - pose proof (do_deletes_exec e false (fk_of k) ns s) as H1. destruct (do_deletes (fk_of k) ns s) as [s1 l1]. cbn [fst snd] in *.
    apply finish_reload_exec. exact H1.
  - pose proof (do_write_exec e false (if eg then FSecret else FLazy) nm vr s) as H1.
    destruct (do_write _ nm vr s) as [s1 l1]. exact H1.
  - apply finish_reload_exec. apply x_nil.
Qed.

Lemma run_exec e os : forall s w,
  (forall o, In o os -> forces_enable e o = true -> w = true) ->
  exec e w s (trace (snd (run e s os))) (fst (run e s os)).
Proof.
  induction os as [|o os IH]; intros s w Hw; cbn; [apply x_nil|].
  pose proof (step_exec e s o) as H1. destruct (step e s o) as [s1 x]. cbn [fst snd] in H1.
  specialize (IH s1 w (fun o' Hin => Hw o' (or_intror Hin))).
  destruct (run e s1 os) as [s2 xs]. cbn [fst snd] in *.
  unfold trace. cbn. eapply exec_app; [|exact IH].
  destruct (forces_enable e o) eqn:Ho.
  - rewrite (Hw o (or_introl eq_refl) Ho). exact H1.
  - destruct w; [apply exec_weaken|]; exact H1.
Qed.

(* ------------------------------------------------------------------ T1: the held-back window *)

Theorem no_reload_while_held_partial : forall e os s,
  (forall o, In o os -> forces_enable e o = false) ->
  held_scan (negb (enabled s)) (trace (snd (run e s os))) = Some (negb (enabled (fst (run e s os)))).
Proof.
  intros e os s Hw. apply (exec_held e). apply run_exec.
  intros o Hin Ho. rewrite (Hw o Hin) in Ho. discriminate.
Qed.

Definition vs_with_weights : res :=
  {| r_kind := KVS; r_name := "vs_default_w"; r_ver := 0; r_apis := [["vs_default_w_u0"; "vs_default_w_u1"]]; r_weights := 1; r_pt := None |}.

Definition env_ok (p : bool) : env := {| plus := p; ro := fun _ => true; ao := fun _ => true; fx := no_fixes |}.

(* with F15 repaired the restriction disappears: every history, from every state *)
Theorem no_reload_while_held_fixed : forall e os s,
  fx_weights (fx e) = true ->
  held_scan (negb (enabled s)) (trace (snd (run e s os))) = Some (negb (enabled (fst (run e s os)))).
Proof.
  intros e os s F. apply no_reload_while_held_partial. intros o _.
  unfold forces_enable. rewrite F. apply andb_false_r.
Qed.

(* F15: AddOrUpdateVirtualServer with weight updates reloads inside the start-up window *)
Theorem no_reload_while_held_refuted :
  exists e os, fx e = no_fixes /\ held_scan (negb (enabled init)) (trace (snd (run e init os))) = None.
Proof. exists (env_ok false), [OAdd vs_with_weights]. split; [reflexivity|]. vm_compute. reflexivity. Qed.

(* ------------------------------------------------------------------ ghost state *)

Theorem dirty_is_scan : forall e os s,
  dirty (fst (run e s os)) = pend_scan (dirty s) (trace (snd (run e s os))).
Proof. intros. eapply exec_dirty. apply run_exec with (w := true). reflexivity. Qed.

Theorem clean_means_loaded : forall e os,
  dirty (fst (run e init os)) = false -> files (fst (run e init os)) = loaded (fst (run e init os)).
Proof.
  intros e os. eapply (exec_clean e true). apply run_exec. reflexivity.
  intros _. reflexivity.
Qed.

Theorem reload_results_are_oracle : forall e os pre endp ok post,
  trace (snd (run e init os)) = pre ++ EReload endp ok :: post -> ok = ro e (count_reloads pre).
Proof.
  intros e os pre endp ok post E.
  apply (exec_reload_oracle e true init _ _ (run_exec e os init true (fun _ _ _ => eq_refl)) pre endp ok post E).
Qed.

(* ------------------------------------------------------------------ classes of logs *)

Definition is_wd (x : ev) : bool := match x with EWrite _ _ _ | EDelete _ _ _ => true | _ => false end.
Definition is_wda (x : ev) : bool := is_wd x || is_api x.

Lemma forallb_app' {A} (f : A -> bool) l1 l2 : forallb f (l1 ++ l2) = forallb f l1 && forallb f l2.
Proof. apply forallb_app. Qed.

Lemma do_write_wd k n v s : forallb is_wd (snd (do_write k n v s)) = true /\ enabled (fst (do_write k n v s)) = enabled s.
Proof.
  unfold do_write.
  remember (match lookup (fkey k n) (files s) with Some v0 => negb (v0 =? v)%Z | None => true end) as ch.
  cbn [fst snd]. split; [reflexivity|]. destruct ch; reflexivity.
Qed.

Lemma do_delete_wd k n s : forallb is_wd (snd (do_delete k n s)) = true /\ enabled (fst (do_delete k n s)) = enabled s.
Proof.
  unfold do_delete. remember (mem (fkey k n) (files s)) as ex.
  cbn [fst snd]. split; [reflexivity|]. destruct ex; reflexivity.
Qed.

Lemma do_pt_wd n pt s : forallb is_wd (snd (do_pt n pt s)) = true /\ enabled (fst (do_pt n pt s)) = enabled s.
Proof.
  unfold do_pt. destruct pt as [h|].
  - match goal with |- context [do_write FTls "" ?v ?s0] => destruct (do_write_wd FTls "" v s0) as [A B] end. split; assumption.
  - destruct (mem n (pairs s)); [|split; reflexivity].
    match goal with |- context [do_write FTls "" ?v ?s0] => destruct (do_write_wd FTls "" v s0) as [A B] end. split; assumption.
Qed.

Lemma do_res_wd r s : forallb is_wd (snd (do_res r s)) = true /\ enabled (fst (do_res r s)) = enabled s.
Proof.
  unfold do_res. destruct (do_write_wd (fk_of (r_kind r)) (r_name r) (r_ver r) s) as [A B].
  destruct (do_write _ _ _ s) as [s1 l1]. cbn [fst snd] in *.
  destruct (r_kind r); try (split; assumption).
  destruct (do_pt_wd (r_name r) (r_pt r) s1) as [C D]. destruct (do_pt _ _ s1) as [s2 l2]. cbn [fst snd] in *.
  rewrite forallb_app, A, C. split; [reflexivity|congruence].
Qed.

Lemma do_del_wd k n s : forallb is_wd (snd (do_del k n s)) = true /\ enabled (fst (do_del k n s)) = enabled s.
Proof.
  unfold do_del. destruct (do_delete_wd k n s) as [A B].
  destruct (do_delete k n s) as [s1 l1]. cbn [fst snd] in *.
  destruct k; try (split; assumption).
  destruct (do_pt_wd n None s1) as [C D]. destruct (do_pt _ _ s1) as [s2 l2]. cbn [fst snd] in *.
  rewrite forallb_app, A, C. split; [reflexivity|congruence].
Qed.

Lemma do_writes_wd rs : forall s, forallb is_wd (snd (do_writes rs s)) = true /\ enabled (fst (do_writes rs s)) = enabled s.
Proof.
  induction rs as [|r rs IH]; intros s; cbn; [split; reflexivity|].
  destruct (do_res_wd r s) as [A B].
  destruct (do_res r s) as [s1 l1]. destruct (IH s1) as [C D].
  destruct (do_writes rs s1) as [s2 l2]. cbn in *. rewrite forallb_app, A, C, D, B. split; reflexivity.
Qed.

Lemma do_deletes_wd k ns : forall s, forallb is_wd (snd (do_deletes k ns s)) = true /\ enabled (fst (do_deletes k ns s)) = enabled s.
Proof.
  induction ns as [|n ns IH]; intros s; cbn; [split; reflexivity|].
  destruct (do_del_wd k n s) as [A B].
  destruct (do_del k n s) as [s1 l1]. destruct (IH s1) as [C D].
  destruct (do_deletes k ns s1) as [s2 l2]. cbn in *. rewrite forallb_app, A, C, D, B. split; reflexivity.
Qed.

Lemma wd_wda l : forallb is_wd l = true -> forallb is_wda l = true.
Proof.
  intros H. apply forallb_forall. intros x Hx. rewrite forallb_forall in H. unfold is_wda. rewrite (H x Hx). reflexivity.
Qed.

Lemma wda_pend l : forallb is_wda l = true -> forall p, pend_scan p l = p || existsb ev_changed l.
Proof.
  induction l as [|x l IH]; intros H p; cbn in *; [rewrite orb_false_r; reflexivity|].
  apply andb_prop in H. destruct H as [Hx Hl].
  destruct x; cbn in Hx; try discriminate; cbn; rewrite (IH Hl).
  - rewrite orb_assoc. reflexivity.
  - rewrite orb_assoc. reflexivity.
  - reflexivity.
Qed.

Lemma wda_no_failed l : forallb is_wda l = true -> existsb is_failed_reload l = false.
Proof.
  induction l as [|x l IH]; intros H; cbn in *; [reflexivity|].
  apply andb_prop in H. destruct H as [Hx Hl]. rewrite (IH Hl).
  destruct x; cbn in Hx; try discriminate; reflexivity.
Qed.

Lemma existsb_app' {A} (f : A -> bool) l1 l2 : existsb f (l1 ++ l2) = existsb f l1 || existsb f l2.
Proof. apply existsb_app. Qed.

(* the API part *)
Lemma do_api_group_facts e st ups : forall s,
  let '(s', l, f) := do_api_group e st ups s in
  forallb is_api l = true /\ enabled s' = enabled s /\
  (f = false -> forallb api_ok l = true) /\
  (enabled s = true -> ups <> [] -> existsb is_api l = true).
Proof.
  induction ups as [|u ups IH]; intros s; cbn.
  - repeat split; try reflexivity. intros _ H. contradiction.
  - destruct (enabled s) eqn:En.
    + destruct (ao e (napi s)) eqn:Ok.
      * match goal with |- context [do_api_group e st ups ?s1] => specialize (IH s1); destruct (do_api_group e st ups s1) as [[s2 l] f] end.
        cbn in *. destruct IH as (A & B & C & D). repeat split; auto.
      * cbn. repeat split; auto; try discriminate; try congruence.
    + repeat split; auto; try discriminate; try congruence.
Qed.

Lemma do_api_groups_facts e st gs : forall s,
  let '(s', l, f) := do_api_groups e st gs s in
  forallb is_api l = true /\ enabled s' = enabled s /\
  (f = false -> forallb api_ok l = true) /\
  (enabled s = true -> (match gs with (_ :: _) :: _ => true | _ => false end) = true -> existsb is_api l = true).
Proof.
  induction gs as [|g gs IH]; intros s; cbn.
  - repeat split; try reflexivity. discriminate.
  - pose proof (do_api_group_facts e st g s) as H1. destruct (do_api_group e st g s) as [[s1 l1] f1].
    specialize (IH s1). destruct (do_api_groups e st gs s1) as [[s2 l2] f2].
    destruct H1 as (A1 & B1 & C1 & D1). destruct IH as (A2 & B2 & C2 & D2).
    repeat split.
    + rewrite forallb_app, A1, A2. reflexivity.
    + congruence.
    + intros F. apply orb_false_elim in F. destruct F as [F1 F2]. rewrite forallb_app, (C1 F1), (C2 F2). reflexivity.
    + intros En Hg. rewrite existsb_app. destruct g; [discriminate|]. rewrite (D1 En); [reflexivity|discriminate].
Qed.

Lemma api_wda l : forallb is_api l = true -> forallb is_wda l = true.
Proof.
  intros H. apply forallb_forall. intros x Hx. rewrite forallb_forall in H. unfold is_wda. rewrite (H x Hx). apply orb_true_r.
Qed.

Lemma wd_api_ok l : forallb is_wd l = true -> forallb api_ok l = true.
Proof.
  intros H. apply forallb_forall. intros x Hx. rewrite forallb_forall in H. specialize (H x Hx). destruct x; try discriminate; reflexivity.
Qed.

Lemma endp_loop_facts e rs : forall s,
  let '(s', l, f) := endp_loop e rs s in
  forallb is_wda l = true /\ enabled s' = enabled s /\
  (f = false -> forallb api_ok l = true) /\
  (plus e = true -> enabled s = true -> forallb pushes rs = true -> rs <> [] -> existsb is_api l = true).
Proof.
  induction rs as [|r rs IH]; intros s; cbn.
  - repeat split; try reflexivity. intros _ _ _ H. contradiction.
  - destruct (do_res_wd r s) as [A B].
    destruct (do_res r s) as [s1 l1]. cbn in A, B.
    assert (H2 : let '(s', l, f) := (if plus e then do_api_groups e (is_stream (r_kind r)) (r_apis r) s1 else (s1, [], false)) in
                 forallb is_api l = true /\ enabled s' = enabled s1 /\ (f = false -> forallb api_ok l = true) /\
                 (plus e = true -> enabled s1 = true -> pushes r = true -> existsb is_api l = true)).
    { destruct (plus e).
      - pose proof (do_api_groups_facts e (is_stream (r_kind r)) (r_apis r) s1) as H.
        destruct (do_api_groups _ _ _ s1) as [[s2 l2] f2]. destruct H as (H1 & H2 & H3 & H4).
        repeat split; auto.
      - repeat split; auto; try discriminate; try congruence. }
    destruct (if plus e then _ else _) as [[s2 l2] f2]. destruct H2 as (A2 & B2 & C2 & D2).
    specialize (IH s2). destruct (endp_loop e rs s2) as [[s3 l3] f3]. destruct IH as (A3 & B3 & C3 & D3).
    repeat split.
    + rewrite !forallb_app, (wd_wda _ A), (api_wda _ A2), A3. reflexivity.
    + congruence.
    + intros F. apply orb_false_elim in F. destruct F as [F2 F3].
      rewrite !forallb_app, (wd_api_ok _ A), (C2 F2), (C3 F3). reflexivity.
    + intros P En Hp _. apply andb_prop in Hp. destruct Hp as [Hr _].
      rewrite !existsb_app. rewrite (D2 P (eq_trans B En) Hr). rewrite orb_true_r. reflexivity.
Qed.

(* the reload at the end of an operation *)
Lemma finish_reload_facts e endp s l :
  let '(s', x) := finish_reload e endp s l in
  enabled s' = enabled s /\
  ((enabled s = false /\ log x = l /\ oerr x = ENone) \/
   (enabled s = true /\ exists ok, log x = l ++ [EReload endp ok] /\ oerr x = err_of (negb ok))).
Proof.
  unfold finish_reload, do_reload. destruct (enabled s) eqn:En.
  - destruct (ro e (nrel s)); cbn; (split; [reflexivity|right; split; [reflexivity|]]); eexists; split; reflexivity.
  - cbn. split; [exact En|left]. rewrite app_nil_r. repeat split; reflexivity.
Qed.

(* T2 and T4 for an operation of the shape: writes/deletes/API calls, then the gated Reload *)
Lemma tail_applied e endp s l pe :
  forallb is_wda l = true ->
  let '(s', x) := finish_reload e endp s l in
  (enabled s' = true -> oerr x = ENone -> applied pe (log x) = true) /\
  (existsb is_failed_reload (log x) = true <-> oerr x = EReloadFailed).
Proof.
  intros W. pose proof (finish_reload_facts e endp s l) as H.
  destruct (finish_reload e endp s l) as [s' x]. destruct H as [En [(E0 & L & R)|(E1 & ok & L & R)]].
  - split.
    + intros E'. congruence.
    + rewrite L, R, (wda_no_failed _ W). split; discriminate.
  - split.
    + intros _ Hr. rewrite R in Hr. destruct ok; [|discriminate].
      unfold applied. rewrite L, pend_scan_app. cbn. reflexivity.
    + rewrite L, R, existsb_app, (wda_no_failed _ W). destruct ok; cbn; split; congruence.
Qed.

(* ------------------------------------------------------------------ T2 / T4 per operation *)

Theorem step_applied_and_failure : forall e s o,
  let '(s', x) := step e s o in
  (enabled s' = true -> oerr x = ENone -> is_gate o = false -> skips o = false -> endp_pushes o = true ->
   applied (plus e && is_endp o) (log x) = true) /\
  (existsb is_failed_reload (log x) = true <-> oerr x = EReloadFailed).
Proof.
  intros e s o.
  destruct o as [r|rs|rs al|k n sk|k rs| | |mv rs|fl|rs dl|rs dl|k ns|eg nm vr| ]; cbn [step is_gate skips endp_pushes is_endp].
  - (* OAdd *)
    destruct (do_res_wd r s) as [A _].
    destruct (do_res r s) as [s1 l1]. cbn in A.
    match goal with |- context [finish_reload e false ?s2 l1] =>
      pose proof (tail_applied e false s2 l1 (plus e && false) (wd_wda _ A)) as H;
      destruct (finish_reload e false s2 l1) as [s' x] end.
    destruct H as [H1 H2]. split; [intros; apply H1; assumption|exact H2].
  - destruct (do_writes_wd rs s) as [A _]. destruct (do_writes rs s) as [s1 l1]. cbn in A.
    pose proof (tail_applied e false s1 l1 (plus e && false) (wd_wda _ A)) as H.
    destruct (finish_reload e false s1 l1) as [s' x]. destruct H as [H1 H2]. split; [intros; apply H1; assumption|exact H2].
  - destruct (do_writes_wd rs s) as [A _]. destruct (do_writes rs s) as [s1 l1]. cbn in A.
    destruct (existsb ev_changed l1 || al) eqn:Ch.
    + pose proof (tail_applied e false s1 l1 (plus e && false) (wd_wda _ A)) as H.
      destruct (finish_reload e false s1 l1) as [s' x]. destruct H as [H1 H2]. split; [intros; apply H1; assumption|exact H2].
    + apply orb_false_elim in Ch. destruct Ch as [Ch _]. split.
      * intros _ _ _ _ _. unfold applied. cbn [log]. rewrite (wda_pend _ (wd_wda _ A)), Ch. reflexivity.
      * cbn. rewrite (wda_no_failed _ (wd_wda _ A)). split; discriminate.
  - destruct (do_del_wd (fk_of k) n s) as [A _]. destruct (do_del _ n s) as [s1 l1]. cbn in A.
    destruct (match k with KTS => false | _ => sk end) eqn:Sk.
    + split.
      * intros _ _ _ Hs _. destruct k; cbn in Hs; congruence.
      * cbn. rewrite (wda_no_failed _ (wd_wda _ A)). split; discriminate.
    + pose proof (tail_applied e false s1 l1 (plus e && false) (wd_wda _ A)) as H.
      destruct (finish_reload e false s1 l1) as [s' x]. destruct H as [H1 H2]. split; [intros; apply H1; assumption|exact H2].
  - (* OEndpoints *)
    pose proof (endp_loop_facts e rs s) as F. destruct (endp_loop e rs s) as [[s1 l1] rp].
    destruct F as (A & B & C & D).
    destruct (plus e && negb rp) eqn:G.
    + apply andb_prop in G. destruct G as [P Rp]. apply negb_true_iff in Rp. split.
      * intros En _ _ _ Hp. cbn [log]. unfold applied. rewrite P. cbn.
        apply andb_prop in Hp. destruct Hp as [Hp Hn].
        rewrite (C Rp). rewrite D; auto.
        -- apply orb_true_r.
        -- congruence.
        -- intros ->. discriminate.
      * cbn. rewrite (wda_no_failed _ A). split; discriminate.
    + pose proof (tail_applied e true s1 l1 (plus e && true) A) as H.
      destruct (finish_reload e true s1 l1) as [s' x]. destruct H as [H1 H2]. split; [intros; apply H1; assumption|exact H2].
  - split; [discriminate|cbn; split; discriminate].
  - split; [intros _ _ H; discriminate|cbn; split; discriminate].
  - destruct (do_write_wd FMain "" mv s) as [A _]. destruct (do_write FMain "" mv s) as [s1 l1].
    destruct (do_writes_wd rs s1) as [A2 _]. destruct (do_writes rs s1) as [s2 l2]. cbn in A, A2.
    assert (W : forallb is_wda (l1 ++ l2) = true) by (rewrite forallb_app, (wd_wda _ A), (wd_wda _ A2); reflexivity).
    pose proof (tail_applied e false s2 (l1 ++ l2) (plus e && false) W) as H.
    destruct (finish_reload e false s2 (l1 ++ l2)) as [s' x]. destruct H as [H1 H2]. split; [intros; apply H1; assumption|exact H2].
  - destruct fl.
    + pose proof (tail_applied e false s [] (plus e && false) eq_refl) as H.
      destruct (finish_reload e false s []) as [s' x]. destruct H as [H1 H2]. split; [intros; apply H1; assumption|exact H2].
    + split; [intros _ _ _ H; discriminate|cbn; split; discriminate].
  - destruct (do_writes_wd rs s) as [A _]. destruct (do_writes rs s) as [s1 l1].
    destruct (do_deletes_wd FConf dl s1) as [A2 _]. destruct (do_deletes FConf dl s1) as [s2 l2]. cbn in A, A2.
    assert (W : forallb is_wda (l1 ++ l2) = true) by (rewrite forallb_app, (wd_wda _ A), (wd_wda _ A2); reflexivity).
    pose proof (tail_applied e false s2 (l1 ++ l2) (plus e && false) W) as H.
    destruct (finish_reload e false s2 (l1 ++ l2)) as [s' x]. destruct H as [H1 H2]. split; [intros; apply H1; assumption|exact H2].
  - destruct (do_writes_wd rs s) as [A _]. destruct (do_writes rs s) as [s1 l1].
    destruct (do_deletes_wd FStream dl s1) as [A2 _]. destruct (do_deletes FStream dl s1) as [s2 l2]. cbn in A, A2.
    assert (W : forallb is_wda (l1 ++ l2) = true) by (rewrite forallb_app, (wd_wda _ A), (wd_wda _ A2); reflexivity).
    pose proof (tail_applied e false s2 (l1 ++ l2) (plus e && false) W) as H.
    destruct (finish_reload e false s2 (l1 ++ l2)) as [s' x]. destruct H as [H1 H2]. split; [intros; apply H1; assumption|exact H2].
  - destruct (do_deletes_wd (fk_of k) ns s) as [A _]. destruct (do_deletes (fk_of k) ns s) as [s1 l1]. cbn in A.
    pose proof (tail_applied e false s1 l1 (plus e && false) (wd_wda _ A)) as H.
    destruct (finish_reload e false s1 l1) as [s' x]. destruct H as [H1 H2]. split; [intros; apply H1; assumption|exact H2].
  - destruct (do_write_wd (if eg then FSecret else FLazy) nm vr s) as [A _].
    destruct (do_write _ nm vr s) as [s1 l1]. cbn in A. split.
    + intros _ _ _ H; discriminate.
    + cbn. rewrite (wda_no_failed _ (wd_wda _ A)). split; discriminate.
  - pose proof (tail_applied e false s [] (plus e && false) eq_refl) as H.
    destruct (finish_reload e false s []) as [s' x]. destruct H as [H1 H2]. split; [intros; apply H1; assumption|exact H2].
Qed.

Theorem applied_when_enabled : forall e s o s' x,
  step e s o = (s', x) -> enabled s' = true -> oerr x = ENone ->
  is_gate o = false -> skips o = false -> endp_pushes o = true ->
  applied (plus e && is_endp o) (log x) = true.
Proof.
  intros e s o s' x H. pose proof (step_applied_and_failure e s o) as T. rewrite H in T. apply T.
Qed.

Theorem failure_propagates : forall e s o s' x,
  step e s o = (s', x) -> (existsb is_failed_reload (log x) = true <-> oerr x = EReloadFailed).
Proof.
  intros e s o s' x H. pose proof (step_applied_and_failure e s o) as T. rewrite H in T. apply T.
Qed.

(* in terms of the ghost bit: an operation other than a Plus endpoints update that returns
   without error while reloads are enabled leaves nothing unapplied, whatever was pending before *)
Theorem returns_clean : forall e s o s' x,
  step e s o = (s', x) -> enabled s' = true -> oerr x = ENone ->
  is_gate o = false -> skips o = false -> plus e && is_endp o = false ->
  dirty s = false -> dirty s' = false.
Proof.
  intros e s o s' x H En Er G Sk Pe D.
  assert (Hp : endp_pushes o = true \/ is_endp o = true).
  { destruct o; cbn; auto. }
  pose proof (step_exec e s o) as X. rewrite H in X. cbn [fst snd] in X.
  assert (X' : exec e true s (log x) s') by (destruct (forces_enable e o); [exact X|apply exec_weaken; exact X]).
  pose proof (exec_dirty _ _ _ _ _ X') as Hd. rewrite D in Hd.
  assert (Hs : pend_scan false (log x) = false).
  { destruct (is_endp o) eqn:Ie.
    - (* OSS endpoints operation: always ends with the reload *)
      rewrite andb_true_r in Pe. destruct o; try discriminate. cbn [step] in H.
      pose proof (endp_loop_facts e rs s) as F. destruct (endp_loop e rs s) as [[s1 l1] rp]. destruct F as (A & B & _ & _).
      rewrite Pe in H. cbn in H.
      pose proof (tail_applied e true s1 l1 false A) as T. rewrite H in T. destruct T as [T _].
      specialize (T En Er). unfold applied in T. rewrite orb_false_r in T. apply negb_true_iff in T. exact T.
    - destruct Hp as [Hp|Hp]; [|discriminate].
      pose proof (applied_when_enabled e s o s' x H En Er G Sk Hp) as T.
      rewrite Ie, andb_false_r in T. unfold applied in T. rewrite orb_false_r in T. apply negb_true_iff in T. exact T. }
  rewrite Hs in Hd. exact Hd.
Qed.
