//go:build verif

package k8s

// Add-only hook for the C06 harness (structure of the generated configuration cannot be altered by
// an accepted resource): the real Ingress validator with its switches, the table of validated
// annotation names, and a LoadBalancerController assembled the way the unit tests assemble it, so
// that the harness drives the REAL path  validator -> Configuration -> create*Ex -> Configurator ->
// templates -> nginx.Manager  with snippets disabled.

import (
	"context"
	"log/slog"
	"regexp"

	api_v1 "k8s.io/api/core/v1"
	discovery_v1 "k8s.io/api/discovery/v1"
	networking "k8s.io/api/networking/v1"
	"k8s.io/client-go/tools/cache"
	"k8s.io/client-go/tools/record"

	"github.com/nginx/kubernetes-ingress/internal/configs"
	"github.com/nginx/kubernetes-ingress/internal/k8s/appprotectdos"
	"github.com/nginx/kubernetes-ingress/internal/k8s/secrets"
	"github.com/nginx/kubernetes-ingress/internal/metrics/collectors"
	conf_v1 "github.com/nginx/kubernetes-ingress/pkg/apis/configuration/v1"
	"github.com/nginx/kubernetes-ingress/pkg/apis/configuration/validation"
)

// VerifC06ValidateIngress is the real validateIngress with snippets DISABLED; it returns the
// field paths of the errors (empty = accepted).
func VerifC06ValidateIngress(ing *networking.Ingress, isPlus, internalRoutes bool) []string {
	var out []string
	for _, e := range validateIngress(ing, isPlus, false, false, internalRoutes, false) {
		out = append(out, e.Field)
	}
	return out
}

// VerifC06ValidatedAnnotations is the key set of the annotationValidations table.
func VerifC06ValidatedAnnotations() []string {
	return append([]string(nil), annotationNames...)
}

// VerifC06Opts are the switches of the controller that change what is accepted / rendered.
type VerifC06Opts struct {
	IsPlus         bool
	TLSPassthrough bool
	InternalRoutes bool
	EnableOIDC     bool
	CertManager    bool
	ExternalDNS    bool
	IngressClass   string
	Configurator   *configs.Configurator
	Logger         *slog.Logger
}

// VerifC06 wraps the controller.
type VerifC06 struct {
	lbc *LoadBalancerController
	nsi *namespacedInformer
}

// VerifC06VSValidator / VerifC06TSValidator build the validators exactly as NewVerifC06 hands them
// to the Configuration (snippets disabled).
func VerifC06VSValidator(o VerifC06Opts) *validation.VirtualServerValidator {
	return validation.NewVirtualServerValidator(validation.IsPlus(o.IsPlus), validation.IsCertManagerEnabled(o.CertManager),
		validation.IsExternalDNSEnabled(o.ExternalDNS))
}

// VerifC06TSValidator see VerifC06VSValidator.
func VerifC06TSValidator(o VerifC06Opts) *validation.TransportServerValidator {
	return validation.NewTransportServerValidator(o.TLSPassthrough, false, o.IsPlus)
}

// NewVerifC06 builds the controller; snippets are disabled everywhere.
func NewVerifC06(o VerifC06Opts) *VerifC06 {
	nsi := &namespacedInformer{
		svcLister:                 cache.NewStore(keyFunc),
		endpointSliceLister:       storeToEndpointSliceLister{cache.NewStore(keyFunc)},
		podLister:                 indexerToPodLister{cache.NewIndexer(keyFunc, cache.Indexers{cache.NamespaceIndex: cache.MetaNamespaceIndexFunc})},
		policyLister:              cache.NewStore(keyFunc),
		ingressLister:             storeToIngressLister{cache.NewStore(keyFunc)},
		virtualServerLister:       cache.NewStore(keyFunc),
		virtualServerRouteLister:  cache.NewStore(keyFunc),
		transportServerLister:     cache.NewStore(keyFunc),
		secretLister:              cache.NewStore(keyFunc),
		areCustomResourcesEnabled: true,
		isSecretsEnabledNamespace: true,
	}
	lg := o.Logger
	if lg == nil {
		lg = slog.Default()
	}
	lbc := &LoadBalancerController{
		ingressClass:              o.IngressClass,
		configurator:              o.Configurator,
		metricsCollector:          collectors.NewControllerFakeCollector(),
		Logger:                    lg,
		namespacedInformers:       map[string]*namespacedInformer{"": nsi},
		isNginxPlus:               o.IsPlus,
		areCustomResourcesEnabled: true,
		enableOIDC:                o.EnableOIDC,
		internalRoutesEnabled:     o.InternalRoutes,
		dosConfiguration:          appprotectdos.NewConfiguration(false),
		// syncPolicy (VerifC06 histories) records events and, unless a leader election says otherwise, writes
		// statuses: a fake recorder and "leader election enabled, not the leader" keep it off the API server
		recorder:               record.NewFakeRecorder(1 << 14),
		isLeaderElectionEnabled: true,
	}
	lbc.configuration = NewConfiguration(
		lbc.HasCorrectIngressClass,
		o.IsPlus,
		false,
		false,
		o.InternalRoutes,
		VerifC06VSValidator(o),
		validation.NewGlobalConfigurationValidator(map[int]bool{80: true, 443: true}),
		VerifC06TSValidator(o),
		o.TLSPassthrough,
		false, // snippets
		o.CertManager,
		false,
	)
	lbc.secretStore = secrets.NewLocalSecretStore(o.Configurator)
	_ = context.Background
	return &VerifC06{lbc: lbc, nsi: nsi}
}

// AddService / AddEndpointSlice / AddPolicy / AddSecret fill the listers (the cluster state).
func (v *VerifC06) AddService(s *api_v1.Service) { _ = v.nsi.svcLister.Add(s) }

// AddEndpointSlice adds an EndpointSlice.
func (v *VerifC06) AddEndpointSlice(e *discovery_v1.EndpointSlice) {
	_ = v.nsi.endpointSliceLister.Add(e)
}

// AddPolicy adds a Policy.
func (v *VerifC06) AddPolicy(p *conf_v1.Policy) { _ = v.nsi.policyLister.Add(p) }

// AddSecret hands a Secret to the real secret store (which validates it).
func (v *VerifC06) AddSecret(s *api_v1.Secret) { v.lbc.secretStore.AddOrUpdateSecret(s) }

// VerifC06Change is the projection of one applied ResourceChange.
type VerifC06Change struct {
	Op       string
	Kind     string
	Key      string
	Err      string
	Warnings int
}

func (v *VerifC06) apply(changes []ResourceChange) []VerifC06Change {
	lbc := v.lbc
	var out []VerifC06Change
	for _, c := range changes {
		vc := VerifC06Change{}
		var err error
		var w configs.Warnings
		if c.Op == AddOrUpdate {
			vc.Op = "upsert"
			switch impl := c.Resource.(type) {
			case *VirtualServerConfiguration:
				vc.Kind, vc.Key = "vs", getResourceKey(&impl.VirtualServer.ObjectMeta)
				w, err = lbc.configurator.AddOrUpdateVirtualServer(lbc.createVirtualServerEx(impl.VirtualServer, impl.VirtualServerRoutes))
			case *IngressConfiguration:
				vc.Kind, vc.Key = "ing", getResourceKey(&impl.Ingress.ObjectMeta)
				if impl.IsMaster {
					w, err = lbc.configurator.AddOrUpdateMergeableIngress(lbc.createMergeableIngresses(impl))
				} else {
					w, err = lbc.configurator.AddOrUpdateIngress(lbc.createIngressEx(impl.Ingress, impl.ValidHosts, nil))
				}
			case *TransportServerConfiguration:
				vc.Kind, vc.Key = "ts", getResourceKey(&impl.TransportServer.ObjectMeta)
				w, err = lbc.configurator.AddOrUpdateTransportServer(lbc.createTransportServerEx(impl.TransportServer, impl.ListenerPort, impl.IPv4, impl.IPv6))
			}
		} else if c.Op == Delete {
			vc.Op = "delete"
			switch impl := c.Resource.(type) {
			case *VirtualServerConfiguration:
				vc.Kind, vc.Key = "vs", getResourceKey(&impl.VirtualServer.ObjectMeta)
				err = lbc.configurator.DeleteVirtualServer(vc.Key, false)
			case *IngressConfiguration:
				vc.Kind, vc.Key = "ing", getResourceKey(&impl.Ingress.ObjectMeta)
				err = lbc.configurator.DeleteIngress(vc.Key, false)
			case *TransportServerConfiguration:
				vc.Kind, vc.Key = "ts", getResourceKey(&impl.TransportServer.ObjectMeta)
				err = lbc.configurator.DeleteTransportServer(vc.Key)
			}
		}
		if err != nil {
			vc.Err = err.Error()
		}
		for _, ws := range w {
			vc.Warnings += len(ws)
		}
		out = append(out, vc)
	}
	return out
}

// AddIngress runs the real Configuration (validation + arbitration) and applies the changes to
// the real Configurator exactly as processChanges dispatches them.  Second result: number of
// problems (rejections / warnings) reported by the Configuration.
func (v *VerifC06) AddIngress(ing *networking.Ingress) ([]VerifC06Change, int) {
	ch, pr := v.lbc.configuration.AddOrUpdateIngress(ing)
	return v.apply(ch), len(pr)
}

// AddVirtualServer see AddIngress.
func (v *VerifC06) AddVirtualServer(vs *conf_v1.VirtualServer) ([]VerifC06Change, int) {
	ch, pr := v.lbc.configuration.AddOrUpdateVirtualServer(vs)
	return v.apply(ch), len(pr)
}

// AddVirtualServerRoute see AddIngress.
func (v *VerifC06) AddVirtualServerRoute(vsr *conf_v1.VirtualServerRoute) ([]VerifC06Change, int) {
	ch, pr := v.lbc.configuration.AddOrUpdateVirtualServerRoute(vsr)
	return v.apply(ch), len(pr)
}

// AddTransportServer see AddIngress.
func (v *VerifC06) AddTransportServer(ts *conf_v1.TransportServer) ([]VerifC06Change, int) {
	ch, pr := v.lbc.configuration.AddOrUpdateTransportServer(ts)
	return v.apply(ch), len(pr)
}

// SetGlobalConfiguration installs a GlobalConfiguration.
func (v *VerifC06) SetGlobalConfiguration(gc *conf_v1.GlobalConfiguration) ([]VerifC06Change, int, error) {
	ch, pr, err := v.lbc.configuration.AddOrUpdateGlobalConfiguration(gc)
	return v.apply(ch), len(pr), err
}

// Attached lists the resources that currently hold a host / listener, with the VirtualServerRoutes
// and minions attached to them ("vs:ns/name+vsr:ns/name", "master:ns/name+minion:ns/name", ...).
func (v *VerifC06) Attached() []string {
	var out []string
	for _, r := range v.lbc.configuration.GetResources() {
		switch impl := r.(type) {
		case *VirtualServerConfiguration:
			s := "vs:" + getResourceKey(&impl.VirtualServer.ObjectMeta)
			for _, vsr := range impl.VirtualServerRoutes {
				s += "+vsr:" + vsr.Namespace + "/" + vsr.Name
			}
			out = append(out, s)
		case *IngressConfiguration:
			s := "ing:" + getResourceKey(&impl.Ingress.ObjectMeta)
			if impl.IsMaster {
				s = "master:" + getResourceKey(&impl.Ingress.ObjectMeta)
				for _, m := range impl.Minions {
					s += "+minion:" + getResourceKey(&m.Ingress.ObjectMeta)
				}
			}
			out = append(out, s)
		case *TransportServerConfiguration:
			out = append(out, "ts:"+getResourceKey(&impl.TransportServer.ObjectMeta))
		}
	}
	return out
}

// VerifC06Regexps exposes the validator regular expressions of this package whose hand
// transcriptions in coq/Tmpl/Validators.v are compared with them on a corpus on every run.
func VerifC06Regexps() map[string]*regexp.Regexp {
	return map[string]*regexp.Regexp{
		"ing_path@k8s.pathRegexp":                            pathRegexp,
		"escaped@k8s.escapedStringsFmtRegexp":                escapedStringsFmtRegexp,
		"realm@k8s.validAnnotationValueRegex":                validAnnotationValueRegex,
		"realm@k8s.realmFmtRegexp":                           realmFmtRegexp,
		"jwt_token@k8s.validJWTTokenAnnotationValueRegex":    validJWTTokenAnnotationValueRegex,
		"limit_req_key@k8s.limitReqKeyRegexp":                limitReqKeyRegexp,
	}
}

// RemovePolicy deletes a Policy from the informer store WITHOUT telling the controller (the delete
// event is coalesced with a later add of the same key, or lost in a watch gap).
func (v *VerifC06) RemovePolicy(p *conf_v1.Policy) { _ = v.nsi.policyLister.Delete(p) }

// SyncPolicy is the REAL syncPolicy for the key (validation, FindResourcesForPolicy, createExtendedResources ->
// getPolicies, AddOrUpdateVirtualServers); events go to a fake recorder that is drained here.
func (v *VerifC06) SyncPolicy(key string) {
	v.lbc.syncPolicy(task{Kind: policy, Key: key})
	if fr, ok := v.lbc.recorder.(*record.FakeRecorder); ok {
		for {
			select {
			case <-fr.Events:
			default:
				return
			}
		}
	}
}
