(* Go maps with string keys, as association lists kept strictly sorted by key.
   Extensionally equal well-formed maps are Leibniz-equal ([smap_ext]), and the list order
   is the order in which the code iterates after sort.Strings(keys) (bytewise lexicographic). *)
From Coq Require Import List String Ascii Bool Arith Lia.
From Coq Require Import Structures.OrderedTypeEx.
Import ListNotations.

Definition slt (a b : string) : Prop := String.compare a b = Lt.

Lemma slt_trans a b c : slt a b -> slt b c -> slt a c.
Proof.
  unfold slt. intros H1 H2.
  apply String_as_OT.cmp_lt in H1. apply String_as_OT.cmp_lt in H2.
  apply String_as_OT.cmp_lt. eapply String_as_OT.lt_trans; eauto.
Qed.

Lemma scompare_refl a : String.compare a a = Eq.
Proof. apply (proj2 (String_as_OT.cmp_eq a a)). reflexivity. Qed.

Lemma slt_irrefl a : ~ slt a a.
Proof. unfold slt. rewrite scompare_refl. discriminate. Qed.

Lemma scompare_gt_lt a b : String.compare a b = Gt -> slt b a.
Proof. unfold slt. intros H. rewrite String.compare_antisym, H. reflexivity. Qed.

Lemma scompare_lt_gt a b : slt a b -> String.compare b a = Gt.
Proof. unfold slt. intros H. rewrite String.compare_antisym, H. reflexivity. Qed.

Lemma slt_neq a b : slt a b -> a <> b.
Proof. intros H ->. exact (slt_irrefl _ H). Qed.

Lemma slt_total a b : slt a b \/ a = b \/ slt b a.
Proof.
  destruct (String.compare a b) eqn:H.
  - right; left. apply String.compare_eq_iff; assumption.
  - left; assumption.
  - right; right. apply scompare_gt_lt; assumption.
Qed.

Section SMap.
  Context {A : Type}.
  Definition smap := list (string * A).

  Fixpoint lookup (k : string) (m : smap) : option A :=
    match m with
    | [] => None
    | (k', v) :: r => if String.eqb k k' then Some v else lookup k r
    end.

  Fixpoint insert (k : string) (v : A) (m : smap) : smap :=
    match m with
    | [] => [(k, v)]
    | (k', v') :: r =>
        match String.compare k k' with
        | Lt => (k, v) :: m
        | Eq => (k, v) :: r
        | Gt => (k', v') :: insert k v r
        end
    end.

  Fixpoint remove (k : string) (m : smap) : smap :=
    match m with
    | [] => []
    | (k', v') :: r => if String.eqb k k' then r else (k', v') :: remove k r
    end.

  Definition keys (m : smap) : list string := map fst m.
  Definition mem (k : string) (m : smap) : bool :=
    match lookup k m with Some _ => true | None => false end.

  (* every key of m is above k *)
  Definition above (k : string) (m : smap) : Prop := forall k', In k' (keys m) -> slt k k'.

  Inductive wf : smap -> Prop :=
  | wf_nil : wf []
  | wf_cons k v r : wf r -> above k r -> wf ((k, v) :: r).

  Lemma lookup_insert_eq k v m : lookup k (insert k v m) = Some v.
  Proof.
    induction m as [|[k' v'] r IH]; cbn.
    - rewrite String.eqb_refl. reflexivity.
    - destruct (String.compare k k') eqn:Hc; cbn.
      + rewrite String.eqb_refl. reflexivity.
      + rewrite String.eqb_refl. reflexivity.
      + assert (k <> k') by (intros ->; rewrite scompare_refl in Hc; discriminate).
        apply String.eqb_neq in H. rewrite H. exact IH.
  Qed.

  Lemma lookup_insert_neq k k0 v m : k0 <> k -> lookup k0 (insert k v m) = lookup k0 m.
  Proof.
    intros Hne. induction m as [|[k' v'] r IH]; cbn.
    - apply String.eqb_neq in Hne. rewrite Hne. reflexivity.
    - destruct (String.compare k k') eqn:Hc; cbn.
      + apply String.compare_eq_iff in Hc. subst k'.
        apply String.eqb_neq in Hne. rewrite Hne. reflexivity.
      + pose proof Hne as Hne'. apply String.eqb_neq in Hne'. rewrite Hne'. reflexivity.
      + destruct (String.eqb k0 k'); [reflexivity|exact IH].
  Qed.

  Lemma lookup_remove_neq k k0 m : k0 <> k -> lookup k0 (remove k m) = lookup k0 m.
  Proof.
    intros Hne. induction m as [|[k' v'] r IH]; cbn; [reflexivity|].
    destruct (String.eqb k k') eqn:Hk.
    - apply String.eqb_eq in Hk. subst k'.
      apply String.eqb_neq in Hne. rewrite Hne. reflexivity.
    - cbn. destruct (String.eqb k0 k'); [reflexivity|exact IH].
  Qed.

  Lemma lookup_above k m : above k m -> lookup k m = None.
  Proof.
    induction m as [|[k' v'] r IH]; intros Ha; cbn; [reflexivity|].
    assert (slt k k') by (apply Ha; cbn; auto).
    assert (Hne : k <> k') by (apply slt_neq; assumption).
    apply String.eqb_neq in Hne. rewrite Hne. apply IH.
    intros k2 Hin. apply Ha. cbn. auto.
  Qed.

  Lemma lookup_remove_eq k m : wf m -> lookup k (remove k m) = None.
  Proof.
    induction 1 as [|k' v' r Hwf IH Hab]; cbn; [reflexivity|].
    destruct (String.eqb k k') eqn:Hk.
    - apply String.eqb_eq in Hk. subst k'. apply lookup_above. exact Hab.
    - cbn. rewrite Hk. exact IH.
  Qed.

  Lemma in_keys_lookup k m : In k (keys m) <-> lookup k m <> None.
  Proof.
    induction m as [|[k' v'] r IH]; cbn.
    - split; [tauto|congruence].
    - destruct (String.eqb k k') eqn:Hk.
      + apply String.eqb_eq in Hk. subst. split; [discriminate|auto].
      + apply String.eqb_neq in Hk. rewrite <- IH. split; [intros [->|H]; [congruence|exact H]|auto].
  Qed.

  Lemma in_keys_insert k0 k v m : In k0 (keys (insert k v m)) <-> k0 = k \/ In k0 (keys m).
  Proof.
    rewrite !in_keys_lookup.
    destruct (string_dec k0 k) as [->|Hne].
    - rewrite lookup_insert_eq. split; [auto|discriminate].
    - rewrite lookup_insert_neq by assumption. split; [auto|intros [?|?]; [contradiction|assumption]].
  Qed.

  Lemma wf_insert k v m : wf m -> wf (insert k v m).
  Proof.
    induction 1 as [|k' v' r Hwf IH Hab]; cbn.
    - constructor; [constructor|]. intros ? [].
    - destruct (String.compare k k') eqn:Hc.
      + apply String.compare_eq_iff in Hc. subst k'. constructor; assumption.
      + constructor; [constructor; assumption|].
        intros k2 [<-|Hin]; [exact Hc|]. eapply slt_trans; [exact Hc|]. apply Hab. exact Hin.
      + constructor; [exact IH|].
        intros k2 Hin. apply in_keys_insert in Hin. destruct Hin as [->|Hin].
        * apply scompare_gt_lt. exact Hc.
        * apply Hab. exact Hin.
  Qed.

  Lemma in_keys_remove k0 k m : In k0 (keys (remove k m)) -> In k0 (keys m).
  Proof.
    induction m as [|[k' v'] r IH]; cbn; [tauto|].
    destruct (String.eqb k k'); cbn; [auto|]. intros [?|?]; auto.
  Qed.

  Lemma wf_remove k m : wf m -> wf (remove k m).
  Proof.
    induction 1 as [|k' v' r Hwf IH Hab]; cbn; [constructor|].
    destruct (String.eqb k k'); [assumption|].
    constructor; [exact IH|]. intros k2 Hin. apply Hab. eapply in_keys_remove; eauto.
  Qed.

  (* canonical form: extensional equality is Leibniz equality *)
  Lemma smap_ext m1 : forall m2, wf m1 -> wf m2 ->
    (forall k, lookup k m1 = lookup k m2) -> m1 = m2.
  Proof.
    induction m1 as [|[k1 v1] r1 IH]; intros m2 W1 W2 Hext.
    - destruct m2 as [|[k2 v2] r2]; [reflexivity|].
      specialize (Hext k2). cbn in Hext. rewrite String.eqb_refl in Hext. discriminate.
    - destruct m2 as [|[k2 v2] r2].
      + specialize (Hext k1). cbn in Hext. rewrite String.eqb_refl in Hext. discriminate.
      + inversion W1 as [|? ? ? W1r A1]; subst. inversion W2 as [|? ? ? W2r A2]; subst.
        assert (Hk : k1 = k2).
        { destruct (slt_total k1 k2) as [Hlt|[Heq|Hgt]]; [|exact Heq|].
          - pose proof (Hext k1) as H. cbn in H. rewrite String.eqb_refl in H.
            assert (Hn : k1 <> k2) by (apply slt_neq; exact Hlt).
            apply String.eqb_neq in Hn. rewrite Hn in H.
            rewrite lookup_above in H; [discriminate|].
            intros k' Hin. eapply slt_trans; [exact Hlt|]. apply A2. exact Hin.
          - pose proof (Hext k2) as H. cbn in H. rewrite String.eqb_refl in H.
            assert (Hn : k2 <> k1) by (apply slt_neq; exact Hgt).
            apply String.eqb_neq in Hn. rewrite Hn in H.
            rewrite lookup_above in H; [discriminate|].
            intros k' Hin. eapply slt_trans; [exact Hgt|]. apply A1. exact Hin. }
        subst k2.
        pose proof (Hext k1) as Hv. cbn in Hv. rewrite String.eqb_refl in Hv. inversion Hv; subst v2.
        f_equal. apply IH; auto.
        intros k. specialize (Hext k). cbn in Hext.
        destruct (String.eqb k k1) eqn:Hk; [|exact Hext].
        apply String.eqb_eq in Hk. subst k.
        rewrite !lookup_above; auto.
  Qed.

  Lemma lookup_In k v m : lookup k m = Some v -> In (k, v) m.
  Proof.
    induction m as [|[k' v'] r IH]; cbn; [discriminate|].
    destruct (String.eqb k k') eqn:Hk.
    - apply String.eqb_eq in Hk. subst. intros H; inversion H. auto.
    - auto.
  Qed.

  Lemma In_lookup k v m : wf m -> In (k, v) m -> lookup k m = Some v.
  Proof.
    induction 1 as [|k' v' r Hwf IH Hab]; cbn; [tauto|].
    intros [H|H].
    - inversion H; subst. rewrite String.eqb_refl. reflexivity.
    - assert (Hin : In k (keys r)) by (apply in_map_iff; exists (k, v); auto).
      assert (Hn : k <> k') by (intros ->; exact (slt_irrefl _ (Hab _ Hin))).
      apply String.eqb_neq in Hn. rewrite Hn. auto.
  Qed.

  Lemma wf_keys_NoDup m : wf m -> NoDup (keys m).
  Proof.
    induction 1 as [|k v r Hwf IH Hab]; cbn; constructor; auto.
    intros Hin. exact (slt_irrefl _ (Hab _ Hin)).
  Qed.
End SMap.

Arguments smap : clear implicits.

(* build a map from any list of bindings (later bindings win), e.g. for test cases *)
Definition of_list {A} (l : list (string * A)) : smap A :=
  fold_left (fun m kv => insert (fst kv) (snd kv) m) l [].

Lemma wf_of_list {A} (l : list (string * A)) : wf (of_list l).
Proof.
  unfold of_list. assert (H : wf (@nil (string * A))) by constructor.
  revert H. generalize (@nil (string * A)). induction l as [|[k v] l IH]; cbn; intros m H; auto.
  apply IH. apply wf_insert. exact H.
Qed.
