//go:build verif

package k8s

import (
	"context"

	"github.com/nginx/kubernetes-ingress/internal/configs"
	"github.com/nginx/kubernetes-ingress/internal/k8s/secrets"
	"github.com/nginx/kubernetes-ingress/internal/metrics/collectors"
	"github.com/nginx/kubernetes-ingress/pkg/apis/configuration/validation"
	fake_v1 "github.com/nginx/kubernetes-ingress/pkg/client/clientset/versioned/fake"
	api_v1 "k8s.io/api/core/v1"
	"k8s.io/client-go/kubernetes/fake"
	"k8s.io/client-go/tools/cache"
	"k8s.io/client-go/tools/record"
)

// VerifC11 drives the Secret path of the real controller: the production constructor (which
// builds the real LocalSecretStore over the given Configurator), the real Secret event handlers,
// the real work queue and the real lbc.sync.  Informers are never started; the harness plays the
// informer: it changes the Secret store and calls the handler the informer would call.
type VerifC11 struct {
	lbc      *LoadBalancerController
	handlers cache.ResourceEventHandlerFuncs
}

// VerifC11New builds the controller through NewLoadBalancerController.
func VerifC11New(ctx context.Context, cnf *configs.Configurator) *VerifC11 {
	lbc := NewLoadBalancerController(NewLoadBalancerControllerInput{
		KubeClient:                   fake.NewSimpleClientset(),
		ConfClient:                   fake_v1.NewSimpleClientset(),
		Recorder:                     record.NewFakeRecorder(1 << 12),
		LoggerContext:                ctx,
		NginxConfigurator:            cnf,
		IsNginxPlus:                  true,
		IngressClass:                 "nginx",
		Namespace:                    []string{""},
		SecretNamespace:              []string{""},
		ControllerNamespace:          "nginx-ingress",
		AreCustomResourcesEnabled:    true,
		MetricsCollector:             collectors.NewControllerFakeCollector(),
		GlobalConfigurationValidator: validation.NewGlobalConfigurationValidator(map[int]bool{}),
		TransportServerValidator:     validation.NewTransportServerValidator(false, false, true),
		VirtualServerValidator:       validation.NewVirtualServerValidator(validation.IsPlus(true)),
	})
	// start-up is over: no initial updateAllConfigs / reload (there is no nginx to reload)
	lbc.isNginxReady = true
	return &VerifC11{lbc: lbc, handlers: createSecretHandlers(lbc)}
}

func (v *VerifC11) lister() cache.Store { return v.lbc.namespacedInformers[""].secretLister }

// Put creates or updates the Secret in the informer store and delivers the Add / Update event.
func (v *VerifC11) Put(s *api_v1.Secret) error {
	old, exists, err := v.lister().Get(s)
	if err != nil {
		return err
	}
	if exists {
		if err := v.lister().Update(s); err != nil {
			return err
		}
		v.handlers.UpdateFunc(old, s)
		return nil
	}
	if err := v.lister().Add(s); err != nil {
		return err
	}
	v.handlers.AddFunc(s)
	return nil
}

// Del removes the Secret from the informer store and delivers the Delete event.
func (v *VerifC11) Del(key string) (bool, error) {
	old, exists, err := v.lister().GetByKey(key)
	if err != nil || !exists {
		return false, err
	}
	if err := v.lister().Delete(old); err != nil {
		return true, err
	}
	v.handlers.DeleteFunc(old)
	return true, nil
}

// Drain is the worker: it takes every queued task, in queue order, and runs the real lbc.sync on
// each.  The tasks are taken off the queue first, so that sync sees an empty queue and does not
// enter batch mode (batch mode only postpones reloads, which this harness has none of).
func (v *VerifC11) Drain() []string {
	q := v.lbc.syncQueue.queue
	var ts []task
	for q.Len() > 0 {
		it, _ := q.Get()
		q.Done(it)
		ts = append(ts, it.(task))
	}
	keys := make([]string, 0, len(ts))
	for _, t := range ts {
		keys = append(keys, t.Key)
		v.lbc.sync(t)
	}
	return keys
}

// QueueLen is the number of queued tasks.
func (v *VerifC11) QueueLen() int { return v.lbc.syncQueue.queue.Len() }

// Get is what createIngressEx / createVirtualServerEx do to reference a Secret.
func (v *VerifC11) Get(key string) *secrets.SecretReference { return v.lbc.secretStore.GetSecret(key) }
