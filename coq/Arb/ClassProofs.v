(* C16: non-interference.  Replacing every event on an object whose class designates another
   controller by the deletion of that object changes nothing: not the state, not the change lists,
   not the problem lists -- for every history. *)
From Coq Require Import List ZArith String Ascii Bool Lia.
From NIC Require Import Base.SMap Arb.Types Arb.Model Arb.Spec Arb.WinsProofs Arb.InvProofs Arb.OwnerProofs Arb.ListenerProofs.
Import ListNotations.
Open Scope Z_scope.

Definition erase (e : event) : event :=
  match e with
  | EIng i false _ => EDelIng (mkey (i_meta i))
  | EVS v false _ => EDelVS (mkey (v_meta v))
  | EVSR r false _ => EDelVSR (mkey (r_meta r))
  | ETS t false _ => EDelTS (mkey (t_meta t))
  | _ => e
  end.

(* ---------- the problem maps too are a function of the object maps ---------- *)

Definition hprobs_of_objs (c : cfg) (o : objs) : smap problem :=
  let b := build c (o_ings o) (o_vss o) (o_vsrs o) (o_tss o) (o_gc o) in
  of_list (problems_no_host (b_hosts b) (b_res b) +++ problems_orphan_minions (b_hosts b) (o_ings o) +++
           problems_vsrs (b_hosts b) (o_vsrs o)).

Definition lprobs_of_objs (o : objs) : smap problem :=
  let b := build_listeners (o_gc o) (o_tss o) in
  of_list (listener_problems (lb_hosts b) (lb_cfgs b)).

Definition full_inv (c : cfg) (s : state) : Prop :=
  fn_inv c s /\ hprobs s = hprobs_of_objs c (objs_of_state s) /\ lprobs s = lprobs_of_objs (objs_of_state s).

Lemma hprobs_rebuild_hosts c s : hprobs (fst (fst (rebuild_hosts c s))) = hprobs_of_objs c (objs_of_state s).
Proof. reflexivity. Qed.
Lemma lprobs_rebuild_hosts c s : lprobs (fst (fst (rebuild_hosts c s))) = lprobs s.
Proof. reflexivity. Qed.
Lemma hprobs_rebuild_listeners s : hprobs (fst (fst (rebuild_listeners s))) = hprobs s.
Proof. reflexivity. Qed.
Lemma lprobs_rebuild_listeners s : lprobs (fst (fst (rebuild_listeners s))) = lprobs_of_objs (objs_of_state s).
Proof. reflexivity. Qed.

Lemma hprobs_indep_tss c o1 o2 :
  tls_passthrough c = false -> o_ings o1 = o_ings o2 -> o_vss o1 = o_vss o2 -> o_vsrs o1 = o_vsrs o2 -> o_gc o1 = o_gc o2 ->
  hprobs_of_objs c o1 = hprobs_of_objs c o2.
Proof.
  intros Ht E1 E2 E3 E4. unfold hprobs_of_objs. rewrite E1, E2, E3, E4.
  rewrite (build_indep_tss c (o_ings o2) (o_vss o2) (o_vsrs o2) (o_tss o1) (o_tss o2) (o_gc o2) Ht). reflexivity.
Qed.

Lemma full_inv_init c : full_inv c init.
Proof.
  split; [apply fn_inv_init|]. split; [|reflexivity].
  unfold hprobs_of_objs, build, all_claims, ts_claims. cbn. destruct (tls_passthrough c); reflexivity.
Qed.

Lemma full_inv_rebuild_hosts c s :
  lhosts s = lhosts_of_objs (objs_of_state s) -> lprobs s = lprobs_of_objs (objs_of_state s) ->
  full_inv c (fst (fst (rebuild_hosts c s))).
Proof.
  intros Hl Hp. split; [apply fn_inv_rebuild_hosts; exact Hl|]. split.
  - rewrite hprobs_rebuild_hosts, objs_rebuild_hosts. reflexivity.
  - rewrite lprobs_rebuild_hosts, objs_rebuild_hosts. exact Hp.
Qed.

Lemma full_inv_rebuild_gc c s : full_inv c (fst (fst (rebuild_gc c s))).
Proof.
  unfold rebuild_gc. destruct (rebuild_listeners s) as [[s1 c1] p1] eqn:H1.
  assert (Hs1 : s1 = fst (fst (rebuild_listeners s))) by (rewrite H1; reflexivity).
  destruct (rebuild_hosts c s1) as [[s2 c2] p2] eqn:H2. cbn [fst].
  change s2 with (fst (fst (s2, c2, p2))). rewrite <- H2. apply full_inv_rebuild_hosts; rewrite Hs1.
  - rewrite lhosts_rebuild_listeners, objs_rebuild_listeners. reflexivity.
  - rewrite lprobs_rebuild_listeners, objs_rebuild_listeners. reflexivity.
Qed.

Lemma full_inv_rebuild_ts c s :
  (tls_passthrough c = false -> hosts s = hosts_of_objs c (objs_of_state s) /\ hprobs s = hprobs_of_objs c (objs_of_state s)) ->
  full_inv c (fst (fst (rebuild_ts c s))).
Proof.
  intros Hh. unfold rebuild_ts. destruct (rebuild_listeners s) as [[s1 c1] p1] eqn:H1.
  assert (Hs1 : s1 = fst (fst (rebuild_listeners s))) by (rewrite H1; reflexivity).
  destruct (tls_passthrough c) eqn:Ht.
  - destruct (rebuild_hosts c s1) as [[s2 c2] p2] eqn:H2. cbn [fst].
    change s2 with (fst (fst (s2, c2, p2))). rewrite <- H2. apply full_inv_rebuild_hosts; rewrite Hs1.
    + rewrite lhosts_rebuild_listeners, objs_rebuild_listeners. reflexivity.
    + rewrite lprobs_rebuild_listeners, objs_rebuild_listeners. reflexivity.
  - cbn [fst]. rewrite Hs1. destruct (Hh eq_refl) as [Ha Hb]. split; [split|split].
    + rewrite hosts_rebuild_listeners, objs_rebuild_listeners. exact Ha.
    + rewrite lhosts_rebuild_listeners, objs_rebuild_listeners. reflexivity.
    + rewrite hprobs_rebuild_listeners, objs_rebuild_listeners. exact Hb.
    + rewrite lprobs_rebuild_listeners, objs_rebuild_listeners. reflexivity.
Qed.

Lemma full_inv_step c s e : full_inv c s -> full_inv c (step_state c s e).
Proof.
  intros [[Hh Hl] [Hp Hq]]. unfold step_state. destruct e; cbn [step].
  - rewrite objs_with_error. apply full_inv_rebuild_hosts; assumption.
  - destruct (mem key (ings s)); [apply full_inv_rebuild_hosts; assumption|repeat split; assumption].
  - rewrite objs_with_error. apply full_inv_rebuild_hosts; assumption.
  - destruct (mem key (vss s)); [apply full_inv_rebuild_hosts; assumption|repeat split; assumption].
  - set (s' := set_vsrs s _).
    destruct (rebuild_hosts c s') as [[s2 cs] ps] eqn:Hr. cbn [fst].
    change s2 with (fst (fst (s2, cs, ps))). rewrite <- Hr. apply full_inv_rebuild_hosts; assumption.
  - destruct (mem key (vsrs s)); [apply full_inv_rebuild_hosts; assumption|repeat split; assumption].
  - rewrite objs_with_error. apply full_inv_rebuild_ts. intros Ht. cbn. split.
    + rewrite Hh. unfold hosts_of_objs. cbn. apply f_equal. apply build_indep_tss. exact Ht.
    + rewrite Hp. apply hprobs_indep_tss; auto.
  - destruct (mem key (tss s)); [|repeat split; assumption].
    apply full_inv_rebuild_ts. intros Ht. cbn. split.
    + rewrite Hh. unfold hosts_of_objs. cbn. apply f_equal. apply build_indep_tss. exact Ht.
    + rewrite Hp. apply hprobs_indep_tss; auto.
  - apply full_inv_rebuild_gc.
  - apply full_inv_rebuild_gc.
Qed.

Theorem run_full_inv c es : full_inv c (run c es).
Proof.
  unfold run. assert (H := full_inv_init c). revert H. generalize init.
  induction es as [|e es IH]; intros s H; [exact H|]. cbn [fold_left]. apply IH, full_inv_step, H.
Qed.

(* ---------- rebuilding twice changes nothing and reports nothing ---------- *)

Lemma meta_eq_refl m : meta_eq m m = true.
Proof. unfold meta_eq. rewrite !String.eqb_refl, Z.eqb_refl. reflexivity. Qed.
Lemma meta_eq_ann_refl m : meta_eq_ann m m = true.
Proof. unfold meta_eq_ann. rewrite meta_eq_refl, Z.eqb_refl. reflexivity. Qed.

Lemma all2_refl {A} (f : A -> A -> bool) l : (forall x, f x x = true) -> all2 f l l = true.
Proof. intros H. induction l as [|a l IH]; cbn; [reflexivity|]. rewrite H, IH. reflexivity. Qed.

Lemma is_equal_refl r : is_equal r r = true.
Proof.
  destruct r as [c|c|c]; cbn.
  - rewrite meta_eq_ann_refl, eqb_reflx. unfold smap_bool_eqb.
    rewrite (all2_refl _ (ic_valid_hosts c)) by (intros [k b]; cbn; rewrite String.eqb_refl, eqb_reflx; reflexivity).
    rewrite (all2_refl _ (ic_minions c)) by (intros m; apply meta_eq_ann_refl). reflexivity.
  - rewrite meta_eq_refl. rewrite (all2_refl _ (vc_vsrs c)) by (intros m; apply meta_eq_refl). reflexivity.
  - rewrite meta_eq_refl, Z.eqb_refl, !String.eqb_refl. reflexivity.
Qed.

Lemma mem_of_key {A} (m : smap A) k : In k (keys m) -> mem k m = true.
Proof. intros H. apply in_keys_lookup in H. unfold mem. destruct (lookup k m); congruence. Qed.

Lemma removed_keys_self {A} (m : smap A) : removed_keys m m = [].
Proof.
  unfold removed_keys. assert (H : forall l, (forall k, In k l -> mem k m = true) -> filter (fun k => negb (mem k m)) l = []).
  { induction l as [|a l IH]; intros Hl; cbn; [reflexivity|]. rewrite (Hl a) by (left; reflexivity). cbn. apply IH. intros; apply Hl; right; assumption. }
  apply H. intros k Hk. apply mem_of_key. exact Hk.
Qed.

Lemma added_keys_self {A} (m : smap A) : added_keys m m = [].
Proof. apply removed_keys_self. Qed.

Lemma flat_map_nil {A B} (f : A -> list B) l : (forall x, In x l -> f x = []) -> flat_map f l = [].
Proof. induction l as [|a l IH]; intros H; cbn; [reflexivity|]. rewrite (H a) by (left; reflexivity). apply IH. intros; apply H; right; assumption. Qed.

Lemma filter_map_nil {A B} (f : A -> option B) l : (forall x, In x l -> f x = None) -> filter_map f l = [].
Proof. induction l as [|a l IH]; intros H; cbn; [reflexivity|]. rewrite (H a) by (left; reflexivity). apply IH. intros; apply H; right; assumption. Qed.

Lemma updated_hosts_self m : wf m -> updated_hosts m m = [].
Proof.
  intros W. unfold updated_hosts. apply flat_map_nil. intros [h r] Hin. cbn [fst snd].
  rewrite (In_lookup _ _ _ W Hin). rewrite is_equal_refl. cbn [negb].
  destruct r as [c|c|c]; try reflexivity. rewrite !Z.eqb_refl, !String.eqb_refl. reflexivity.
Qed.

Lemma updated_lhosts_self m : wf m -> updated_lhosts m m = [].
Proof.
  intros W. unfold updated_lhosts. apply filter_map_nil. intros [h r] Hin. cbn [fst snd].
  rewrite (In_lookup _ _ _ W Hin). unfold ts_is_equal. rewrite is_equal_refl. reflexivity.
Qed.

Lemma problem_eqb_refl p : problem_eqb p p = true.
Proof. unfold problem_eqb. rewrite eqb_reflx, !String.eqb_refl. reflexivity. Qed.

Lemma problem_delta_self p : wf p -> problem_delta p p = [].
Proof.
  intros W. unfold problem_delta. apply filter_map_nil. intros [k v] Hin. cbn [fst snd].
  rewrite (In_lookup _ _ _ W Hin), problem_eqb_refl. reflexivity.
Qed.

Lemma wf_filter_map_keys {A B} (g : A -> option B) (m : smap A) :
  wf m -> wf (filter_map (fun kv => match g (snd kv) with Some r => Some (fst kv, r) | None => None end) m).
Proof.
  induction 1 as [|k v r W IH Hab]; cbn; [constructor|].
  destruct (g v) as [b|]; [|exact IH]. constructor; [exact IH|].
  intros k' Hin. apply Hab. unfold keys in *. apply in_map_iff in Hin. destruct Hin as ([k2 b2] & <- & Hin).
  apply in_filter_map in Hin. destruct Hin as ([k3 v3] & Hin3 & Hf). cbn in Hf. destruct (g v3); inversion Hf; subst.
  apply in_map_iff. exists (k2, v3). auto.
Qed.

Lemma wf_b_hosts c is_ vs_ rs ts_ g : wf (b_hosts (build c is_ vs_ rs ts_ g)).
Proof.
  unfold build. pose proof (run_claims_fst host_warning (all_claims c is_ vs_ ts_) []) as Hf.
  destruct (run_claims host_warning [] (all_claims c is_ vs_ ts_)) as [hs ws]. cbn [fst] in Hf. cbn [b_hosts].
  apply (wf_filter_map_keys (fun y : hold => lookup (fst y) _)). rewrite Hf. apply wf_holders. constructor.
Qed.

Lemma wf_lb_hosts g tss : wf (lb_hosts (build_listeners g tss)).
Proof.
  unfold build_listeners. pose proof (run_claims_fst lwarning (lclaims g tss) []) as Hf.
  destruct (run_claims lwarning [] (lclaims g tss)) as [hs ws]. cbn [fst] in Hf. cbn [lb_hosts].
  apply (wf_filter_map_keys (fun y : hold => lookup (fst y) _)). rewrite Hf. apply wf_holders. constructor.
Qed.

Lemma wf_smap_map {A B} (f : A -> B) (m : smap A) : wf m -> wf (smap_map f m).
Proof.
  induction 1 as [|k v r W IH Hab]; cbn; constructor; auto.
  intros k' Hin. apply Hab. unfold smap_map, keys in *. rewrite map_map in Hin. cbn in Hin. exact Hin.
Qed.

Lemma state_eta s : mkSt (ings s) (vss s) (vsrs s) (tss s) (gc s) (hosts s) (lhosts s) (hprobs s) (lprobs s) = s.
Proof. destruct s; reflexivity. Qed.

Lemma rebuild_hosts_idem c s : full_inv c s -> rebuild_hosts c s = (s, [], []).
Proof.
  intros [[Hh Hl] [Hp Hq]]. unfold rebuild_hosts.
  set (b := build c (ings s) (vss s) (vsrs s) (tss s) (gc s)).
  assert (Hb : b_hosts b = hosts s) by (rewrite Hh; reflexivity).
  assert (Hpr : of_list (problems_no_host (b_hosts b) (b_res b) +++ problems_orphan_minions (b_hosts b) (ings s) +++
                        problems_vsrs (b_hosts b) (vsrs s)) = hprobs s) by (rewrite Hp; reflexivity).
  cbv zeta. rewrite Hpr, Hb.
  assert (W : wf (hosts s)) by (rewrite <- Hb; apply wf_b_hosts).
  rewrite removed_keys_self, added_keys_self, (updated_hosts_self _ W).
  assert (Wp : wf (hprobs s)) by (rewrite <- Hpr; apply wf_of_list).
  rewrite (problem_delta_self _ Wp). cbn. rewrite state_eta. reflexivity.
Qed.

Lemma rebuild_listeners_idem c s : full_inv c s -> rebuild_listeners s = (s, [], []).
Proof.
  intros [[Hh Hl] [Hp Hq]]. unfold rebuild_listeners.
  set (b := build_listeners (gc s) (tss s)).
  assert (Hb : lb_hosts b = lhosts s) by (rewrite Hl; reflexivity).
  assert (Hpr : of_list (listener_problems (lb_hosts b) (lb_cfgs b)) = lprobs s) by (rewrite Hq; reflexivity).
  cbv zeta. rewrite Hpr, Hb.
  assert (W : wf (lhosts s)) by (rewrite <- Hb; apply wf_lb_hosts).
  rewrite removed_keys_self, added_keys_self, (updated_lhosts_self _ W).
  assert (Wp : wf (lprobs s)) by (rewrite <- Hpr; apply wf_of_list).
  rewrite (problem_delta_self _ Wp). cbn. rewrite state_eta. reflexivity.
Qed.

Lemma rebuild_ts_idem c s : full_inv c s -> rebuild_ts c s = (s, [], []).
Proof.
  intros H. unfold rebuild_ts. rewrite (rebuild_listeners_idem c s H).
  destruct (tls_passthrough c); [|reflexivity]. rewrite (rebuild_hosts_idem c s H). reflexivity.
Qed.

Lemma wve_false k u out : with_validation_error false k u out = out.
Proof. destruct out as [[s cs] ps]. reflexivity. Qed.

(* a foreign-class upsert and the deletion of the same key are indistinguishable *)
Lemma step_erase c s e : full_inv c s -> step c s (erase e) = step c s e.
Proof.
  intros H. destruct e as [i cls v|k|x cls v|k|r cls v|k|t cls v|k|ls er|]; try reflexivity;
    destruct cls; try reflexivity; cbn [erase step andb]; rewrite ?wve_false.
  - destruct (mem (mkey (i_meta i)) (ings s)) eqn:Hm; [reflexivity|].
    rewrite remove_absent by (apply mem_false_lookup; exact Hm).
    replace (set_ings s (ings s)) with s by (destruct s; reflexivity).
    rewrite (rebuild_hosts_idem c s H). reflexivity.
  - destruct (mem (mkey (v_meta x)) (vss s)) eqn:Hm; [reflexivity|].
    rewrite remove_absent by (apply mem_false_lookup; exact Hm).
    replace (set_vss s (vss s)) with s by (destruct s; reflexivity).
    rewrite (rebuild_hosts_idem c s H). reflexivity.
  - destruct (mem (mkey (r_meta r)) (vsrs s)) eqn:Hm.
    + destruct (rebuild_hosts c (set_vsrs s (remove (mkey (r_meta r)) (vsrs s)))) as [[s2 cs] ps]. reflexivity.
    + rewrite remove_absent by (apply mem_false_lookup; exact Hm).
      replace (set_vsrs s (vsrs s)) with s by (destruct s; reflexivity).
      rewrite (rebuild_hosts_idem c s H). reflexivity.
  - destruct (mem (mkey (t_meta t)) (tss s)) eqn:Hm; [reflexivity|].
    rewrite remove_absent by (apply mem_false_lookup; exact Hm).
    replace (set_tss s (tss s)) with s by (destruct s; reflexivity).
    rewrite (rebuild_ts_idem c s H). reflexivity.
Qed.

(* everything the arbitration component returns along a history *)
Fixpoint outputs (c : cfg) (s : state) (es : list event) : list (list change * list problem * state) :=
  match es with
  | [] => []
  | e :: r => let '(s', cs, ps) := step c s e in (cs, ps, s') :: outputs c s' r
  end.

Theorem non_interference c es : outputs c init (map erase es) = outputs c init es.
Proof.
  assert (H := full_inv_init c). revert H. generalize init.
  induction es as [|e es IH]; intros s H; [reflexivity|].
  cbn [map outputs]. rewrite (step_erase c s e H).
  destruct (step c s e) as [[s' cs] ps] eqn:Hs. f_equal. apply IH.
  replace s' with (step_state c s e) by (unfold step_state; rewrite Hs; reflexivity).
  apply full_inv_step. exact H.
Qed.

Lemma ikind_eq_dec (a b : ikind) : {a = b} + {a <> b}.
Proof. decide equality. Qed.
Lemma ingress_eq_dec (a b : ingress) : {a = b} + {a <> b}.
Proof. decide equality; auto using string_dec, bool_dec, meta_eq_dec, ikind_eq_dec, (list_eq_dec string_dec). Qed.

(* an object is stored only through an upsert event that carried the controller's own class (and was
   valid): no object of a foreign class is ever among the inputs of arbitration *)
Theorem foreign_never_stored c es :
  forall k i, In (k, i) (ings (run c es)) -> In (EIng i true true) es.
Proof.
  intros k i. change (ings (run c es)) with (o_ings (objs_of_state (run c es))). rewrite run_objs. unfold objs_after.
  assert (G : forall l o seen, (In (k, i) (o_ings o) -> In (EIng i true true) seen) ->
              In (k, i) (o_ings (fold_left apply_event l o)) -> In (EIng i true true) (seen +++ l)).
  { induction l as [|e l IH]; intros o seen Ho Hl; cbn [fold_left] in Hl.
    - rewrite app_nil_r. auto.
    - replace (seen +++ e :: l) with ((seen +++ [e]) +++ l) by (rewrite <- app_assoc; reflexivity).
      apply (IH (apply_event o e)); [|exact Hl].
      intros Hin. apply in_or_app.
      destruct e; try (left; apply Ho; exact Hin).
      + cbn [apply_event o_ings] in Hin. unfold upd in Hin. destruct (cls && valid) eqn:Hcv.
        * apply andb_true_iff in Hcv. destruct Hcv as [-> ->].
          apply in_insert in Hin. destruct Hin as [[_ ->]|Hin]; [right; left; reflexivity|left; auto].
        * apply in_remove in Hin. left; auto.
      + cbn [apply_event o_ings] in Hin. apply in_remove in Hin. left; auto. }
  intros H. apply (G es objs0 []); [cbn; tauto|exact H].
Qed.
