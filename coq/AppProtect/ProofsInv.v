(* C19 -- the invariant: after ANY history the state of the two configurations is the state
   rebuilt from scratch from the current objects ([spec_state]); hence order independence. *)
From Coq Require Import List ZArith String Ascii Bool Lia Permutation.
From NIC Require Import Base.SMap AppProtect.Model AppProtect.Spec AppProtect.ProofsBase AppProtect.ProofsSig.
Import ListNotations.
Open Scope string_scope.
Open Scope list_scope.

Section V.
Context {fx : bool}.
Open Scope Z_scope.

(* ------------------------------------------------------------------------------------------ *)
(* well-formedness of the object set (holds by construction of [apply_event]) *)

Record Inv (ob : objects) : Prop := {
  inv_pol : wf (ob_pol ob);
  inv_log : wf (ob_log ob);
  inv_sig : wf (ob_sig ob);
  inv_dpol : wf (ob_dpol ob);
  inv_dlog : wf (ob_dlog ob);
  inv_dpr : wf (ob_dpr ob);
  inv_prkeys : forall k o, lookup k (ob_dpr ob) = Some o -> k = ns_name (pr_ns o) (pr_name o)
}.

Lemma inv0 : Inv objs0.
Proof. constructor; cbn; try constructor. discriminate. Qed.

Lemma inv_apply ob ev : Inv ob -> Inv (apply_event ob ev).
Proof.
  intros [H1 H2 H3 H4 H5 H6 H7].
  destruct ev; constructor; cbn; auto using wf_insert, wf_remove.
  - intros k o0. destruct (string_dec k (ns_name (pr_ns o) (pr_name o))) as [->|Hne].
    + rewrite lookup_insert_eq. intros E. inversion E. reflexivity.
    + rewrite lookup_insert_neq by exact Hne. apply H7.
  - intros k o. destruct (string_dec k key) as [->|Hne].
    + rewrite lookup_remove_eq by exact H6. discriminate.
    + rewrite lookup_remove_neq by exact Hne. apply H7.
Qed.

Lemma inv_after ob evs : Inv ob -> Inv (objects_after ob evs).
Proof.
  revert ob. induction evs as [|ev r IH]; intros ob H; cbn; [exact H|].
  apply IH. apply inv_apply. exact H.
Qed.

(* ------------------------------------------------------------------------------------------ *)
(* policies *)

Lemma create_policy_some o pol c : create_policy_ex o = (pol, Some c) -> p_valid pol = false /\ p_err pol <> EMissing.
Proof.
  unfold create_policy_ex. destruct (po_valid o); cbn.
  - destruct (po_reqs o) as [l|].
    + destruct (build_reqs l); intros E; inversion E; cbn; split; congruence.
    + intros E; inversion E; cbn; split; congruence.
  - intros E; inversion E; cbn; split; congruence.
Qed.

Lemma create_policy_none o pol : create_policy_ex o = (pol, None) ->
  pol = {| p_obj := p_obj pol; p_reqs := p_reqs pol; p_valid := true; p_err := ENone |}.
Proof.
  unfold create_policy_ex. destruct (po_valid o); cbn.
  - destruct (po_reqs o) as [l|].
    + destruct (build_reqs l); intros E; inversion E; reflexivity.
    + intros E; inversion E.
  - intros E; inversion E.
Qed.

Lemma verify_set_invalid sx p e :
  verify_policy_against_user_sigs fx sx (pol_set_invalid p e) = verify_policy_against_user_sigs fx sx p.
Proof. reflexivity. Qed.

Lemma verify_one_spec sx sx' k o :
  fst (fst (verify_one fx sx' k (spec_pol_ex fx sx k o))) = spec_pol_ex fx sx' k o.
Proof.
  unfold spec_pol_ex. destruct (create_policy_ex o) as [pol [c|]] eqn:E; cbn [fst].
  - destruct (create_policy_some _ _ _ E) as [Hv He]. rewrite Hv.
    unfold verify_one. rewrite Hv. cbn [negb andb].
    destruct (err_eqb (p_err pol) EMissing) eqn:Ee.
    + exfalso. apply He. destruct (p_err pol); try discriminate; reflexivity.
    + rewrite Hv. reflexivity.
  - pose proof (create_policy_none _ _ E) as Hp.
    assert (Hv : p_valid pol = true) by (rewrite Hp; reflexivity). rewrite Hv.
    destruct (verify_policy_against_user_sigs fx sx pol) eqn:V; destruct (verify_policy_against_user_sigs fx sx' pol) eqn:V'.
    + unfold verify_one. rewrite Hv. cbn [negb andb]. rewrite Hv, V'. reflexivity.
    + unfold verify_one. rewrite Hv. cbn [negb andb]. rewrite Hv, V'. reflexivity.
    + unfold verify_one. cbn [p_valid p_err pol_set_invalid negb andb err_eqb].
      change (verify_policy_against_user_sigs fx sx' (pol_set_invalid pol EMissing))
        with (verify_policy_against_user_sigs fx sx' pol). rewrite V'.
      cbn [p_valid pol_set_valid].
      change (verify_policy_against_user_sigs fx sx' (pol_set_valid (pol_set_invalid pol EMissing)))
        with (verify_policy_against_user_sigs fx sx' pol). rewrite V'.
      cbn [negb fst]. rewrite Hp at 2. reflexivity.
    + unfold verify_one. cbn [p_valid p_err pol_set_invalid negb andb err_eqb].
      change (verify_policy_against_user_sigs fx sx' (pol_set_invalid pol EMissing))
        with (verify_policy_against_user_sigs fx sx' pol). rewrite V'. reflexivity.
Qed.

Lemma verify_policies_spec sx sx' (P : smap polobj) :
  fst (fst (verify_policies fx sx' (mapk (spec_pol_ex fx sx) P))) = mapk (spec_pol_ex fx sx') P.
Proof.
  unfold verify_policies, mapk. cbn [fst]. rewrite !map_map. apply map_ext. intros [k o]. cbn [fst snd].
  f_equal. apply verify_one_spec.
Qed.

(* ------------------------------------------------------------------------------------------ *)
(* signatures *)

Lemma spec_is_pert S k o : spec_sig_ex S k o = pert (fun k o => in_force S k o) k o.
Proof. reflexivity. Qed.

Lemma pert_ext fl1 fl2 k o : fl1 k o = fl2 k o -> pert fl1 k o = pert fl2 k o.
Proof. unfold pert. intros ->. reflexivity. Qed.

Lemma pert_true fl k o : fl k o = true -> pert fl k o = sig_base o.
Proof. unfold pert. intros ->. destruct (sig_competes o); reflexivity. Qed.

Lemma sig_step_add S k o : wf S -> sigs_distinct (insert k o S) ->
  fst (fst (reconcile_user_sigs (insert k (sig_base o) (mapk (spec_sig_ex S) S)))) =
  mapk (spec_sig_ex (insert k o S)) (insert k o S).
Proof.
  intros W K1.
  set (fl := fun k' o' => if String.eqb k' k then true else in_force S k' o').
  assert (E : insert k (sig_base o) (mapk (spec_sig_ex S) S) = mapk (pert fl) (insert k o S)).
  { rewrite mapk_insert. rewrite (pert_true fl k o) by (unfold fl; rewrite String.eqb_refl; reflexivity).
    apply smap_ext; try (apply wf_insert; apply wf_mapk; exact W).
    intros k1. destruct (string_dec k1 k) as [->|Hne].
    - rewrite !lookup_insert_eq. reflexivity.
    - rewrite !lookup_insert_neq by exact Hne. rewrite !lookup_mapk.
      destruct (lookup k1 S); [|reflexivity]. cbn. f_equal. rewrite spec_is_pert. apply pert_ext.
      unfold fl. apply String.eqb_neq in Hne. rewrite Hne. reflexivity. }
  rewrite E. apply reconcile_is_spec; [apply wf_insert; exact W|exact K1].
Qed.

Lemma sig_step_del S k : wf S -> sigs_distinct (remove k S) ->
  fst (fst (reconcile_user_sigs (remove k (mapk (spec_sig_ex S) S)))) =
  mapk (spec_sig_ex (remove k S)) (remove k S).
Proof.
  intros W K1. rewrite <- mapk_remove.
  rewrite (mapk_ext (spec_sig_ex S) (pert (fun k o => in_force S k o))) by (intros; apply spec_is_pert).
  apply reconcile_is_spec; [apply wf_remove; exact W|exact K1].
Qed.

(* ------------------------------------------------------------------------------------------ *)
(* DoS *)

Lemma aou_pr_state st o :
  fst (fst (add_or_update_dos_pr st o)) =
  with_dprs st (insert (ns_name (pr_ns o) (pr_name o)) (create_dos_pr_ex o) (dprs st)).
Proof.
  unfold add_or_update_dos_pr.
  destruct (negb (pr_valid o)); [reflexivity|].
  match goal with |- context [if ?c then _ else _] => destruct c end; [reflexivity|].
  destruct (pr_log o); [|reflexivity].
  match goal with |- context [if ?c then _ else _] => destruct c end; reflexivity.
Qed.

Lemma reeval_state l : forall st, wf (dprs st) ->
  (forall p, In p l -> lookup (ns_name (pr_ns p) (pr_name p)) (dprs st) = Some (create_dos_pr_ex p)) ->
  fst (fst (reeval st l)) = st.
Proof.
  induction l as [|p r IH]; intros st W H; cbn; [reflexivity|].
  pose proof (aou_pr_state st p) as E.
  destruct (add_or_update_dos_pr st p) as [[st1 c1] p1]. cbn in E.
  rewrite (insert_same _ _ _ W (H p (or_introl eq_refl))) in E.
  assert (E1 : st1 = st) by (rewrite E; destruct st; reflexivity). rewrite E1. clear E E1 st1.
  specialize (IH st W (fun q Hq => H q (or_intror Hq))).
  destruct (reeval st r) as [[st2 c2] p2]. cbn in *. exact IH.
Qed.

Definition mk_dp (_ : string) (o : dpolobj) : DosPolicyEx := {| dpe_obj := o; dpe_valid := dp_valid o |}.
Definition mk_dl (_ : string) (o : dlogobj) : DosLogConfEx := {| dle_obj := o; dle_valid := dl_valid o |}.
Definition mk_pr (_ : string) (o : probj) : DosPrEx := create_dos_pr_ex o.

Lemma spec_dos_eq en ob :
  dos (spec_state fx en ob) =
  {| dpols := mapk mk_dp (ob_dpol ob); dlogs := mapk mk_dl (ob_dlog ob); dprs := mapk mk_pr (ob_dpr ob);
     d_enabled := en |}.
Proof. reflexivity. Qed.

(* the resources that are re-evaluated are stored under their own key, unchanged *)
Lemma stored_pr_lookup PR (p : probj) k :
  wf PR -> (forall k o, lookup k PR = Some o -> k = ns_name (pr_ns o) (pr_name o)) ->
  In (k, create_dos_pr_ex p) (mapk mk_pr PR) ->
  lookup (ns_name (pr_ns p) (pr_name p)) (mapk mk_pr PR) = Some (create_dos_pr_ex p).
Proof.
  intros W HK Hin. apply in_mapk in Hin. destruct Hin as [o [Hin E]].
  unfold mk_pr, create_dos_pr_ex in E. inversion E. subst o.
  pose proof (In_lookup _ _ _ W Hin) as L. rewrite <- (HK _ _ L).
  rewrite lookup_mapk, L. reflexivity.
Qed.

Lemma reeval_filter_state (q : string * DosPrEx -> bool) dp dl PR en :
  wf PR -> (forall k o, lookup k PR = Some o -> k = ns_name (pr_ns o) (pr_name o)) ->
  let st := {| dpols := dp; dlogs := dl; dprs := mapk mk_pr PR; d_enabled := en |} in
  fst (fst (reeval st (map (fun ke => dre_obj (snd ke)) (filter q (mapk mk_pr PR))))) = st.
Proof.
  intros W HK st. apply reeval_state.
  - cbn. apply wf_mapk. exact W.
  - intros p Hp. cbn. apply in_map_iff in Hp. destruct Hp as [[k ex] [Ep Hin]]. cbn in Ep. subst p.
    apply filter_In in Hin. destruct Hin as [Hin _].
    assert (Eex : ex = create_dos_pr_ex (dre_obj ex)).
    { apply in_mapk in Hin. destruct Hin as [o [_ E]]. subst ex. reflexivity. }
    rewrite Eex in Hin. eapply stored_pr_lookup; eauto.
Qed.

(* ------------------------------------------------------------------------------------------ *)
(* one step *)


Lemma spec_state_eq en ob : spec_state fx en ob = {| waf := spec_waf fx ob; dos := spec_dos en ob |}.
Proof. reflexivity. Qed.

Lemma spec_waf_eq ob :
  spec_waf fx ob =
  {| policies := mapk (spec_pol_ex fx (mapk (spec_sig_ex (ob_sig ob)) (ob_sig ob))) (ob_pol ob);
     logconfs := mapk (fun _ o => fst (create_logconf_ex o)) (ob_log ob);
     usersigs := mapk (spec_sig_ex (ob_sig ob)) (ob_sig ob) |}.
Proof. reflexivity. Qed.

Lemma spec_dos_eq2 en ob :
  spec_dos en ob =
  {| dpols := mapk mk_dp (ob_dpol ob); dlogs := mapk mk_dl (ob_dlog ob); dprs := mapk mk_pr (ob_dpr ob);
     d_enabled := en |}.
Proof. reflexivity. Qed.

Lemma step_policy ob k o :
  fst (add_or_update_policy fx (spec_waf fx ob) k o) = spec_waf fx (apply_event ob (EvPolicy k o)).
Proof.
  rewrite !spec_waf_eq. cbn [apply_event ob_pol ob_log ob_sig].
  set (sx := mapk (spec_sig_ex (ob_sig ob)) (ob_sig ob)).
  rewrite mapk_insert. unfold add_or_update_policy. cbn [usersigs policies].
  assert (Hs : forall pol c, create_policy_ex o = (pol, c) ->
            spec_pol_ex fx sx k o = if p_valid pol then
                                   if verify_policy_against_user_sigs fx sx pol then pol else pol_set_invalid pol EMissing
                                 else pol).
  { intros pol c E. unfold spec_pol_ex. rewrite E. reflexivity. }
  destruct (create_policy_ex o) as [pol [c|]] eqn:E; cbn [fst]; rewrite (Hs _ _ eq_refl).
  - destruct (create_policy_some _ _ _ E) as [Hv _]. rewrite Hv. reflexivity.
  - pose proof (create_policy_none _ _ E) as Hp.
    assert (Hv : p_valid pol = true) by (rewrite Hp; reflexivity). rewrite Hv.
    destruct (verify_policy_against_user_sigs fx sx pol); reflexivity.
Qed.

Lemma step_del_policy ob k :
  fst (delete_policy (spec_waf fx ob) k) = spec_waf fx (apply_event ob (EvDelPolicy k)).
Proof.
  rewrite !spec_waf_eq. cbn [apply_event ob_pol ob_log ob_sig].
  unfold delete_policy. cbn [policies]. rewrite lookup_mapk.
  destruct (lookup k (ob_pol ob)) eqn:L; cbn [option_map fst].
  - rewrite mapk_remove. reflexivity.
  - rewrite (remove_absent _ _ L). reflexivity.
Qed.

Lemma step_logconf ob k o :
  fst (add_or_update_logconf (spec_waf fx ob) k o) = spec_waf fx (apply_event ob (EvLogConf k o)).
Proof.
  rewrite !spec_waf_eq. cbn [apply_event ob_pol ob_log ob_sig].
  unfold add_or_update_logconf. cbn [logconfs]. rewrite mapk_insert.
  destruct (create_logconf_ex o) as [lc [c|]] eqn:E; reflexivity.
Qed.

Lemma step_del_logconf ob k :
  fst (delete_logconf (spec_waf fx ob) k) = spec_waf fx (apply_event ob (EvDelLogConf k)).
Proof.
  rewrite !spec_waf_eq. cbn [apply_event ob_pol ob_log ob_sig].
  unfold delete_logconf. cbn [logconfs]. rewrite lookup_mapk.
  destruct (lookup k (ob_log ob)) eqn:L; cbn [option_map fst].
  - rewrite mapk_remove. reflexivity.
  - rewrite (remove_absent _ _ L). reflexivity.
Qed.

Lemma build_change_state st sigs0 pr0 S' P sx :
  policies st = mapk (spec_pol_ex fx sx) P ->
  fst (fst (reconcile_user_sigs sigs0)) = mapk (spec_sig_ex S') S' ->
  fst (build_user_sig_change fx st sigs0 pr0) =
  {| policies := mapk (spec_pol_ex fx (mapk (spec_sig_ex S') S')) P; logconfs := logconfs st;
     usersigs := mapk (spec_sig_ex S') S' |}.
Proof.
  intros HP HS. unfold build_user_sig_change.
  destruct (reconcile_user_sigs sigs0) as [[sigs1 rch] rpr]. cbn [fst] in HS. subst sigs1.
  rewrite HP. pose proof (verify_policies_spec sx (mapk (spec_sig_ex S') S') P) as HV.
  destruct (verify_policies fx _ _) as [[pols1 vch] vpr]. cbn [fst] in HV. subst pols1. reflexivity.
Qed.

Lemma step_usersig ob k o : wf (ob_sig ob) -> sigs_distinct (insert k o (ob_sig ob)) ->
  fst (add_or_update_usersig fx (spec_waf fx ob) k o) = spec_waf fx (apply_event ob (EvUserSig k o)).
Proof.
  intros Ws K1. rewrite !spec_waf_eq. cbn [apply_event ob_pol ob_log ob_sig].
  unfold add_or_update_usersig.
  destruct (create_usersig_ex o) as [sg e] eqn:E. cbn [usersigs].
  assert (Esg : sg = sig_base o) by (unfold sig_base; rewrite E; reflexivity). subst sg.
  erewrite build_change_state; [reflexivity|reflexivity|].
  apply sig_step_add; assumption.
Qed.

Lemma step_del_usersig ob k : wf (ob_sig ob) -> sigs_distinct (remove k (ob_sig ob)) ->
  fst (delete_usersig fx (spec_waf fx ob) k) = spec_waf fx (apply_event ob (EvDelUserSig k)).
Proof.
  intros Ws K1. rewrite !spec_waf_eq. cbn [apply_event ob_pol ob_log ob_sig].
  unfold delete_usersig. cbn [usersigs]. rewrite lookup_mapk.
  destruct (lookup k (ob_sig ob)) eqn:L; cbn [option_map].
  - erewrite build_change_state; [reflexivity|reflexivity|].
    apply sig_step_del; assumption.
  - cbn [fst]. rewrite (remove_absent _ _ L). reflexivity.
Qed.

Definition refs_pol (k : string) (ke : string * DosPrEx) : bool :=
  let o0 := dre_obj (snd ke) in String.eqb k (pr_pol o0) || String.eqb k (ns_name (pr_ns o0) (pr_pol o0)).
Definition refs_log (k : string) (ke : string * DosPrEx) : bool :=
  let o0 := dre_obj (snd ke) in
  match pr_log o0 with
  | Some l => String.eqb k l || String.eqb k (ns_name (pr_ns o0) l)
  | None => false
  end.

Section DosSteps.
  Variable en : bool.
  Variable ob : objects.
  Hypothesis Wpr : wf (ob_dpr ob).
  Hypothesis HK : forall k o, lookup k (ob_dpr ob) = Some o -> k = ns_name (pr_ns o) (pr_name o).

  Lemma step_dos_policy k o :
    fst (dos_add_or_update_policy (spec_dos en ob) k o) = spec_dos en (apply_event ob (EvDosPolicy k o)).
  Proof.
    rewrite !spec_dos_eq2. cbn [apply_event ob_dpol ob_dlog ob_dpr].
    unfold dos_add_or_update_policy. cbn [dpols dlogs dprs d_enabled].
    unfold prs_referencing_policy. cbn [dprs].
    pose proof (reeval_filter_state (refs_pol k)
                  (insert k {| dpe_obj := o; dpe_valid := dp_valid o |} (mapk mk_dp (ob_dpol ob)))
                  (mapk mk_dl (ob_dlog ob)) (ob_dpr ob) en Wpr HK) as HR.
    cbn zeta in HR. unfold refs_pol in HR.
    destruct (reeval _ _) as [[st2 c] p]. cbn [fst] in HR. subst st2. cbn [fst].
    rewrite mapk_insert. reflexivity.
  Qed.

  Lemma step_dos_del_policy k :
    fst (dos_delete_policy (spec_dos en ob) k) = spec_dos en (apply_event ob (EvDelDosPolicy k)).
  Proof.
    rewrite !spec_dos_eq2. cbn [apply_event ob_dpol ob_dlog ob_dpr].
    unfold dos_delete_policy. cbn [dpols dlogs dprs d_enabled]. rewrite lookup_mapk.
    destruct (lookup k (ob_dpol ob)) eqn:L; cbn [option_map]; unfold prs_referencing_policy; cbn [dprs].
    - pose proof (reeval_filter_state (refs_pol k) (remove k (mapk mk_dp (ob_dpol ob)))
                    (mapk mk_dl (ob_dlog ob)) (ob_dpr ob) en Wpr HK) as HR.
      cbn zeta in HR. unfold refs_pol in HR.
      destruct (reeval _ _) as [[st2 c] p]. cbn [fst] in HR. subst st2. cbn [fst].
      rewrite mapk_remove. reflexivity.
    - pose proof (reeval_filter_state (refs_pol k) (mapk mk_dp (ob_dpol ob))
                    (mapk mk_dl (ob_dlog ob)) (ob_dpr ob) en Wpr HK) as HR.
      cbn zeta in HR. unfold refs_pol in HR.
      destruct (reeval _ _) as [[st2 c] p]. cbn [fst] in HR. subst st2. cbn [fst].
      rewrite (remove_absent _ _ L). reflexivity.
  Qed.

  Lemma step_dos_logconf k o :
    fst (dos_add_or_update_logconf (spec_dos en ob) k o) = spec_dos en (apply_event ob (EvDosLogConf k o)).
  Proof.
    rewrite !spec_dos_eq2. cbn [apply_event ob_dpol ob_dlog ob_dpr].
    unfold dos_add_or_update_logconf. cbn [dpols dlogs dprs d_enabled].
    unfold prs_referencing_logconf. cbn [dprs].
    pose proof (reeval_filter_state (refs_log k) (mapk mk_dp (ob_dpol ob))
                  (insert k {| dle_obj := o; dle_valid := dl_valid o |} (mapk mk_dl (ob_dlog ob)))
                  (ob_dpr ob) en Wpr HK) as HR.
    cbn zeta in HR. unfold refs_log in HR.
    destruct (reeval _ _) as [[st2 c] p]. cbn [fst] in HR. subst st2. cbn [fst].
    rewrite mapk_insert. reflexivity.
  Qed.

  Lemma step_dos_del_logconf k :
    fst (dos_delete_logconf (spec_dos en ob) k) = spec_dos en (apply_event ob (EvDelDosLogConf k)).
  Proof.
    rewrite !spec_dos_eq2. cbn [apply_event ob_dpol ob_dlog ob_dpr].
    unfold dos_delete_logconf. cbn [dpols dlogs dprs d_enabled]. rewrite lookup_mapk.
    destruct (lookup k (ob_dlog ob)) eqn:L; cbn [option_map]; unfold prs_referencing_logconf; cbn [dprs].
    - pose proof (reeval_filter_state (refs_log k) (mapk mk_dp (ob_dpol ob))
                    (remove k (mapk mk_dl (ob_dlog ob))) (ob_dpr ob) en Wpr HK) as HR.
      cbn zeta in HR. unfold refs_log in HR.
      destruct (reeval _ _) as [[st2 c] p]. cbn [fst] in HR. subst st2. cbn [fst].
      rewrite mapk_remove. reflexivity.
    - pose proof (reeval_filter_state (refs_log k) (mapk mk_dp (ob_dpol ob))
                    (mapk mk_dl (ob_dlog ob)) (ob_dpr ob) en Wpr HK) as HR.
      cbn zeta in HR. unfold refs_log in HR.
      destruct (reeval _ _) as [[st2 c] p]. cbn [fst] in HR. subst st2. cbn [fst].
      rewrite (remove_absent _ _ L). reflexivity.
  Qed.

  Lemma step_dos_pr o :
    fst (fst (add_or_update_dos_pr (spec_dos en ob) o)) = spec_dos en (apply_event ob (EvDosPR o)).
  Proof.
    rewrite aou_pr_state. rewrite !spec_dos_eq2. cbn [apply_event ob_dpol ob_dlog ob_dpr].
    unfold with_dprs. cbn [dpols dlogs dprs d_enabled].
    change (create_dos_pr_ex o) with (mk_pr (ns_name (pr_ns o) (pr_name o)) o).
    rewrite <- mapk_insert. reflexivity.
  Qed.

  Lemma step_dos_del_pr k :
    fst (dos_delete_pr (spec_dos en ob) k) = spec_dos en (apply_event ob (EvDelDosPR k)).
  Proof.
    rewrite !spec_dos_eq2. cbn [apply_event ob_dpol ob_dlog ob_dpr].
    unfold dos_delete_pr. cbn [dprs]. rewrite lookup_mapk.
    destruct (lookup k (ob_dpr ob)) eqn:L; cbn [option_map fst].
    - unfold with_dprs. cbn [dpols dlogs dprs d_enabled]. rewrite mapk_remove. reflexivity.
    - rewrite (remove_absent _ _ L). reflexivity.
  Qed.
End DosSteps.

Theorem step_spec en ob ev :
  Inv ob -> sigs_distinct (ob_sig (apply_event ob ev)) ->
  fst (step fx (spec_state fx en ob) ev) = spec_state fx en (apply_event ob ev).
Proof.
  intros [Wp Wl Ws Wdp Wdl Wpr HK] K1.
  rewrite (spec_state_eq en (apply_event ob ev)).
  destruct ev as [k o|k|k o|k|k o|k|k o|k|k o|k|o|k]; unfold step, lift_w, lift_d; cbn [fst waf dos].
  - f_equal. apply step_policy.
  - f_equal. apply step_del_policy.
  - f_equal. apply step_logconf.
  - f_equal. apply step_del_logconf.
  - f_equal. apply step_usersig; assumption.
  - f_equal. apply step_del_usersig; assumption.
  - f_equal. apply step_dos_policy; assumption.
  - f_equal. apply step_dos_del_policy; assumption.
  - f_equal. apply step_dos_logconf; assumption.
  - f_equal. apply step_dos_del_logconf; assumption.
  - pose proof (step_dos_pr en ob o) as E.
    change (dos (spec_state fx en ob)) with (spec_dos en ob).
    destruct (add_or_update_dos_pr (spec_dos en ob) o) as [[d c] p]. cbn [fst] in *. subst d. reflexivity.
  - f_equal. apply step_dos_del_pr.
Qed.

(* ------------------------------------------------------------------------------------------ *)
(* all histories *)

(* K1 along a history: after every event the signature objects have distinct uids *)
Fixpoint K1_from (ob : objects) (evs : list event) : Prop :=
  match evs with
  | [] => True
  | ev :: r => sigs_distinct (ob_sig (apply_event ob ev)) /\ K1_from (apply_event ob ev) r
  end.

Definition K1_hist (evs : list event) : Prop := K1_from objs0 evs.

Lemma run_from_spec en evs : forall ob, Inv ob -> K1_from ob evs ->
  run_from fx (spec_state fx en ob) evs = spec_state fx en (objects_after ob evs).
Proof.
  induction evs as [|ev r IH]; intros ob HI HK; cbn; [reflexivity|].
  destruct HK as [K1 HK]. unfold run_from in *. cbn. rewrite (step_spec en ob ev HI K1).
  apply IH; [apply inv_apply; exact HI|exact HK].
Qed.

Lemma init_is_spec en : init en = spec_state fx en objs0.
Proof. reflexivity. Qed.

(* the invariant *)
Theorem run_is_spec_state en evs : K1_hist evs -> run fx en evs = spec_state fx en (final_objects evs).
Proof.
  intros HK. unfold run. rewrite init_is_spec. apply run_from_spec; [apply inv0|exact HK].
Qed.

(* order independence: the whole state, hence every later answer and every later behaviour *)
Theorem order_independent_state en evs1 evs2 :
  K1_hist evs1 -> K1_hist evs2 -> final_objects evs1 = final_objects evs2 -> run fx en evs1 = run fx en evs2.
Proof. intros H1 H2 E. rewrite (run_is_spec_state en evs1 H1), (run_is_spec_state en evs2 H2), E. reflexivity. Qed.

End V.
