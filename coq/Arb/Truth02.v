(* C05 truth proof, part 2: what one step does to GetResources(), in terms of the batch it emits *)
From Coq Require Import List ZArith String Ascii Bool Lia.
From NIC Require Import Base.SMap Arb.Types Arb.Model Arb.Spec Arb.WinsProofs Arb.InvProofs Arb.OwnerProofs
     Arb.ListenerProofs Arb.ClassProofs Arb.ChangeProofs Arb.ReportProofs Arb.ComposeProofs Arb.Cases Arb.ShadowProofs Arb.ShadowAttrs.
From NIC Require Import Arb.Truth01.
Import ListNotations.
Open Scope string_scope.
Open Scope Z_scope.

Lemma run_snoc c es e : run c (es ++ [e])%list = step_state c (run c es) e.
Proof. unfold run. rewrite fold_left_app. reflexivity. Qed.

Lemma cluster_snoc es e : cluster (es ++ [e])%list = cluster_apply (cluster es) e.
Proof. unfold cluster. rewrite fold_left_app. reflexivity. Qed.

Lemma objs_after_snoc es e : objs_after (es ++ [e])%list = apply_event (objs_after es) e.
Proof. unfold objs_after. rewrite fold_left_app. reflexivity. Qed.

Lemma shadow_run_app c : forall es1 es2 s sh,
  shadow_run c s sh (es1 ++ es2)%list = shadow_run c (fold_left (step_state c) es1 s) (shadow_run c s sh es1) es2.
Proof. induction es1 as [|x r IH]; intros es2 s sh; cbn [app shadow_run fold_left]; [reflexivity|apply IH]. Qed.

Lemma k3_hist_prefix es e : k3_hist (es ++ [e])%list -> k3_hist es.
Proof.
  intros (K1 & K2 & K3 & K4). repeat split; intros a b Ha Hb; [apply K1|apply K2|apply K3|apply K4]; apply in_or_app; left; assumption.
Qed.

Lemma forall_prefix {A} (P : A -> Prop) l x : Forall P (l ++ [x])%list -> Forall P l /\ P x.
Proof. intros H. apply Forall_app in H. destruct H as [H1 H2]. inversion H2; subst. auto. Qed.

Section StepFacts.
  Variables (c : cfg) (es : list event) (e : event).
  Hypothesis Hcm : cert_manager c = false.
  Hypothesis He : Forall ev_role (es ++ [e])%list.
  Hypothesis HK : k3_hist (es ++ [e])%list.

  Definition batch : list change := snd (fst (step c (run c es) e)).
  Definition probs : list problem := snd (step c (run c es) e).

  (* the resource under k after the step, up to warnings: the last addOrUpdate of the batch about k; else gone if
     the batch deletes k; else what it was *)
  Lemma GR_step k :
    option_map attrs (lookup k (get_resources (run c (es ++ [e])%list))) =
    match upd_res k batch None with
    | Some r => Some (attrs r)
    | None => if has_del k batch then None else option_map attrs (lookup k (get_resources (run c es)))
    end.
  Proof.
    destruct (forall_prefix _ _ _ He) as [He1 He2].
    rewrite <- (applied_configuration_is_current c (es ++ [e])%list (or_introl Hcm) He HK k).
    rewrite <- (applied_configuration_is_current c es (or_introl Hcm) He1 (k3_hist_prefix _ _ HK) k).
    rewrite shadow_run_app. cbn [shadow_run]. fold (run c es).
    apply (lookup_after_batch _ _ k false).
    - destruct (shadow_run_keys c es init [] (fn_inv_init c)) as [W _]; auto.
      + unfold objs_ok; cbn. repeat split; try constructor; intros ? ? [].
      + intros k0 t [].
      + split; [constructor|]. intros k0. split; [intros []|].
        pose proof (fn_inv_init c) as [Hh Hl]. unfold KH, KL. rewrite <- Hh, <- Hl. cbn.
        intros [(h & r & Hx & _)|(h & r & Hx & _)]; discriminate.
    - apply removals_first.
  Qed.

  Lemma upd_active k r : upd_res k batch None = Some r ->
    exists r', lookup k (get_resources (run c (es ++ [e])%list)) = Some r' /\ attrs r' = attrs r.
  Proof.
    intros H. pose proof (GR_step k) as G. rewrite H in G.
    destruct (lookup k (get_resources (run c (es ++ [e])%list))) as [r'|]; [|discriminate]. cbn in G. inversion G. eauto.
  Qed.

  Lemma not_upd_active k r' : upd_res k batch None = None ->
    lookup k (get_resources (run c (es ++ [e])%list)) = Some r' ->
    has_del k batch = false /\ exists r, lookup k (get_resources (run c es)) = Some r /\ attrs r = attrs r'.
  Proof.
    intros H L. pose proof (GR_step k) as G. rewrite H, L in G. cbn in G.
    destruct (has_del k batch); [discriminate|]. split; [reflexivity|].
    destruct (lookup k (get_resources (run c es))) as [r|]; [|discriminate]. cbn in G. inversion G. eauto.
  Qed.

  Lemma not_upd_inactive k : upd_res k batch None = None ->
    lookup k (get_resources (run c (es ++ [e])%list)) = None ->
    has_del k batch = true \/ lookup k (get_resources (run c es)) = None.
  Proof.
    intros H L. pose proof (GR_step k) as G. rewrite H, L in G. cbn in G.
    destruct (has_del k batch); [auto|]. right. destruct (lookup k (get_resources (run c es))); [discriminate|reflexivity].
  Qed.
End StepFacts.
