(* C19 -- evaluation of the model (X) and of the decidable specification (S) on what the harness
   observed on the real ConfigurationImpl / DoS Configuration.  No proofs here.

   A case = one history, run on a fresh implementation, plus the same history re-ordered a few
   times (permutations that keep the per-object order, hence end in the same object set).
   Observed per operation: the change list, the problem list, UserSigChange.UserSigs (for the two
   UserSig operations) -- all as strings, compared as sorted lists -- and the answer vector:
   GetAppResource for every key of the universe and kind, GetValidDosEx for every protected key. *)
From Coq Require Import List ZArith String Ascii Bool.
From NIC Require Import Base.SMap AppProtect.Model AppProtect.Spec.
Import ListNotations.
Open Scope string_scope.
Open Scope list_scope.
Open Scope Z_scope.

Definition kind_digit (k : kind) : string :=
  match k with
  | KPolicy => "0" | KLogConf => "1" | KUserSig => "2"
  | KDosPolicy => "3" | KDosLogConf => "4" | KDosPR => "5"
  end.

Definition show_change (c : change) : string :=
  ((match c_op c with OpAddOrUpdate => "A" | OpDelete => "D" end) ++ kind_digit (c_kind c) ++ ":" ++ c_key c)%string.

Definition pclass_char (c : pclass) : string :=
  match c with
  | PcValidation => "v" | PcTimestamp => "t" | PcMissing => "m" | PcDup => "d"
  | PcBadDosPolicy => "p" | PcBadDosLogConf => "l"
  end.

Definition show_problem (p : problem) : string :=
  ("P" ++ kind_digit (pb_kind p) ++ pclass_char (pb_class p) ++ ":" ++ pb_key p)%string.

Definition sleb (a b : string) : bool := match String.compare a b with Gt => false | _ => true end.
Fixpoint sins (x : string) (l : list string) : list string :=
  match l with [] => [x] | y :: r => if sleb x y then x :: l else y :: sins x r end.
Definition ssort (l : list string) : list string := fold_right sins [] l.
Fixpoint slist_eqb (a b : list string) : bool :=
  match a, b with
  | [], [] => true
  | x :: a', y :: b' => String.eqb x y && slist_eqb a' b'
  | _, _ => false
  end.
Definition same_set (a b : list string) : bool := slist_eqb (ssort a) (ssort b).
Definition smem (x : string) (l : list string) : bool := existsb (String.eqb x) l.

Definition obs_step := (list string * list string * option (list string) * string)%type.

(* ------------------------------------------------------------------ X: model agrees step by step *)
Fixpoint x_run (fx : bool) (st : state) (wkeys : list string) (pkeys : list (string * string))
         (evs : list event) (obs : list obs_step) : bool :=
  match evs, obs with
  | [], [] => true
  | ev :: evs', (ch, pr, us, ans) :: obs' =>
      let '(st', out) := step fx st ev in
      same_set (map show_change (o_changes out)) ch &&
      same_set (map show_problem (o_problems out)) pr &&
      match o_usersigs out, us with
      | None, None => true
      | Some a, Some b => same_set a b
      | _, _ => false
      end &&
      ascii_list_eqb (model_answers st' wkeys pkeys) (list_ascii_of_string ans) &&
      x_run fx st' wkeys pkeys evs' obs'
  | _, _ => false
  end.

(* ------------------------------------------------------------------ S: on the observations only *)
Definition is_ok (c : ascii) : bool := Ascii.eqb c "0"%char.

(* every flip of usability of a key of [keys] (kind digit d) appears in the change list with the
   right operation; a resource that stays but stops being usable also has a problem reported *)
Fixpoint flips_reported (d : string) (keys : list string) (prev now : list ascii)
         (ch pr : list string) : bool :=
  match keys, prev, now with
  | k :: keys', p :: prev', q :: now' =>
      (if Bool.eqb (is_ok p) (is_ok q) then true
       else smem ((if is_ok q then "A" else "D") ++ d ++ ":" ++ k)%string ch &&
            (if is_ok p && negb (Ascii.eqb q "N"%char)
             then existsb (fun c => smem ("P" ++ d ++ c ++ ":" ++ k)%string pr) ["v"; "t"; "m"; "d"; "p"; "l"]
             else true)) &&
      flips_reported d keys' prev' now' ch pr
  | [], _, _ => true
  | _, _, _ => false
  end.

Fixpoint ok_keys (keys : list string) (now : list ascii) : list string :=
  match keys, now with
  | k :: keys', q :: now' => if is_ok q then k :: ok_keys keys' now' else ok_keys keys' now'
  | _, _ => []
  end.

Fixpoint char_at (keys : list string) (v : list ascii) (k : string) : ascii :=
  match keys, v with
  | k' :: keys', c :: v' => if String.eqb k k' then c else char_at keys' v' k
  | _, _ => "N"%char
  end.

(* bits: 1 = answers differ from the natural specification but equal the as-coded one (F21 class)
         2 = UserSigs list wrong on a DeleteUserSig of an absent key
         4 = any other failure of the specification
         8 = final answers differ between two orders ending in the same object set *)
Definition report_bits (ev : event) (wkeys : list string) (pkeys : list (string * string))
           (prev now : list ascii) (ch pr : list string) (us : option (list string)) : Z :=
  let n := List.length wkeys in
  let seg (v : list ascii) (i : nat) := firstn n (skipn (i * n) v) in
  let pk := map (fun nk => get_ns_name (fst nk) (snd nk)) pkeys in
  let b_pol := flips_reported "0" wkeys (seg prev 0%nat) (seg now 0%nat) ch pr in
  let b_log := flips_reported "1" wkeys (seg prev 1%nat) (seg now 1%nat) ch pr in
  let b_pr := flips_reported "5" pk (skipn (3 * n) prev) (skipn (3 * n) now) ch pr in
  let sp := seg prev 2%nat in
  let sn := seg now 2%nat in
  let b_sig :=
    match ev, us with
    | EvUserSig _ _, Some l => if same_set l (ok_keys wkeys sn) then 0 else 4
    | EvDelUserSig k, Some l =>
        if same_set l (ok_keys wkeys sn) then 0
        else if Ascii.eqb (char_at wkeys sp k) "N"%char then 2 else 4
    | EvUserSig _ _, None | EvDelUserSig _, None => 4
    | _, Some _ => 4
    | _, None => if ascii_list_eqb sp sn then 0 else 4
    end in
  Z.lor (if b_pol && b_log && b_pr then 0 else 4) b_sig.

Fixpoint s_run (enabled : bool) (ob : objects) (prev : list ascii) (wkeys : list string)
         (pkeys : list (string * string)) (evs : list event) (obs : list obs_step) : Z :=
  match evs, obs with
  | [], [] => 0
  | ev :: evs', (ch, pr, us, ans) :: obs' =>
      let ob' := apply_event ob ev in
      let a := list_ascii_of_string ans in
      let b_ans :=
        if ascii_list_eqb a (spec_answers acceptable enabled ob' wkeys pkeys) then 0
        else if ascii_list_eqb a (spec_answers acceptable_as_coded enabled ob' wkeys pkeys) && negb (f21_freeb ob')
             then 1 else 4 in
      Z.lor (Z.lor b_ans (report_bits ev wkeys pkeys prev a ch pr us))
            (s_run enabled ob' a wkeys pkeys evs' obs')
  | _, _ => 4
  end.

Definition final_answers (obs : list obs_step) : string :=
  match rev obs with (_, _, _, ans) :: _ => ans | [] => "" end.

Definition ev_default : event := EvDelPolicy "".
Definition pick (evs : list event) (idx : list nat) : list event := map (fun i => nth i evs ev_default) idx.

(* ------------------------------------------------------------------ the controller projection
   observed per WAF operation that went through the controller:
     mode 0 = a single operation, 1 = inside the clean-up of a namespace that stops being watched
     (one call of cleanupUnwatchedAppWafResources performs the whole group; nothing observed yet),
     2 = that clean-up is complete;
     the sets index.conf lists, the files in the folder, the APPolicy answers over the key universe,
     the APPolicy keys whose dependent Ingress a processed change regenerated, the Rejected events.
   X: the model's folder equals the listed sets and the model's policy answers equal the observed.
   S (on the observations and the objects only): the index lists exactly the files that exist; after
   a signature operation / a clean-up it lists exactly the sets in force for the current objects;
   other operations leave it alone; every policy whose usability differs from the previous observed
   step is among the processed ones, with a Rejected event when it stays and stopped being usable.
   bit 2 as above (the F37 class seen through the controller), bit 16 = folder wrong,
   bit 32 = a policy flip that no processed change carried. *)
Definition sig_in_force_keys (ob : objects) (wkeys : list string) : list string :=
  filter (fun k => match spec_sig_answer (ob_sig ob) k with AOk => true | _ => false end) wkeys.

Definition ctl_obs := (Z * list string * list string * string * list string * list string)%type.

Fixpoint policy_flips_processed (keys : list string) (prev now : list ascii) (pp rj : list string) : bool :=
  match keys, prev, now with
  | k :: keys', p :: prev', q :: now' =>
      (if Bool.eqb (is_ok p) (is_ok q) then true
       else smem k pp && (if is_ok p && negb (Ascii.eqb q "N"%char) then smem ("R0:" ++ k)%string rj else true)) &&
      policy_flips_processed keys' prev' now' pp rj
  | [], _, _ => true
  | _, _, _ => false
  end.

Definition is_waf_sig_event (ev : event) : bool :=
  match ev with EvUserSig _ _ | EvDelUserSig _ => true | _ => false end.

Fixpoint ctl_check (fx : bool) (sf : state * list string) (ob : objects) (prev : list string) (prev_pa : list ascii)
         (gs : bool) (* the clean-up group in progress has deleted a signature *) (wkeys : list string) (evs : list event) (obs : list ctl_obs) : bool * Z :=
  match evs, obs with
  | [], [] => (true, 0)
  | ev :: evs', (mode, ld, fl, pa, pp, rj) :: obs' =>
      let sf' := ctl_step fx sf ev in
      let ob' := apply_event ob ev in
      if mode =? 1 then ctl_check fx sf' ob' prev prev_pa (gs || is_waf_sig_event ev) wkeys evs' obs'
      else
        let sig_op := gs || is_waf_sig_event ev in
        let pal := list_ascii_of_string pa in
        let b_files := if same_set ld fl then 0 else 16 in
        let b_spec :=
          if sig_op then
            if same_set ld (sig_in_force_keys ob' wkeys) then 0
            else match ev with
                 | EvDelUserSig k => if mode =? 2 then 16 else match lookup k (ob_sig ob) with None => 2 | Some _ => 16 end
                 | _ => 16
                 end
          else if same_set ld prev then 0 else 16 in
        let b_flip :=
          if (mode =? 2) || is_waf_sig_event ev
          then if policy_flips_processed wkeys prev_pa pal pp rj then 0 else 32
          else 0 in
        let x_ok := same_set (snd sf') ld &&
                    ascii_list_eqb (map (fun k => answer_char (get_app_resource (waf (fst sf')) KPolicy k)) wkeys) pal in
        let '(a, b) := ctl_check fx sf' ob' ld pal false wkeys evs' obs' in
        (x_ok && a, Z.lor (Z.lor (Z.lor b_files b_spec) b_flip) b)
  | _, _ => (false, 16)
  end.

(* one row per case:
   [id; model agrees; spec holds; nontrivial; spec failure bits; #runs; K1 holds; F21-free;
    then, over all steps of the first run, how often each answer class was observed:
    duplicate, missing, bad timestamp, failed validation (WAF); invalid, policy missing, policy
    invalid, log conf missing, log conf invalid (DoS); usable] *)
Definition c19_case (id : Z) (fx : bool) (enabled : bool) (wkeys : list string) (pkeys : list (string * string))
           (evs : list event) (runs : list (list nat * list obs_step))
           (ctl : list nat * list ctl_obs) : list Z :=
  let st0 := init enabled in
  let '(ctl_agree, ctl_bits) := ctl_check fx (st0, []) objs0 [] (map (fun _ => "N"%char) wkeys) false wkeys (pick evs (fst ctl)) (snd ctl) in
  let a0 := spec_answers acceptable enabled objs0 wkeys pkeys in
  let agree := forallb (fun r => x_run fx st0 wkeys pkeys (pick evs (fst r)) (snd r)) runs && ctl_agree in
  let bits := fold_left (fun b r => Z.lor b (s_run enabled objs0 a0 wkeys pkeys (pick evs (fst r)) (snd r))) runs 0 in
  let fin := match runs with r :: _ => final_answers (snd r) | [] => "" end in
  let same_final := forallb (fun r => String.eqb (final_answers (snd r)) fin) runs in
  let bits := Z.lor (Z.lor bits (if same_final then 0 else 8)) ctl_bits in
  let all0 := match runs with r :: _ => flat_map (fun o : obs_step => list_ascii_of_string (snd o)) (snd r) | [] => [] end in
  let nontrivial := existsb (fun c => negb (Ascii.eqb c "N"%char) && negb (Ascii.eqb c "X"%char)) all0 in
  let cnt (c : ascii) := Z.of_nat (List.length (filter (Ascii.eqb c) all0)) in
  [id; if agree then 1 else 0; if bits =? 0 then 1 else 0; if nontrivial then 1 else 0; bits;
   Z.of_nat (List.length runs);
   (* hypotheses of the theorems on this case: K1 along every run; F21-freeness of the final objects *)
   (if forallb (fun r => K1_histb (pick evs (fst r))) runs then 1 else 0);
   (if f21_freeb (final_objects evs) then 1 else 0);
   cnt "D"%char; cnt "M"%char; cnt "T"%char; cnt "F"%char;
   cnt "I"%char; cnt "p"%char; cnt "P"%char; cnt "l"%char; cnt "L"%char; cnt "0"%char].

(* for --replay: what the model returns, step by step, in the harness's projection *)
Fixpoint x_trace (fx : bool) (st : state) (wkeys : list string) (pkeys : list (string * string)) (evs : list event)
  : list (list string * list string * option (list string) * string) :=
  match evs with
  | [] => []
  | ev :: evs' =>
      let '(st', out) := step fx st ev in
      (ssort (map show_change (o_changes out)), ssort (map show_problem (o_problems out)),
       option_map ssort (o_usersigs out), string_of_list_ascii (model_answers st' wkeys pkeys))
      :: x_trace fx st' wkeys pkeys evs'
  end.

(* the specified answers after every step, natural reading *)
Fixpoint s_trace (enabled : bool) (ob : objects) (wkeys : list string) (pkeys : list (string * string))
         (evs : list event) : list string :=
  match evs with
  | [] => []
  | ev :: evs' =>
      let ob' := apply_event ob ev in
      string_of_list_ascii (spec_answers acceptable enabled ob' wkeys pkeys) :: s_trace enabled ob' wkeys pkeys evs'
  end.
