//go:build verif

// Harness for C09 (generation is a pure function).
//
// render family: a fixture (VirtualServer / Ingress / mergeable Ingress / TransportServer, built
// from the case's own PRNG stream) is pushed through the REAL Configurator.AddOrUpdateResources
// (GenerateVirtualServerConfig / generateNginxCfg / generateTransportServerConfig + the real
// template executors) R times in this process, against the real nginx.LocalManager writing into a
// scratch directory (its Reload is replaced by a counter: there is no nginx binary).  Recorded per
// rendering: sha256 of every file handed to the manager, the manager's own `changed` answers
// (configContentsChanged), and whether the Configurator asked for a reload.
//
// unit family: the functions of internal/configs that range over a map are called R times on the
// same input and the distinct results are recorded in the order the real code produced them.
package main

import (
	"context"
	"crypto/sha256"
	"encoding/hex"
	"encoding/json"
	"flag"
	"fmt"
	"io"
	"log/slog"
	"os"
	"path/filepath"
	"reflect"
	"regexp"
	"sort"
	"strings"
	"time"

	api_v1 "k8s.io/api/core/v1"
	networking "k8s.io/api/networking/v1"
	meta_v1 "k8s.io/apimachinery/pkg/apis/meta/v1"
	"k8s.io/apimachinery/pkg/apis/meta/v1/unstructured"
	"k8s.io/apimachinery/pkg/util/intstr"

	"github.com/nginx/kubernetes-ingress/internal/configs"
	"github.com/nginx/kubernetes-ingress/internal/configs/version1"
	"github.com/nginx/kubernetes-ingress/internal/configs/version2"
	"github.com/nginx/kubernetes-ingress/internal/k8s/secrets"
	nl "github.com/nginx/kubernetes-ingress/internal/logger"
	"github.com/nginx/kubernetes-ingress/internal/metrics/collectors"
	"github.com/nginx/kubernetes-ingress/internal/nginx"
	"github.com/nginx/kubernetes-ingress/internal/verifh/vh"
	conf_v1 "github.com/nginx/kubernetes-ingress/pkg/apis/configuration/v1"
)

// ---------------------------------------------------------------- case format

type Case struct {
	ID     int            `json:"id"`
	Fam    string         `json:"fam"`  // render | unit
	Kind   string         `json:"kind"` // fixture / function
	Plus   bool           `json:"plus"`
	Seed   uint64         `json:"seed"` // stream the fixture is built from
	P      map[string]int `json:"p"`    // sizes (keys, policies, claims, ...)
	Rounds int            `json:"rounds"`
	Obs    any            `json:"obs"`
}

type FileDigest struct {
	Name string `json:"name"`
	Sha  string `json:"sha"`
}

type Rendering struct {
	Files    []FileDigest `json:"files"`
	Changed  bool         `json:"changed"`  // some Create*Config answered "changed"
	Reloaded bool         `json:"reloaded"` // the Configurator called Manager.Reload
}

type Diff struct {
	Round        int    `json:"round"`
	File         string `json:"file"`
	Line         int    `json:"line"`
	A            string `json:"a"`
	B            string `json:"b"`
	Block        string `json:"block"`
	SameMultiset bool   `json:"same_multiset"`
	Site         string `json:"site"` // attributed map-range site, or "unattributed"
}

type RenderObs struct {
	Renderings []Rendering       `json:"renderings"`
	Distinct   int               `json:"distinct"`
	Diff       *Diff             `json:"diff,omitempty"`
	MaxMap     int               `json:"max_map"`           // largest unordered collection the fixture routes through
	Mutated    []string          `json:"mutated,omitempty"` // input objects the generator wrote into
	Resync     []string          `json:"resync,omitempty"`  // changes the Configuration reported for re-delivered unchanged objects
	Bytes      int               `json:"bytes"`
	First      map[string]string `json:"first,omitempty"` // the files of the first rendering (compared across processes)
	Error      string            `json:"error,omitempty"`
	Panic      string            `json:"panic,omitempty"`
}

type UnitObs struct {
	Bindings [][2]string `json:"bindings"` // canonical (sorted) input bindings
	Expect   []string    `json:"expect"`   // items in canonical binding order (what one fixed order gives)
	Aux      []string    `json:"aux"`      // filter*: the real deny list; merge: the real inheritance list
	Aux2     [][2]string `json:"aux2"`     // merge: the minion's own annotations
	Outs     [][]string  `json:"outs"`     // distinct outputs, first seen first
	Counts   []int       `json:"counts"`
	Error    string      `json:"error,omitempty"`
	Panic    string      `json:"panic,omitempty"`
}

// ---------------------------------------------------------------- recording manager

type recMgr struct {
	*nginx.LocalManager
	files   map[string][]byte
	changed bool
	reloads int
}

func (m *recMgr) rec(name string, content []byte, ch bool) bool {
	m.files[name] = append([]byte(nil), content...)
	if ch {
		m.changed = true
	}
	return ch
}

func (m *recMgr) CreateMainConfig(c []byte) bool {
	return m.rec("nginx.conf", c, m.LocalManager.CreateMainConfig(c))
}

func (m *recMgr) CreateConfig(name string, c []byte) bool {
	return m.rec("conf.d/"+name+".conf", c, m.LocalManager.CreateConfig(name, c))
}

func (m *recMgr) CreateStreamConfig(name string, c []byte) bool {
	return m.rec("stream-conf.d/"+name+".conf", c, m.LocalManager.CreateStreamConfig(name, c))
}

func (m *recMgr) CreateTLSPassthroughHostsConfig(c []byte) bool {
	return m.rec("tls-passthrough-hosts.conf", c, m.LocalManager.CreateTLSPassthroughHostsConfig(c))
}

func (m *recMgr) CreateSecret(name string, c []byte, mode os.FileMode) string {
	m.rec("secrets/"+name, c, false)
	return m.LocalManager.CreateSecret(name, c, mode)
}

// m.files is the state of the disk: EVERY file the Configurator has written and not deleted (NGINX
// configuration, secrets, App Protect policies / log configurations / user signatures, DoS files)
func (m *recMgr) CreateAppProtectResourceFile(name string, c []byte) { m.rec("ap:"+name, c, false) }
func (m *recMgr) DeleteAppProtectResourceFile(name string)           { delete(m.files, "ap:"+name) }
func (m *recMgr) ClearAppProtectFolder(name string) {
	for _, n := range sortedKeys(m.files) {
		if strings.HasPrefix(n, "ap:"+name) {
			delete(m.files, n)
		}
	}
}

func (m *recMgr) DeleteConfig(name string) {
	delete(m.files, "conf.d/"+name+".conf")
	m.LocalManager.DeleteConfig(name)
}

func (m *recMgr) DeleteStreamConfig(name string) {
	delete(m.files, "stream-conf.d/"+name+".conf")
	m.LocalManager.DeleteStreamConfig(name)
}

func (m *recMgr) DeleteSecret(name string) {
	for _, n := range sortedKeys(m.files) {
		if strings.HasPrefix(n, "secrets/") && strings.HasSuffix(name, strings.TrimPrefix(n, "secrets/")) {
			delete(m.files, n)
		}
	}
	m.LocalManager.DeleteSecret(name)
}

// disk returns a copy of the state of the disk
func (m *recMgr) disk() map[string][]byte {
	out := make(map[string][]byte, len(m.files))
	for n, b := range m.files {
		out[n] = b
	}
	return out
}
func (m *recMgr) Reload(bool) error            { m.reloads++; return nil }
func (m *recMgr) UpdateConfigVersionFile(bool) {}
func (m *recMgr) UpdateServersInPlus(string, []string, nginx.ServerConfig) error {
	return nil
}
func (m *recMgr) UpdateStreamServersInPlus(string, []string) error { return nil }
func (m *recMgr) UpsertSplitClientsKeyVal(string, string, string)  {}
func (m *recMgr) DeleteKeyValStateFiles(string)                    {}
func (m *recMgr) Version() nginx.Version {
	return nginx.NewVersion("nginx version: nginx/1.25.3 (nginx-plus-r31)")
}

var (
	repoRoot string
	workDir  string
	quiet    = slog.New(slog.NewTextHandler(io.Discard, nil))
)

func newConfigurator(dir string, plus bool) (*configs.Configurator, *recMgr, error) {
	for _, d := range []string{"conf.d", "stream-conf.d", "secrets", "state_files"} {
		if err := os.MkdirAll(filepath.Join(dir, d), 0o755); err != nil {
			return nil, nil, err
		}
	}
	ctx := nl.ContextWithLogger(context.Background(), quiet)
	v1dir := filepath.Join(repoRoot, "internal/configs/version1")
	v2dir := filepath.Join(repoRoot, "internal/configs/version2")
	mainT, ingT, vsT, tsT := "nginx.tmpl", "nginx.ingress.tmpl", "nginx.virtualserver.tmpl", "nginx.transportserver.tmpl"
	if plus {
		mainT, ingT, vsT, tsT = "nginx-plus.tmpl", "nginx-plus.ingress.tmpl", "nginx-plus.virtualserver.tmpl", "nginx-plus.transportserver.tmpl"
	}
	te, err := version1.NewTemplateExecutor(filepath.Join(v1dir, mainT), filepath.Join(v1dir, ingT))
	if err != nil {
		return nil, nil, err
	}
	te2, err := version2.NewTemplateExecutor(filepath.Join(v2dir, vsT), filepath.Join(v2dir, tsT))
	if err != nil {
		return nil, nil, err
	}
	lm := nginx.NewLocalManager(ctx, dir, false, collectors.NewManagerFakeCollector(), nil, 50*time.Millisecond, plus)
	mgr := &recMgr{LocalManager: lm, files: map[string][]byte{}}
	cnf := configs.NewConfigurator(configs.ConfiguratorParams{
		NginxManager: mgr,
		StaticCfgParams: &configs.StaticConfigParams{
			HealthStatus: true, HealthStatusURI: "/nginx-health", NginxStatus: true,
			NginxStatusAllowCIDRs: []string{"127.0.0.1"}, NginxStatusPort: 8080, TLSPassthrough: true,
			NginxVersion: nginx.NewVersion("nginx version: nginx/1.25.3 (nginx-plus-r31)"),
		},
		Config:             configs.NewDefaultConfigParams(ctx, plus),
		MGMTCfgParams:      configs.NewDefaultMGMTConfigParams(ctx),
		TemplateExecutor:   te,
		TemplateExecutorV2: te2,
		IsPlus:             plus,
		NginxVersion:       nginx.NewVersion("nginx version: nginx/1.25.3 (nginx-plus-r31)"),
	})
	cnf.EnableReloads()
	return cnf, mgr, nil
}

// ---------------------------------------------------------------- fixtures (no map is ranged here)

var words = []string{"tea", "coffee", "milk", "juice", "water", "soda", "wine", "beer", "latte", "mocha", "chai", "cocoa", "cider", "tonic"}

func name(r *vh.Rng, prefix string, i int) string {
	return fmt.Sprintf("%s%s%d", prefix, words[r.Intn(len(words))], i)
}

// nearKeySets: ids that are distinct as byte strings but that common normalisations (case folding,
// trimming of punctuation, separator folding, numeric padding, unicode normalisation) identify.  A sort
// whose comparator is a strict total order on the keys must tell them apart.  Sets 0..5 are valid
// Secret keys ([-._a-zA-Z0-9]+) and are also used by the render family; 6 and 7 only by the unit family.
var nearKeySets = [][]string{
	{"mobile-app", "Mobile-App"},
	{"mobile-app", "Mobile-App", "MOBILE-APP", "mobile-App", "mobile-apP"},
	{"client-a", "client-a-", "client-a--", "client-a.", "client-a_"},
	{"client-a", "client_a", "client.a", "clienta", "Client-A"},
	{"client-1", "client-01", "client-001", "client-1.0", "Client-1"},
	{"a", "A", "b", "B", "aa", "aA", "Aa", "AA", "a-", "A-", "-a", "-A", "a.", "A."},
	{"caf\u00e9", "cafe\u0301", "cafe", "CAFE", "Caf\u00c9"},
	{"k", "K", "\u212a", "s", "S", "\u017f"},
}

func secretDataNear(r *vh.Rng, set int) map[string][]byte {
	ks := nearKeySets[set%len(nearKeySets)]
	d := make(map[string][]byte, len(ks))
	for _, k := range ks {
		d[k] = []byte(fmt.Sprintf("key-%x", r.U64()))
	}
	return d
}

func secretData(r *vh.Rng, n int) map[string][]byte {
	d := make(map[string][]byte, n)
	for i := 0; i < n; i++ {
		d[fmt.Sprintf("client-%s-%02d", words[r.Intn(len(words))], i)] = []byte(fmt.Sprintf("key-%x", r.U64()))
	}
	return d
}

// apiKeyData: p["near"] = k > 0 selects the near-duplicate key set k-1 (+ scope index) instead of generated ids
func apiKeyData(r *vh.Rng, p map[string]int, scope int) map[string][]byte {
	if p["near"] > 0 {
		return secretDataNear(r, (p["near"]-1+scope)%6)
	}
	return secretData(r, p["keys"])
}

func apiKeyPolicy(ns, nm, secret string, i int) *conf_v1.Policy {
	return &conf_v1.Policy{
		ObjectMeta: meta_v1.ObjectMeta{Name: nm, Namespace: ns},
		Spec: conf_v1.PolicySpec{APIKey: &conf_v1.APIKey{
			SuppliedIn:   &conf_v1.SuppliedIn{Header: []string{"X-API-Key", fmt.Sprintf("X-Key-%d", i)}, Query: []string{"apikey"}},
			ClientSecret: secret,
		}},
	}
}

func rlPolicy(ns, nm, claim, match string, def bool, i int) *conf_v1.Policy {
	return &conf_v1.Policy{
		ObjectMeta: meta_v1.ObjectMeta{Name: nm, Namespace: ns},
		Spec: conf_v1.PolicySpec{RateLimit: &conf_v1.RateLimit{
			Key: "$jwt_claim_sub", ZoneSize: fmt.Sprintf("%dM", 10+i), Rate: fmt.Sprintf("%dr/s", 10*(i+1)),
			Condition: &conf_v1.RateLimitCondition{JWT: &conf_v1.JWTCondition{Claim: claim, Match: match}, Default: def},
		}},
	}
}

// buildVS builds a VirtualServerEx.  p: keys (per API-key secret), akp (API-key policies, one per
// scope: spec, then routes), claims x tiers (tiered rate-limit policies at spec level), ups
// (upstreams), eps (endpoints per upstream), vsr (1: one of the routes lives in a VirtualServerRoute),
// hdr (request/response headers per route).
// longNames: a namespace of 56 and a name of 100 characters (valid: <= 63 / <= 253), so that ns_name
// runs past every identifier limit a generator might apply (64, 128, 255)
func longNames() (string, string) {
	ns := "platform-engineering-shared-services-production-eu-west1"
	nm := "cafe-storefront-checkout-and-payments-gateway-with-a-very-long-descriptive-name-for-the-blue-green-00"
	return ns[:56], nm[:100]
}

func buildVS(r *vh.Rng, p map[string]int) *configs.VirtualServerEx {
	ns, vsName, host := "default", "cafe", "cafe.example.com"
	if p["long"] > 0 {
		ns, vsName = longNames()
	}
	if p["idx"] > 0 { // several VirtualServers in one batch
		vsName, host = fmt.Sprintf("%s-%d", vsName, p["idx"]), fmt.Sprintf("cafe%d.example.com", p["idx"])
	}
	ups := p["ups"]
	if ups < 2 {
		ups = 2
	}
	vs := &conf_v1.VirtualServer{
		ObjectMeta: meta_v1.ObjectMeta{Name: vsName, Namespace: ns},
		Spec:       conf_v1.VirtualServerSpec{Host: host},
	}
	ex := &configs.VirtualServerEx{
		VirtualServer:    vs,
		Endpoints:        map[string][]string{},
		Policies:         map[string]*conf_v1.Policy{},
		SecretRefs:       map[string]*secrets.SecretReference{},
		ExternalNameSvcs: map[string]bool{},
	}
	// unordered collections of the VirtualServerEx that generation only looks things up in
	for i := 0; i < 3; i++ {
		ex.ExternalNameSvcs[fmt.Sprintf("%s/extname-%s-%d", ns, words[r.Intn(len(words))], i)] = true
	}
	var upNames []string
	for i := 0; i < ups; i++ {
		un := name(r, "u", i)
		svc := un + "-svc"
		upNames = append(upNames, un)
		up := conf_v1.Upstream{Name: un, Service: svc, Port: 80, LBMethod: []string{"", "least_conn", "ip_hash"}[r.Intn(3)]}
		if p["sub"] > 0 && i%2 == 0 {
			up.Subselector = subselector(r, p["sub"])
		}
		vs.Spec.Upstreams = append(vs.Spec.Upstreams, up)
		var eps []string
		for e := 0; e < p["eps"]+1; e++ {
			eps = append(eps, fmt.Sprintf("10.%d.%d.%d:80", i, r.Intn(200), e+1))
		}
		// the key of the endpoint set, computed as the controller computes it (createVirtualServerEx)
		ex.Endpoints[configs.GenerateEndpointsKey(ns, svc, up.Subselector, 80)] = eps
	}
	// routes: one per upstream
	for i, un := range upNames {
		rt := conf_v1.Route{Path: "/" + un}
		act := &conf_v1.Action{Pass: un}
		if p["hdr"] > 0 && i%2 == 0 {
			pr := &conf_v1.ActionProxy{Upstream: un, RequestHeaders: &conf_v1.ProxyRequestHeaders{}, ResponseHeaders: &conf_v1.ProxyResponseHeaders{}}
			for h := 0; h < p["hdr"]; h++ {
				pr.RequestHeaders.Set = append(pr.RequestHeaders.Set, conf_v1.Header{Name: fmt.Sprintf("X-Req-%s-%d", words[r.Intn(len(words))], h), Value: fmt.Sprintf("v%d", r.Intn(100))})
				pr.ResponseHeaders.Add = append(pr.ResponseHeaders.Add, conf_v1.AddHeader{Header: conf_v1.Header{Name: fmt.Sprintf("X-Resp-%s-%d", words[r.Intn(len(words))], h), Value: fmt.Sprintf("w%d", r.Intn(100))}, Always: r.Bool()})
				pr.ResponseHeaders.Hide = append(pr.ResponseHeaders.Hide, fmt.Sprintf("X-Hide-%d", h))
			}
			if p["dup"] > 0 { // lists with repeated entries (validation accepts them)
				pr.ResponseHeaders.Hide = append(pr.ResponseHeaders.Hide, pr.ResponseHeaders.Hide[0], "X-Hide-Extra", pr.ResponseHeaders.Hide[0])
				pr.ResponseHeaders.Pass = []string{"X-Pass-A", "X-Pass-B", "X-Pass-A", "X-Pass-C", "X-Pass-B"}
				pr.ResponseHeaders.Ignore = []string{"X-Accel-Expires", "Cache-Control", "X-Accel-Expires", "Expires"}
				pr.RequestHeaders.Set = append(pr.RequestHeaders.Set, pr.RequestHeaders.Set[0])
				pr.ResponseHeaders.Add = append(pr.ResponseHeaders.Add, pr.ResponseHeaders.Add[0])
			}
			act = &conf_v1.Action{Proxy: pr}
		}
		rt.Action = act
		vs.Spec.Routes = append(vs.Spec.Routes, rt)
	}
	// a split and a match on extra routes
	if p["mix"] > 0 && len(upNames) >= 2 {
		vs.Spec.Routes = append(vs.Spec.Routes, conf_v1.Route{Path: "/split", Splits: []conf_v1.Split{
			{Weight: 30, Action: &conf_v1.Action{Pass: upNames[0]}}, {Weight: 70, Action: &conf_v1.Action{Pass: upNames[1]}}}})
		vs.Spec.Routes = append(vs.Spec.Routes, conf_v1.Route{Path: "/match", Matches: []conf_v1.Match{
			{Conditions: []conf_v1.Condition{{Header: "x-version", Value: "v2"}, {Cookie: "user", Value: "beta"}}, Action: &conf_v1.Action{Pass: upNames[1]}}},
			Action: &conf_v1.Action{Pass: upNames[0]}})
	}
	// API-key policies: scope 0 = spec, scope i>0 = route i-1
	for i := 0; i < p["akp"]; i++ {
		pn := fmt.Sprintf("api-key-policy-%s-%d", words[r.Intn(len(words))], i)
		sn := fmt.Sprintf("api-key-secret-%d", i)
		ex.Policies[ns+"/"+pn] = apiKeyPolicy(ns, pn, sn, i)
		ex.SecretRefs[ns+"/"+sn] = &secrets.SecretReference{Secret: &api_v1.Secret{
			ObjectMeta: meta_v1.ObjectMeta{Name: sn, Namespace: ns}, Type: secrets.SecretTypeAPIKey, Data: apiKeyData(r, p, i)}}
		ref := conf_v1.PolicyReference{Name: pn}
		if i == 0 {
			vs.Spec.Policies = append(vs.Spec.Policies, ref)
		} else if i-1 < len(vs.Spec.Routes) {
			vs.Spec.Routes[i-1].Policies = append(vs.Spec.Routes[i-1].Policies, ref)
		}
	}
	if p["oidc"] > 0 { // OIDC policy at spec level (NGINX Plus)
		ex.Policies[ns+"/oidc-policy"] = &conf_v1.Policy{ObjectMeta: meta_v1.ObjectMeta{Name: "oidc-policy", Namespace: ns},
			Spec: conf_v1.PolicySpec{OIDC: &conf_v1.OIDC{AuthEndpoint: "https://idp.example.com/auth", TokenEndpoint: "https://idp.example.com/token",
				JWKSURI: "https://idp.example.com/jwks", ClientID: fmt.Sprintf("client-%d", p["idx"]), ClientSecret: "oidc-secret", Scope: "openid+profile"}}}
		ex.SecretRefs[ns+"/oidc-secret"] = &secrets.SecretReference{Secret: &api_v1.Secret{ObjectMeta: meta_v1.ObjectMeta{Name: "oidc-secret", Namespace: ns},
			Type: secrets.SecretTypeOIDC, Data: map[string][]byte{"client-secret": []byte(fmt.Sprintf("s3cr3t-%x", r.U64()))}}}
		vs.Spec.Policies = append(vs.Spec.Policies, conf_v1.PolicyReference{Name: "oidc-policy"})
	}
	if p["waf"] > 0 { // WAF policy referencing an App Protect policy and a log configuration
		ex.Policies[ns+"/waf-policy"] = &conf_v1.Policy{ObjectMeta: meta_v1.ObjectMeta{Name: "waf-policy", Namespace: ns},
			Spec: conf_v1.PolicySpec{WAF: &conf_v1.WAF{Enable: true, ApPolicy: "dataguard-alarm",
				SecurityLogs: []*conf_v1.SecurityLog{{Enable: true, ApLogConf: "logconf", LogDest: "syslog:server=127.0.0.1:514"}}}}}
		ex.ApPolRefs = map[string]*unstructured.Unstructured{ns + "/dataguard-alarm": apPolicy(ns, "dataguard-alarm", 1)}
		ex.LogConfRefs = map[string]*unstructured.Unstructured{ns + "/logconf": apLogConf(ns, "logconf", 1)}
		vs.Spec.Policies = append(vs.Spec.Policies, conf_v1.PolicyReference{Name: "waf-policy"})
	}
	// tiered rate limits at spec level: claims x tiers
	k := 0
	for c := 0; c < p["claims"]; c++ {
		claim := fmt.Sprintf("user_%s.tier%d", words[r.Intn(len(words))], c)
		for t := 0; t < p["tiers"]; t++ {
			pn := fmt.Sprintf("rl-%d-%d", c, t)
			ex.Policies[ns+"/"+pn] = rlPolicy(ns, pn, claim, []string{"premium", "basic", "free", "trial"}[t%4], t == 0, k)
			vs.Spec.Policies = append(vs.Spec.Policies, conf_v1.PolicyReference{Name: pn})
			k++
		}
	}
	// tiered rate limits on the last route too (a second scope)
	if p["claims"] > 0 && p["rlroute"] > 0 && len(vs.Spec.Routes) > 0 {
		last := len(vs.Spec.Routes) - 1
		for c := 0; c < p["claims"]; c++ {
			claim := fmt.Sprintf("org_%s.plan%d", words[r.Intn(len(words))], c)
			for t := 0; t < 2; t++ {
				pn := fmt.Sprintf("rlr-%d-%d", c, t)
				ex.Policies[ns+"/"+pn] = rlPolicy(ns, pn, claim, []string{"gold", "silver"}[t], t == 0, k)
				vs.Spec.Routes[last].Policies = append(vs.Spec.Routes[last].Policies, conf_v1.PolicyReference{Name: pn})
				k++
			}
		}
	}
	// one route delegated to a VirtualServerRoute, carrying its own API-key policy
	if p["vsr"] > 0 {
		vsr := &conf_v1.VirtualServerRoute{
			ObjectMeta: meta_v1.ObjectMeta{Name: "sub", Namespace: ns},
			Spec: conf_v1.VirtualServerRouteSpec{Host: "cafe.example.com",
				Upstreams: []conf_v1.Upstream{{Name: "subup", Service: "sub-svc", Port: 80}},
			},
		}
		if p["sub"] > 0 {
			vsr.Spec.Upstreams[0].Subselector = subselector(r, p["sub"])
		}
		ex.Endpoints[configs.GenerateEndpointsKey(ns, "sub-svc", vsr.Spec.Upstreams[0].Subselector, 80)] = []string{"10.9.0.1:80", "10.9.0.2:80"}
		for s := 0; s < p["vsr"]; s++ {
			sr := conf_v1.Route{Path: fmt.Sprintf("/sub/r%d", s), Action: &conf_v1.Action{Pass: "subup"}}
			pn := fmt.Sprintf("api-key-policy-sub-%d", s)
			sn := fmt.Sprintf("api-key-secret-sub-%d", s)
			ex.Policies[ns+"/"+pn] = apiKeyPolicy(ns, pn, sn, 10+s)
			ex.SecretRefs[ns+"/"+sn] = &secrets.SecretReference{Secret: &api_v1.Secret{Type: secrets.SecretTypeAPIKey, Data: secretData(r, p["keys"])}}
			sr.Policies = []conf_v1.PolicyReference{{Name: pn}}
			vsr.Spec.Subroutes = append(vsr.Spec.Subroutes, sr)
		}
		vs.Spec.Routes = append(vs.Spec.Routes, conf_v1.Route{Path: "/sub", Route: ns + "/sub"})
		ex.VirtualServerRoutes = []*conf_v1.VirtualServerRoute{vsr}
	}
	return ex
}

func ingressPath(path, svc string) networking.HTTPIngressPath {
	return networking.HTTPIngressPath{Path: path, Backend: networking.IngressBackend{
		Service: &networking.IngressServiceBackend{Name: svc, Port: networking.ServiceBackendPort{Number: 80}}}}
}

var ingAnnotations = [][2]string{
	{"nginx.org/proxy-hide-headers", "X-Powered-By,Server,X-Secret"},
	{"nginx.org/proxy-pass-headers", "X-Upstream,X-Trace"},
	{"nginx.org/proxy-set-headers", "X-Forwarded-ABC,X-Tenant: acme,X-Env: prod"},
	{"nginx.org/proxy-connect-timeout", "10s"},
	{"nginx.org/proxy-read-timeout", "20s"},
	{"nginx.org/client-max-body-size", "2m"},
	{"nginx.org/lb-method", "least_conn"},
	{"nginx.org/keepalive", "32"},
	{"nginx.org/hsts", "true"},
	{"nginx.org/hsts-max-age", "3600"},
	{"nginx.org/server-tokens", "off"},
	{"nginx.org/proxy-buffering", "false"},
	{"nginx.org/max-fails", "3"},
	{"nginx.org/fail-timeout", "7s"},
	{"nginx.org/limit-req-rate", "5r/s"},
	{"nginx.org/limit-req-key", "${binary_remote_addr}"},
	{"nginx.org/limit-req-zone-size", "10m"},
}

func buildIngress(r *vh.Rng, p map[string]int, nm string, host string, annN int, pathPrefix string) *configs.IngressEx {
	ann := map[string]string{"kubernetes.io/ingress.class": "nginx"}
	perm := make([]int, len(ingAnnotations))
	for i := range perm {
		perm[i] = i
	}
	for i := len(perm) - 1; i > 0; i-- {
		j := r.Intn(i + 1)
		perm[i], perm[j] = perm[j], perm[i]
	}
	for i := 0; i < annN && i < len(perm); i++ {
		ann[ingAnnotations[perm[i]][0]] = ingAnnotations[perm[i]][1]
	}
	ing := &networking.Ingress{ObjectMeta: meta_v1.ObjectMeta{Name: nm, Namespace: "default", Annotations: ann}}
	ex := &configs.IngressEx{Ingress: ing, Endpoints: map[string][]string{}, ExternalNameSvcs: map[string]bool{},
		ValidHosts: map[string]bool{host: true}, ValidMinionPaths: map[string]bool{}, SecretRefs: map[string]*secrets.SecretReference{},
		HealthChecks: map[string]*api_v1.Probe{}}
	var paths []networking.HTTPIngressPath
	svcs := p["svcs"]
	if svcs < 2 {
		svcs = 2
	}
	var sslSvcs, wsSvcs []string
	for i := 0; i < svcs; i++ {
		svc := name(r, "s", i) + "-svc"
		pth := fmt.Sprintf("%s/%s", pathPrefix, svc)
		paths = append(paths, ingressPath(pth, svc))
		ex.ValidMinionPaths[pth] = true
		var eps []string
		for e := 0; e < p["eps"]+1; e++ {
			eps = append(eps, fmt.Sprintf("10.%d.%d.%d:80", i, r.Intn(200), e+1))
		}
		ex.Endpoints[svc+"80"] = eps
		if i%2 == 0 {
			sslSvcs = append(sslSvcs, svc)
		} else {
			wsSvcs = append(wsSvcs, svc)
		}
		if p["hc"] > 0 {
			ex.HealthChecks[svc+"80"] = &api_v1.Probe{ProbeHandler: api_v1.ProbeHandler{HTTPGet: &api_v1.HTTPGetAction{
				Path: "/healthz", Port: intstr.FromInt(80), Scheme: "HTTP", HTTPHeaders: []api_v1.HTTPHeader{{Name: "Host", Value: host}, {Name: "X-Probe", Value: svc}, {Name: "Accept", Value: "text/plain"}, {Name: "B3", Value: "0"}}}},
				PeriodSeconds: int32(1 + i), TimeoutSeconds: 1}
		}
	}
	if p["waf"] > 0 {
		ann["appprotect.f5.com/app-protect-enable"] = "True"
		ann["appprotect.f5.com/app-protect-policy"] = "default/dataguard-alarm"
		ann["appprotect.f5.com/app-protect-security-log-enable"] = "True"
		ann["appprotect.f5.com/app-protect-security-log"] = "default/logconf"
		ex.AppProtectPolicy = apPolicy("default", "dataguard-alarm", 1)
		ex.AppProtectLogs = []configs.AppProtectLog{{LogConf: apLogConf("default", "logconf", 1), Dest: "syslog:server=127.0.0.1:514"}}
	}
	if p["dup"] > 0 {
		ann["nginx.org/proxy-hide-headers"] = "X-Powered-By,Server,X-Powered-By,X-Secret,Server"
		ann["nginx.org/proxy-pass-headers"] = "X-Upstream,X-Trace,X-Upstream"
	}
	if p["svcann"] > 0 {
		ann["nginx.org/ssl-services"] = strings.Join(sslSvcs, ",")
		ann["nginx.org/websocket-services"] = strings.Join(wsSvcs, ",")
		ann["nginx.org/rewrites"] = fmt.Sprintf("serviceName=%s rewrite=/a/;serviceName=%s rewrite=/b/", sslSvcs[0], wsSvcs[0])
	}
	if p["hc"] > 0 {
		ann["nginx.com/health-checks"] = "true"
	}
	ing.Spec.Rules = []networking.IngressRule{{Host: host, IngressRuleValue: networking.IngressRuleValue{HTTP: &networking.HTTPIngressRuleValue{Paths: paths}}}}
	return ex
}

func buildMergeable(r *vh.Rng, p map[string]int) *configs.MergeableIngresses {
	host := "cafe.example.com"
	master := buildIngress(r, map[string]int{"svcs": 2, "eps": 0}, "cafe-master", host, p["ann"], "")
	master.Ingress.Annotations["nginx.org/mergeable-ingress-type"] = "master"
	// a master carries no paths; denied master annotations are filtered out (filterMasterAnnotations)
	master.Ingress.Spec.Rules[0].HTTP = &networking.HTTPIngressRuleValue{}
	if p["deny"] > 0 {
		master.Ingress.Annotations["nginx.org/rewrites"] = "serviceName=x rewrite=/"
		master.Ingress.Annotations["nginx.org/ssl-services"] = "x"
		master.Ingress.Annotations["nginx.org/websocket-services"] = "y"
		master.Ingress.Annotations["nginx.org/grpc-services"] = "z"
	}
	m := &configs.MergeableIngresses{Master: master}
	for i := 0; i < p["minions"]; i++ {
		mn := buildIngress(r, p, fmt.Sprintf("cafe-minion-%d", i), host, p["ann"]/2, fmt.Sprintf("/m%d", i))
		mn.Ingress.Annotations["nginx.org/mergeable-ingress-type"] = "minion"
		if p["deny"] > 0 {
			mn.Ingress.Annotations["nginx.org/hsts"] = "true"
			mn.Ingress.Annotations["nginx.org/server-tokens"] = "off"
			mn.Ingress.Annotations["nginx.org/listen-ports"] = "8080"
			mn.Ingress.Annotations["nginx.org/redirect-to-https"] = "true"
		}
		m.Minions = append(m.Minions, mn)
	}
	return m
}

func buildTS(r *vh.Rng, p map[string]int, i int, passthrough bool) *configs.TransportServerEx {
	nm := fmt.Sprintf("ts-%s-%d", words[r.Intn(len(words))], i)
	ts := &conf_v1.TransportServer{ObjectMeta: meta_v1.ObjectMeta{Name: nm, Namespace: "default"}}
	ex := &configs.TransportServerEx{TransportServer: ts, Endpoints: map[string][]string{}, PodsByIP: map[string]string{}, ExternalNameSvcs: map[string]bool{}}
	if passthrough {
		ts.Spec.Listener = conf_v1.TransportServerListener{Name: conf_v1.TLSPassthroughListenerName, Protocol: conf_v1.TLSPassthroughListenerProtocol}
		ts.Spec.Host = fmt.Sprintf("app%d.example.com", i)
	} else {
		ts.Spec.Listener = conf_v1.TransportServerListener{Name: "tcp-listener", Protocol: "TCP"}
		ex.ListenerPort = 5000 + i
	}
	ups := p["ups"]
	if ups < 2 {
		ups = 2
	}
	for u := 0; u < ups; u++ {
		un := name(r, "tu", u)
		ts.Spec.Upstreams = append(ts.Spec.Upstreams, conf_v1.TransportServerUpstream{Name: un, Service: un + "-svc", Port: 7000 + u})
		var eps []string
		for e := 0; e < p["eps"]+1; e++ {
			eps = append(eps, fmt.Sprintf("10.%d.%d.%d:%d", u, r.Intn(200), e+1, 7000+u))
		}
		ex.Endpoints[fmt.Sprintf("default/%s-svc:%d", un, 7000+u)] = eps
	}
	ts.Spec.Action = &conf_v1.TransportServerAction{Pass: ts.Spec.Upstreams[ups-1].Name}
	return ex
}

// shuffleEndpoints: the endpoints of a service are a SET (the controller collects them from
// EndpointSlices through a map); every round hands them over in another order.
func shuffleEndpoints(m map[string][]string, r *vh.Rng) {
	keys := make([]string, 0, len(m))
	for k := range m {
		keys = append(keys, k)
	}
	sort.Strings(keys)
	for _, k := range keys {
		e := m[k]
		for i := len(e) - 1; i > 0; i-- {
			j := r.Intn(i + 1)
			e[i], e[j] = e[j], e[i]
		}
	}
}

func buildResources(c *Case, round int) (configs.ExtendedResources, int) {
	r := vh.NewRng(c.Seed)
	sh := vh.NewRng(c.Seed ^ 0x5bd1e995).Fork(uint64(round))

	var res configs.ExtendedResources
	maxMap := 0
	upd := func(n int) {
		if n > maxMap {
			maxMap = n
		}
	}
	switch c.Kind {
	case "vs":
		ex := buildVS(r, c.P)
		res.VirtualServerExes = []*configs.VirtualServerEx{ex}
		shuffleEndpoints(ex.Endpoints, sh)
		upd(c.P["keys"])
		upd(c.P["akp"] + c.P["vsr"])
		upd(c.P["claims"])
		upd(c.P["sub"])
		upd(len(ex.Endpoints))
	case "vsctl":
		ex := buildVSCtl(c)
		res.VirtualServerExes = []*configs.VirtualServerEx{ex}
		upd(c.P["sub"])
		upd(len(ex.Endpoints))
	case "cmresync":
		res.VirtualServerExes = buildCMResync(c, round)
		upd(c.P["solvers"])
		upd(len(res.VirtualServerExes))
	case "ingctl":
		ex := buildIngCtl(c)
		res.IngressExes = []*configs.IngressEx{ex}
		upd(len(ex.Endpoints))
	case "tsctl":
		ex := buildTSCtl(c)
		res.TransportServerExes = []*configs.TransportServerEx{ex}
		upd(len(ex.Endpoints))
	case "ingress":
		ex := buildIngress(r, c.P, "cafe-ingress", "cafe.example.com", c.P["ann"], "")
		res.IngressExes = []*configs.IngressEx{ex}
		shuffleEndpoints(ex.Endpoints, sh)
		upd(len(ex.Ingress.Annotations))
		upd(len(ex.Endpoints))
	case "mergeable":
		m := buildMergeable(r, c.P)
		res.MergeableIngresses = []*configs.MergeableIngresses{m}
		shuffleEndpoints(m.Master.Endpoints, sh)
		for _, mn := range m.Minions {
			shuffleEndpoints(mn.Endpoints, sh)
		}
		upd(len(m.Master.Ingress.Annotations))
		upd(c.P["svcs"])
	case "ts":
		for i := 0; i < c.P["n"]; i++ {
			ts := buildTS(r.Fork(uint64(i)), c.P, i, c.P["pt"] > 0)
			shuffleEndpoints(ts.Endpoints, sh)
			res.TransportServerExes = append(res.TransportServerExes, ts)
		}
		upd(c.P["n"])
		upd(c.P["ups"])
	}
	return res, maxMap
}

// ---------------------------------------------------------------- render family

func shaHex(b []byte) string { s := sha256.Sum256(b); return hex.EncodeToString(s[:]) }

func leading(s string) int { return len(s) - len(strings.TrimLeft(s, " \t")) }

var (
	reAPIKeyMapHdr = regexp.MustCompile(`^\s*map \$apikey_auth_token \$apikey_auth_client_name_\S+ \{$`)
	reAPIKeyParam  = regexp.MustCompile(`^\s*"[0-9a-f]{64}" "[^"]*";$`)
	reLRZGroupHdr  = regexp.MustCompile(`^\s*map \$jwt_\S+ \$rl_\S+_group_\S+ \{$`)
)

func firstDiff(round int, file string, a, b []byte) *Diff {
	la, lb := strings.Split(string(a), "\n"), strings.Split(string(b), "\n")
	n := 0
	for n < len(la) && n < len(lb) && la[n] == lb[n] {
		n++
	}
	d := &Diff{Round: round, File: file, Line: n + 1, Site: "unattributed"}
	if n < len(la) {
		d.A = la[n]
	}
	if n < len(lb) {
		d.B = lb[n]
	}
	for i := n - 1; i >= 0 && n < len(la); i-- {
		if strings.HasSuffix(strings.TrimSpace(la[i]), "{") && leading(la[i]) < leading(la[n]) {
			d.Block = strings.TrimSpace(la[i])
			break
		}
	}
	sa, sb := append([]string(nil), la...), append([]string(nil), lb...)
	sort.Strings(sa)
	sort.Strings(sb)
	d.SameMultiset = strings.Join(sa, "\n") == strings.Join(sb, "\n")
	if d.SameMultiset {
		switch {
		case reAPIKeyMapHdr.MatchString(d.A) && reAPIKeyMapHdr.MatchString(d.B):
			d.Site = "virtualServerConfigurator.GenerateVirtualServerConfig#0"
		case reAPIKeyMapHdr.MatchString(d.Block) && reAPIKeyParam.MatchString(d.A) && reAPIKeyParam.MatchString(d.B):
			d.Site = "generateAPIKeyClients#0"
		case reLRZGroupHdr.MatchString(d.A) && reLRZGroupHdr.MatchString(d.B):
			d.Site = "virtualServerConfigurator.generatePolicies#0"
		}
	}
	return d
}

func runRender(c *Case) (obs RenderObs) {
	defer func() {
		if e := recover(); e != nil {
			obs.Panic = fmt.Sprint(e)
		}
	}()
	dir := filepath.Join(workDir, fmt.Sprintf("c09tmp-%d-%d", os.Getpid(), c.ID))
	defer os.RemoveAll(dir)
	cnf, mgr, err := newConfigurator(dir, c.Plus)
	if err != nil {
		obs.Error = err.Error()
		return
	}
	var first map[string][]byte
	seen := map[string]bool{}
	var store configs.ExtendedResources
	for round := 0; round < c.Rounds; round++ {
		var res configs.ExtendedResources
		var mm int
		if c.P["reuse"] > 0 && c.Kind != "vsctl" { // (vsctl re-syncs its stored objects through the controller itself)
			// the SAME object values every round, as an informer store hands them out: never re-created, never copied
			if round == 0 {
				store, mm = buildResources(c, 0)
				obs.MaxMap = mm
			}
			res, mm = syncWrappers(store), obs.MaxMap
		} else {
			res, mm = buildResources(c, round) // fresh, equal resources every time (endpoint sets in another order)
		}
		obs.MaxMap = mm
		mgr.changed = false
		before := mgr.reloads
		snaps := snapshot(res)
		if _, err := cnf.AddOrUpdateResources(res, false); err != nil {
			obs.Error = err.Error()
			return
		}
		obs.Mutated = addMutations(obs.Mutated, snaps)
		files := mgr.disk()
		names := make([]string, 0, len(files))
		for n := range files {
			names = append(names, n)
		}
		sort.Strings(names)
		rd := Rendering{Changed: mgr.changed, Reloaded: mgr.reloads > before}
		key := ""
		for _, n := range names {
			h := shaHex(files[n])
			rd.Files = append(rd.Files, FileDigest{Name: n, Sha: h})
			key += n + ":" + h + ";"
		}
		seen[key] = true
		obs.Renderings = append(obs.Renderings, rd)
		if round == 0 {
			first = files
			obs.First = map[string]string{}
			for n, b := range first {
				obs.Bytes += len(b)
				obs.First[n] = string(b)
			}
		} else if obs.Diff == nil {
			for _, n := range names {
				if string(first[n]) != string(files[n]) {
					obs.Diff = firstDiff(round, n, first[n], files[n])
					break
				}
			}
		}
	}
	obs.Distinct = len(seen)
	if k, ok := ctlCache[c.ID]; ok {
		obs.Resync = k.changes
	}
	return
}

// ---------------------------------------------------------------- inputs must not be written to

type snap struct {
	name      string
	obj, copy any
}

func sortedKeys[V any](m map[string]V) []string {
	ks := make([]string, 0, len(m))
	for k := range m {
		ks = append(ks, k)
	}
	sort.Strings(ks)
	return ks
}

func snapSecrets(out []snap, refs map[string]*secrets.SecretReference) []snap {
	for _, k := range sortedKeys(refs) {
		if refs[k] != nil && refs[k].Secret != nil {
			out = append(out, snap{"Secret " + k, refs[k].Secret, refs[k].Secret.DeepCopy()})
		}
	}
	return out
}

func snapIngress(out []snap, ex *configs.IngressEx) []snap {
	if ex == nil || ex.Ingress == nil {
		return out
	}
	out = append(out, snap{"Ingress " + ex.Ingress.Namespace + "/" + ex.Ingress.Name, ex.Ingress, ex.Ingress.DeepCopy()})
	if ex.AppProtectPolicy != nil {
		out = append(out, snap{"APPolicy " + ex.AppProtectPolicy.GetName(), ex.AppProtectPolicy, ex.AppProtectPolicy.DeepCopy()})
	}
	for _, lg := range ex.AppProtectLogs {
		out = append(out, snap{"APLogConf " + lg.LogConf.GetName(), lg.LogConf, lg.LogConf.DeepCopy()})
	}
	return snapSecrets(out, ex.SecretRefs)
}

// snapshot takes a deep copy of every Kubernetes object handed to the generator (the objects an
// informer store owns: Ingress, VirtualServer, VirtualServerRoute, TransportServer, Policy, Secret).
func snapshot(res configs.ExtendedResources) []snap {
	var out []snap
	for _, ex := range res.IngressExes {
		out = snapIngress(out, ex)
	}
	for _, m := range res.MergeableIngresses {
		out = snapIngress(out, m.Master)
		for _, mn := range m.Minions {
			out = snapIngress(out, mn)
		}
	}
	for _, ex := range res.VirtualServerExes {
		out = append(out, snap{"VirtualServer " + ex.VirtualServer.Namespace + "/" + ex.VirtualServer.Name, ex.VirtualServer, ex.VirtualServer.DeepCopy()})
		for _, r := range ex.VirtualServerRoutes {
			out = append(out, snap{"VirtualServerRoute " + r.Namespace + "/" + r.Name, r, r.DeepCopy()})
		}
		for _, k := range sortedKeys(ex.Policies) {
			out = append(out, snap{"Policy " + k, ex.Policies[k], ex.Policies[k].DeepCopy()})
		}
		for _, k := range sortedKeys(ex.ApPolRefs) {
			out = append(out, snap{"APPolicy " + k, ex.ApPolRefs[k], ex.ApPolRefs[k].DeepCopy()})
		}
		for _, k := range sortedKeys(ex.LogConfRefs) {
			out = append(out, snap{"APLogConf " + k, ex.LogConfRefs[k], ex.LogConfRefs[k].DeepCopy()})
		}
		out = snapSecrets(out, ex.SecretRefs)
	}
	for _, ex := range res.TransportServerExes {
		out = append(out, snap{"TransportServer " + ex.TransportServer.Namespace + "/" + ex.TransportServer.Name, ex.TransportServer, ex.TransportServer.DeepCopy()})
		out = snapSecrets(out, ex.SecretRefs)
	}
	return out
}

func jsonDiff(a, b any) string {
	ja, _ := json.Marshal(a)
	jb, _ := json.Marshal(b)
	n := 0
	for n < len(ja) && n < len(jb) && ja[n] == jb[n] {
		n++
	}
	if n == len(ja) && n == len(jb) {
		return ""
	}
	lo := n - 60
	if lo < 0 {
		lo = 0
	}
	cut := func(j []byte) string {
		hi := n + 60
		if hi > len(j) {
			hi = len(j)
		}
		return string(j[lo:hi])
	}
	return fmt.Sprintf(": before ...%s... after ...%s...", cut(jb), cut(ja))
}

func describeMutation(s snap) string {
	d := s.name + " was modified by the generator"
	if a, ok := s.obj.(*networking.Ingress); ok {
		b := s.copy.(*networking.Ingress)
		var gained, lost, changed []string
		for _, k := range sortedKeys(a.Annotations) {
			if v, ok := b.Annotations[k]; !ok {
				gained = append(gained, k+"="+a.Annotations[k])
			} else if v != a.Annotations[k] {
				changed = append(changed, k)
			}
		}
		for _, k := range sortedKeys(b.Annotations) {
			if _, ok := a.Annotations[k]; !ok {
				lost = append(lost, k)
			}
		}
		if len(gained)+len(lost)+len(changed) > 0 {
			return d + fmt.Sprintf(": annotations gained %v lost %v changed %v", gained, lost, changed)
		}
	}
	return d + jsonDiff(s.obj, s.copy)
}

func addMutations(acc []string, snaps []snap) []string {
	for _, s := range snaps {
		if !reflect.DeepEqual(s.obj, s.copy) {
			d := describeMutation(s)
			dup := false
			for _, x := range acc {
				if x == d {
					dup = true
				}
			}
			if !dup && len(acc) < 8 {
				acc = append(acc, d)
			}
		}
	}
	return acc
}

// ---------------------------------------------------------------- history family
//
// An informer store holds the objects; every sync wraps the SAME object pointers into fresh *Ex
// values (as createIngressEx / createVirtualServerEx do).  Input A is rendered, one object is replaced
// by a modified copy (as an update event does) giving input B, B is rendered by the same Configurator,
// and B is rendered by a fresh Configurator from pristine objects.  The files for B must not depend on
// whether A was rendered before, and no stored object may have been written to.

type HistoryObs struct {
	Scenario string            `json:"scenario"`
	A        []FileDigest      `json:"a"`
	BAfterA  []FileDigest      `json:"b_after_a"`
	BAgain   []FileDigest      `json:"b_again"`
	BFresh   []FileDigest      `json:"b_fresh"`
	AEqualsB bool              `json:"a_equals_b"` // the modification must be visible, else the case is trivial
	Diff     *Diff             `json:"diff,omitempty"`
	Mutated  []string          `json:"mutated,omitempty"`
	BFirst   map[string]string `json:"b_first,omitempty"` // files of the fresh rendering of B (compared across processes)
	Error    string            `json:"error,omitempty"`
	Panic    string            `json:"panic,omitempty"`
}

var historyScenarios = []struct{ name, kind string }{
	{"mergeable-master-annotation-changed", "mergeable"},
	{"mergeable-master-annotation-removed", "mergeable"},
	{"mergeable-minion-annotation-changed", "mergeable"},
	{"ingress-annotation-changed", "ingress"},
	{"vs-policy-rate-changed", "vs"},
	{"vs-secret-key-added", "vs"},
	{"vs-route-removed", "vs"},
	{"ts-upstream-changed", "ts"},
	// an App Protect resource deleted and re-created under its name (new UID, new spec, generation 1 again),
	// delivered as one update
	{"vs-appolicy-recreated", "vs"},
	{"vs-aplogconf-recreated", "vs"},
	{"ingress-appolicy-recreated", "ingress"},
	{"ingress-aplogconf-recreated", "ingress"},
}

var inheritable = [][3]string{ // annotation, value in A, value in B
	{"nginx.org/proxy-read-timeout", "33s", "44s"},
	{"nginx.org/proxy-connect-timeout", "11s", "12s"},
	{"nginx.org/client-max-body-size", "3m", "4m"},
	{"nginx.org/lb-method", "least_conn", "ip_hash"},
}

// historyStore builds input A of a scenario (a store of objects)
func historyStore(c *Case) configs.ExtendedResources {
	sc := historyScenarios[c.P["scenario"]%len(historyScenarios)]
	cc := *c
	cc.Kind = sc.kind
	if strings.Contains(sc.name, "-ap") {
		cc.P = map[string]int{}
		for k, v := range c.P {
			cc.P[k] = v
		}
		cc.P["waf"] = 1
	}
	res, _ := buildResources(&cc, 0)
	if sc.kind == "mergeable" {
		m := res.MergeableIngresses[0]
		for _, a := range inheritable {
			m.Master.Ingress.Annotations[a[0]] = a[1]
			for _, mn := range m.Minions {
				delete(mn.Ingress.Annotations, a[0])
			}
		}
	}
	return res
}

// historyUpdate turns input A into input B: ONE object is replaced by a modified deep copy, all other
// objects keep their identity
func historyUpdate(c *Case, res *configs.ExtendedResources) {
	sc := historyScenarios[c.P["scenario"]%len(historyScenarios)]
	switch sc.name {
	case "mergeable-master-annotation-changed":
		m := res.MergeableIngresses[0]
		ing := m.Master.Ingress.DeepCopy()
		for _, a := range inheritable {
			ing.Annotations[a[0]] = a[2]
		}
		m.Master.Ingress = ing
	case "mergeable-master-annotation-removed":
		m := res.MergeableIngresses[0]
		ing := m.Master.Ingress.DeepCopy()
		for _, a := range inheritable {
			delete(ing.Annotations, a[0])
		}
		m.Master.Ingress = ing
	case "mergeable-minion-annotation-changed":
		m := res.MergeableIngresses[0]
		ing := m.Minions[0].Ingress.DeepCopy()
		ing.Annotations["nginx.org/proxy-send-timeout"] = "55s"
		m.Minions[0].Ingress = ing
	case "ingress-annotation-changed":
		ex := res.IngressExes[0]
		ing := ex.Ingress.DeepCopy()
		ing.Annotations["nginx.org/proxy-read-timeout"] = "44s"
		ing.Annotations["nginx.org/proxy-hide-headers"] = "X-One,X-Two"
		ex.Ingress = ing
	case "vs-policy-rate-changed":
		ex := res.VirtualServerExes[0]
		for _, k := range sortedKeys(ex.Policies) {
			if ex.Policies[k].Spec.RateLimit != nil {
				pol := ex.Policies[k].DeepCopy()
				pol.Spec.RateLimit.Rate = "77r/s"
				pol.Spec.RateLimit.ZoneSize = "7M"
				ex.Policies[k] = pol
				break
			}
		}
	case "vs-secret-key-added":
		ex := res.VirtualServerExes[0]
		for _, k := range sortedKeys(ex.SecretRefs) {
			if ex.SecretRefs[k].Secret != nil && ex.SecretRefs[k].Secret.Type == secrets.SecretTypeAPIKey {
				sec := ex.SecretRefs[k].Secret.DeepCopy()
				sec.Data["client-added"] = []byte("key-added")
				ref := *ex.SecretRefs[k]
				ref.Secret = sec
				ex.SecretRefs[k] = &ref
				break
			}
		}
	case "vs-route-removed":
		ex := res.VirtualServerExes[0]
		vs := ex.VirtualServer.DeepCopy()
		vs.Spec.Routes = vs.Spec.Routes[1:]
		ex.VirtualServer = vs
	case "ts-upstream-changed":
		ex := res.TransportServerExes[0]
		ts := ex.TransportServer.DeepCopy()
		mf := 7
		ts.Spec.Upstreams[0].MaxFails = &mf
		ts.Spec.Upstreams[0].FailTimeout = "21s"
		ex.TransportServer = ts
	case "vs-appolicy-recreated":
		ex := res.VirtualServerExes[0]
		for _, k := range sortedKeys(ex.ApPolRefs) {
			ex.ApPolRefs[k] = apPolicy(ex.ApPolRefs[k].GetNamespace(), ex.ApPolRefs[k].GetName(), 2)
		}
	case "vs-aplogconf-recreated":
		ex := res.VirtualServerExes[0]
		for _, k := range sortedKeys(ex.LogConfRefs) {
			ex.LogConfRefs[k] = apLogConf(ex.LogConfRefs[k].GetNamespace(), ex.LogConfRefs[k].GetName(), 2)
		}
	case "ingress-appolicy-recreated":
		ex := res.IngressExes[0]
		ex.AppProtectPolicy = apPolicy(ex.AppProtectPolicy.GetNamespace(), ex.AppProtectPolicy.GetName(), 2)
	case "ingress-aplogconf-recreated":
		ex := res.IngressExes[0]
		logs := append([]configs.AppProtectLog(nil), ex.AppProtectLogs...)
		logs[0].LogConf = apLogConf(logs[0].LogConf.GetNamespace(), logs[0].LogConf.GetName(), 2)
		ex.AppProtectLogs = logs
	}
}

// updatedAPResource: in the App Protect scenarios, the resource the update event is about
func updatedAPResource(c *Case, res configs.ExtendedResources) *unstructured.Unstructured {
	switch historyScenarios[c.P["scenario"]%len(historyScenarios)].name {
	case "vs-appolicy-recreated":
		ex := res.VirtualServerExes[0]
		for _, k := range sortedKeys(ex.ApPolRefs) {
			return ex.ApPolRefs[k]
		}
	case "vs-aplogconf-recreated":
		ex := res.VirtualServerExes[0]
		for _, k := range sortedKeys(ex.LogConfRefs) {
			return ex.LogConfRefs[k]
		}
	case "ingress-appolicy-recreated":
		return res.IngressExes[0].AppProtectPolicy
	case "ingress-aplogconf-recreated":
		return res.IngressExes[0].AppProtectLogs[0].LogConf
	}
	return nil
}

// App Protect resources: incarnation 1 and 2 differ in UID and spec; both have generation 1
func apObject(kind, ns, name string, incarnation int, spec map[string]any) *unstructured.Unstructured {
	return &unstructured.Unstructured{Object: map[string]any{
		"apiVersion": "appprotect.f5.com/v1beta1", "kind": kind,
		"metadata": map[string]any{"namespace": ns, "name": name, "uid": fmt.Sprintf("uid-%s-%d", name, incarnation), "generation": int64(1)},
		"spec":     spec,
	}}
}

func apPolicy(ns, name string, incarnation int) *unstructured.Unstructured {
	mode := []string{"blocking", "transparent"}[(incarnation+1)%2]
	return apObject("APPolicy", ns, name, incarnation, map[string]any{"policy": map[string]any{
		"name": name, "template": map[string]any{"name": "POLICY_TEMPLATE_NGINX_BASE"}, "applicationLanguage": "utf-8", "enforcementMode": mode}})
}

func apLogConf(ns, name string, incarnation int) *unstructured.Unstructured {
	return apObject("APLogConf", ns, name, incarnation, map[string]any{
		"content": map[string]any{"format": "default", "max_message_size": fmt.Sprintf("%dk", 32*incarnation), "max_request_size": "any"},
		"filter":  map[string]any{"request_type": []string{"illegal", "all"}[(incarnation+1)%2]}})
}

// syncWrappers: fresh *Ex wrappers around the stored objects (the generator may replace the
// pointers inside the wrappers; the controller builds new wrappers for every sync)
func syncWrappers(res configs.ExtendedResources) configs.ExtendedResources {
	var out configs.ExtendedResources
	for _, ex := range res.IngressExes {
		c := *ex
		out.IngressExes = append(out.IngressExes, &c)
	}
	for _, m := range res.MergeableIngresses {
		ma := *m.Master
		mm := &configs.MergeableIngresses{Master: &ma}
		for _, mn := range m.Minions {
			c := *mn
			mm.Minions = append(mm.Minions, &c)
		}
		out.MergeableIngresses = append(out.MergeableIngresses, mm)
	}
	for _, ex := range res.VirtualServerExes {
		c := *ex
		out.VirtualServerExes = append(out.VirtualServerExes, &c)
	}
	for _, ex := range res.TransportServerExes {
		c := *ex
		out.TransportServerExes = append(out.TransportServerExes, &c)
	}
	return out
}

func digests(files map[string][]byte) []FileDigest {
	var out []FileDigest
	for _, n := range sortedKeys(files) {
		out = append(out, FileDigest{Name: n, Sha: shaHex(files[n])})
	}
	return out
}

func sameDigests(a, b []FileDigest) bool {
	if len(a) != len(b) {
		return false
	}
	for i := range a {
		if a[i] != b[i] {
			return false
		}
	}
	return true
}

func runHistory(c *Case) (obs HistoryObs) {
	defer func() {
		if e := recover(); e != nil {
			obs.Panic = fmt.Sprint(e)
		}
	}()
	obs.Scenario = historyScenarios[c.P["scenario"]%len(historyScenarios)].name
	render := func(cnf *configs.Configurator, mgr *recMgr, store configs.ExtendedResources) (map[string][]byte, error) {
		mgr.changed = false
		snaps := snapshot(store)
		w := syncWrappers(store)
		var err error
		if u := updatedAPResource(c, store); u != nil && c.P["via"] > 0 {
			// an App Protect resource event: the controller hands the resource and everything that references it over
			_, err = cnf.AddOrUpdateAppProtectResource(u, w.IngressExes, w.MergeableIngresses, w.VirtualServerExes)
		} else {
			_, err = cnf.AddOrUpdateResources(w, false)
		}
		if err != nil {
			return nil, err
		}
		obs.Mutated = addMutations(obs.Mutated, snaps)
		return mgr.disk(), nil // EVERY file on disk, not only what this call wrote
	}
	dir1 := filepath.Join(workDir, fmt.Sprintf("c09tmp-%d-%d-h1", os.Getpid(), c.ID))
	dir2 := filepath.Join(workDir, fmt.Sprintf("c09tmp-%d-%d-h2", os.Getpid(), c.ID))
	defer os.RemoveAll(dir1)
	defer os.RemoveAll(dir2)
	cnf1, mgr1, err := newConfigurator(dir1, c.Plus)
	if err != nil {
		obs.Error = err.Error()
		return
	}
	// long-running process: A, then B, then B again
	store := historyStore(c)
	fa, err := render(cnf1, mgr1, store)
	if err != nil {
		obs.Error = err.Error()
		return
	}
	historyUpdate(c, &store)
	fb, err := render(cnf1, mgr1, store)
	if err != nil {
		obs.Error = err.Error()
		return
	}
	fb2, err := render(cnf1, mgr1, store)
	if err != nil {
		obs.Error = err.Error()
		return
	}
	// freshly started process: pristine objects, B only
	cnf2, mgr2, err := newConfigurator(dir2, c.Plus)
	if err != nil {
		obs.Error = err.Error()
		return
	}
	pristine := historyStore(c)
	historyUpdate(c, &pristine)
	ff, err := render(cnf2, mgr2, pristine)
	if err != nil {
		obs.Error = err.Error()
		return
	}
	obs.A, obs.BAfterA, obs.BAgain, obs.BFresh = digests(fa), digests(fb), digests(fb2), digests(ff)
	obs.AEqualsB = sameDigests(obs.A, obs.BAfterA) && sameDigests(obs.A, obs.BFresh)
	obs.BFirst = map[string]string{}
	for n, b := range ff {
		obs.BFirst[n] = string(b)
	}
	for _, other := range []map[string][]byte{fb, fb2} {
		if obs.Diff != nil {
			break
		}
		for _, n := range sortedKeys(ff) {
			if string(ff[n]) != string(other[n]) {
				obs.Diff = firstDiff(1, n, ff[n], other[n])
				break
			}
		}
	}
	return
}

// ---------------------------------------------------------------- unit family

func sortedBindings(m [][2]string) [][2]string {
	out := append([][2]string(nil), m...)
	sort.Slice(out, func(i, j int) bool { return out[i][0] < out[j][0] })
	return out
}

func runUnit(c *Case) (obs UnitObs) {
	defer func() {
		if e := recover(); e != nil {
			obs.Panic = fmt.Sprint(e)
		}
	}()
	r := vh.NewRng(c.Seed)
	n := c.P["n"]
	var call func() []string
	switch c.Kind {
	case "generateAPIKeyClients":
		data := secretData(r, n)
		if c.P["near"] > 0 {
			data = secretDataNear(r, c.P["near"]-1)
			n = len(data)
		}
		keys := make([]string, 0, n)
		for k := range data {
			keys = append(keys, k)
		}
		sort.Strings(keys)
		for _, k := range keys {
			h := shaHex(data[k])
			obs.Bindings = append(obs.Bindings, [2]string{k, h})
			obs.Expect = append(obs.Expect, k+"="+h)
		}
		call = func() []string {
			fresh := make(map[string][]byte, n)
			for _, k := range keys {
				fresh[k] = data[k]
			}
			return configs.VerifC09APIKeyClients(fresh)
		}
	case "controller.Endpoints":
		// the Endpoints map of the VirtualServerEx the controller builds: per key the addresses, sorted (their order is
		// the generator's business) but NOT de-duplicated; expected: every address of the (labelled) pods once
		cc := *c
		cc.P = map[string]int{"ups": 2 + n%3, "eps": n, "sub": 2, "vsr": n % 2}
		k := getCtl(&cc)
		vs, vsrs := vsObjects(&cc)
		ups := append([]conf_v1.Upstream{}, vs.Spec.Upstreams...)
		for _, rt := range vsrs {
			ups = append(ups, rt.Spec.Upstreams...)
		}
		exp := map[string]string{}
		for _, u := range ups {
			w := k.want[u.Service]
			if len(u.Subselector) > 0 {
				w = k.want[u.Service+"|sub"]
			}
			exp[configs.GenerateEndpointsKey(vs.Namespace, u.Service, u.Subselector, u.Port)] = strings.Join(w, ",")
		}
		for _, key := range sortedKeys(exp) {
			obs.Bindings = append(obs.Bindings, [2]string{key, exp[key]})
			obs.Expect = append(obs.Expect, key+"="+exp[key])
		}
		obs.Aux = obs.Expect
		call = func() []string {
			ex := k.v.CreateVirtualServerEx(vs, vsrs)
			var out []string
			for _, key := range sortedKeys(ex.Endpoints) {
				a := append([]string(nil), ex.Endpoints[key]...)
				sort.Strings(a)
				out = append(out, key+"="+strings.Join(a, ","))
			}
			return out
		}
	case "GenerateEndpointsKey":
		sub := subselector(r, n)
		for _, k := range sortedKeys(sub) {
			obs.Bindings = append(obs.Bindings, [2]string{k, sub[k]})
		}
		call = func() []string {
			fresh := make(map[string]string, len(sub))
			for _, kv := range obs.Bindings {
				fresh[kv[0]] = kv[1]
			}
			return []string{configs.GenerateEndpointsKey("default", "tea-svc", fresh, 80)}
		}
		obs.Expect = call()
	case "upstreamMapToSlice":
		var names []string
		for i := 0; i < n; i++ {
			names = append(names, fmt.Sprintf("default-cafe-%s-%d", words[r.Intn(len(words))], i))
		}
		if c.P["near"] > 0 {
			names = append([]string(nil), nearKeySets[(c.P["near"]-1)%len(nearKeySets)]...)
		}
		sort.Strings(names)
		for _, k := range names {
			obs.Bindings = append(obs.Bindings, [2]string{k, "up-" + k})
			obs.Expect = append(obs.Expect, "up-"+k)
		}
		call = func() []string { return configs.VerifC09UpstreamMapToSlice(names) }
	case "filterMasterAnnotations", "filterMinionAnnotations", "filterMasterAnnotations.map", "filterMinionAnnotations.map":
		master := strings.HasPrefix(c.Kind, "filterMaster")
		wantMap := strings.HasSuffix(c.Kind, ".map")
		md, mi, _ := configs.VerifC09AnnotationTables()
		deny := md
		if !master {
			deny = mi
		}
		var ann [][2]string
		for i := 0; i < n && i < len(deny); i++ {
			ann = append(ann, [2]string{deny[(i*3+int(c.Seed%7))%len(deny)], fmt.Sprintf("v%d", i)})
		}
		ann = append(ann, [2]string{"nginx.org/proxy-connect-timeout", "5s"}, [2]string{"example.com/other", "x"})
		seenK := map[string]bool{}
		var uniq [][2]string
		for _, kv := range ann {
			if !seenK[kv[0]] {
				seenK[kv[0]] = true
				uniq = append(uniq, kv)
			}
		}
		uniq = sortedBindings(uniq)
		obs.Bindings = uniq
		obs.Aux = deny
		denied := map[string]bool{}
		for _, d := range deny {
			denied[d] = true
		}
		for _, kv := range uniq {
			if wantMap != denied[kv[0]] {
				if wantMap {
					obs.Expect = append(obs.Expect, kv[0]+"="+kv[1])
				} else {
					obs.Expect = append(obs.Expect, kv[0])
				}
			}
		}
		call = func() []string {
			rem, left := configs.VerifC09FilterAnnotations(master, uniq)
			if wantMap {
				return left
			}
			return rem
		}
	case "mergeMasterAnnotationsIntoMinion":
		_, _, inh := configs.VerifC09AnnotationTables()
		var masterAnn, minionAnn [][2]string
		for i := 0; i < n && i < len(inh); i++ {
			masterAnn = append(masterAnn, [2]string{inh[i], fmt.Sprintf("m%d", i)})
			if i%3 == 0 {
				minionAnn = append(minionAnn, [2]string{inh[i], fmt.Sprintf("own%d", i)})
			}
		}
		masterAnn = append(masterAnn, [2]string{"nginx.org/hsts", "true"}, [2]string{"example.com/x", "1"})
		minionAnn = append(minionAnn, [2]string{"example.com/y", "2"})
		masterAnn, minionAnn = sortedBindings(masterAnn), sortedBindings(minionAnn)
		obs.Bindings = masterAnn
		obs.Aux, obs.Aux2 = inh, minionAnn
		obs.Expect = configs.VerifC09MergeMasterIntoMinion(minionAnn, masterAnn)
		call = func() []string { return configs.VerifC09MergeMasterIntoMinion(minionAnn, masterAnn) }
	case "generateTLSPassthroughHostsConfig":
		var pairs [][3]string
		for i := 0; i < n; i++ {
			k := fmt.Sprintf("default/ts-%02d", i)
			pairs = append(pairs, [3]string{k, fmt.Sprintf("app%d.example.com", i), fmt.Sprintf("unix:/var/lib/nginx/passthrough-default_ts-%02d.sock", i)})
			obs.Bindings = append(obs.Bindings, [2]string{k, pairs[i][1] + "=" + pairs[i][2]})
			obs.Expect = append(obs.Expect, pairs[i][1]+"="+pairs[i][2])
		}
		sort.Strings(obs.Expect)
		call = func() []string { return configs.VerifC09TLSPassthroughHosts(pairs) }
	case "GenerateVirtualServerConfig", "generatePolicies":
		// order of the map blocks of the real VirtualServerConfig
		p := map[string]int{"ups": 4, "keys": 2, "akp": n}
		if c.Kind == "generatePolicies" {
			p = map[string]int{"ups": 2, "claims": n, "tiers": 2}
		}
		ctx := nl.ContextWithLogger(context.Background(), quiet)
		cp := configs.NewDefaultConfigParams(ctx, true)
		proj := func() []string {
			hs, _, _ := configs.VerifC09VSMaps(buildVS(vh.NewRng(c.Seed), p), cp, true)
			var out []string
			for _, h := range hs {
				if c.Kind == "GenerateVirtualServerConfig" && strings.HasPrefix(h, "$apikey_auth_token ") {
					out = append(out, h)
				}
				if c.Kind == "generatePolicies" && strings.Contains(h, "_group_") && strings.HasPrefix(h, "$jwt_") {
					out = append(out, h)
				}
			}
			return out
		}
		one := proj()
		sorted := append([]string(nil), one...)
		sort.Slice(sorted, func(i, j int) bool {
			return strings.SplitN(sorted[i], " ", 2)[1] < strings.SplitN(sorted[j], " ", 2)[1]
		})
		for _, h := range sorted {
			obs.Bindings = append(obs.Bindings, [2]string{strings.SplitN(h, " ", 2)[1], h})
			obs.Expect = append(obs.Expect, h)
		}
		call = proj
	default:
		obs.Error = "unknown unit kind " + c.Kind
		return
	}
	idx := map[string]int{}
	for i := 0; i < c.Rounds; i++ {
		o := call()
		k := strings.Join(o, "\x00")
		j, ok := idx[k]
		if !ok {
			j = len(obs.Outs)
			idx[k] = j
			if o == nil {
				o = []string{}
			}
			obs.Outs = append(obs.Outs, o)
			obs.Counts = append(obs.Counts, 0)
		}
		obs.Counts[j]++
	}
	return
}

// ---------------------------------------------------------------- generation of cases

func b2i(b bool) int {
	if b {
		return 1
	}
	return 0
}

func genCases(a vh.Args) []Case {
	rng := vh.NewRng(a.Seed)
	rounds := 60
	var cs []Case
	add := func(fam, kind string, plus bool, p map[string]int, rnds int) {
		id := len(cs)
		cs = append(cs, Case{ID: id, Fam: fam, Kind: kind, Plus: plus, Seed: rng.Fork(uint64(id)).U64(), P: p, Rounds: rnds})
	}
	// the fixed corner cases the property text names
	add("render", "vs", true, map[string]int{"ups": 2, "keys": 5, "akp": 1}, rounds)                                           // Secret data with several keys
	add("render", "vs", false, map[string]int{"ups": 2, "keys": 12, "akp": 1}, rounds)                                         // more than one bucket
	add("render", "vs", true, map[string]int{"ups": 4, "keys": 1, "akp": 5}, rounds)                                           // several API-key policies in different scopes
	add("render", "vs", true, map[string]int{"ups": 3, "keys": 1, "akp": 2, "vsr": 3}, rounds)                                 // ... incl. VirtualServerRoute subroutes
	add("render", "vs", true, map[string]int{"ups": 2, "claims": 4, "tiers": 2}, rounds)                                       // tiered rate-limit groups, several claims
	add("render", "vs", true, map[string]int{"ups": 3, "claims": 3, "tiers": 3, "rlroute": 1}, rounds)                         // ... in two scopes
	add("render", "vs", true, map[string]int{"ups": 5, "eps": 3, "hdr": 4, "mix": 1}, rounds)                                  // header lists, upstreams, endpoints, splits, matches
	add("render", "vs", false, map[string]int{"ups": 5, "eps": 3, "hdr": 4, "mix": 1}, rounds)                                 //
	add("render", "ingress", false, map[string]int{"svcs": 5, "eps": 2, "ann": 12, "svcann": 1}, rounds)                       // Ingress with several services/annotations
	add("render", "ingress", true, map[string]int{"svcs": 4, "eps": 2, "ann": 12, "svcann": 1, "hc": 1}, rounds)               // health checks map
	add("render", "mergeable", false, map[string]int{"svcs": 3, "eps": 1, "ann": 10, "minions": 3, "deny": 1}, rounds)         // master/minion annotation filters
	add("render", "mergeable", true, map[string]int{"svcs": 3, "eps": 1, "ann": 10, "minions": 3, "deny": 1, "hc": 1}, rounds) //
	add("render", "ts", false, map[string]int{"n": 1, "ups": 5, "eps": 3}, rounds)                                             // TS with several upstreams
	add("render", "ts", true, map[string]int{"n": 5, "ups": 2, "eps": 1, "pt": 1}, rounds)                                     // TLS passthrough host map with 5 entries
	// App Protect: WAF policy with an APPolicy and an APLogConf (the policy / log-conf files are files too)
	add("render", "vs", true, map[string]int{"ups": 2, "eps": 1, "waf": 1, "reuse": 1}, rounds)
	add("render", "ingress", true, map[string]int{"svcs": 2, "eps": 1, "ann": 4, "waf": 1}, rounds)
	// lists with repeated entries, the same object values rendered again and again (no re-creation, no deep copy)
	add("render", "vs", false, map[string]int{"ups": 4, "eps": 1, "hdr": 3, "dup": 1, "mix": 1, "reuse": 1}, rounds)
	add("render", "vs", true, map[string]int{"ups": 3, "eps": 1, "hdr": 2, "dup": 1, "akp": 2, "keys": 3, "claims": 2, "tiers": 2, "vsr": 1, "reuse": 1}, rounds)
	add("render", "vs", true, map[string]int{"ups": 2, "hdr": 1, "dup": 1}, rounds)
	add("render", "ingress", false, map[string]int{"svcs": 3, "eps": 1, "ann": 8, "dup": 1, "svcann": 1, "reuse": 1}, rounds)
	add("render", "mergeable", true, map[string]int{"svcs": 2, "eps": 1, "ann": 8, "minions": 2, "deny": 1, "dup": 1, "reuse": 1}, rounds)
	add("render", "ts", false, map[string]int{"n": 2, "ups": 3, "eps": 1, "reuse": 1}, rounds)
	add("render", "vsctl", true, map[string]int{"ups": 3, "eps": 1, "sub": 2, "hdr": 2, "dup": 1, "reuse": 1}, rounds)
	// names near / over identifier limits (namespace 56 + name 100 characters), compared across processes
	add("render", "vs", false, map[string]int{"ups": 3, "eps": 1, "mix": 1, "hdr": 1, "long": 1}, rounds)
	add("render", "vs", true, map[string]int{"ups": 2, "mix": 1, "akp": 2, "keys": 2, "claims": 2, "tiers": 2, "long": 1, "reuse": 1}, rounds)
	add("render", "vsctl", true, map[string]int{"ups": 2, "eps": 1, "sub": 2, "mix": 1, "long": 1}, rounds)
	// cert-manager on: a VirtualServer and 2-3 solver Ingresses for its host through the real Configuration; unchanged objects re-delivered every round
	add("render", "cmresync", false, map[string]int{"ups": 2, "eps": 1, "solvers": 2}, rounds)
	add("render", "cmresync", true, map[string]int{"ups": 3, "eps": 1, "solvers": 3, "mix": 1}, rounds)
	add("render", "cmresync", false, map[string]int{"ups": 2, "solvers": 4}, rounds)
	// Ingress and TransportServer through the controller too (endpoint sets spread over several EndpointSlices)
	add("render", "ingctl", false, map[string]int{"svcs": 3, "eps": 1, "ann": 4}, rounds)
	add("render", "ingctl", true, map[string]int{"svcs": 2, "eps": 2, "ann": 6, "svcann": 1}, rounds)
	add("render", "tsctl", false, map[string]int{"ups": 3, "eps": 1}, rounds)
	add("render", "tsctl", true, map[string]int{"ups": 2, "eps": 2}, rounds)
	// upstreams selected by 2-4 subselector labels: endpoint sets keyed by GenerateEndpointsKey, as the controller does,
	// and the whole way through the controller's createVirtualServerEx
	add("render", "vs", false, map[string]int{"ups": 4, "eps": 2, "sub": 2, "vsr": 1, "akp": 1, "keys": 2}, rounds)
	add("render", "vs", true, map[string]int{"ups": 3, "eps": 1, "sub": 4}, rounds)
	add("render", "vsctl", false, map[string]int{"ups": 3, "eps": 1, "sub": 3, "vsr": 1}, rounds)
	add("render", "vsctl", true, map[string]int{"ups": 4, "eps": 2, "sub": 2, "hdr": 1}, rounds)
	add("render", "vsctl", false, map[string]int{"ups": 2, "eps": 0, "sub": 4, "mix": 1}, rounds)
	for k := 1; k <= 6; k++ { // API-key Secrets whose client ids collide under case folding / trimming / separator folding
		add("render", "vs", k%2 == 0, map[string]int{"ups": 2, "akp": 1 + k%3, "near": k}, rounds)
	}
	// generated variations
	nGen := a.N
	for i := 0; i < nGen; i++ {
		r := rng.Fork(uint64(1000 + i))
		switch r.Intn(8) {
		case 0, 1, 2, 3:
			p := map[string]int{"ups": 2 + r.Intn(4), "eps": r.Intn(3), "keys": 1 + r.Intn(9), "akp": r.Intn(5),
				"claims": r.Intn(4), "tiers": 2 + r.Intn(2), "rlroute": r.Intn(2), "vsr": r.Intn(3), "hdr": r.Intn(4), "mix": r.Intn(2),
				"sub": r.Intn(5), "dup": r.Intn(2), "reuse": r.Intn(2)}
			if r.Chance(1, 4) {
				p["long"], p["mix"] = 1, 1
			}
			if r.Chance(1, 5) {
				add("render", "vsctl", r.Bool(), map[string]int{"ups": 2 + r.Intn(3), "eps": r.Intn(3), "sub": 2 + r.Intn(3), "vsr": r.Intn(2), "hdr": r.Intn(3), "mix": r.Intn(2)}, rounds)
				continue
			}
			if p["vsr"] > 0 && p["akp"] == 0 {
				p["akp"] = 1
			}
			add("render", "vs", r.Chance(3, 4), p, rounds)
		case 4:
			add("render", "ingress", r.Bool(), map[string]int{"svcs": 2 + r.Intn(5), "eps": r.Intn(3), "ann": 2 + r.Intn(14), "svcann": r.Intn(2), "hc": r.Intn(2), "dup": r.Intn(2), "reuse": r.Intn(2)}, rounds)
		case 5:
			add("render", "mergeable", r.Bool(), map[string]int{"svcs": 2 + r.Intn(3), "eps": r.Intn(2), "ann": 2 + r.Intn(12), "minions": 2 + r.Intn(3), "deny": r.Intn(2), "hc": r.Intn(2), "dup": r.Intn(2), "reuse": r.Intn(2)}, rounds)
		case 6:
			add("render", "ts", r.Bool(), map[string]int{"n": 1 + r.Intn(2), "ups": 2 + r.Intn(5), "eps": r.Intn(3)}, rounds)
		case 7:
			add("render", "ts", r.Bool(), map[string]int{"n": 2 + r.Intn(5), "ups": 2, "eps": r.Intn(2), "pt": 1}, rounds)
		}
	}
	// unit family: every map-ranging function that can be called on its own
	urounds := 400
	for _, k := range []string{"generateAPIKeyClients", "upstreamMapToSlice", "filterMasterAnnotations", "filterMasterAnnotations.map",
		"filterMinionAnnotations", "filterMinionAnnotations.map", "mergeMasterAnnotationsIntoMinion", "generateTLSPassthroughHostsConfig"} {
		for _, n := range []int{2, 4, 7, 13} {
			add("unit", k, false, map[string]int{"n": n}, urounds)
		}
	}
	for k := 1; k <= len(nearKeySets); k++ { // the real comparator must distinguish near-duplicate keys
		add("unit", "generateAPIKeyClients", false, map[string]int{"n": len(nearKeySets[k-1]), "near": k}, urounds)
		add("unit", "upstreamMapToSlice", false, map[string]int{"n": len(nearKeySets[k-1]), "near": k}, urounds)
	}
	for _, n := range []int{2, 3, 4, 6} {
		add("unit", "GenerateEndpointsKey", false, map[string]int{"n": n}, urounds)
	}
	for _, n := range []int{1, 2, 3} {
		add("unit", "controller.Endpoints", n%2 == 0, map[string]int{"n": n}, urounds)
	}
	for _, n := range []int{2, 4, 5} {
		add("unit", "GenerateVirtualServerConfig", true, map[string]int{"n": n}, urounds)
	}
	for _, n := range []int{2, 3, 4} {
		add("unit", "generatePolicies", true, map[string]int{"n": n}, urounds)
	}
	// history family: every scenario on both template sets, plus generated sizes
	for sc := range historyScenarios {
		for _, plus := range []bool{false, true} {
			add("history", historyScenarios[sc].kind, plus, map[string]int{"scenario": sc, "svcs": 3, "eps": 1, "ann": 8, "minions": 3, "deny": 1,
				"ups": 3, "keys": 3, "akp": 2, "claims": 2, "tiers": 2, "n": 2, "hdr": 2, "dup": 1, "long": sc % 2, "via": b2i(plus)}, 1)
		}
	}
	// batch versus single: every batch entry point of the Configurator, 3 VirtualServers (the first with an OIDC policy)
	for e := range batchEntries {
		add("history", "batch", true, map[string]int{"entry": e, "nvs": 3, "ups": 2, "eps": 1, "hdr": 1, "svcs": 2, "ann": 3, "n": 1}, 1)
	}
	add("history", "batch", false, map[string]int{"entry": 0, "nvs": 2, "ups": 2, "svcs": 2, "ann": 3, "n": 1}, 1)
	// settings histories: every custom-template key x every sequence, alternating template sets
	for key := range templateKeys {
		for sq := range configSequences {
			add("history", "config", (key+sq)%2 == 0, map[string]int{"key": key, "seq": sq, "plain": (key + sq) % 4}, 1)
		}
	}
	for i := 0; i < a.N/4; i++ {
		r := rng.Fork(uint64(5000 + i))
		sc := r.Intn(len(historyScenarios))
		add("history", historyScenarios[sc].kind, r.Bool(), map[string]int{"scenario": sc, "svcs": 2 + r.Intn(3), "eps": r.Intn(2), "ann": 2 + r.Intn(12),
			"minions": 1 + r.Intn(4), "deny": r.Intn(2), "hc": r.Intn(2), "ups": 2 + r.Intn(3), "keys": 1 + r.Intn(5), "akp": 1 + r.Intn(3),
			"claims": 1 + r.Intn(2), "tiers": 2, "n": 1 + r.Intn(3), "hdr": r.Intn(3), "near": r.Intn(4)}, 1)
	}
	return cs
}

func main() {
	repo := flag.String("repo", "", "repository root (templates are read from there)")
	a := vh.ParseArgs()
	repoRoot = *repo
	if repoRoot == "" {
		repoRoot = os.Getenv("VERIF_REPO")
	}
	if repoRoot == "" {
		repoRoot = "/repo"
	}
	workDir = os.Getenv("VERIF_WORK")
	if workDir == "" {
		workDir = "."
	}
	var cs []Case
	if a.Replay != "" {
		if err := vh.ReadReplay(a.Replay, &cs); err != nil {
			fmt.Fprintln(os.Stderr, "c09: cannot read replay:", err)
			os.Exit(2)
		}
	} else {
		cs = genCases(a)
	}
	w, err := vh.NewWriter(a.Out)
	if err != nil {
		fmt.Fprintln(os.Stderr, err)
		os.Exit(2)
	}
	defer w.Close()
	for i := range cs {
		c := &cs[i]
		if c.Rounds <= 0 {
			c.Rounds = 60
		}
		switch c.Fam {
		case "render":
			c.Obs = runRender(c)
		case "unit":
			c.Obs = runUnit(c)
		case "history":
			if c.Kind == "config" {
				c.Obs = runConfigHistory(c)
			} else if c.Kind == "batch" {
				c.Obs = runBatch(c)
			} else {
				c.Obs = runHistory(c)
			}
		default:
			c.Obs = map[string]string{"error": "unknown family " + c.Fam}
		}
		w.Emit(c)
	}
}
