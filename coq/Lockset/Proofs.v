(* C18 -- soundness of the lock discipline, for all programs and all interleavings. *)
From Coq Require Import List String Bool Arith Lia.
From NIC Require Import Lockset.Model.
Import ListNotations.
Open Scope string_scope.
Open Scope list_scope.

(* ---------- boolean equalities ---------- *)

Lemma mode_eqb_eq a b : mode_eqb a b = true <-> a = b.
Proof. destruct a, b; simpl; split; intro H; try reflexivity; discriminate. Qed.

Lemma hold_eqb_eq a b : hold_eqb a b = true <-> a = b.
Proof.
  destruct a as [l m], b as [l' m']. unfold hold_eqb. simpl.
  rewrite andb_true_iff, String.eqb_eq, mode_eqb_eq. split.
  - intros [-> ->]. reflexivity.
  - intros H. inversion H. auto.
Qed.

Lemma holder_eqb_eq a b : holder_eqb a b = true <-> a = b.
Proof.
  destruct a as [[i l] m], b as [[i' l'] m']. unfold holder_eqb, h_tid, h_lock, h_mode. simpl.
  rewrite !andb_true_iff, Nat.eqb_eq, String.eqb_eq, mode_eqb_eq. split.
  - intros [[-> ->] ->]. reflexivity.
  - intros H. inversion H. auto.
Qed.

Lemma holder_eqb_refl a : holder_eqb a a = true.
Proof. apply holder_eqb_eq. reflexivity. Qed.

Lemma hold_eqb_refl a : hold_eqb a a = true.
Proof. apply hold_eqb_eq. reflexivity. Qed.

Lemma In_remove1 {A} (eqb : A -> A -> bool) x y l : In y (remove1 eqb x l) -> In y l.
Proof.
  induction l as [|z l IH]; simpl; auto.
  destruct (eqb x z); simpl; intros H; auto. destruct H; auto.
Qed.

(* ---------- projection of the global holder multiset on one goroutine ---------- *)

Definition proj (i : nat) (hs : list holder) : list hold :=
  map (fun h => (h_lock h, h_mode h)) (filter (fun h => Nat.eqb (h_tid h) i) hs).

Lemma In_proj i l m hs : In (l, m) (proj i hs) <-> In (i, l, m) hs.
Proof.
  unfold proj. rewrite in_map_iff. split.
  - intros [[[j l'] m'] [E H]]. apply filter_In in H. destruct H as [H T].
    unfold h_tid, h_lock, h_mode in *. simpl in *. apply Nat.eqb_eq in T. inversion E. subst. exact H.
  - intros H. exists (i, l, m). split; [reflexivity|]. apply filter_In. split; [exact H|].
    unfold h_tid. simpl. apply Nat.eqb_refl.
Qed.

Lemma proj_cons_same i l m hs : proj i ((i, l, m) :: hs) = (l, m) :: proj i hs.
Proof. unfold proj. simpl. unfold h_tid at 1. simpl. rewrite Nat.eqb_refl. reflexivity. Qed.

Lemma proj_cons_other i j l m hs : j <> i -> proj i ((j, l, m) :: hs) = proj i hs.
Proof.
  intros N. unfold proj. simpl. unfold h_tid at 1. simpl.
  destruct (Nat.eqb j i) eqn:E; [apply Nat.eqb_eq in E; contradiction|reflexivity].
Qed.

Lemma proj_remove_same i l m hs :
  proj i (remove1 holder_eqb (i, l, m) hs) = remove1 hold_eqb (l, m) (proj i hs).
Proof.
  induction hs as [|h hs IH]; [reflexivity|]. simpl.
  destruct (holder_eqb (i, l, m) h) eqn:E.
  - apply holder_eqb_eq in E. subst h. rewrite proj_cons_same. simpl. rewrite hold_eqb_refl. reflexivity.
  - destruct h as [[j l'] m']. destruct (Nat.eq_dec j i) as [->|N].
    + rewrite !proj_cons_same. simpl.
      destruct (hold_eqb (l, m) (l', m')) eqn:E2.
      * apply hold_eqb_eq in E2. inversion E2. subst. rewrite holder_eqb_refl in E. discriminate.
      * rewrite IH. reflexivity.
    + rewrite !proj_cons_other by assumption. exact IH.
Qed.

Lemma proj_remove_other i j l m hs :
  j <> i -> proj i (remove1 holder_eqb (j, l, m) hs) = proj i hs.
Proof.
  intros N. induction hs as [|h hs IH]; [reflexivity|]. simpl.
  destruct (holder_eqb (j, l, m) h) eqn:E.
  - apply holder_eqb_eq in E. subst h. rewrite proj_cons_other by assumption. reflexivity.
  - destruct h as [[k l'] m']. destruct (Nat.eq_dec k i) as [->|N2].
    + rewrite !proj_cons_same. rewrite IH. reflexivity.
    + rewrite !proj_cons_other by assumption. exact IH.
Qed.

Lemma proj_apply_same i hs e : proj i (apply_ev hs i e) = upd (proj i hs) e.
Proof.
  destruct e; simpl; try reflexivity;
    try apply proj_cons_same; apply proj_remove_same.
Qed.

Lemma proj_apply_other i j hs e : j <> i -> proj i (apply_ev hs j e) = proj i hs.
Proof.
  intros N. destruct e; simpl; try reflexivity;
    try (apply proj_cons_other; assumption); apply proj_remove_other; assumption.
Qed.

(* ---------- set_nth ---------- *)

Lemma set_nth_length {A} i (x : A) l : List.length (set_nth i x l) = List.length l.
Proof.
  revert i. induction l as [|y l IH]; intros i; destruct i; simpl; try reflexivity.
  rewrite IH. reflexivity.
Qed.

Lemma nth_error_set_nth_same {A} i (x y : A) l :
  nth_error l i = Some y -> nth_error (set_nth i x l) i = Some x.
Proof.
  revert i. induction l as [|z l IH]; intros i H; destruct i; simpl in *; try discriminate; auto.
Qed.

Lemma nth_error_set_nth_other {A} i j (x : A) l :
  i <> j -> nth_error (set_nth i x l) j = nth_error l j.
Proof.
  revert i j. induction l as [|z l IH]; intros i j N; destruct i, j; simpl; try reflexivity;
    try contradiction. apply IH. lia.
Qed.

(* ---------- invariant 1: the dynamic holders of a goroutine are what the static scan of its
   executed prefix says ---------- *)

Definition inv1 (p : prog) (s : state) : Prop :=
  List.length (rem s) = List.length p /\
  forall i t, nth_error p i = Some t ->
    exists pre r, nth_error (rem s) i = Some r /\ t = pre ++ r /\ proj i (holders s) = scan pre.

Lemma scan_snoc pre e : scan (pre ++ [e]) = upd (scan pre) e.
Proof. unfold scan. rewrite fold_left_app. reflexivity. Qed.

Lemma inv1_init p : inv1 p (init p).
Proof.
  split; [reflexivity|]. intros i t H. exists [], t. simpl. auto.
Qed.

Lemma inv1_step p s k e s' : inv1 p s -> step s k e s' -> inv1 p s'.
Proof.
  intros [L I] St. inversion St as [s0 k0 e0 t' Hk En]. subst. split.
  - simpl. rewrite set_nth_length. exact L.
  - intros i t Hi. destruct (I i t Hi) as [pre [r [Hr [Ht Hp]]]]. simpl.
    destruct (Nat.eq_dec k i) as [->|N].
    + rewrite Hk in Hr. inversion Hr. subst r.
      exists (pre ++ [e]), t'. split; [eapply nth_error_set_nth_same; eassumption|]. split.
      * rewrite <- app_assoc. exact Ht.
      * rewrite proj_apply_same, scan_snoc, Hp. reflexivity.
    + exists pre, r. split; [rewrite nth_error_set_nth_other by assumption; exact Hr|]. split; [exact Ht|].
      rewrite proj_apply_other by assumption. exact Hp.
Qed.

(* ---------- invariant 2: an exclusive holder is the only holder ---------- *)

Definition inv2 (hs : list holder) : Prop :=
  forall i j l m, In (i, l, Ex) hs -> In (j, l, m) hs -> i = j.

Lemma lock_free_spec l hs : lock_free l hs = true -> forall j m, ~ In (j, l, m) hs.
Proof.
  unfold lock_free. rewrite forallb_forall. intros H j m HI. specialize (H _ HI).
  unfold h_lock in H. simpl in H. rewrite String.eqb_refl in H. discriminate.
Qed.

Lemma no_writer_spec l hs : no_writer l hs = true -> forall j, ~ In (j, l, Ex) hs.
Proof.
  unfold no_writer. rewrite forallb_forall. intros H j HI. specialize (H _ HI).
  unfold h_lock, h_mode in H. simpl in H. rewrite String.eqb_refl in H. discriminate.
Qed.

Lemma inv2_apply hs k e : inv2 hs -> enabled hs k e = true -> inv2 (apply_ev hs k e).
Proof.
  intros I En. destruct e as [l|l|l|l|x|x]; simpl in *; try exact I.
  - (* Acq *) intros i j l' m [E1|H1] [E2|H2].
    + inversion E1; inversion E2; subst; reflexivity.
    + inversion E1; subst. exfalso. eapply lock_free_spec; eassumption.
    + inversion E2; subst. exfalso. eapply lock_free_spec; eassumption.
    + eapply I; eassumption.
  - (* Rel *) intros i j l' m H1 H2. apply In_remove1 in H1. apply In_remove1 in H2. eapply I; eassumption.
  - (* AcqR *) intros i j l' m [E1|H1] [E2|H2].
    + inversion E1.
    + inversion E1.
    + inversion E2; subst. exfalso. eapply no_writer_spec; eassumption.
    + eapply I; eassumption.
  - (* RelR *) intros i j l' m H1 H2. apply In_remove1 in H1. apply In_remove1 in H2. eapply I; eassumption.
Qed.

Lemma reachable_inv p s : reachable p s -> inv1 p s /\ inv2 (holders s).
Proof.
  induction 1 as [|s i e s' R [I1 I2] St].
  - split; [apply inv1_init|]. intros i j l m [].
  - split; [eapply inv1_step; eassumption|].
    inversion St; subst. simpl. apply inv2_apply; assumption.
Qed.

(* ---------- static accesses ---------- *)

Lemma accesses_from_mid h pre e r x w :
  (e = Rd x /\ w = false) \/ (e = Wr x /\ w = true) ->
  In (mkAccess x w (fold_left upd pre h)) (accesses_from h (pre ++ e :: r)).
Proof.
  intros He. revert h. induction pre as [|e0 pre IH]; intros h; simpl.
  - apply in_or_app. left. destruct He as [[-> ->]|[-> ->]]; simpl; auto.
  - apply in_or_app. right. apply IH.
Qed.

Lemma access_of_head pre e r x :
  ev_loc e = Some x ->
  In (mkAccess x (ev_write e) (scan pre)) (accesses (pre ++ e :: r)).
Proof.
  intros H. unfold accesses, scan. apply accesses_from_mid.
  destruct e; simpl in H; try discriminate; inversion H; subst; simpl; auto.
Qed.

(* ---------- common_lock ---------- *)

Lemma common_lock_spec h1 h2 :
  common_lock h1 h2 = true <->
  exists l m1 m2, In (l, m1) h1 /\ In (l, m2) h2 /\ (m1 = Ex \/ m2 = Ex).
Proof.
  unfold common_lock. rewrite existsb_exists. split.
  - intros [[l m1] [H1 H]]. apply existsb_exists in H. destruct H as [[l' m2] [H2 H]].
    simpl in H. apply andb_true_iff in H. destruct H as [E M]. apply String.eqb_eq in E. subst l'.
    exists l, m1, m2. split; [exact H1|]. split; [exact H2|].
    apply orb_true_iff in M. destruct M as [M|M]; apply mode_eqb_eq in M; auto.
  - intros [l [m1 [m2 [H1 [H2 M]]]]]. exists (l, m1). split; [exact H1|].
    apply existsb_exists. exists (l, m2). split; [exact H2|]. simpl.
    rewrite String.eqb_refl. simpl. apply orb_true_iff.
    destruct M as [->| ->]; [left|right]; reflexivity.
Qed.

Lemma common_lock_sym h1 h2 : common_lock h1 h2 = common_lock h2 h1.
Proof.
  apply eq_true_iff_eq. rewrite !common_lock_spec. split;
    intros [l [m1 [m2 [H1 [H2 M]]]]]; exists l, m2, m1; (split; [exact H2|]); (split; [exact H1|]); tauto.
Qed.

Lemma holds_at_least_spec h l m :
  holds_at_least h l m = true <-> In (l, Ex) h \/ (m = Sh /\ In (l, Sh) h).
Proof.
  unfold holds_at_least. rewrite orb_true_iff, andb_true_iff, mode_eqb_eq, !existsb_exists. split.
  - intros [[a [H E]]|[M [a [H E]]]]; apply hold_eqb_eq in E; subst a; auto.
  - intros [H|[M H]]; [left|right; split; [exact M|]]; eexists; (split; [exact H|apply hold_eqb_refl]).
Qed.

(* rows that claim no more than what is held: a common lock of the claims is a common lock *)
Lemma common_lock_mono H1 H2 h1 h2 :
  (forall l m, In (l, m) H1 -> holds_at_least h1 l m = true) ->
  (forall l m, In (l, m) H2 -> holds_at_least h2 l m = true) ->
  common_lock H1 H2 = true -> common_lock h1 h2 = true.
Proof.
  intros C1 C2 H. apply common_lock_spec in H. destruct H as [l [m1 [m2 [I1 [I2 M]]]]].
  apply C1 in I1. apply C2 in I2. apply holds_at_least_spec in I1. apply holds_at_least_spec in I2.
  apply common_lock_spec.
  destruct I1 as [I1|[E1 I1]]; destruct I2 as [I2|[E2 I2]].
  - exists l, Ex, Ex. auto.
  - exists l, Ex, Sh. auto.
  - exists l, Sh, Ex. auto.
  - subst. destruct M; discriminate.
Qed.

(* ---------- the core: a race state exhibits two statically visible accesses whose lock
   contexts share no lock held exclusively by one of them ---------- *)

Lemma race_has_unlocked_accesses p s x i j :
  reachable p s -> race_between s x i j ->
  exists ti tj a1 a2,
    nth_error p i = Some ti /\ nth_error p j = Some tj /\
    In a1 (accesses ti) /\ In a2 (accesses tj) /\
    a_loc a1 = x /\ a_loc a2 = x /\ (a_write a1 || a_write a2) = true /\
    common_lock (a_held a1) (a_held a2) = false.
Proof.
  intros R [N [e1 [t1 [e2 [t2 [Hi [Hj [L1 [L2 W]]]]]]]]].
  destruct (reachable_inv _ _ R) as [[Len I1] I2].
  assert (Bi : (i < List.length p)%nat).
  { rewrite <- Len. apply nth_error_Some. rewrite Hi. discriminate. }
  assert (Bj : (j < List.length p)%nat).
  { rewrite <- Len. apply nth_error_Some. rewrite Hj. discriminate. }
  destruct (nth_error p i) as [ti|] eqn:Pi; [|apply nth_error_None in Pi; lia].
  destruct (nth_error p j) as [tj|] eqn:Pj; [|apply nth_error_None in Pj; lia].
  destruct (I1 i ti Pi) as [prei [ri [Hri [Eti Hpi]]]].
  destruct (I1 j tj Pj) as [prej [rj [Hrj [Etj Hpj]]]].
  rewrite Hi in Hri. inversion Hri. subst ri. rewrite Hj in Hrj. inversion Hrj. subst rj.
  exists ti, tj, (mkAccess x (ev_write e1) (scan prei)), (mkAccess x (ev_write e2) (scan prej)).
  repeat split; auto.
  - rewrite Eti. apply access_of_head. exact L1.
  - rewrite Etj. apply access_of_head. exact L2.
  - simpl. destruct (common_lock (scan prei) (scan prej)) eqn:C; [|reflexivity]. exfalso.
    apply common_lock_spec in C. destruct C as [l [m1 [m2 [H1 [H2 M]]]]].
    rewrite <- Hpi in H1. rewrite <- Hpj in H2. apply In_proj in H1. apply In_proj in H2.
    destruct M as [->| ->].
    + apply N. eapply I2; eassumption.
    + apply N. symmetry. eapply I2; eassumption.
Qed.

(* ---------- soundness of the pairwise discipline ---------- *)

Theorem pairwise_sound p x : disciplined p x -> ~ race p x.
Proof.
  intros D [s [i [j [R RB]]]].
  destruct (race_has_unlocked_accesses _ _ _ _ _ R RB)
    as [ti [tj [a1 [a2 [Pi [Pj [A1 [A2 [X1 [X2 [W C]]]]]]]]]]].
  destruct RB as [N _].
  rewrite (D i j ti tj a1 a2 N Pi Pj A1 A2 X1 X2 W) in C. discriminate.
Qed.

(* ---------- lockset_sound: one protecting lock per location ---------- *)

Definition guarded_by (p : prog) (x : loc) (l : lock) : Prop :=
  forall t a, In t p -> In a (accesses t) -> a_loc a = x ->
    holds_at_least (a_held a) l (if a_write a then Ex else Sh) = true.

Lemma guarded_disciplined p x l : guarded_by p x l -> disciplined p x.
Proof.
  intros G i j ti tj a1 a2 N Pi Pj A1 A2 X1 X2 W.
  pose proof (G ti a1 (nth_error_In _ _ Pi) A1 X1) as G1.
  pose proof (G tj a2 (nth_error_In _ _ Pj) A2 X2) as G2.
  apply holds_at_least_spec in G1. apply holds_at_least_spec in G2. apply common_lock_spec.
  destruct (a_write a1) eqn:W1.
  - destruct G1 as [G1|[E _]]; [|discriminate].
    destruct G2 as [G2|[_ G2]]; [exists l, Ex, Ex|exists l, Ex, Sh]; auto.
  - simpl in W. rewrite W in G2. destruct G2 as [G2|[E _]]; [|discriminate].
    destruct G1 as [G1|[_ G1]]; [exists l, Ex, Ex|exists l, Sh, Ex]; auto.
Qed.

Theorem lockset_sound :
  forall (p : prog) (protects : loc -> lock),
    (forall x, guarded_by p x (protects x)) ->
    forall x, ~ race p x.
Proof.
  intros p protects G x. apply pairwise_sound. eapply guarded_disciplined. apply G.
Qed.

Theorem lockset_sound_loc :
  forall (p : prog) (x : loc) (l : lock), guarded_by p x l -> ~ race p x.
Proof. intros p x l G. apply pairwise_sound. eapply guarded_disciplined. exact G. Qed.

(* in trace form: no reachable interleaving performs two conflicting accesses of different
   goroutines one right after the other *)
Theorem no_adjacent_conflict p x s i e1 s1 j e2 s2 :
  disciplined p x -> reachable p s ->
  step s i e1 s1 -> step s1 j e2 s2 -> i <> j -> conflicting x e1 e2 -> False.
Proof.
  intros D R S1 S2 N C. apply (pairwise_sound p x D).
  exists s, i, j. split; [exact R|]. split; [exact N|].
  inversion S1 as [s0 i0 e0 t1 H1 En1]. subst.
  inversion S2 as [s0 j0 e0 t2 H2 En2]. subst. simpl in H2.
  rewrite nth_error_set_nth_other in H2 by assumption.
  exists e1, t1, e2, t2. auto.
Qed.

(* ---------- the access table ---------- *)

Lemma rows_conflict_intro a b x :
  ar_field a = x -> ar_field b = x -> (ar_write a || ar_write b) = true ->
  (ar_entry a <> ar_entry b \/ ar_multi a = true) -> rows_conflict a b = true.
Proof.
  intros Fa Fb W P. unfold rows_conflict, may_parallel. rewrite Fa, Fb, String.eqb_refl, W.
  destruct P as [P|P].
  - destruct (String.eqb (ar_entry a) (ar_entry b)) eqn:E; [apply String.eqb_eq in E; contradiction|reflexivity].
  - rewrite P. apply orb_true_r.
Qed.

Lemma edge_known_spec known a b :
  edge_known known a b = true ->
  In (ar_entry a, ar_entry b, ar_field a) known \/ In (ar_entry b, ar_entry a, ar_field a) known.
Proof.
  unfold edge_known. rewrite existsb_exists. intros [[[e1 e2] f] [H E]]. simpl in E.
  apply andb_true_iff in E. destruct E as [F E]. apply String.eqb_eq in F. subst f.
  apply orb_true_iff in E. destruct E as [E|E]; apply andb_true_iff in E; destruct E as [E1 E2];
    apply String.eqb_eq in E1, E2; subst; auto.
Qed.

(* Every race of a program summarised by the table runs along a listed conflict edge:
   the two goroutines were started at entry points ei, ej and (ei, ej, x) or (ej, ei, x)
   is among the exceptions. *)
Theorem races_only_among_known known T p ents s x i j :
  protected_except known T = true -> conforms T p ents ->
  reachable p s -> race_between s x i j ->
  exists ei ej, nth_error ents i = Some ei /\ nth_error ents j = Some ej /\
                (In (ei, ej, x) known \/ In (ej, ei, x) known).
Proof.
  intros P [Cov Multi] R RB.
  destruct (race_has_unlocked_accesses _ _ _ _ _ R RB)
    as [ti [tj [a1 [a2 [Pi [Pj [A1 [A2 [X1 [X2 [W C]]]]]]]]]]].
  destruct RB as [N _].
  destruct (Cov i ti Pi) as [ei [Ei Ci]]. destruct (Cov j tj Pj) as [ej [Ej Cj]].
  destruct (Ci a1 A1) as [r1 [In1 [En1 [F1 [W1 H1]]]]].
  destruct (Cj a2 A2) as [r2 [In2 [En2 [F2 [W2 H2]]]]].
  assert (NC : common_lock (ar_held r1) (ar_held r2) = false).
  { destruct (common_lock (ar_held r1) (ar_held r2)) eqn:E; [|reflexivity].
    rewrite (common_lock_mono _ _ _ _ H1 H2 E) in C. discriminate. }
  assert (Par12 : ar_entry r1 <> ar_entry r2 \/ ar_multi r1 = true).
  { destruct (string_dec (ar_entry r1) (ar_entry r2)) as [E|E]; [right|left; exact E].
    eapply (Multi i j ei N Ei); [congruence|exact In1|exact En1]. }
  assert (K12 : rows_conflict r1 r2 = true).
  { apply (rows_conflict_intro r1 r2 x); [congruence|congruence|rewrite W1, W2; exact W|exact Par12]. }
  unfold protected_except in P. rewrite forallb_forall in P.
  pose proof (P r1 In1) as Q. unfold row_protected_except in Q. rewrite forallb_forall in Q.
  specialize (Q r2 In2). unfold pair_ok in Q. rewrite K12, NC in Q.
  apply edge_known_spec in Q. rewrite En1, En2, F1, X1 in Q.
  exists ei, ej. auto.
Qed.

Theorem protected_tbl_sound T p ents :
  protected_tbl T = true -> conforms T p ents -> forall x, ~ race p x.
Proof.
  intros P C x [s [i [j [R RB]]]].
  destruct (races_only_among_known [] T p ents s x i j P C R RB) as [ei [ej [_ [_ [[]|[]]]]]].
Qed.

(* ---------- start-up modes: the sublists of [conds t] cover every set of conditions ---------- *)

Lemma sublists_filter {A} (f : A -> bool) l : In (filter f l) (sublists l).
Proof.
  induction l as [|x l IH]; simpl; [auto|].
  apply in_or_app. destruct (f x); [left; apply in_map; exact IH|right; exact IH].
Qed.

Definition restrict (on : list string) (t : access_table) : list string :=
  filter (fun c => mem c on) (conds t).

Lemma restrict_in_modes on t : In (restrict on t) (modes t).
Proof. apply sublists_filter. Qed.

Lemma mem_spec s l : mem s l = true <-> In s l.
Proof.
  unfold mem. rewrite existsb_exists. split.
  - intros [y [H E]]. apply String.eqb_eq in E. subst. exact H.
  - intros H. exists s. split; [exact H|apply String.eqb_refl].
Qed.

Lemma In_dedup x l : In x (dedup l) <-> In x l.
Proof.
  induction l as [|s l IH]; simpl; [tauto|].
  destruct (mem s (dedup l)) eqn:M.
  - apply mem_spec in M. split; [tauto|]. intros [->|H]; tauto.
  - simpl. tauto.
Qed.

Lemma in_conds t r c :
  In r t -> (c = r_cond r \/ In c (map snd (r_held r))) -> c <> "" -> In c (conds t).
Proof.
  intros Hr Hc Ne. unfold conds. apply filter_In. split.
  - apply In_dedup. apply in_flat_map. exists r. split; [exact Hr|]. simpl. destruct Hc; auto.
  - destruct (String.eqb c "") eqn:E; [apply String.eqb_eq in E; contradiction|reflexivity].
Qed.

Lemma active_restrict on t c :
  (c = "" \/ In c (conds t)) -> active (restrict on t) c = active on c.
Proof.
  intros H. unfold active. destruct (String.eqb c "") eqn:E; [reflexivity|]. simpl.
  destruct H as [->|H]; [rewrite String.eqb_refl in E; discriminate|].
  apply eq_true_iff_eq. rewrite !mem_spec. unfold restrict. rewrite filter_In, mem_spec. tauto.
Qed.

Lemma cond_dec c : c = "" \/ c <> "".
Proof. destruct (string_dec c ""); auto. Qed.

Lemma inst_restrict on t : inst (restrict on t) t = inst on t.
Proof.
  unfold inst.
  assert (F : filter (fun r => active (restrict on t) (r_cond r)) t = filter (fun r => active on (r_cond r)) t).
  { apply filter_ext_in. intros r Hr. apply active_restrict.
    destruct (cond_dec (r_cond r)) as [E|E]; [left; exact E|right].
    eapply in_conds; eauto. }
  rewrite F. apply map_ext_in. intros r Hr. apply filter_In in Hr. destruct Hr as [Hr _].
  unfold inst_row. f_equal. f_equal. apply filter_ext_in. intros h Hh. apply active_restrict.
  destruct (cond_dec (snd h)) as [E|E]; [left; exact E|right].
  eapply in_conds; eauto. right. apply in_map. exact Hh.
Qed.

(* the obligation evaluated on the generated table, in every start-up mode [on] *)
Theorem protected_except_all_sound known t on p ents s x i j :
  protected_except_all known t = true -> conforms (inst on t) p ents ->
  reachable p s -> race_between s x i j ->
  exists ei ej, nth_error ents i = Some ei /\ nth_error ents j = Some ej /\
                (In (ei, ej, x) known \/ In (ej, ei, x) known).
Proof.
  intros P C R RB. unfold protected_except_all in P. rewrite forallb_forall in P.
  specialize (P _ (restrict_in_modes on t)). rewrite inst_restrict in P.
  eapply races_only_among_known; eassumption.
Qed.

Theorem protected_sound t on p ents :
  protected t = true -> conforms (inst on t) p ents -> forall x, ~ race p x.
Proof.
  intros P C x [s [i [j [R RB]]]].
  destruct (protected_except_all_sound [] t on p ents s x i j P C R RB) as [ei [ej [_ [_ [[]|[]]]]]].
Qed.

(* exec is the step relation *)
Lemma exec_reachable p sched s : exec (init p) sched = Some s -> reachable p s.
Proof.
  assert (G : forall s0, reachable p s0 -> forall sc s1, exec s0 sc = Some s1 -> reachable p s1).
  { intros s0 R sc. revert s0 R. induction sc as [|k sc IH]; intros s0 R s1 H; simpl in H.
    - inversion H. subst. exact R.
    - unfold exec_step in H. destruct (nth_error (rem s0) k) as [[|e t]|] eqn:Hk; try discriminate.
      destruct (enabled (holders s0) k e) eqn:En; try discriminate.
      eapply IH; [|exact H]. eapply R_step; [exact R|]. constructor; assumption. }
  apply G. constructor.
Qed.

Lemma race_between_b_spec s x i j : race_between_b s x i j = true -> race_between s x i j.
Proof.
  unfold race_between_b. intros H. apply andb_true_iff in H. destruct H as [N H].
  split. { intros ->. rewrite Nat.eqb_refl in N. discriminate. }
  destruct (nth_error (rem s) i) as [[|e1 t1]|] eqn:Hi; try discriminate;
  destruct (nth_error (rem s) j) as [[|e2 t2]|] eqn:Hj; try discriminate.
  simpl in H. destruct (ev_loc e1) as [a|] eqn:L1; try discriminate.
  destruct (ev_loc e2) as [b|] eqn:L2; try discriminate.
  apply andb_true_iff in H. destruct H as [H W]. apply andb_true_iff in H. destruct H as [A B].
  apply String.eqb_eq in A, B. subst.
  exists e1, t1, e2, t2. repeat split; auto.
Qed.

(* completeness direction used for the examples: an executable witness is a race *)
Theorem exec_race p sched s x i j :
  exec (init p) sched = Some s -> race_between_b s x i j = true -> race p x.
Proof.
  intros E B. exists s, i, j. split; [eapply exec_reachable; exact E|apply race_between_b_spec; exact B].
Qed.
