//go:build verif

package configs

// Add-only hook for the C07 harness: the unexported identifier builders.

import (
	networking "k8s.io/api/networking/v1"
	meta_v1 "k8s.io/apimachinery/pkg/apis/meta/v1"

	conf_v1 "github.com/nginx/kubernetes-ingress/pkg/apis/configuration/v1"
)

// VerifC07IngressUpstreamName is getNameForUpstream on an Ingress ns/name, a host and a backend.
func VerifC07IngressUpstreamName(ns, name, host, svc string, port int32, portName string) string {
	ing := &networking.Ingress{ObjectMeta: meta_v1.ObjectMeta{Namespace: ns, Name: name}}
	be := &networking.IngressBackend{Service: &networking.IngressServiceBackend{Name: svc, Port: networking.ServiceBackendPort{Number: port, Name: portName}}}
	return getNameForUpstream(ing, host, be)
}

// VerifC07TSUpstreamName is the TransportServer upstream namer.
func VerifC07TSUpstreamName(ns, name, upstream string) string {
	ts := &conf_v1.TransportServer{ObjectMeta: meta_v1.ObjectMeta{Namespace: ns, Name: name}}
	return newUpstreamNamerForTransportServer(ts).GetNameForUpstream(upstream)
}

// VerifC07LoginLocation is getNameForRedirectLocation.
func VerifC07LoginLocation(ns, name string) string {
	return getNameForRedirectLocation(&networking.Ingress{ObjectMeta: meta_v1.ObjectMeta{Namespace: ns, Name: name}})
}
