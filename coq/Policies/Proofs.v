(* Policies/Proofs.v -- theorems about the fail-closed decision logic (C08). *)
From Coq Require Import List String Ascii Bool Arith Lia.
From NIC Require Import Lex.Lexer Lex.Parser Policies.Model Policies.Spec.
Import ListNotations.
Open Scope string_scope.
Open Scope list_scope.

(* ---------------------------------------------------------------- the loop *)

Lemma gen_loop_app : forall pre rest pm d ctx own oidc a,
  gen_loop (pre ++ rest) pm d ctx own oidc a =
  match gen_loop pre pm d ctx own oidc a with
  | (None, o) => (None, o)
  | (Some a', o') => gen_loop rest pm d ctx own o' a'
  end.
Proof.
  induction pre as [|r pre IH]; intros; cbn [app gen_loop].
  - reflexivity.
  - destruct (assoc (ref_key own r) pm) as [p|]; [|reflexivity].
    destruct (add_policy p (ref_key own r) (ref_ns own r) d ctx oidc a) as [[v a'] o'].
    destruct v; try apply IH; reflexivity.
Qed.

(* one step only ever sets the flag of its own kind, and only an OIDC policy touches the slot *)
Lemma add_policy_flags : forall p key polns d ctx oidc a v a' o',
  add_policy p key polns d ctx oidc a = (v, a', o') ->
  (forall k, configured k a' = true -> configured k a = true \/ k = pkind p) /\
  (o' = oidc \/ pkind p = KOidc).
Proof.
  intros p key polns d ctx oidc a v a' o' H.
  unfold add_policy in H.
  destruct (pkind p) eqn:K;
    repeat match type of H with
           | context [if ?b then _ else _] => destruct b
           | context [match ?o with Some _ => _ | None => _ end] => destruct o
           end;
    inversion H; subst; clear H;
    (split; [intros k Hk; destruct k; cbn in Hk |- *; auto | auto]).
Qed.

Definition resolves_to_kind (pm : policy_map) (own : string) (l : list polref) (k : kind) : Prop :=
  exists r' p', In r' l /\ assoc (ref_key own r') pm = Some p' /\ pkind p' = k.

Lemma gen_loop_flags : forall pre pm d ctx own oidc a a' o',
  gen_loop pre pm d ctx own oidc a = (Some a', o') ->
  (forall k, configured k a' = true -> configured k a = true \/ resolves_to_kind pm own pre k) /\
  (o' = oidc \/ resolves_to_kind pm own pre KOidc).
Proof.
  induction pre as [|r pre IH]; intros pm d ctx own oidc a a' o' H; cbn [gen_loop] in H.
  - inversion H; subst. split; auto.
  - destruct (assoc (ref_key own r) pm) as [p|] eqn:A; [|discriminate].
    destruct (add_policy p (ref_key own r) (ref_ns own r) d ctx oidc a) as [[v a1] o1] eqn:E.
    apply add_policy_flags in E. destruct E as [F1 F2].
    assert (L : gen_loop pre pm d ctx own o1 a1 = (Some a', o')) by (destruct v; try exact H; discriminate).
    apply IH in L. destruct L as [G1 G2].
    assert (lift : forall k, resolves_to_kind pm own pre k -> resolves_to_kind pm own (r :: pre) k).
    { intros k (r' & p' & I & B & C). exists r', p'. split; [right; exact I | auto]. }
    split.
    + intros k Hk. destruct (G1 k Hk) as [Q|Q].
      * destruct (F1 k Q) as [Q'|Q']; [left; exact Q' | right; exists r, p; split; [left; reflexivity | auto]].
      * right; auto.
    + destruct G2 as [Q|Q].
      * destruct F2 as [Q'|Q']; [left; congruence | right; exists r, p; split; [left; reflexivity | auto]].
      * right; auto.
Qed.

(* a policy that is unusable here, met with no policy of its kind configured yet, is an error *)
Lemma add_policy_fails : forall p key polns d sc o a,
  policy_unusable_here p key polns d sc ->
  configured (pkind p) a = false ->
  (pkind p = KOidc -> o = sc_oidc sc) ->
  fst (fst (add_policy p key polns d (sc_ctx sc) o a)) = VError.
Proof.
  intros p key polns d sc o a U C O.
  unfold policy_unusable_here in U. unfold add_policy.
  destruct (pkind p) eqn:K; cbn [configured] in C; unfold deps_bad in U; rewrite K in U.
  - discriminate.
  - discriminate.
  - rewrite C. apply andb_true_iff in U. destruct U as [U1 U2]. rewrite U1.
    apply negb_true_iff in U2. rewrite U2. reflexivity.
  - rewrite C. apply negb_true_iff in U. rewrite U. reflexivity.
  - destruct (d_tls d); [|reflexivity]. destruct (is_spec (sc_ctx sc)); [|reflexivity].
    cbn [negb] in *. rewrite C. cbn [orb] in U. apply negb_true_iff in U. rewrite U. reflexivity.
  - rewrite C. apply orb_true_iff in U. destruct U as [U|U].
    + rewrite U. reflexivity.
    + destruct (negb (is_empty (psecret p)) && negb (usable (secret_state d TyTLS (nskey polns (psecret p))))); [reflexivity|].
      rewrite U. reflexivity.
  - rewrite C. rewrite (O eq_refl). destruct (sc_oidc sc) as [k|].
    + destruct (String.eqb k key) eqn:E; [apply String.eqb_eq in E; contradiction | reflexivity].
    + apply negb_true_iff in U. rewrite U. reflexivity.
  - rewrite C. apply negb_true_iff in U. rewrite U. reflexivity.
  - rewrite C. apply negb_true_iff in U. rewrite U. reflexivity.
  - discriminate.
Qed.

Lemma configured_empty : forall k, configured k empty_acc = false.
Proof. destruct k; reflexivity. Qed.

(* MAIN: an unusable reference that no earlier reference of its own kind shadows fails the scope,
   whatever stands before and after it *)
Theorem scope_fails_closed_partial : forall pre r post pm d sc,
  ref_unusable pm d sc r ->
  ~ shadowed pm (sc_owner_ns sc) pre r ->
  generate_policies (pre ++ r :: post) pm d sc = ErrorReturn.
Proof.
  intros pre r post pm d sc U NS.
  unfold generate_policies. rewrite gen_loop_app.
  destruct (gen_loop pre pm d (sc_ctx sc) (sc_owner_ns sc) (sc_oidc sc) empty_acc) as [[a'|] o'] eqn:L; [|reflexivity].
  apply gen_loop_flags in L. destruct L as [G1 G2].
  cbn [gen_loop]. unfold ref_unusable in U.
  destruct (assoc (ref_key (sc_owner_ns sc) r) pm) as [p|] eqn:A; [|reflexivity].
  assert (C : configured (pkind p) a' = false).
  { destruct (configured (pkind p) a') eqn:Q; [|reflexivity].
    destruct (G1 _ Q) as [Q'|(r' & p' & I & B & E)].
    - rewrite configured_empty in Q'. discriminate.
    - exfalso. apply NS. exists r', p', p. auto. }
  assert (O : pkind p = KOidc -> o' = sc_oidc sc).
  { intros K. destruct G2 as [Q|(r' & p' & I & B & E)]; [exact Q|].
    exfalso. apply NS. exists r', p', p. repeat split; auto. congruence. }
  pose proof (add_policy_fails p _ _ d sc o' a' U C O) as F.
  destruct (add_policy p (ref_key (sc_owner_ns sc) r) (ref_ns (sc_owner_ns sc) r) d (sc_ctx sc) o' a') as [[v a1] o1].
  cbn in F. subst v. reflexivity.
Qed.

(* a reference that does not resolve can not even be shadowed *)
Corollary unresolved_ref_fails : forall pre r post pm d sc,
  assoc (ref_key (sc_owner_ns sc) r) pm = None ->
  generate_policies (pre ++ r :: post) pm d sc = ErrorReturn.
Proof.
  intros. apply scope_fails_closed_partial.
  - unfold ref_unusable. rewrite H. exact I.
  - intros (r' & p' & p & _ & _ & B & _). congruence.
Qed.

(* the full statement (without the shadowing proviso) is false of the code *)
Definition wit_pm : policy_map :=
  [("default/a", mkPolicy KJwt "s1" "" false "" "" [] [] "" false);
   ("default/b", mkPolicy KJwt "s2" "" false "" "" [] [] "" false)].
Definition wit_deps : deps := mkDeps [("default/s1", mkSecret TyJWK true)] [] [] [] true.
Definition wit_scope : scope := mkScope CRoute "default" None.
Definition wit_refs : list polref := [("", "a"); ("", "b")].

Theorem scope_fails_closed_refuted :
  exists refs pm d sc r,
    In r refs /\ ref_unusable pm d sc r /\ generate_policies refs pm d sc <> ErrorReturn.
Proof.
  exists wit_refs, wit_pm, wit_deps, wit_scope, ("", "b").
  split; [right; left; reflexivity|]. split.
  - vm_compute. reflexivity.
  - vm_compute. discriminate.
Qed.

(* ---------------------------------------------------------------- what an error return carries *)

Theorem error_view_carries_nothing : forall so,
  lv_err (view_of ErrorReturn so) = true /\
  let a := lv_acc (view_of ErrorReturn so) in
  a_access a = false /\ a_rate a = false /\ a_jwt a = false /\ a_basic a = false /\ a_imtls a = false /\
  a_emtls a = false /\ a_apikey a = false /\ a_waf a = false.
Proof. intros []; cbn; repeat split. Qed.

(* ---------------------------------------------------------------- from the outcome to the rendered block *)

Lemma harmless_step : forall d r,
  harmless d = true -> terminating_return (d :: r) = terminating_return r.
Proof.
  intros d r H. unfold harmless in H. cbn [terminating_return].
  destruct (dbody d) as [b|].
  - apply negb_true_iff in H. rewrite H. reflexivity.
  - apply negb_true_iff in H. apply orb_false_iff in H. destruct H as [H H4].
    apply orb_false_iff in H. destruct H as [H H3]. apply orb_false_iff in H. destruct H as [H1 H2].
    rewrite H1, H2, H3, H4. reflexivity.
Qed.

Lemma return_closes_block : forall pre code rest post,
  forallb harmless pre = true -> is_5xx code = true ->
  terminating_return (pre ++ Dir "return" (code :: rest) None :: post) = true.
Proof.
  induction pre as [|d pre IH]; intros code rest post H C.
  - cbn. exact C.
  - cbn [forallb] in H. apply andb_true_iff in H. destruct H as [H1 H2].
    cbn [app]. rewrite harmless_step by exact H1. apply IH; assumption.
Qed.

(* a location (or server) block rendered from a view with PoliciesErrorReturn, with only harmless
   directives in front of the site, is closed in the sense of the predicate S evaluates -- whatever
   follows the site (the policy directives, proxy_pass, ...) *)
Theorem error_return_closes_block : forall v pre post,
  lv_err v = true -> forallb harmless pre = true ->
  terminating_return (pre ++ render_error_return v ++ post) = true.
Proof.
  intros v pre post E H. unfold render_error_return. rewrite E. cbn [app].
  apply return_closes_block; [exact H | reflexivity].
Qed.

Theorem error_return_closes_location : forall v pre post f http srv,
  lv_err v = true -> forallb harmless pre = true ->
  error_page_targets (pre ++ render_error_return v ++ post) = [] ->
  loc_closed (S f) http srv (pre ++ render_error_return v ++ post) = true.
Proof.
  intros v pre post f http srv E H EP. cbn [loc_closed].
  rewrite error_return_closes_block by assumption.
  unfold error_pages_ok. rewrite EP. reflexivity.
Qed.

(* model outcome -> rendered block, in one statement *)
Theorem unusable_policy_closes_location : forall pre_refs r post_refs pm d sc so pre post f http srv,
  ref_unusable pm d sc r -> ~ shadowed pm (sc_owner_ns sc) pre_refs r ->
  forallb harmless pre = true ->
  let v := view_of (generate_policies (pre_refs ++ r :: post_refs) pm d sc) so in
  error_page_targets (pre ++ render_error_return v ++ post) = [] ->
  loc_closed (S f) http srv (pre ++ render_error_return v ++ post) = true.
Proof.
  intros. apply error_return_closes_location; auto.
  subst v. rewrite scope_fails_closed_partial by assumption. reflexivity.
Qed.

(* ---------------------------------------------------------------- getPolicies *)

Lemma assoc_app : forall A k (l1 l2 : list (string * A)),
  assoc k (l1 ++ l2) = match assoc k l1 with Some v => Some v | None => assoc k l2 end.
Proof.
  induction l1 as [|[k' v] l1 IH]; intros; cbn [app assoc]; [reflexivity|].
  destruct (String.eqb k k'); [reflexivity | apply IH].
Qed.

Lemma get_policies_sound : forall cls cluster refs own, pm_sound cls cluster (get_policies cls cluster refs own).
Proof.
  intros cls cluster refs own. unfold pm_sound.
  induction refs as [|r refs IH]; intros k p H; cbn [get_policies flat_map] in H; [discriminate|].
  fold (get_policies cls cluster refs own) in H.
  rewrite assoc_app in H.
  destruct (assoc (ref_key own r) cluster) as [cp|] eqn:A.
  - destruct (class_ok cls cp && cp_valid cp) eqn:V.
    + cbn [assoc] in H. destruct (String.eqb k (ref_key own r)) eqn:E.
      * apply String.eqb_eq in E. subst k. inversion H; subst.
        apply andb_true_iff in V. destruct V. exists cp. auto.
      * apply IH; exact H.
    + cbn [assoc] in H. apply IH; exact H.
  - cbn [assoc] in H. apply IH; exact H.
Qed.

Lemma pm_sound_app : forall cls cluster a b, pm_sound cls cluster a -> pm_sound cls cluster b -> pm_sound cls cluster (a ++ b).
Proof.
  intros cls cluster a b Ha Hb k p H. rewrite assoc_app in H.
  destruct (assoc k a) eqn:E; [inversion H; subst; apply Ha; exact E | apply Hb; exact H].
Qed.

Lemma pm_sound_flat_map : forall A cls cluster (f : A -> policy_map) l,
  (forall x, pm_sound cls cluster (f x)) -> pm_sound cls cluster (flat_map f l).
Proof.
  induction l as [|x l IH]; intros H; cbn [flat_map].
  - intros k p E. discriminate.
  - apply pm_sound_app; auto.
Qed.

Theorem vs_policy_map_sound : forall cls cluster v, pm_sound cls cluster (vs_policy_map cls cluster v).
Proof.
  intros. unfold vs_policy_map.
  apply pm_sound_app; [apply get_policies_sound|].
  apply pm_sound_app.
  - apply pm_sound_flat_map. intros. apply get_policies_sound.
  - apply pm_sound_flat_map. intros. apply pm_sound_flat_map. intros. apply get_policies_sound.
Qed.

(* missing / foreign class / invalid policies never resolve *)
Theorem dropped_policy_unresolvable : forall cls cluster pm k,
  pm_sound cls cluster pm ->
  (assoc k cluster = None \/
   exists cp, assoc k cluster = Some cp /\ (class_ok cls cp = false \/ cp_valid cp = false)) ->
  assoc k pm = None.
Proof.
  intros cls cluster pm k S H. destruct (assoc k pm) as [p|] eqn:E; [|reflexivity].
  destruct (S _ _ E) as (cp & A & C & V & _).
  destruct H as [H|(cp' & A' & [H|H])]; congruence.
Qed.

(* the decidable input-side predicate S uses implies the declarative one *)
Theorem policy_unusable_ref_unusable : forall cls cluster pm d sc r,
  pm_sound cls cluster pm ->
  sc_oidc sc <> Some (ref_key (sc_owner_ns sc) r) ->
  policy_unusable cls cluster d (sc_ctx sc) (sc_owner_ns sc) r = true ->
  ref_unusable pm d sc r.
Proof.
  intros cls cluster pm d sc r S O U. unfold ref_unusable.
  destruct (assoc (ref_key (sc_owner_ns sc) r) pm) as [p|] eqn:E; [|exact I].
  destruct (S _ _ E) as (cp & A & C & V & P). subst p.
  unfold policy_unusable in U. rewrite A, C, V in U. cbn [negb orb] in U.
  unfold policy_unusable_here. destruct (pkind (cp_pol cp)) eqn:K; try exact U.
  destruct (sc_oidc sc) as [k|]; [|exact U]. intro; subst k; apply O; reflexivity.
Qed.

(* from the cluster state to the outcome, in one statement *)
Theorem scope_fails_closed_from_cluster : forall cls cluster pm d sc pre r post,
  pm_sound cls cluster pm ->
  sc_oidc sc <> Some (ref_key (sc_owner_ns sc) r) ->
  policy_unusable cls cluster d (sc_ctx sc) (sc_owner_ns sc) r = true ->
  ~ shadowed pm (sc_owner_ns sc) pre r ->
  generate_policies (pre ++ r :: post) pm d sc = ErrorReturn.
Proof.
  intros. apply scope_fails_closed_partial; [|assumption].
  eapply policy_unusable_ref_unusable; eassumption.
Qed.

(* ---------------------------------------------------------------- TLS *)

Lemma secret_state_cases : forall d ty key,
  secret_state d ty key = SOk \/ secret_state d ty key = SMissing \/
  secret_state d ty key = SInvalid \/ secret_state d ty key = SWrongType.
Proof. intros. destruct (secret_state d ty key); auto. Qed.

Theorem tls_rejects_vs : forall name ns d wildcard path_of st,
  name <> "" -> secret_state d TyTLS (nskey ns name) = st ->
  st = SMissing \/ st = SInvalid \/ st = SWrongType ->
  vs_ssl_config (Some name) ns d wildcard path_of = Some (mkSsl true "").
Proof.
  intros name ns d wildcard path_of st N E H. unfold vs_ssl_config.
  destruct name; [contradiction N; reflexivity|]. cbn [is_empty].
  rewrite E. destruct H as [H|[H|H]]; rewrite H; reflexivity.
Qed.

Theorem tls_rejects_ingress : forall name ns d wildcard path_of st,
  name <> "" -> secret_state d TyTLS (nskey ns name) = st ->
  st = SMissing \/ st = SInvalid \/ st = SWrongType ->
  ingress_ssl_config (Some name) ns d wildcard path_of = Some (mkSsl true "").
Proof.
  intros name ns d wildcard path_of st N E H. unfold ingress_ssl_config.
  destruct name; [contradiction N; reflexivity|]. cbn [is_empty].
  rewrite E. destruct H as [H|[H|H]]; rewrite H; reflexivity.
Qed.

(* a certificate is configured only for a usable secret of type TLS (or the wildcard) *)
Theorem certificate_only_when_usable : forall tls ns d wildcard path_of s,
  (vs_ssl_config tls ns d wildcard path_of = Some s \/ ingress_ssl_config tls ns d wildcard path_of = Some s) ->
  ssl_reject s = false ->
  exists name, tls = Some name /\
    ((name = "" /\ wildcard = true /\ ssl_cert s = wildcard_pem) \/
     (secret_state d TyTLS (nskey ns name) = SOk /\ ssl_cert s = path_of (nskey ns name))).
Proof.
  intros tls ns d wildcard path_of s H R.
  destruct tls as [name|]; [|destruct H; discriminate].
  exists name. split; [reflexivity|].
  unfold vs_ssl_config, ingress_ssl_config in H.
  destruct name as [|c name'].
  - cbn [is_empty] in H. destruct wildcard.
    + left. destruct H as [H|H]; inversion H; subst; auto.
    + destruct H as [H|H]; [discriminate | inversion H; subst; discriminate].
  - cbn [is_empty] in H. right.
    destruct (secret_state d TyTLS (nskey ns (String c name'))) eqn:E;
      destruct H as [H|H]; inversion H; subst; try discriminate; auto.
Qed.

(* the three failure states in terms of the cluster: what missing / wrong type / invalid mean *)
Theorem secret_state_meaning : forall d ty key,
  (secret_state d ty key = SMissing <->
     (assoc key (d_secrets d) = None \/ exists s, assoc key (d_secrets d) = Some s /\ sec_type s = TyOther)) /\
  (secret_state d ty key = SOk ->
     exists s, assoc key (d_secrets d) = Some s /\ sec_type s = ty /\ sec_valid s = true).
Proof.
  intros d ty key. unfold secret_state, store_lookup, classify.
  destruct (assoc key (d_secrets d)) as [s|]; [|split; [split; auto | discriminate]].
  destruct (stype_eqb (sec_type s) TyOther) eqn:O.
  - split; [split; [intros _; right; exists s; split; auto; destruct (sec_type s); try discriminate; reflexivity | reflexivity] | discriminate].
  - split.
    + split.
      * intros H. destruct (negb (stype_eqb (sec_type s) ty)); [discriminate|]. destruct (sec_valid s); discriminate.
      * intros [H|(s' & H & T)]; [discriminate|]. inversion H; subst s'. rewrite T in O. discriminate.
    + intros H. exists s. destruct (stype_eqb (sec_type s) ty) eqn:T; cbn [negb] in H; [|discriminate].
      destruct (sec_valid s) eqn:V; [|discriminate].
      repeat split; auto. destruct (sec_type s), ty; try discriminate; reflexivity.
Qed.

(* ---------------------------------------------------------------- Ingress authentication *)

Theorem ingress_auth_kept : forall expected name ns d file_of,
  exists a, ingress_auth expected (Some name) ns d file_of = Some a /\
            au_file a = file_of (nskey ns name) /\
            (au_warn a = true <-> secret_state d expected (nskey ns name) <> SOk).
Proof.
  intros. eexists. split; [reflexivity|]. split; [reflexivity|]. cbn [au_warn].
  destruct (secret_state d expected (nskey ns name)); cbn; split; intros; try discriminate; try congruence; auto.
Qed.

(* ---------------------------------------------------------------- VirtualServer level *)

Lemma lv_err_view_of : forall o so, lv_err (view_of o so) = is_error o.
Proof. intros [|a] so; reflexivity. Qed.

Lemma routes_views_covers : forall rs pm d own so oidc r,
  In r rs -> is_empty (r_vsr r) = true ->
  exists slot, In (String.append "route:" (r_path r),
                   view_of (generate_policies (r_pols r) pm d (mkScope CRoute own slot)) so)
                  (fst (routes_views rs pm d own so oidc)).
Proof.
  induction rs as [|x rs IH]; intros pm d own so oidc r I E; [contradiction|].
  cbn [routes_views].
  destruct (negb (is_empty (r_vsr x))) eqn:X.
  - destruct I as [I|I]; [subst x; rewrite E in X; discriminate|]. apply IH; assumption.
  - destruct (routes_views rs pm d own so (oidc_after (r_pols x) pm d (mkScope CRoute own oidc))) as [vs' o'] eqn:R.
    cbn [fst]. destruct I as [I|I].
    + subst x. exists oidc. left. reflexivity.
    + destruct (IH pm d own so (oidc_after (r_pols x) pm d (mkScope CRoute own oidc)) r I E) as [slot H].
      rewrite R in H. exists slot. right. exact H.
Qed.

Definition sub_scope_of (v : vserver) (x : vsroute) (s : subroute) : string * context * string * list polref :=
  let key := nskey (v_ns x) (v_name x) in
  let id := String.append "sub:" (String.append key (String.append ":" (s_path s))) in
  match s_pols s with
  | [] => (id, CRoute, vs_ns v, inherited_refs (vs_ns v) (vs_routes v) key [])
  | _ => (id, CSubroute, v_ns x, s_pols s)
  end.

Lemma subs_views_covers : forall subs x v pm d so oidc s,
  In s subs ->
  exists slot, let '(id, ctx, own, refs) := sub_scope_of v x s in
    In (id, view_of (generate_policies refs pm d (mkScope ctx own slot)) so) (fst (subs_views subs x v pm d so oidc)).
Proof.
  induction subs as [|y subs IH]; intros x v pm d so oidc s I; [contradiction|].
  cbn [subs_views].
  destruct I as [I|I].
  - subst y. exists oidc. unfold sub_scope_of.
    destruct (s_pols s) as [|r0 rs0] eqn:P.
    + destruct (subs_views subs x v pm d so _) as [vs' o']. cbn [fst]. left. reflexivity.
    + destruct (subs_views subs x v pm d so _) as [vs' o']. cbn [fst]. left. reflexivity.
  - destruct (s_pols y) as [|r0 rs0].
    + match goal with |- context [subs_views subs x v pm d so ?o] => destruct (IH x v pm d so o s I) as [slot H];
        destruct (subs_views subs x v pm d so o) as [vs' o'] end.
      exists slot. destruct (sub_scope_of v x s) as [[[id ctx] own] refs]. cbn [fst] in *. right. exact H.
    + match goal with |- context [subs_views subs x v pm d so ?o] => destruct (IH x v pm d so o s I) as [slot H];
        destruct (subs_views subs x v pm d so o) as [vs' o'] end.
      exists slot. destruct (sub_scope_of v x s) as [[[id ctx] own] refs]. cbn [fst] in *. right. exact H.
Qed.

Lemma vsrs_views_covers : forall xs v pm d so oidc x s,
  In x xs -> In s (v_subs x) ->
  exists slot, let '(id, ctx, own, refs) := sub_scope_of v x s in
    In (id, view_of (generate_policies refs pm d (mkScope ctx own slot)) so) (vsrs_views xs v pm d so oidc).
Proof.
  induction xs as [|y xs IH]; intros v pm d so oidc x s I J; [contradiction|].
  cbn [vsrs_views].
  destruct (subs_views (v_subs y) y v pm d so oidc) as [here o'] eqn:R.
  destruct I as [I|I].
  - subst y. destruct (subs_views_covers (v_subs x) x v pm d so oidc s J) as [slot H].
    exists slot. destruct (sub_scope_of v x s) as [[[id ctx] own] refs]. rewrite R in H. cbn [fst] in H.
    apply in_or_app. left. exact H.
  - destruct (IH v pm d so o' x s I J) as [slot H]. exists slot.
    destruct (sub_scope_of v x s) as [[[id ctx] own] refs]. apply in_or_app. right. exact H.
Qed.

(* every scope of a VirtualServer -- spec, own routes, subroutes of the attached
   VirtualServerRoutes with their own or with the inherited references -- is generated by
   generate_policies on exactly the references vs_scopes lists, in some state of the OIDC slot *)
Theorem vs_views_covers : forall v pm d id ctx own refs,
  In (id, ctx, own, refs) (vs_scopes v) ->
  exists slot vw, In (id, vw) (vs_views v pm d) /\
                  lv_err vw = is_error (generate_policies refs pm d (mkScope ctx own slot)).
Proof.
  intros v pm d id ctx own refs I. unfold vs_scopes in I. unfold vs_views.
  destruct (routes_views (vs_routes v) pm d (vs_ns v) _ _) as [rv o2] eqn:R.
  destruct I as [I|I].
  - inversion I; subst. exists None. eexists. split; [left; reflexivity|]. reflexivity.
  - apply in_app_or in I. destruct I as [I|I].
    + unfold own_route_scopes in I. apply in_flat_map in I. destruct I as (r & Ir & I).
      destruct (is_empty (r_vsr r)) eqn:E; [|contradiction]. destruct I as [I|[]]. inversion I; subst.
      match type of R with routes_views _ _ _ _ ?so ?o = _ =>
        destruct (routes_views_covers (vs_routes v) pm d (vs_ns v) so o r Ir E) as [slot H]; rewrite R in H end.
      exists slot. eexists. split; [right; apply in_or_app; left; exact H|]. apply lv_err_view_of.
    + unfold sub_scopes in I. apply in_flat_map in I. destruct I as (x & Ix & I).
      apply in_map_iff in I. destruct I as (s & Es & Is).
      match goal with |- context [vsrs_views (vs_vsrs v) v pm d ?so o2] =>
        destruct (vsrs_views_covers (vs_vsrs v) v pm d so o2 x s Ix Is) as [slot H] end.
      unfold sub_scope_of in H. 
      destruct (s_pols s) as [|r0 rs0]; inversion Es; subst;
        (exists slot; eexists; split; [right; apply in_or_app; right; exact H | apply lv_err_view_of]).
Qed.

(* every scope with an unusable, unshadowed reference renders an error return.  The hypothesis
   quantifies over the state of the VirtualServer-wide OIDC slot, so it covers every kind and failure
   mode except one OIDC corner (an OIDC policy with an unusable Secret whose key is already in the
   slot), which the scope-level theorem handles given the slot *)
Theorem vs_scope_fails_closed : forall v pm d id ctx own pre r post,
  In (id, ctx, own, pre ++ r :: post) (vs_scopes v) ->
  (forall slot, ref_unusable pm d (mkScope ctx own slot) r) ->
  ~ shadowed pm own pre r ->
  exists vw, In (id, vw) (vs_views v pm d) /\ lv_err vw = true.
Proof.
  intros v pm d id ctx own pre r post I U NS.
  destruct (vs_views_covers v pm d _ _ _ _ I) as (slot & vw & J & E).
  exists vw. split; [exact J|]. rewrite E.
  rewrite (scope_fails_closed_partial pre r post pm d (mkScope ctx own slot) (U slot) NS). reflexivity.
Qed.

(* the inheritance rule itself: a subroute without policies takes the references of the LAST route
   of the VirtualServer that delegates to its VirtualServerRoute and has policies; a subroute with
   policies ignores them *)
Theorem inherited_scope : forall v x s,
  In x (vs_vsrs v) -> In s (v_subs x) ->
  In (sub_scope_of v x s) (vs_scopes v) /\
  (s_pols s = [] ->
     snd (sub_scope_of v x s) = inherited_refs (vs_ns v) (vs_routes v) (nskey (v_ns x) (v_name x)) [] /\
     snd (fst (fst (sub_scope_of v x s))) = CRoute) /\
  (s_pols s <> [] -> snd (sub_scope_of v x s) = s_pols s /\ snd (fst (fst (sub_scope_of v x s))) = CSubroute).
Proof.
  intros v x s Ix Is. split; [|split].
  - unfold vs_scopes. right. apply in_or_app. right. unfold sub_scopes. apply in_flat_map. exists x. split; [exact Ix|].
    apply in_map_iff. exists s. split; [|exact Is]. unfold sub_scope_of. destruct (s_pols s); reflexivity.
  - intros E. unfold sub_scope_of. rewrite E. split; reflexivity.
  - intros E. unfold sub_scope_of. destruct (s_pols s); [contradiction E; reflexivity|]. split; reflexivity.
Qed.

(* ---------------------------------------------------------------- instances used by Properties/C08.v *)

Theorem dropped_policy_unresolvable_vs : forall cls cluster v k,
  (assoc k cluster = None \/
   exists cp, assoc k cluster = Some cp /\ (class_ok cls cp = false \/ cp_valid cp = false)) ->
  assoc k (vs_policy_map cls cluster v) = None.
Proof. intros. eapply dropped_policy_unresolvable; [apply vs_policy_map_sound | assumption]. Qed.

Theorem scope_fails_closed_from_cluster_vs : forall cls cluster v d sc pre r post,
  sc_oidc sc <> Some (ref_key (sc_owner_ns sc) r) ->
  policy_unusable cls cluster d (sc_ctx sc) (sc_owner_ns sc) r = true ->
  ~ shadowed (vs_policy_map cls cluster v) (sc_owner_ns sc) pre r ->
  generate_policies (pre ++ r :: post) (vs_policy_map cls cluster v) d sc = ErrorReturn.
Proof. intros. eapply scope_fails_closed_from_cluster; eauto using vs_policy_map_sound. Qed.

Theorem tls_rejects_both : forall name ns d wildcard path_of st,
  name <> "" -> secret_state d TyTLS (nskey ns name) = st ->
  st = SMissing \/ st = SInvalid \/ st = SWrongType ->
  vs_ssl_config (Some name) ns d wildcard path_of = Some (mkSsl true "") /\
  ingress_ssl_config (Some name) ns d wildcard path_of = Some (mkSsl true "").
Proof. intros. split; [eapply tls_rejects_vs | eapply tls_rejects_ingress]; eauto. Qed.

(* ---------------------------------------------------------------- Secrets over time *)

Lemma assoc_filter_out : forall A k (l : list (string * A)),
  assoc k (filter (fun x => negb (String.eqb k (fst x))) l) = None.
Proof.
  induction l as [|[k' v] l IH]; [reflexivity|]. cbn [filter fst].
  destruct (String.eqb k k') eqn:E; cbn [negb]; [exact IH|]. cbn [assoc]. rewrite E. exact IH.
Qed.

(* a Secret whose last event is its deletion is Missing for every consumer, whatever it was before *)
Theorem deleted_secret_missing : forall h k d ty,
  d_secrets d = secrets_of_history (h ++ [SecDelete k]) ->
  secret_state d ty k = SMissing.
Proof.
  intros h k d ty H. unfold secret_state, store_lookup. rewrite H.
  unfold secrets_of_history. rewrite fold_left_app. cbn [fold_left sec_step].
  rewrite assoc_filter_out. reflexivity.
Qed.

Theorem deleted_tls_secret_rejects : forall h name ns d wildcard path_of,
  name <> "" ->
  d_secrets d = secrets_of_history (h ++ [SecDelete (nskey ns name)]) ->
  vs_ssl_config (Some name) ns d wildcard path_of = Some (mkSsl true "") /\
  ingress_ssl_config (Some name) ns d wildcard path_of = Some (mkSsl true "").
Proof.
  intros h name ns d wildcard path_of N H.
  apply (tls_rejects_both name ns d wildcard path_of SMissing N); [|left; reflexivity].
  eapply deleted_secret_missing; exact H.
Qed.

(* ---------------------------------------------------------------- the mesh certificate *)

(* a handshake that must be rejected is rejected for an internal route too: the mesh (SPIFFE)
   certificate never stands in for an unusable TLS Secret *)
Theorem reject_wins_over_mesh_certificate : forall name ns d wildcard path_of st spiffe s,
  name <> "" -> secret_state d TyTLS (nskey ns name) = st ->
  st = SMissing \/ st = SInvalid \/ st = SWrongType ->
  (vs_ssl_config (Some name) ns d wildcard path_of = Some s \/ ingress_ssl_config (Some name) ns d wildcard path_of = Some s) ->
  served_certificate spiffe s = None.
Proof.
  intros name ns d wildcard path_of st spiffe s N E H C.
  destruct (tls_rejects_both name ns d wildcard path_of st N E H) as [A B].
  destruct C as [C|C]; [rewrite A in C | rewrite B in C]; inversion C; subst; reflexivity.
Qed.
