//go:build verif

package configs

// VLoc is one location of the server block a master Ingress is rendered as, with the minion it came from.
type VLoc struct {
	Path   string `json:"path"`
	Minion string `json:"minion"` // namespace/name of the minion Ingress ("" for a location of the master itself)
}

// VerifMergeableLocations runs the real generateNginxCfgForMergeableIngresses (the rendering projection of a
// master with its minions) and returns, per server, the locations it would write.
func VerifMergeableLocations(cnf *Configurator, mi *MergeableIngresses) map[string][]VLoc {
	cfg, _ := generateNginxCfgForMergeableIngresses(NginxCfgParams{
		mergeableIngs:        mi,
		apResources:          &AppProtectResources{},
		BaseCfgParams:        cnf.CfgParams,
		isPlus:               cnf.isPlus,
		isResolverConfigured: cnf.IsResolverConfigured(),
		staticParams:         cnf.staticCfgParams,
		isWildcardEnabled:    cnf.isWildcardEnabled,
	})
	out := map[string][]VLoc{}
	for _, s := range cfg.Servers {
		locs := []VLoc{}
		for _, l := range s.Locations {
			m := ""
			if l.MinionIngress != nil {
				m = l.MinionIngress.Namespace + "/" + l.MinionIngress.Name
			}
			locs = append(locs, VLoc{Path: l.Path, Minion: m})
		}
		out[s.Name] = locs
	}
	return out
}
