(* The owner of a host in the rebuilt hosts map is the least claimant (C01), likewise for
   listener+host pairs (C02). *)
From Coq Require Import List ZArith String Ascii Bool Lia.
From NIC Require Import Base.SMap Arb.Types Arb.Model Arb.Spec Arb.WinsProofs Arb.InvProofs.
Import ListNotations.
Open Scope Z_scope.

Lemma best_from cur l x : best cur l = Some x -> cur = Some x \/ In x l.
Proof.
  revert cur. induction l as [|a l IH]; intros cur H; cbn in H; [auto|].
  apply IH in H. destruct H as [H|H]; [|right; right; exact H].
  destruct cur as [y|]; cbn in H.
  - destruct (wins (snd y) (snd a)); inversion H; subst; [left; reflexivity|right; left; reflexivity].
  - inversion H; subst. right; left; reflexivity.
Qed.

Lemma in_claimants cs h x : In x (claimants cs h) <-> In (h, x) cs.
Proof.
  unfold claimants. rewrite in_map_iff. split.
  - intros ([h' y] & <- & Hin). apply filter_In in Hin. destruct Hin as [Hin Hk].
    cbn in Hk. apply String.eqb_eq in Hk. subst. exact Hin.
  - intros Hin. exists (h, x). split; [reflexivity|]. apply filter_In. split; [exact Hin|cbn; apply String.eqb_refl].
Qed.

Lemma holder_is_claim cs h x : lookup h (holders cs) = Some x -> In (h, x) cs.
Proof.
  unfold holders. rewrite lookup_fold_claim1. cbn [lookup]. intros H.
  apply best_from in H. destruct H as [H|H]; [discriminate|]. apply in_claimants. exact H.
Qed.

Lemma in_map_fst_filter_map {A B} (f : A -> option (string * B)) l x k :
  In x l -> (exists r, f x = Some (k, r)) -> In k (map fst (filter_map f l)).
Proof.
  intros Hin [r Hr]. apply in_map_iff. exists (k, r). split; [reflexivity|].
  apply in_filter_map. exists x. auto.
Qed.

Lemma in_map_fst_map {A B} (f : A -> string * B) l x k :
  In x l -> fst (f x) = k -> In k (map fst (map f l)).
Proof. intros Hin <-. apply in_map. apply in_map. exact Hin. Qed.

(* every claim's key names a resource of the rebuild, and that resource carries that key *)
Section Build.
  Variables (c : cfg) (is_ : smap ingress) (vs_ : smap vserver) (rs : smap vsroute) (ts_ : smap tserver)
            (g : option (list listener)).

  Lemma b_res_key k r : lookup k (b_res (build c is_ vs_ rs ts_ g)) = Some r -> rkey r = k.
  Proof.
    unfold build. destruct (run_claims host_warning [] (all_claims c is_ vs_ ts_)) as [hs claim_ws].
    cbn [b_res]. intros H. apply of_list_lookup_in in H.
    apply in_app_or in H. destruct H as [H|H]; [|apply in_app_or in H; destruct H as [H|H]].
    - apply in_filter_map in H. destruct H as ([k0 i] & _ & Hf). cbn [snd] in Hf.
      destruct (ing_claims_hosts c vs_ i); [|discriminate].
      destruct (if is_master i then build_minions is_ (host0 i) else ([], [])) as [mins cw].
      inversion Hf; subst. reflexivity.
    - apply in_map_iff in H. destruct H as ([k0 v] & Hf & _). cbn [snd] in Hf.
      destruct (build_vsrs rs v (v_routes v)) as [rl w]. inversion Hf; subst.
      cbn. unfold build_vs_cfg. destruct (v_listener v) as [[a b]|]; [destruct g|]; cbn;
        repeat match goal with |- context [assign ?x ?y ?z] => destruct (assign x y z) as [[? ?] ?] end; reflexivity.
    - destruct (tls_passthrough c); [|destruct H].
      apply in_filter_map in H. destruct H as ([k0 t] & _ & Hf). cbn [snd] in Hf.
      destruct (is_passthrough t); inversion Hf; subst. reflexivity.
  Qed.

  Lemma claim_has_resource h k m :
    In (h, (k, m)) (all_claims c is_ vs_ ts_) -> lookup k (b_res (build c is_ vs_ rs ts_ g)) <> None.
  Proof.
    unfold build. destruct (run_claims host_warning [] (all_claims c is_ vs_ ts_)) as [hs claim_ws].
    cbn [b_res]. intros H. apply of_list_in_some. rewrite !map_app, !in_app_iff.
    unfold all_claims in H. apply in_app_or in H. destruct H as [H|H]; [|apply in_app_or in H; destruct H as [H|H]].
    - left. unfold ing_claims in H. apply in_flat_map in H. destruct H as ([k0 i] & Hin & Hc). cbn [snd] in Hc.
      destruct (ing_claims_hosts c vs_ i) eqn:Hcl; [|destruct Hc].
      apply in_map_iff in Hc. destruct Hc as (h' & Heq & _). inversion Heq; subst.
      eapply in_map_fst_filter_map; [exact Hin|]. cbn [snd]. rewrite Hcl.
      destruct (if is_master i then build_minions is_ (host0 i) else ([], [])) as [mins cw]. eexists. reflexivity.
    - right; left. unfold vs_claims in H. apply in_map_iff in H. destruct H as ([k0 v] & Heq & Hin).
      cbn [snd] in Heq. inversion Heq; subst.
      eapply in_map_fst_map; [exact Hin|]. cbn [snd].
      destruct (build_vsrs rs v (v_routes v)) as [rl w]. reflexivity.
    - right; right. unfold ts_claims in H. destruct (tls_passthrough c); [|destruct H].
      apply in_filter_map in H. destruct H as ([k0 t] & Hin & Hf). cbn [snd] in Hf.
      destruct (is_passthrough t) eqn:Hp; inversion Hf; subst.
      eapply in_map_fst_filter_map; [exact Hin|]. cbn [snd]. rewrite Hp. eexists. reflexivity.
  Qed.

  Lemma b_hosts_lookup h :
    lookup h (b_hosts (build c is_ vs_ rs ts_ g)) =
    match lookup h (holders (all_claims c is_ vs_ ts_)) with
    | Some y => lookup (fst y) (b_res (build c is_ vs_ rs ts_ g))
    | None => None
    end.
  Proof.
    unfold build. pose proof (run_claims_fst host_warning (all_claims c is_ vs_ ts_) []) as Hf.
    destruct (run_claims host_warning [] (all_claims c is_ vs_ ts_)) as [hs claim_ws]. cbn [fst] in Hf.
    cbn [b_hosts b_res]. fold (holders (all_claims c is_ vs_ ts_)) in Hf. subst hs.
    apply (lookup_filter_map_keys (fun y : hold => lookup (fst y) _)).
    apply wf_holders. constructor.
  Qed.

  Theorem build_owner h :
    option_map rkey (lookup h (b_hosts (build c is_ vs_ rs ts_ g))) =
    option_map fst (lookup h (holders (all_claims c is_ vs_ ts_))).
  Proof.
    rewrite b_hosts_lookup. destruct (lookup h (holders (all_claims c is_ vs_ ts_))) as [[k m]|] eqn:Hl; [|reflexivity].
    cbn [fst option_map]. apply holder_is_claim in Hl.
    destruct (lookup k (b_res (build c is_ vs_ rs ts_ g))) as [r|] eqn:Hr.
    - cbn. f_equal. apply b_res_key. exact Hr.
    - exfalso. exact (claim_has_resource _ _ _ Hl Hr).
  Qed.
End Build.

(* C01: for every history, the owner of every host is the least claimant of the current object set *)
Theorem owner_is_least c es h :
  uids_distinct (claimants (host_claims c (objs_after es)) h) ->
  option_map rkey (lookup h (hosts (run c es))) = spec_owner c (objs_after es) h.
Proof.
  intros Hd. destruct (hosts_function_of_objs c es) as [Hh _]. rewrite Hh.
  unfold hosts_of_objs, spec_owner, host_claims. rewrite build_owner. f_equal. apply holders_owner. exact Hd.
Qed.

(* in relational form: whoever owns h beats every other claimant; and a claimed host has an owner *)
Theorem owner_beats_all c es h r :
  uids_distinct (claimants (host_claims c (objs_after es)) h) ->
  lookup h (hosts (run c es)) = Some r ->
  exists x, fst x = rkey r /\ is_least x (claimants (host_claims c (objs_after es)) h).
Proof.
  intros Hd Hl. pose proof (owner_is_least c es h Hd) as H. rewrite Hl in H. cbn in H.
  unfold spec_owner in H. destruct (least _) as [x|] eqn:Hx; [|discriminate].
  exists x. cbn in H. inversion H. split; [reflexivity|]. apply least_is_least; assumption.
Qed.

Theorem claimed_host_has_owner c es h x :
  In x (claimants (host_claims c (objs_after es)) h) -> lookup h (hosts (run c es)) <> None.
Proof.
  intros Hin Hn. destruct (hosts_function_of_objs c es) as [Hh _]. rewrite Hh in Hn.
  pose proof (build_owner c (o_ings (objs_after es)) (o_vss (objs_after es)) (o_vsrs (objs_after es))
                (o_tss (objs_after es)) (o_gc (objs_after es)) h) as H.
  unfold hosts_of_objs in Hn. rewrite Hn in H. cbn in H.
  unfold holders in H. rewrite lookup_fold_claim1 in H. cbn [lookup] in H.
  destruct (best None (claimants (all_claims c (o_ings (objs_after es)) (o_vss (objs_after es)) (o_tss (objs_after es))) h)) eqn:Hb;
    [discriminate|].
  eapply best_nonempty; [|exact Hb]. intros He. unfold host_claims in Hin. rewrite He in Hin. destruct Hin.
Qed.

(* only claimants own: a host is never given to a resource that does not claim it *)
Theorem owner_is_claimant c es h r :
  lookup h (hosts (run c es)) = Some r ->
  exists m, In (h, (rkey r, m)) (host_claims c (objs_after es)).
Proof.
  intros Hl. destruct (hosts_function_of_objs c es) as [Hh _]. rewrite Hh in Hl.
  pose proof (build_owner c (o_ings (objs_after es)) (o_vss (objs_after es)) (o_vsrs (objs_after es))
                (o_tss (objs_after es)) (o_gc (objs_after es)) h) as H.
  unfold hosts_of_objs in Hl. rewrite Hl in H. cbn in H.
  destruct (lookup h (holders _)) as [[k m]|] eqn:Hk; [|discriminate]. cbn in H. inversion H; subst.
  exists m. apply holder_is_claim. exact Hk.
Qed.
