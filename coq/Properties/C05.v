(* C05 -- Every resource not serving traffic has been told why; active ones are not.
   Only statements, each closed by [exact] and followed by Print Assumptions.

   FULL STATEMENT (C05_truthful; not yet proved; decided on every run by evaluating
   Arb.Cases.c05_run on the implementation's own change and problem lists):
     for every history, after each event, for every object the controller knows (exists, own
     class): it is active  <->  the most recent report derived from the batches is a success.
   Proved below: the change half of it for Ingresses, VirtualServers and TransportServers -- for every history
   a resource is active iff the most recent change handed to the controller about it is an addOrUpdate (the
   change that carries the success report), so an active resource has had a fresh success after its last
   removal and a resource whose last change is a removal is not active -- and the soundness of the delta
   suppression the problem reports go through. *)
From Coq Require Import List ZArith String Bool.
From NIC Require Import Base.SMap Arb.Types Arb.Model Arb.Spec Arb.InvProofs Arb.ClassProofs Arb.Cases Arb.ChangeProofs Arb.ShadowProofs.
Import ListNotations.
Open Scope Z_scope.

(* For EVERY history: a resource (Ingress, VirtualServer, TransportServer) is active -- it is in
   GetResources() -- if and only if the most recent change about it, over the whole history, is an
   addOrUpdate.  processChanges reports a success exactly with an addOrUpdate change, so a resource that
   becomes active again always receives a fresh success, and a resource whose last change is a removal is
   never active.  ([all_changes] concatenates the batches of every event; hypothesis as in C03.) *)
Theorem C05_active_iff_last_change_is_update_partial :
  forall c es, Forall ev_role es ->
  forall k, In k (keys (get_resources (run c es))) <-> last_op k (all_changes c init es) None = Some AddOrUpdate.
Proof. exact active_iff_last_change_is_update. Qed.
Print Assumptions C05_active_iff_last_change_is_update_partial.

(* Problems are emitted as deltas against the previous problem set.  For EVERY history: every problem
   that is standing in hostProblems at the end has been sent, and it is the most recent problem sent
   about that object -- also when the problem had been dropped from the set in between and came
   back (it is then re-sent).  [told_hosts] accumulates, per object, the last problem of the deltas. *)
Theorem C05_standing_problems_were_told_partial :
  forall c es, let '(acc, s) := told_hosts c init [] es in told acc (hprobs s) /\ s = run c es.
Proof. exact standing_problems_were_told. Qed.
Print Assumptions C05_standing_problems_were_told_partial.

(* one round of delta suppression, for arbitrary problem maps *)
Theorem C05_delta_suppression_sound :
  forall acc old new, wf new -> keyed_by_obj new -> told acc old -> told (tell acc (problem_delta new old)) new.
Proof. exact delta_sound. Qed.
Print Assumptions C05_delta_suppression_sound.

(* the problem maps are a function of the object set: nothing about an object that left can linger *)
Theorem C05_problem_sets_function_of_objects : forall c es, full_inv c (run c es).
Proof. exact run_full_inv. Qed.
Print Assumptions C05_problem_sets_function_of_objects.

(* a re-sync that changes nothing is silent: no change, no problem (no report is repeated) *)
Theorem C05_resync_is_silent :
  forall c s, full_inv c s -> rebuild_hosts c s = (s, [], []).
Proof. exact rebuild_hosts_idem. Qed.
Print Assumptions C05_resync_is_silent.

(* Non-vacuity: a VirtualServer loses its host (problem), the winner is deleted (problem dropped,
   success), a new winner arrives (the problem comes back and is sent again). *)
Definition vA := mkVS (mkMeta "ns" "a" "u1" 200 1 0) "h.example.com" [] None.
Definition vB u := mkVS (mkMeta "ns" "b" u 100 1 0) "h.example.com" [] None.
Example C05_problem_comes_back :
  let c := mkCfg true true in
  let s2 := run c [EVS vA true true; EVS (vB "u2") true true] in
  let s3 := run c [EVS vA true true; EVS (vB "u2") true true; EDelVS "ns/b"] in
  map fst (hprobs s2) = ["VirtualServer/ns/a"%string] /\ hprobs s3 = [] /\
  map p_obj (host_delta c s3 (EVS (vB "u3") true true)) = ["VirtualServer/ns/a"%string].
Proof. vm_compute. auto. Qed.
