//go:build verif

package validation

import "regexp"

// VerifC06Regexps exposes the validator regular expressions of this package whose hand
// transcriptions in coq/Tmpl/Validators.v are compared with them on a corpus on every run.
func VerifC06Regexps() map[string]*regexp.Regexp {
	return map[string]*regexp.Regexp{
		"vs_path@validation.pathRegexp":                 pathRegexp,
		"escaped@validation.escapedStringsFmtRegexp":    escapedStringsFmtRegexp,
		"realm@validation.realmFmtRegexp":               realmFmtRegexp,
		"realm@validation.headerValueFmtRegexp":         headerValueFmtRegexp,
		"return_type@validation.actionReturnTypeRegexp": actionReturnTypeRegexp,
		"grpc_service@validation.grpcRegexp":            grpcRegexp,
		"ts_hash@validation.hashMethodRegexp":           hashMethodRegexp,
		"rate@validation.rateRegexp":                    rateRegexp,
	}
}
