(* Lex/Pack.v -- fast transport of large byte strings into Coq for the generated cases files.
   Coq 8.16 elaborates a string literal at about 60 microseconds per byte (a 25 KB configuration
   file costs 1.5 s before any lexing starts) and overflows the stack on literals above ~50 KB;
   a list of primitive 63-bit integers holding 7 bytes each (little endian) parses about six
   times faster and without a depth limit that matters here.

     unpack last ints : string      the bytes of all ints (7 each), except that the last int
                                    contributes only [last] bytes (1 <= last <= 7)
   Only used by generated cases files (vlib), never in a theorem.  No proofs. *)
From Coq Require Import List String Ascii Uint63 NArith ZArith.
Import ListNotations.

Definition byte_at (x : int) (k : int) : ascii :=
  let b := Uint63.land (Uint63.lsr x (Uint63.mul 8 k)) 255%uint63 in
  ascii_of_N (Z.to_N (Uint63.to_Z b)).

Definition bytes_of_int (n : nat) (x : int) (rest : string) : string :=
  let c k := byte_at x k in
  match n with
  | 0 => rest
  | 1 => String (c 0%uint63) rest
  | 2 => String (c 0%uint63) (String (c 1%uint63) rest)
  | 3 => String (c 0%uint63) (String (c 1%uint63) (String (c 2%uint63) rest))
  | 4 => String (c 0%uint63) (String (c 1%uint63) (String (c 2%uint63) (String (c 3%uint63) rest)))
  | 5 => String (c 0%uint63) (String (c 1%uint63) (String (c 2%uint63) (String (c 3%uint63) (String (c 4%uint63) rest))))
  | 6 => String (c 0%uint63) (String (c 1%uint63) (String (c 2%uint63) (String (c 3%uint63) (String (c 4%uint63)
           (String (c 5%uint63) rest)))))
  | _ => String (c 0%uint63) (String (c 1%uint63) (String (c 2%uint63) (String (c 3%uint63) (String (c 4%uint63)
           (String (c 5%uint63) (String (c 6%uint63) rest))))))
  end.

Fixpoint unpack (last : nat) (l : list int) : string :=
  match l with
  | [] => EmptyString
  | [x] => bytes_of_int last x EmptyString
  | x :: r => bytes_of_int 7 x (unpack last r)
  end.
