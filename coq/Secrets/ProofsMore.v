(* C11 -- consequences of the invariants in the words of the property, the meaning of [asked] in
   terms of the history, the link between the decidable specification and the declarative one,
   and the refutations (the ways in which the code as it stands violates the property). *)
From Coq Require Import List String Ascii Bool ZArith Lia.
From NIC Require Import Base.SMap Secrets.Model Secrets.Spec Secrets.ProofsNames Secrets.Proofs.
Import ListNotations.
Open Scope string_scope.
Open Scope list_scope.

Lemma grun_snoc h o : grun (h ++ [o]) = gstep (grun h) o.
Proof. unfold grun. rewrite fold_left_app. reflexivity. Qed.

Lemma run_snoc cadel h o : run cadel (h ++ [o]) = step_st cadel (run cadel h) o.
Proof. unfold run. rewrite fold_left_app. reflexivity. Qed.

Lemma hist_ok_snoc cadel U h o : forall g,
  hist_ok cadel U g (h ++ [o]) -> hist_ok cadel U g h /\ op_ok cadel U (fold_left gstep h g) o.
Proof.
  induction h as [|x r IH]; intros g H; cbn in *.
  - destruct H as [H _]. auto.
  - destruct H as [H1 H2]. destruct (IH _ H2) as [A B]. auto.
Qed.

(* ---------- the property, clause by clause ---------- *)

Section Clauses.
  Variable cadel : bool.
  Variable U : string -> Prop.
  Hypothesis U_disj : forall k1 k2, U k1 -> U k2 -> k1 <> k2 -> names_disjoint k1 k2.

  (* a file under one of k's names exists only if k's current version is valid and k was asked
     for, and it then holds the derivation of exactly that version *)
  Theorem file_only_if_valid_and_asked h k f c :
    hist_ok cadel U gempty h -> U k -> In f (names_of_key k) ->
    lookup f (files (run cadel h)) = Some c ->
    exists v, cur h k = Some v /\ vvalid v = true /\ asked h k = true /\
              assoc f (derived (key_to_fname k) v) = Some c.
  Proof.
    intros OK Uk Hf L.
    pose proof (key_files_exact_run cadel U U_disj h k OK Uk f Hf) as E. rewrite L in E.
    unfold expected, cur, asked in *. destruct (grun h k) as [[v a]|]; [|discriminate].
    destruct a; [|discriminate]. destruct (vvalid v) eqn:V; [|discriminate].
    exists v. cbn. auto.
  Qed.

  (* conversely the files of a valid Secret that was asked for are all there *)
  Theorem materialised h k v f c :
    hist_ok cadel U gempty h -> U k ->
    cur h k = Some v -> vvalid v = true -> asked h k = true ->
    assoc f (derived (key_to_fname k) v) = Some c ->
    lookup f (files (run cadel h)) = Some c.
  Proof.
    intros OK Uk C V A D.
    assert (Hf : In f (names_of_key k)) by (eapply assoc_derived_names; eauto).
    rewrite (key_files_exact_run cadel U U_disj h k OK Uk f Hf).
    unfold expected, cur, asked in *. destruct (grun h k) as [[v' a]|]; [|discriminate].
    cbn in C. injection C as ->. subst a. rewrite V. exact D.
  Qed.

  (* no valid current version: none of k's files exists *)
  Theorem no_valid_no_files h k :
    hist_ok cadel U gempty h -> U k ->
    (forall v, cur h k = Some v -> vvalid v = false) ->
    forall f, In f (names_of_key k) -> lookup f (files (run cadel h)) = None.
  Proof.
    intros OK Uk NV f Hf.
    rewrite (key_files_exact_run cadel U U_disj h k OK Uk f Hf).
    unfold expected, cur in *. destruct (grun h k) as [[v a]|]; [|reflexivity].
    rewrite (NV v eq_refl). destruct a; reflexivity.
  Qed.

  (* when the Secret becomes invalid its files are removed *)
  Theorem invalid_removes h ns name v :
    hist_ok cadel U gempty (h ++ [Upsert ns name v]) -> vvalid v = false ->
    forall f, In f (names_of_key (key_of ns name)) ->
              lookup f (files (run cadel (h ++ [Upsert ns name v]))) = None.
  Proof.
    intros OK V. destruct (hist_ok_snoc _ _ _ _ _ OK) as [_ (_ & _ & Uk & _)].
    apply no_valid_no_files; auto.
    intros v'. unfold cur. rewrite grun_snoc. cbn [gstep]. rewrite gset_eq. cbn. intros H. injection H as <-. exact V.
  Qed.

  (* when the Secret is deleted its files are removed *)
  Theorem delete_removes h k :
    hist_ok cadel U gempty (h ++ [Delete k]) -> U k ->
    forall f, In f (names_of_key k) -> lookup f (files (run cadel (h ++ [Delete k]))) = None.
  Proof.
    intros OK Uk. apply no_valid_no_files; auto.
    intros v'. unfold cur. rewrite grun_snoc. cbn [gstep]. rewrite gset_eq. discriminate.
  Qed.

  (* a lookup of a valid Secret materialises it at once, with the current content *)
  Theorem get_materialises h k v f c :
    hist_ok cadel U gempty h -> U k -> cur h k = Some v -> vvalid v = true ->
    assoc f (derived (key_to_fname k) v) = Some c ->
    lookup f (files (run cadel (h ++ [Get k]))) = Some c.
  Proof.
    intros OK Uk C V D.
    assert (OK' : hist_ok cadel U gempty (h ++ [Get k])).
    { clear - OK. revert OK. generalize gempty. induction h as [|x r IH]; intros g H; cbn in *; [auto|].
      destruct H; auto. }
    unfold cur in C. destruct (grun h k) as [[v' a]|] eqn:G; [|discriminate]. cbn in C. injection C as ->.
    apply (materialised (h ++ [Get k]) k v); auto.
    - unfold cur. rewrite grun_snoc. cbn [gstep]. rewrite G, gset_eq. reflexivity.
    - unfold asked. rewrite grun_snoc. cbn [gstep]. rewrite G, gset_eq, V. apply orb_true_r.
  Qed.
End Clauses.

(* ---------- what [asked] means in terms of the history ---------- *)

(* nothing in h2 makes k invalid or absent *)
Definition keeps_valid (k : string) (h2 : list op) : Prop :=
  forall o, In o h2 ->
    o <> Delete k /\
    forall ns name v, o = Upsert ns name v -> key_of ns name = k -> vvalid v = true.

Theorem asked_spec h : forall k,
  asked h k = true ->
  exists h1 o h2, h = h1 ++ o :: h2 /\ keeps_valid k h2 /\
    ((o = Get k /\ exists v, cur h1 k = Some v /\ vvalid v = true) \/
     (exists ns name, o = ForcePath ns name /\ key_of ns name = k /\ cur h1 k <> None)).
Proof.
  induction h as [|o h IH] using rev_ind; intros k A.
  - discriminate.
  - assert (EXT : asked h k = true ->
                  (o <> Delete k /\ forall ns name v, o = Upsert ns name v -> key_of ns name = k -> vvalid v = true) ->
                  exists h1 o0 h2, h ++ [o] = h1 ++ o0 :: h2 /\ keeps_valid k h2 /\
                    ((o0 = Get k /\ exists v, cur h1 k = Some v /\ vvalid v = true) \/
                     (exists ns name, o0 = ForcePath ns name /\ key_of ns name = k /\ cur h1 k <> None))).
    { intros A0 K. destruct (IH k A0) as (h1 & o0 & h2 & -> & KV & W).
      exists h1, o0, (h2 ++ [o]). split; [rewrite <- app_assoc; reflexivity|]. split; [|exact W].
      intros o' I. apply in_app_or in I. destruct I as [I|[<-|[]]]; auto. }
    unfold asked in A. rewrite grun_snoc in A.
    destruct o as [ns name v|k0|k0|ns name]; cbn [gstep] in A.
    + destruct (string_dec k (key_of ns name)) as [->|N].
      * rewrite gset_eq in A. apply andb_true_iff in A. destruct A as [V A].
        apply EXT.
        -- unfold asked. destruct (grun h (key_of ns name)) as [[v0 a0]|]; [exact A|discriminate].
        -- split; [discriminate|]. intros ns' name' v' E _. injection E as _ _ <-. exact V.
      * rewrite gset_neq in A by assumption. apply EXT; [exact A|].
        split; [discriminate|]. intros ns' name' v' E K. injection E as -> -> _. congruence.
    + destruct (string_dec k k0) as [->|N].
      * rewrite gset_eq in A. discriminate.
      * rewrite gset_neq in A by assumption. apply EXT; [exact A|].
        split; [congruence|]. discriminate.
    + destruct (grun h k0) as [[v0 a0]|] eqn:G.
      * destruct (string_dec k k0) as [->|N].
        -- rewrite gset_eq in A. destruct a0.
           ++ apply EXT; [unfold asked; rewrite G; reflexivity|]. split; discriminate.
           ++ cbn in A. exists h, (Get k0), []. split; [reflexivity|]. split; [intros o []|].
              left. split; [reflexivity|]. exists v0. unfold cur. rewrite G. auto.
        -- rewrite gset_neq in A by assumption. apply EXT; [exact A|]. split; discriminate.
      * apply EXT; [exact A|]. split; discriminate.
    + destruct (grun h (key_of ns name)) as [[v0 a0]|] eqn:G.
      * destruct (string_dec k (key_of ns name)) as [->|N].
        -- exists h, (ForcePath ns name), []. split; [reflexivity|]. split; [intros o []|].
           right. exists ns, name. split; [reflexivity|]. split; [reflexivity|]. unfold cur. rewrite G. discriminate.
        -- rewrite gset_neq in A by assumption. apply EXT; [exact A|]. split; discriminate.
      * apply EXT; [exact A|]. split; discriminate.
Qed.

(* ---------- the decidable specification evaluated on listings (Cases.v) says the same ---------- *)

Lemma file_eqb_eq a b : file_eqb a b = true <-> a = b.
Proof.
  destruct a as [m s], b as [m' s']. unfold file_eqb. cbn. rewrite andb_true_iff, Z.eqb_eq, String.eqb_eq.
  split; [intros [-> ->]; reflexivity|intros H; injection H; auto].
Qed.

Lemma ofile_eqb_eq a b : ofile_eqb a b = true <-> a = b.
Proof.
  destruct a as [x|], b as [y|]; cbn; try (split; [discriminate|discriminate]); [|tauto].
  rewrite file_eqb_eq. split; [intros ->; reflexivity|intros H; injection H; auto].
Qed.

Theorem key_ok_iff g d k : key_ok g d k = true <-> key_files_exact g d k.
Proof.
  unfold key_ok, key_files_exact. rewrite forallb_forall.
  split; intros H f Hf; apply ofile_eqb_eq; auto.
Qed.

(* ---------- refutations: how the code as it stands violates the property ---------- *)

Definition vA : ver := mkver type_tls true "A" "" "".
Definition vB : ver := mkver type_tls true "B" "" "".
Definition vCA : ver := mkver type_ca true "" "CRT" "CRL".
Definition vJ : ver := mkver type_jwk true "J" "" "".
Definition vO : ver := mkver type_oidc true "" "" "".
Definition anyU : string -> Prop := fun _ => True.

Ltac solve_hist :=
  unfold anyU; cbn; repeat split; auto;
  try (right; unfold vkind; cbn; discriminate); try (left; reflexivity).

(* F09: namespace a-b / name c and namespace a / name b-c share the file a-b-c.  The history is
   admissible in every other respect (Kubernetes names, no type change, no CA secret); after it
   the file that belongs to a/b-c holds the key material of a-b/c. *)
Definition h_collision : list op :=
  [Upsert "a-b" "c" vA; Upsert "a" "b-c" vB; Get "a/b-c"; Get "a-b/c"].

Theorem secret_file_name_refuted :
  exists ns1 name1 ns2 name2,
    no_slash ns1 /\ no_slash name1 /\ no_slash ns2 /\ no_slash name2 /\
    key_of ns1 name1 <> key_of ns2 name2 /\ fname ns1 name1 = fname ns2 name2 /\
    forall cadel,
      hist_ok cadel anyU gempty h_collision /\
      cur h_collision (key_of ns2 name2) = Some vB /\ asked h_collision (key_of ns2 name2) = true /\
      lookup (fname ns2 name2) (files (run cadel h_collision)) = Some (mode_rw_only, vmain vA) /\
      ~ key_files_exact (grun h_collision) (files (run cadel h_collision)) (key_of ns2 name2).
Proof.
  exists "a-b", "c", "a", "b-c".
  split; [reflexivity|]. split; [reflexivity|]. split; [reflexivity|]. split; [reflexivity|].
  split; [discriminate|]. split; [reflexivity|]. intros cadel.
  split; [solve_hist|]. split; [reflexivity|]. split; [reflexivity|].
  split; [destruct cadel; reflexivity|].
  intros H. specialize (H "a-b-c" (or_introl eq_refl)). destruct cadel; vm_compute in H; discriminate.
Qed.

(* ... and deleting one of the two removes the file the other still points to *)
Theorem secret_file_name_delete_refuted :
  forall cadel,
    let h := h_collision ++ [Delete "a-b/c"] in
    hist_ok cadel anyU gempty h /\
    cur h "a/b-c" = Some vB /\ asked h "a/b-c" = true /\
    lookup "a-b-c" (files (run cadel h)) = None.
Proof.
  intros cadel. cbv zeta.
  split; [solve_hist|]. split; [reflexivity|]. split; [reflexivity|]. destruct cadel; reflexivity.
Qed.

(* F34: the files of a CA secret survive its deletion (code as it stands: cadel = false) *)
Definition h_ca_leak : list op := [Upsert "default" "x" vCA; Get "default/x"; Delete "default/x"].

Theorem ca_files_leak_refuted :
  cur h_ca_leak "default/x" = None /\
  lookup "default-x-ca.crt" (files (run false h_ca_leak)) = Some (mode_rw_only, "CRT") /\
  lookup "default-x-ca.crl" (files (run false h_ca_leak)) = Some (mode_rw_only, "CRL") /\
  ~ key_files_exact (grun h_ca_leak) (files (run false h_ca_leak)) "default/x" /\
  (* with the repaired DeleteSecret the same history is admissible and leaves nothing *)
  hist_ok true anyU gempty h_ca_leak /\ files (run true h_ca_leak) = [].
Proof.
  split; [reflexivity|]. split; [reflexivity|]. split; [reflexivity|].
  split; [|split; [solve_hist|reflexivity]].
  intros H. specialize (H "default-x-ca.crt" (or_intror (or_introl eq_refl))). vm_compute in H. discriminate.
Qed.

(* F35: a materialised Secret reappears with another type: the old file stays *)
Definition h_retype : list op := [Upsert "default" "x" vJ; Get "default/x"; Upsert "default" "x" vO].

Theorem type_change_refuted :
  forall cadel,
    cur h_retype "default/x" = Some vO /\
    derived "default-x" vO = [] /\
    lookup "default-x" (files (run cadel h_retype)) = Some (mode_jwk, "J") /\
    ~ key_files_exact (grun h_retype) (files (run cadel h_retype)) "default/x".
Proof.
  intros cadel. split; [reflexivity|]. split; [reflexivity|]. split; [destruct cadel; reflexivity|].
  intros H. specialize (H "default-x" (or_introl eq_refl)). destruct cadel; vm_compute in H; discriminate.
Qed.

(* F36: a CA secret x and a Secret named x-ca.crt in the same namespace share a file, even with
   the repaired DeleteSecret and although the namespace contains no dash *)
Definition h_ca_suffix : list op :=
  [Upsert "default" "x" vCA; Upsert "default" "x-ca.crt" vB; Get "default/x-ca.crt"; Get "default/x"].

Theorem ca_suffix_collision_refuted :
  no_dash "default" /\
  In "default-x-ca.crt" (names_of_key "default/x") /\ In "default-x-ca.crt" (names_of_key "default/x-ca.crt") /\
  hist_ok true anyU gempty h_ca_suffix /\
  cur h_ca_suffix "default/x-ca.crt" = Some vB /\ asked h_ca_suffix "default/x-ca.crt" = true /\
  lookup "default-x-ca.crt" (files (run true h_ca_suffix)) = Some (mode_rw_only, "CRT") /\
  ~ key_files_exact (grun h_ca_suffix) (files (run true h_ca_suffix)) "default/x-ca.crt".
Proof.
  split; [reflexivity|]. split; [right; left; reflexivity|]. split; [left; reflexivity|].
  split; [solve_hist|]. split; [reflexivity|]. split; [reflexivity|]. split; [reflexivity|].
  intros H. specialize (H "default-x-ca.crt" (or_introl eq_refl)). vm_compute in H. discriminate.
Qed.

(* ---------- a concrete admissible, non-trivial history (the hypotheses are satisfiable) ---------- *)

Lemma short_no_ca_suffix name : String.length name < 7 -> no_ca_suffix name.
Proof.
  intros L p. split; intros ->; rewrite slength_app in L; cbn in L; lia.
Qed.

Definition vJbad : ver := mkver type_jwk false "" "" "".
Definition vAbad : ver := mkver type_tls false "" "" "".
Definition h_example : list op :=
  [Upsert "default" "s1" vA; Get "default/s1"; Upsert "default" "s1" vB;
   Upsert "team" "j" vJbad; ForcePath "team" "j"; Upsert "team" "j" vJ;
   Upsert "prod" "ca" vCA; Get "prod/ca"].

Lemma h_example_ok : hist_ok true dashfree_key gempty h_example.
Proof.
  assert (D1 : dashfree_key "default/s1").
  { exists "default", "s1". repeat split; try reflexivity; apply short_no_ca_suffix; cbn; lia. }
  assert (D2 : dashfree_key "team/j").
  { exists "team", "j". repeat split; try reflexivity; apply short_no_ca_suffix; cbn; lia. }
  assert (D3 : dashfree_key "prod/ca").
  { exists "prod", "ca". repeat split; try reflexivity; apply short_no_ca_suffix; cbn; lia. }
  cbn. repeat split; auto.
Qed.

(* after its first five steps nothing is on disk (the JWK secret is invalid); after all eight the
   directory holds the TLS file with the content of the second version, the JWK file written by
   the update that made it valid (it was referenced while invalid), and the two CA files *)
Lemma h_example_files :
  files (run true h_example) =
  [("default-s1", (mode_rw_only, "B")); ("prod-ca-ca.crl", (mode_rw_only, "CRL"));
   ("prod-ca-ca.crt", (mode_rw_only, "CRT")); ("team-j", (mode_jwk, "J"))].
Proof. vm_compute. reflexivity. Qed.
