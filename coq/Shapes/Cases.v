(* C17 -- functions the generated cases files call.  No proofs here.

   Protocol.  A shape is named by a decimal code (one decimal digit per field, leading 1).
   For every shape the harness reports digits (0 ok, 1 rejected, 2 panic), one group per
   (flag setting, prior state) in the order of the enumerations of Model.v.  Codes and digit
   strings travel as primitive 63-bit integers (literals of type [int] parse in constant
   time; [Z] and [string] literals of this size do not): the code as it is, the digits
   packed base 4, 30 per integer (five integers per case), first digit in the lowest bits.  The functions below
   decode the code, compute the same digits from the model and compare. *)
From Coq Require Import List ZArith Bool Arith Uint63.
From NIC Require Import Shapes.Model.
Import ListNotations.

(* ------------------------------------------------------------------ digits *)

Definition small_nat (x : int) : nat := Z.to_nat (Uint63.to_Z x).

(* decimal digits of x, least significant first *)
Fixpoint dec_digits (n : nat) (x : int) : list nat :=
  match n with
  | O => []
  | S n' => small_nat (x mod 10)%uint63 :: dec_digits n' (x / 10)%uint63
  end.

(* n base-4 digits of x, lowest first *)
Fixpoint quads (n : nat) (x : int) : list nat :=
  match n with
  | O => []
  | S n' => small_nat (x land 3)%uint63 :: quads n' (x >> 2)%uint63
  end.

(* the harness digit string: up to 150 digits in five integers *)
Definition unpack (n : nat) (a b c d e : int) : list nat :=
  quads (Nat.min n 30) a ++ quads (Nat.min (n - 30) 30) b ++ quads (Nat.min (n - 60) 30) c ++
  quads (Nat.min (n - 90) 30) d ++ quads (Nat.min (n - 120) 30) e.

Fixpoint nats_eqb (a b : list nat) : bool :=
  match a, b with
  | [], [] => true
  | x :: a', y :: b' => Nat.eqb x y && nats_eqb a' b'
  | _, _ => false
  end.

Definition has2 (l : list nat) : bool := existsb (Nat.eqb 2) l.
Definition worst_digit (l : list nat) : Z :=
  if has2 l then 2%Z else if existsb (Nat.eqb 1) l then 1%Z else 0%Z.

(* drop the last digit of every group of [g] (the S-only digit the model does not predict) *)
Fixpoint strip_last (g : nat) (k : nat) (l : list nat) : list nat :=
  match l with
  | [] => []
  | x :: t => if Nat.eqb (S k) g then strip_last g 0 t else x :: strip_last g (S k) t
  end.

Definition odigit (o : outcome) : nat :=
  match o with OOk => 0 | ORejected => 1 | OPanic => 2 end.

(* code of a list of decimal digits given most significant first, with a leading 1 *)
Definition code_of (ds : list nat) : int :=
  fold_left (fun acc d => (acc * 10 + Uint63.of_Z (Z.of_nat d))%uint63) ds 1%uint63.

(* row: [id; model agrees; spec holds; nontrivial; branch tag]
   spec (S): an admissible shape shows no panic digit anywhere (including S-only digits).
   nontrivial: the shape is admissible.  tag: 10 * admissible + worst digit of the model;
   tag -1: the code does not name a shape. *)
Definition row (id : int) (model obs_model_part obs_all : list nat) (adm : bool) : list Z :=
  [Uint63.to_Z id;
   if nats_eqb model obs_model_part then 1 else 0;
   if adm && has2 obs_all then 0 else 1;
   if adm then 1 else 0;
   (if adm then 10 else 0) + worst_digit model]%Z.

Definition bad_row (id : int) : list Z := [Uint63.to_Z id; 0; 0; 0; (-1)]%Z.

(* ------------------------------------------------------------------ Ingress codes *)

(* digits, most significant first, after the leading 1:
   d default backend (0 none, 1 service, 2 resource, 3 neither); t tls; m mergeable type
   (0 none, 1 master, 2 minion, 3 garbage); c challenge label; a annotations (0,1,2);
   n number of rules; h http of rule 1 (0 nil, 1 no paths, 2 one path, 3 two paths);
   s pathType shape of the first path (0 nil, 1 ImplementationSpecific+empty, 2 Prefix);
   k backend of the first path (1 service, 2 resource, 3 neither); k2 backend of the second
   path; r2 second rule (0 nil http, 1-3 backend of its path).  Unused fields are 0. *)
Definition bk_digit (k : bk) : nat := match k with KSvc => 1 | KRes => 2 | KNeither => 3 end.
Definition ps_digit (s : pspec) : nat := match s with PNil => 0 | PImplEmpty => 1 | PPrefix => 2 end.

Definition http_digits (h : http_sh) : list nat :=
  match h with
  | HNil => [0; 0; 0; 0]
  | HPaths Ps0 => [1; 0; 0; 0]
  | HPaths (Ps1 s k) => [2; ps_digit s; bk_digit k; 0]
  | HPaths (Ps2 s k k2) => [3; ps_digit s; bk_digit k; bk_digit k2]
  end.

Definition rules_digits (r : rules_sh) : list nat :=
  match r with
  | Rs0 => [0; 0; 0; 0; 0; 0]
  | Rs1 h => 1 :: http_digits h ++ [0]
  | Rs2 h x => 2 :: http_digits h ++ [match x with R2Nil => 0 | R2Path k => bk_digit k end]
  end.

Definition ing_digits (s : ing_shape) : list nat :=
  [match sh_default s with None => 0 | Some k => bk_digit k end;
   if sh_tls s then 1 else 0;
   match sh_merge s with MNone => 0 | MMaster => 1 | MMinion => 2 | MGarbage => 3 end;
   if sh_chal s then 1 else 0;
   match sh_ann s with ANone => 0 | AClusterIP => 1 | AHealth => 2 end] ++ rules_digits (sh_rules s).

Definition ing_code (s : ing_shape) : int := code_of (ing_digits s).

Definition parse_bk (d : nat) : option bk :=
  match d with 1 => Some KSvc | 2 => Some KRes | 3 => Some KNeither | _ => None end.
Definition parse_ps (d : nat) : option pspec :=
  match d with 0 => Some PNil | 1 => Some PImplEmpty | 2 => Some PPrefix | _ => None end.
Definition parse_bool (d : nat) : option bool :=
  match d with 0 => Some false | 1 => Some true | _ => None end.

Definition parse_http (h s k k2 : nat) : option http_sh :=
  match h with
  | 0 => Some HNil
  | 1 => Some (HPaths Ps0)
  | 2 => match parse_ps s, parse_bk k with Some x, Some y => Some (HPaths (Ps1 x y)) | _, _ => None end
  | 3 => match parse_ps s, parse_bk k, parse_bk k2 with
         | Some x, Some y, Some z => Some (HPaths (Ps2 x y z)) | _, _, _ => None end
  | _ => None
  end.

Definition parse_rules (n h s k k2 r2 : nat) : option rules_sh :=
  match n with
  | 0 => Some Rs0
  | 1 => option_map Rs1 (parse_http h s k k2)
  | 2 => match parse_http h s k k2 with
         | Some x => match r2 with
                     | 0 => Some (Rs2 x R2Nil)
                     | _ => option_map (fun b => Rs2 x (R2Path b)) (parse_bk r2)
                     end
         | None => None
         end
  | _ => None
  end.

(* decode; the result is accepted only when it encodes back to the same code (canonical) *)
Definition ing_of_code (c : int) : option ing_shape :=
  match rev (dec_digits 12 c) with
  | [1; d; t; m; ch; a; n; h; s; k; k2; r2] =>
      let od := match d with 0 => Some None | _ => option_map Some (parse_bk d) end in
      let om := match m with 0 => Some MNone | 1 => Some MMaster | 2 => Some MMinion | 3 => Some MGarbage | _ => None end in
      let oa := match a with 0 => Some ANone | 1 => Some AClusterIP | 2 => Some AHealth | _ => None end in
      match od, parse_bool t, om, parse_bool ch, oa, parse_rules n h s k k2 r2 with
      | Some d', Some t', Some m', Some c', Some a', Some r' =>
          let sh := {| sh_default := d'; sh_tls := t'; sh_rules := r'; sh_merge := m'; sh_chal := c'; sh_ann := a' |} in
          if Uint63.eqb (ing_code sh) c then Some sh else None
      | _, _, _, _, _, _ => None
      end
  | _ => None
  end.

(* the model's digits for one Ingress shape: for every flag setting of all_iflags, for every
   prior state of all_ctx: validate, store, extend, delete *)
Definition obs_digits (o : option ing_obs) : list nat :=
  match o with
  | None => [9; 9; 9; 9]
  | Some o => [odigit (o_validate o); odigit (o_config o); odigit (o_extend o); odigit (o_delete o)]
  end.

Definition ing_model_digits_with chal (s : ing_shape) : list nat :=
  flat_map (fun fl => flat_map (fun c =>
    obs_digits (scenario_observe_with chal {| sc_flags := fl; sc_ctx := c; sc_shape := s |})) all_ctx) all_iflags.

Definition ing_model_digits := ing_model_digits_with validate_challenge.

(* the harness reports 5 digits per group: the model's four plus the worker's sync function *)
Definition ing_case (id code o1 o2 o3 o4 o5 : int) : list Z :=
  match ing_of_code code with
  | None => bad_row id
  | Some s =>
      let obs := unpack 80 o1 o2 o3 o4 o5 in
      row id (ing_model_digits s) (strip_last 5 0 obs) obs (shape_admissible s)
  end.

(* ------------------------------------------------------------------ CRD codes *)

Definition obit (b : bool) : nat := if b then 1 else 0.
Definition optbool_digit (o : option bool) : nat :=
  match o with None => 0 | Some false => 1 | Some true => 2 end.
Definition parse_optbool (d : nat) : option (option bool) :=
  match d with 0 => Some None | 1 => Some (Some false) | 2 => Some (Some true) | _ => None end.

Definition act_digit (a : act_sh) : nat :=
  match a with
  | ActNil => 0 | ActEmpty => 1 | ActPass => 2 | ActRedirect => 3 | ActReturn => 4 | ActProxy => 5
  | ActProxyHdr => 6 | ActProxyHdrPass => 7 | ActTwo => 8
  end.
Definition parse_act (d : nat) : option act_sh := nth_error all_act_sh d.
Definition act2_digit (a : act2_sh) : nat := match a with A2Nil => 0 | A2Pass => 1 | A2Return => 2 end.
Definition parse_act2 (d : nat) : option act2_sh := nth_error all_act2_sh d.
Definition ms_digit (m : msplits_sh) : nat := match m with MS0 => 0 | MS2 => 1 | MS2Nil => 2 end.

(* route: a s sa sb m mc ma ms e er ed r *)
Definition route_digits (r : route_sh) : list nat :=
  [act_digit (rs_action r)] ++
  match rs_splits r with Sp0 => [0; 0; 0] | Sp1 => [1; 0; 0] | Sp2 a b => [2; act2_digit a; act2_digit b] end ++
  match rs_matches r with Mt0 => [0; 0; 0; 0] | Mt1 c a s => [1; obit c; obit a; ms_digit s] end ++
  match rs_errpages r with Ep0 => [0; 0; 0] | Ep1 a b => [1; obit a; obit b] end ++
  [obit (rs_route r)].

Definition parse_route (ds : list nat) : option route_sh :=
  match ds with
  | [a; s; sa; sb; m; mc; ma; ms; e; er; ed; r] =>
      let os := match s with
                | 0 => Some Sp0 | 1 => Some Sp1
                | 2 => match parse_act2 sa, parse_act2 sb with Some x, Some y => Some (Sp2 x y) | _, _ => None end
                | _ => None end in
      let om := match m with
                | 0 => Some Mt0
                | 1 => match parse_bool mc, parse_bool ma, nth_error all_msplits_sh ms with
                       | Some x, Some y, Some z => Some (Mt1 x y z) | _, _, _ => None end
                | _ => None end in
      let oe := match e with
                | 0 => Some Ep0
                | 1 => match parse_bool er, parse_bool ed with Some x, Some y => Some (Ep1 x y) | _, _ => None end
                | _ => None end in
      match parse_act a, os, om, oe, parse_bool r with
      | Some a', Some s', Some m', Some e', Some r' =>
          Some {| rs_action := a'; rs_splits := s'; rs_matches := m'; rs_errpages := e'; rs_route := r' |}
      | _, _, _, _, _ => None
      end
  | _ => None
  end.

Definition up_digit (u : up_sh) : nat :=
  match u with
  | UpBare => 0 | UpHealth false => 1 | UpHealth true => 2 | UpCookie => 3 | UpQueue => 4 | UpBuffers => 5
  | UpBackup => 6 | UpBackupNameOnly => 7 | UpBackupPortOnly => 8 | UpInts => 9
  end.
Definition parse_up (d : nat) : option up_sh := nth_error all_up_sh d.

Definition zeros (n : nat) : list nat := repeat 0 n.

Definition pk_digit (k : pkind) : nat := match k with PkPrefix => 0 | PkExact => 1 | PkRegex => 2 end.
Definition parse_pk (d : nat) : option pkind := nth_error all_pkind d.

(* VirtualServer: k payload(12); k: 0 bare, 1 route, 2 tls (t s r c l), 3 upstream (u),
   4 route reference only, with a path of kind (0 prefix, 1 exact, 2 regex) *)
Definition vs_digits (s : vs_shape) : list nat :=
  match s with
  | VsBare => 0 :: zeros 12
  | VsRoute r => 1 :: route_digits r
  | VsTls Tl0 l => [2; 0; 0; 0; 0; obit l] ++ zeros 7
  | VsTls (Tl1 sec r c) l => [2; 1; obit sec; optbool_digit r; obit c; obit l] ++ zeros 7
  | VsUp u => [3; up_digit u] ++ zeros 11
  | VsRef k => [4; pk_digit k] ++ zeros 11
  end.
Definition vs_code (s : vs_shape) : int := code_of (vs_digits s).

Definition vs_of_code (c : int) : option vs_shape :=
  match rev (dec_digits 14 c) with
  | 1 :: k :: rest =>
      let r := match k, rest with
               | 0, _ => Some VsBare
               | 1, _ => option_map VsRoute (parse_route rest)
               | 2, t :: sec :: rd :: cm :: l :: _ =>
                   match t, parse_bool sec, parse_optbool rd, parse_bool cm, parse_bool l with
                   | 0, _, _, _, Some l' => Some (VsTls Tl0 l')
                   | 1, Some a, Some b, Some c', Some l' => Some (VsTls (Tl1 a b c') l')
                   | _, _, _, _, _ => None
                   end
               | 3, u :: _ => option_map VsUp (parse_up u)
               | 4, k' :: _ => option_map VsRef (parse_pk k')
               | _, _ => None
               end in
      match r with
      | Some sh => if Uint63.eqb (vs_code sh) c then Some sh else None
      | None => None
      end
  | _ => None
  end.

Definition vsr_digits (s : vsr_shape) : list nat :=
  match s with
  | VrBare => 0 :: zeros 12
  | VrRoute r => 1 :: route_digits r
  | VrUp u => [3; up_digit u] ++ zeros 11
  | VrTwo => 4 :: zeros 12
  | VrOther => 5 :: zeros 12
  end.
Definition vsr_code (s : vsr_shape) : int := code_of (vsr_digits s).

Definition vsr_of_code (c : int) : option vsr_shape :=
  match rev (dec_digits 14 c) with
  | 1 :: k :: rest =>
      let r := match k, rest with
               | 0, _ => Some VrBare
               | 1, _ => option_map VrRoute (parse_route rest)
               | 3, u :: _ => option_map VrUp (parse_up u)
               | 4, _ => Some VrTwo
               | 5, _ => Some VrOther
               | _, _ => None
               end in
      match r with
      | Some sh => if Uint63.eqb (vsr_code sh) c then Some sh else None
      | None => None
      end
  | _ => None
  end.

(* TransportServer: l h t u p s a *)
Definition ts_digits (s : ts_shape) : list nat :=
  [match tsh_listener s with TLTcp => 0 | TLUdp => 1 | TLPassthrough => 2 end;
   obit (tsh_host s); optbool_digit (tsh_tls s);
   match tsh_up s with TU0 => 0 | TU1 h => 1 + optbool_digit h end;
   optbool_digit (tsh_uparams s); obit (tsh_sparams s); optbool_digit (tsh_action s)].
Definition ts_code (s : ts_shape) : int := code_of (ts_digits s).

Definition ts_of_code (c : int) : option ts_shape :=
  match rev (dec_digits 8 c) with
  | [1; l; h; t; u; p; s; a] =>
      let ou := match u with 0 => Some TU0 | S u' => option_map TU1 (parse_optbool u') end in
      match nth_error all_ts_listener l, parse_bool h, parse_optbool t, ou, parse_optbool p, parse_bool s, parse_optbool a with
      | Some l', Some h', Some t', Some u', Some p', Some s', Some a' =>
          let sh := {| tsh_listener := l'; tsh_host := h'; tsh_tls := t'; tsh_up := u'; tsh_uparams := p';
                       tsh_sparams := s'; tsh_action := a' |} in
          if Uint63.eqb (ts_code sh) c then Some sh else None
      | _, _, _, _, _, _, _ => None
      end
  | _ => None
  end.

(* Policy: n kind x y *)
Definition polkind_digits (k : polkind_sh) : list nat :=
  match k with
  | KAccess a d => [0; obit a; obit d]
  | KRate (Rl p c) => [1; obit p; optbool_digit c]
  | KJwt => [2; 0; 0]
  | KBasic => [3; 0; 0]
  | KIngressMTLS d => [4; obit d; 0]
  | KEgressMTLS d => [5; obit d; 0]
  | KOidc l => [6; obit l; 0]
  | KApiKey Ak0 => [7; 0; 0]
  | KApiKey (Ak1 h q) => [7; 1; 2 * obit h + obit q]
  | KWaf (Wf l ls) => [8; obit l; optbool_digit ls]
  end.
Definition pol_digits (s : pol_shape) : list nat :=
  match s with Po0 => [0; 0; 0; 0] | Po1 k => 1 :: polkind_digits k | Po2 k => 2 :: polkind_digits k end.
Definition pol_code (s : pol_shape) : int := code_of (pol_digits s).

Definition parse_polkind (k x y : nat) : option polkind_sh :=
  match k with
  | 0 => match parse_bool x, parse_bool y with Some a, Some d => Some (KAccess a d) | _, _ => None end
  | 1 => match parse_bool x, parse_optbool y with Some p, Some c => Some (KRate (Rl p c)) | _, _ => None end
  | 2 => Some KJwt
  | 3 => Some KBasic
  | 4 => option_map KIngressMTLS (parse_bool x)
  | 5 => option_map KEgressMTLS (parse_bool x)
  | 6 => option_map KOidc (parse_bool x)
  | 7 => match x with
         | 0 => Some (KApiKey Ak0)
         | 1 => Some (KApiKey (Ak1 (Nat.leb 2 y) (Nat.odd y)))
         | _ => None end
  | 8 => match parse_bool x, parse_optbool y with Some l, Some ls => Some (KWaf (Wf l ls)) | _, _ => None end
  | _ => None
  end.

Definition pol_of_code (c : int) : option pol_shape :=
  match rev (dec_digits 5 c) with
  | [1; n; k; x; y] =>
      let r := match n with
               | 0 => Some Po0
               | 1 => option_map Po1 (parse_polkind k x y)
               | 2 => option_map Po2 (parse_polkind k x y)
               | _ => None end in
      match r with
      | Some sh => if Uint63.eqb (pol_code sh) c then Some sh else None
      | None => None
      end
  | _ => None
  end.

Definition gc_digit (g : gc_shape) : nat :=
  match g with Gc0 => 0 | Gc1 => 1 | Gc1Bad => 2 | Gc2Dup => 3 | Gc2 => 4 end.
Definition gc_code (g : gc_shape) : int := code_of [gc_digit g].
Definition gc_of_code (c : int) : option gc_shape :=
  match rev (dec_digits 2 c) with
  | [1; d] => nth_error all_gc_shapes d
  | _ => None
  end.

(* --- model digits *)

Definition crd_digits (o : crd_obs) : list nat :=
  [odigit (c_validate o); odigit (c_store o); odigit (c_extend o); odigit (c_delete o)].

(* VirtualServer: (plus, certmgr) in the order of all_iflags, then all_vctx *)
Definition vs_model_digits (s : vs_shape) : list nat :=
  flat_map (fun fl => flat_map (fun c => crd_digits (vs_observe (if_plus fl) (if_certmgr fl) c (vs_of s)))
                               all_vctx) all_iflags.
(* VirtualServerRoute: plus, then all_rctx *)
Definition vsr_model_digits (s : vsr_shape) : list nat :=
  flat_map (fun plus => flat_map (fun c => crd_digits (vsr_observe plus c (vsr_of s))) all_rctx) all_bool.
(* TransportServer: tlsPassthrough, then all_tctx *)
Definition ts_model_digits (s : ts_shape) : list nat :=
  flat_map (fun tp => flat_map (fun c => crd_digits (ts_observe tp c (ts_of s))) all_tctx) all_bool.
(* Policy: plus, appProtect: validate, extend *)
Definition pol_model_digits (s : pol_shape) : list nat :=
  flat_map (fun plus => flat_map (fun ap =>
    let o := pol_observe plus ap (policy_of s) in [odigit (po_validate o); odigit (po_extend o)]) all_bool) all_bool.
(* GlobalConfiguration: two prior states *)
Definition gc_model_digits (g : gc_shape) : list nat :=
  crd_digits (gc_observe g) ++ crd_digits (gc_observe g).

(* all CRD shapes are admitted by the schemas (checked by the harness); the harness reports one
   extra S-only digit (the worker's sync function) per group *)
Definition vs_case (id code o1 o2 o3 o4 o5 : int) : list Z :=
  match vs_of_code code with
  | None => bad_row id
  | Some s => let obs := unpack 140 o1 o2 o3 o4 o5 in row id (vs_model_digits s) (strip_last 5 0 obs) obs true
  end.
Definition vsr_case (id code o1 o2 o3 o4 o5 : int) : list Z :=
  match vsr_of_code code with
  | None => bad_row id
  | Some s => let obs := unpack 40 o1 o2 o3 o4 o5 in row id (vsr_model_digits s) (strip_last 5 0 obs) obs true
  end.
Definition ts_case (id code o1 o2 o3 o4 o5 : int) : list Z :=
  match ts_of_code code with
  | None => bad_row id
  | Some s => let obs := unpack 20 o1 o2 o3 o4 o5 in row id (ts_model_digits s) (strip_last 5 0 obs) obs true
  end.
Definition pol_case (id code o1 o2 o3 o4 o5 : int) : list Z :=
  match pol_of_code code with
  | None => bad_row id
  | Some s => let obs := unpack 12 o1 o2 o3 o4 o5 in row id (pol_model_digits s) (strip_last 3 0 obs) obs true
  end.
Definition gc_case (id code o1 o2 o3 o4 o5 : int) : list Z :=
  match gc_of_code code with
  | None => bad_row id
  | Some s => let obs := unpack 10 o1 o2 o3 o4 o5 in row id (gc_model_digits s) (strip_last 5 0 obs) obs true
  end.

(* computed obligation: every shape of every enumeration decodes back from its code to a
   shape with the same digits (the decoders are canonical: they re-encode and compare) *)
Definition ing_code_roundtrip (s : ing_shape) : bool :=
  match ing_of_code (ing_code s) with
  | Some s' => nats_eqb (ing_digits s) (ing_digits s')
  | None => false
  end.

Definition rt {A} (of_code : int -> option A) (code : A -> int) (digits : A -> list nat) (s : A) : bool :=
  match of_code (code s) with Some s' => nats_eqb (digits s) (digits s') | None => false end.

Definition codes_roundtrip : bool :=
  forallb ing_code_roundtrip all_ing_shapes &&
  forallb (rt vs_of_code vs_code vs_digits) all_vs_shapes &&
  forallb (rt vsr_of_code vsr_code vsr_digits) all_vsr_shapes &&
  forallb (rt ts_of_code ts_code ts_digits) all_ts_shapes &&
  forallb (rt pol_of_code pol_code pol_digits) all_pol_shapes &&
  forallb (rt gc_of_code gc_code (fun g => [gc_digit g])) all_gc_shapes.

(* sizes of the enumerations, in the order ing, vs, vsr, ts, pol, gc *)
Definition shape_counts : list nat :=
  [List.length all_ing_shapes; List.length all_vs_shapes; List.length all_vsr_shapes;
   List.length all_ts_shapes; List.length all_pol_shapes; List.length all_gc_shapes].
