(* C02 -- listener admission: model of GlobalConfigurationValidator.getValidListeners
   (pkg/apis/configuration/validation/globalconfiguration.go) and of the wiring of the reserved
   ports in cmd/nginx-ingress/main.go createGlobalConfigurationValidator.  No proofs here. *)
From Coq Require Import List ZArith String Ascii Bool.
From NIC Require Import Arb.Types.
Import ListNotations.
Open Scope string_scope.
Open Scope Z_scope.

(* command-line flags that reserve ports *)
Record flags := mkFlags {
  f_status : bool; f_status_port : Z;
  f_metrics : bool; f_metrics_port : Z;
  f_insight : bool; f_insight_port : Z;
  f_passthrough : bool; f_passthrough_port : Z
}.

Definition forbidden_of (f : flags) : list Z :=
  [80; 443] ++ (if f_status f then [f_status_port f] else []) ++ (if f_metrics f then [f_metrics_port f] else [])
            ++ (if f_insight f then [f_insight_port f] else []) ++ (if f_passthrough f then [f_passthrough_port f] else []).

(* a listener entry as written by the user, with the syntactic verdicts that are not modelled
   (DNS-1035 label syntax of the name, IPv4 / IPv6 address syntax) as oracle bits *)
Record entry := mkE { e_l : listener; e_name_ok : bool; e_ip4_ok : bool; e_ip6_ok : bool }.

Definition zmem (x : Z) (l : list Z) : bool := existsb (Z.eqb x) l.
Definition smem (x : string) (l : list string) : bool := existsb (String.eqb x) l.

Definition proto_allowed (p : string) : bool := smem p ["TCP"; "UDP"; "HTTP"].

(* validateListener: no error *)
Definition wellformed (forbidden : list Z) (e : entry) : bool :=
  let l := e_l e in
  negb (String.eqb (l_name l) "tls-passthrough") && e_name_ok e &&
  negb (zmem (l_port l) forbidden) && (1 <=? l_port l) && (l_port l <=? 65535) &&
  proto_allowed (l_proto l) &&
  (String.eqb (l_ipv4 l) "" || e_ip4_ok e) && (String.eqb (l_ipv6 l) "" || e_ip6_ok e).

Definition eff4 (l : listener) : string := if String.eqb (l_ipv4 l) "" then "0.0.0.0" else l_ipv4 l.
Definition eff6 (l : listener) : string := if String.eqb (l_ipv6 l) "" then "::" else l_ipv6 l.

(* two protocols cannot share an ip:port *)
Definition proto_conflict (mine existing : string) : bool :=
  if String.eqb mine "HTTP" || String.eqb mine "TCP" then String.eqb existing "HTTP" || String.eqb existing "TCP"
  else if String.eqb mine "UDP" then String.eqb existing "UDP"
  else false.

(* map[IP]map[Port][]Protocol as a list of recorded (ip, port, protocol) triples *)
Definition table := list (string * Z * string).

Definition table_conflict (t : table) (ip : string) (port : Z) (proto : string) : bool :=
  existsb (fun r => match r with (ip', port', p') =>
                      String.eqb ip ip' && (port =? port') && proto_conflict proto p' end) t.

Record astate := mkA { a_names : list string; a_t4 : table; a_t6 : table; a_out : list listener }.

Definition admit_step (forbidden : list Z) (s : astate) (e : entry) : astate :=
  let l := e_l e in
  if negb (wellformed forbidden e) then s
  else if smem (l_name l) (a_names s) then s
  else
    let names := l_name l :: a_names s in
    if table_conflict (a_t4 s) (eff4 l) (l_port l) (l_proto l) then
      mkA names ((eff4 l, l_port l, l_proto l) :: a_t4 s) (a_t6 s) (a_out s)
    else if table_conflict (a_t6 s) (eff6 l) (l_port l) (l_proto l) then
      mkA names (a_t4 s) ((eff6 l, l_port l, l_proto l) :: a_t6 s) (a_out s)
    else
      mkA names ((eff4 l, l_port l, l_proto l) :: a_t4 s) ((eff6 l, l_port l, l_proto l) :: a_t6 s)
          (a_out s ++ [l])%list.

Definition admitl (forbidden : list Z) (es : list entry) : list listener :=
  a_out (fold_left (admit_step forbidden) es (mkA [] [] [] [])).

(* ---- declarative specification: no tables, conflicts are with ADMITTED listeners only ---- *)

Definition listeners_conflict (a b : listener) : bool :=
  (l_port a =? l_port b) && proto_conflict (l_proto a) (l_proto b) &&
  (String.eqb (eff4 a) (eff4 b) || String.eqb (eff6 a) (eff6 b)).

Fixpoint spec_admit (forbidden : list Z) (seen : list string) (adm : list listener) (es : list entry) : list listener :=
  match es with
  | [] => adm
  | e :: r =>
      let l := e_l e in
      if wellformed forbidden e && negb (smem (l_name l) seen) then
        if existsb (listeners_conflict l) adm
        then spec_admit forbidden (l_name l :: seen) adm r
        else spec_admit forbidden (l_name l :: seen) (adm ++ [l])%list r
      else spec_admit forbidden seen adm r
  end.

(* decidable form of the guarantees, evaluated on the implementation's own admitted list *)
Fixpoint pairwise {A} (ok : A -> A -> bool) (l : list A) : bool :=
  match l with [] => true | x :: r => forallb (ok x) r && pairwise ok r end.

Definition admitted_ok (forbidden : list Z) (adm : list listener) : bool :=
  pairwise (fun a b => negb (listeners_conflict b a) && negb (String.eqb (l_name a) (l_name b))) adm &&
  forallb (fun l => negb (zmem (l_port l) forbidden) && (1 <=? l_port l) && (l_port l <=? 65535) &&
                    negb (String.eqb (l_name l) "tls-passthrough") && proto_allowed (l_proto l)) adm.
