//go:build verif

package k8s

// Add-only hook for the C08 harness: a LoadBalancerController assembled the way the unit tests
// assemble it (struct literal, cache.NewStore listers, real Configuration, real secret store, real
// App Protect configuration, real Configurator), and the real Ex constructors
// (createVirtualServerEx: getPolicies + add*SecretRefs + addWAFPolicyRefs; createIngressEx;
// createMergeableIngresses) applied to what the real Configuration accepted.

import (
	"io"
	"log/slog"

	api_v1 "k8s.io/api/core/v1"
	networking "k8s.io/api/networking/v1"
	"k8s.io/apimachinery/pkg/apis/meta/v1/unstructured"
	"k8s.io/client-go/tools/cache"

	"github.com/nginx/kubernetes-ingress/internal/configs"
	"github.com/nginx/kubernetes-ingress/internal/k8s/appprotect"
	"github.com/nginx/kubernetes-ingress/internal/k8s/appprotectdos"
	"github.com/nginx/kubernetes-ingress/internal/k8s/secrets"
	"github.com/nginx/kubernetes-ingress/internal/metrics/collectors"
	conf_v1 "github.com/nginx/kubernetes-ingress/pkg/apis/configuration/v1"
	"github.com/nginx/kubernetes-ingress/pkg/apis/configuration/validation"
)

// VerifC08Opts are the switches of the controller that matter for policies.
type VerifC08Opts struct {
	IsPlus       bool
	EnableOIDC   bool
	AppProtect   bool
	IngressClass string
	Configurator *configs.Configurator
}

// VerifC08 wraps the controller.
type VerifC08 struct {
	lbc *LoadBalancerController
	nsi *namespacedInformer
}

// NewVerifC08 builds the controller.
func NewVerifC08(o VerifC08Opts) *VerifC08 {
	nsi := &namespacedInformer{
		svcLister:                 cache.NewStore(keyFunc),
		endpointSliceLister:       storeToEndpointSliceLister{cache.NewStore(keyFunc)},
		podLister:                 indexerToPodLister{cache.NewIndexer(keyFunc, cache.Indexers{cache.NamespaceIndex: cache.MetaNamespaceIndexFunc})},
		policyLister:              cache.NewStore(keyFunc),
		ingressLister:             storeToIngressLister{cache.NewStore(keyFunc)},
		virtualServerLister:       cache.NewStore(keyFunc),
		virtualServerRouteLister:  cache.NewStore(keyFunc),
		transportServerLister:     cache.NewStore(keyFunc),
		secretLister:              cache.NewStore(keyFunc),
		areCustomResourcesEnabled: true,
		isSecretsEnabledNamespace: true,
		appProtectEnabled:         o.AppProtect,
	}
	lbc := &LoadBalancerController{
		ingressClass:              o.IngressClass,
		configurator:              o.Configurator,
		metricsCollector:          collectors.NewControllerFakeCollector(),
		Logger:                    slog.New(slog.NewTextHandler(io.Discard, nil)),
		namespacedInformers:       map[string]*namespacedInformer{"": nsi},
		isNginxPlus:               o.IsPlus,
		areCustomResourcesEnabled: true,
		enableOIDC:                o.EnableOIDC,
		appProtectEnabled:         o.AppProtect,
		dosConfiguration:          appprotectdos.NewConfiguration(false),
	}
	lbc.appProtectConfiguration = appprotect.NewConfiguration(lbc.Logger)
	lbc.configuration = NewConfiguration(
		lbc.HasCorrectIngressClass,
		o.IsPlus,
		o.AppProtect,
		false,
		false,
		validation.NewVirtualServerValidator(validation.IsPlus(o.IsPlus)),
		validation.NewGlobalConfigurationValidator(map[int]bool{80: true, 443: true}),
		validation.NewTransportServerValidator(false, false, o.IsPlus),
		false,
		false,
		false,
		false,
	)
	lbc.secretStore = secrets.NewLocalSecretStore(o.Configurator)
	return &VerifC08{lbc: lbc, nsi: nsi}
}

// AddPolicy puts a Policy into the lister (the cluster state getPolicies reads).
func (v *VerifC08) AddPolicy(p *conf_v1.Policy) { _ = v.nsi.policyLister.Add(p) }

// AddSecret does what the secret informer handler + syncSecret do with a Secret: unsupported
// types are ignored (createSecretHandlers), everything else goes to the real store, which
// validates it.  It returns whether the secret was handed to the store.
func (v *VerifC08) AddSecret(s *api_v1.Secret) bool {
	if !secrets.IsSupportedSecretType(s.Type) {
		return false
	}
	v.lbc.secretStore.AddOrUpdateSecret(s)
	return true
}

// DeleteSecret does what syncSecret does when the Secret is gone from the lister.
func (v *VerifC08) DeleteSecret(key string) { v.lbc.secretStore.DeleteSecret(key) }

// AddAPPolicy / AddAPLogConf feed the real App Protect configuration; the result says whether the
// resource is usable afterwards (GetAppResource succeeds).
func (v *VerifC08) AddAPPolicy(u *unstructured.Unstructured) bool {
	v.lbc.appProtectConfiguration.AddOrUpdatePolicy(u)
	_, err := v.lbc.appProtectConfiguration.GetAppResource(appprotect.PolicyGVK.Kind, u.GetNamespace()+"/"+u.GetName())
	return err == nil
}

// AddAPLogConf adds an APLogConf.
func (v *VerifC08) AddAPLogConf(u *unstructured.Unstructured) bool {
	v.lbc.appProtectConfiguration.AddOrUpdateLogConf(u)
	_, err := v.lbc.appProtectConfiguration.GetAppResource(appprotect.LogConfGVK.Kind, u.GetNamespace()+"/"+u.GetName())
	return err == nil
}

// PolicyClassOK is the real class filter applied to a Policy.
func (v *VerifC08) PolicyClassOK(p *conf_v1.Policy) bool { return v.lbc.HasCorrectIngressClass(p) }

// PolicyValid is the real validator call getPolicies makes.
func (v *VerifC08) PolicyValid(p *conf_v1.Policy) bool {
	return validation.ValidatePolicy(p, v.lbc.isNginxPlus, v.lbc.enableOIDC, v.lbc.appProtectEnabled) == nil
}

// VerifC08Built is what the real Configuration + Ex constructors made of one upsert.
type VerifC08Built struct {
	VS        []*configs.VirtualServerEx
	Ingresses []*configs.IngressEx
	Mergeable []*configs.MergeableIngresses
	Problems  int
}

func (v *VerifC08) build(changes []ResourceChange, problems int) VerifC08Built {
	out := VerifC08Built{Problems: problems}
	for _, c := range changes {
		if c.Op != AddOrUpdate {
			continue
		}
		switch impl := c.Resource.(type) {
		case *VirtualServerConfiguration:
			out.VS = append(out.VS, v.lbc.createVirtualServerEx(impl.VirtualServer, impl.VirtualServerRoutes))
		case *IngressConfiguration:
			if impl.IsMaster {
				out.Mergeable = append(out.Mergeable, v.lbc.createMergeableIngresses(impl))
			} else {
				out.Ingresses = append(out.Ingresses, v.lbc.createIngressEx(impl.Ingress, impl.ValidHosts, nil))
			}
		}
	}
	return out
}

// AddVirtualServer runs the real Configuration and builds the Ex objects of the emitted changes.
func (v *VerifC08) AddVirtualServer(vs *conf_v1.VirtualServer) VerifC08Built {
	ch, pr := v.lbc.configuration.AddOrUpdateVirtualServer(vs)
	return v.build(ch, len(pr))
}

// AddVirtualServerRoute does the same for a VirtualServerRoute.
func (v *VerifC08) AddVirtualServerRoute(vsr *conf_v1.VirtualServerRoute) VerifC08Built {
	ch, pr := v.lbc.configuration.AddOrUpdateVirtualServerRoute(vsr)
	return v.build(ch, len(pr))
}

// AddIngress does the same for an Ingress.
func (v *VerifC08) AddIngress(ing *networking.Ingress) VerifC08Built {
	ch, pr := v.lbc.configuration.AddOrUpdateIngress(ing)
	return v.build(ch, len(pr))
}
