"""C04 -- master/minion and VirtualServer/Route composition is exactly as declared."""
import json
from . import common as C, arb

ID, MASK, FIRST, STEP, CODE, OI, NEV = range(7)
RELEVANT = 16


def has_composition(c):
    for st in c["histories"][0]["steps"]:
        for r in st["res"]:
            if r.get("minions") or r.get("vsrs"):
                return True
    return False


def judge(run, cases, rows):
    for c in cases:
        if c.get("error"):
            run.failing({"kind": "harness-case-error"}, [c], "harness could not run case %d: %s" % (c["id"], c["error"][:300]),
                        theorem="correspondence harness arb", found_input="panic" in c["error"])
            continue
        r = rows[c["id"]]
        run.count_case(arb.canon(c), has_composition(c))
        run.cov["traces_validated_against_impl"] += len(c["histories"])
        if r[STEP] != 0 and r[CODE] == 2:
            run.failing({"kind": "route-attached-twice"}, [c],
                        "C04/C07: after step %d of case %d one VirtualServerRoute is attached twice to the same VirtualServer (two routes reference it)" % (r[STEP], c["id"]),
                        theorem="Arb.Cases.vsrs_once")
        elif r[STEP] != 0:
            run.failing({"kind": "composition-not-as-declared"}, [c],
                        "C04: after step %d of case %d the minions / valid paths / routes attached in GetResources() differ from the declarative composition of the current object set, "
                        "or a resource that does not own its host composes" % (r[STEP], c["id"]), theorem="Arb.Cases.composition_ok")
        elif r[OI] == 0:
            run.failing({"kind": "order-dependent"}, [c], "C04: histories of case %d ending in the same object set end with different compositions" % c["id"],
                        theorem="Arb.Cases.obs_final_eqb")
        elif r[MASK] & RELEVANT:
            run.failing({"kind": "correspondence", "components": r[MASK] & RELEVANT}, [c],
                        "model and implementation disagree on resources (mask %d, first step %d, case %d) while the composition specification holds" % (r[MASK], r[FIRST], c["id"]),
                        theorem="correspondence Arb.Model ~ internal/k8s/configuration.go (GetResources)", found_input=False)


def check(run):
    n = 250 if run.tier == "quick" else 5000
    run.proof_obligations()
    cases = arb.generate(run, n)
    rows = arb.evaluate(run, cases, fn="c04_case")
    judge(run, cases, rows)
    for c in [x for x in cases if has_composition(x)][:2]:
        run.sample(arb.summarize_case(c))
    run.cov["rule"] = ("histories of the arb harness (see C01): masters and minions sharing paths, several namespaces, routes referenced by bare name and namespace/name, prefix / exact / "
                       "regex route paths, parent host loss, challenge Ingresses; after every event the composition in GetResources() is compared with the declarative composition of the "
                       "object set the history determines; non-trivial = some resource had minions or routes attached at some step")
    run.cov["trusted_base"] = arb.TRUSTED
    run.assumptions += ["the full VirtualServerRoute validator is an oracle; the per-reference part (host, subroute paths) is modelled"]


def replay(run, path):
    cases = arb.replay_cases(run, path)
    rows = arb.evaluate(run, cases, fn="c04_case")
    for c in cases:
        if not c.get("error"):
            r = rows[c["id"]]
            print("replay case %d: mask=%d first=%d; composition first failing step=%d code=%d; order-independent=%d" % (c["id"], r[MASK], r[FIRST], r[STEP], r[CODE], r[OI]))
    judge(run, cases, rows)
