(* C08 -- Fail closed: an unusable policy or certificate never yields unprotected service.
   Only statements, each closed by [exact], each followed by Print Assumptions.

   Vocabulary (Policies/Model.v, Policies/Spec.v):
     generate_policies refs pm d sc   the loop of generatePolicies on the references of one scope;
                                      pm = the policy map createVirtualServerEx built (getPolicies),
                                      d = state of Secrets / App Protect resources / TLS, sc = context
                                      (spec | route | subroute), owner namespace, VS-wide OIDC slot
     ref_unusable pm d sc r           r does not resolve in pm (Policy missing, invalid, of another
                                      class: dropped by getPolicies) or resolves to a policy one of whose
                                      dependencies is missing / invalid / wrongly typed, or that is not
                                      allowed in this context
     shadowed pm ns pre r             an earlier reference of the same list resolves to a policy of the
                                      same kind
   FULL STATEMENT of the first clause of the property (FALSE of the code, see C08_scope_fails_closed_refuted):
     forall refs pm d sc r, In r refs -> ref_unusable pm d sc r -> generate_policies refs pm d sc = ErrorReturn.
   The code ignores (with a warning) the second and later jwt / basicAuth / ingressMTLS / egressMTLS /
   oidc / waf policy of a scope BEFORE looking at its dependencies, so an unusable duplicate does not
   fail the scope.  Proved instead: the statement for every reference that is not shadowed. *)
From Coq Require Import List String Bool.
From NIC Require Import Lex.Lexer Lex.Parser Policies.Model Policies.Spec Policies.Proofs Policies.ProofsCheck Policies.ProofsVS.
Import ListNotations.
Open Scope string_scope.
Open Scope list_scope.

(* For EVERY list of references (any length), every policy map, every dependency state, every
   scope: an unusable reference that no earlier reference of its own kind shadows makes the
   outcome the error return -- whatever valid or invalid policies stand before and after it. *)
Theorem C08_scope_fails_closed_partial :
  forall (pre : list polref) (r : polref) (post : list polref) (pm : policy_map) (d : deps) (sc : scope),
    ref_unusable pm d sc r ->
    ~ shadowed pm (sc_owner_ns sc) pre r ->
    generate_policies (pre ++ r :: post) pm d sc = ErrorReturn.
Proof. exact scope_fails_closed_partial. Qed.
Print Assumptions C08_scope_fails_closed_partial.

(* The unrestricted statement is false: second JWT policy with a missing Secret, after a usable one. *)
Theorem C08_scope_fails_closed_refuted :
  exists refs pm d sc r,
    In r refs /\ ref_unusable pm d sc r /\ generate_policies refs pm d sc <> ErrorReturn.
Proof. exact scope_fails_closed_refuted. Qed.
Print Assumptions C08_scope_fails_closed_refuted.

(* A reference that getPolicies dropped (missing / foreign class / invalid Policy) fails the scope
   in every position; it cannot be shadowed. *)
Theorem C08_unresolved_reference_fails :
  forall pre r post pm d sc,
    assoc (ref_key (sc_owner_ns sc) r) pm = None ->
    generate_policies (pre ++ r :: post) pm d sc = ErrorReturn.
Proof. exact unresolved_ref_fails. Qed.
Print Assumptions C08_unresolved_reference_fails.

(* getPolicies / createPolicyMap: a Policy that is missing, of another class or invalid never
   resolves in the map built for a VirtualServer. *)
Theorem C08_dropped_policy_unresolvable :
  forall cls cluster v k,
    (assoc k cluster = None \/
     exists cp, assoc k cluster = Some cp /\ (class_ok cls cp = false \/ cp_valid cp = false)) ->
    assoc k (vs_policy_map cls cluster v) = None.
Proof. exact dropped_policy_unresolvable_vs. Qed.
Print Assumptions C08_dropped_policy_unresolvable.

(* From the cluster state: the decidable predicate the check evaluates on the inputs
   (policy_unusable: missing | foreign class | invalid | dependency missing / invalid / wrong type |
   wrong context) implies the error return, for the map of ANY VirtualServer. *)
Theorem C08_scope_fails_closed_from_cluster :
  forall cls cluster v d sc pre r post,
    sc_oidc sc <> Some (ref_key (sc_owner_ns sc) r) ->
    policy_unusable cls cluster d (sc_ctx sc) (sc_owner_ns sc) r = true ->
    ~ shadowed (vs_policy_map cls cluster v) (sc_owner_ns sc) pre r ->
    generate_policies (pre ++ r :: post) (vs_policy_map cls cluster v) d sc = ErrorReturn.
Proof. exact scope_fails_closed_from_cluster_vs. Qed.
Print Assumptions C08_scope_fails_closed_from_cluster.

(* Every scope of a VirtualServer (spec, own route, subroute with its own references, subroute
   inheriting the references of the delegating route) is decided by generate_policies on exactly
   the references vs_scopes lists; so an unusable unshadowed reference gives that server / location
   PoliciesErrorReturn. *)
Theorem C08_every_scope_of_a_virtualserver :
  forall v pm d id ctx own pre r post,
    In (id, ctx, own, pre ++ r :: post) (vs_scopes v) ->
    (forall slot, ref_unusable pm d (mkScope ctx own slot) r) ->
    ~ shadowed pm own pre r ->
    exists vw, In (id, vw) (vs_views v pm d) /\ lv_err vw = true.
Proof. exact vs_scope_fails_closed. Qed.
Print Assumptions C08_every_scope_of_a_virtualserver.

(* The classification the check computes on the INPUTS of every case (Spec.scan_refs = true: the scope
   has an unusable reference -- Policy missing / foreign class / invalid, Secret or App Protect
   dependency missing / invalid / wrongly typed, wrong context -- that no earlier reference of its
   kind shadows) implies the error return, for every scope of every VirtualServer, with the policy
   map createVirtualServerEx builds for it. *)
Theorem C08_check_classification_implies_error_return :
  forall cls cluster v d id ctx own refs slot,
    In (id, ctx, own, refs) (vs_scopes v) ->
    (forall r, In r refs -> slot <> Some (ref_key own r)) ->
    fst (scan_refs cls cluster d ctx own [] refs) = true ->
    generate_policies refs (vs_policy_map cls cluster v) d (mkScope ctx own slot) = ErrorReturn.
Proof. exact unshadowed_scan_implies_error_return. Qed.
Print Assumptions C08_check_classification_implies_error_return.

(* THE VirtualServer-level statement.  For every VirtualServer (any number of routes, attached
   VirtualServerRoutes and subroutes, any policy lists) whose namespaces contain no slash (vs_wf), with
   the policy map createVirtualServerEx builds from ANY cluster state: every scope -- spec, own route,
   subroute with its own references, subroute inheriting the references of the delegating route --
   that has an unusable reference not shadowed by an earlier reference of its kind gets
   PoliciesErrorReturn.  The VirtualServer-wide OIDC slot needs no side condition: it is proved to
   hold only keys of OIDC policies whose client Secret is usable. *)
Theorem C08_virtualserver_fails_closed :
  forall cls cluster v d id ctx own refs,
    vs_wf v ->
    In (id, ctx, own, refs) (vs_scopes v) ->
    fst (scan_refs cls cluster d ctx own [] refs) = true ->
    exists vw, In (id, vw) (vs_views v (vs_policy_map cls cluster v) d) /\ lv_err vw = true.
Proof. exact vs_unusable_scope_renders_error. Qed.
Print Assumptions C08_virtualserver_fails_closed.

(* The inheritance rule: which references a subroute is judged on. *)
Theorem C08_inherited_scope :
  forall v x s,
    In x (vs_vsrs v) -> In s (v_subs x) ->
    In (sub_scope_of v x s) (vs_scopes v) /\
    (s_pols s = [] ->
       snd (sub_scope_of v x s) = inherited_refs (vs_ns v) (vs_routes v) (nskey (v_ns x) (v_name x)) [] /\
       snd (fst (fst (sub_scope_of v x s))) = CRoute) /\
    (s_pols s <> [] -> snd (sub_scope_of v x s) = s_pols s /\ snd (fst (fst (sub_scope_of v x s))) = CSubroute).
Proof. exact inherited_scope. Qed.
Print Assumptions C08_inherited_scope.

(* An error-return outcome carries no policy additions (nothing of the discarded configuration
   leaks into the location), only the error. *)
Theorem C08_error_return_carries_nothing :
  forall so,
    lv_err (view_of ErrorReturn so) = true /\
    let a := lv_acc (view_of ErrorReturn so) in
    a_access a = false /\ a_rate a = false /\ a_jwt a = false /\ a_basic a = false /\ a_imtls a = false /\
    a_emtls a = false /\ a_apikey a = false /\ a_waf a = false.
Proof. exact error_view_carries_nothing. Qed.
Print Assumptions C08_error_return_carries_nothing.

(* Rendered level.  A block consisting of harmless directives, the template's PoliciesErrorReturn
   site, and ANYTHING after it (auth directives, proxy_pass, ...) satisfies the predicate the check
   evaluates on the real output.  That the real templates have this shape is what S checks on the
   real bytes of every case; it is not proved here. *)
Theorem C08_unusable_policy_closes_location :
  forall pre_refs r post_refs pm d sc so (pre post : list directive) f http srv,
    ref_unusable pm d sc r -> ~ shadowed pm (sc_owner_ns sc) pre_refs r ->
    forallb harmless pre = true ->
    let v := view_of (generate_policies (pre_refs ++ r :: post_refs) pm d sc) so in
    error_page_targets (pre ++ render_error_return v ++ post) = [] ->
    loc_closed (S f) http srv (pre ++ render_error_return v ++ post) = true.
Proof. exact unusable_policy_closes_location. Qed.
Print Assumptions C08_unusable_policy_closes_location.

(* TLS: a named Secret that is missing, invalid or of the wrong type gives reject-handshake and
   no certificate, for VirtualServer and Ingress hosts alike. *)
Theorem C08_tls_rejects :
  forall name ns d wildcard path_of st,
    name <> "" -> secret_state d TyTLS (nskey ns name) = st ->
    st = SMissing \/ st = SInvalid \/ st = SWrongType ->
    vs_ssl_config (Some name) ns d wildcard path_of = Some (mkSsl true "") /\
    ingress_ssl_config (Some name) ns d wildcard path_of = Some (mkSsl true "").
Proof. exact tls_rejects_both. Qed.
Print Assumptions C08_tls_rejects.

(* ... also for an internal route of NGINX Service Mesh: the mesh (SPIFFE) certificate never stands in
   for an unusable TLS Secret (served_certificate = None means ssl_reject_handshake on, no certificate). *)
Theorem C08_reject_wins_over_mesh_certificate :
  forall name ns d wildcard path_of st spiffe s,
    name <> "" -> secret_state d TyTLS (nskey ns name) = st ->
    st = SMissing \/ st = SInvalid \/ st = SWrongType ->
    (vs_ssl_config (Some name) ns d wildcard path_of = Some s \/ ingress_ssl_config (Some name) ns d wildcard path_of = Some s) ->
    served_certificate spiffe s = None.
Proof. exact reject_wins_over_mesh_certificate. Qed.
Print Assumptions C08_reject_wins_over_mesh_certificate.

(* ... and conversely a certificate is configured only for a usable TLS Secret of that name (or
   the wildcard when no name is given): never another certificate. *)
Theorem C08_certificate_only_when_usable :
  forall tls ns d wildcard path_of s,
    (vs_ssl_config tls ns d wildcard path_of = Some s \/ ingress_ssl_config tls ns d wildcard path_of = Some s) ->
    ssl_reject s = false ->
    exists name, tls = Some name /\
      ((name = "" /\ wildcard = true /\ ssl_cert s = wildcard_pem) \/
       (secret_state d TyTLS (nskey ns name) = SOk /\ ssl_cert s = path_of (nskey ns name))).
Proof. exact certificate_only_when_usable. Qed.
Print Assumptions C08_certificate_only_when_usable.

(* What the states mean in terms of the cluster. *)
Theorem C08_secret_state_meaning :
  forall d ty key,
    (secret_state d ty key = SMissing <->
       (assoc key (d_secrets d) = None \/ exists s, assoc key (d_secrets d) = Some s /\ sec_type s = TyOther)) /\
    (secret_state d ty key = SOk ->
       exists s, assoc key (d_secrets d) = Some s /\ sec_type s = ty /\ sec_valid s = true).
Proof. exact secret_state_meaning. Qed.
Print Assumptions C08_secret_state_meaning.

(* Secrets over time: a Secret whose last event is its deletion -- whatever it was before (valid,
   invalid, referenced or never referenced) -- is Missing for every consumer, and a host naming it
   rejects handshakes. *)
Theorem C08_deleted_secret_is_missing :
  forall h k d ty,
    d_secrets d = secrets_of_history (h ++ [SecDelete k]) ->
    secret_state d ty k = SMissing.
Proof. exact deleted_secret_missing. Qed.
Print Assumptions C08_deleted_secret_is_missing.

Theorem C08_deleted_tls_secret_rejects :
  forall h name ns d wildcard path_of,
    name <> "" ->
    d_secrets d = secrets_of_history (h ++ [SecDelete (nskey ns name)]) ->
    vs_ssl_config (Some name) ns d wildcard path_of = Some (mkSsl true "") /\
    ingress_ssl_config (Some name) ns d wildcard path_of = Some (mkSsl true "").
Proof. exact deleted_tls_secret_rejects. Qed.
Print Assumptions C08_deleted_tls_secret_rejects.

(* Ingress JWT / basic auth: with the annotation present the directive is configured in EVERY
   state of the Secret (the state only adds a warning). *)
Theorem C08_ingress_auth_kept :
  forall expected name ns d file_of,
    exists a, ingress_auth expected (Some name) ns d file_of = Some a /\
              au_file a = file_of (nskey ns name) /\
              (au_warn a = true <-> secret_state d expected (nskey ns name) <> SOk).
Proof. exact ingress_auth_kept. Qed.
Print Assumptions C08_ingress_auth_kept.

(* ---------------------------------------------------------------- non-vacuity *)

Definition ex_pm : policy_map :=
  [("default/acl", mkPolicy KAccess "" "" false "" "" [] [] "" false);
   ("default/basic", mkPolicy KBasic "htp" "" false "" "" [] [] "" false);
   ("default/waf", mkPolicy KWaf "" "" false "ap" "" ["lc"] [] "" false)].
Definition ex_deps_ok : deps :=
  mkDeps [("default/htp", mkSecret TyHtpasswd true)] ["default/ap"] ["default/lc"] [] true.
Definition ex_deps_bad : deps :=
  mkDeps [("default/htp", mkSecret TyTLS true)] ["default/ap"] ["default/lc"] [] true.
Definition ex_sc : scope := mkScope CSubroute "default" None.

(* with usable dependencies the scope is served with all three policies *)
Example C08_nonvacuous_applied :
  exists a, generate_policies [("", "acl"); ("", "basic"); ("", "waf")] ex_pm ex_deps_ok ex_sc = Applied a /\
            a_access a = true /\ a_basic a = true /\ a_waf a = true.
Proof. eexists. vm_compute. repeat split. Qed.

(* the hypotheses of the theorem are met by a wrongly typed Secret in the middle of the list *)
Example C08_nonvacuous_unusable :
  ref_unusable ex_pm ex_deps_bad ex_sc ("", "basic") /\
  ~ shadowed ex_pm "default" [("", "acl")] ("", "basic") /\
  generate_policies ([("", "acl")] ++ ("", "basic") :: [("", "waf")]) ex_pm ex_deps_bad ex_sc = ErrorReturn.
Proof.
  split; [vm_compute; reflexivity|]. split; [|vm_compute; reflexivity].
  intros (r' & p' & p & I & A & B & K). destruct I as [I|[]]. subst r'.
  vm_compute in A. vm_compute in B. inversion A; inversion B; subst. discriminate.
Qed.

Example C08_nonvacuous_tls :
  vs_ssl_config (Some "tls") "default" (mkDeps [("default/tls", mkSecret TyCA true)] [] [] [] false) false (fun k => k)
  = Some (mkSsl true "") /\
  vs_ssl_config (Some "tls") "default" (mkDeps [("default/tls", mkSecret TyTLS true)] [] [] [] false) false (fun k => k)
  = Some (mkSsl false "default/tls").
Proof. split; vm_compute; reflexivity. Qed.

(* a VirtualServer whose route /v delegates to default/vsr1 and carries a basicAuth policy with a
   Secret of the wrong type: the subroute without policies inherits it and fails; the subroute with its
   own (usable) policy and the plain route are served *)
Definition ex_cluster : list (string * cpolicy) :=
  [("default/acl", mkCPolicy (mkPolicy KAccess "" "" false "" "" [] [] "" false) "" true);
   ("default/basic", mkCPolicy (mkPolicy KBasic "htp" "" false "" "" [] [] "" false) "nginx" true)].
Definition ex_vs : vserver :=
  mkVs "default" []
       [mkRoute "/v" "default/vsr1" [("", "basic")]; mkRoute "/r" "" [("", "acl")]]
       [mkVsr "default" "vsr1" [mkSub "/v/a" []; mkSub "/v/b" [("", "acl")]]].

Example C08_nonvacuous_virtualserver :
  map (fun x => (fst x, lv_err (snd x))) (vs_views ex_vs (vs_policy_map "nginx" ex_cluster ex_vs) ex_deps_bad)
  = [("spec", false); ("route:/r", false); ("sub:default/vsr1:/v/a", true); ("sub:default/vsr1:/v/b", false)] /\
  map (fun sc => fst (scan_refs "nginx" ex_cluster ex_deps_bad (snd (fst (fst sc))) (snd (fst sc)) [] (snd sc))) (vs_scopes ex_vs)
  = [false; false; true; false].
Proof. split; vm_compute; reflexivity. Qed.

(* references are (namespace, name) PAIRS: two references with the same name in different
   namespaces are different policies.  {name: guard} resolves to default/guard (usable),
   {name: guard, namespace: other} to other/guard, whose Secret is missing: not shadowed (another
   kind), so the scope fails -- in both orders. *)
Definition ex_pm2 : policy_map :=
  [("default/guard", mkPolicy KAccess "" "" false "" "" [] [] "" false);
   ("other/guard", mkPolicy KBasic "htp" "" false "" "" [] [] "" false)].
Definition ex_deps2 : deps := mkDeps [("default/htp", mkSecret TyHtpasswd true)] [] [] [] true.

Example C08_same_name_other_namespace :
  ref_key "default" ("", "guard") <> ref_key "default" ("other", "guard") /\
  ref_unusable ex_pm2 ex_deps2 (mkScope CRoute "default" None) ("other", "guard") /\
  generate_policies [("", "guard"); ("other", "guard")] ex_pm2 ex_deps2 (mkScope CRoute "default" None) = ErrorReturn /\
  generate_policies [("other", "guard"); ("", "guard")] ex_pm2 ex_deps2 (mkScope CRoute "default" None) = ErrorReturn /\
  (* the Secret default/htp does not help other/guard: dependencies are resolved in the policy's namespace *)
  secret_state ex_deps2 TyHtpasswd (nskey "other" "htp") = SMissing.
Proof. repeat split; try (vm_compute; reflexivity). vm_compute. discriminate. Qed.

(* a TLS Secret that was created valid and then deleted before the VirtualServer arrived *)
Example C08_nonvacuous_deleted_secret :
  let d := mkDeps (secrets_of_history [SecUpsert "default/tls" (mkSecret TyTLS true); SecDelete "default/tls"]) [] [] [] false in
  secret_state d TyTLS "default/tls" = SMissing /\
  vs_ssl_config (Some "tls") "default" d false (fun k => k) = Some (mkSsl true "").
Proof. split; vm_compute; reflexivity. Qed.

(* a WAF policy with three securityLogs entries: ONE unusable APLogConf, at any position, fails the scope
   (the usable entries around it do not forgive it) *)
Example C08_waf_every_security_log_counts :
  let d := mkDeps [] ["default/ap"] ["default/lc0"; "default/lc2"] [] true in
  let pm := fun logs => [("default/waf", mkPolicy KWaf "" "" false "ap" "" logs [] "" false)] in
  let sc := mkScope CRoute "default" None in
  generate_policies [("", "waf")] (pm ["lc0"; "lc2"; "lc0"]) d sc <> ErrorReturn /\
  generate_policies [("", "waf")] (pm ["lc1"; "lc0"; "lc2"]) d sc = ErrorReturn /\
  generate_policies [("", "waf")] (pm ["lc0"; "lc1"; "lc2"]) d sc = ErrorReturn /\
  generate_policies [("", "waf")] (pm ["lc0"; "lc2"; "lc1"]) d sc = ErrorReturn.
Proof. repeat split; try (vm_compute; reflexivity). vm_compute. discriminate. Qed.
