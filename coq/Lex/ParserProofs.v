(* Lex/ParserProofs.v -- the block parser is sound, and shapes depend on the event list only.

     flatten_leaf / flatten_block   unfolding of flatten_d
     parse_sound     parse ts = Some ds -> flatten ds = ts
                     (the forest returned is a forest of exactly these tokens: every directive has a
                      name, is terminated by ; or owns a balanced { } block, nothing is left over)
     shape_events    two token lists with the same events parse to forests of the same shape (or
                     both fail)
     shapes_parse    parse ts = Some ds -> shapes_of_events (map ev_of_token ts) = Some (shapes ds)
   Not proved: completeness (parse (flatten ds) = Some ds); it needs a nested induction principle
   for [directive] and is not used by any property. *)
From Coq Require Import List String Ascii Bool Arith.
From NIC Require Import Lex.Lexer Lex.Parser.
Import ListNotations.
Open Scope list_scope.

Lemma flatten_inner : forall ds,
    (fix fl (l : list directive) : list token :=
       match l with [] => [] | x :: r => flatten_d x ++ fl r end) ds = flatten ds.
Proof. induction ds as [|d ds IH]; [reflexivity|]. cbn [flatten]. now rewrite <- IH. Qed.

Lemma flatten_leaf : forall n a, flatten_d (Dir n a None) = TWord n :: map TWord a ++ [TSemi].
Proof. reflexivity. Qed.

Lemma flatten_block : forall n a ds,
    flatten_d (Dir n a (Some ds)) = TWord n :: map TWord a ++ TOpen :: flatten ds ++ [TClose].
Proof. intros. cbn [flatten_d]. now rewrite flatten_inner. Qed.

Lemma flatten_app : forall a b, flatten (a ++ b) = flatten a ++ flatten b.
Proof. induction a as [|d a IH]; intros b; [reflexivity|]. cbn [app flatten]. now rewrite IH, app_assoc. Qed.

Fixpoint stack_toks (st : list frame) : list token :=
  match st with
  | [] => []
  | (n, a, pdone) :: r => stack_toks r ++ flatten (rev pdone) ++ TWord n :: map TWord a ++ [TOpen]
  end.

Local Ltac norm := repeat first [rewrite <- app_assoc | progress cbn [app]].

Lemma parse_go_sound : forall ts cur done stack ds,
    parse_go ts cur done stack = Some ds ->
    flatten ds = stack_toks stack ++ flatten (rev done) ++ map TWord (rev cur) ++ ts.
Proof.
  induction ts as [|t ts IH]; intros cur done stack ds H; cbn [parse_go] in H.
  - destruct cur; [|discriminate]. destruct stack; [|discriminate]. injection H as <-.
    cbn [stack_toks rev map app]. now rewrite !app_nil_r.
  - destruct t.
    + apply IH in H. rewrite H. cbn [rev]. rewrite map_app. cbn [map app]. now rewrite <- !app_assoc.
    + destruct (rev cur) as [|n a] eqn:E; [discriminate|].
      apply IH in H. rewrite H. cbn [rev map app]. rewrite flatten_app. cbn [flatten]. rewrite flatten_leaf.
      rewrite app_nil_r. norm. reflexivity.
    + destruct (rev cur) as [|n a] eqn:E; [discriminate|].
      apply IH in H. rewrite H. cbn [stack_toks rev map app flatten]. norm. reflexivity.
    + destruct cur; [|discriminate]. destruct stack as [|[[n a] pdone] st]; [discriminate|].
      apply IH in H. rewrite H. cbn [stack_toks rev map app]. rewrite flatten_app. cbn [flatten].
      rewrite flatten_block, app_nil_r. norm. reflexivity.
Qed.

Theorem parse_sound : forall ts ds, parse ts = Some ds -> flatten ds = ts.
Proof. intros ts ds H. apply parse_go_sound in H. exact H. Qed.

(* ---------------------------------------------------------------- shapes *)

Lemma shapes_map : forall ds, shapes ds = map shape_d ds.
Proof. induction ds as [|d ds IH]; [reflexivity|]. cbn [shapes map]. now rewrite IH. Qed.

Lemma shape_inner : forall ds,
    (fix sh (l : list directive) : list shape :=
       match l with [] => [] | x :: r => shape_d x :: sh r end) ds = map shape_d ds.
Proof. induction ds as [|d ds IH]; [reflexivity|]. cbn [map]. now rewrite <- IH. Qed.

Lemma shape_block : forall n a ds, shape_d (Dir n a (Some ds)) = Sh (S (List.length a)) (Some (map shape_d ds)).
Proof. intros. cbn [shape_d]. now rewrite shape_inner. Qed.

Definition frame_sim (f1 f2 : frame) : Prop :=
  match f1, f2 with
  | (_, a1, d1), (_, a2, d2) => List.length a1 = List.length a2 /\ map shape_d d1 = map shape_d d2
  end.

Lemma rev_cases : forall (c1 c2 : list string),
    List.length c1 = List.length c2 ->
    match rev c1, rev c2 with
    | [], [] => True
    | _ :: a1, _ :: a2 => List.length a1 = List.length a2
    | _, _ => False
    end.
Proof.
  intros c1 c2 H. rewrite <- (rev_length c1), <- (rev_length c2) in H.
  destruct (rev c1), (rev c2); cbn in H; try discriminate; [exact I | now injection H].
Qed.

Lemma parse_go_shapes : forall ts1 ts2 c1 c2 d1 d2 s1 s2,
    map ev_of_token ts1 = map ev_of_token ts2 ->
    List.length c1 = List.length c2 ->
    map shape_d d1 = map shape_d d2 ->
    Forall2 frame_sim s1 s2 ->
    option_map (map shape_d) (parse_go ts1 c1 d1 s1) = option_map (map shape_d) (parse_go ts2 c2 d2 s2).
Proof.
  induction ts1 as [|t1 ts1 IH]; intros ts2 c1 c2 d1 d2 s1 s2 E Hc Hd Hs.
  - destruct ts2; [|discriminate]. cbn [parse_go].
    destruct c1, c2; try discriminate; [|reflexivity].
    inversion Hs; subst; [|reflexivity]. cbn [option_map]. now rewrite !map_rev, Hd.
  - destruct ts2 as [|t2 ts2]; [discriminate|]. cbn [map] in E. injection E as Et E.
    destruct t1, t2; try discriminate Et; cbn [parse_go].
    + apply IH; auto. cbn [List.length]. now rewrite Hc.
    + pose proof (rev_cases c1 c2 Hc) as R.
      destruct (rev c1) as [|n1 a1], (rev c2) as [|n2 a2]; try (exfalso; exact R); [reflexivity|].
      apply IH; auto. cbn [map shape_d]. now rewrite R, Hd.
    + pose proof (rev_cases c1 c2 Hc) as R.
      destruct (rev c1) as [|n1 a1], (rev c2) as [|n2 a2]; try (exfalso; exact R); [reflexivity|].
      apply IH; auto. constructor; [|exact Hs]. now split.
    + destruct c1, c2; try discriminate; [|reflexivity].
      inversion Hs as [|[[n1 a1] p1] [[n2 a2] p2] s1' s2' [Ha Hp] Hs']; subst; [reflexivity|].
      apply IH; auto. cbn [map]. rewrite !shape_block, !map_rev, Hd, Ha, Hp. reflexivity.
Qed.

Theorem shape_events : forall ts1 ts2,
    map ev_of_token ts1 = map ev_of_token ts2 ->
    option_map shapes (parse ts1) = option_map shapes (parse ts2).
Proof.
  intros ts1 ts2 E. unfold parse.
  pose proof (parse_go_shapes ts1 ts2 [] [] [] [] [] [] E eq_refl eq_refl (Forall2_nil _)) as H.
  destruct (parse_go ts1 [] [] []), (parse_go ts2 [] [] []); cbn [option_map] in *; try discriminate; [|reflexivity].
  injection H as H. now rewrite !shapes_map, H.
Qed.

Lemma events_roundtrip : forall ts,
    map ev_of_token (flat_map token_of_ev (map ev_of_token ts)) = map ev_of_token ts.
Proof. induction ts as [|t ts IH]; [reflexivity|]. destruct t; cbn; now rewrite IH. Qed.

Lemma no_err_tokens : forall ts, no_err (map ev_of_token ts) = true.
Proof. induction ts as [|t ts IH]; [reflexivity|]. cbn. destruct t; exact IH. Qed.

Theorem shapes_parse : forall ts ds,
    parse ts = Some ds -> shapes_of_events (map ev_of_token ts) = Some (shapes ds).
Proof.
  intros ts ds H. unfold shapes_of_events. rewrite no_err_tokens.
  rewrite (shape_events _ ts (events_roundtrip ts)), H. reflexivity.
Qed.
