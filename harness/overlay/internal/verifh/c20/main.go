//go:build verif

// Correspondence harness for C20: drives the real certmanager.SyncFnFor and
// externaldns.SyncFnFor reconciliation functions over sequences of VirtualServer edits against
// the generated fake cert-manager / k8s-nginx clientsets (object tracker = the cluster) and the
// generated listers over cache indexers (= the informer caches, refreshed from the tracker
// through a JSON round trip after every step, which is what the API server and the watch do).
// Pre-existing same-named objects without owner / with a foreign owner / drifted owned ones, and
// API faults (conflict, already-exists, internal) injected by reactors into each write.
// Observables per step and controller: the action log (verb, name), the error class and the
// resulting object store projected to the modelled fields; plus what a first-time
// synchronization of the same VirtualServer creates on an empty cluster.
package main

import (
	"context"
	"encoding/json"
	"errors"
	"flag"
	"fmt"
	"io"
	"log/slog"
	"os"
	"reflect"
	"os/exec"
	"sort"
	"strings"
	"sync"
	"time"

	cmapi "github.com/cert-manager/cert-manager/pkg/apis/certmanager/v1"
	cmmeta "github.com/cert-manager/cert-manager/pkg/apis/meta/v1"
	cmfake "github.com/cert-manager/cert-manager/pkg/client/clientset/versioned/fake"
	cmlisters "github.com/cert-manager/cert-manager/pkg/client/listers/certmanager/v1"
	apierrors "k8s.io/apimachinery/pkg/api/errors"
	"k8s.io/apimachinery/pkg/api/meta"
	metav1 "k8s.io/apimachinery/pkg/apis/meta/v1"
	"k8s.io/apimachinery/pkg/runtime"
	"k8s.io/apimachinery/pkg/runtime/schema"
	"k8s.io/apimachinery/pkg/types"
	validators "k8s.io/apimachinery/pkg/util/validation"
	"k8s.io/apimachinery/pkg/util/validation/field"
	coretesting "k8s.io/client-go/testing"
	"k8s.io/client-go/tools/cache"
	netutils "k8s.io/utils/net"

	"github.com/nginx/kubernetes-ingress/internal/certmanager"
	"github.com/nginx/kubernetes-ingress/internal/externaldns"
	nl "github.com/nginx/kubernetes-ingress/internal/logger"
	"github.com/nginx/kubernetes-ingress/internal/verifh/vh"
	vsapi "github.com/nginx/kubernetes-ingress/pkg/apis/configuration/v1"
	extdnsapi "github.com/nginx/kubernetes-ingress/pkg/apis/externaldns/v1"
	k8sfake "github.com/nginx/kubernetes-ingress/pkg/client/clientset/versioned/fake"
	extdnslisters "github.com/nginx/kubernetes-ingress/pkg/client/listers/externaldns/v1"
)

const (
	ns       = "ns"
	otherNs  = "other"
	tempAnno = "cert-manager.io/issue-temporary-certificate"
)

type KV [2]string

// ---------- projected objects ----------

type CertObj struct {
	Name   string   `json:"name"`
	Owner  string   `json:"owner"` // uid of the controller owner reference, "" if there is none
	Ref    string   `json:"ref"`   // uid of a non-controller owner reference (ignored by the model)
	Labels []KV     `json:"labels"`
	Temp   *string  `json:"temp"` // value of the issue-temporary-certificate annotation
	CN     string   `json:"cn"`
	DNS    []string `json:"dns"`
	Secret string   `json:"secret"`
	IName  string   `json:"iname"`
	IKind  string   `json:"ikind"`
	IGroup string   `json:"igroup"`
	Dur    *int64   `json:"dur"`
	Renew  *int64   `json:"renew"`
	Usages []string `json:"usages"`
	IsCA   bool     `json:"is_ca"`
}

type EpObj struct {
	DNSName  string   `json:"dns_name"`
	Targets  []string `json:"targets"`
	RType    string   `json:"rtype"`
	TTL      int64    `json:"ttl"`
	Labels   *[]KV    `json:"labels"` // null = nil map
	Provider []KV     `json:"provider"`
}

type DNSObj struct {
	Name      string  `json:"name"`
	Owner     string  `json:"owner"`
	Ref       string  `json:"ref"`
	Labels    []KV    `json:"labels"`
	Endpoints []EpObj `json:"endpoints"`
}

// ---------- VirtualServer input ----------

type CMIn struct {
	ClusterIssuer string `json:"cluster_issuer"`
	Issuer        string `json:"issuer"`
	IssuerKind    string `json:"issuer_kind"`
	IssuerGroup   string `json:"issuer_group"`
	CommonName    string `json:"common_name"`
	Duration      string `json:"duration"`
	RenewBefore   string `json:"renew_before"`
	Usages        string `json:"usages"`
	Temp          bool   `json:"temp"`
	// oracles (Go's time.ParseDuration): "none" | "bad" | "ok" and nanoseconds
	DurKind   string `json:"dur_kind"`
	DurNs     int64  `json:"dur_ns"`
	RenewKind string `json:"renew_kind"`
	RenewNs   int64  `json:"renew_ns"`
}

type TLSIn struct {
	Secret string `json:"secret"`
	CM     *CMIn  `json:"cm"`
}

type ExtEp struct {
	IP       string `json:"ip"`
	Hostname string `json:"hostname"`
	// oracle (k8s validation.IsValidIP + netutils.ParseIPSloppy): "" (no ip) | "v4" | "v6" | "bad"
	IPClass string `json:"ipclass"`
}

type XDNSIn struct {
	Enable      bool   `json:"enable"`
	RType       string `json:"rtype"`
	TTL         int64  `json:"ttl"`
	Labels      *[]KV  `json:"labels"`       // null = nil map, [] = empty non-nil map
	Provider    []KV   `json:"provider"`     // entries
	ProviderNil bool   `json:"provider_nil"` // nil slice rather than empty
}

type VSIn struct {
	Name      string   `json:"name"`
	UID       string   `json:"uid"`
	Labels    []KV     `json:"labels"`
	Host      string   `json:"host"`
	TLS       *TLSIn   `json:"tls"`
	XDNS      XDNSIn   `json:"xdns"`
	Endpoints *[]ExtEp `json:"endpoints"` // null = nil slice
}

type Step struct {
	VS        VSIn     `json:"vs"`
	Kind      string   `json:"kind"` // edit | resync | remove | identity | first
	CMFaults  []string `json:"cm_faults"`
	DNSFaults []string `json:"dns_faults"`
	// delivery family only
	Noise  int    `json:"noise,omitempty"`  // status.message of the VirtualServer (a change no derived object depends on)
	Tamper string `json:"tamper,omitempty"` // delete-cert | edit-cert | delete-dns | edit-dns: somebody else changes the derived object first
}

type CMObs struct {
	Log   []KV       `json:"log"` // (verb, name)
	Err   string     `json:"err"`
	Store []CertObj  `json:"store"` // the cluster (object tracker of the fake clientset) after the step
	Cache *[]CertObj `json:"cache"` // the lister cache before the step, when it differs from the cluster; else null
	Pre   *[]CertObj `json:"pre"`   // the cluster before the step when somebody else changed it since the last step; else null
}

type DNSObs struct {
	Log   []KV      `json:"log"`
	Err   string    `json:"err"`
	Store []DNSObj  `json:"store"`
	Cache *[]DNSObj `json:"cache"`
	Pre   *[]DNSObj `json:"pre"`
}

type StepObs struct {
	CM           CMObs    `json:"cm"`
	DNS          DNSObs   `json:"dns"`
	Unexpected   []string `json:"unexpected"` // actions on other resources / namespaces, changed decoys
	CacheMutated []string `json:"cache_mutated"` // lister-cache objects the synchronization changed in place
	Panic        string   `json:"panic,omitempty"`
	FreshCert    *CertObj `json:"fresh_cert"`
	FreshCertErr string   `json:"fresh_cert_err"`
	FreshDNS     *DNSObj  `json:"fresh_dns"`
	FreshDNSErr  string   `json:"fresh_dns_err"`
	Delivery     *DeliveryObs `json:"delivery,omitempty"`
}

// DeliveryObs says what the event-handler / work-queue layer did in a step of the delivery family.
type DeliveryObs struct {
	VSEvent     string   `json:"vs_event"`     // add | update | none
	Enqueued    []string `json:"enqueued"`     // controllers whose queue held the VirtualServer after the VirtualServer event
	DerivedEvts int      `json:"derived_evts"` // watch events of derived objects handed to the owner-reference handlers
	Processed   []string `json:"processed"`    // controller:key for every processItem run while draining
	RanCM       bool     `json:"ran_cm"`       // processItem ran for the VirtualServer in the cert-manager controller
	RanDNS      bool     `json:"ran_dns"`
}

type Obs struct {
	Steps []StepObs `json:"steps,omitempty"`
	Error string    `json:"error,omitempty"`
}

type Case struct {
	ID        int       `json:"id"`
	Class     string    `json:"class"`
	InitCerts []CertObj `json:"init_certs"`
	InitDNS   []DNSObj  `json:"init_dns"`
	Steps     []Step    `json:"steps"`
	Delivery  bool      `json:"delivery,omitempty"` // drive the event handlers, queues and processItem instead of calling the sync functions
	Obs       Obs       `json:"obs"`
}

// ---------- building real objects ----------

func toMap(kvs []KV) map[string]string {
	if len(kvs) == 0 {
		return nil
	}
	m := map[string]string{}
	for _, kv := range kvs {
		m[kv[0]] = kv[1]
	}
	return m
}

func fromMap(m map[string]string) []KV {
	out := []KV{}
	for k, v := range m {
		out = append(out, KV{k, v})
	}
	sort.Slice(out, func(i, j int) bool { return out[i][0] < out[j][0] })
	return out
}

func ownerRefs(owner, ref string) []metav1.OwnerReference {
	var out []metav1.OwnerReference
	t := true
	if ref != "" {
		out = append(out, metav1.OwnerReference{APIVersion: "k8s.nginx.org/v1", Kind: "VirtualServer", Name: "vs-ref", UID: types.UID(ref)})
	}
	if owner != "" {
		kind := "VirtualServer"
		if owner == "uid-deploy" {
			kind = "Deployment"
		}
		out = append(out, metav1.OwnerReference{APIVersion: "k8s.nginx.org/v1", Kind: kind, Name: "owner-of-" + owner, UID: types.UID(owner), Controller: &t, BlockOwnerDeletion: &t})
	}
	return out
}

func projOwner(refs []metav1.OwnerReference) (owner, ref string) {
	for _, r := range refs {
		if r.Controller != nil && *r.Controller {
			if owner == "" {
				owner = string(r.UID)
			}
		} else if ref == "" {
			ref = string(r.UID)
		}
	}
	return
}

func buildCert(o CertObj, namespace string) *cmapi.Certificate {
	c := &cmapi.Certificate{
		ObjectMeta: metav1.ObjectMeta{Name: o.Name, Namespace: namespace, Labels: toMap(o.Labels), OwnerReferences: ownerRefs(o.Owner, o.Ref)},
		Spec: cmapi.CertificateSpec{
			CommonName: o.CN, DNSNames: append([]string(nil), o.DNS...), SecretName: o.Secret,
			IssuerRef: cmmeta.ObjectReference{Name: o.IName, Kind: o.IKind, Group: o.IGroup},
			IsCA:      o.IsCA,
		},
	}
	if o.Temp != nil {
		c.Annotations = map[string]string{tempAnno: *o.Temp}
	}
	if o.Dur != nil {
		c.Spec.Duration = &metav1.Duration{Duration: time.Duration(*o.Dur)}
	}
	if o.Renew != nil {
		c.Spec.RenewBefore = &metav1.Duration{Duration: time.Duration(*o.Renew)}
	}
	for _, u := range o.Usages {
		c.Spec.Usages = append(c.Spec.Usages, cmapi.KeyUsage(u))
	}
	return c
}

func projCert(c *cmapi.Certificate) CertObj {
	o := CertObj{Name: c.Name, Labels: fromMap(c.Labels), CN: c.Spec.CommonName, DNS: append([]string{}, c.Spec.DNSNames...),
		Secret: c.Spec.SecretName, IName: c.Spec.IssuerRef.Name, IKind: c.Spec.IssuerRef.Kind, IGroup: c.Spec.IssuerRef.Group,
		IsCA: c.Spec.IsCA, Usages: []string{}}
	o.Owner, o.Ref = projOwner(c.OwnerReferences)
	if v, ok := c.Annotations[tempAnno]; ok {
		s := v
		o.Temp = &s
	}
	if c.Spec.Duration != nil {
		d := int64(c.Spec.Duration.Duration)
		o.Dur = &d
	}
	if c.Spec.RenewBefore != nil {
		d := int64(c.Spec.RenewBefore.Duration)
		o.Renew = &d
	}
	for _, u := range c.Spec.Usages {
		o.Usages = append(o.Usages, string(u))
	}
	return o
}

func buildDNS(o DNSObj, namespace string) *extdnsapi.DNSEndpoint {
	d := &extdnsapi.DNSEndpoint{ObjectMeta: metav1.ObjectMeta{Name: o.Name, Namespace: namespace, Labels: toMap(o.Labels), OwnerReferences: ownerRefs(o.Owner, o.Ref)}}
	for _, e := range o.Endpoints {
		ep := &extdnsapi.Endpoint{DNSName: e.DNSName, RecordType: e.RType, RecordTTL: extdnsapi.TTL(e.TTL)}
		if len(e.Targets) > 0 {
			ep.Targets = append(extdnsapi.Targets(nil), e.Targets...)
		}
		if e.Labels != nil {
			ep.Labels = extdnsapi.Labels{}
			for _, kv := range *e.Labels {
				ep.Labels[kv[0]] = kv[1]
			}
		}
		for _, kv := range e.Provider {
			ep.ProviderSpecific = append(ep.ProviderSpecific, extdnsapi.ProviderSpecificProperty{Name: kv[0], Value: kv[1]})
		}
		d.Spec.Endpoints = append(d.Spec.Endpoints, ep)
	}
	return d
}

func projDNS(d *extdnsapi.DNSEndpoint) DNSObj {
	o := DNSObj{Name: d.Name, Labels: fromMap(d.Labels), Endpoints: []EpObj{}}
	o.Owner, o.Ref = projOwner(d.OwnerReferences)
	for _, e := range d.Spec.Endpoints {
		if e == nil {
			o.Endpoints = append(o.Endpoints, EpObj{DNSName: "<nil>", Targets: []string{}, Provider: []KV{}})
			continue
		}
		ep := EpObj{DNSName: e.DNSName, Targets: append([]string{}, e.Targets...), RType: e.RecordType, TTL: int64(e.RecordTTL), Provider: []KV{}}
		if e.Labels != nil {
			l := fromMap(e.Labels)
			ep.Labels = &l
		}
		for _, p := range e.ProviderSpecific {
			ep.Provider = append(ep.Provider, KV{p.Name, p.Value})
		}
		o.Endpoints = append(o.Endpoints, ep)
	}
	return o
}

// fillOracles computes the verdicts of the library functions the model treats as oracles.
func fillOracles(v *VSIn) {
	if v.TLS != nil && v.TLS.CM != nil {
		cm := v.TLS.CM
		cm.DurKind, cm.DurNs = durOracle(cm.Duration)
		cm.RenewKind, cm.RenewNs = durOracle(cm.RenewBefore)
	}
	if v.Endpoints != nil {
		for i := range *v.Endpoints {
			e := &(*v.Endpoints)[i]
			e.IPClass = ""
			if e.IP != "" {
				if len(validators.IsValidIP(field.NewPath(""), e.IP)) > 0 {
					e.IPClass = "bad"
				} else if netutils.ParseIPSloppy(e.IP).To4() != nil {
					e.IPClass = "v4"
				} else {
					e.IPClass = "v6"
				}
			}
		}
	}
}

func durOracle(s string) (string, int64) {
	if s == "" {
		return "none", 0
	}
	d, err := time.ParseDuration(s)
	if err != nil {
		return "bad", 0
	}
	return "ok", int64(d)
}

func buildVS(v VSIn) *vsapi.VirtualServer {
	vs := &vsapi.VirtualServer{
		ObjectMeta: metav1.ObjectMeta{Name: v.Name, Namespace: ns, UID: types.UID(v.UID), Labels: toMap(v.Labels)},
		Spec:       vsapi.VirtualServerSpec{Host: v.Host},
	}
	if v.TLS != nil {
		vs.Spec.TLS = &vsapi.TLS{Secret: v.TLS.Secret}
		if c := v.TLS.CM; c != nil {
			vs.Spec.TLS.CertManager = &vsapi.CertManager{ClusterIssuer: c.ClusterIssuer, Issuer: c.Issuer, IssuerKind: c.IssuerKind,
				IssuerGroup: c.IssuerGroup, CommonName: c.CommonName, Duration: c.Duration, RenewBefore: c.RenewBefore, Usages: c.Usages, IssueTempCert: c.Temp}
		}
	}
	x := v.XDNS
	vs.Spec.ExternalDNS = vsapi.ExternalDNS{Enable: x.Enable, RecordType: x.RType, RecordTTL: x.TTL}
	if x.Labels != nil {
		vs.Spec.ExternalDNS.Labels = map[string]string{}
		for _, kv := range *x.Labels {
			vs.Spec.ExternalDNS.Labels[kv[0]] = kv[1]
		}
	}
	if !x.ProviderNil {
		vs.Spec.ExternalDNS.ProviderSpecific = vsapi.ProviderSpecific{}
		for _, kv := range x.Provider {
			vs.Spec.ExternalDNS.ProviderSpecific = append(vs.Spec.ExternalDNS.ProviderSpecific, vsapi.ProviderSpecificProperty{Name: kv[0], Value: kv[1]})
		}
	}
	if v.Endpoints != nil {
		vs.Status.ExternalEndpoints = []vsapi.ExternalEndpoint{}
		for _, e := range *v.Endpoints {
			vs.Status.ExternalEndpoints = append(vs.Status.ExternalEndpoints, vsapi.ExternalEndpoint{IP: e.IP, Hostname: e.Hostname})
		}
	}
	return vs
}

// ---------- the world: fake clientsets (cluster) + listers (informer caches) ----------

type nopRecorder struct{}

func (nopRecorder) Event(runtime.Object, string, string, string)                                {}
func (nopRecorder) Eventf(runtime.Object, string, string, string, ...interface{})               {}
func (nopRecorder) AnnotatedEventf(runtime.Object, map[string]string, string, string, string, ...interface{}) {
}

type world struct {
	cm        *cmfake.Clientset
	cmIdx     cache.Indexer
	cmSync    certmanager.SyncFn
	cmFaults  []string
	dns       *k8sfake.Clientset
	dnsIdx    cache.Indexer
	dnsSync   externaldns.SyncFn
	dnsFaults []string
	decoyCert *cmapi.Certificate
	decoyDNS  *extdnsapi.DNSEndpoint
	dnsKnown  map[string][2]string // ns/name -> (ns, name)
	// what the watch has delivered into each lister cache so far: ns/name -> JSON of that version.
	// The cluster is the object tracker of the fake clientset; the caches are the indexers behind the
	// real generated listers, and the synchronization functions get the very pointers stored there.
	cmDelivered  map[string][]byte
	dnsDelivered map[string][]byte
	lastCerts    []CertObj // projection of the cluster after the last delivery
	lastDNS      []DNSObj
	// delivery family: the controllers' own handler / queue / processItem layers
	ctlCM     *certmanager.VerifCtl
	ctlDNS    *externaldns.VerifCtl
	derivedEv int
	vsGen     int64
	vsRV      int64
	vsLast    *vsapi.VirtualServer
}

func isWrite(verb string) bool { return verb == "create" || verb == "update" || verb == "delete" || verb == "patch" }

func faultErr(kind string, gr schema.GroupResource, name string) error {
	switch kind {
	case "conflict":
		return apierrors.NewConflict(gr, name, errors.New("injected"))
	case "exists":
		return apierrors.NewAlreadyExists(gr, name)
	case "internal":
		return apierrors.NewInternalError(errors.New("injected"))
	}
	return nil
}

func actionName(a coretesting.Action) string {
	switch x := a.(type) {
	case coretesting.CreateAction:
		if m, err := meta.Accessor(x.GetObject()); err == nil {
			return m.GetName()
		}
	case coretesting.UpdateAction:
		if m, err := meta.Accessor(x.GetObject()); err == nil {
			return m.GetName()
		}
	case coretesting.DeleteAction:
		return x.GetName()
	}
	return "?"
}

func newIndexer() cache.Indexer {
	return cache.NewIndexer(cache.MetaNamespaceKeyFunc, cache.Indexers{cache.NamespaceIndex: cache.MetaNamespaceIndexFunc})
}

func newWorld(initCerts []CertObj, initDNS []DNSObj, decoyUID string) *world {
	return newWorldOpt(initCerts, initDNS, decoyUID, false)
}

func newWorldOpt(initCerts []CertObj, initDNS []DNSObj, decoyUID string, delivery bool) *world {
	w := &world{dnsKnown: map[string][2]string{}, cmDelivered: map[string][]byte{}, dnsDelivered: map[string][]byte{}}
	var cmObjs, dnsObjs []runtime.Object
	for _, o := range initCerts {
		cmObjs = append(cmObjs, buildCert(o, ns))
	}
	for _, o := range initDNS {
		dnsObjs = append(dnsObjs, buildDNS(o, ns))
		w.dnsKnown[ns+"/"+o.Name] = [2]string{ns, o.Name}
	}
	if decoyUID != "" {
		// same names, other namespace, controller reference carrying the uid of the VirtualServer
		w.decoyCert = buildCert(CertObj{Name: "s1", Owner: decoyUID, Secret: "zz", DNS: []string{"decoy"}, IName: "decoy"}, otherNs)
		w.decoyDNS = buildDNS(DNSObj{Name: "vs-a", Owner: decoyUID, Endpoints: []EpObj{{DNSName: "decoy", Targets: []string{"1.1.1.1"}, RType: "A"}}}, otherNs)
		cmObjs = append(cmObjs, w.decoyCert.DeepCopy())
		dnsObjs = append(dnsObjs, w.decoyDNS.DeepCopy())
		w.dnsKnown[otherNs+"/"+w.decoyDNS.Name] = [2]string{otherNs, w.decoyDNS.Name}
	}
	w.cm = cmfake.NewSimpleClientset(cmObjs...)
	w.dns = k8sfake.NewSimpleClientset(dnsObjs...)
	w.cm.PrependReactor("*", "*", func(a coretesting.Action) (bool, runtime.Object, error) {
		if !isWrite(a.GetVerb()) || len(w.cmFaults) == 0 {
			return false, nil, nil
		}
		f := w.cmFaults[0]
		w.cmFaults = w.cmFaults[1:]
		if err := faultErr(f, schema.GroupResource{Group: "cert-manager.io", Resource: "certificates"}, actionName(a)); err != nil {
			return true, nil, err
		}
		return false, nil, nil
	})
	w.dns.PrependReactor("*", "*", func(a coretesting.Action) (bool, runtime.Object, error) {
		if !isWrite(a.GetVerb()) || len(w.dnsFaults) == 0 {
			return false, nil, nil
		}
		f := w.dnsFaults[0]
		w.dnsFaults = w.dnsFaults[1:]
		if err := faultErr(f, schema.GroupResource{Group: "externaldns.nginx.org", Resource: "dnsendpoints"}, actionName(a)); err != nil {
			return true, nil, err
		}
		return false, nil, nil
	})
	if delivery {
		// the real controllers: their informers' indexers are the lister caches
		w.ctlCM = certmanager.VerifNewCtl(quietCtx, nopRecorder{}, w.cm, w.dns)
		w.ctlDNS = externaldns.VerifNewCtl(quietCtx, nopRecorder{}, w.dns)
		w.cmIdx, w.dnsIdx = w.ctlCM.DerivedStore, w.ctlDNS.DerivedStore
		return w
	}
	w.cmIdx = newIndexer()
	w.dnsIdx = newIndexer()
	w.cmSync = certmanager.VerifSyncFn(nopRecorder{}, w.cm, cmlisters.NewCertificateLister(w.cmIdx))
	w.dnsSync = externaldns.VerifSyncFn(nopRecorder{}, w.dns, extdnslisters.NewDNSEndpointLister(w.dnsIdx))
	return w
}

// deliverTo plays the watch for one cache: an object whose stored version (JSON) differs from the
// version delivered last is decoded afresh and put into the indexer (add / update event), an object
// that left the cluster is removed (delete event).  An object the cluster did not change is NOT
// touched, so whatever a synchronization function did to the pointer it got from the lister stays
// in the cache, as it does in production.
func deliverTo(idx cache.Indexer, delivered map[string][]byte, seen map[string][]byte, decode func([]byte) (interface{}, error), ev func(old, cur interface{})) error {
	var keys []string
	for k := range seen {
		keys = append(keys, k)
	}
	sort.Strings(keys)
	for _, k := range keys {
		b := seen[k]
		if old, ok := delivered[k]; ok && string(old) == string(b) {
			continue
		}
		o, err := decode(b)
		if err != nil {
			return err
		}
		old, _, _ := idx.GetByKey(k)
		if err := idx.Update(o); err != nil {
			return err
		}
		delivered[k] = b
		if ev != nil {
			ev(old, o)
		}
	}
	keys = keys[:0]
	for k := range delivered {
		keys = append(keys, k)
	}
	sort.Strings(keys)
	for _, k := range keys {
		if _, ok := seen[k]; !ok {
			if o, exists, _ := idx.GetByKey(k); exists {
				if err := idx.Delete(o); err != nil {
					return err
				}
				if ev != nil {
					ev(o, nil)
				}
			}
			delete(delivered, k)
		}
	}
	return nil
}

// dispatch hands a watch event to a handler the way a shared informer does.
func (w *world) dispatch(h cache.ResourceEventHandler) func(old, cur interface{}) {
	if h == nil {
		return nil
	}
	return func(old, cur interface{}) {
		w.derivedEv++
		switch {
		case old == nil:
			h.OnAdd(cur, false)
		case cur == nil:
			h.OnDelete(old)
		default:
			h.OnUpdate(old, cur)
		}
	}
}

func (w *world) derivedHandlers() (cm, dns cache.ResourceEventHandler) {
	if w.ctlCM != nil {
		cm = w.ctlCM.Derived
	}
	if w.ctlDNS != nil {
		dns = w.ctlDNS.Derived
	}
	return
}

// snapshot deep-copies every object of both lister caches.
func (w *world) snapshot() map[string]runtime.Object {
	out := map[string]runtime.Object{}
	for _, o := range w.cmIdx.List() {
		c := o.(*cmapi.Certificate)
		out["certificates "+c.Namespace+"/"+c.Name] = c.DeepCopy()
	}
	for _, o := range w.dnsIdx.List() {
		d := o.(*extdnsapi.DNSEndpoint)
		out["dnsendpoints "+d.Namespace+"/"+d.Name] = d.DeepCopy()
	}
	return out
}

// mutated compares the lister caches with a snapshot taken before a synchronization.
func (w *world) mutated(before map[string]runtime.Object) []string {
	out := []string{}
	now := w.snapshot()
	for k, o := range now {
		b, ok := before[k]
		if !ok {
			out = append(out, k+" (added)")
		} else if !reflect.DeepEqual(o, b) {
			out = append(out, k)
		}
	}
	for k := range before {
		if _, ok := now[k]; !ok {
			out = append(out, k+" (removed)")
		}
	}
	sort.Strings(out)
	return out
}

// cacheView projects what the listers hold for namespace ns.
func (w *world) cacheView() ([]CertObj, []DNSObj) {
	certs, dnss := []CertObj{}, []DNSObj{}
	for _, o := range w.cmIdx.List() {
		if c := o.(*cmapi.Certificate); c.Namespace == ns {
			certs = append(certs, projCert(c))
		}
	}
	for _, o := range w.dnsIdx.List() {
		if d := o.(*extdnsapi.DNSEndpoint); d.Namespace == ns {
			dnss = append(dnss, projDNS(d))
		}
	}
	sort.Slice(certs, func(i, j int) bool { return certs[i].Name < certs[j].Name })
	sort.Slice(dnss, func(i, j int) bool { return dnss[i].Name < dnss[j].Name })
	return certs, dnss
}

// refresh reads the cluster (the object tracker; every object through the JSON round trip that the
// API server and the watch perform), delivers the watch events for what changed into the lister
// caches, and returns the projected cluster content of namespace ns plus complaints about the decoys.
func (w *world) refresh() ([]CertObj, []DNSObj, []string, error) {
	var complaints []string
	cl, err := w.cm.CertmanagerV1().Certificates(metav1.NamespaceAll).List(context.Background(), metav1.ListOptions{})
	if err != nil {
		return nil, nil, nil, err
	}
	cseen := map[string][]byte{}
	certs := []CertObj{}
	seenDecoy := w.decoyCert == nil
	for i := range cl.Items {
		b, err := json.Marshal(&cl.Items[i])
		if err != nil {
			return nil, nil, nil, err
		}
		c := &cmapi.Certificate{}
		if err := json.Unmarshal(b, c); err != nil {
			return nil, nil, nil, err
		}
		cseen[c.Namespace+"/"+c.Name] = b
		if c.Namespace == ns {
			certs = append(certs, projCert(c))
		} else if w.decoyCert != nil && c.Namespace == otherNs && c.Name == w.decoyCert.Name {
			seenDecoy = true
			if !reflect.DeepEqual(projCert(c), projCert(w.decoyCert)) {
				complaints = append(complaints, "decoy certificate in other namespace changed")
			}
		} else {
			complaints = append(complaints, "certificate appeared in namespace "+c.Namespace)
		}
	}
	if !seenDecoy {
		complaints = append(complaints, "decoy certificate in other namespace deleted")
	}
	// DNSEndpointList is not registered in the clientset scheme of /repo, so the fake cannot List;
	// read every name ever seen (initial objects, decoy, created names) from the tracker instead.
	for _, a := range w.dns.Actions() {
		if isWrite(a.GetVerb()) {
			w.dnsKnown[a.GetNamespace()+"/"+actionName(a)] = [2]string{a.GetNamespace(), actionName(a)}
		}
	}
	dl := &extdnsapi.DNSEndpointList{}
	var keys []string
	for k := range w.dnsKnown {
		keys = append(keys, k)
	}
	sort.Strings(keys)
	for _, k := range keys {
		nsn := w.dnsKnown[k]
		d, err := w.dns.ExternaldnsV1().DNSEndpoints(nsn[0]).Get(context.Background(), nsn[1], metav1.GetOptions{})
		if apierrors.IsNotFound(err) {
			continue
		}
		if err != nil {
			return nil, nil, nil, err
		}
		dl.Items = append(dl.Items, *d)
	}
	dseen := map[string][]byte{}
	dnss := []DNSObj{}
	seenDecoy = w.decoyDNS == nil
	for i := range dl.Items {
		b, err := json.Marshal(&dl.Items[i])
		if err != nil {
			return nil, nil, nil, err
		}
		d := &extdnsapi.DNSEndpoint{}
		if err := json.Unmarshal(b, d); err != nil {
			return nil, nil, nil, err
		}
		dseen[d.Namespace+"/"+d.Name] = b
		if d.Namespace == ns {
			dnss = append(dnss, projDNS(d))
		} else if w.decoyDNS != nil && d.Namespace == otherNs && d.Name == w.decoyDNS.Name {
			seenDecoy = true
			if !reflect.DeepEqual(projDNS(d), projDNS(w.decoyDNS)) {
				complaints = append(complaints, "decoy DNSEndpoint in other namespace changed")
			}
		} else {
			complaints = append(complaints, "DNSEndpoint appeared in namespace "+d.Namespace)
		}
	}
	if !seenDecoy {
		complaints = append(complaints, "decoy DNSEndpoint in other namespace deleted")
	}
	hCM, hDNS := w.derivedHandlers()
	if err := deliverTo(w.cmIdx, w.cmDelivered, cseen, func(b []byte) (interface{}, error) {
		c := &cmapi.Certificate{}
		return c, json.Unmarshal(b, c)
	}, w.dispatch(hCM)); err != nil {
		return nil, nil, nil, err
	}
	if err := deliverTo(w.dnsIdx, w.dnsDelivered, dseen, func(b []byte) (interface{}, error) {
		d := &extdnsapi.DNSEndpoint{}
		return d, json.Unmarshal(b, d)
	}, w.dispatch(hDNS)); err != nil {
		return nil, nil, nil, err
	}
	sort.Slice(certs, func(i, j int) bool { return certs[i].Name < certs[j].Name })
	sort.Slice(dnss, func(i, j int) bool { return dnss[i].Name < dnss[j].Name })
	w.cm.ClearActions()
	w.dns.ClearActions()
	w.lastCerts, w.lastDNS = certs, dnss
	return certs, dnss, complaints, nil
}

func errClass(err error) string {
	switch {
	case err == nil:
		return ""
	case apierrors.IsConflict(err):
		return "conflict"
	case apierrors.IsAlreadyExists(err):
		return "exists"
	case apierrors.IsInternalError(err):
		return "internal"
	}
	return "other"
}

func collect(actions []coretesting.Action, resource string) (log []KV, unexpected []string) {
	log = []KV{}
	for _, a := range actions {
		name := actionName(a)
		if a.GetResource().Resource != resource || a.GetNamespace() != ns || a.GetSubresource() != "" ||
			!(a.GetVerb() == "create" || a.GetVerb() == "update" || a.GetVerb() == "delete") {
			unexpected = append(unexpected, fmt.Sprintf("%s %s %s/%s", a.GetVerb(), a.GetResource().Resource, a.GetNamespace(), name))
			continue
		}
		log = append(log, KV{a.GetVerb(), name})
	}
	return
}

var quietCtx = nl.ContextWithLogger(context.Background(), slog.New(slog.NewTextHandler(io.Discard, nil)))

func (w *world) step(st Step) (so StepObs) {
	so.Unexpected = []string{}
	defer func() {
		if r := recover(); r != nil {
			so.Panic = fmt.Sprint(r)
		}
	}()
	so.CacheMutated = []string{}
	vs := buildVS(st.VS)
	w.cmFaults = append([]string(nil), st.CMFaults...)
	w.dnsFaults = append([]string(nil), st.DNSFaults...)
	// does the lister reflect the cluster?  (it does unless an earlier synchronization wrote into it)
	if cc, dc := w.cacheView(); !reflect.DeepEqual(cc, w.lastCerts) || !reflect.DeepEqual(dc, w.lastDNS) {
		if !reflect.DeepEqual(cc, w.lastCerts) {
			so.CM.Cache = &cc
		}
		if !reflect.DeepEqual(dc, w.lastDNS) {
			so.DNS.Cache = &dc
		}
	}
	before := w.snapshot()
	err := w.cmSync(quietCtx, vs.DeepCopy())
	so.CM.Err = errClass(err)
	err = w.dnsSync(quietCtx, vs.DeepCopy())
	so.DNS.Err = errClass(err)
	so.CacheMutated = w.mutated(before)
	var u1, u2 []string
	so.CM.Log, u1 = collect(w.cm.Actions(), "certificates")
	so.DNS.Log, u2 = collect(w.dns.Actions(), "dnsendpoints")
	so.Unexpected = append(append(so.Unexpected, u1...), u2...)
	certs, dnss, complaints, rerr := w.refresh()
	if rerr != nil {
		so.Panic = "harness: refresh: " + rerr.Error()
		return
	}
	so.CM.Store, so.DNS.Store = certs, dnss
	so.Unexpected = append(so.Unexpected, complaints...)
	return
}

// ---------- delivery family: VirtualServer event -> real handlers -> real queues -> real processItem ----------

var (
	certGVR = cmapi.SchemeGroupVersion.WithResource("certificates")
	dnsGVR  = extdnsapi.SchemeGroupVersion.WithResource("dnsendpoints")
)

// tamper lets somebody else delete or edit the derived object the VirtualServer controls, straight in
// the cluster.  Reports whether anything was changed.
func (w *world) tamper(kind string, v VSIn) bool {
	ctx := context.Background()
	switch kind {
	case "delete-cert", "edit-cert":
		if v.TLS == nil {
			return false
		}
		c, err := w.cm.CertmanagerV1().Certificates(ns).Get(ctx, v.TLS.Secret, metav1.GetOptions{})
		if err != nil {
			return false
		}
		if o, _ := projOwner(c.OwnerReferences); o != v.UID {
			return false
		}
		if kind == "delete-cert" {
			return w.cm.Tracker().Delete(certGVR, ns, c.Name) == nil
		}
		c.Spec.DNSNames = []string{"tampered.example.com"}
		return w.cm.Tracker().Update(certGVR, c, ns) == nil
	case "delete-dns", "edit-dns":
		d, err := w.dns.ExternaldnsV1().DNSEndpoints(ns).Get(ctx, v.Name, metav1.GetOptions{})
		if err != nil {
			return false
		}
		if o, _ := projOwner(d.OwnerReferences); o != v.UID {
			return false
		}
		if kind == "delete-dns" {
			return w.dns.Tracker().Delete(dnsGVR, ns, d.Name) == nil
		}
		if len(d.Spec.Endpoints) == 0 || d.Spec.Endpoints[0] == nil {
			return false
		}
		d.Spec.Endpoints[0].Targets = extdnsapi.Targets{"192.0.2.99"}
		return w.dns.Tracker().Update(dnsGVR, d, ns) == nil
	}
	return false
}

// offerVS puts the VirtualServer as it is now into the VirtualServer informer stores of both
// controllers and calls their real VirtualServer handlers the way the informer does.  The API server's
// bookkeeping is reproduced: metadata.generation moves only when the spec changes (status is a
// subresource, labels are metadata), resourceVersion moves with every change.
func (w *world) offerVS(st Step) string {
	vs := buildVS(st.VS)
	vs.Status.Message = fmt.Sprintf("noise-%d", st.Noise)
	old := w.vsLast
	type side struct {
		store cache.Indexer
		h     cache.ResourceEventHandler
	}
	sides := []side{{w.ctlCM.VSStore, w.ctlCM.VS}, {w.ctlDNS.VSStore, w.ctlDNS.VS}}
	ev := "update"
	if old != nil && (old.UID != vs.UID || old.Name != vs.Name) {
		for _, sd := range sides {
			if o, ok, _ := sd.store.GetByKey(ns + "/" + old.Name); ok {
				_ = sd.store.Delete(o)
				sd.h.OnDelete(o)
			}
		}
		old = nil
	}
	if old == nil {
		w.vsGen = 1
		w.vsRV++
		ev = "add"
	} else {
		if !reflect.DeepEqual(old.Spec, vs.Spec) {
			w.vsGen++
		}
		if !reflect.DeepEqual(old.Spec, vs.Spec) || !reflect.DeepEqual(old.Labels, vs.Labels) || !reflect.DeepEqual(old.Status, vs.Status) {
			w.vsRV++
		} else {
			ev = "resync"
		}
	}
	vs.Generation = w.vsGen
	vs.ResourceVersion = fmt.Sprint(w.vsRV)
	for _, sd := range sides {
		cur := vs.DeepCopy()
		prev, existed, _ := sd.store.GetByKey(ns + "/" + vs.Name)
		_ = sd.store.Update(cur)
		if existed {
			sd.h.OnUpdate(prev, cur)
		} else {
			sd.h.OnAdd(cur, false)
		}
	}
	w.vsLast = vs
	return ev
}

func (w *world) dstep(st Step) (so StepObs) {
	so.Unexpected = []string{}
	so.CacheMutated = []string{}
	so.CM.Log, so.DNS.Log = []KV{}, []KV{}
	dv := &DeliveryObs{Enqueued: []string{}, Processed: []string{}}
	so.Delivery = dv
	defer func() {
		if r := recover(); r != nil {
			so.Panic = fmt.Sprint(r)
		}
	}()
	w.cmFaults = append([]string(nil), st.CMFaults...)
	w.dnsFaults = append([]string(nil), st.DNSFaults...)
	w.derivedEv = 0
	// the back-off delay of items that kept failing in the previous step has passed
	w.ctlCM.ReleaseDelayed()
	w.ctlDNS.ReleaseDelayed()
	if st.Tamper != "" && w.tamper(st.Tamper, st.VS) {
		// the watch delivers the foreign change; the owner-reference handler sees it
		certs, dnss, complaints, err := w.refresh()
		if err != nil {
			so.Panic = "harness: refresh: " + err.Error()
			return
		}
		so.Unexpected = append(so.Unexpected, complaints...)
		if strings.HasSuffix(st.Tamper, "-cert") {
			so.CM.Pre = &certs
		} else {
			so.DNS.Pre = &dnss
		}
	} else {
		w.cm.ClearActions()
		w.dns.ClearActions()
	}
	if cc, dc := w.cacheView(); !reflect.DeepEqual(cc, w.lastCerts) || !reflect.DeepEqual(dc, w.lastDNS) {
		if !reflect.DeepEqual(cc, w.lastCerts) {
			so.CM.Cache = &cc
		}
		if !reflect.DeepEqual(dc, w.lastDNS) {
			so.DNS.Cache = &dc
		}
	}
	dv.VSEvent = w.offerVS(st)
	vsKey := ns + "/" + st.VS.Name
	if w.ctlCM.QueueLen() > 0 {
		dv.Enqueued = append(dv.Enqueued, "cert-manager")
	}
	if w.ctlDNS.QueueLen() > 0 {
		dv.Enqueued = append(dv.Enqueued, "externaldns")
	}
	var cmErr, dnsErr error
	for round := 0; round < 16; round++ {
		before := w.snapshot()
		n := 0
		for _, call := range w.ctlCM.RunWorker(quietCtx) {
			n++
			dv.Processed = append(dv.Processed, "cert-manager:"+call.Key)
			if call.Key == vsKey {
				cmErr = call.Err
				dv.RanCM = true
			}
		}
		for _, call := range w.ctlDNS.RunWorker(quietCtx) {
			n++
			dv.Processed = append(dv.Processed, "externaldns:"+call.Key)
			if call.Key == vsKey {
				dnsErr = call.Err
				dv.RanDNS = true
			}
		}
		so.CacheMutated = append(so.CacheMutated, w.mutated(before)...)
		l1, u1 := collect(w.cm.Actions(), "certificates")
		l2, u2 := collect(w.dns.Actions(), "dnsendpoints")
		so.CM.Log = append(so.CM.Log, l1...)
		so.DNS.Log = append(so.DNS.Log, l2...)
		so.Unexpected = append(append(so.Unexpected, u1...), u2...)
		// the watch delivers what the synchronizations wrote; the owner-reference handlers may enqueue again
		certs, dnss, complaints, err := w.refresh()
		if err != nil {
			so.Panic = "harness: refresh: " + err.Error()
			return
		}
		so.CM.Store, so.DNS.Store = certs, dnss
		so.Unexpected = append(so.Unexpected, complaints...)
		if n == 0 && w.ctlCM.QueueLen() == 0 && w.ctlDNS.QueueLen() == 0 {
			break
		}
		if round == 15 {
			so.Unexpected = append(so.Unexpected, "work queues did not drain in 16 rounds")
		}
	}
	so.CM.Err, so.DNS.Err = errClass(cmErr), errClass(dnsErr)
	dv.DerivedEvts = w.derivedEv
	return
}

// firstTime runs the same VirtualServer against an empty cluster: what a first-time
// synchronization creates.
func firstTime(v VSIn) (c *CertObj, cerr string, d *DNSObj, derr string) {
	defer func() {
		if r := recover(); r != nil {
			cerr, derr = "panic", "panic"
		}
	}()
	w := newWorld(nil, nil, "")
	if _, _, _, err := w.refresh(); err != nil {
		return nil, "harness", nil, "harness"
	}
	vs := buildVS(v)
	cerr = errClass(w.cmSync(quietCtx, vs.DeepCopy()))
	derr = errClass(w.dnsSync(quietCtx, vs.DeepCopy()))
	certs, dnss, _, err := w.refresh()
	if err != nil {
		return nil, "harness", nil, "harness"
	}
	if len(certs) == 1 {
		c = &certs[0]
	}
	if len(dnss) == 1 {
		d = &dnss[0]
	}
	return
}

// ---------- the first-time reference, from a pristine process ----------
//
// "What a first-time synchronization of this VirtualServer creates" must not depend on anything this
// process has synchronized before (package-level state of the code under test survives between
// histories, and on purpose: the histories share one process the way VirtualServers share one
// controller).  The reference is therefore computed by a child process that does nothing else: this
// binary with -fresh-one, the VirtualServer on stdin, one VirtualServer per process.

type FreshRes struct {
	Cert    *CertObj `json:"cert"`
	CertErr string   `json:"cert_err"`
	DNS     *DNSObj  `json:"dns"`
	DNSErr  string   `json:"dns_err"`
}

var (
	freshMu    sync.Mutex
	freshCache = map[string]FreshRes{}
)

func freshKey(v VSIn) string {
	b, _ := json.Marshal(v)
	return string(b)
}

func freshChild(v VSIn) FreshRes {
	self, err := os.Executable()
	if err != nil {
		return FreshRes{CertErr: "harness", DNSErr: "harness"}
	}
	in, _ := json.Marshal(v)
	cmd := exec.Command(self, "-fresh-one")
	cmd.Stdin = strings.NewReader(string(in))
	out, err := cmd.Output()
	var r FreshRes
	if err != nil || json.Unmarshal(out, &r) != nil {
		return FreshRes{CertErr: "harness", DNSErr: "harness"}
	}
	return r
}

// precomputeFresh fills the reference cache for every VirtualServer of the cases, 16 children at a time.
func precomputeFresh(cases []*Case) {
	var todo []VSIn
	seen := map[string]bool{}
	for _, c := range cases {
		for i := range c.Steps {
			fillOracles(&c.Steps[i].VS)
			k := freshKey(c.Steps[i].VS)
			if _, ok := freshCache[k]; !ok && !seen[k] {
				seen[k] = true
				todo = append(todo, c.Steps[i].VS)
			}
		}
	}
	sem := make(chan struct{}, 16)
	var wg sync.WaitGroup
	for _, v := range todo {
		wg.Add(1)
		sem <- struct{}{}
		go func(v VSIn) {
			defer wg.Done()
			defer func() { <-sem }()
			r := freshChild(v)
			freshMu.Lock()
			freshCache[freshKey(v)] = r
			freshMu.Unlock()
		}(v)
	}
	wg.Wait()
}

func pristineFirstTime(v VSIn) (*CertObj, string, *DNSObj, string) {
	k := freshKey(v)
	freshMu.Lock()
	r, ok := freshCache[k]
	freshMu.Unlock()
	if !ok {
		r = freshChild(v)
		freshMu.Lock()
		freshCache[k] = r
		freshMu.Unlock()
	}
	return r.Cert, r.CertErr, r.DNS, r.DNSErr
}

func runCase(c *Case) {
	defer func() {
		if r := recover(); r != nil {
			c.Obs = Obs{Error: fmt.Sprint("harness panic: ", r)}
		}
	}()
	for i := range c.Steps {
		fillOracles(&c.Steps[i].VS)
	}
	decoy := ""
	if len(c.Steps) > 0 {
		decoy = c.Steps[0].VS.UID
	}
	w := newWorldOpt(c.InitCerts, c.InitDNS, decoy, c.Delivery)
	if c.Delivery {
		defer w.ctlCM.Shutdown()
		defer w.ctlDNS.Shutdown()
	}
	certs, dnss, complaints, err := w.refresh()
	if err != nil {
		c.Obs = Obs{Error: "refresh: " + err.Error()}
		return
	}
	if len(complaints) > 0 {
		c.Obs = Obs{Error: "initial world: " + complaints[0]}
		return
	}
	// the initial stores as the cluster really holds them (normalised)
	c.InitCerts, c.InitDNS = certs, dnss
	c.Obs = Obs{}
	if c.Delivery {
		// the initial objects reached the owner-reference handlers as Add events; the VirtualServers they
		// name do not exist yet, so draining is a no-op
		w.ctlCM.RunWorker(quietCtx)
		w.ctlDNS.RunWorker(quietCtx)
	}
	for _, st := range c.Steps {
		var so StepObs
		if c.Delivery {
			so = w.dstep(st)
		} else {
			so = w.step(st)
		}
		so.FreshCert, so.FreshCertErr, so.FreshDNS, so.FreshDNSErr = pristineFirstTime(st.VS)
		if c.Delivery && so.Delivery != nil {
			// no fault is injected in this family, so an error of a synchronization is a property of the
			// VirtualServer alone.  When a controller did not synchronize at all in this step (event
			// dropped, or nothing offered), report the error class a synchronization would have had: the
			// step is then judged like any other -- fine iff a synchronization would have been a no-op.
			if !so.Delivery.RanCM {
				so.CM.Err = so.FreshCertErr
			}
			if !so.Delivery.RanDNS {
				so.DNS.Err = so.FreshDNSErr
			}
		}
		c.Obs.Steps = append(c.Obs.Steps, so)
		if so.Panic != "" {
			break
		}
	}
}

// ---------- generators ----------

var (
	secrets   = []string{"s1", "s2", "s3"}
	vsNames   = []string{"vs-a", "vs-b"}
	hosts     = []string{"a.example.com", "b.example.com", "c.example.org"}
	labelSets = [][]KV{nil, nil, {{"app", "x"}}, {{"app", "y"}, {"tier", "z"}}}
	issuers   = []string{"iss-1", "iss-1", "iss-2", ""}
	clIssuers = []string{"", "", "", "ci-1"}
	kinds     = []string{"", "", "Issuer", "ClusterIssuer", "AWSPCAIssuer"}
	groups    = []string{"", "", "cert-manager.io", "awspca.cert-manager.io"}
	cns       = []string{"", "cn.example.com", "other.example.com"}
	durations = []string{"", "", "2160h", "720h", "1h30m", "90m", "bogus", "10"}
	usagesS   = []string{"", "", "server auth", "digital signature,key encipherment", "signing, client auth", " any ", "bogus usage", "server auth,", "key encipherment,digital signature"}
	rtypes    = []string{"", "", "A", "CNAME", "TXT"}
	ttls      = []int64{0, 0, 60, 300}
	xlabels   = []*[]KV{nil, nil, {}, {{"owner", "team"}}, {{"a", "1"}, {"b", "2"}}}
	providers = [][]KV{nil, nil, {}, {{"aws/weight", "10"}}, {{"a", "1"}, {"b", "2"}}}
	endpoints = []*[]ExtEp{
		{{IP: "10.0.0.1"}}, {{IP: "10.0.0.1"}}, {{IP: "10.0.0.1"}, {IP: "10.0.0.2"}}, {{IP: "2001:db8::1"}}, {{Hostname: "lb.example.com"}},
		{{IP: "2001:db8::1"}, {IP: "10.0.0.3"}}, {{Hostname: "lb.example.com"}, {IP: "10.0.0.4"}}, {{IP: "bad"}, {Hostname: "lb2.example.com"}},
		{{IP: "999.1.1.1"}}, {{IP: "010.0.0.1"}}, {{}}, {}, nil, {{IP: "10.0.0.9", Hostname: "both.example.com"}},
	}
	ownerKinds = []string{"none", "foreign", "foreign-deploy", "ref", "mine", "mine"}
)

func cloneVS(v VSIn) VSIn {
	b, _ := json.Marshal(v)
	var out VSIn
	json.Unmarshal(b, &out)
	return out
}

func baseVS(r *vh.Rng) VSIn {
	v := VSIn{Name: "vs-a", UID: "uid-a", Labels: vh.Pick(r, labelSets), Host: vh.Pick(r, hosts)}
	v.TLS = &TLSIn{Secret: vh.Pick(r, secrets), CM: &CMIn{Issuer: "iss-1"}}
	v.XDNS = XDNSIn{Enable: true, ProviderNil: true}
	ep := []ExtEp{{IP: "10.0.0.1"}}
	v.Endpoints = &ep
	if r.Chance(1, 3) {
		for k := 0; k < 3; k++ {
			edit(r, &v)
		}
	}
	return v
}

func ensureCM(v *VSIn) *CMIn {
	if v.TLS == nil {
		v.TLS = &TLSIn{Secret: "s1"}
	}
	if v.TLS.CM == nil {
		v.TLS.CM = &CMIn{Issuer: "iss-1"}
	}
	return v.TLS.CM
}

// edit changes one field of the VirtualServer (every cert-manager and ExternalDNS field,
// secret rename, host change, labels, external endpoints).
func edit(r *vh.Rng, v *VSIn) string {
	switch r.Intn(23) {
	case 19: // removal only: one providerSpecific entry, or the whole block
		v.XDNS.Enable = true
		if n := len(v.XDNS.Provider); n > 1 && r.Chance(2, 3) {
			k := r.Intn(n)
			v.XDNS.Provider = append(append([]KV{}, v.XDNS.Provider[:k]...), v.XDNS.Provider[k+1:]...)
		} else if n > 0 {
			v.XDNS.Provider, v.XDNS.ProviderNil = nil, true
		} else {
			v.XDNS.Provider, v.XDNS.ProviderNil = []KV{{"a", "1"}, {"b", "2"}, {"aws/weight", "10"}}, false
		}
		return "providerSpecific-removal"
	case 20: // removal only: one endpoint label, or all of them
		v.XDNS.Enable = true
		if v.XDNS.Labels != nil && len(*v.XDNS.Labels) > 1 {
			l := append([]KV{}, (*v.XDNS.Labels)[1:]...)
			v.XDNS.Labels = &l
		} else if v.XDNS.Labels != nil {
			v.XDNS.Labels = nil
		} else {
			v.XDNS.Labels = &[]KV{{"a", "1"}, {"b", "2"}}
		}
		return "dns-labels-removal"
	case 21, 22: // removal only: one label of the VirtualServer, or all of them
		if len(v.Labels) > 1 {
			v.Labels = append([]KV{}, v.Labels[:len(v.Labels)-1]...)
		} else if len(v.Labels) == 1 {
			v.Labels = nil
		} else {
			v.Labels = []KV{{"app", "y"}, {"tier", "z"}}
		}
		return "labels-removal"
	case 0:
		ensureCM(v)
		v.TLS.Secret = vh.Pick(r, secrets)
		return "secret"
	case 1:
		v.Host = vh.Pick(r, hosts)
		return "host"
	case 2:
		v.Labels = vh.Pick(r, labelSets)
		return "labels"
	case 3:
		ensureCM(v).Issuer = vh.Pick(r, issuers)
		return "issuer"
	case 4:
		ensureCM(v).ClusterIssuer = vh.Pick(r, clIssuers)
		return "cluster-issuer"
	case 5:
		ensureCM(v).IssuerKind = vh.Pick(r, kinds)
		return "issuer-kind"
	case 6:
		ensureCM(v).IssuerGroup = vh.Pick(r, groups)
		return "issuer-group"
	case 7:
		ensureCM(v).CommonName = vh.Pick(r, cns)
		return "common-name"
	case 8:
		ensureCM(v).Duration = vh.Pick(r, durations)
		return "duration"
	case 9:
		ensureCM(v).RenewBefore = vh.Pick(r, durations)
		return "renew-before"
	case 10:
		ensureCM(v).Usages = vh.Pick(r, usagesS)
		return "usages"
	case 11:
		c := ensureCM(v)
		c.Temp = !c.Temp
		return "issue-temp-cert"
	case 12:
		v.XDNS.Enable = true
		v.XDNS.RType = vh.Pick(r, rtypes)
		return "recordType"
	case 13:
		v.XDNS.Enable = true
		v.XDNS.TTL = vh.Pick(r, ttls)
		return "recordTTL"
	case 14:
		v.XDNS.Enable = true
		v.XDNS.Labels = vh.Pick(r, xlabels)
		return "dns-labels"
	case 15:
		v.XDNS.Enable = true
		p := vh.Pick(r, providers)
		v.XDNS.ProviderNil = p == nil
		v.XDNS.Provider = p
		return "providerSpecific"
	case 16, 17:
		v.Endpoints = vh.Pick(r, endpoints)
		return "externalEndpoints"
	default:
		v.XDNS.Enable = true
		ensureCM(v)
		return "enable"
	}
}

// malform puts one setting into a state the validation webhook would reject or the controller
// cannot use (the malformed stream): unparsable durations, unknown usages, contradictory issuer
// settings, unusable external endpoints.
func malform(r *vh.Rng, v *VSIn) {
	switch r.Intn(8) {
	case 0:
		ensureCM(v).Duration = vh.Pick(r, []string{"bogus", "10", "-", "1d"})
	case 1:
		ensureCM(v).RenewBefore = vh.Pick(r, []string{"bogus", "h", "1.5.h"})
	case 2:
		ensureCM(v).Usages = vh.Pick(r, []string{"bogus usage", "server auth,", ",", "Server Auth", "server  auth"})
	case 3:
		c := ensureCM(v)
		c.Issuer, c.ClusterIssuer = "iss-1", "ci-1"
	case 4:
		c := ensureCM(v)
		c.Issuer, c.ClusterIssuer = "", ""
	case 5:
		c := ensureCM(v)
		c.ClusterIssuer, c.IssuerKind, c.IssuerGroup = "ci-1", vh.Pick(r, kinds), vh.Pick(r, groups)
	case 6:
		v.XDNS.Enable = true
		v.Endpoints = vh.Pick(r, []*[]ExtEp{nil, {}, {{}}, {{IP: "999.1.1.1"}}, {{IP: "1.2.3"}, {IP: "::g"}}, {{IP: " 10.0.0.1"}}})
	default:
		v.XDNS.Enable = true
		v.XDNS.RType = vh.Pick(r, []string{"bogus", "a", " "})
	}
}

func removeFeature(r *vh.Rng, v *VSIn) {
	switch r.Intn(4) {
	case 0:
		v.TLS = nil
	case 1:
		if v.TLS != nil {
			v.TLS.CM = nil
		} else {
			v.XDNS.Enable = false
		}
	case 2:
		v.XDNS.Enable = false
	default:
		v.XDNS.Enable = false
		if v.TLS != nil {
			v.TLS.CM = nil
		}
	}
}

func genFaults(r *vh.Rng, heavy bool) []string {
	den := 6
	if heavy {
		den = 2
	}
	if !r.Chance(1, den) {
		return nil
	}
	n := 1 + r.Intn(3)
	out := make([]string, n)
	hit := false
	for i := range out {
		if r.Chance(1, 2) {
			out[i] = vh.Pick(r, []string{"conflict", "exists", "internal"})
			hit = true
		}
	}
	if !hit {
		out[0] = vh.Pick(r, []string{"conflict", "exists", "internal"})
	}
	return out
}

func ownerOf(kind string) (owner, ref string) {
	switch kind {
	case "foreign":
		return "uid-x", ""
	case "foreign-deploy":
		return "uid-deploy", ""
	case "ref":
		return "", "uid-a" // an owner reference to the VirtualServer itself, but not a controller reference
	case "mine":
		return "uid-a", ""
	}
	return "", ""
}

func genInitCert(r *vh.Rng, name string) CertObj {
	o := CertObj{Name: name, Labels: vh.Pick(r, labelSets), CN: vh.Pick(r, cns), DNS: []string{vh.Pick(r, hosts)}, Secret: name,
		IName: vh.Pick(r, []string{"iss-1", "iss-2", "old"}), IKind: vh.Pick(r, []string{"Issuer", "ClusterIssuer"}), IGroup: vh.Pick(r, groups),
		Usages: []string{"digital signature", "key encipherment"}, IsCA: r.Chance(1, 5)}
	o.Owner, o.Ref = ownerOf(vh.Pick(r, ownerKinds))
	if r.Chance(1, 3) {
		d := int64(time.Hour) * int64(1+r.Intn(3000))
		o.Dur = &d
	}
	if r.Chance(1, 4) {
		d := int64(time.Hour) * int64(1+r.Intn(300))
		o.Renew = &d
	}
	if r.Chance(1, 4) {
		o.Usages = []string{"server auth"}
	}
	if r.Chance(1, 5) {
		t := vh.Pick(r, []string{"true", "false"})
		o.Temp = &t
	}
	if r.Chance(1, 4) {
		o.DNS = append(o.DNS, "extra.example.com")
	}
	if r.Chance(1, 8) {
		o.Secret = vh.Pick(r, secrets) // hand-edited: spec.secretName differs from the name
	}
	return o
}

func genInitDNS(r *vh.Rng, name string) DNSObj {
	o := DNSObj{Name: name, Labels: vh.Pick(r, labelSets)}
	o.Owner, o.Ref = ownerOf(vh.Pick(r, ownerKinds))
	if o.Owner == "uid-a" && name == "vs-b" {
		o.Owner = "uid-b" // a DNSEndpoint is named after the VirtualServer that controls it
	}
	n := r.Intn(3)
	if r.Chance(2, 3) {
		n = 1
	}
	for i := 0; i < n; i++ {
		e := EpObj{DNSName: vh.Pick(r, hosts), Targets: []string{vh.Pick(r, []string{"10.0.0.1", "10.0.0.7", "lb.example.com"})},
			RType: vh.Pick(r, []string{"A", "CNAME", "AAAA"}), TTL: vh.Pick(r, ttls)}
		if l := vh.Pick(r, xlabels); l != nil && len(*l) > 0 {
			e.Labels = l
		}
		e.Provider = vh.Pick(r, providers)
		o.Endpoints = append(o.Endpoints, e)
	}
	return o
}

// sanitizeDelivery keeps the delivery family away from the known non-idempotent input
// (externalDNS.labels: {}), which the direct family covers: there a re-enqueue by the owner-reference
// handler would write again and blur what a single synchronization does.
func sanitizeDelivery(v *VSIn) {
	if v.XDNS.Labels != nil && len(*v.XDNS.Labels) == 0 {
		v.XDNS.Labels = nil
	}
}

// genDelivery: a history that goes through the event handlers, the work queues and processItem.
// Every kind of change of the VirtualServer that changes what a first-time synchronization creates is
// offered (spec edits, labels, status.externalEndpoints), plus changes nothing depends on, plus
// foreign deletes / edits of the derived objects.
func genDelivery(r *vh.Rng, id int) *Case {
	c := &Case{ID: id, Class: "delivery", Delivery: true}
	if r.Chance(1, 2) {
		for _, sname := range secrets {
			if r.Chance(1, 3) {
				o := genInitCert(r, sname)
				o.Owner, o.Ref = ownerOf(vh.Pick(r, []string{"none", "foreign", "foreign-deploy", "ref"}))
				c.InitCerts = append(c.InitCerts, o)
			}
		}
		if r.Chance(1, 4) {
			o := genInitDNS(r, "vs-a")
			o.Owner, o.Ref = ownerOf(vh.Pick(r, []string{"none", "foreign", "ref"}))
			c.InitDNS = append(c.InitDNS, o)
		}
	}
	v := baseVS(r)
	sanitizeDelivery(&v)
	noise := 0
	prevFaulty := false
	nsteps := 4 + r.Intn(6)
	for i := 0; i < nsteps; i++ {
		st := Step{Kind: "first"}
		if i > 0 {
			switch k := r.Intn(20); {
			case k < 8:
				st.Kind = "edit"
				edit(r, &v)
			case k < 11:
				st.Kind = "endpoints" // status only: the generation does not move
				v.Endpoints = vh.Pick(r, endpoints)
			case k < 13:
				st.Kind = "labels" // metadata only
				v.Labels = vh.Pick(r, labelSets)
			case k < 15:
				st.Kind = "noise"
				noise++
			case k < 19:
				st.Kind = "tamper"
				st.Tamper = vh.Pick(r, []string{"delete-cert", "edit-cert", "delete-dns", "edit-dns"})
			default:
				st.Kind = "remove"
				removeFeature(r, &v)
			}
			sanitizeDelivery(&v)
		}
		st.VS, st.Noise = cloneVS(v), noise
		// a write of this step fails; the real worker loop re-queues and retries.  The next step is
		// fault-free, so that convergence is judged after the faults have stopped.
		if !prevFaulty && st.Kind != "tamper" && i+1 < nsteps && r.Chance(1, 3) {
			f := []string{vh.Pick(r, []string{"conflict", "exists", "internal"})}
			if r.Chance(1, 3) {
				f = append([]string{""}, f...)
			}
			if r.Bool() {
				st.CMFaults = f
			} else {
				st.DNSFaults = f
			}
			prevFaulty = true
		} else {
			prevFaulty = false
		}
		c.Steps = append(c.Steps, st)
	}
	return c
}

func genCase(r *vh.Rng, id int) *Case {
	if id%8 == 7 {
		return genDelivery(r, id)
	}
	c := &Case{ID: id}
	classes := []string{"clean", "preexisting", "preexisting", "faults", "mixed", "mixed", "malformed"}
	c.Class = classes[id%len(classes)]
	pre := c.Class == "preexisting" || c.Class == "mixed"
	flt := c.Class == "faults" || c.Class == "mixed"
	if pre {
		for _, s := range secrets {
			if r.Chance(1, 2) {
				c.InitCerts = append(c.InitCerts, genInitCert(r, s))
			}
		}
		for _, n := range vsNames {
			if r.Chance(1, 2) {
				c.InitDNS = append(c.InitDNS, genInitDNS(r, n))
			}
		}
	}
	v := baseVS(r)
	nsteps := 3 + r.Intn(6)
	prevFaulty := false
	for i := 0; i < nsteps; i++ {
		kind := "first"
		if i > 0 && prevFaulty && r.Chance(2, 3) {
			// the work queue retries the item after a failed synchronization: same VirtualServer,
			// no fault this time
			kind = "retry"
		} else if i > 0 {
			switch k := r.Intn(20); {
			case k < 10:
				kind = "edit"
				edit(r, &v)
				if r.Chance(1, 4) {
					edit(r, &v)
				}
				if c.Class == "malformed" && r.Chance(1, 2) {
					malform(r, &v)
				}
			case k < 15:
				kind = "resync"
			case k < 18:
				kind = "remove"
				removeFeature(r, &v)
			default:
				kind = "identity"
				switch r.Intn(3) {
				case 0: // another VirtualServer of the namespace (possibly naming the same secret)
					if v.Name == "vs-a" {
						v.Name, v.UID = "vs-b", "uid-b"
					} else {
						v.Name, v.UID = "vs-a", "uid-a"
					}
				case 1: // deleted and recreated under the same name
					v.UID = v.UID + "2"
				default:
					v.Name, v.UID = "vs-a", "uid-a"
				}
			}
		}
		st := Step{VS: cloneVS(v), Kind: kind}
		if flt && kind != "retry" {
			st.CMFaults = genFaults(r, c.Class == "faults")
			st.DNSFaults = genFaults(r, c.Class == "faults")
		}
		prevFaulty = len(st.CMFaults) > 0 || len(st.DNSFaults) > 0
		c.Steps = append(c.Steps, st)
	}
	return c
}

// probe asks the real certNeedsUpdate, field by field, whether a difference in that field alone
// makes it answer true.
type Probe struct {
	Probe map[string]bool `json:"probe"`
}

func probe() Probe {
	h, h2 := int64(time.Hour), int64(2*time.Hour)
	base := CertObj{Name: "p", Owner: "u", Secret: "p", DNS: []string{"h"}, IName: "i", IKind: "Issuer", IGroup: "g", Dur: &h, Renew: &h, Usages: []string{"server auth"}}
	mk := func(f func(o *CertObj)) bool {
		o := base
		f(&o)
		return certmanager.VerifCertNeedsUpdate(buildCert(base, ns), buildCert(o, ns))
	}
	t := "true"
	return Probe{Probe: map[string]bool{
		"same":    mk(func(o *CertObj) {}),
		"labels":  mk(func(o *CertObj) { o.Labels = []KV{{"a", "b"}} }),
		"cn":      mk(func(o *CertObj) { o.CN = "x" }),
		"dns":     mk(func(o *CertObj) { o.DNS = []string{"h2"} }),
		"secret":  mk(func(o *CertObj) { o.Secret = "q" }),
		"iname":   mk(func(o *CertObj) { o.IName = "j" }),
		"ikind":   mk(func(o *CertObj) { o.IKind = "ClusterIssuer" }),
		"igroup":  mk(func(o *CertObj) { o.IGroup = "g2" }),
		"dur":     mk(func(o *CertObj) { o.Dur = &h2 }),
		"renew":   mk(func(o *CertObj) { o.Renew = &h2 }),
		"usages":  mk(func(o *CertObj) { o.Usages = []string{"client auth"} }),
		"dur_nil": mk(func(o *CertObj) { o.Dur = nil }),
		"is_ca":   mk(func(o *CertObj) { o.IsCA = true }),
		"temp":    mk(func(o *CertObj) { o.Temp = &t }),
	}}
}

// witnesses are the histories of the refutation theorems in coq/Sync/Proofs.v (wv_*), replayed on
// the real code on every run: the empty cluster, VirtualServer vs-a/uid-a with secret s1 and issuer
// iss-1, synchronized before and after one edit, then once more without edit.
func witnesses() []*Case {
	base := func() VSIn {
		ep := []ExtEp{{IP: "10.0.0.1"}}
		return VSIn{Name: "vs-a", UID: "uid-a", Host: "a.example.com", TLS: &TLSIn{Secret: "s1", CM: &CMIn{Issuer: "iss-1"}},
			XDNS: XDNSIn{ProviderNil: true}, Endpoints: &ep}
	}
	mk := func(name string, f1, f2 func(v *VSIn)) *Case {
		v1, v2 := base(), base()
		f1(&v1)
		f1(&v2)
		f2(&v2)
		return &Case{Class: "witness-" + name, Steps: []Step{{VS: v1, Kind: "first"}, {VS: v2, Kind: "edit"}, {VS: cloneVS(v2), Kind: "resync"}}}
	}
	nop := func(v *VSIn) {}
	empty := []KV{}
	ws := []*Case{
		mk("duration", func(v *VSIn) { v.TLS.CM.Duration = "2160h" }, func(v *VSIn) { v.TLS.CM.Duration = "720h" }),
		mk("renew-before", func(v *VSIn) { v.TLS.CM.RenewBefore = "360h" }, func(v *VSIn) { v.TLS.CM.RenewBefore = "240h" }),
		mk("usages", func(v *VSIn) { v.TLS.CM.Usages = "server auth" }, func(v *VSIn) { v.TLS.CM.Usages = "client auth" }),
		mk("issuer-group", nop, func(v *VSIn) { v.TLS.CM.IssuerGroup = "awspca.cert-manager.io" }),
		mk("issue-temp-cert", nop, func(v *VSIn) { v.TLS.CM.Temp = true }),
		mk("cert-manager-removed", nop, func(v *VSIn) { v.TLS.CM = nil }),
		mk("tls-removed", nop, func(v *VSIn) { v.TLS = nil }),
		mk("externaldns-disabled", func(v *VSIn) { v.TLS = nil; v.XDNS.Enable = true }, func(v *VSIn) { v.XDNS.Enable = false }),
		mk("externaldns-empty-labels", func(v *VSIn) { v.TLS = nil; v.XDNS.Enable = true; v.XDNS.Labels = &empty }, nop),
	}
	// a Certificate the VirtualServer controls that equals the first-time object except for a field the
	// controller never sets (isCA), and one whose spec.secretName was edited away from its name
	drift := mk("drifted-isca", nop, nop)
	drift.InitCerts = []CertObj{{Name: "s1", Owner: "uid-a", DNS: []string{"a.example.com"}, Secret: "s1", IName: "iss-1", IKind: "Issuer",
		Usages: []string{"digital signature", "key encipherment"}, IsCA: true}}
	edited := mk("hand-edited-secretname", nop, nop)
	edited.InitCerts = []CertObj{{Name: "s1", Owner: "uid-a", DNS: []string{"a.example.com"}, Secret: "s9", IName: "iss-1", IKind: "Issuer",
		Usages: []string{"digital signature", "key encipherment"}}}
	// an edit whose Update fails (conflict / internal error), the retry, one more synchronization:
	// the cluster object must converge on the first synchronization that returns nil
	failRetry := func(name string, f1, f2 func(v *VSIn), cmf, dnsf []string) *Case {
		c := mk(name, f1, f2)
		c.Steps[1].CMFaults, c.Steps[1].DNSFaults = cmf, dnsf
		c.Steps[2].Kind = "retry"
		c.Steps = append(c.Steps, Step{VS: cloneVS(c.Steps[2].VS), Kind: "resync"})
		return c
	}
	ws = append(ws, drift, edited,
		failRetry("cert-update-fails-then-retry", nop, func(v *VSIn) { v.TLS.CM.CommonName = "cn.example.com"; v.Labels = []KV{{"app", "x"}} }, []string{"conflict"}, nil),
		failRetry("cert-update-internal-error-then-retry", nop, func(v *VSIn) { v.Host = "b.example.com" }, []string{"internal"}, nil),
		failRetry("dns-update-fails-then-retry", func(v *VSIn) { v.TLS = nil; v.XDNS.Enable = true }, func(v *VSIn) { v.XDNS.TTL = 300; v.Labels = []KV{{"app", "x"}} }, nil, []string{"conflict"}),
		failRetry("dns-update-internal-error-then-retry", func(v *VSIn) { v.TLS = nil; v.XDNS.Enable = true }, func(v *VSIn) {
			ep := []ExtEp{{IP: "10.0.0.2"}}
			v.Endpoints = &ep
		}, nil, []string{"internal"}))
	// delivery family: the same kind of histories through the real handlers / queues / processItem
	dl := func(name string, f0 func(v *VSIn), edits ...func(st *Step, v *VSIn)) *Case {
		v := base()
		f0(&v)
		c := &Case{Class: "witness-delivery-" + name, Delivery: true, Steps: []Step{{VS: cloneVS(v), Kind: "first"}}}
		noise := 0
		for _, e := range edits {
			st := Step{Kind: "edit"}
			e(&st, &v)
			if st.Kind == "noise" {
				noise++
			}
			st.VS, st.Noise = cloneVS(v), noise
			c.Steps = append(c.Steps, st)
		}
		return c
	}
	noiseStep := func(st *Step, v *VSIn) { st.Kind = "noise" }
	tamperStep := func(kind string) func(st *Step, v *VSIn) {
		return func(st *Step, v *VSIn) { st.Kind, st.Tamper = "tamper", kind }
	}
	ws = append(ws,
		dl("status-endpoints", func(v *VSIn) { v.TLS = nil; v.XDNS.Enable = true },
			noiseStep,
			func(st *Step, v *VSIn) { st.Kind = "endpoints"; ep := []ExtEp{{IP: "198.51.100.7"}}; v.Endpoints = &ep },
			func(st *Step, v *VSIn) {
				st.Kind = "endpoints"
				ep := []ExtEp{{IP: "198.51.100.7"}, {IP: "198.51.100.8"}}
				v.Endpoints = &ep
			},
			func(st *Step, v *VSIn) { st.Kind = "labels"; v.Labels = []KV{{"app", "x"}} },
			func(st *Step, v *VSIn) { v.XDNS.TTL = 300 },
			func(st *Step, v *VSIn) { v.Host = "b.example.com" }),
		dl("cert-fields", nop,
			noiseStep,
			func(st *Step, v *VSIn) { v.TLS.CM.CommonName = "cn.example.com" },
			func(st *Step, v *VSIn) { v.Host = "b.example.com" },
			func(st *Step, v *VSIn) { st.Kind = "labels"; v.Labels = []KV{{"app", "x"}} },
			func(st *Step, v *VSIn) { v.TLS.CM.Duration = "720h" },
			func(st *Step, v *VSIn) { v.TLS.Secret = "s2" }),
		dl("derived-events", func(v *VSIn) { v.XDNS.Enable = true },
			tamperStep("delete-dns"), tamperStep("edit-dns"), tamperStep("delete-cert"), tamperStep("edit-cert"), noiseStep))
	// a write fails under the real worker loop (runWorker: AddRateLimited / Forget / Done), then the
	// VirtualServer is edited further: after the faults have stopped the derived object must converge
	faulty := func(c *Case, step int, cmf, dnsf []string) *Case {
		c.Steps[step].CMFaults, c.Steps[step].DNSFaults = cmf, dnsf
		return c
	}
	ws = append(ws,
		faulty(dl("worker-cert-update-fails-then-edits", nop,
			func(st *Step, v *VSIn) { v.TLS.CM.CommonName = "cn.example.com" },
			func(st *Step, v *VSIn) { v.Host = "b.example.com" },
			noiseStep,
			func(st *Step, v *VSIn) { st.Kind = "labels"; v.Labels = []KV{{"app", "x"}} }), 1, []string{"conflict"}, nil),
		faulty(dl("worker-cert-create-fails-then-edits", nop,
			func(st *Step, v *VSIn) { v.TLS.CM.CommonName = "cn.example.com" },
			noiseStep), 0, []string{"internal"}, nil),
		faulty(dl("worker-dns-update-fails-then-edits", func(v *VSIn) { v.TLS = nil; v.XDNS.Enable = true },
			func(st *Step, v *VSIn) { v.XDNS.TTL = 300 },
			func(st *Step, v *VSIn) { st.Kind = "endpoints"; ep := []ExtEp{{IP: "198.51.100.7"}}; v.Endpoints = &ep },
			noiseStep), 1, nil, []string{"internal"}),
		faulty(dl("worker-dns-create-exists-then-edits", func(v *VSIn) { v.TLS = nil; v.XDNS.Enable = true },
			func(st *Step, v *VSIn) { v.XDNS.TTL = 60 },
			noiseStep), 0, nil, []string{"exists"}))
	// edits that only remove something the derived object was built from
	dnsOn := func(v *VSIn) { v.TLS = nil; v.XDNS.Enable = true }
	ws = append(ws,
		mk("provider-entry-removed", func(v *VSIn) { dnsOn(v); v.XDNS.ProviderNil = false; v.XDNS.Provider = []KV{{"aws/weight", "10"}, {"alias", "true"}, {"b", "2"}} },
			func(v *VSIn) { v.XDNS.Provider = []KV{{"aws/weight", "10"}} }),
		mk("provider-block-removed", func(v *VSIn) { dnsOn(v); v.XDNS.ProviderNil = false; v.XDNS.Provider = []KV{{"aws/weight", "10"}, {"b", "2"}} },
			func(v *VSIn) { v.XDNS.Provider, v.XDNS.ProviderNil = nil, true }),
		mk("dns-label-removed", func(v *VSIn) { dnsOn(v); v.XDNS.Labels = &[]KV{{"a", "1"}, {"b", "2"}} },
			func(v *VSIn) { v.XDNS.Labels = &[]KV{{"a", "1"}} }),
		mk("dns-labels-block-removed", func(v *VSIn) { dnsOn(v); v.XDNS.Labels = &[]KV{{"a", "1"}, {"b", "2"}} },
			func(v *VSIn) { v.XDNS.Labels = nil }),
		mk("vs-label-removed", func(v *VSIn) { v.XDNS.Enable = true; v.Labels = []KV{{"app", "y"}, {"tier", "z"}} },
			func(v *VSIn) { v.Labels = []KV{{"app", "y"}} }),
		mk("vs-labels-all-removed", func(v *VSIn) { v.XDNS.Enable = true; v.Labels = []KV{{"app", "y"}, {"tier", "z"}} },
			func(v *VSIn) { v.Labels = nil }),
		mk("usages-removed", func(v *VSIn) { v.TLS.CM.Usages = "server auth,client auth" }, func(v *VSIn) { v.TLS.CM.Usages = "" }),
		mk("usages-single-removed", func(v *VSIn) { v.TLS.CM.Usages = "server auth" }, func(v *VSIn) { v.TLS.CM.Usages = "" }),
		mk("duration-removed", func(v *VSIn) { v.TLS.CM.Duration = "2160h"; v.TLS.CM.RenewBefore = "360h" }, func(v *VSIn) { v.TLS.CM.Duration = ""; v.TLS.CM.RenewBefore = "" }),
		mk("common-name-removed", func(v *VSIn) { v.TLS.CM.CommonName = "cn.example.com" }, func(v *VSIn) { v.TLS.CM.CommonName = "" }))
	// several VirtualServers handled by the same process: one sets tls.cert-manager.usages / ExternalDNS
	// details, the other does not; each derived object must be a function of its own VirtualServer
	other := func(c *Case, f func(v *VSIn)) *Case {
		v := base()
		v.Name, v.UID, v.Host = "vs-b", "uid-b", "b.example.com"
		v.TLS.Secret = "s2"
		f(&v)
		c.Steps = append(c.Steps, Step{VS: cloneVS(v), Kind: "identity"}, Step{VS: cloneVS(v), Kind: "resync"}, Step{VS: cloneVS(c.Steps[0].VS), Kind: "identity"})
		return c
	}
	ws = append(ws,
		other(mk("two-virtualservers-usages", func(v *VSIn) { v.TLS.CM.Usages = "server auth,client auth"; v.TLS.CM.Duration = "2160h" }, nop), nop),
		other(mk("two-virtualservers-externaldns", func(v *VSIn) {
			v.XDNS.Enable, v.XDNS.TTL, v.XDNS.ProviderNil = true, 300, false
			v.XDNS.Provider = []KV{{"aws/weight", "10"}}
			v.XDNS.Labels = &[]KV{{"a", "1"}}
		}, nop), func(v *VSIn) { v.XDNS.Enable = true }))
	// histories that set something and then take it away again, or that run two VirtualServers, come
	// first: they are self-contained witnesses of state that leaks from one synchronization into the
	// next (all histories share one process), so a replay of the first failing cases reproduces alone
	sort.SliceStable(ws, func(i, j int) bool {
		pri := func(c *Case) int {
			if strings.Contains(c.Class, "two-virtualservers") || strings.Contains(c.Class, "-removed") {
				return 0
			}
			return 1
		}
		return pri(ws[i]) < pri(ws[j])
	})
	for i, c := range ws {
		c.ID = i
	}
	return ws
}

func main() {
	freshOne := flag.Bool("fresh-one", false, "child mode: read one VirtualServer (JSON) from stdin, print what a first-time synchronization creates")
	a := vh.ParseArgs()
	if *freshOne {
		var v VSIn
		if err := json.NewDecoder(os.Stdin).Decode(&v); err != nil {
			os.Exit(2)
		}
		fillOracles(&v)
		var r FreshRes
		r.Cert, r.CertErr, r.DNS, r.DNSErr = firstTime(v)
		b, _ := json.Marshal(r)
		os.Stdout.Write(b)
		return
	}
	w, err := vh.NewWriter(a.Out)
	if err != nil {
		fmt.Fprintln(os.Stderr, err)
		os.Exit(2)
	}
	defer w.Close()
	w.Emit(probe())
	if a.Replay != "" {
		var cases []*Case
		if err := vh.ReadReplay(a.Replay, &cases); err != nil {
			fmt.Fprintln(os.Stderr, "replay:", err)
			os.Exit(2)
		}
		precomputeFresh(cases)
		for _, c := range cases {
			c.Obs = Obs{}
			runCase(c)
			w.Emit(c)
		}
		return
	}
	// all histories run in this one process, one after the other (shared package-level state of the
	// code under test, as VirtualServers share one controller process)
	all := witnesses()
	nw := len(all)
	root := vh.NewRng(a.Seed)
	for i := 0; i < a.N; i++ {
		all = append(all, genCase(root.Fork(uint64(i)), nw+i))
	}
	precomputeFresh(all)
	for _, c := range all {
		runCase(c)
		w.Emit(c)
	}
}
