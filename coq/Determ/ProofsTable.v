(* Determ/ProofsTable.v -- the hand-maintained coverage table of C09.
   Every map-range site of internal/configs{,/version1,/version2} is listed here by
   (enclosing function, n-th map range inside it) together with, for each syntactic class the
   translator may report for it, the operand / targets it must have and the THEOREMS that cover
   it.  The theorems are referred to by their proof terms, so the table does not type-check
   unless they exist.  [check_inventory] compares the table with the inventory regenerated from the
   source on every run (gen/MapRanges.v); a new, moved or changed site is reported by name. *)
From Coq Require Import List String Bool Arith.
From NIC Require Import Base.SMap Determ.Model Determ.Proofs.
Import ListNotations.
Open Scope string_scope.

Inductive verdict : Type :=
| VDet (thm : string) (P : Prop) (pf : P)
    (* the consumer does not see the order (given only that map keys are distinct) *)
| VDetIf (thm hyp : string) (P : Prop) (pf : P)
    (* ... under a hypothesis about the inputs that another property provides *)
| VOffPath (thm why : string) (P : Prop) (pf : P)
    (* the consumer DOES see the order (refutation theorem), but its result never reaches a generated file *)
| VRefuted (thm finding : string) (P : Prop) (pf : P).
    (* the consumer sees the order and the result reaches the files: a finding *)

Definition verdict_code (v : verdict) : nat :=
  match v with VDet _ _ _ => 0 | VDetIf _ _ _ _ => 1 | VOffPath _ _ _ _ => 2 | VRefuted _ _ _ _ => 3 end.
Definition verdict_thm (v : verdict) : string :=
  match v with VDet t _ _ | VDetIf t _ _ _ | VOffPath t _ _ _ | VRefuted t _ _ _ => t end.
Definition verdict_note (v : verdict) : string :=
  match v with VDet _ _ _ => "" | VDetIf _ h _ _ => h | VOffPath _ w _ _ => w | VRefuted _ f _ _ => f end.

(* [a_sorts]: the sort calls the translator must find after the loop, verbatim, comparator included.
   The theorems named for a sorted site are about sorting by the key itself (bytewise [<] on the map
   key, a strict total order on distinct keys); any other comparator makes the site 'changed'. *)
Record alt := mkAlt { a_class : rclass; a_operand : string; a_targets : list string; a_sorts : list string; a_verdicts : list verdict }.
Record entry := mkEntry { e_func : string; e_index : nat; e_alts : list alt }.

Definition det {P : Prop} (t : string) (pf : P) := VDet t P pf.
Definition detif {P : Prop} (t h : string) (pf : P) := VDetIf t h P pf.
Definition offpath {P : Prop} (t w : string) (pf : P) := VOffPath t w P pf.
Definition refuted {P : Prop} (t f : string) (pf : P) := VRefuted t f P pf.

Definition log_only := "the removed keys are only joined into a log line (ingress.go generateNginxCfgForMergeableIngresses)".
Definition hc_only := "result is used by the health-check service only (internal/healthcheck), never by generation".
Definition telemetry_only := "result goes into the telemetry report only (internal/telemetry)".
Definition same_name_same_content :=
  "files written under one name carry one content: name and content are both functions of the referenced object (namespace_name)".

Definition v_filter := [det "site_filterAnnotations_map_deterministic" site_filterAnnotations_map_deterministic;
                        offpath "site_filterAnnotations_removed_refuted" log_only site_filterAnnotations_removed_refuted].
Definition v_annset_outer := [det "site_annset_outer_perm" site_annset_outer_perm;
                              det "site_annset_outer_deterministic" site_annset_outer_deterministic].
Definition v_annset_inner := [det "site_annset_inner_deterministic" site_annset_inner_deterministic].
Definition v_files_and_map :=
  [detif "site_filewrites_deterministic" same_name_same_content (@site_filewrites_deterministic);
   det "site_mapwrite_samekey_deterministic" (@site_mapwrite_samekey_deterministic)].

Definition table : list entry := [
  mkEntry "filterMasterAnnotations" 0
    [mkAlt CAppendUnsorted "annotations" ["annotations"; "removedAnnotations"] [] v_filter];
  mkEntry "filterMinionAnnotations" 0
    [mkAlt CAppendUnsorted "annotations" ["annotations"; "removedAnnotations"] [] v_filter];
  mkEntry "mergeMasterAnnotationsIntoMinion" 0
    [mkAlt CMapWrite "masterAnnotations" ["minionAnnotations"] []
       [det "site_mergeMasterAnnotationsIntoMinion_deterministic" site_mergeMasterAnnotationsIntoMinion_deterministic]];
  mkEntry "Configurator.virtualServerForHost" 0
    [mkAlt COther "cnf.virtualServers" [] []
       [detif "site_firstmatch_deterministic" "at most one VirtualServer per host (C01)" (@site_firstmatch_deterministic);
        offpath "site_firstmatch_two_matches_refuted" hc_only (@site_firstmatch_two_matches_refuted)]];
  mkEntry "Configurator.transportServerForActionName" 0
    [mkAlt COther "cnf.transportServers" [] []
       [offpath "site_firstmatch_two_matches_refuted" hc_only (@site_firstmatch_two_matches_refuted)]];
  mkEntry "Configurator.addOrUpdateVirtualServer" 0
    [mkAlt COther "virtualServerEx.DosProtectedEx" ["dosResources"] [] v_files_and_map];
  mkEntry "generateTLSPassthroughHostsConfig" 0
    [mkAlt CMapWrite "tlsPassthroughPairs" ["cfg"] []
       [detif "site_mapwrite_deterministic" "no two TLS-passthrough TransportServers share a host (C02)" (@site_mapwrite_deterministic)]];
  mkEntry "Configurator.GetIngressCounts" 0
    [mkAlt COther "cnf.ingresses" [] [] [det "site_GetIngressCounts_deterministic" (@site_GetIngressCounts_deterministic)]];
  mkEntry "Configurator.GetIngressCounts" 1
    [mkAlt COther "cnf.minions" [] [] [det "site_count_deterministic" (@site_count_deterministic)]];
  mkEntry "Configurator.GetIngressAnnotations" 0
    [mkAlt CAppendUnsorted "annotationSet" ["annotations"] []
       [offpath "site_GetIngressAnnotations_refuted" telemetry_only site_GetIngressAnnotations_refuted]];
  mkEntry "Configurator.getStandardIngressAnnotations" 0 [mkAlt CMapWrite "cnf.ingresses" ["annotationSet"] [] v_annset_outer];
  mkEntry "Configurator.getStandardIngressAnnotations" 1 [mkAlt CMapWrite "ing.Ingress.Annotations" ["annotationSet"] [] v_annset_inner];
  mkEntry "Configurator.getMinionIngressAnnotations" 0 [mkAlt CMapWrite "cnf.mergeableIngresses" ["annotationSet"] [] v_annset_outer];
  mkEntry "Configurator.getMinionIngressAnnotations" 1 [mkAlt CMapWrite "minionIng.Ingress.Annotations" ["annotationSet"] [] v_annset_inner];
  mkEntry "Configurator.GetVirtualServerCounts" 0
    [mkAlt COther "cnf.virtualServers" [] [] [det "site_count_deterministic" (@site_count_deterministic)]];
  mkEntry "Configurator.updateApResourcesForVs" 0 [mkAlt COther "vsEx.ApPolRefs" ["resources.Policies"] [] v_files_and_map];
  mkEntry "Configurator.updateApResourcesForVs" 1 [mkAlt COther "vsEx.LogConfRefs" ["resources.LogConfs"] [] v_files_and_map];
  mkEntry "upstreamMapToSlice" 0
    [mkAlt CAppendSorted "upstreams" ["keys"] ["sort.Strings(keys)"] [det "site_upstreamMapToSlice_deterministic" (@site_upstreamMapToSlice_deterministic)]];
  mkEntry "generateNginxCfgForMergeableIngresses" 0
    [mkAlt CMapWrite "server.HealthChecks" ["healthChecks"] [] [det "site_mapwrite_samekey_deterministic" (@site_mapwrite_samekey_deterministic)]];
  (* F13: as the tree stands the maps are appended in range order; with fixes/F13.diff the keys
     are collected and sorted first *)
  mkEntry "virtualServerConfigurator.GenerateVirtualServerConfig" 0
    [mkAlt CAppendUnsorted "policiesCfg.APIKey.ClientMap" ["maps"] []
       [refuted "site_GenerateVirtualServerConfig_refuted" "F13" (@site_GenerateVirtualServerConfig_refuted)];
     mkAlt CAppendSorted "policiesCfg.APIKey.ClientMap" ["apiKeyMapNames"] ["sort.Strings(apiKeyMapNames)"]
       [det "site_GenerateVirtualServerConfig_fixed_deterministic" (@site_GenerateVirtualServerConfig_fixed_deterministic)]];
  mkEntry "generateAPIKeyClients" 0
    [mkAlt CAppendUnsorted "secretData" ["clients"] []
       [refuted "site_generateAPIKeyClients_refuted" "F13" site_generateAPIKeyClients_refuted];
     mkAlt CAppendSorted "secretData" ["clients"]
       ["sort.Slice(clients, func(i, j int) bool { return clients[i].ClientID < clients[j].ClientID })"]
       [det "site_generateAPIKeyClients_fixed_deterministic" site_generateAPIKeyClients_fixed_deterministic]];
  (* F14 *)
  mkEntry "virtualServerConfigurator.generatePolicies" 0
    [mkAlt COther "generateLRZGroupMaps(config.RateLimit.Zones)" ["config.RateLimit.GroupMaps"] []
       [refuted "site_generatePolicies_refuted" "F14" (@site_generatePolicies_refuted)];
     mkAlt CAppendSorted "groupMaps" ["groupVariables"] ["sort.Strings(groupVariables)"]
       [det "site_generatePolicies_fixed_deterministic" (@site_generatePolicies_fixed_deterministic)]];
  (* ---- internal/k8s/configuration.go: the Configuration that arbitrates hosts and hands the resources, in order,
     to the Configurator.  Every other map of the file is walked through a getSorted...Keys helper. *)
  mkEntry "Configuration.buildListenerHostsAndTSConfigurations" 0
    [mkAlt COther "c.transportServers" ["newListenerHosts"; "newTSConfigs"] []
       [detif "site_elect_deterministic" "TransportServerConfiguration.Wins is a strict total order on the claimants of a listener/host (C02)" (@site_elect_deterministic);
        det "site_mapwrite_samekey_deterministic" (@site_mapwrite_samekey_deterministic)]];
  mkEntry "Configuration.GetResourcesWithFilter" 0
    [mkAlt CMapWrite "c.hosts" ["resources"] []
       [detif "site_mapwrite_deterministic" "entries written under one key-with-kind are one and the same resource (a resource holding several hosts)" (@site_mapwrite_deterministic)]];
  mkEntry "Configuration.GetResourcesWithFilter" 1
    [mkAlt CMapWrite "c.listenerHosts" ["resources"] []
       [detif "site_mapwrite_deterministic" "entries written under one key-with-kind are one and the same resource" (@site_mapwrite_deterministic)]];
  mkEntry "updateActiveHostsForIngresses" 0
    [mkAlt CMapWrite "resources" ["ingConfig.ValidHosts"] [] [det "site_mapwrite_samekey_deterministic" (@site_mapwrite_samekey_deterministic)]];
  mkEntry "Configuration.addProblemsForTSConfigsWithoutActiveListener" 0
    [mkAlt CMapWrite "tsConfigs" ["problems"] [] [det "site_mapwrite_samekey_deterministic" (@site_mapwrite_samekey_deterministic)]];
  mkEntry "Configuration.addProblemsForResourcesWithoutActiveHost" 0
    [mkAlt COther "resources" ["problems"] []
       [detif "site_mapwrite_deterministic" "distinct resources have distinct keys-with-kind" (@site_mapwrite_deterministic)]];
  mkEntry "Configuration.addProblemsForResourcesWithoutActiveHost" 1
    [mkAlt COther "impl.ValidHosts" [] [] [det "site_exists_deterministic" (@site_exists_deterministic)]];
  mkEntry "Configuration.addWarningsForVirtualServersWithMissConfiguredListeners" 0
    [mkAlt COther "resources" [] []
       [detif "site_mapwrite_samekey_deterministic" "at most one warning per VirtualServer, appended to the resource that holds its host" (@site_mapwrite_samekey_deterministic)]];
  mkEntry "Configuration.GetTransportServerMetrics" 0 [mkAlt COther "c.hosts" [] [] [det "site_count_deterministic" (@site_count_deterministic)]];
  mkEntry "Configuration.GetTransportServerMetrics" 1 [mkAlt COther "c.listenerHosts" [] [] [det "site_count_deterministic" (@site_count_deterministic)]];
  mkEntry "getSortedIngressKeys" 0 [mkAlt CAppendSorted "m" ["keys"] ["sort.Strings(keys)"] [det "site_sorted_keys_deterministic" (@site_sorted_keys_deterministic)]];
  mkEntry "getSortedVirtualServerKeys" 0 [mkAlt CAppendSorted "m" ["keys"] ["sort.Strings(keys)"] [det "site_sorted_keys_deterministic" (@site_sorted_keys_deterministic)]];
  mkEntry "getSortedVirtualServerRouteKeys" 0 [mkAlt CAppendSorted "m" ["keys"] ["sort.Strings(keys)"] [det "site_sorted_keys_deterministic" (@site_sorted_keys_deterministic)]];
  mkEntry "getSortedProblemKeys" 0 [mkAlt CAppendSorted "m" ["keys"] ["sort.Strings(keys)"] [det "site_sorted_keys_deterministic" (@site_sorted_keys_deterministic)]];
  mkEntry "getSortedResourceKeys" 0 [mkAlt CAppendSorted "m" ["keys"] ["sort.Strings(keys)"] [det "site_sorted_keys_deterministic" (@site_sorted_keys_deterministic)]];
  mkEntry "getSortedTransportServerKeys" 0 [mkAlt CAppendSorted "m" ["keys"] ["sort.Strings(keys)"] [det "site_sorted_keys_deterministic" (@site_sorted_keys_deterministic)]];
  mkEntry "getSortedListenerHostKeys" 0
    [mkAlt CAppendSorted "m" ["keys"] ["sort.Slice(keys, func(i, j int) bool { return keys[i].String() < keys[j].String() })"]
       [detif "site_sorted_keys_by_deterministic" "listenerHostKey.String() tells distinct listener/host pairs apart" (@site_sorted_keys_by_deterministic)]];
  mkEntry "Warnings.Add" 0
    [mkAlt CMapWrite "warnings" ["w"] [] [det "site_mapwrite_samekey_deterministic" (@site_mapwrite_samekey_deterministic)]]
].

(* the sources of nondeterminism other than map ranges that are allowed in the three packages:
   none (no time.Now / math/rand / go statement / select on the generation path) *)
Definition allowed_nondet : list (string * string) := [].   (* (kind, function) *)

(* ------------------------------------------------------------------ the check *)

Fixpoint strs_eqb (a b : list string) : bool :=
  match a, b with
  | [], [] => true
  | x :: ra, y :: rb => String.eqb x y && strs_eqb ra rb
  | _, _ => false
  end.

Definition find_entry (f : string) (i : nat) : option entry :=
  find (fun e => String.eqb (e_func e) f && Nat.eqb (e_index e) i) table.

Definition alt_matches (s : site) (a : alt) : bool :=
  rclass_eqb (a_class a) (s_class s) && String.eqb (a_operand a) (s_operand s) && strs_eqb (a_targets a) (s_targets s) &&
  strs_eqb (a_sorts a) (s_sorts s).

(* status codes: 0 deterministic, 1 deterministic under a named hypothesis, 2 order-sensitive but
   off the generation path, 3 order-sensitive and a recorded finding, 8 the site is in the table
   but the translator's classification / operand / targets differ, 9 the site is not in the table *)
Definition site_status (s : site) : nat * list verdict :=
  match find_entry (s_func s) (s_index s) with
  | None => (9, [])
  | Some e =>
      match find (alt_matches s) (e_alts e) with
      | None => (8, [])
      | Some a => (fold_left Nat.max (map verdict_code (a_verdicts a)) 0, a_verdicts a)
      end
  end.

Definition covered (s : site) : bool := Nat.leb (fst (site_status s)) 3 && negb (match snd (site_status s) with [] => true | _ => false end).

Definition site_id_eqb (a b : site) : bool := String.eqb (s_func a) (s_func b) && Nat.eqb (s_index a) (s_index b).

Fixpoint no_dup_sites (l : list site) : bool :=
  match l with
  | [] => true
  | s :: r => negb (existsb (site_id_eqb s) r) && no_dup_sites r
  end.

(* table entries no site corresponds to (a site disappeared or was renamed) *)
Definition stale (sites : list site) : list (string * nat) :=
  map (fun e => (e_func e, e_index e))
      (filter (fun e => negb (existsb (fun s => String.eqb (e_func e) (s_func s) && Nat.eqb (e_index e) (s_index s)) sites)) table).

Definition nd_allowed (n : nduse) : bool :=
  existsb (fun a => String.eqb (fst a) (n_kind n) && String.eqb (snd a) (n_func n)) allowed_nondet.

Definition check_inventory (sites : list site) (nds : list nduse) : bool :=
  forallb covered sites && no_dup_sites sites &&
  match stale sites with [] => true | _ => false end &&
  forallb nd_allowed nds.

(* what the driver prints: one row per site *)
Definition report_row (s : site) : string * nat * nat * nat * string * string :=
  let st := site_status s in
  (s_func s, s_index s, s_line s, fst st,
   String.concat "," (map verdict_thm (snd st)),
   String.concat " | " (filter (fun x => negb (String.eqb x "")) (map verdict_note (snd st)))).
Definition report (sites : list site) := map report_row sites.
Definition bad_nondet (nds : list nduse) : list (string * string * nat) :=
  map (fun n => (n_kind n, n_func n, n_line n)) (filter (fun n => negb (nd_allowed n)) nds).
