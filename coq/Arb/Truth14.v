(* C05 truth proof, part 14: the cluster view and the stored objects; forgetting *)
From Coq Require Import List ZArith String Ascii Bool Lia.
From NIC Require Import Base.SMap Arb.Types Arb.Model Arb.Spec Arb.WinsProofs Arb.InvProofs Arb.OwnerProofs
     Arb.ListenerProofs Arb.ClassProofs Arb.ChangeProofs Arb.ReportProofs Arb.ComposeProofs Arb.Cases Arb.ShadowProofs Arb.ShadowAttrs.
From NIC Require Import Arb.Truth01 Arb.Truth02 Arb.Truth03 Arb.Truth04 Arb.Truth05 Arb.Truth06 Arb.Truth07 Arb.Truth08 Arb.Truth09 Arb.Truth10 Arb.Truth11 Arb.Truth12 Arb.Truth13.
Import ListNotations.
Open Scope string_scope.
Open Scope Z_scope.

(* every entry of the cluster view is the last upsert of its object, and the object is stored iff that upsert
   was of the controller's class and valid *)
Definition cl_entry (o : objs) (k : string) (e : event) : Prop :=
  match e with
  | EIng i cls valid => k = ing_rkey i /\ lookup (mkey (i_meta i)) (o_ings o) = (if cls && valid then Some i else None)
  | EVS v cls valid => k = vs_rkey v /\ lookup (mkey (v_meta v)) (o_vss o) = (if cls && valid then Some v else None)
  | EVSR r cls valid => k = vsr_pkey r /\ lookup (mkey (r_meta r)) (o_vsrs o) = (if cls && valid then Some r else None)
  | ETS t cls valid => k = ts_rkey t /\ lookup (mkey (t_meta t)) (o_tss o) = (if cls && valid then Some t else None)
  | _ => False
  end.

Definition cl_ok (cl : smap event) (o : objs) : Prop := forall k e, lookup k cl = Some e -> cl_entry o k e.

Lemma lookup_upd_eq {A} b k (v : A) m : wf m -> lookup k (upd b k v m) = if b then Some v else None.
Proof. intros W. unfold upd. destruct b; [apply lookup_insert_eq|apply lookup_remove_eq; exact W]. Qed.
Lemma lookup_upd_neq {A} b k (v : A) m k2 : k2 <> k -> lookup k2 (upd b k v m) = lookup k2 m.
Proof. intros Hn. unfold upd. destruct b; [apply lookup_insert_neq|apply lookup_remove_neq]; exact Hn. Qed.

Lemma pre_neq_inv (p a b : string) : (p ++ a)%string <> (p ++ b)%string -> a <> b.
Proof. intros H E. apply H. rewrite E. reflexivity. Qed.

Lemma wf_cluster_apply cl e : wf cl -> wf (cluster_apply cl e).
Proof. intros W. destruct e; cbn [cluster_apply]; try exact W; try (apply wf_insert; exact W); apply wf_remove; exact W. Qed.

Lemma wf_cluster es : wf (cluster es).
Proof.
  unfold cluster. assert (W0 : wf (@nil (string * event))) by constructor. revert W0. generalize (@nil (string * event)).
  induction es as [|e r IH]; intros cl W; cbn [fold_left]; [exact W|]. apply IH. apply wf_cluster_apply. exact W.
Qed.

Lemma cl_ok_event cl o e : wf cl -> objs_ok o -> cl_ok cl o -> cl_ok (cluster_apply cl e) (apply_event o e).
Proof.
  intros Wc (W1 & W2 & W3 & W4 & _) Hc k e0 L.
  destruct e as [i cls valid|k1|v cls valid|k1|r cls valid|k1|t cls valid|k1|ls x|]; cbn [cluster_apply] in L.
  - destruct (string_dec k (ing_rkey i)) as [->|Hne].
    + rewrite lookup_insert_eq in L. inversion L; subst e0. cbn [cl_entry apply_event o_ings]. split; [reflexivity|apply lookup_upd_eq; exact W1].
    + rewrite lookup_insert_neq in L by exact Hne. specialize (Hc k e0 L).
      destruct e0 as [i0 c0 v0| |x0 c0 v0| |x0 c0 v0| |x0 c0 v0| | |]; cbn [cl_entry apply_event o_ings o_vss o_vsrs o_tss] in *; try exact Hc.
      destruct Hc as [Ek Hl]. split; [exact Ek|]. rewrite lookup_upd_neq; [exact Hl|]. subst k. unfold ing_rkey in Hne. exact (pre_neq_inv _ _ _ Hne).
  - destruct (string_dec k ("Ingress/" ++ k1)) as [->|Hne].
    + rewrite lookup_remove_eq in L; [discriminate|exact Wc].
    + rewrite lookup_remove_neq in L by exact Hne. specialize (Hc k e0 L).
      destruct e0 as [i0 c0 v0| |x0 c0 v0| |x0 c0 v0| |x0 c0 v0| | |]; cbn [cl_entry apply_event o_ings o_vss o_vsrs o_tss] in *; try exact Hc.
      destruct Hc as [Ek Hl]. split; [exact Ek|]. rewrite lookup_remove_neq; [exact Hl|]. subst k. unfold ing_rkey in Hne. exact (pre_neq_inv _ _ _ Hne).
  - destruct (string_dec k (vs_rkey v)) as [->|Hne].
    + rewrite lookup_insert_eq in L. inversion L; subst e0. cbn [cl_entry apply_event o_vss]. split; [reflexivity|apply lookup_upd_eq; exact W2].
    + rewrite lookup_insert_neq in L by exact Hne. specialize (Hc k e0 L).
      destruct e0 as [i0 c0 v0| |x0 c0 v0| |x0 c0 v0| |x0 c0 v0| | |]; cbn [cl_entry apply_event o_ings o_vss o_vsrs o_tss] in *; try exact Hc.
      destruct Hc as [Ek Hl]. split; [exact Ek|]. rewrite lookup_upd_neq; [exact Hl|]. subst k. unfold vs_rkey in Hne. exact (pre_neq_inv _ _ _ Hne).
  - destruct (string_dec k ("VirtualServer/" ++ k1)) as [->|Hne].
    + rewrite lookup_remove_eq in L; [discriminate|exact Wc].
    + rewrite lookup_remove_neq in L by exact Hne. specialize (Hc k e0 L).
      destruct e0 as [i0 c0 v0| |x0 c0 v0| |x0 c0 v0| |x0 c0 v0| | |]; cbn [cl_entry apply_event o_ings o_vss o_vsrs o_tss] in *; try exact Hc.
      destruct Hc as [Ek Hl]. split; [exact Ek|]. rewrite lookup_remove_neq; [exact Hl|]. subst k. unfold vs_rkey in Hne. exact (pre_neq_inv _ _ _ Hne).
  - destruct (string_dec k (vsr_pkey r)) as [->|Hne].
    + rewrite lookup_insert_eq in L. inversion L; subst e0. cbn [cl_entry apply_event o_vsrs]. split; [reflexivity|apply lookup_upd_eq; exact W3].
    + rewrite lookup_insert_neq in L by exact Hne. specialize (Hc k e0 L).
      destruct e0 as [i0 c0 v0| |x0 c0 v0| |x0 c0 v0| |x0 c0 v0| | |]; cbn [cl_entry apply_event o_ings o_vss o_vsrs o_tss] in *; try exact Hc.
      destruct Hc as [Ek Hl]. split; [exact Ek|]. rewrite lookup_upd_neq; [exact Hl|]. subst k. unfold vsr_pkey in Hne. exact (pre_neq_inv _ _ _ Hne).
  - destruct (string_dec k ("VirtualServerRoute/" ++ k1)) as [->|Hne].
    + rewrite lookup_remove_eq in L; [discriminate|exact Wc].
    + rewrite lookup_remove_neq in L by exact Hne. specialize (Hc k e0 L).
      destruct e0 as [i0 c0 v0| |x0 c0 v0| |x0 c0 v0| |x0 c0 v0| | |]; cbn [cl_entry apply_event o_ings o_vss o_vsrs o_tss] in *; try exact Hc.
      destruct Hc as [Ek Hl]. split; [exact Ek|]. rewrite lookup_remove_neq; [exact Hl|]. subst k. unfold vsr_pkey in Hne. exact (pre_neq_inv _ _ _ Hne).
  - destruct (string_dec k (ts_rkey t)) as [->|Hne].
    + rewrite lookup_insert_eq in L. inversion L; subst e0. cbn [cl_entry apply_event o_tss]. split; [reflexivity|apply lookup_upd_eq; exact W4].
    + rewrite lookup_insert_neq in L by exact Hne. specialize (Hc k e0 L).
      destruct e0 as [i0 c0 v0| |x0 c0 v0| |x0 c0 v0| |x0 c0 v0| | |]; cbn [cl_entry apply_event o_ings o_vss o_vsrs o_tss] in *; try exact Hc.
      destruct Hc as [Ek Hl]. split; [exact Ek|]. rewrite lookup_upd_neq; [exact Hl|]. subst k. unfold ts_rkey in Hne. exact (pre_neq_inv _ _ _ Hne).
  - destruct (string_dec k ("TransportServer/" ++ k1)) as [->|Hne].
    + rewrite lookup_remove_eq in L; [discriminate|exact Wc].
    + rewrite lookup_remove_neq in L by exact Hne. specialize (Hc k e0 L).
      destruct e0 as [i0 c0 v0| |x0 c0 v0| |x0 c0 v0| |x0 c0 v0| | |]; cbn [cl_entry apply_event o_ings o_vss o_vsrs o_tss] in *; try exact Hc.
      destruct Hc as [Ek Hl]. split; [exact Ek|]. rewrite lookup_remove_neq; [exact Hl|]. subst k. unfold ts_rkey in Hne. exact (pre_neq_inv _ _ _ Hne).
  - cbn [apply_event]. specialize (Hc k e0 L). destruct e0; cbn [cl_entry o_ings o_vss o_vsrs o_tss] in *; exact Hc.
  - cbn [apply_event]. specialize (Hc k e0 L). destruct e0; cbn [cl_entry o_ings o_vss o_vsrs o_tss] in *; exact Hc.
Qed.

Theorem cluster_ok es : cl_ok (cluster es) (objs_after es).
Proof.
  induction es as [|e r IH] using rev_ind.
  - intros k e L. discriminate L.
  - rewrite cluster_snoc, objs_after_snoc. apply cl_ok_event; [apply wf_cluster|apply objs_after_ok|exact IH].
Qed.

(* ---------- who: inversion by kind ---------- *)

Lemma who_ing_inv o k u : objs_ok o -> who o k u -> forall mk, k = ("Ingress/" ++ mk)%string ->
  exists i, lookup mk (o_ings o) = Some i /\ u = m_uid (i_meta i) /\ mkey (i_meta i) = mk.
Proof.
  intros (W1 & W2 & W3 & W4 & K1 & K2 & K3 & K4) Hw mk E. destruct Hw as [k0 i Hi Ek Eu|k0 v Hv Ek Eu|k0 r Hrr Ek Eu|k0 t Ht Ek Eu]; rewrite E in Ek.
  - unfold ing_rkey in Ek. apply append_inj_l in Ek. exists i. pose proof (K1 _ _ Hi) as Hk0. subst k0.
    split; [rewrite Ek; apply In_lookup; assumption|auto].
  - clash Ek. - clash Ek. - clash Ek.
Qed.

Lemma who_vs_inv o k u : objs_ok o -> who o k u -> forall mk, k = ("VirtualServer/" ++ mk)%string ->
  exists v, lookup mk (o_vss o) = Some v /\ u = m_uid (v_meta v) /\ mkey (v_meta v) = mk.
Proof.
  intros (W1 & W2 & W3 & W4 & K1 & K2 & K3 & K4) Hw mk E. destruct Hw as [k0 i Hi Ek Eu|k0 v Hv Ek Eu|k0 r Hrr Ek Eu|k0 t Ht Ek Eu]; rewrite E in Ek.
  - clash Ek.
  - unfold vs_rkey in Ek. apply append_inj_l in Ek. exists v. pose proof (K2 _ _ Hv) as Hk0. subst k0.
    split; [rewrite Ek; apply In_lookup; assumption|auto].
  - clash Ek. - clash Ek.
Qed.

Lemma who_vsr_inv o k u : objs_ok o -> who o k u -> forall mk, k = ("VirtualServerRoute/" ++ mk)%string ->
  exists r, lookup mk (o_vsrs o) = Some r /\ u = m_uid (r_meta r) /\ mkey (r_meta r) = mk.
Proof.
  intros (W1 & W2 & W3 & W4 & K1 & K2 & K3 & K4) Hw mk E. destruct Hw as [k0 i Hi Ek Eu|k0 v Hv Ek Eu|k0 r Hrr Ek Eu|k0 t Ht Ek Eu]; rewrite E in Ek.
  - clash Ek. - clash Ek.
  - unfold vsr_pkey in Ek. apply append_inj_l in Ek. exists r. pose proof (K3 _ _ Hrr) as Hk0. subst k0.
    split; [rewrite Ek; apply In_lookup; assumption|auto].
  - clash Ek.
Qed.

Lemma who_ts_inv o k u : objs_ok o -> who o k u -> forall mk, k = ("TransportServer/" ++ mk)%string ->
  exists t, lookup mk (o_tss o) = Some t /\ u = m_uid (t_meta t) /\ mkey (t_meta t) = mk.
Proof.
  intros (W1 & W2 & W3 & W4 & K1 & K2 & K3 & K4) Hw mk E. destruct Hw as [k0 i Hi Ek Eu|k0 v Hv Ek Eu|k0 r Hrr Ek Eu|k0 t Ht Ek Eu]; rewrite E in Ek.
  - clash Ek. - clash Ek. - clash Ek.
  - unfold ts_rkey in Ek. apply append_inj_l in Ek. exists t. pose proof (K4 _ _ Ht) as Hk0. subst k0.
    split; [rewrite Ek; apply In_lookup; assumption|auto].
Qed.

(* what was said about an object is kept as long as the object (same UID) stays stored *)
Lemma forget_keeps es e (L : smap report) k u : wf L ->
  who (objs_after es) k u -> who (objs_after (es ++ [e])%list) k u ->
  lookup k (forget (cluster es) e L) = lookup k L.
Proof.
  intros WL Hw Hw'. pose proof (objs_after_ok es) as Hok. pose proof (objs_after_ok (es ++ [e])%list) as Hok'.
  pose proof (stored_objects_are_own es) as (S1 & S2 & S3 & S4).
  rewrite objs_after_snoc in Hw', Hok'. destruct Hok as (W1 & W2 & W3 & W4 & K1 & K2 & K3 & K4).
  assert (Hok0 : objs_ok (objs_after es)) by (repeat split; assumption).
  destruct e as [i cls valid|k1|v cls valid|k1|r cls valid|k1|t cls valid|k1|ls x|]; cbn [forget event_obj]; try reflexivity.
  - destruct (string_dec k (ing_rkey i)) as [->|Hne].
    + destruct (who_ing_inv _ _ _ Hok0 Hw (mkey (i_meta i)) eq_refl) as (i0 & L0 & Eu0 & _).
      destruct (who_ing_inv _ _ _ Hok' Hw' (mkey (i_meta i)) eq_refl) as (i1 & L1 & Eu1 & _).
      cbn [apply_event o_ings] in L1. rewrite lookup_upd_eq in L1 by exact W1.
      unfold ing_rkey. rewrite (S1 _ _ L0). cbn [event_uid]. destruct (cls && valid); [|discriminate]. inversion L1; subst i1.
      rewrite <- Eu0, <- Eu1, String.eqb_refl. reflexivity.
    + destruct (lookup (ing_rkey i) (cluster es)) as [p|]; [|reflexivity]. destruct (String.eqb (event_uid p) _); [reflexivity|].
      apply lookup_remove_neq. exact Hne.
  - destruct (string_dec k ("Ingress/" ++ k1)) as [->|Hne]; [|apply lookup_remove_neq; exact Hne].
    exfalso. destruct (who_ing_inv _ _ _ Hok' Hw' k1 eq_refl) as (i1 & L1 & _). cbn [apply_event o_ings] in L1.
    rewrite lookup_remove_eq in L1 by exact W1. discriminate.
  - destruct (string_dec k (vs_rkey v)) as [->|Hne].
    + destruct (who_vs_inv _ _ _ Hok0 Hw (mkey (v_meta v)) eq_refl) as (i0 & L0 & Eu0 & _).
      destruct (who_vs_inv _ _ _ Hok' Hw' (mkey (v_meta v)) eq_refl) as (i1 & L1 & Eu1 & _).
      cbn [apply_event o_vss] in L1. rewrite lookup_upd_eq in L1 by exact W2.
      unfold vs_rkey. rewrite (S2 _ _ L0). cbn [event_uid]. destruct (cls && valid); [|discriminate]. inversion L1; subst i1.
      rewrite <- Eu0, <- Eu1, String.eqb_refl. reflexivity.
    + destruct (lookup (vs_rkey v) (cluster es)) as [p|]; [|reflexivity]. destruct (String.eqb (event_uid p) _); [reflexivity|].
      apply lookup_remove_neq. exact Hne.
  - destruct (string_dec k ("VirtualServer/" ++ k1)) as [->|Hne]; [|apply lookup_remove_neq; exact Hne].
    exfalso. destruct (who_vs_inv _ _ _ Hok' Hw' k1 eq_refl) as (i1 & L1 & _). cbn [apply_event o_vss] in L1.
    rewrite lookup_remove_eq in L1 by exact W2. discriminate.
  - destruct (string_dec k (vsr_pkey r)) as [->|Hne].
    + destruct (who_vsr_inv _ _ _ Hok0 Hw (mkey (r_meta r)) eq_refl) as (i0 & L0 & Eu0 & _).
      destruct (who_vsr_inv _ _ _ Hok' Hw' (mkey (r_meta r)) eq_refl) as (i1 & L1 & Eu1 & _).
      cbn [apply_event o_vsrs] in L1. rewrite lookup_upd_eq in L1 by exact W3.
      unfold vsr_pkey. rewrite (S3 _ _ L0). cbn [event_uid]. destruct (cls && valid); [|discriminate]. inversion L1; subst i1.
      rewrite <- Eu0, <- Eu1, String.eqb_refl. reflexivity.
    + destruct (lookup (vsr_pkey r) (cluster es)) as [p|]; [|reflexivity]. destruct (String.eqb (event_uid p) _); [reflexivity|].
      apply lookup_remove_neq. exact Hne.
  - destruct (string_dec k ("VirtualServerRoute/" ++ k1)) as [->|Hne]; [|apply lookup_remove_neq; exact Hne].
    exfalso. destruct (who_vsr_inv _ _ _ Hok' Hw' k1 eq_refl) as (i1 & L1 & _). cbn [apply_event o_vsrs] in L1.
    rewrite lookup_remove_eq in L1 by exact W3. discriminate.
  - destruct (string_dec k (ts_rkey t)) as [->|Hne].
    + destruct (who_ts_inv _ _ _ Hok0 Hw (mkey (t_meta t)) eq_refl) as (i0 & L0 & Eu0 & _).
      destruct (who_ts_inv _ _ _ Hok' Hw' (mkey (t_meta t)) eq_refl) as (i1 & L1 & Eu1 & _).
      cbn [apply_event o_tss] in L1. rewrite lookup_upd_eq in L1 by exact W4.
      unfold ts_rkey. rewrite (S4 _ _ L0). cbn [event_uid]. destruct (cls && valid); [|discriminate]. inversion L1; subst i1.
      rewrite <- Eu0, <- Eu1, String.eqb_refl. reflexivity.
    + destruct (lookup (ts_rkey t) (cluster es)) as [p|]; [|reflexivity]. destruct (String.eqb (event_uid p) _); [reflexivity|].
      apply lookup_remove_neq. exact Hne.
  - destruct (string_dec k ("TransportServer/" ++ k1)) as [->|Hne]; [|apply lookup_remove_neq; exact Hne].
    exfalso. destruct (who_ts_inv _ _ _ Hok' Hw' k1 eq_refl) as (i1 & L1 & _). cbn [apply_event o_tss] in L1.
    rewrite lookup_remove_eq in L1 by exact W4. discriminate.
Qed.

(* an event about another object forgets nothing about k *)
Definition ev_key (e : event) : option string :=
  match e with
  | EIng i _ _ => Some (ing_rkey i) | EVS v _ _ => Some (vs_rkey v) | EVSR r _ _ => Some (vsr_pkey r) | ETS t _ _ => Some (ts_rkey t)
  | EDelIng k => Some ("Ingress/" ++ k) | EDelVS k => Some ("VirtualServer/" ++ k)
  | EDelVSR k => Some ("VirtualServerRoute/" ++ k) | EDelTS k => Some ("TransportServer/" ++ k)
  | _ => None
  end.

Lemma forget_other cl e (L : smap report) k : ev_key e <> Some k -> lookup k (forget cl e L) = lookup k L.
Proof.
  intros Hne. destruct e as [i cls valid|k1|v cls valid|k1|r cls valid|k1|t cls valid|k1|ls x|]; cbn [forget event_obj ev_key] in *; try reflexivity;
    try (apply lookup_remove_neq; congruence);
    match goal with |- lookup _ (match lookup ?a ?b with _ => _ end) = _ => destruct (lookup a b) as [p|]; [|reflexivity] end;
    match goal with |- lookup _ (if ?b then _ else _) = _ => destruct b; [reflexivity|] end; apply lookup_remove_neq; congruence.
Qed.

Lemma cluster_other cl e k : ev_key e <> Some k -> lookup k (cluster_apply cl e) = lookup k cl.
Proof.
  intros Hne. destruct e as [i cls valid|k1|v cls valid|k1|r cls valid|k1|t cls valid|k1|ls x|]; cbn [cluster_apply ev_key] in *; try reflexivity;
    try (apply lookup_remove_neq; congruence); apply lookup_insert_neq; congruence.
Qed.
