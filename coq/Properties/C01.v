(* C01 -- One owner per host, chosen identically on every replica and in every event order.
   Only statements, each closed by [exact] and followed by Print Assumptions. *)
From Coq Require Import List ZArith String Bool Permutation.
From NIC Require Import Base.SMap Arb.Types Arb.Model Arb.Spec Arb.WinsProofs Arb.InvProofs Arb.OwnerProofs Arb.Cases Arb.HostnameCase.
Import ListNotations.
Open Scope Z_scope.

(* The winner relation (creationTimestamp, then UID) is a strict total order on metas with
   distinct UIDs -- the fact the running-holder comparison depends on. *)
Theorem C01_wins_irreflexive : forall a, wins a a = false.
Proof. exact wins_irrefl. Qed.
Print Assumptions C01_wins_irreflexive.
Theorem C01_wins_asymmetric : forall a b, wins a b = true -> wins b a = false.
Proof. exact wins_asym. Qed.
Print Assumptions C01_wins_asymmetric.
Theorem C01_wins_transitive : forall a b c, wins a b = true -> wins b c = true -> wins a c = true.
Proof. exact wins_trans. Qed.
Print Assumptions C01_wins_transitive.
Theorem C01_wins_total : forall a b, m_uid a <> m_uid b -> wins a b = true \/ wins b a = true.
Proof. exact wins_total. Qed.
Print Assumptions C01_wins_total.

(* The running-holder fold returns the least claimant in ANY traversal order of the claimants
   (any number of contenders). *)
Theorem C01_fold_holder_order_free :
  forall l l', uids_distinct l -> Permutation l l' -> best None l = best None l'.
Proof. exact best_perm_invariant. Qed.
Print Assumptions C01_fold_holder_order_free.

(* The object sets after a history are the last write per key: the four maps of every reachable
   state equal [objs_after], which never looks at hosts, problems or the order of unrelated events. *)
Theorem C01_state_is_last_write : forall c es, objs_of_state (run c es) = objs_after es.
Proof. exact run_objs. Qed.
Print Assumptions C01_state_is_last_write.

(* For EVERY history and every host: the owner recorded in Configuration.hosts is the least
   claimant -- earliest creationTimestamp, ties broken by the UID order -- among the valid,
   class-matching, non-minion resources of the current object set that claim the host (K1: the
   claimants of that host have distinct UIDs).  At most one owner per host holds by construction
   (hosts is a map). *)
Theorem C01_owner_is_least :
  forall c es h,
    uids_distinct (claimants (host_claims c (objs_after es)) h) ->
    option_map rkey (lookup h (hosts (run c es))) = spec_owner c (objs_after es) h.
Proof. exact owner_is_least. Qed.
Print Assumptions C01_owner_is_least.

Theorem C01_owner_beats_every_other_claimant :
  forall c es h r,
    uids_distinct (claimants (host_claims c (objs_after es)) h) ->
    lookup h (hosts (run c es)) = Some r ->
    exists x, fst x = rkey r /\ is_least x (claimants (host_claims c (objs_after es)) h).
Proof. exact owner_beats_all. Qed.
Print Assumptions C01_owner_beats_every_other_claimant.

(* no K1 needed: a claimed host always has an owner, and an owner always is a claimant *)
Theorem C01_claimed_host_has_owner :
  forall c es h x, In x (claimants (host_claims c (objs_after es)) h) -> lookup h (hosts (run c es)) <> None.
Proof. exact claimed_host_has_owner. Qed.
Print Assumptions C01_claimed_host_has_owner.

Theorem C01_owner_is_claimant :
  forall c es h r, lookup h (hosts (run c es)) = Some r ->
    exists m, In (h, (rkey r, m)) (host_claims c (objs_after es)).
Proof. exact owner_is_claimant. Qed.
Print Assumptions C01_owner_is_claimant.

(* Order independence (no K1 needed): two histories -- in particular a history and any permutation
   of it -- that end in the same object set end with the same hosts map, the same listener hosts
   and the same answer to GetResources(), including every per-host validity mark of multi-host
   Ingresses, which are part of the resources. *)
Theorem C01_order_independent :
  forall c es1 es2,
    objs_after es1 = objs_after es2 ->
    hosts (run c es1) = hosts (run c es2) /\ lhosts (run c es1) = lhosts (run c es2) /\
    get_resources (run c es1) = get_resources (run c es2).
Proof. exact order_independent. Qed.
Print Assumptions C01_order_independent.

(* Non-vacuity: an Ingress, a VirtualServer and a TLS-passthrough TransportServer contend for one
   host; the Ingress and the TransportServer tie on creation time; the greater UID wins, in both
   event orders; the Ingress keeps its other host. *)
Definition exI := mkIng (mkMeta "ns" "i" "u2" 100 1 0) IRegular ["h.example.com"; "other.example.com"] [] false.
Definition exV := mkVS (mkMeta "ns" "v" "u1" 200 1 0) "h.example.com" [] None.
Definition exT := mkTS (mkMeta "ns" "t" "u3" 100 1 0) "tls-passthrough" "TLS_PASSTHROUGH" "h.example.com".
Definition exC := mkCfg true true.
Example C01_nonvacuous :
  map (fun kv => (fst kv, rkey (snd kv))) (hosts (run exC [EIng exI true true; EVS exV true true; ETS exT true true]))
  = [("h.example.com", "TransportServer/ns/t"); ("other.example.com", "Ingress/ns/i")]
  /\ hosts (run exC [ETS exT true true; EVS exV true true; EIng exI true true])
     = hosts (run exC [EIng exI true true; EVS exV true true; ETS exT true true])
  /\ uids_distinct (claimants (host_claims exC (objs_after [EIng exI true true; EVS exV true true; ETS exT true true])) "h.example.com").
Proof.
  split; [vm_compute; reflexivity|]. split; [vm_compute; reflexivity|].
  intros x y Hx Hy Hne. vm_compute in Hx, Hy.
  destruct Hx as [<-|[<-|[<-|[]]]]; destruct Hy as [<-|[<-|[<-|[]]]]; try congruence; vm_compute; discriminate.
Qed.

(* One owner per HOSTNAME, however it is spelled (DNS names, NGINX server names and the keys of the TLS passthrough map
   ignore letter case).  The host map is keyed by the string as written; the API server admits lower-case Ingress
   hosts only and the validators of VirtualServer / TransportServer reject capitals, so every stored object
   carries lower-case hosts ([ev_lower]: an event that stores an object -- own class and valid -- has lower-case hosts).
   Then no two keys of the host map are one hostname: [ci_dup] -- the judge the harness runs on the keys of the
   implementation's Configuration.hosts after every event -- is false in every reachable state. *)
Theorem C01_one_owner_per_hostname_any_spelling :
  forall c es, Forall ev_lower es -> ci_dup (keys (hosts (run c es))) = false.
Proof. exact one_owner_per_hostname. Qed.
Print Assumptions C01_one_owner_per_hostname_any_spelling.

(* non-vacuity: the premise is needed -- the same hostname in two spellings, both stored, gives two owners *)
Example C01_two_spellings_two_owners :
  ci_dup (keys (hosts (run exC [EVS (mkVS (mkMeta "ns" "v" "u1" 200 1 0) "H.example.com" [] None) true true;
                               EVS (mkVS (mkMeta "ns" "w" "u2" 300 1 0) "h.example.com" [] None) true true]))) = true
  /\ ci_dup (keys (hosts (run exC [EVS (mkVS (mkMeta "ns" "v" "u1" 200 1 0) "H.example.com" [] None) true false;
                                  EVS (mkVS (mkMeta "ns" "w" "u2" 300 1 0) "h.example.com" [] None) true true]))) = false.
Proof. split; vm_compute; reflexivity. Qed.
