(* C05 verdict 3: an attached minion that serves none of its paths carries a warning *)
From Coq Require Import List ZArith String Ascii Bool Lia.
From NIC Require Import Base.SMap Arb.Types Arb.Model Arb.Spec Arb.WinsProofs Arb.InvProofs Arb.OwnerProofs
     Arb.ListenerProofs Arb.ClassProofs Arb.ChangeProofs Arb.ReportProofs Arb.ComposeProofs Arb.Cases Arb.MinionProofs Arb.ShadowProofs Arb.ShadowAttrs.
From NIC Require Import Arb.Truth01 Arb.Truth02 Arb.Truth03 Arb.Truth04 Arb.Truth05 Arb.Truth06 Arb.Truth07 Arb.Truth08 Arb.Truth09 Arb.Truth10
     Arb.Truth11 Arb.Truth12 Arb.Truth13 Arb.Truth14 Arb.Truth15 Arb.Truth16 Arb.Truth17 Arb.Truth18 Arb.Truth19 Arb.Truth20 Arb.Truth21 Arb.Truth22 Arb.Truth23 Arb.Truth24.
From NIC Require Import Arb.MinionGen1 Arb.MinionGen2.
Import ListNotations.
Open Scope string_scope.
Open Scope Z_scope.

(* a UID belongs to one object: stored Ingresses with the same UID are the same object *)
Definition uids_ok (o : objs) : Prop :=
  forall k1 k2 i j, In (k1, i) (o_ings o) -> In (k2, j) (o_ings o) -> m_uid (i_meta i) = m_uid (i_meta j) -> i = j.

Lemma res_shape_cw c o k ic : cert_manager c = false ->
  lookup k (b_res (build c (o_ings o) (o_vss o) (o_vsrs o) (o_tss o) (o_gc o))) = Some (RIng ic) ->
  ic_child_warnings ic = (if is_master (ic_ing ic) then snd (build_minions (o_ings o) (host0 (ic_ing ic))) else []).
Proof.
  intros Hcm. unfold build. destruct (run_claims host_warning [] (all_claims c (o_ings o) (o_vss o) (o_tss o))) as [hs claim_ws].
  cbn [b_res]. intros Hl. apply of_list_lookup_in in Hl.
  apply in_app_or in Hl. destruct Hl as [H|H]; [|apply in_app_or in H; destruct H as [H|H]].
  - apply in_filter_map in H. destruct H as ([k0 i] & Hi & Hf). cbn [snd] in Hf.
    destruct (ing_claims_hosts c (o_vss o) i); [|discriminate].
    destruct (is_master i) eqn:Hm.
    + destruct (build_minions (o_ings o) (host0 i)) as [mins cw] eqn:Hb. inversion Hf; subst. cbn [ic_ing ic_child_warnings]. rewrite Hm, Hb. reflexivity.
    + inversion Hf; subst. cbn [ic_ing ic_child_warnings]. rewrite Hm. reflexivity.
  - apply in_map_iff in H. destruct H as ([k0 v] & Hf & Hv). cbn [snd] in Hf.
    destruct (build_vsrs (o_vsrs o) v (v_routes v)) as [rl w]. inversion Hf.
  - destruct (tls_passthrough c); [|destruct H].
    apply in_filter_map in H. destruct H as ([k0 t] & Ht & Hf). cbn [snd] in Hf. destruct (is_passthrough t); inversion Hf.
Qed.

Lemma uids_distinct_claims o host p : objs_ok o -> uids_ok o -> uids_distinct (claimants (claims_of (minions_of (o_ings o) host)) p).
Proof.
  intros (W1 & _ & _ & _ & K1 & _) UD x y Hx Hy Hne Hu. apply Hne.
  assert (G : forall z, In z (claimants (claims_of (minions_of (o_ings o) host)) p) ->
              exists k i, In (k, i) (o_ings o) /\ z = (mkey (i_meta i), i_meta i)).
  { intros z Hz. unfold claimants in Hz. apply in_map_iff in Hz. destruct Hz as ([q h] & Ez & Hin). cbn in Ez. subst h.
    apply filter_In in Hin. destruct Hin as [Hin _]. unfold claims_of in Hin. apply in_flat_map in Hin. destruct Hin as (i & Hi & Hc).
    apply in_map_iff in Hc. destruct Hc as (q' & Ec & _). inversion Ec; subst. apply minions_of_exact in Hi. destruct Hi as (k & Hk & _). eauto. }
  destruct (G x Hx) as (k1 & i & Hi & ->). destruct (G y Hy) as (k2 & j & Hj & ->).
  unfold uid_of in Hu. cbn [snd] in Hu. rewrite (UD _ _ _ _ Hi Hj Hu). reflexivity.
Qed.

Section Static.
  Variables (c : cfg) (o : objs).
  Hypothesis Hcm : cert_manager c = false.
  Hypothesis Hok : objs_ok o.
  Hypothesis Hwf : objs_wf c o.
  Hypothesis UD : uids_ok o.

  (* the warning flag of the success reported for an attached minion that serves no path *)
  Theorem unserving_minion_warned h ic m :
    lookup h (hosts_of_objs c o) = Some (RIng ic) -> In m (ic_minions ic) -> minion_serves o (mc_ing m) = false ->
    nonempty (get [] (key_of_ing (mc_ing m)) (ic_child_warnings ic)) = true.
  Proof.
    intros Hh Hm Hns.
    destruct (attached_minion_facts c o Hcm Hok Hwf h ic m Hh Hm) as ((k0 & Hst) & Hmin & Hmas & Hhost & _ & _).
    pose proof (b_hosts_res _ _ _ _ _ _ _ _ Hh) as Hres.
    rewrite (res_shape_cw c o _ ic Hcm Hres), Hmas, build_minions_cw.
    set (ms := minions_of (o_ings o) (host0 (ic_ing ic))).
    assert (Hi : In (mc_ing m) ms) by (apply minions_of_exact; exists k0; auto).
    destruct Hwf as (_ & Wp & _). pose proof (Wp _ _ Hst Hmin) as Hpaths.
    destruct (i_paths (mc_ing m)) as [|p0 ps] eqn:Ep; [congruence|].
    destruct Hok as (W1 & W2 & W3 & W4 & K1 & K2 & K3 & K4).
    destruct (minion_warned ms (mc_ing m) p0 (minions_of_distinct _ _ W1 K1)
                (uids_distinct_claims o _ p0 (conj W1 (conj W2 (conj W3 (conj W4 (conj K1 (conj K2 (conj K3 K4))))))) UD) Hi
                (ltac:(rewrite Ep; left; reflexivity))) as [Hl|Hw].
    - exfalso. unfold minion_serves in Hns. rewrite Ep in Hns. cbn [existsb] in Hns. apply orb_false_iff in Hns. destruct Hns as [Hns _].
      rewrite Hhost in Hns. change (path_claims (o_ings o) (host0 (ic_ing ic))) with (claims_of ms) in Hns.
      destruct (least (claimants (claims_of ms) p0)) as [[k1 m1]|]; [|discriminate]. cbn in Hl. inversion Hl; subst k1.
      cbn [fst] in Hns. unfold key_of_ing in Hns. rewrite String.eqb_refl in Hns. discriminate.
    - unfold get, key_of_ing. unfold cw_get in Hw.
      destruct (lookup (mkey (i_meta (mc_ing m))) (ms_cw (scan ms (mkMS [] [] [])))) as [l|]; [|congruence]. destruct l; [congruence|reflexivity].
  Qed.
End Static.
