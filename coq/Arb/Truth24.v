(* C05 truth proof, part 24: the theorem *)
From Coq Require Import List ZArith String Ascii Bool Lia.
From NIC Require Import Base.SMap Arb.Types Arb.Model Arb.Spec Arb.WinsProofs Arb.InvProofs Arb.OwnerProofs
     Arb.ListenerProofs Arb.ClassProofs Arb.ChangeProofs Arb.ReportProofs Arb.ComposeProofs Arb.Cases Arb.ShadowProofs Arb.ShadowAttrs.
From NIC Require Import Arb.Truth01 Arb.Truth02 Arb.Truth03 Arb.Truth04 Arb.Truth05 Arb.Truth06 Arb.Truth07 Arb.Truth08 Arb.Truth09 Arb.Truth10 Arb.Truth11 Arb.Truth12 Arb.Truth13 Arb.Truth14 Arb.Truth15 Arb.Truth16 Arb.Truth17 Arb.Truth18 Arb.Truth19 Arb.Truth20 Arb.Truth21 Arb.Truth22 Arb.Truth23.
Import ListNotations.
Open Scope string_scope.
Open Scope Z_scope.

(* the object is a minion Ingress of the controller's class that passed validation *)
Definition minion_event (e : event) : Prop := match e with EIng i true true => is_minion i = true | _ => False end.

(* After every history: for every object the cluster knows, the judge [truthful] -- the same function that is
   evaluated on the implementation's reports at run time -- accepts the accumulated reports (verdict 0).  The one
   exception left open is verdict 3 for a minion: attached, serving none of its paths, last told "success" without
   a warning. *)
Theorem accumulated_reports_truthful c es : hyps c es ->
  forall k e0, lookup k (cluster es) = Some e0 ->
  truthful c (objs_after es) (view_ob (run c es)) (last_reports c es) k e0 = 0 \/
  (minion_event e0 /\ truthful c (objs_after es) (view_ob (run c es)) (last_reports c es) k e0 = 3).
Proof.
  intros Hy k e0 Lc. pose proof (cluster_ok es k e0 Lc) as Hce.
  destruct e0 as [i cls v| |x cls v| |x cls v| |x cls v| | |]; cbn [cl_entry] in Hce; try contradiction; destruct Hce as [-> Hl].
  - destruct cls; [|left; reflexivity]. destruct v; cbn [andb] in Hl.
    + destruct (is_minion i) eqn:Hm.
      * destruct (verdict_minion c es Hy i Hl Hm) as [H|H]; [left; exact H|right; split; [exact Hm|exact H]].
      * left. exact (verdict_ing c es Hy i Hl Hm).
    + left. exact (verdict_invalid c es Hy _ _ Lc eq_refl).
  - destruct cls; [|left; reflexivity]. destruct v; cbn [andb] in Hl; left.
    + exact (verdict_vs c es Hy x Hl).
    + exact (verdict_invalid c es Hy _ _ Lc eq_refl).
  - destruct cls; [|left; reflexivity]. destruct v; cbn [andb] in Hl; left.
    + exact (verdict_vsr c es Hy x Hl).
    + exact (verdict_invalid c es Hy _ _ Lc eq_refl).
  - destruct cls; [|left; reflexivity]. destruct v; cbn [andb] in Hl; left.
    + exact (verdict_ts c es Hy x Hl).
    + exact (verdict_invalid c es Hy _ _ Lc eq_refl).
Qed.

(* the validation error of the object being processed is reported in the very step (verdict 9 never occurs) *)
Theorem validation_error_reported c s e :
  let '(s', cs, ps) := step c s e in error_reported e (mkObs cs ps [] [] []) = true.
Proof.
  destruct (step c s e) as [[s' cs] ps] eqn:Es. unfold error_reported.
  destruct (event_obj e) as [[k cls]|] eqn:Eo; [|reflexivity]. destruct cls; [|reflexivity]. cbn [ob_changes ob_problems].
  destruct (own_invalid e) eqn:Ei.
  - destruct (invalid_reported c s e k Ei Eo) as [(ch & Hch & Hk & Herr)|(p & Hp & Hk & Herr)]; rewrite Es in *; cbn [fst snd] in *.
    + assert (X : existsb (fun c0 => String.eqb (rkey (c_res c0)) k && c_err c0) cs = true).
      { apply existsb_exists. exists ch. split; [exact Hch|]. unfold ckey in Hk. rewrite Hk, Herr, String.eqb_refl. reflexivity. }
      rewrite X. rewrite orb_true_r. reflexivity.
    + assert (X : existsb (fun p0 => String.eqb (p_obj p0) k && p_is_error p0) ps = true).
      { apply existsb_exists. exists p. split; [exact Hp|]. rewrite Hk, Herr, String.eqb_refl. reflexivity. }
      rewrite X. rewrite orb_true_r. reflexivity.
  - assert (X : negb (match e with EIng _ _ v | EVS _ _ v | EVSR _ _ v | ETS _ _ v => negb v | _ => false end) = true).
    { destruct e; cbn [own_invalid event_obj] in *; try reflexivity; inversion Eo; subst; rewrite andb_true_l in Ei; rewrite Ei; reflexivity. }
    rewrite X. reflexivity.
Qed.
