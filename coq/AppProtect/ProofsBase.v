(* C19 -- basic lemmas: key-aware map over canonical maps, the (timestamp, uid) order,
   insertion sort. *)
From Coq Require Import List ZArith String Ascii Bool Lia Permutation.
From Coq Require Import Structures.OrderedTypeEx.
From NIC Require Import Base.SMap AppProtect.Model AppProtect.Spec.
Import ListNotations.
Open Scope string_scope.
Open Scope list_scope.
Open Scope Z_scope.

(* ------------------------------------------------------------------------------------------ *)
(* canonical maps *)

Section Maps.
  Context {A B : Type}.
  Variable f : string -> A -> B.

  Lemma lookup_mapk k (m : smap A) : lookup k (mapk f m) = option_map (f k) (lookup k m).
  Proof.
    induction m as [|[k' v] r IH]; cbn; [reflexivity|].
    destruct (String.eqb k k') eqn:E; [|exact IH].
    apply String.eqb_eq in E. subst. reflexivity.
  Qed.

  Lemma keys_mapk (m : smap A) : keys (mapk f m) = keys m.
  Proof. unfold keys, mapk. rewrite map_map. reflexivity. Qed.

  Lemma wf_mapk (m : smap A) : wf m -> wf (mapk f m).
  Proof.
    induction 1 as [|k v r W IH Ab]; cbn; constructor; auto.
    intros k' Hin. apply Ab. fold (mapk f r) in Hin. rewrite keys_mapk in Hin. exact Hin.
  Qed.

  Lemma mapk_insert k v (m : smap A) : mapk f (insert k v m) = insert k (f k v) (mapk f m).
  Proof.
    induction m as [|[k' v'] r IH]; cbn; [reflexivity|].
    destruct (String.compare k k') eqn:E; cbn; try reflexivity.
    f_equal. exact IH.
  Qed.

  Lemma mapk_remove k (m : smap A) : mapk f (remove k m) = remove k (mapk f m).
  Proof.
    induction m as [|[k' v'] r IH]; cbn; [reflexivity|].
    destruct (String.eqb k k'); cbn; [reflexivity|]. f_equal. exact IH.
  Qed.

  Lemma in_mapk k e (m : smap A) : In (k, e) (mapk f m) <-> exists v, In (k, v) m /\ e = f k v.
  Proof.
    unfold mapk. rewrite in_map_iff. split.
    - intros [[k' v] [H1 H2]]. cbn in H1. inversion H1; subst. eauto.
    - intros [v [H1 H2]]. exists (k, v). subst. auto.
  Qed.
End Maps.

Lemma mapk_ext {A B} (f g : string -> A -> B) (m : smap A) :
  (forall k v, In (k, v) m -> f k v = g k v) -> mapk f m = mapk g m.
Proof.
  intros H. unfold mapk. apply map_ext_in. intros [k v] Hin. cbn. f_equal. apply H. exact Hin.
Qed.

Lemma mapk_mapk {A B C} (f : string -> A -> B) (g : string -> B -> C) (m : smap A) :
  mapk g (mapk f m) = mapk (fun k v => g k (f k v)) m.
Proof. unfold mapk. rewrite map_map. reflexivity. Qed.

Lemma remove_absent {A} k (m : smap A) : lookup k m = None -> remove k m = m.
Proof.
  induction m as [|[k' v] r IH]; cbn; [reflexivity|].
  destruct (String.eqb k k'); [discriminate|]. intros H. f_equal. auto.
Qed.

Lemma insert_same {A} k (v : A) (m : smap A) : wf m -> lookup k m = Some v -> insert k v m = m.
Proof.
  induction 1 as [|k' v' r W IH Ab]; cbn; [discriminate|].
  destruct (String.eqb k k') eqn:E.
  - apply String.eqb_eq in E. subst. intros H. inversion H; subst.
    rewrite scompare_refl. reflexivity.
  - intros H. destruct (String.compare k k') eqn:C.
    + apply String.compare_eq_iff in C. subst. rewrite String.eqb_refl in E. discriminate.
    + exfalso. assert (Hin : In k (keys r)) by (apply in_keys_lookup; congruence).
      pose proof (Ab _ Hin) as Hlt. unfold slt in Hlt, C.
      rewrite String.compare_antisym, Hlt in C. discriminate.
    + f_equal. auto.
Qed.

Lemma wf_nil_smap {A} : wf (@nil (string * A)).
Proof. constructor. Qed.

(* ------------------------------------------------------------------------------------------ *)
(* the order on signatures *)

Lemma uid_gt_irrefl u : uid_gt u u = false.
Proof. unfold uid_gt. rewrite scompare_refl. reflexivity. Qed.

Lemma uid_gt_slt a b : uid_gt a b = true <-> slt b a.
Proof.
  unfold uid_gt. split.
  - destruct (String.compare a b) eqn:E; try discriminate. intros _. apply scompare_gt_lt. exact E.
  - intros H. rewrite (scompare_lt_gt _ _ H). reflexivity.
Qed.

Lemma older_is_obj_less a b : older a b = obj_less a b.
Proof.
  unfold older, obj_less. destruct (so_ts a =? so_ts b) eqn:E.
  - apply Z.eqb_eq in E. rewrite E, Z.ltb_irrefl. cbn.
    unfold uid_gt. rewrite (String.compare_antisym (so_uid b) (so_uid a)).
    destruct (String.compare (so_uid a) (so_uid b)); reflexivity.
  - rewrite andb_false_l, orb_false_r. reflexivity.
Qed.

Lemma obj_less_irrefl a : obj_less a a = false.
Proof. unfold obj_less. rewrite Z.eqb_refl. apply uid_gt_irrefl. Qed.

Lemma obj_less_asym a b : obj_less a b = true -> obj_less b a = false.
Proof.
  unfold obj_less. rewrite (Z.eqb_sym (so_ts b)).
  destruct (so_ts a =? so_ts b) eqn:E.
  - intros H. apply uid_gt_slt in H.
    destruct (uid_gt (so_uid b) (so_uid a)) eqn:G; [|reflexivity].
    apply uid_gt_slt in G. exfalso. exact (slt_irrefl _ (slt_trans _ _ _ H G)).
  - intros H. apply Z.ltb_lt in H. apply Z.ltb_ge. lia.
Qed.

(* le a b = not (b < a); transitive because the order is a lexicographic product of total orders *)
Definition obj_le (a b : sigobj) : bool := negb (obj_less b a).

Lemma obj_le_trans a b c : obj_le a b = true -> obj_le b c = true -> obj_le a c = true.
Proof.
  unfold obj_le, obj_less. rewrite !negb_true_iff.
  destruct (so_ts b =? so_ts a) eqn:Eba; destruct (so_ts c =? so_ts b) eqn:Ecb;
    destruct (so_ts c =? so_ts a) eqn:Eca;
    rewrite ?Z.eqb_eq, ?Z.eqb_neq, ?Z.ltb_ge in *; intros H1 H2; try lia.
  - (* all equal: uids *)
    destruct (uid_gt (so_uid c) (so_uid a)) eqn:G; [|reflexivity].
    apply uid_gt_slt in G.
    assert (N1 : ~ slt (so_uid a) (so_uid b)).
    { intros L. assert (X : uid_gt (so_uid b) (so_uid a) = true) by (apply uid_gt_slt; exact L). congruence. }
    assert (N2 : ~ slt (so_uid b) (so_uid c)).
    { intros L. assert (X : uid_gt (so_uid c) (so_uid b) = true) by (apply uid_gt_slt; exact L). congruence. }
    exfalso.
    destruct (slt_total (so_uid a) (so_uid b)) as [L|[L|L]]; [exact (N1 L)| |].
    + rewrite L in G. exact (N2 G).
    + destruct (slt_total (so_uid b) (so_uid c)) as [M|[M|M]]; [exact (N2 M)| |].
      * rewrite <- M in G. exact (N1 G).
      * exact (slt_irrefl _ (slt_trans _ _ _ G (slt_trans _ _ _ M L))).
Qed.

Lemma obj_le_refl a : obj_le a a = true.
Proof. unfold obj_le. rewrite obj_less_irrefl. reflexivity. Qed.

Lemma obj_less_le a b : obj_less a b = true -> obj_le a b = true.
Proof. intros H. unfold obj_le. rewrite (obj_less_asym _ _ H). reflexivity. Qed.

(* totality needs distinct uids when the timestamps coincide *)
Lemma obj_less_total a b : so_uid a <> so_uid b -> obj_less a b = true \/ obj_less b a = true.
Proof.
  intros Hne. unfold obj_less. rewrite (Z.eqb_sym (so_ts b)).
  destruct (so_ts a =? so_ts b) eqn:E.
  - destruct (slt_total (so_uid a) (so_uid b)) as [L|[L|L]]; [|contradiction|].
    + right. apply uid_gt_slt. exact L.
    + left. apply uid_gt_slt. exact L.
  - apply Z.eqb_neq in E. destruct (Z.lt_total (so_ts a) (so_ts b)) as [L|[L|L]]; [|contradiction|].
    + left. apply Z.ltb_lt. exact L.
    + right. apply Z.ltb_lt. exact L.
Qed.

(* ------------------------------------------------------------------------------------------ *)
(* insertion sort *)

Lemma sig_ins_perm x l : Permutation (sig_ins x l) (x :: l).
Proof.
  induction l as [|y r IH]; cbn; [apply Permutation_refl|].
  destruct (sig_less x y); [apply Permutation_refl|].
  eapply perm_trans; [apply perm_skip; exact IH|apply perm_swap].
Qed.

Lemma sig_sort_perm l : Permutation (sig_sort l) l.
Proof.
  induction l as [|x r IH]; cbn; [constructor|].
  eapply perm_trans; [apply sig_ins_perm|]. apply perm_skip. exact IH.
Qed.

Definition sig_le (a b : string * UserSigEx) : bool := negb (sig_less b a).

Definition head_min (l : list (string * UserSigEx)) : Prop :=
  match l with
  | [] => True
  | h :: _ => forall x, In x l -> sig_le h x = true
  end.

Lemma sig_ins_head_min x l : head_min l -> head_min (sig_ins x l).
Proof.
  destruct l as [|y r]; cbn.
  - intros _ z [<-|[]]. unfold sig_le, sig_less. apply (obj_le_refl (s_obj (snd x))).
  - intros H. destruct (sig_less x y) eqn:E; cbn.
    + intros z [<-|Hz].
      * apply (obj_le_refl (s_obj (snd x))).
      * unfold sig_le, sig_less in *.
        eapply (obj_le_trans _ (s_obj (snd y))); [apply obj_less_le; exact E|].
        apply (H z). exact Hz.
    + intros z [<-|Hz].
      * apply (obj_le_refl (s_obj (snd y))).
      * assert (Hz' : In z (x :: r)) by (eapply Permutation_in; [apply sig_ins_perm|exact Hz]).
        destruct Hz' as [<-|Hz'].
        -- unfold sig_le. rewrite E. reflexivity.
        -- apply H. right. exact Hz'.
Qed.

Lemma sig_sort_head_min l : head_min (sig_sort l).
Proof. induction l as [|x r IH]; cbn; [exact I|]. apply sig_ins_head_min. exact IH. Qed.

(* the head of the sorted group is below every member of the group *)
Lemma sig_sort_head l w rest :
  sig_sort l = w :: rest -> forall x, In x l -> obj_le (s_obj (snd w)) (s_obj (snd x)) = true.
Proof.
  intros E x Hx. pose proof (sig_sort_head_min l) as H. rewrite E in H. cbn in H.
  apply (H x). change (In x (w :: rest)). rewrite <- E.
  eapply Permutation_in; [apply Permutation_sym, sig_sort_perm|exact Hx].
Qed.

(* ------------------------------------------------------------------------------------------ *)
(* the sorted slice does not depend on the order in which the map iteration (or the sorting
   algorithm) presented the group, when the uids are distinct: two sorted permutations of a list
   with distinct uids are equal *)

Fixpoint ssorted (l : list (string * UserSigEx)) : Prop :=
  match l with
  | [] => True
  | h :: r => (forall x, In x r -> sig_le h x = true) /\ ssorted r
  end.

Lemma sig_le_trans a b c : sig_le a b = true -> sig_le b c = true -> sig_le a c = true.
Proof. unfold sig_le, sig_less. apply obj_le_trans. Qed.

Lemma sig_ins_ssorted x l : ssorted l -> ssorted (sig_ins x l).
Proof.
  induction l as [|y r IH]; cbn; [intros _; split; [intros ? []|exact I]|].
  intros [Hy Hr]. destruct (sig_less x y) eqn:E; cbn.
  - split; [|split; assumption]. intros z [<-|Hz].
    + unfold sig_le, sig_less in *. apply obj_less_le. exact E.
    + apply (sig_le_trans _ y); [unfold sig_le, sig_less in *; apply obj_less_le; exact E|apply Hy; exact Hz].
  - split; [|apply IH; exact Hr]. intros z Hz.
    assert (Hz' : In z (x :: r)) by (eapply Permutation_in; [apply sig_ins_perm|exact Hz]).
    destruct Hz' as [<-|Hz']; [unfold sig_le; rewrite E; reflexivity|apply Hy; exact Hz'].
Qed.

Lemma sig_sort_ssorted l : ssorted (sig_sort l).
Proof. induction l as [|x r IH]; cbn; [exact I|]. apply sig_ins_ssorted. exact IH. Qed.

Definition uid_of (ke : string * UserSigEx) : string := so_uid (s_obj (snd ke)).

Lemma ssorted_perm_unique l : forall l',
  NoDup (map uid_of l) -> ssorted l -> ssorted l' -> Permutation l l' -> l = l'.
Proof.
  induction l as [|h r IH]; intros l' N S1 S2 P.
  - apply Permutation_nil in P. subst. reflexivity.
  - destruct l' as [|h' r']; [apply Permutation_sym, Permutation_nil in P; discriminate|].
    cbn in S1, S2. destruct S1 as [H1 S1]. destruct S2 as [H2 S2].
    assert (Eh : h = h').
    { assert (In1 : In h (h' :: r')) by (eapply Permutation_in; [exact P|left; reflexivity]).
      assert (In2 : In h' (h :: r)) by (eapply Permutation_in; [apply Permutation_sym; exact P|left; reflexivity]).
      destruct In1 as [E|In1]; [auto|]. destruct In2 as [E|In2]; [auto|].
      pose proof (H2 _ In1) as L1. pose proof (H1 _ In2) as L2.
      assert (Hu : uid_of h <> uid_of h').
      { cbn in N. inversion N as [|? ? Hn _]. intros E. apply Hn. rewrite E. apply in_map. exact In2. }
      unfold sig_le, sig_less in L1, L2.
      destruct (obj_less_total (s_obj (snd h)) (s_obj (snd h')) Hu) as [T|T]; rewrite T in *; discriminate. }
    subst h'. f_equal. apply IH; auto.
    + cbn in N. inversion N; assumption.
    + eapply Permutation_cons_inv. exact P.
Qed.

Theorem sig_sort_perm_invariant l l' :
  NoDup (map uid_of l) -> Permutation l l' -> sig_sort l = sig_sort l'.
Proof.
  intros N P. apply ssorted_perm_unique.
  - eapply Permutation_NoDup; [apply Permutation_map, Permutation_sym, sig_sort_perm|exact N].
  - apply sig_sort_ssorted.
  - apply sig_sort_ssorted.
  - eapply perm_trans; [apply sig_sort_perm|]. eapply perm_trans; [exact P|apply Permutation_sym, sig_sort_perm].
Qed.
